/* C01 harness: drives the four COBS encoders of mptcore/convert directly on an
 * exact-size heap window (ASan sees any write past the granted capacity) and
 * decodes the finished frames with the library's own decoder of the same framing.
 *
 * case:  <id> <variant 0=cobs 1=cobs/r 2=zpe 3=zpe/r 4=zero-terminated command text> <op> <args> ...
 *   call CAP HEX      one encoder call, window = CAP bytes, data HEX ("-" = zero length)
 *   term CAP          one termination call (base = NULL)
 *   pushall SCHED HEX array_push-like loop: on MissingBuffer grow by the next increment of
 *                     SCHED (comma list, cyclic) and retry; continue after partial consumption
 *   termall SCHED     same loop for termination
 *   msg               decode buffer[0..done) with the real decoder, print the messages
 * tokens:
 *   C:<rc>|<done>|<scratch>|<ctx!=0>|<hex of buffer[0..done+scratch)>      (call, term)
 *   P:<consumed or error>|<done>|<scratch>|<ctx!=0>|<cap>|<hex>            (pushall, termall)
 *   M:<zero bytes in finished part>|<msg1>,<msg2>,...                      (msg)
 */
#include "common.h"
#include <sys/uio.h>
#include "convert.h"
#include "array.h"

typedef ssize_t (*enc_fn)(MPT_STRUCT(encode_state) *, const struct iovec *, const struct iovec *);
typedef int (*dec_fn)(MPT_STRUCT(decode_state) *, const struct iovec *, size_t);
static enc_fn encs[] = { mpt_encode_cobs, mpt_encode_cobs_r, mpt_encode_cobs_zpe, mpt_encode_cobs_zpe_r, mpt_encode_string };
static dec_fn decs[] = { mpt_decode_cobs, mpt_decode_cobs_r, mpt_decode_cobs_zpe, mpt_decode_cobs_zpe_r, mpt_decode_command };
/* the coders are taken through the library's selectors (mptcore/convert/encoder.c, decoder.c), the way users name a framing;
 * a selector that hands out another coder than the one the framing names shows as a differing frame */
static const int codes[] = {
	MPT_ENUM(EncodingCobs), MPT_ENUM(EncodingCobsInline),
	MPT_ENUM(EncodingCobs) | MPT_ENUM(EncodingCompress), MPT_ENUM(EncodingCobsInline) | MPT_ENUM(EncodingCompress),
	MPT_ENUM(EncodingCommand)
};
static enc_fn sel_enc(int v)
{
	enc_fn e = (enc_fn) mpt_message_encoder(codes[v]);
	if (!e || mpt_message_encoder(0) || mpt_message_encoder(0x7f)) { vh_tok("SELECT"); return encs[v]; }
	return e;
}
static dec_fn sel_dec(int v)
{
	dec_fn d = (dec_fn) mpt_message_decoder(codes[v]);
	if (!d || mpt_message_decoder(0) || mpt_message_decoder(0x7f)) { vh_tok("SELECT"); return decs[v]; }
	return d;
}

static uint8_t *win;
static size_t cap;
static MPT_STRUCT(encode_state) st;

static void set_cap(size_t n)
{
	uint8_t *nw = malloc(n ? n : 1);
	size_t keep = st.done + st.scratch;
	if (keep > n) keep = n;
	if (keep > cap) keep = cap;
	if (win && keep) memcpy(nw, win, keep);
	free(win);
	win = nw;
	cap = n;
}
static void show_state(void)
{
	size_t n = st.done + st.scratch;
	vh_add("|%zu|%zu|%d|", (size_t) st.done, (size_t) st.scratch, st._ctx ? 1 : 0);
	if (n > cap) { vh_add("OVER"); return; }
	vh_hex(win, n);
}
static size_t next_inc(const char *sched, int *pos)
{
	/* comma separated increments, cyclic */
	const char *s = sched;
	int i;
	for (i = 0; i < *pos; i++) {
		const char *c = strchr(s, ',');
		if (!c) { *pos = 0; s = sched; break; }
		s = c + 1;
	}
	(*pos)++;
	return strtoul(s, 0, 10);
}
/* the real mpt_array_push on an encode_array; afterwards the window variables mirror the array so
 * that the other operations (msg) see the same state */
static MPT_STRUCT(encode_array) arr;
static void mirror_array(void)
{
	MPT_STRUCT(buffer) *b = arr._d._buf;
	size_t used = b ? b->_used : 0;
	st = arr._state;
	free(win);
	cap = b ? b->_size : 0;
	win = malloc(cap ? cap : 1);
	if (used) memcpy(win, b + 1, used > cap ? cap : used);
}
static void run_case(int ntok, char **tok)
{
	int v = vh_int(tok[1]);
	int t = 2;
	enc_fn enc = sel_enc(v);
	memset(&st, 0, sizeof(st));
	memset(&arr, 0, sizeof(arr));
	arr._enc = enc;
	win = 0; cap = 0;
	while (t < ntok) {
		const char *op = tok[t++];
		if (!strcmp(op, "call") || !strcmp(op, "term")) {
			struct iovec w, f;
			size_t n = 0;
			uint8_t *d = 0;
			ssize_t rc;
			set_cap(vh_int(tok[t++]));
			if (op[0] == 'c') d = vh_unhex(tok[t++], &n);
			w.iov_base = win; w.iov_len = cap;
			f.iov_base = d; f.iov_len = n;
			rc = enc(&st, &w, d ? &f : 0);
			vh_tok("C:%zd", rc);
			show_state();
			free(d);
		}
		else if (!strcmp(op, "del")) {
			/* delete the message in progress (a source of length 1 without data); only asked while one is in
			 * progress: the request for FINISHED messages is outside the model (it searches in the null source) */
			struct iovec w, f;
			if (v < 4 && st._ctx) {
				ssize_t rc;
				w.iov_base = win; w.iov_len = cap;
				f.iov_base = 0; f.iov_len = 1;
				rc = enc(&st, &w, &f);
				vh_tok("C:%zd", rc);
				show_state();
			}
			else vh_tok("C:skip");
		}
		else if (!strcmp(op, "pushall") || !strcmp(op, "termall")) {
			const char *sched = tok[t++];
			size_t n = 0, off = 0;
			uint8_t *d = 0;
			ssize_t rc = 0;
			int sp = 0, guard = 0;
			if (op[0] == 'p') d = vh_unhex(tok[t++], &n);
			while (1) {
				struct iovec w, f;
				w.iov_base = win; w.iov_len = cap;
				f.iov_base = d + off; f.iov_len = n - off;
				rc = enc(&st, &w, d ? &f : 0);
				if (rc == MPT_ERROR(MissingBuffer)) {
					size_t inc = next_inc(sched, &sp);
					if (!inc || ++guard > 200000) break;
					set_cap(cap + inc);
					continue;
				}
				if (rc < 0) break;
				if (!d) break;
				off += rc;
				if (off >= n) break;
				if (!rc && ++guard > 200000) break;
			}
			if (rc < 0) vh_tok("P:%zd", rc);
			else vh_tok("P:%zu", off);
			show_state();
			vh_add("|%zu", cap);
			free(d);
		}
		else if (!strcmp(op, "apush") || !strcmp(op, "aterm")) {
			size_t n = 0;
			uint8_t *d = 0;
			ssize_t rc;
			if (op[1] == 'p') d = vh_unhex(tok[t++], &n);
			rc = mpt_array_push(&arr, n, d);
			mirror_array();
			vh_tok("P:%zd", rc);
			show_state();
			vh_add("|%zu", cap);
			free(d);
		}
		else if (!strcmp(op, "msg")) {
			/* decode the finished part up to its last delimiter, with slack in front
			 * (the in-place decoder needs room for ZPE) */
			size_t fin = st.done, slack, i, zeros = 0, term = 0;
			uint8_t *buf;
			MPT_STRUCT(decode_state) ds = MPT_DECODE_INIT;
			struct iovec src;
			int first = 1, guard = 0;
			for (i = 0; i < fin; i++) if (!win[i]) { zeros++; term = i + 1; }
			slack = term + 16;
			buf = malloc(slack + term + 1);
			memset(buf, 0xee, slack);
			if (term) memcpy(buf + slack, win, term);
			ds.curr = slack;
			src.iov_base = buf; src.iov_len = slack + term;
			vh_tok("M:%zu|", zeros);
			while (++guard < 100000) {
				int r = sel_dec(v)(&ds, &src, 1);
				if (r <= 0 || ds.data.msg < 0) {
					if (r < 0 && !(r == MPT_ERROR(MissingData) && ds.curr >= slack + term)) { vh_add("%sX", first ? "" : ","); first = 0; }
					else if (ds.curr < slack + term) { vh_add("%sX", first ? "" : ","); first = 0; }
					break;
				}
				if (!first) vh_add(",");
				first = 0;
				vh_hex(buf + ds.data.pos, ds.data.msg);
			}
			if (fin > term) { vh_add("%sREST%zu", first ? "" : ",", fin - term); first = 0; }
			if (first) vh_add("-");
			free(buf);
		}
		else if (!strcmp(op, "py")) {
			/* frame produced by mpt.py (captured by the generator): decode with the C decoder */
			size_t ml, fl, slack;
			uint8_t *m = vh_unhex(tok[t++], &ml), *f = vh_unhex(tok[t++], &fl), *buf;
			MPT_STRUCT(decode_state) ds = MPT_DECODE_INIT;
			struct iovec src;
			int r;
			slack = fl + 16;
			buf = malloc(slack + fl + 1);
			memset(buf, 0xee, slack);
			if (fl) memcpy(buf + slack, f, fl);
			ds.curr = slack;
			src.iov_base = buf; src.iov_len = slack + fl;
			r = mpt_decode_cobs(&ds, &src, 1);
			vh_tok("Y:");
			if (r == 1 && ds.data.msg >= 0 && ds.curr == slack + fl) vh_hex(buf + ds.data.pos, ds.data.msg);
			else vh_add("X");
			vh_add("|");
			vh_hex(f, fl);
			free(buf); free(m); free(f);
		}
		else { vh_tok("?%s", op); break; }
	}
	free(win);
	if (arr._d._buf) arr._d._buf->_vptr->unref(arr._d._buf);
}
int main(int argc, char **argv) { return vh_main(argc, argv, run_case); }
