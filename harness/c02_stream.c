/* C02 harness: a framed output queue (mpt_queue_push over a ring) feeding a framed input
 * queue (mpt_queue_recv / mpt_queue_shift / mpt_message_get over a ring) through a byte
 * "wire" that the case cuts into arbitrary segments.
 *
 * case: <id> <variant 0..3> <wcap> <woff> <rcap> <roff> <op>...   (the reader ring grows on demand like
 *       mpt_stream_poll's mpt_queue_prepare; the writer ring is fixed: the writer makes room by delivering)
 *   send HEX     push the message (retrying after making room by delivering finished bytes and
 *                receiving), then terminate it
 *   part HEX     push a piece of a message (same retry rule), no termination
 *   fin          terminate the current message
 *   wire N       move up to N finished bytes from the writer ring to the reader ring
 *   raw HEX      put arbitrary bytes into the reader ring (malformed input, used by the C03 check)
 *   recv         one mpt_queue_recv (a delivered message is printed)
 *   drain        wire + recv until nothing moves any more
 * tokens: <status>:<msg>,<msg>...   status = ok | fail<rc> ; messages received during the op ("-" none)
 */
#include "common.h"
#include <sys/uio.h>
#include <errno.h>
#include "convert.h"
#include "message.h"
#include "queue.h"

typedef ssize_t (*enc_fn)(MPT_STRUCT(encode_state) *, const struct iovec *, const struct iovec *);
typedef int (*dec_fn)(MPT_STRUCT(decode_state) *, const struct iovec *, size_t);
static enc_fn encs[] = { mpt_encode_cobs, mpt_encode_cobs_r, mpt_encode_cobs_zpe, mpt_encode_cobs_zpe_r };
static dec_fn decs[] = { mpt_decode_cobs, mpt_decode_cobs_r, mpt_decode_cobs_zpe, mpt_decode_cobs_zpe_r };

static MPT_STRUCT(encode_queue) w;
static MPT_STRUCT(decode_queue) r;
static int nrecv;

static void out_msg(const uint8_t *d, size_t n)
{
	vh_add(nrecv++ ? "," : "");
	if (!n) vh_add("E"); else vh_hex(d, n);
}
/* one receive attempt; returns 1 if a message was printed */
static int do_recv(void)
{
	int rc = mpt_queue_recv(&r);
	/* the reader asks for buffer space: give it, as mpt_stream_poll does for a full ring */
	if (rc == MPT_ERROR(MissingBuffer) && mpt_queue_prepare(&r.data, 64)) {
		rc = mpt_queue_recv(&r);
	}
	if (rc == 1 && r._state.data.msg >= 0) {
		MPT_STRUCT(message) msg = MPT_MESSAGE_INIT;
		struct iovec vec;
		size_t n = r._state.data.msg;
		uint8_t *tmp = malloc(n ? n : 1);
		if (mpt_message_get(&r.data, r._state.data.pos, n, &msg, &vec) < 0
		    || mpt_message_read(&msg, n, tmp) != n) {
			vh_add(nrecv++ ? "," : ""); vh_add("GETFAIL");
		} else {
			out_msg(tmp, n);
		}
		free(tmp);
		return 1;
	}
	return 0;
}
/* move up to n finished bytes from writer to reader; returns the count moved */
static size_t do_wire(size_t n)
{
	size_t k = w._state.done;
	uint8_t *tmp;
	if (k > n) k = n;
	if (!k) return 0;
	/* the reader enlarges its ring when it is short of room, as mpt_stream_poll does */
	if (r.data.max - r.data.len < k && !mpt_queue_prepare(&r.data, k)) return 0;
	tmp = malloc(k);
	if (mpt_queue_get(&w.data, 0, k, tmp) < 0) { free(tmp); return 0; }
	mpt_queue_crop(&w.data, 0, k);
	w._state.done -= k;
	mpt_qpush(&r.data, k, tmp);
	free(tmp);
	return k;
}
static void pump(void)
{
	int guard = 0, idle = 0;
	while (++guard < 100000 && idle < 3) {
		size_t k = do_wire(1 << 30);
		int got = do_recv();
		idle = (k || got) ? 0 : idle + 1;
	}
}
static ssize_t push_all(const uint8_t *d, size_t n)
{
	size_t off = 0;
	int stuck = 0;
	ssize_t rc = 0;
	while (off < n || !d) {
		rc = mpt_queue_push(&w, d ? n - off : 0, d ? d + off : 0);
		if (!d) {
			if (rc >= 0) return 0;
		} else if (rc > 0) {
			off += rc; stuck = 0;
			continue;
		}
		/* no progress: make room */
		if (++stuck > 3) return rc < 0 ? rc : -99;
		pump();
	}
	return 0;
}
static void ring_init(MPT_STRUCT(queue) *q, size_t cap, size_t off)
{
	q->base = malloc(cap ? cap : 1);
	memset(q->base, 0xee, cap);
	q->max = cap; q->off = cap ? off % cap : 0; q->len = 0;
}
static void run_case(int ntok, char **tok)
{
	int v = vh_int(tok[1]), t = 6;
	memset(&w, 0, sizeof(w)); memset(&r, 0, sizeof(r));
	ring_init(&w.data, vh_int(tok[2]), vh_int(tok[3]));
	ring_init(&r.data, vh_int(tok[4]), vh_int(tok[5]));
	w._enc = encs[v];
	r._dec = decs[v];
	r._state.data.msg = -1;
	while (t < ntok) {
		const char *op = tok[t++];
		ssize_t rc = 0;
		nrecv = 0;
		vh_tok("");
		if (!strcmp(op, "send") || !strcmp(op, "part")) {
			size_t n; uint8_t *d = vh_unhex(tok[t++], &n);
			/* status is printed after the messages; collect it */
			fputs("", stdout);
			{
				/* print messages first into the token, then status: use a marker layout m1,m2|status */
				if (n) rc = push_all(d, n);
				if (rc >= 0 && op[0] == 's') rc = push_all(0, 0);
			}
			free(d);
		}
		else if (!strcmp(op, "fin")) rc = push_all(0, 0);
		else if (!strcmp(op, "wire")) { do_wire(vh_int(tok[t++])); }
		else if (!strcmp(op, "raw")) {
			/* arbitrary bytes into the reader ring (the reader half of do_wire) */
			size_t n; uint8_t *d = vh_unhex(tok[t++], &n);
			if (n && (r.data.max - r.data.len >= n || mpt_queue_prepare(&r.data, n))) mpt_qpush(&r.data, n, d);
			free(d);
		}
		else if (!strcmp(op, "wopen")) {
			/* an open block [code, data...] placed by a raw push (no encoder installed): the only way the
			 * scratch bytes come to straddle the ring end, the state the out-of-band branch handles */
			size_t n; uint8_t *d = vh_unhex(tok[t++], &n);
			if (n && !w._state.scratch && w.data.max - w.data.len >= n) {
				w._enc = 0;
				(void) mpt_queue_push(&w, n, d);
				w._enc = encs[v];
			}
			free(d);
		}
		else if (!strcmp(op, "recv")) { do_recv(); }
		else if (!strcmp(op, "drain")) { pump(); }
		else if (!strcmp(op, "peek") || !strcmp(op, "peekn")) {
			/* preview of the message being decoded (mpt_queue_peek); reported behind the status */
			size_t n = vh_int(tok[t++]), i;
			uint8_t *tmp = malloc(n ? n : 1);
			ssize_t pr;
			memset(tmp, 0xee, n ? n : 1);   /* bytes the call leaves untouched (it copies nothing after a decoder error) */
			pr = mpt_queue_peek(&r, n, op[4] ? 0 : tmp);
			if (!nrecv) vh_add("-");
			vh_add("|ok~K%zd:", pr);
			if (op[4] || pr <= 0 || !n) vh_add("-");
			else for (i = 0; i < (size_t) pr && i < n; i++) vh_add("%02x", tmp[i]);
			free(tmp);
			goto state;
		}
		else if (!strcmp(op, "dump")) {
			t = t; /* no token for dump */
			/* debugging aid: writer and reader rings (not used by generated cases) */
			size_t i;
			fprintf(stderr, "W off=%zu len=%zu max=%zu done=%zu scr=%zu ctx=%zu :", w.data.off, w.data.len, w.data.max,
			        (size_t) w._state.done, (size_t) w._state.scratch, (size_t) w._state._ctx);
			for (i = 0; i < w.data.len; i++) fprintf(stderr, " %02x", ((uint8_t *) w.data.base)[(w.data.off + i) % w.data.max]);
			fprintf(stderr, "\nR off=%zu len=%zu max=%zu curr=%zu pos=%zu len=%zu msg=%zd ctx=%zx :", r.data.off, r.data.len, r.data.max,
			        (size_t) r._state.curr, (size_t) r._state.data.pos, (size_t) r._state.data.len, (ssize_t) r._state.data.msg, (size_t) r._state._ctx);
			for (i = 0; i < r.data.len; i++) fprintf(stderr, " %02x", ((uint8_t *) r.data.base)[(r.data.off + i) % r.data.max]);
			fprintf(stderr, "\n");
		}
		else { vh_add("?%s", op); break; }
		if (!nrecv) vh_add("-");
		if (rc < 0) vh_add("|fail%zd", rc); else vh_add("|ok");
state:
		/* mechanism state of both framed queues (compared with the ring-level model only) */
		{
			size_t i;
			vh_add("#w:%zu,%zu,%zu,%zu,%zu,%d|", w.data.off, w.data.len, w.data.max,
			       (size_t) w._state.done, (size_t) w._state.scratch, w._state._ctx ? 1 : 0);
			if (!w.data.len) vh_add("-");
			for (i = 0; i < w.data.len; i++) vh_add("%02x", ((uint8_t *) w.data.base)[(w.data.off + i) % w.data.max]);
			vh_add("#r:%zu,%zu,%zu,%zu,%zu,%zu,%zd,%d,%d|", r.data.off, r.data.len, r.data.max,
			       (size_t) r._state.curr, (size_t) r._state.data.pos, (size_t) r._state.data.len, (ssize_t) r._state.data.msg,
			       (int) (r._state._ctx & 0xff), (int) ((r._state._ctx >> 8) & 0xff));
			/* only the decoded bytes and the unread bytes are meaningful: the scratch gap in between holds
			 * consumed or never written (reallocated) bytes */
			{
				size_t a = r._state.data.pos, b = a + r._state.data.len, c = r._state.curr, any = 0;
				for (i = a; i < b && i < r.data.len; i++, any = 1) vh_add("%02x", ((uint8_t *) r.data.base)[(r.data.off + i) % r.data.max]);
				if (!any) vh_add("-");
				vh_add("|");
				any = 0;
				for (i = c; i < r.data.len; i++, any = 1) vh_add("%02x", ((uint8_t *) r.data.base)[(r.data.off + i) % r.data.max]);
				if (!any) vh_add("-");
			}
		}
	}
	free(w.data.base); free(r.data.base);
}
int main(int argc, char **argv) { return vh_main(argc, argv, run_case); }
