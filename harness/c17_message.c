/* C17 harness: drives mptcore/message/*.c and array/array_message.c on messages
 * whose fragments each live in their own exact-size heap block (ASan sees any
 * access past a fragment, past the iovec array, past a target part).
 * Case line:  <id> <frags> <op> <args> ...       (see ml/c17_driver.ml)
 * A fragment written "_" is the empty fragment { NULL, 0 } (an empty hex string: empty with a live address).
 * Token per operation:  <output>|<remaining message: fragments as hex joined by "/"> */
#include "common.h"
#include <errno.h>
#include <ctype.h>
#include <sys/uio.h>
#include "message.h"
#include "array.h"
#include "queue.h"

#include "types.h"

static MPT_STRUCT(message) msg;   /* the cursor */

/* link-time seam (-Wl,--wrap): mpt_array_append / mpt_array_slice as called from inside
 * the library fail like an allocation failure (NULL, array untouched) once `array_calls_left`
 * calls have succeeded; < 0: never */
static long array_calls_left = -1;
extern void *__real_mpt_array_append(MPT_STRUCT(array) *, size_t, const void *);
extern void *__real_mpt_array_slice(MPT_STRUCT(array) *, size_t, size_t);
void *__wrap_mpt_array_append(MPT_STRUCT(array) *a, size_t len, const void *base)
{
	if (array_calls_left >= 0) {
		if (!array_calls_left) { errno = ENOMEM; return 0; }
		--array_calls_left;
	}
	return __real_mpt_array_append(a, len, base);
}
void *__wrap_mpt_array_slice(MPT_STRUCT(array) *a, size_t off, size_t len)
{
	if (array_calls_left >= 0) {
		if (!array_calls_left) { errno = ENOMEM; return 0; }
		--array_calls_left;
	}
	return __real_mpt_array_slice(a, off, len);
}
static long parse_lim(const char *s) { return (!strcmp(s, "N")) ? -1 : (!strcmp(s, "t")) ? -2 : atol(s); }
static int noparts;               /* message without any part (ndat = 0 for the iovec functions) */

/* exact-size block holding the bytes of a hex token ("-" or "" = empty, in a live zero-size block;
 * "_" = empty WITHOUT address: { NULL, 0 }, what MPT_MESSAGE_INIT and a zeroed iovec are) */
static void *blk(const char *s, size_t n, size_t *len)
{
	uint8_t *b;
	size_t i;
	if (n == 1 && s[0] == '_') { *len = 0; return 0; }
	if (n == 1 && s[0] == '-') n = 0;
	n /= 2;
	b = malloc(n);
	for (i = 0; i < n; i++) { unsigned v; sscanf(s + 2*i, "%2x", &v); b[i] = v; }
	*len = n;
	return b;
}
static char *cstring(const char *s)
{
	size_t n; uint8_t *b; char *r;
	if (!strcmp(s, "N")) return 0;
	b = blk(s, strlen(s), &n);
	r = malloc(n + 1);
	memcpy(r, b, n); r[n] = 0;
	free(b);
	return r;
}
static void set_frags(const char *s)
{
	struct iovec *v;
	size_t n = 0, i;
	const char *p;
	char s0 = s[0];
	memset(&msg, 0, sizeof(msg));
	noparts = 0;
	if (!strcmp(s, "n")) { noparts = 1; return; }
	++s;
	for (p = s, n = 1; *p; ++p) if (*p == ',') ++n;
	v = malloc(n * sizeof(*v));
	for (i = 0; i < n; i++) {
		const char *e = strchr(s, ',');
		size_t l = e ? (size_t) (e - s) : strlen(s);
		v[i].iov_base = blk(s, l, &v[i].iov_len);
		s += l + 1;
	}
	msg.base = v[0].iov_base;
	msg.used = v[0].iov_len;
	msg.clen = n - 1;
	/* continuation array in its own exact-size block; "F...": no continuation array at all for a single part */
	msg.cont = (s0 == 'F' && !msg.clen) ? 0 : malloc(msg.clen * sizeof(*v));
	if (msg.clen) memcpy(msg.cont, v + 1, msg.clen * sizeof(*v));
	free(v);
}
/* the message as one exact-size iovec array */
static struct iovec *as_vec(size_t *n)
{
	struct iovec *v;
	if (noparts) { *n = 0; return malloc(0); }
	*n = msg.clen + 1;
	v = malloc(*n * sizeof(*v));
	v[0].iov_base = (void *) msg.base;
	v[0].iov_len  = msg.used;
	if (msg.clen) memcpy(v + 1, msg.cont, msg.clen * sizeof(*v));
	return v;
}
static void dump_state(void)
{
	size_t i;
	vh_add("|");
	if (noparts) return;
	if (msg.used) vh_hex(msg.base, msg.used);
	for (i = 0; i < msg.clen; i++) {
		vh_add("/");
		if (msg.cont[i].iov_len) vh_hex(msg.cont[i].iov_base, msg.cont[i].iov_len);
	}
}
static void hexz(const void *p, size_t n) { if (n) vh_hex(p, n); }
static void pos_tok(ssize_t r)
{
	if (r >= 0) vh_tok("P:%zd", r);
	else if (r == -2) vh_tok("P:N");
	else vh_tok("P:E%zd", -r);
}
static int f_space(int c, void *p) { (void) p; return isspace(c); }
static int f_nspace(int c, void *p) { (void) p; return !isspace(c); }
static int f_graph(int c, void *p) { (void) p; return isgraph(c); }
static void arr_tok(int r, const MPT_STRUCT(array) *a)
{
	if (r >= 0) vh_tok("D:%d:", r); else vh_tok("D:E%d:", -r);
	if (a->_buf) hexz(a->_buf + 1, a->_buf->_used);
}

static void run_case(int ntok, char **tok)
{
	int t = 2;
	set_frags(tok[1]);
	while (t < ntok) {
		const char *op = tok[t++];
		if (!strcmp(op, "set")) {
			set_frags(tok[t++]);
			vh_tok("L:%zu", noparts ? (size_t) 0 : msg.clen + 1);
		}
		else if (!strcmp(op, "read")) {
			size_t n = vh_int(tok[t++]), r;
			int hd = vh_int(tok[t++]);
			uint8_t *d = hd ? malloc(n) : 0;
			r = mpt_message_read(&msg, n, d);
			noparts = 0;
			vh_tok("R:%zu:", r);
			if (!hd) vh_add("*"); else hexz(d, r);
			free(d);
		}
		else if (!strcmp(op, "len")) {
			vh_tok("L:%zu", mpt_message_length(&msg));
		}
		else if (!strcmp(op, "argv")) {
			ssize_t r = mpt_message_argv(&msg, vh_int(tok[t++]));
			noparts = 0;
			if (r >= 0) vh_tok("A:%zd", r); else vh_tok("A:E%zd", -r);
		}
		else if (!strcmp(op, "chr") || !strcmp(op, "rchr")) {
			size_t n; struct iovec *v = as_vec(&n);
			int b = vh_int(tok[t++]);
			pos_tok(op[0] == 'c' ? mpt_memchr(v, n, b) : mpt_memrchr(v, n, b));
			free(v);
		}
		else if (!strcmp(op, "fcn") || !strcmp(op, "rfcn")) {
			size_t n; struct iovec *v = as_vec(&n);
			int k = vh_int(tok[t++]);
			int (*f)(int, void *) = k == 0 ? f_space : k == 1 ? f_nspace : f_graph;
			pos_tok(op[0] == 'f' ? mpt_memfcn(v, n, f, 0) : mpt_memrfcn(v, n, f, 0));
			free(v);
		}
		else if (!strcmp(op, "str") || !strcmp(op, "rstr")) {
			size_t n, sl; struct iovec *v = as_vec(&n);
			void *set = blk(tok[t], strlen(tok[t]), &sl);
			t++;
			pos_tok(op[0] == 's' ? mpt_memstr(v, n, set, sl) : mpt_memrstr(v, n, set, sl));
			free(set); free(v);
		}
		else if (!strcmp(op, "tok")) {
			size_t n; struct iovec *v = as_vec(&n);
			char *tk = cstring(tok[t++]), *cm = cstring(tok[t++]), *es = cstring(tok[t++]);
			pos_tok(mpt_memtok(v, n, tk, cm, es));
			free(tk); free(cm); free(es); free(v);
		}
		else if (!strcmp(op, "cpy")) {
			size_t n, nd = 0, i; struct iovec *v = as_vec(&n), *d;
			long len = vh_int(tok[t++]);
			const char *s = tok[t++], *p;
			ssize_t r;
			if (strcmp(s, "n")) for (p = s, nd = 1; *p; ++p) if (*p == ',') ++nd;
			d = malloc(nd * sizeof(*d));
			for (i = 0; i < nd; i++) {
				/* "_": empty target part without address */
				if (*s == '_') { d[i].iov_len = 0; d[i].iov_base = 0; ++s; if (*s == ',') ++s; continue; }
				d[i].iov_len = strtol(s, (char **) &s, 10);
				d[i].iov_base = malloc(d[i].iov_len);
				memset(d[i].iov_base, 0xee, d[i].iov_len);
				if (*s == ',') ++s;
			}
			r = mpt_memcpy(len, v, n, d, nd);
			vh_tok("C:%zd:", r);
			for (i = 0; i < nd; i++) hexz(d[i].iov_base, d[i].iov_len);
			free(v);
		}
		else if (!strcmp(op, "app")) {
			MPT_STRUCT(array) a = MPT_ARRAY_INIT;
			size_t pl; void *pre = blk(tok[t], strlen(tok[t]), &pl);
			int r;
			t++;
			if (pl) mpt_array_append(&a, pl, pre);
			r = mpt_message_append(&a, &msg);
			if (r >= 0) vh_tok("D:%d:", r); else vh_tok("D:E%d:", -r);
			if (a._buf) hexz(a._buf + 1, a._buf->_used);
			mpt_array_clone(&a, 0);
			free(pre);
		}
		else if (!strcmp(op, "get")) {
			MPT_STRUCT(queue) q;
			MPT_STRUCT(message) m = MPT_MESSAGE_INIT;
			struct iovec *vec;
			size_t cl, i, off, take;
			uint8_t *c;
			int r, hv;
			q.max = vh_int(tok[t++]);
			q.off = vh_int(tok[t++]);
			c = blk(tok[t], strlen(tok[t]), &cl); t++;
			off = vh_int(tok[t++]);
			take = vh_int(tok[t++]);
			hv = vh_int(tok[t++]);
			q.base = malloc(q.max);
			memset(q.base, 0xee, q.max);
			q.len = cl;
			for (i = 0; i < cl; i++) ((uint8_t *) q.base)[(q.off + i) % q.max] = c[i];
			vec = hv ? malloc(sizeof(*vec)) : 0;
			r = mpt_message_get(&q, off, take, &m, vec);
			if (r >= 0) { vh_tok("G:%d", r); msg = m; noparts = 0; } else vh_tok("G:E%d", -r);
		}
		else if (!strcmp(op, "amsg")) {
			MPT_STRUCT(array) a = MPT_ARRAY_INIT;
			int r = mpt_array_message(&a, &msg, vh_int(tok[t++]));
			if (r >= 0) vh_tok("D:%d:", r); else vh_tok("D:E%d:", -r);
			if (a._buf) hexz(a._buf + 1, a._buf->_used);
			mpt_array_clone(&a, 0);
		}
		else if (!strcmp(op, "appl")) {
		/* append to an array that refuses: "t" = typed buffer (the real refusal of mpt_array_append),
		 * <k> = the (k+1)-th append made by mpt_message_append fails, "N" = none fails */
		MPT_STRUCT(array) a = MPT_ARRAY_INIT;
		size_t pl; void *pre = blk(tok[t], strlen(tok[t]), &pl);
		long lim = parse_lim(tok[t + 1]);
		int r;
		t += 2;
		if (pl) mpt_array_append(&a, pl, pre);
		if (lim == -2) {
			if (!a._buf) { mpt_array_slice(&a, 0, 4); a._buf->_used = 0; }
			a._buf->_content_traits = mpt_type_traits('c');
		}
		array_calls_left = lim < 0 ? -1 : lim;
		r = mpt_message_append(&a, &msg);
		array_calls_left = -1;
		arr_tok(r, &a);
		mpt_array_clone(&a, 0);
		free(pre);
	}
	else if (!strcmp(op, "amsgl") || !strcmp(op, "amsgle")) {
		/* argument array while the (k+1)-th array call (reservation, arguments, separators) fails;
		 * the caller's array holds 5a5a before (amsgl) or has no buffer yet (amsgle) */
		MPT_STRUCT(array) a = MPT_ARRAY_INIT;
		int sep = vh_int(tok[t++]);
		long lim = parse_lim(tok[t++]);
		int r;
		/* (typed like a result of an earlier mpt_array_message: mpt_array_clone refuses to replace a raw buffer by
		 * the typed result, and mpt_array_message does not look at that - independent of fragmentation, not C17's subject) */
		if (!op[5]) {
			mpt_array_append(&a, 2, "ZZ");
			a._buf->_content_traits = mpt_type_traits('c');
		}
		array_calls_left = lim < 0 ? -1 : lim;
		r = mpt_array_message(&a, &msg, sep);
		array_calls_left = -1;
		arr_tok(r, &a);
		mpt_array_clone(&a, 0);
	}
	else if (!strcmp(op, "amsgn")) {
		MPT_STRUCT(array) a = MPT_ARRAY_INIT;
		int r;
		mpt_array_append(&a, 2, "ZZ");
		r = mpt_array_message(&a, 0, 32);
		arr_tok(r, &a);
		mpt_array_clone(&a, 0);
	}
	else if (!strcmp(op, "null")) {
		/* missing data / function / match arguments */
		size_t n; struct iovec *v = as_vec(&n);
		int k = vh_int(tok[t++]);
		ssize_t r =
		    k == 0 ? mpt_memfcn(0, n, f_space, 0) : k == 1 ? mpt_memfcn(v, n, 0, 0)
		  : k == 2 ? mpt_memrfcn(0, n, f_space, 0) : k == 3 ? mpt_memrfcn(v, n, 0, 0)
		  : k == 4 ? mpt_memstr(v, n, 0, 1) : k == 5 ? mpt_memrstr(v, n, 0, 1)
		  : k == 6 ? mpt_memtok(0, n, " ", 0, 0)
		  : k == 7 ? mpt_memstr(0, n, "A", 1) : k == 8 ? mpt_memrstr(0, n, "A", 1)
		  : k == 9 ? mpt_memstr(0, n, 0, 0) : mpt_memrstr(0, n, 0, 0);
		pos_tok(r);
		free(v);
	}
	else if (!strcmp(op, "rbig")) {
		/* backward search over  <a part of `big` bytes that is never looked at> + the message:
		 * made only when the byte is found in the message itself (checked here without the library) */
		size_t n, i, j, sl = 0; struct iovec *v = as_vec(&n), *w;
		const char *kind = tok[t++], *arg = tok[t++];
		size_t big = strtoull(tok[t++], 0, 10);
		uint8_t *set = 0;
		int hit = 0, a = 0;
		if (kind[0] == 's') set = blk(arg, strlen(arg), &sl); else a = atoi(arg);
		for (i = 0; i < n && !hit; i++) for (j = 0; j < v[i].iov_len && !hit; j++) {
			int c = ((uint8_t *) v[i].iov_base)[j];
			hit = kind[0] == 'c' ? c == a
			    : kind[0] == 'f' ? (a == 0 ? !!isspace(c) : a == 1 ? !isspace(c) : !!isgraph(c))
			    : (sl && memchr(set, c, sl));
		}
		if (!hit) vh_tok("P:skip");
		else {
			w = malloc((n + 1) * sizeof(*w));
			w[0].iov_base = malloc(1);
			w[0].iov_len = big;
			memcpy(w + 1, v, n * sizeof(*v));
			pos_tok(kind[0] == 'c' ? mpt_memrchr(w, n + 1, a)
			      : kind[0] == 'f' ? mpt_memrfcn(w, n + 1, a == 0 ? f_space : a == 1 ? f_nspace : f_graph, 0)
			      : mpt_memrstr(w, n + 1, set, sl));
			free(w[0].iov_base); free(w);
		}
		free(set); free(v);
	}
	else { vh_tok("?%s", op); break; }
		dump_state();
	}
}
int main(int argc, char **argv) { return vh_main(argc, argv, run_case); }
