/* C10 harness (C++ part), everything of mpt++/config.cpp:
 *   kind R  private configuration mpt::config::root through the virtual config
 *           interface (assign / remove / query) and config::get(path, type, ptr);
 *   kind X  the same store through the caller-level wrappers config::set / del /
 *           get<T> / environ;
 *   kind H  the process-global configuration and sub-tree views as C++ sees them:
 *           config::global(), conversion to config *, config::set / del / get<T>;
 *           the tree is read back through the collection a query handler receives;
 *   kind Q  the mpt::path methods set / add / del / next / data / clear_data, copy
 *           construction and assignment (same grammar as kind P).
 * Grammar: see props/c10.py.  One case per forked child.
 */
#include "common.h"
#ifdef VERIF_COV
extern "C" void __gcov_dump(void);
#endif

#include <sys/uio.h>

#include <string>

#include "array.h"
#include "meta.h"
#include "types.h"
#include "collection.h"
#include "config.h"

using namespace mpt;

/* leave a case without running destructors; the coverage build must write its counters first */
static void leave(void)
{
	fflush(stdout);
#ifdef VERIF_COV
	__gcov_dump();
#endif
	_exit(0);
}

/* identifier::_len is protected: read the 16 bit length field of the C layout */
static unsigned ident_len(const mpt::identifier *id)
{
	uint16_t l;
	memcpy(&l, id, sizeof(l));
	return l;
}
static unsigned cksum(const uint8_t *b, size_t n)
{
	unsigned long acc = 0;
	size_t i;
	for (i = 0; i < n; i++) acc = (acc + (i + 1) * b[i]) % 65521;
	return (unsigned) acc;
}
static void enc(size_t lim, const void *p, size_t n)
{
	if (n <= lim) { vh_hex(p, n); return; }
	vh_add("%zu.%u.", n, cksum((const uint8_t *) p, n));
	vh_hex(p, 3);
}
#define venc(p, n) enc(6, p, n)

struct spec { int h; int sep; char *str; };

static char *cstr_of_hex(const char *t)
{
	size_t n;
	uint8_t *b = vh_unhex(t, &n);
	char *s = (char *) malloc(n + 1);
	if (n) memcpy(s, b, n);
	s[n] = 0;
	free(b);
	return s;
}
static struct spec parse_spec(const char *t)
{
	struct spec s;
	const char *c1 = strchr(t, ':'), *c2 = c1 ? strchr(c1 + 1, ':') : 0;
	unsigned sep = 0;
	if (!c1 || !c2) { fprintf(stderr, "bad pathspec %s\n", t); _exit(3); }
	s.h = atoi(t);
	sscanf(c1 + 1, "%2x", &sep);
	s.sep = (int) sep;
	s.str = strcmp(c2 + 1, "~") ? cstr_of_hex(c2 + 1) : 0;
	return s;
}
static int meta_text(mpt::convertable *mt, const uint8_t **base, size_t *len)
{
	struct iovec vec = { 0, 0 };
	const char *s = 0;
	if (!mt) return 0;
	if (mt->convert(MPT_type_toVector('c'), &vec) >= 0 && vec.iov_base) {
		*base = (const uint8_t *) vec.iov_base;
		*len = vec.iov_len;
		if (*len && !(*base)[*len - 1]) --*len;
		return 1;
	}
	if (mt->convert('s', &s) >= 0 && s) {
		*base = (const uint8_t *) s;
		*len = strlen(s);
		return 1;
	}
	return 0;
}
struct getctx { int found; const uint8_t *base; size_t len; const void *val; };
static int get_handler(void *ptr, mpt::convertable *val, const mpt::collection *)
{
	struct getctx *c = (struct getctx *) ptr;
	c->val = val;
	c->found = meta_text(val, &c->base, &c->len) ? 2 : 1;
	return 0;
}
/* result classes: y = found, n = MissingData, t = BadType, f = the bool wrappers said no */
static void put_class(int r)
{
	if (r >= 0) vh_add("y");
	else if (r == mpt::MissingData) vh_add("n");
	else if (r == mpt::BadType) vh_add("t");
	else vh_add("%d", r);
}
static void put_bytes(const void *base, size_t len)
{
	const uint8_t *b = (const uint8_t *) base;
	if (!b) { vh_add("Z"); return; }
	if (len && !b[len - 1]) --len;
	vh_add("V"); venc(b, len);
}
static void put_str(const char *str)
{
	if (!str) { vh_add("Z"); return; }
	vh_add("V"); venc(str, strlen(str));
}
/* the value asked for as itself (convertable *): the object a query handler is given, read
 * like any other value; W = some other object, Z = success without object */
static void put_conv(mpt::convertable *cv, const void *seen)
{
	const uint8_t *b; size_t l;
	if (!cv) { vh_add("Z"); return; }
	if ((const void *) cv != seen) { vh_add("W"); return; }
	if (!meta_text(cv, &b, &l)) { vh_add("E"); return; }
	vh_add("V"); venc(b, l);
}
/* config::get(path, type, ptr) is protected */
struct probe : public mpt::config::root
{
	using mpt::config::get;
};
/* one observation: the element as a query handler sees it, then the value accessors.
 * raw = 1: config::get(path, type, ptr) with type 0 / vector of char / 's' (kind R);
 * raw = 0: query without handler and the typed get<T> wrappers; for '.'-separated
 * strings also get<T>(const char *, T &);
 * conv: also the value itself (TypeConvertablePtr, get<convertable *>) */
static void observe(const mpt::config &cfg, const probe *raw, const struct spec *s, int conv)
{
	mpt::path p(s->str, s->sep, 0);
	struct getctx c = { 0, 0, 0, 0 };
	int r = cfg.query(&p, get_handler, &c);
	if (r < 0 || !c.found) vh_add("A");
	else if (c.found == 1) vh_add("E");
	else { vh_add("V"); venc(c.base, c.len); }
	vh_add("/");
	if (raw) {
		struct iovec vec = { 0, 0 };
		const char *str = 0;
		put_class(raw->get(p, 0, 0));
		vh_add("/");
		r = raw->get(p, MPT_type_toVector('c'), &vec);
		if (r < 0) put_class(r); else put_bytes(vec.iov_base, vec.iov_len);
		vh_add("/");
		r = raw->get(p, 's', &str);
		if (r < 0) put_class(r); else put_str(str);
		if (conv) {
			mpt::convertable *cv = 0;
			vh_add("/");
			r = raw->get(p, mpt::TypeConvertablePtr, &cv);
			if (r < 0) put_class(r); else put_conv(cv, c.val);
			if ((raw->get(p, mpt::TypeConvertablePtr, 0) < 0) != (r < 0)) vh_add("F:notarget");
		}
		return;
	}
	mpt::span<const char> sp(0, 0);
	const char *str = 0;
	put_class(cfg.query(&p, 0, 0));
	vh_add("/");
	if (cfg.get(p, sp)) put_bytes(sp.begin(), (size_t) sp.size()); else vh_add("f");
	vh_add("/");
	if (cfg.get(p, str)) put_str(str); else vh_add("f");
	if (s->sep == '.') {
		str = 0;
		vh_add("/");
		if (cfg.get((const char *) s->str, str)) put_str(str); else vh_add("f");
	}
	if (conv) {
		/* the form examples/cxx/config.cpp uses */
		mpt::convertable *cv = 0;
		vh_add("/");
		if (cfg.get(p, cv)) put_conv(cv, c.val); else vh_add("f");
		if (s->sep == '.') {
			cv = 0;
			vh_add("/");
			if (cfg.get((const char *) s->str, cv)) put_conv(cv, c.val); else vh_add("f");
		}
	}
}
static void dump_items(const mpt::span<const mpt::config_item> &sp)
{
	const mpt::config_item *e, *first = sp.begin();
	if (sp.begin() == sp.end()) { vh_add("0"); return; }
	for (e = first; e != sp.end(); ++e) {
		const uint8_t *b; size_t l;
		if (e != first) vh_add(",");
		/* config_item::unused() (config.h) must say what the length field says */
		if (const_cast<mpt::config_item *>(e)->unused() != !ident_len(e)) vh_add("F:unused");
		if (!ident_len(e)) { vh_add("_"); continue; }
		venc(e->name(), ident_len(e) - 1);
		if (meta_text(e->instance(), &b, &l)) { vh_add("="); venc(b, l); }
		else vh_add("!");
		if (e->elements().begin() != e->elements().end()) { vh_add("("); dump_items(e->elements()); vh_add(")"); }
	}
}
/* ---- listing through the collection a query handler receives
 * (collectionEach of config_global.c, config_item::subtree for config::root) */
struct lctx { int count, depth; };
static int list_item(void *ptr, const mpt::identifier *id, mpt::convertable *val, const mpt::collection *sub)
{
	struct lctx *c = (struct lctx *) ptr, ch;
	const uint8_t *b; size_t l;
	if (!c->count++) { if (c->depth) vh_add("("); }
	else vh_add(",");
	/* an unused slot of a config_item array is handed out too */
	if (!id || !ident_len(id)) { vh_add("_"); return 0; }
	venc(id->name(), ident_len(id) - 1);
	if (meta_text(val, &b, &l)) { vh_add("="); venc(b, l); }
	else vh_add("!");
	ch.count = 0;
	ch.depth = c->depth + 1;
	if (sub && sub->each(list_item, &ch) < 0) vh_add("?");
	if (ch.count) vh_add(")");
	return 0;
}
static void list_coll(const mpt::collection *coll)
{
	struct lctx ch = { 0, 0 };
	if (coll && coll->each(list_item, &ch) < 0) vh_add("?");
	if (!ch.count) vh_add("0");
}
static int list_handler(void *, mpt::convertable *val, const mpt::collection *coll)
{
	const uint8_t *b; size_t l;
	vh_add("L");
	if (meta_text(val, &b, &l)) { vh_add("="); venc(b, l); }
	else vh_add("!");
	vh_add("(");
	list_coll(coll);
	vh_add(")");
	return 0;
}
/* a handler whose item callback refuses the first item: the error must come back */
static int stop_item(void *, const mpt::identifier *, mpt::convertable *, const mpt::collection *)
{
	return -7;
}
static int stop_handler(void *, mpt::convertable *, const mpt::collection *coll)
{
	return coll ? coll->each(stop_item, 0) : 0;
}
static int dump_handler(void *, mpt::convertable *, const mpt::collection *coll)
{
	list_coll(coll);
	return 0;
}
/* ---- config::environ(glob, sep, env): variables given explicitly; "~ ~" for separator and
 * pattern = config::environ() with its default arguments ("mpt_*", '_', the process
 * environment, which is replaced by the list of the case first) */
extern char **environ;
static int run_environ(mpt::config *cfg, const char *septok, const char *pattok, const char *enttok)
{
	unsigned sep = 0;
	const int dflt = !strcmp(septok, "~") && !strcmp(pattok, "~");
	char *pat = dflt ? 0 : cstr_of_hex(pattok);
	char **env;
	size_t n = 1, k = 0;
	const char *c;
	sscanf(septok, "%2x", &sep);
	for (c = enttok; *c; c++) if (*c == ',') ++n;
	env = (char **) calloc(n + 1, sizeof(*env));
	std::string all(enttok), cur;
	size_t pos = 0;
	while (pos <= all.size()) {
		size_t e = all.find(',', pos);
		if (e == std::string::npos) e = all.size();
		cur = all.substr(pos, e - pos);
		env[k++] = cstr_of_hex(cur.c_str());
		pos = e + 1;
	}
	env[k] = 0;
	if (dflt) {
		::environ = env;
		return cfg->environ();
	}
	return cfg->environ(pat, (int) sep, env);
}
/* ---------------------------------------------------------------- kind Q: mpt::path methods */
/* the data members of mpt::path are protected: same layout as the C struct */
struct rawpath { const char *base; size_t off, len; uint8_t first, flags; char sep, assign; };
static_assert(sizeof(rawpath) == sizeof(mpt::path), "path layout");
static rawpath *rp(mpt::path *p) { return reinterpret_cast<rawpath *>(p); }
enum { PathHasArray = 0x40, PathSepBinary = 0x80 };

static std::string hexs(const void *p, size_t n)
{
	static const char dig[] = "0123456789abcdef";
	const uint8_t *b = (const uint8_t *) p;
	std::string s;
	for (size_t i = 0; i < n; i++) { s += dig[b[i] >> 4]; s += dig[b[i] & 15]; }
	return s;
}
/* what a path denotes: committed bytes, post data (through path::data()), element walk */
static std::string path_image(mpt::path *pp)
{
	rawpath *p = rp(pp);
	std::string s;
	mpt::span<const char> d = pp->data();
	int r;
	s = p->base ? hexs(p->base + p->off, p->len) : std::string("-");
	s += "|";
	s += hexs(d.begin(), (size_t) d.size());
	s += "|";
	rawpath q = *p;
	q.flags &= ~PathHasArray;
	for (;;) {
		size_t off = q.off;
		if ((r = mpt_path_next(reinterpret_cast<mpt::path *>(&q))) < 0) break;
		s += hexs(q.base + off, (size_t) r);
		s += ",";
	}
	return s;
}
static void show_path(mpt::path *pp, int ret, int isset)
{
	rawpath *p = rp(pp);
	int r, first = 1;
	if (isset && ret >= 0) vh_tok("s"); else vh_tok("%d", ret);
	vh_add("|%zu.%zu.%u.%u.%d|", p->off, p->len, (unsigned) p->first, (unsigned) p->flags, isset ? ret : 0);
	if (p->base) {
		/* the committed bytes as path::value() (config.h) hands them out */
		mpt::span<const char> v = pp->value();
		enc(48, v.begin(), (size_t) v.size());
		if (pp->empty() != !p->len) vh_add("F:empty");
	}
	else vh_add("-");
	vh_add("|");
	{
		/* the post data as the class hands it out (nothing without an array) */
		mpt::span<const char> d = pp->data();
		if (p->base && (p->flags & PathHasArray)) enc(48, d.begin(), (size_t) d.size());
		else if (d.size()) vh_add("F:data");
		else vh_add("-");
	}
	vh_add("|");
	/* walk a raw copy (no reference taken, flag cleared so that nothing is released) */
	rawpath q = *p;
	q.flags &= ~PathHasArray;
	for (;;) {
		size_t off = q.off;
		if ((r = mpt_path_next(reinterpret_cast<mpt::path *>(&q))) < 0) break;
		if (!first) vh_add(",");
		first = 0;
		enc(12, q.base + off, (size_t) r);
	}
	if (first) vh_add("0");
}
static void run_path(int ntok, char **tok)
{
	unsigned sep = 0, asg = 0;
	int i = 4;
	sscanf(tok[2], "%2x", &sep);
	sscanf(tok[3], "%2x", &asg);
	mpt::path *p = new mpt::path(0, (int) sep, (int) asg);
	mpt::path *orig = 0;
	std::string image;
	while (i < ntok) {
		const char *op = tok[i++];
		int r;
		if (!strcmp(op, "set")) {
			const char *s = tok[i++];
			int len = atoi(tok[i++]);
			char *buf = strcmp(s, "~") ? cstr_of_hex(s) : 0;
			/* no return value in C++: report the count the C function gives on a scratch path */
			MPT_STRUCT(path) tmp(0, rp(p)->sep, rp(p)->assign);
			r = mpt_path_set(&tmp, buf, len);
			p->set(buf, len);
			show_path(p, r, 1);
		}
		else if (!strcmp(op, "sets")) {
			/* path::set(str, len, sep, assign): "~" = the default -1 (field kept) */
			const char *s = tok[i++];
			int len = atoi(tok[i++]);
			const char *st = tok[i++], *at = tok[i++];
			char *buf = strcmp(s, "~") ? cstr_of_hex(s) : 0;
			int ns = -1, na = -1;
			unsigned c;
			if (strcmp(st, "~")) { sscanf(st, "%2x", &c); ns = (int) c; }
			if (strcmp(at, "~")) { sscanf(at, "%2x", &c); na = (int) c; }
			MPT_STRUCT(path) tmp(0, ns < 0 ? rp(p)->sep : ns, na < 0 ? rp(p)->assign : na);
			r = mpt_path_set(&tmp, buf, len);
			p->set(buf, len, ns, na);
			show_path(p, r, 1);
		}
		else if (!strcmp(op, "next")) {
			/* path::next() reports success only: the element length is the one of a raw copy */
			rawpath q = *rp(p);
			bool ok;
			q.flags &= ~PathHasArray;
			r = mpt_path_next(reinterpret_cast<mpt::path *>(&q));
			ok = p->next();
			if (ok != (r >= 0)) vh_tok("F:next");
			show_path(p, r, 0);
		}
		else if (!strcmp(op, "last")) { r = mpt_path_last(p); show_path(p, r, 0); }
		else if (!strcmp(op, "del")) { r = p->del(); show_path(p, r, 0); }
		else if (!strcmp(op, "add")) { r = p->add(atoi(tok[i++])); show_path(p, r, 0); }
		else if (!strcmp(op, "post")) {
			size_t n, k;
			uint8_t *b = vh_unhex(tok[i++], &n);
			mpt_path_valid(p);
			for (k = 0; k < n; k++) {
				if (mpt_path_addchar(p, b[k]) < 0) { vh_tok("F:addchar"); return; }
				mpt_path_valid(p);
			}
			show_path(p, 0, 0);
		}
		else if (!strcmp(op, "bin")) { rp(p)->flags |= PathSepBinary; show_path(p, 0, 0); }
		else if (!strcmp(op, "clr") || !strcmp(op, "clrx")) { r = p->clear_data() ? 0 : -1; show_path(p, r, 0); }
		else if (!strcmp(op, "cp")) {
			/* copy construction; the original goes away */
			mpt::path *q = new mpt::path(*p);
			delete p;
			p = q;
			show_path(p, 0, 0);
		}
		else if (!strcmp(op, "asg")) {
			/* assignment to itself, then into a path that holds an array of its own */
			mpt::path *q = new mpt::path(0, '/', 0);
			*p = *p;
			mpt_path_addchar(q, 'z');
			mpt_path_addchar(q, 'z');
			*q = *p;
			delete p;
			p = q;
			show_path(p, 0, 0);
		}
		else if (!strcmp(op, "fork")) {
			/* the original stays alive; work goes on with the copy */
			if (orig) delete orig;
			orig = p;
			p = new mpt::path(*orig);
			image = path_image(orig);
			show_path(p, 0, 0);
		}
		else { fprintf(stderr, "bad op %s\n", op); _exit(3); }
		/* whatever is done to the copy, the original must denote what it did */
		if (orig) vh_add(";o%d", path_image(orig) == image ? 1 : 0);
	}
	leave();
}

/* ---------------------------------------------------------------- kinds R, X, H */
static void run_case(int ntok, char **tok)
{
	if (ntok >= 4 && tok[1][0] == 'Q') { run_path(ntok, tok); return; }
	if (ntok >= 2 && tok[1][0] == 'T') {
		/* one-shot: the named traits of the config pointer type */
		const mpt::named_traits *nt = mpt::config::pointer_traits();
		vh_tok("%s.%d", (nt && nt->name) ? nt->name : "~", nt ? (int) nt->type : -1);
		vh_add(".%d", (int) (nt ? nt->type : 0) == (int) mpt::TypeConfigPtr);
		/* type_properties<config *> (config.h): the same id, traits of a plain pointer */
		const mpt::type_traits *tt = mpt::type_properties<mpt::config *>::traits();
		vh_add(".%d.%d", mpt::type_properties<mpt::config *>::id(true),
		       (tt && tt->size == sizeof(void *) && !tt->init && !tt->fini) ? 1 : 0);
		leave();
	}
	int i = 2, nv, no, k;
	struct spec *obs, *views;
	const char kind = tok[1][0];
	const int conv = tok[1][1] == 'c';   /* "Rc" / "Xc" / "Hc": the observations also ask for the value itself */
	probe *store = new probe;
	mpt::config **cfg;
	mpt::metatype **mts;

	if (ntok < 4 || (kind != 'R' && kind != 'X' && kind != 'H')) return;
	nv = atoi(tok[i++]);
	views = (struct spec *) calloc(nv + 1, sizeof(*views));
	cfg = (mpt::config **) calloc(nv + 1, sizeof(*cfg));
	mts = (mpt::metatype **) calloc(nv + 1, sizeof(*mts));
	for (k = 0; k < nv; k++) views[k] = parse_spec(tok[i++]);
	no = atoi(tok[i++]);
	obs = (struct spec *) calloc(no + 1, sizeof(*obs));
	for (k = 0; k < no; k++) obs[k] = parse_spec(tok[i++]);

	if (kind == 'H') {
		/* the global configuration and its views as C++ objects */
		for (k = 0; k <= nv; k++) {
			if (!k) mts[0] = mpt::config::global();
			else {
				mpt::path p(views[k - 1].str, views[k - 1].sep, 0);
				mts[k] = mpt::config::global(&p);
			}
			if (!mts[k] || mts[k]->convert(mpt::TypeConfigPtr, &cfg[k]) < 0 || !cfg[k]) {
				vh_tok("F:view");
				return;
			}
		}
	}
	else cfg[0] = store;

	while (i < ntok) {
		const char *op = tok[i++];
		if (i >= ntok) break;
		if (!strcmp(op, "env")) {
			/* env <sephex> <patternhex> <hex,hex,...>: always on handle 0 */
			if (i + 2 >= ntok) break;
			vh_tok("n%d", run_environ(cfg[0], tok[i], tok[i + 1], tok[i + 2]));
			i += 3;
		}
		else {
			struct spec s = parse_spec(tok[i++]);
			mpt::config *c = cfg[kind == 'H' ? s.h : 0];
			int r;
			if (!strcmp(op, "a")) {
				const char *v = cstr_of_hex(tok[i++]);
				if (kind == 'R') {
					mpt::path where(s.str, s.sep, 0);
					mpt::value val;
					val = v;
					r = c->assign(&where, &val);
					vh_tok("%s", r >= 0 ? "ok" : "no");
				}
				/* '.' is the default separator of config::set / del */
				else vh_tok("%s", (s.sep == '.' ? c->set(s.str, v) : c->set(s.str, v, s.sep)) ? "ok" : "no");
			}
			else if (!strcmp(op, "r")) {
				mpt::path where(s.str, s.sep, 0);
				if (kind == 'R') {
					r = c->remove(&where);
					vh_tok("%s", (r >= 0 && !where.empty()) ? "rm" : "--");
				}
				else if (kind == 'X') {
					vh_tok("%s", ((s.sep == '.' ? c->set(s.str) : c->set(s.str, 0, s.sep)) && !where.empty()) ? "rm" : "--");
				}
				else {
					/* configRemove: 1 = removed, 0 = nothing there / cleared, BadOperation for an
					 * empty store; the bool wrapper only shows the last */
					vh_tok("vr%d", c->set(s.str, 0, s.sep) ? 1 : 0);
				}
			}
			else if (!strcmp(op, "d")) {
				/* config::del(path, sep, len): by string length -1 (the terminator decides), the
				 * full length, or one byte less (the last byte is not part of the path) */
				size_t n = s.str ? strlen(s.str) : 0;
				if (s.sep == '.' && n % 3 == 0) c->del(s.str);
				else c->del(s.str, s.sep, (n % 3 == 0) ? -1 : (n % 3 == 1) ? (int) n : (int) n - 1);
				vh_tok("vd");
			}
			else if (!strcmp(op, "z")) {
				/* assignment without value */
				mpt::path where(s.str, s.sep, 0);
				r = c->assign(&where, 0);
				vh_tok("%s", r >= 0 ? "ok" : "no");
			}
			else if (!strcmp(op, "k")) {
				/* the forms without a path (config::root, kinds R / X): remove(NULL) does nothing,
				 * assign(NULL, value) is refused, query(NULL) without handler finds the store */
				const char *kk = "kk";
				mpt::value val;
				val = kk;
				vh_tok("K%d.%d.%d", c->remove(0), c->assign(0, &val), c->query(0, 0, 0));
			}
			else if (!strcmp(op, "l")) {
				vh_tok("%s", "");
				if (kind != 'H' && !s.str) {
					r = c->query(0, list_handler, 0);
					if (r >= 0) vh_add(";s%d", c->query(0, stop_handler, 0));
				}
				else {
					mpt::path where(s.str, s.sep, 0);
					r = c->query(&where, list_handler, 0);
					if (r >= 0) vh_add(";s%d", c->query(&where, stop_handler, 0));
				}
				if (r < 0) vh_add("LA");
			}
			else { fprintf(stderr, "bad op %s\n", op); _exit(3); }
		}
		vh_add("|1|");
		for (k = 0; k < no; k++) {
			if (k) vh_add(",");
			observe(*cfg[kind == 'H' ? obs[k].h : 0], kind == 'R' ? store : 0, &obs[k], conv);
		}
		vh_add("|");
		if (kind == 'H') {
			mpt::path top;
			if (cfg[0]->query(&top, dump_handler, 0) < 0) vh_add("?");
		}
		else dump_items(store->items());
	}
	fflush(stdout);
	delete store;   /* config::root::~root: everything is released exactly once (ASan) */
	leave();
}
int main(int c, char **v) { return vh_main(c, v, run_case); }
