/* C10 harness (C++ part): private configuration mpt::config::root (kind R),
 * driven through the virtual config interface (assign / remove / query), and
 * the mpt::path methods set / add / del (kind Q, same grammar as kind P).
 * Grammar: see props/c10.py.  One case per forked child.
 */
#include "common.h"

#include <sys/uio.h>

#include "array.h"
#include "meta.h"
#include "types.h"
#include "collection.h"
#include "config.h"

using namespace mpt;

/* identifier::_len is protected: read the 16 bit length field of the C layout */
static unsigned ident_len(const mpt::config_item *e)
{
	const mpt::identifier *id = e;
	uint16_t l;
	memcpy(&l, id, sizeof(l));
	return l;
}
static unsigned cksum(const uint8_t *b, size_t n)
{
	unsigned long acc = 0;
	size_t i;
	for (i = 0; i < n; i++) acc = (acc + (i + 1) * b[i]) % 65521;
	return (unsigned) acc;
}
static void enc(size_t lim, const void *p, size_t n)
{
	if (n <= lim) { vh_hex(p, n); return; }
	vh_add("%zu.%u.", n, cksum((const uint8_t *) p, n));
	vh_hex(p, 3);
}
#define venc(p, n) enc(6, p, n)

struct spec { int h; int sep; char *str; };

static char *cstr_of_hex(const char *t)
{
	size_t n;
	uint8_t *b = vh_unhex(t, &n);
	char *s = (char *) malloc(n + 1);
	if (n) memcpy(s, b, n);
	s[n] = 0;
	free(b);
	return s;
}
static struct spec parse_spec(const char *t)
{
	struct spec s;
	const char *c1 = strchr(t, ':'), *c2 = c1 ? strchr(c1 + 1, ':') : 0;
	unsigned sep = 0;
	if (!c1 || !c2) { fprintf(stderr, "bad pathspec %s\n", t); _exit(3); }
	s.h = atoi(t);
	sscanf(c1 + 1, "%2x", &sep);
	s.sep = (int) sep;
	s.str = strcmp(c2 + 1, "~") ? cstr_of_hex(c2 + 1) : 0;
	return s;
}
static int meta_text(mpt::convertable *mt, const uint8_t **base, size_t *len)
{
	struct iovec vec = { 0, 0 };
	const char *s = 0;
	if (!mt) return 0;
	if (mt->convert(MPT_type_toVector('c'), &vec) >= 0 && vec.iov_base) {
		*base = (const uint8_t *) vec.iov_base;
		*len = vec.iov_len;
		if (*len && !(*base)[*len - 1]) --*len;
		return 1;
	}
	if (mt->convert('s', &s) >= 0 && s) {
		*base = (const uint8_t *) s;
		*len = strlen(s);
		return 1;
	}
	return 0;
}
struct getctx { int found; const uint8_t *base; size_t len; };
static int get_handler(void *ptr, mpt::convertable *val, const mpt::collection *)
{
	struct getctx *c = (struct getctx *) ptr;
	c->found = meta_text(val, &c->base, &c->len) ? 2 : 1;
	return 0;
}
static void observe(const mpt::config &cfg, const struct spec *s)
{
	mpt::path p(s->str, s->sep, 0);
	struct getctx c = { 0, 0, 0 };
	int r = cfg.query(&p, get_handler, &c);
	if (r < 0 || !c.found) { vh_add("A"); return; }
	if (c.found == 1) { vh_add("E"); return; }
	vh_add("V"); venc(c.base, c.len);
}
static void dump_items(const mpt::span<const mpt::config_item> &sp)
{
	const mpt::config_item *e, *first = sp.begin();
	if (sp.begin() == sp.end()) { vh_add("0"); return; }
	for (e = first; e != sp.end(); ++e) {
		const uint8_t *b; size_t l;
		if (e != first) vh_add(",");
		if (!ident_len(e)) { vh_add("_"); continue; }
		venc(e->name(), ident_len(e) - 1);
		if (meta_text(e->instance(), &b, &l)) { vh_add("="); venc(b, l); }
		else vh_add("!");
		if (e->elements().begin() != e->elements().end()) { vh_add("("); dump_items(e->elements()); vh_add(")"); }
	}
}
/* ---------------------------------------------------------------- kind Q: mpt::path methods */
/* the data members of mpt::path are protected: same layout as the C struct */
struct rawpath { const char *base; size_t off, len; uint8_t first, flags; char sep, assign; };
static_assert(sizeof(rawpath) == sizeof(mpt::path), "path layout");
static rawpath *rp(mpt::path *p) { return reinterpret_cast<rawpath *>(p); }
enum { PathHasArray = 0x40, PathSepBinary = 0x80 };

static size_t path_used(const rawpath *p)
{
	const mpt::buffer *b = reinterpret_cast<const mpt::buffer *>(p->base);
	/* _used is protected in C++: second size_t behind vptr and traits pointer (C layout) */
	const size_t *w = reinterpret_cast<const size_t *>(b - 1);
	return w[3];
}
static void show_path(mpt::path *pp, int ret, int isset)
{
	rawpath *p = rp(pp);
	int r, first = 1;
	if (isset && ret >= 0) vh_tok("s"); else vh_tok("%d", ret);
	vh_add("|%zu.%zu.%u.%u.%d|", p->off, p->len, (unsigned) p->first, (unsigned) p->flags, isset ? ret : 0);
	if (p->base) enc(48, p->base + p->off, p->len); else vh_add("-");
	vh_add("|");
	if (p->base && (p->flags & PathHasArray)) {
		size_t used = path_used(p), end = p->off + p->len;
		enc(48, p->base + end, used > end ? used - end : 0);
	}
	else vh_add("-");
	vh_add("|");
	/* walk a raw copy (no reference taken, flag cleared so that nothing is released) */
	rawpath q = *p;
	q.flags &= ~PathHasArray;
	for (;;) {
		size_t off = q.off;
		if ((r = mpt_path_next(reinterpret_cast<mpt::path *>(&q))) < 0) break;
		if (!first) vh_add(",");
		first = 0;
		enc(12, q.base + off, (size_t) r);
	}
	if (first) vh_add("0");
}
static void run_path(int ntok, char **tok)
{
	unsigned sep = 0, asg = 0;
	int i = 4;
	sscanf(tok[2], "%2x", &sep);
	sscanf(tok[3], "%2x", &asg);
	mpt::path *p = new mpt::path(0, (int) sep, (int) asg);
	while (i < ntok) {
		const char *op = tok[i++];
		int r;
		if (!strcmp(op, "set")) {
			const char *s = tok[i++];
			int len = atoi(tok[i++]);
			char *buf = strcmp(s, "~") ? cstr_of_hex(s) : 0;
			/* no return value in C++: report the count the C function gives on a scratch path */
			MPT_STRUCT(path) tmp(0, (int) sep, (int) asg);
			r = mpt_path_set(&tmp, buf, len);
			p->set(buf, len);
			show_path(p, r, 1);
		}
		else if (!strcmp(op, "next")) { r = mpt_path_next(p); show_path(p, r, 0); }
		else if (!strcmp(op, "last")) { r = mpt_path_last(p); show_path(p, r, 0); }
		else if (!strcmp(op, "del")) { r = p->del(); show_path(p, r, 0); }
		else if (!strcmp(op, "add")) { r = p->add(atoi(tok[i++])); show_path(p, r, 0); }
		else if (!strcmp(op, "post")) {
			size_t n, k;
			uint8_t *b = vh_unhex(tok[i++], &n);
			mpt_path_valid(p);
			for (k = 0; k < n; k++) {
				if (mpt_path_addchar(p, b[k]) < 0) { vh_tok("F:addchar"); return; }
				mpt_path_valid(p);
			}
			show_path(p, 0, 0);
		}
		else if (!strcmp(op, "bin")) { rp(p)->flags |= PathSepBinary; show_path(p, 0, 0); }
		else { fprintf(stderr, "bad op %s\n", op); _exit(3); }
	}
	fflush(stdout);
	_exit(0);
}

static void run_case(int ntok, char **tok)
{
	if (ntok >= 4 && tok[1][0] == 'Q') { run_path(ntok, tok); return; }

	int i = 2, nv, no, k;
	struct spec *obs;
	mpt::config::root cfg;

	if (ntok < 4 || tok[1][0] != 'R') return;
	nv = atoi(tok[i++]);
	i += nv;
	no = atoi(tok[i++]);
	obs = (struct spec *) calloc(no + 1, sizeof(*obs));
	for (k = 0; k < no; k++) obs[k] = parse_spec(tok[i++]);

	while (i < ntok) {
		const char *op = tok[i++];
		if (i >= ntok) break;
		struct spec s = parse_spec(tok[i++]);
		mpt::path where(s.str, s.sep, 0);
		int r;
		if (!strcmp(op, "a")) {
			const char *v = cstr_of_hex(tok[i++]);
			mpt::value val;
			val = v;
			r = cfg.assign(&where, &val);
			vh_tok("%s", r >= 0 ? "ok" : "no");
		} else {
			r = cfg.remove(&where);
			vh_tok("%s", (r >= 0 && !where.empty()) ? "rm" : "--");
		}
		vh_add("|1|");
		for (k = 0; k < no; k++) {
			if (k) vh_add(",");
			observe(cfg, &obs[k]);
		}
		vh_add("|");
		dump_items(cfg.items());
	}
	fflush(stdout);
	_exit(0);   /* destructors of the store are not the subject */
}
int main(int c, char **v) { return vh_main(c, v, run_case); }
