/* C10 harness (C++ part): private configuration mpt::config::root (kind R),
 * driven through the virtual config interface (assign / remove / query).
 * Grammar: see props/c10.py.  One case per forked child.
 */
#include "common.h"

#include <sys/uio.h>

#include "array.h"
#include "meta.h"
#include "types.h"
#include "collection.h"
#include "config.h"

using namespace mpt;

/* identifier::_len is protected: read the 16 bit length field of the C layout */
static unsigned ident_len(const mpt::config_item *e)
{
	const mpt::identifier *id = e;
	uint16_t l;
	memcpy(&l, id, sizeof(l));
	return l;
}
static unsigned cksum(const uint8_t *b, size_t n)
{
	unsigned long acc = 0;
	size_t i;
	for (i = 0; i < n; i++) acc = (acc + (i + 1) * b[i]) % 65521;
	return (unsigned) acc;
}
static void enc(size_t lim, const void *p, size_t n)
{
	if (n <= lim) { vh_hex(p, n); return; }
	vh_add("%zu.%u.", n, cksum((const uint8_t *) p, n));
	vh_hex(p, 3);
}
#define venc(p, n) enc(6, p, n)

struct spec { int h; int sep; char *str; };

static char *cstr_of_hex(const char *t)
{
	size_t n;
	uint8_t *b = vh_unhex(t, &n);
	char *s = (char *) malloc(n + 1);
	if (n) memcpy(s, b, n);
	s[n] = 0;
	free(b);
	return s;
}
static struct spec parse_spec(const char *t)
{
	struct spec s;
	const char *c1 = strchr(t, ':'), *c2 = c1 ? strchr(c1 + 1, ':') : 0;
	unsigned sep = 0;
	if (!c1 || !c2) { fprintf(stderr, "bad pathspec %s\n", t); _exit(3); }
	s.h = atoi(t);
	sscanf(c1 + 1, "%2x", &sep);
	s.sep = (int) sep;
	s.str = strcmp(c2 + 1, "~") ? cstr_of_hex(c2 + 1) : 0;
	return s;
}
static int meta_text(mpt::convertable *mt, const uint8_t **base, size_t *len)
{
	struct iovec vec = { 0, 0 };
	const char *s = 0;
	if (!mt) return 0;
	if (mt->convert(MPT_type_toVector('c'), &vec) >= 0 && vec.iov_base) {
		*base = (const uint8_t *) vec.iov_base;
		*len = vec.iov_len;
		if (*len && !(*base)[*len - 1]) --*len;
		return 1;
	}
	if (mt->convert('s', &s) >= 0 && s) {
		*base = (const uint8_t *) s;
		*len = strlen(s);
		return 1;
	}
	return 0;
}
struct getctx { int found; const uint8_t *base; size_t len; };
static int get_handler(void *ptr, mpt::convertable *val, const mpt::collection *)
{
	struct getctx *c = (struct getctx *) ptr;
	c->found = meta_text(val, &c->base, &c->len) ? 2 : 1;
	return 0;
}
static void observe(const mpt::config &cfg, const struct spec *s)
{
	mpt::path p(s->str, s->sep, 0);
	struct getctx c = { 0, 0, 0 };
	int r = cfg.query(&p, get_handler, &c);
	if (r < 0 || !c.found) { vh_add("A"); return; }
	if (c.found == 1) { vh_add("E"); return; }
	vh_add("V"); venc(c.base, c.len);
}
static void dump_items(const mpt::span<const mpt::config_item> &sp)
{
	const mpt::config_item *e, *first = sp.begin();
	if (sp.begin() == sp.end()) { vh_add("0"); return; }
	for (e = first; e != sp.end(); ++e) {
		const uint8_t *b; size_t l;
		if (e != first) vh_add(",");
		if (!ident_len(e)) { vh_add("_"); continue; }
		venc(e->name(), ident_len(e) - 1);
		if (meta_text(e->instance(), &b, &l)) { vh_add("="); venc(b, l); }
		else vh_add("!");
		if (e->elements().begin() != e->elements().end()) { vh_add("("); dump_items(e->elements()); vh_add(")"); }
	}
}
static void run_case(int ntok, char **tok)
{
	int i = 2, nv, no, k;
	struct spec *obs;
	mpt::config::root cfg;

	if (ntok < 4 || tok[1][0] != 'R') return;
	nv = atoi(tok[i++]);
	i += nv;
	no = atoi(tok[i++]);
	obs = (struct spec *) calloc(no + 1, sizeof(*obs));
	for (k = 0; k < no; k++) obs[k] = parse_spec(tok[i++]);

	while (i < ntok) {
		const char *op = tok[i++];
		if (i >= ntok) break;
		struct spec s = parse_spec(tok[i++]);
		mpt::path where(s.str, s.sep, 0);
		int r;
		if (!strcmp(op, "a")) {
			const char *v = cstr_of_hex(tok[i++]);
			mpt::value val;
			val = v;
			r = cfg.assign(&where, &val);
			vh_tok("%s", r >= 0 ? "ok" : "no");
		} else {
			r = cfg.remove(&where);
			vh_tok("%s", (r >= 0 && !where.empty()) ? "rm" : "--");
		}
		vh_add("|1|");
		for (k = 0; k < no; k++) {
			if (k) vh_add(",");
			observe(cfg, &obs[k]);
		}
		vh_add("|");
		dump_items(cfg.items());
	}
	fflush(stdout);
	_exit(0);   /* destructors of the store are not the subject */
}
int main(int c, char **v) { return vh_main(c, v, run_case); }
