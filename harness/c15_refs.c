/* C15 harness (C part): reference counted object kinds of mptcore / mptio / mptplot.
 *
 * Case lines (same file is read by ml/c15_driver.ml; lines of family x / y belong to c15_cxx.cpp):
 *   <id> c <op> <args> ...     object history; slots 0..5 metatype pointers, 6..8 arrays, 9..11 deferred replies
 *                              kinds: buf hbuf hcnt huni gen mbuf cfg top reply raw stream iterf itern
 *        rawdata (plot data object): modify m <dim> <form> | advance m | rget m a | setin m a | rread m | rconv m;
 *        its stage buffer is object kind "stage"
 *   <id> p <op> <args> ...     deferrable reply context: reply data set / defer (accepted, refused) / send / detached reply /
 *                              addref / unref with a recording send callback (see run_reply)
 *   <id> r <cop> <args> ...    mpt_refcount_raise / mpt_refcount_lower on a bare counter (set <hex> | raise | lower)
 *
 * Token per operation: <out>|<objects>|<slots>|<events>, last token L<0|1> (LeakSanitizer), see ml/c15_driver.ml.
 *   objects: state of every object created so far, in creation order: counter FIELD read from the structure
 *            (hex), u = alive without counter, s = static, x = destroyed.  "Destroyed" is observed with
 *            __asan_address_is_poisoned on the object's memory (freed blocks stay poisoned in quarantine), for
 *            harness-implemented kinds additionally through the event log of their vtable.
 * The library structures are reached by #include of the .c files. */
#include "common.h"
#include <errno.h>
#include <limits.h>
#include <stddef.h>
#include <sys/uio.h>
#include <sys/socket.h>
#include <fcntl.h>
#include <sanitizer/asan_interface.h>
#include <sanitizer/lsan_interface.h>

#include "array/buffer_alloc.c"
#include "array/meta_buffer.c"
#include "event/reply_deferrable.c"
#include "stream/stream_input.c"
#include "rawdata_create.c"
#include "rawdata_type_traits.c"   /* top-level mptplot sources are not part of vcheck.LIBS["mptplot"] */
#include "values/iterator_file.c"
#include "config.h"

enum { KBUF, KHBUF, KHCNT, KHUNI, KGEN, KMBUF, KCFG, KTOP, KREPLY, KRAW, KSTREAM, KCXX, KITERF, KITERN, KSTAGE, KNONE };
static const char *kname[] = { "buf", "hbuf", "hcnt", "huni", "gen", "mbuf", "cfg", "top", "reply", "raw", "stream", "cxx", "iterf", "itern", "stage" };
enum { CCOUNTED, CUNIQUE, CSTATIC };
static int cls_of(int k)
{
	switch (k) {
	case KHUNI: case KGEN: case KMBUF: case KCFG: return CUNIQUE;
	case KTOP: return CSTATIC;
	default: return CCOUNTED;
	}
}
static int is_buf(int k) { return k == KBUF || k == KHBUF || k == KSTAGE; }

/* ---- object table (pointers stored inverted: LeakSanitizer must not see them as references) ---- */
#define MAXOBJ 256
static struct { int kind; uintptr_t x; } objs[MAXOBJ];
static int nobj;
#define HIDE(p) (~(uintptr_t) (p))
static void *optr(int i) { return (void *) ~objs[i].x; }
static int find_obj(const void *p)
{
	int i;
	for (i = nobj - 1; i >= 0; i--) if (objs[i].x == HIDE(p)) return i;
	return -1;
}
static int reg_obj(int kind, const void *p)
{
	int i = find_obj(p);
	if (i >= 0) return i;
	if (nobj >= MAXOBJ) { vh_tok("?objects"); fflush(stdout); _exit(0); }
	objs[nobj].kind = kind;
	objs[nobj].x = HIDE(p);
	return nobj++;
}
static int alive(int i)
{
	if (cls_of(objs[i].kind) == CSTATIC) return 1;
	return !__asan_address_is_poisoned(optr(i));
}

/* ---- event log of the harness-implemented vtables ---- */
static char evlog[4096];
static size_t evlen;
static void ev(char c, int id)
{
	if (evlen + 16 < sizeof(evlog)) evlen += sprintf(evlog + evlen, "%c%d", c, id);
}

/* ---- harness metatypes ---- */
struct hmeta {
	MPT_INTERFACE(metatype) _mt;
	MPT_STRUCT(refcount) ref;
	int id, uni;
};
static MPT_INTERFACE(metatype) *hmeta_new(int uni);
static int hmConv(MPT_INTERFACE(convertable) *val, MPT_TYPE(type) type, void *ptr)
{
	if (!type) {
		static const uint8_t fmt[] = { 0 };
		if (ptr) *((const uint8_t **) ptr) = fmt;
		return 0;
	}
	if (type == MPT_ENUM(TypeMetaPtr)) {
		if (ptr) *((void **) ptr) = val;
		return 0;
	}
	return MPT_ERROR(BadType);
}
static void hmUnref(MPT_INTERFACE(metatype) *mt)
{
	struct hmeta *h = (void *) mt;
	ev('u', h->id);
	if (!h->uni && mpt_refcount_lower(&h->ref)) return;
	ev('d', h->id);
	free(h);
}
static uintptr_t hmRef(MPT_INTERFACE(metatype) *mt)
{
	struct hmeta *h = (void *) mt;
	ev('a', h->id);
	if (h->uni) return 0;
	return mpt_refcount_raise(&h->ref);
}
static MPT_INTERFACE(metatype) *hmClone(const MPT_INTERFACE(metatype) *mt)
{
	const struct hmeta *h = (const void *) mt;
	return h->uni ? hmeta_new(1) : 0;
}
static MPT_INTERFACE(metatype) *hmeta_new(int uni)
{
	static const MPT_INTERFACE_VPTR(metatype) vptr = { { hmConv }, hmUnref, hmRef, hmClone };
	struct hmeta *h = malloc(sizeof(*h));
	h->_mt._vptr = &vptr;
	h->ref._val = uni ? 0 : 1;
	h->uni = uni;
	h->id = reg_obj(uni ? KHUNI : KHCNT, h);
	return &h->_mt;
}
/* ---- harness buffer ---- */
MPT_STRUCT(hbuf) {
	MPT_STRUCT(refcount) ref;
	int id;
	MPT_STRUCT(buffer) buf;
};
static uint32_t hbFlags(const MPT_STRUCT(buffer) *b)
{
	const MPT_STRUCT(hbuf) *h = MPT_baseaddr(hbuf, b, buf);
	return h->ref._val > 1 ? MPT_ENUM(BufferShared) : 0;
}
static void hbUnref(MPT_STRUCT(buffer) *b)
{
	MPT_STRUCT(hbuf) *h = MPT_baseaddr(hbuf, b, buf);
	ev('u', h->id);
	if (mpt_refcount_lower(&h->ref)) return;
	ev('d', h->id);
	free(h);
}
static uintptr_t hbRef(MPT_STRUCT(buffer) *b)
{
	MPT_STRUCT(hbuf) *h = MPT_baseaddr(hbuf, b, buf);
	ev('a', h->id);
	return mpt_refcount_raise(&h->ref);
}
static MPT_STRUCT(buffer) *hbDetach(MPT_STRUCT(buffer) *b, size_t len)
{
	(void) b; (void) len;
	return 0;
}
static MPT_STRUCT(buffer) *hbuf_new(void)
{
	static const MPT_INTERFACE_VPTR(buffer) vptr = { hbFlags, hbUnref, hbRef, hbDetach };
	MPT_STRUCT(hbuf) *h = malloc(sizeof(*h) + 16);
	h->ref._val = 1;
	h->buf._vptr = &vptr;
	h->buf._content_traits = 0;
	*((size_t *) &h->buf._size) = 16;
	h->buf._used = 0;
	h->id = reg_obj(KHBUF, &h->buf);
	return &h->buf;
}

/* ---- slots ---- */
static MPT_INTERFACE(metatype) *mslot[6];
static MPT_STRUCT(array) aslot[3];
static MPT_INTERFACE(reply_context_detached) *dslot[3];
static int stream_peer[64], nstream;

static int bank(int i)
{
	return i < 0 ? 5 : i < 6 ? 0 : i < 9 ? 1 : i < 12 ? 2 : i < 15 ? 3 : i < 18 ? 4 : 5;
}
/* object id held by slot i, -1 when empty */
static int slot_obj(int i)
{
	switch (bank(i)) {
	case 0: return mslot[i] ? find_obj(mslot[i]) : -1;
	case 1: return aslot[i - 6]._buf ? find_obj(aslot[i - 6]._buf) : -1;
	case 2: return dslot[i - 9] ? find_obj(&((struct replyDataDelayed *) dslot[i - 9])->base->_mt) : -1;
	default: return -1;
	}
}
static int slot_kind(int i)
{
	int o = slot_obj(i);
	return o < 0 ? KNONE : objs[o].kind;
}
static uintptr_t *cntp(int o)
{
	void *p = optr(o);
	switch (objs[o].kind) {
	case KBUF: case KSTAGE: return &MPT_baseaddr(bufferData, p, buf)->_ref._val;
	case KHBUF: return &MPT_baseaddr(hbuf, p, buf)->ref._val;
	case KHCNT: return &((struct hmeta *) p)->ref._val;
	case KREPLY: return &MPT_baseaddr(reply_context_defer, p, _mt)->ref._val;
	case KRAW: return &MPT_baseaddr(RawData, p, _mt)->_ref._val;
	case KSTREAM: return &((MPT_STRUCT(streamInput) *) p)->ref._val;
	case KITERF: case KITERN: return &((MPT_STRUCT(iteratorFile) *) p)->_ref._val;
	default: return 0;
	}
}
/* handle owned by an object (read from its structure) */
static const void *inner_of(int o)
{
	void *p = optr(o);
	switch (objs[o].kind) {
	case KMBUF: return ((MPT_STRUCT(metaBuffer) *) p)->s._a._buf;
	case KRAW: return MPT_baseaddr(RawData, p, _mt)->st._buf;
	default: return 0;
	}
}
static uintptr_t held(int o)
{
	uintptr_t n = 0;
	int i;
	for (i = 0; i < 12; i++) if (slot_obj(i) == o) n++;
	for (i = 0; i < nobj; i++) if (alive(i) && inner_of(i) == optr(o)) n++;
	return n;
}
static void unref_obj(int o)
{
	if (is_buf(objs[o].kind)) {
		MPT_STRUCT(buffer) *b = optr(o);
		b->_vptr->unref(b);
	} else {
		MPT_INTERFACE(metatype) *m = optr(o);
		m->_vptr->unref(m);
	}
}

/* ---- rawdata: calls that take no reference, compared with the structure read back here ---- */
static const char *raw_read(MPT_STRUCT(RawData) *rd)
{
	const MPT_INTERFACE_VPTR(rawdata) *rv = rd->_rd._vptr;
	const MPT_STRUCT(named_traits) *nt = mpt_named_traits("mpt.rawdata", -1);
	MPT_STRUCT(buffer) *s = rd->st._buf;
	MPT_STRUCT(rawdata_stage) *st = s ? (void *) (s + 1) : 0;
	MPT_INTERFACE(metatype) *x;
	const void *p = 0;
	const char *fmt = 0;
	int n = s ? (int) (s->_used / sizeof(*st)) : 0, r, d;
	/* the first conversion of a process registers the type */
	if (rd->_mt._vptr->convertable.convert((void *) &rd->_mt, 0, &fmt) < 0 || !fmt) return "?conv0";
	if (!nt) nt = mpt_named_traits("mpt.rawdata", -1);
	if (rv->stage_count(&rd->_rd) != n) return "?stages";
	r = rv->dimension_count(&rd->_rd, -1);
	if (!s) { if (r >= 0) return "?dim0"; }
	else if (rd->act >= n) { if (r >= 0) return "?dim1"; }
	else {
		MPT_STRUCT(buffer) *db = st[rd->act]._d._buf;
		int nd = db ? (int) (db->_used / sizeof(MPT_STRUCT(value_store))) : 0;
		if (r != nd) return "?dim2";
		for (d = 0; d < nd; d++) {
			const MPT_STRUCT(value_store) *vs = rv->values(&rd->_rd, (unsigned) d, -1);
			db = st[rd->act]._d._buf;
			if (vs != ((MPT_STRUCT(value_store) *) (db + 1)) + d) return "?values";
		}
	}
	if (rv->dimension_count(&rd->_rd, n) >= 0) return "?dim3";
	if (rv->values(&rd->_rd, 0, n)) return "?values1";
	/* conversions */
	if (rd->_mt._vptr->convertable.convert((void *) &rd->_mt, 0, &fmt) < 0 || !fmt) return "?conv0";
	if (rd->_mt._vptr->convertable.convert((void *) &rd->_mt, MPT_ENUM(TypeMetaPtr), &p) < 0 || p != &rd->_mt) return "?conv1";
	/* mpt_rawdata_type_traits() registers "mpt.rawdata" on EVERY call (its cache variable is not static): only the
	 * first call of a process gets the type, rd_conv then no longer knows its own id; accepted either way here
	 * (no reference is involved), see docs/notes_C15.md */
	if (nt && rd->_mt._vptr->convertable.convert((void *) &rd->_mt, nt->type, &p) >= 0 && p != &rd->_rd) return "?conv2";
	if (rd->_mt._vptr->convertable.convert((void *) &rd->_mt, 'd', &p) >= 0) return "?conv3";
	if (rd->_mt._vptr->clone(&rd->_mt)) return "?clone";
	/* creation limits */
	if (mpt_rawdata_create(LONG_MAX)) return "?max";
	if (!(x = mpt_rawdata_create(-3))) return "?neg";
	if (MPT_baseaddr(RawData, x, _mt)->max != 0) return "?neg1";
	x->_vptr->unref(x);
	/* a hard cycle limit: cycles at or beyond it are refused */
	if (!(x = mpt_rawdata_create(2))) return "?lim";
	else {
		MPT_STRUCT(RawData) *lim = MPT_baseaddr(RawData, x, _mt);
		double v = 0.5;
		MPT_STRUCT(value) val = MPT_VALUE_INIT('d', &v);
		MPT_STRUCT(valdest) vd = MPT_VALDEST_INIT;
		int bad, good;
		vd.cycle = 5;
		bad = lim->_rd._vptr->modify(&lim->_rd, 0, &val, &vd);
		good = lim->_rd._vptr->modify(&lim->_rd, 0, &val, 0);
		x->_vptr->unref(x);
		if (bad >= 0 || good < 0) return "?lim1";
	}
	return "D";
}
/* the object converts to its own interface through the type id registered for "mpt.rawdata", on EVERY call of a
 * process, and reports that id as its own type (docs/C15_rawdata_type_traits.diff) */
static const char *raw_conv(MPT_STRUCT(RawData) *rd)
{
	int i;
	for (i = 0; i < 3; i++) {
		const MPT_STRUCT(named_traits) *nt;
		const void *p = 0;
		int me = rd->_mt._vptr->convertable.convert((void *) &rd->_mt, 0, 0);
		if (me < 0) return "?conv0";
		if (!(nt = mpt_named_traits("mpt.rawdata", -1))) return "?name";
		if (me != (int) nt->type) return "?type";
		if (rd->_mt._vptr->convertable.convert((void *) &rd->_mt, nt->type, &p) != (int) nt->type || p != &rd->_rd) return "?iface";
		if (mpt_rawdata_type_traits() != nt) return "?traits";
	}
	return "D";
}
/* ---- the buffers INSIDE stage buffers (per stage the value store array, per value store the data) are not
 *      objects of the model: here the counter field of every value store array is compared with the number of
 *      stages (of all existing stage buffers) that refer to it, and every data buffer must exist ---- */
static uintptr_t bufref(const MPT_STRUCT(buffer) *b) { return MPT_baseaddr(bufferData, b, buf)->_ref._val; }
static int nested_ok(void)
{
	int i, j;
	for (i = 0; i < nobj; i++) {
		MPT_STRUCT(buffer) *s;
		MPT_STRUCT(rawdata_stage) *st;
		size_t a, na;
		if (objs[i].kind != KSTAGE || !alive(i)) continue;
		s = optr(i); st = (void *) (s + 1); na = s->_used / sizeof(*st);
		for (a = 0; a < na; a++) {
			MPT_STRUCT(buffer) *d = st[a]._d._buf;
			MPT_STRUCT(value_store) *vs;
			uintptr_t refs = 0;
			size_t b, nb;
			if (!d) continue;
			if (__asan_address_is_poisoned(d)) return 0;
			for (j = 0; j < nobj; j++) {
				MPT_STRUCT(buffer) *s2;
				MPT_STRUCT(rawdata_stage) *st2;
				size_t c, nc;
				if (objs[j].kind != KSTAGE || !alive(j)) continue;
				s2 = optr(j); st2 = (void *) (s2 + 1); nc = s2->_used / sizeof(*st2);
				for (c = 0; c < nc; c++) if (st2[c]._d._buf == d) refs++;
			}
			if (bufref(d) != refs) return 0;
			vs = (void *) (d + 1); nb = d->_used / sizeof(*vs);
			for (b = 0; b < nb; b++) {
				MPT_STRUCT(buffer) *v = vs[b]._d._buf;
				if (v && (__asan_address_is_poisoned(v) || !bufref(v))) return 0;
			}
		}
	}
	return 1;
}
static void dump(void)
{
	int i, any = 0;
	vh_add("|");
	for (i = 0; i < nobj; i++) {
		uintptr_t *c;
		if (i) vh_add(",");
		if (!alive(i)) vh_add("x");
		else if ((c = cntp(i))) vh_add("%llx", (unsigned long long) *c);
		else vh_add(cls_of(objs[i].kind) == CSTATIC ? "s" : "u");
	}
	if (!nested_ok()) vh_add("!nested");
	if (!nobj) vh_add("-");
	vh_add("|");
	for (i = 0; i < 12; i++) {
		int o = slot_obj(i);
		if (o < 0) continue;
		vh_add("%s%d:%d", any ? "," : "", i, o);
		any = 1;
	}
	if (!any) vh_add("-");
	vh_add("|%s", evlen ? evlog : "-");
}

static int kind_of(const char *s)
{
	int k;
	for (k = 0; k < KNONE; k++) if (!strcmp(s, kname[k])) return k;
	return KNONE;
}
static const MPT_STRUCT(type_traits) *ref_traits(int b, int via)
{
	if (b == 1) return mpt_array_traits();
	return via ? mpt_input_reference_traits() : mpt_type_traits(MPT_ENUM(TypeMetaRef));
}
static void *slot_addr(int i)
{
	return bank(i) == 0 ? (void *) &mslot[i] : (void *) &aslot[i - 6];
}
static void slot_clear(int i)
{
	if (bank(i) == 0) mslot[i] = 0; else aslot[i - 6]._buf = 0;
}
static MPT_INTERFACE(metatype) *make_meta(int k)
{
	switch (k) {
	case KHCNT: return hmeta_new(0);
	case KHUNI: return hmeta_new(1);
	case KGEN: return mpt_meta_geninfo(8);
	case KCFG: {
		MPT_STRUCT(path) p = MPT_PATH_INIT;
		mpt_path_set(&p, "c15", -1);
		return mpt_config_global(&p);
	}
	case KTOP: return mpt_config_global(0);
	case KREPLY: return mpt_reply_deferrable(8, 0, 0);
	case KRAW: return mpt_rawdata_create(0);
	case KSTREAM: {
		MPT_STRUCT(socket) sock = MPT_SOCKET_INIT;
		MPT_INTERFACE(input) *in;
		int sv[2];
		if (socketpair(AF_UNIX, SOCK_STREAM, 0, sv) < 0) return 0;
		sock._id = sv[0];
		in = mpt_stream_input(&sock, MPT_STREAMFLAG(Read) | MPT_STREAMFLAG(ReadBuf), MPT_ENUM(EncodingCobs), 0);
		if (nstream < 64) stream_peer[nstream++] = sv[1];
		return (MPT_INTERFACE(metatype) *) in;
	}
	case KITERF: {   /* iterator over an open descriptor: no name, clone refuses */
		int fd = open("/dev/null", O_RDONLY);
		MPT_INTERFACE(metatype) *m;
		if (fd < 0) return 0;
		if (!(m = mpt_iterator_file(fd))) close(fd);
		return m;
	}
	case KITERN: return mpt_iterator_filename("/dev/null");   /* clone opens the file again */
	default: return 0;
	}
}
__attribute__((noinline)) static void clear_stack(void)
{
	volatile char pad[16384];
	size_t i;
	for (i = 0; i < sizeof(pad); i++) pad[i] = 0;
}

#define ARGI(n) ((int) vh_int(tok[t + (n)]))
static void run_objects(int ntok, char **tok)
{
	int t = 2;
	while (t < ntok) {
		const char *op = tok[t++];
		evlen = 0; evlog[0] = 0;
		if (!strcmp(op, "new")) {
			int k = kind_of(tok[t]), d = ARGI(1);
			t += 2;
			if (k == KMBUF || k == KCXX || k == KSTAGE || k == KNONE || slot_obj(d) >= 0
			    || !((bank(d) == 0 && !is_buf(k)) || (bank(d) == 1 && is_buf(k)))) { vh_tok("X"); }
			else if (bank(d) == 1) {
				MPT_STRUCT(buffer) *b;
				if (k == KHBUF) b = hbuf_new();
				else {
					b = _mpt_buffer_alloc(16, 0);
					reg_obj(KBUF, b);
					memcpy(b + 1, "c15", 4);
					b->_used = 4;
				}
				aslot[d - 6]._buf = b;
				vh_tok("D");
			} else {
				MPT_INTERFACE(metatype) *m = make_meta(k);
				if (!m) { vh_tok("?new"); }
				else { reg_obj(k, m); mslot[d] = m; vh_tok("D"); }
			}
		}
		else if (!strcmp(op, "mbuf")) {
			int a = ARGI(0), d = ARGI(1);
			t += 2;
			if (bank(a) != 1 || bank(d) != 0 || slot_obj(d) >= 0) vh_tok("X");
			else {
				MPT_INTERFACE(metatype) *m = mpt_meta_buffer(&aslot[a - 6]);
				if (!m) vh_tok("?mbuf");
				else { reg_obj(KMBUF, m); mslot[d] = m; vh_tok("D"); }
			}
		}
		else if (!strcmp(op, "addref")) {
			int s = ARGI(0), d = ARGI(1);
			t += 2;
			if (bank(s) != bank(d) || (bank(s) != 0 && bank(s) != 1) || slot_obj(s) < 0 || slot_obj(d) >= 0) vh_tok("X");
			else if (bank(s) == 0) {
				uintptr_t r = mslot[s]->_vptr->addref(mslot[s]);
				if (r) mslot[d] = mslot[s];
				vh_tok("R%llx", (unsigned long long) r);
			} else {
				MPT_STRUCT(buffer) *b = aslot[s - 6]._buf;
				uintptr_t r = b->_vptr->addref(b);
				if (r) aslot[d - 6]._buf = b;
				vh_tok("R%llx", (unsigned long long) r);
			}
		}
		else if (!strcmp(op, "unref")) {
			int s = ARGI(0);
			t += 1;
			if (bank(s) > 2 || slot_obj(s) < 0) vh_tok("X");
			else if (bank(s) == 0) { MPT_INTERFACE(metatype) *m = mslot[s]; mslot[s] = 0; m->_vptr->unref(m); vh_tok("D"); }
			else if (bank(s) == 1) { MPT_STRUCT(buffer) *b = aslot[s - 6]._buf; aslot[s - 6]._buf = 0; b->_vptr->unref(b); vh_tok("D"); }
			else {
				MPT_INTERFACE(reply_context_detached) *def = dslot[s - 9];
				dslot[s - 9] = 0;
				def->_vptr->reply(def, 0);
				vh_tok("D");
			}
		}
		else if (!strcmp(op, "clone")) {
			int s = ARGI(0), d = ARGI(1);
			t += 2;
			if (bank(s) != 0 || bank(d) != 0 || slot_obj(s) < 0 || slot_obj(d) >= 0) vh_tok("X");
			else {
				int k = slot_kind(s);
				MPT_INTERFACE(metatype) *n = mslot[s]->_vptr->clone(mslot[s]);
				if (!n) vh_tok("E");
				else { reg_obj(k, n); mslot[d] = n; vh_tok("D"); }
			}
		}
		else if (!strcmp(op, "conv")) {
			int s = ARGI(0), d = ARGI(1);
			t += 2;
			if (bank(s) != 0 || bank(d) != 0) vh_tok("X");
			else {
				MPT_STRUCT(value) val = MPT_VALUE_INIT(MPT_ENUM(TypeMetaRef), &mslot[s]);
				int r = mpt_value_convert(&val, MPT_ENUM(TypeMetaRef), &mslot[d]);
				vh_tok(r < 0 ? "E" : "D");
			}
		}
		else if (!strcmp(op, "rinit")) {
			int via = ARGI(0), s = ARGI(1), d = ARGI(2);
			t += 3;
			if (bank(s) != bank(d) || !((bank(s) == 0 && via >= 0 && via < 2) || (bank(s) == 1 && via == 0)) || slot_obj(d) >= 0) vh_tok("X");
			else {
				int r = ref_traits(bank(s), via)->init(slot_addr(d), slot_addr(s));
				if (r < 0) vh_tok("E"); else vh_tok("R%x", r);
			}
		}
		else if (!strcmp(op, "rfini")) {
			int via = ARGI(0), d = ARGI(1);
			t += 2;
			if (!((bank(d) == 0 && via >= 0 && via < 2) || (bank(d) == 1 && via == 0))) vh_tok("X");
			else {
				ref_traits(bank(d), via)->fini(slot_addr(d));
				slot_clear(d);
				vh_tok("D");
			}
		}
		else if (!strcmp(op, "rcopy")) {
			if (mslot[3] || mslot[4] || mslot[5]) vh_tok("X");
			else {
				/* element-wise copy as the traits contract demands: undo the copies made when one fails */
				const MPT_STRUCT(type_traits) *tr = mpt_meta_reference_traits();
				int i, r = 0;
				for (i = 0; i < 3; i++) {
					if ((r = tr->init(&mslot[3 + i], &mslot[i])) < 0) break;
				}
				if (r < 0) {
					while (i--) { tr->fini(&mslot[3 + i]); mslot[3 + i] = 0; }
					vh_tok("E");
				}
				else vh_tok("D");
			}
		}
		else if (!strcmp(op, "aclone")) {
			int s = ARGI(0), d = ARGI(1);
			t += 2;
			if (bank(s) != 1 || bank(d) != 1) vh_tok("X");
			else {
				int r = mpt_array_clone(&aslot[d - 6], &aslot[s - 6]);
				if (r < 0) vh_tok("E"); else vh_tok("R%x", r);
			}
		}
		else if (!strcmp(op, "aclear")) {
			int d = ARGI(0);
			t += 1;
			if (bank(d) != 1) vh_tok("X");
			else vh_tok("R%x", mpt_array_clone(&aslot[d - 6], 0));
		}
		else if (!strcmp(op, "detach")) {
			int a = ARGI(0);
			t += 1;
			if (bank(a) != 1 || slot_kind(a) != KBUF) vh_tok("X");
			else {
				MPT_STRUCT(buffer) *b = aslot[a - 6]._buf, *n;
				n = b->_vptr->detach(b, 4);
				if (!n) vh_tok("E");
				else if (n == b) vh_tok("R0");
				else { reg_obj(KBUF, n); aslot[a - 6]._buf = n; vh_tok("R1"); }
			}
		}
		else if (!strcmp(op, "detachf")) {
			/* detach of a typed buffer with a partial last element: mpt_buffer_set() refuses the copy */
			static const MPT_STRUCT(type_traits) four = { 0, 0, 4 };
			int a = ARGI(0);
			t += 1;
			if (bank(a) != 1 || slot_kind(a) != KBUF) vh_tok("X");
			else {
				MPT_STRUCT(buffer) *b = aslot[a - 6]._buf, *n;
				int o = slot_obj(a);
				b->_content_traits = &four;
				b->_used = 6;
				n = b->_vptr->detach(b, 8);
				if (alive(o)) { b->_content_traits = 0; b->_used = 4; }
				if (!n) vh_tok("E");
				else if (n == b) vh_tok("R0");
				else { n->_content_traits = 0; n->_used = 4; reg_obj(KBUF, n); aslot[a - 6]._buf = n; vh_tok("R1"); }
			}
		}
		else if (!strcmp(op, "setin")) {
			int m = ARGI(0), a = ARGI(1);
			t += 2;
			/* the stage member holds stage buffers only (obtained by rget from a rawdata object) */
			if (bank(m) != 0 || bank(a) != 1 || slot_kind(m) != KRAW || (slot_obj(a) >= 0 && slot_kind(a) != KSTAGE)) vh_tok("X");
			else {
				MPT_STRUCT(RawData) *rd = MPT_baseaddr(RawData, mslot[m], _mt);
				int r = mpt_array_clone(&rd->st, &aslot[a - 6]);
				if (r < 0) vh_tok("E"); else vh_tok("R%x", r);
			}
		}
		else if (!strcmp(op, "modify")) {
			int m = ARGI(0), dim = ARGI(1), form = ARGI(2);
			t += 3;
			if (bank(m) != 0 || slot_kind(m) != KRAW) vh_tok("X");
			else {
				MPT_STRUCT(RawData) *rd = MPT_baseaddr(RawData, mslot[m], _mt);
				double v[2] = { 1.5, 2.5 };
				struct iovec vec = { v, sizeof(v) };
				MPT_STRUCT(valdest) vd = MPT_VALDEST_INIT;
				MPT_STRUCT(value) val = MPT_VALUE_INIT('d', v);
				const MPT_STRUCT(valdest) *dest = 0;
				int r;
				switch (form) {
				case 1: val._type = MPT_type_toVector('d'); val._addr = &vec; break;   /* vector of two */
				case 2: vd.offset = 1; dest = &vd; break;                               /* behind the first value */
				case 3: val._type = MPT_ENUM(TypeMetaRef) + 0x1f; break;                /* a type without traits */
				case 4: vd.cycle = 1000; dest = &vd; break;                             /* a cycle that does not exist */
				default: break;
				}
				r = rd->_rd._vptr->modify(&rd->_rd, (unsigned) dim, &val, dest);
				if (rd->st._buf) reg_obj(KSTAGE, rd->st._buf);
				vh_tok(r < 0 ? "E" : "D");
			}
		}
		else if (!strcmp(op, "advance")) {
			int m = ARGI(0);
			t += 1;
			if (bank(m) != 0 || slot_kind(m) != KRAW) vh_tok("X");
			else {
				MPT_STRUCT(RawData) *rd = MPT_baseaddr(RawData, mslot[m], _mt);
				rd->_rd._vptr->advance(&rd->_rd);
				if (rd->st._buf) reg_obj(KSTAGE, rd->st._buf);
				vh_tok("D");
			}
		}
		else if (!strcmp(op, "rget")) {
			int m = ARGI(0), a = ARGI(1);
			t += 2;
			if (bank(m) != 0 || bank(a) != 1 || slot_kind(m) != KRAW) vh_tok("X");
			else {
				MPT_STRUCT(RawData) *rd = MPT_baseaddr(RawData, mslot[m], _mt);
				int r = mpt_array_clone(&aslot[a - 6], &rd->st);
				if (r < 0) vh_tok("E"); else vh_tok("R%x", r);
			}
		}
		else if (!strcmp(op, "rread")) {
			int m = ARGI(0);
			t += 1;
			if (bank(m) != 0 || slot_kind(m) != KRAW) vh_tok("X");
			else vh_tok(raw_read(MPT_baseaddr(RawData, mslot[m], _mt)));
		}
		else if (!strcmp(op, "rconv")) {
			int m = ARGI(0);
			t += 1;
			if (bank(m) != 0 || slot_kind(m) != KRAW) vh_tok("X");
			else vh_tok(raw_conv(MPT_baseaddr(RawData, mslot[m], _mt)));
		}
		else if (!strcmp(op, "defer")) {
			int s = ARGI(0), d = ARGI(1);
			t += 2;
			if (bank(s) != 0 || bank(d) != 2 || slot_kind(s) != KREPLY || slot_obj(d) >= 0) vh_tok("X");
			else {
				MPT_STRUCT(reply_context_defer) *ctx = MPT_baseaddr(reply_context_defer, mslot[s], _mt);
				MPT_INTERFACE(reply_context_detached) *def;
				ctx->data.len = 1;   /* a request is pending */
				ctx->data.val[0] = 1;
				def = ctx->_ctx._vptr->defer(&ctx->_ctx);
				if (!def) vh_tok("E");
				else { dslot[d - 9] = def; vh_tok("D"); }
			}
		}
		else if (!strcmp(op, "force")) {
			int s = ARGI(0), o;
			unsigned long long v = strtoull(tok[t + 1], 0, 16);
			t += 2;
			o = bank(s) <= 1 ? slot_obj(s) : -1;
			if (o < 0 || cls_of(objs[o].kind) != CCOUNTED || v < 1 || held(o) > v) vh_tok("X");
			else { *cntp(o) = (uintptr_t) v; vh_tok("D"); }
		}
		else if (!strcmp(op, "unforce")) {
			int i, n = nobj;
			for (i = 0; i < n; i++) {
				uintptr_t h;
				if (!alive(i) || cls_of(objs[i].kind) != CCOUNTED) continue;
				if ((h = held(i))) *cntp(i) = h;
				else { *cntp(i) = 1; unref_obj(i); }
			}
			vh_tok("D");
		}
		else { vh_tok("?op:%s", op); break; }
		dump();
	}
	{
		int i, leak;
		for (i = 0; i < nstream; i++) close(stream_peer[i]);
		clear_stack();
		leak = __lsan_do_recoverable_leak_check();
		vh_tok("L%d", leak ? 1 : 0);
	}
}
/* ---- family p: the deferrable reply context with its reply data, detached replies and send callback ----
 *   pnew d <hex max> | pset s <hex len> <hex id> | pdefer s d | psend s <0|1> | preply d <0|1> | paddref s d | punref s | pfail <0|1>
 *   token: <out>[;s<ctx>:<len>:<id>[m]]*|<contexts>|<slots>|-   (see ml/c15_driver.ml) */
static char sendlog[2048];
static size_t sendlen;
static int send_fail;
static int p_send_cb(void *ptr, const MPT_STRUCT(reply_data) *rd, const MPT_STRUCT(message) *msg)
{
	int o = (int) (uintptr_t) ptr - 1, bad = 0;
	uint8_t id = rd->len ? (rd->val[0] & 0x7f) : 0;
	size_t i;
	if (!rd->len || !(rd->val[0] & 0x80)) bad = 1;     /* the id is flagged as reply while it is on its way */
	for (i = 1; i < rd->len; i++) if (rd->val[i] != id) bad = 1;
	if (sendlen + 64 < sizeof(sendlog)) {
		sendlen += sprintf(sendlog + sendlen, ";s%d:%x:%x%s%s", o, (unsigned) rd->len, (unsigned) id, msg ? "m" : "", bad ? "!" : "");
	}
	return send_fail ? -5 : 7;
}
static void p_data(const MPT_STRUCT(reply_data) *rd)
{
	size_t i;
	if (!rd->len) { vh_add("-"); return; }
	vh_add("%x:%x", (unsigned) rd->len, (unsigned) rd->val[0]);
	for (i = 1; i < rd->len; i++) if (rd->val[i] != rd->val[0]) { vh_add("!"); break; }
}
static void p_dump(void)
{
	int i, any = 0;
	vh_add("|");
	for (i = 0; i < nobj; i++) {
		MPT_STRUCT(reply_context_defer) *ctx = MPT_baseaddr(reply_context_defer, optr(i), _mt);
		if (i) vh_add(",");
		if (!alive(i)) { vh_add("x"); continue; }
		vh_add("%llx.%s.", (unsigned long long) ctx->ref._val, ctx->reply.send ? "e" : "d");
		p_data(&ctx->data);
	}
	if (!nobj) vh_add("-");
	vh_add("|");
	for (i = 0; i < 6; i++) {
		if (!mslot[i]) continue;
		vh_add("%s%d:%d", any ? "," : "", i, find_obj(mslot[i]));
		any = 1;
	}
	for (i = 0; i < 3; i++) {
		struct replyDataDelayed *def = (void *) dslot[i];
		if (!def) continue;
		vh_add("%s%d:%d/", any ? "," : "", i + 9, find_obj(&def->base->_mt));
		p_data(&def->data);
		any = 1;
	}
	if (!any) vh_add("-");
	vh_add("|-");
}
static void p_result(int r)
{
	if (r < 0) vh_tok("N%x%s", (unsigned) -r, sendlog); else vh_tok("R%x%s", (unsigned) r, sendlog);
}
static void run_reply(int ntok, char **tok)
{
	static const char text[] = "ok";
	MPT_STRUCT(message) msg = MPT_MESSAGE_INIT;
	int t = 2;
	msg.base = text; msg.used = 2;
	while (t < ntok) {
		const char *op = tok[t++];
		sendlen = 0; sendlog[0] = 0;
		if (!strcmp(op, "pnew")) {
			int d = ARGI(0);
			unsigned long max = strtoul(tok[t + 1], 0, 16);
			t += 2;
			if (d < 0 || d >= 6 || mslot[d]) vh_tok("X");
			else {
				MPT_INTERFACE(metatype) *m = mpt_reply_deferrable(max, p_send_cb, (void *) (uintptr_t) (nobj + 1));
				if (!m) vh_tok("E");
				else if (m->_vptr->clone(m)) vh_tok("?clone");
				else { reg_obj(KREPLY, m); mslot[d] = m; vh_tok("D"); }
			}
		}
		else if (!strcmp(op, "pset")) {
			int s = ARGI(0);
			unsigned long len = strtoul(tok[t + 1], 0, 16), id = strtoul(tok[t + 2], 0, 16);
			t += 3;
			if (s < 0 || s >= 6 || !mslot[s] || len > 64 || id < 1 || id > 127) vh_tok("X");
			else {
				MPT_STRUCT(reply_context_defer) *ctx = MPT_baseaddr(reply_context_defer, mslot[s], _mt);
				MPT_STRUCT(reply_data) *rd = 0;
				uint8_t val[64];
				int r;
				memset(val, (int) id, sizeof(val));
				if (mslot[s]->_vptr->convertable.convert((void *) mslot[s], MPT_ENUM(TypeReplyDataPtr), &rd) < 0 || rd != &ctx->data) vh_tok("?conv");
				else if ((r = mpt_reply_set(rd, len, val)) < 0) vh_tok("E");
				else vh_tok("R%x", (unsigned) r);
			}
		}
		else if (!strcmp(op, "pdefer") || !strcmp(op, "psend")) {
			int s = ARGI(0), d = ARGI(1);
			MPT_INTERFACE(reply_context) *rc = 0;
			t += 2;
			if (s < 0 || s >= 6 || !mslot[s] || (op[1] == 'd' && (d < 9 || d >= 12 || dslot[d - 9]))) vh_tok("X");
			else if (mslot[s]->_vptr->convertable.convert((void *) mslot[s], MPT_ENUM(TypeReplyPtr), &rc) < 0
			         || rc != &MPT_baseaddr(reply_context_defer, mslot[s], _mt)->_ctx) vh_tok("?conv");
			else if (op[1] == 'd') {
				MPT_INTERFACE(reply_context_detached) *def = rc->_vptr->defer(rc);
				if (!def) vh_tok("E%s", sendlog);
				else { dslot[d - 9] = def; vh_tok("D%s", sendlog); }
			}
			else p_result(rc->_vptr->reply(rc, d ? &msg : 0));
		}
		else if (!strcmp(op, "preply")) {
			int d = ARGI(0), m = ARGI(1);
			t += 2;
			if (d < 9 || d >= 12 || !dslot[d - 9]) vh_tok("X");
			else {
				MPT_INTERFACE(reply_context_detached) *def = dslot[d - 9];
				int r = def->_vptr->reply(def, m ? &msg : 0);
				if (r >= 0) dslot[d - 9] = 0;       /* the handle is consumed unless the reply is refused */
				p_result(r);
			}
		}
		else if (!strcmp(op, "paddref")) {
			int s = ARGI(0), d = ARGI(1);
			t += 2;
			if (s < 0 || s >= 6 || d < 0 || d >= 6 || !mslot[s] || mslot[d]) vh_tok("X");
			else {
				uintptr_t r = mslot[s]->_vptr->addref(mslot[s]);
				if (r) mslot[d] = mslot[s];
				vh_tok("R%llx", (unsigned long long) r);
			}
		}
		else if (!strcmp(op, "punref")) {
			int s = ARGI(0);
			t += 1;
			if (s < 0 || s >= 6 || !mslot[s]) vh_tok("X");
			else { MPT_INTERFACE(metatype) *m = mslot[s]; mslot[s] = 0; m->_vptr->unref(m); vh_tok("D%s", sendlog); }
		}
		else if (!strcmp(op, "pfail")) {
			send_fail = ARGI(0) != 0;
			t += 1;
			vh_tok("D");
		}
		else { vh_tok("?op:%s", op); break; }
		p_dump();
	}
	clear_stack();
	vh_tok("L%d", __lsan_do_recoverable_leak_check() ? 1 : 0);
}
static void run_counter(int ntok, char **tok)
{
	MPT_STRUCT(refcount) *ref = malloc(sizeof(*ref));   /* exact-size block */
	int t = 2;
	ref->_val = 1;
	while (t < ntok) {
		const char *op = tok[t++];
		uintptr_t r;
		if (!strcmp(op, "set")) { r = ref->_val = (uintptr_t) strtoull(tok[t++], 0, 16); }
		else if (!strcmp(op, "raise")) r = mpt_refcount_raise(ref);
		else if (!strcmp(op, "lower")) r = mpt_refcount_lower(ref);
		else { vh_tok("?op:%s", op); break; }
		vh_tok("%llx|%llx", (unsigned long long) r, (unsigned long long) ref->_val);
	}
	free(ref);
}
static void run_case(int ntok, char **tok)
{
	if (sizeof(uintptr_t) != 8) { vh_tok("?uintptr_t"); return; }
	if (ntok < 2) return;
	if (!strcmp(tok[1], "c")) run_objects(ntok, tok);
	else if (!strcmp(tok[1], "r")) run_counter(ntok, tok);
	else if (!strcmp(tok[1], "p")) run_reply(ntok, tok);
	else vh_tok("?family");
}
int main(int argc, char **argv)
{
	int r = vh_main(argc, argv, run_case);
	fflush(stdout);
	_exit(r);
}
