/* c07_oracle.c — libc float parsing oracle used by the C07 generator.
 * stdin: lines "<f|d|e> <hex text|->"; stdout: "<end>/<erange>/<bits>" per line, where
 * end = characters strtof/strtod/strtold consumed, erange = errno is ERANGE afterwards
 * (overflow: the value is infinite; underflow: it is finite), bits = the value's bit pattern in hex (binary32, binary64, x87 80 bit), "nan" for NaN.
 * Built WITHOUT the library under test. */
#include <stdio.h>
#include <stdlib.h>
#include <string.h>
#include <stdint.h>
#include <inttypes.h>
#include <errno.h>
#include <math.h>

int main(void)
{
	char *line = 0;
	size_t cap = 0;
	ssize_t got;
	while ((got = getline(&line, &cap, stdin)) >= 0) {
		char fmt = line[0];
		char *hex = line + 2, *end;
		size_t n, i;
		char *s;
		int ovf;
		while (got > 0 && (line[got-1] == '\n' || line[got-1] == '\r')) line[--got] = 0;
		n = (hex[0] == '-') ? 0 : strlen(hex) / 2;
		s = malloc(n + 1);
		for (i = 0; i < n; i++) { unsigned v; sscanf(hex + 2*i, "%2x", &v); s[i] = (char) v; }
		s[n] = 0;
		end = s;
		errno = 0;
		if (fmt == 'f') {
			float v = strtof(s, &end); uint32_t b; ovf = (errno == ERANGE); memcpy(&b, &v, 4);
			if (isnan(v)) printf("%ld/%d/nan\n", (long) (end - s), ovf); else printf("%ld/%d/%" PRIx32 "\n", (long) (end - s), ovf, b);
		}
		else if (fmt == 'd') {
			double v = strtod(s, &end); uint64_t b; ovf = (errno == ERANGE); memcpy(&b, &v, 8);
			if (isnan(v)) printf("%ld/%d/nan\n", (long) (end - s), ovf); else printf("%ld/%d/%" PRIx64 "\n", (long) (end - s), ovf, b);
		}
		else {
			long double v = strtold(s, &end); uint64_t lo; uint16_t hi; ovf = (errno == ERANGE);
			memcpy(&lo, &v, 8); memcpy(&hi, (char *) &v + 8, 2);
			if (isnan(v)) printf("%ld/%d/nan\n", (long) (end - s), ovf);
			else if (hi) printf("%ld/%d/%x%016" PRIx64 "\n", (long) (end - s), ovf, hi, lo);
			else printf("%ld/%d/%" PRIx64 "\n", (long) (end - s), ovf, lo);
		}
		free(s);
	}
	return 0;
}
