/* C16 harness: drives mptcore/misc/identifier.c (and the size ladders of
 * mpt_identifier_new / mpt_node_new) on exact-size heap objects, so that ASan
 * sees every access outside an identifier's storage, a caller buffer or an
 * external name block, and every bad free.
 *
 * Case line:
 *   <id> s<size>|w<len> ... -- <op> <args> ...
 *     s<size>  identifier on malloc(size) storage, mpt_identifier_init(id, size)
 *     w<len>   identifier from mpt_identifier_new(len)
 *   ops:  set i D      mpt_identifier_set(id_i, D, |D|)
 *         setz i D     mpt_identifier_set(id_i, D+"\0", -1)
 *         raw i n      mpt_identifier_set(id_i, NULL, n)          (n may be -1)
 *         seta i o n   mpt_identifier_set(id_i, data(id_i) + o', n')  the name lies INSIDE the identifier's own
 *                      current content (inline bytes or its block): o' = min(o, _len), n' = min(n, _len - o')
 *         setaz i o    the same through the strlen interface (length -1) when a zero byte lies in
 *                      data[o'.._len), else with the explicit length _len - o'   (= self_arg of IdentModel.v)
 *         copy i j     mpt_identifier_copy(id_i, id_j)
 *         copyn i      mpt_identifier_copy(id_i, NULL)
 *         cmp i D      mpt_identifier_compare(id_i, D, |D|)
 *         cmpz i D     mpt_identifier_compare(id_i, D+"\0", -1)
 *         cmpn i n     mpt_identifier_compare(id_i, NULL, n)      (n may be -1)
 *         ineq i j     mpt_identifier_inequal(id_i, id_j)
 *         new n        mpt_identifier_new(n): reports _max
 *         node n       mpt_node_new(n): reports ident._max
 *   data D: "-" empty, hex digits, or g<len>.<seed>[.<pos>] (generated non-zero
 *           bytes, byte <pos> altered) -- see gen_byte().
 * Token per operation:
 *   <res>|<slot0>|<slot1>|...|h<live>      slot = <_len>.<_charset>.<bytes>
 *   bytes = hex (<= 40 bytes) or #<fnv1a32>:<first 8>..<last 8>
 *   live  = number of heap blocks allocated by the library and not yet freed
 * Final token: end|h<live>[|L] after mpt_identifier_set(id, 0, 0) on every
 * identifier and release of the storage; L = LeakSanitizer found a leak. */
#include "common.h"
#include <errno.h>
#include "core.h"
#include "node.h"

int __sanitizer_install_malloc_and_free_hooks(void (*)(const volatile void *, size_t), void (*)(const volatile void *));
int __lsan_do_recoverable_leak_check(void);

static volatile int counting;
static long live;
static void hook_malloc(const volatile void *p, size_t n) { (void) n; if (counting && p) live++; }
static void hook_free(const volatile void *p) { if (counting && p) live--; }

#define MAXSLOT 8
static MPT_STRUCT(identifier) *slot[MAXSLOT];
static int nslot;

static uint8_t gen_byte(unsigned long seed, unsigned long i)
{
	return (uint8_t) (1 + ((seed * 31 + i * 7 + i / 253) % 255));
}
/* exact-size buffer holding the data (+ optional terminator) */
static uint8_t *get_data(const char *s, size_t *len, int term)
{
	uint8_t *b;
	size_t n, i;
	if (s[0] == 'g') {
		char *e;
		unsigned long seed, flip = ~0ul;
		n = strtoul(s + 1, &e, 10);
		seed = strtoul(e + 1, &e, 10);
		if (*e == '.') flip = strtoul(e + 1, 0, 10);
		b = (uint8_t *) malloc(n + (term ? 1 : 0));
		for (i = 0; i < n; i++) b[i] = gen_byte(seed, i);
		if (flip < n) b[flip] = (b[flip] == 255) ? 1 : b[flip] + 1;
	}
	else {
		uint8_t *t = vh_unhex(s, &n);
		b = (uint8_t *) malloc(n + (term ? 1 : 0));
		memcpy(b, t, n);
		free(t);
	}
	if (term) b[n] = 0;
	*len = n;
	return b;
}
static void put_bytes(const uint8_t *p, size_t n)
{
	if (n <= 40) { vh_hex(p, n); return; }
	{
		uint32_t h = 2166136261u;
		size_t i;
		for (i = 0; i < n; i++) { h ^= p[i]; h *= 16777619u; }
		vh_add("#%08x:", h);
		vh_hex(p, 8);
		vh_add("..");
		vh_hex(p + n - 8, 8);
	}
}
static void dump(void)
{
	int i;
	for (i = 0; i < nslot; i++) {
		const MPT_STRUCT(identifier) *id = slot[i];
		const uint8_t *d = (const uint8_t *) mpt_identifier_data(id);
		vh_add("|%u.%u.", (unsigned) id->_len, (unsigned) id->_charset);
		if (!d && id->_len) vh_add("NULL");
		else put_bytes(d, id->_len);
	}
	vh_add("|h%ld", live);
}
/* node lookup by name: <id> L <names "," separated> <start> <pos> <key>
 * nodes are created with mpt_node_new(strlen+1) (so names of every length up to and beyond the
 * inline capacity of the 64/128/256 byte node ladder occur) and linked as siblings */
static void locate_case(char **tok)
{
	MPT_STRUCT(node) *n[64], *r;
	char *names = tok[2], *p, *save = 0;
	int cnt = 0, i, start = atoi(tok[3]), pos = atoi(tok[4]);
	size_t klen;
	uint8_t *key;
	for (p = strtok_r(names, ",", &save); p && cnt < 64; p = strtok_r(0, ",", &save)) {
		size_t len;
		uint8_t *d = get_data(p, &len, 1);
		if (!(n[cnt] = mpt_node_new(len + 1))) { vh_tok("F:nomem"); return; }
		if (!mpt_identifier_set(&n[cnt]->ident, (const char *) d, -1)) { vh_tok("F:noset"); return; }
		free(d);
		cnt++;
	}
	for (i = 0; i < cnt; i++) {
		n[i]->prev = i ? n[i - 1] : 0;
		n[i]->next = i + 1 < cnt ? n[i + 1] : 0;
	}
	key = get_data(tok[5], &klen, 1);
	r = (start < cnt) ? mpt_node_locate(n[start], pos, key, klen, -1) : 0;
	if (!r) vh_tok("F:-");
	else {
		for (i = 0; i < cnt && n[i] != r; i++) ;
		vh_tok("F:%d", i);
	}
	free(key);
	for (i = 0; i < cnt; i++) { mpt_identifier_set(&n[i]->ident, 0, 0); free(n[i]); }
}
static void run_case(int ntok, char **tok)
{
	int t = 1, i;
	if (ntok >= 6 && !strcmp(tok[1], "L")) { locate_case(tok); return; }
	__sanitizer_install_malloc_and_free_hooks(hook_malloc, hook_free);
	for (; t < ntok && strcmp(tok[t], "--"); t++) {
		MPT_STRUCT(identifier) *id;
		size_t n = strtoul(tok[t] + 1, 0, 10);
		if (nslot >= MAXSLOT) continue;
		if (tok[t][0] == 'w') {
			if (!(id = mpt_identifier_new(n))) continue;
		} else {
			if (n < sizeof(*id) || !(id = (MPT_STRUCT(identifier) *) malloc(n))) continue;
			memset(id, 0xee, n);
			mpt_identifier_init(id, n);
		}
		slot[nslot++] = id;
	}
	t++;
	while (t < ntok) {
		const char *op = tok[t++];
		if (!strcmp(op, "set") || !strcmp(op, "setz")) {
			int z = op[3] == 'z';
			size_t n; void *r;
			i = vh_int(tok[t++]);
			uint8_t *d = get_data(tok[t++], &n, z);
			counting = 1;
			r = mpt_identifier_set(slot[i], (const char *) d, z ? -1 : (int) n);
			counting = 0;
			vh_tok(r ? "D" : "R");
			free(d);
		}
		else if (!strcmp(op, "raw")) {
			void *r; long n;
			i = vh_int(tok[t++]);
			n = vh_int(tok[t++]);
			counting = 1;
			r = mpt_identifier_set(slot[i], 0, (int) n);
			counting = 0;
			vh_tok(r ? "D" : "R");
		}
		else if (!strcmp(op, "seta") || !strcmp(op, "setaz")) {
			int z = op[4] == 'z';
			size_t off, have; long n = 0; void *r;
			const char *cur;
			i = vh_int(tok[t++]);
			off = strtoul(tok[t++], 0, 10);
			if (!z) n = vh_int(tok[t++]);
			cur = (const char *) mpt_identifier_data(slot[i]);
			if (off > slot[i]->_len) off = slot[i]->_len;
			have = slot[i]->_len - off;
			if (z) {
				if (have && memchr(cur + off, 0, have)) n = -1;
				else n = (long) have;
			}
			else if (n < 0 || (size_t) n > have) n = (long) have;
			counting = 1;
			r = mpt_identifier_set(slot[i], cur + off, (int) n);
			counting = 0;
			vh_tok(r ? "D" : "R");
		}
		else if (!strcmp(op, "copy") || !strcmp(op, "copyn")) {
			void *r; int j = -1;
			i = vh_int(tok[t++]);
			if (!op[4]) j = vh_int(tok[t++]);
			counting = 1;
			r = mpt_identifier_copy(slot[i], j < 0 ? 0 : slot[j]);
			counting = 0;
			vh_tok(r ? "D" : "R");
		}
		else if (!strcmp(op, "cmp") || !strcmp(op, "cmpz")) {
			int z = op[3] == 'z', r;
			size_t n;
			i = vh_int(tok[t++]);
			uint8_t *d = get_data(tok[t++], &n, z);
			r = mpt_identifier_compare(slot[i], (const char *) d, z ? -1 : (int) n);
			vh_tok("c:%d", r);
			free(d);
		}
		else if (!strcmp(op, "cmpn")) {
			long n;
			i = vh_int(tok[t++]);
			n = vh_int(tok[t++]);
			vh_tok("c:%d", mpt_identifier_compare(slot[i], 0, (int) n));
		}
		else if (!strcmp(op, "ineq")) {
			int j, r;
			i = vh_int(tok[t++]);
			j = vh_int(tok[t++]);
			r = mpt_identifier_inequal(slot[i], slot[j]);
			vh_tok(r < 0 ? "q:lt" : r > 0 ? "q:gt" : "q:0");
		}
		else if (!strcmp(op, "new")) {
			MPT_STRUCT(identifier) *id = mpt_identifier_new(strtoul(tok[t++], 0, 10));
			if (!id) vh_tok("n:R");
			else {
				/* the whole storage the library asked for must be usable */
				memset(id->_val, 0, id->_max);
				vh_tok("n:%u", (unsigned) id->_max);
				free(id);
			}
		}
		else if (!strcmp(op, "node")) {
			MPT_STRUCT(node) *n = mpt_node_new(strtoul(tok[t++], 0, 10));
			if (!n) vh_tok("n:R");
			else {
				memset(n->ident._val, 0, n->ident._max);
				vh_tok("n:%u", (unsigned) n->ident._max);
				free(n);
			}
		}
		else { vh_tok("?%s", op); break; }
		dump();
	}
	/* owner's cleanup */
	counting = 1;
	for (i = 0; i < nslot; i++) mpt_identifier_set(slot[i], 0, 0);
	counting = 0;
	for (i = 0; i < nslot; i++) { free(slot[i]); slot[i] = 0; }
	vh_tok("end|h%ld", live);
	if (__lsan_do_recoverable_leak_check()) vh_add("|L");
}
int main(int argc, char **argv)
{
	int r = vh_main(argc, argv, run_case);
	fflush(stdout);
	_exit(r);   /* the leak check is made per case in the children, not for the reader loop */
}
