/* C12 harness: drives mptcore/message/message_id.c and the reply context of
 * mptcore/event/reply_deferrable.c + reply_set.c + context_reply.c.
 *
 * Case lines (same file is read by ml/c12_driver.ml):
 *   <id> id2buf <idhex> <width>      id2buf into an exact-size heap buffer, then buf2id of the result
 *   <id> buf2id <byteshex>           buf2id of arbitrary bytes (exact-size heap buffer)
 *   <id> ctx <max> <send01> <ptr01> <script r,r,..|-> <op> <args> ...
 *        ops: conv <type> | arm <hex> | armz <n> | reply <hex|null> | creply <code> <hex|null>
 *             defer | hreply <k> <hex|null> | ref | unref
 *   <id> nrc <code> <text hex|null>  mpt_context_reply(NULL, code, "%s", text): no reply context
 *
 * The transport is the harness' own send callback: it logs the id bytes it is
 * shown (rd->val[0..len)), the flattened message and answers from the script
 * (exhausted script = 0).
 *
 * Token per operation:  <ret>|<calls>|<ctx-request>:<intact>|<handle-requests>|<ctx-mechanism>|<alloc;handles-mechanism>
 *   ret     X not performed (caller holds no such object), i<int>, v<int>:<part>, h<k>/hN, c<hex>, d
 *   calls   id/message/answer,...   or -
 *   ctx-request  id bytes armed in the context (val[0..len)), - none, x no reference held
 *   intact  1 iff the non-data part of the context is unchanged by an arm/conv operation and the
 *           vtable pointers and reply target still are what mpt_reply_deferrable set
 *   handle-requests  per handle: armed id bytes, x consumed
 *   ctx-mechanism    1:len:val[0..max(4,max)):ref:send?:ptr?  or 0 when freed
 *   alloc   number of live allocations made by reply_deferrable.c; k=max:len:val per live handle
 * The state is read straight from the structures (reply_deferrable.c is #included), frees are
 * observed by wrapping malloc/free of that file only. */
#include "common.h"
#include <errno.h>
#include "queue.h"
#include <stddef.h>
#include <sys/uio.h>

/* ---- allocation tracking for reply_deferrable.c ---- */
#define VH_MAXALLOC 256
static void *vh_ptrs[VH_MAXALLOC];
static int vh_state[VH_MAXALLOC]; /* 1 live, 2 freed */
static int vh_nptr;
static void *vh_malloc(size_t n)
{
	void *p = malloc(n);
	if (p && vh_nptr < VH_MAXALLOC) { vh_ptrs[vh_nptr] = p; vh_state[vh_nptr++] = 1; }
	return p;
}
static void vh_free(void *p)
{
	int i;
	for (i = vh_nptr - 1; i >= 0; i--) if (vh_ptrs[i] == p && vh_state[i] == 1) { vh_state[i] = 2; break; }
	free(p);
}
static int vh_live(const void *p)
{
	int i;
	for (i = vh_nptr - 1; i >= 0; i--) if (vh_ptrs[i] == p) return vh_state[i] == 1;
	return 0;
}
static int vh_nlive(void)
{
	int i, n = 0;
	for (i = 0; i < vh_nptr; i++) if (vh_state[i] == 1) n++;
	return n;
}
#define malloc vh_malloc
#define free vh_free
#include "event/reply_deferrable.c"
#undef malloc
#undef free

/* write queue limit (linked with -Wl,--wrap=mpt_queue_prepare) */
static size_t wq_limit = (size_t) -1;
static const void *wq_queue;
static int wq_fixed;   /* sin mode Q<n>: the queue has exactly n bytes and never grows */
extern size_t __real_mpt_queue_prepare(MPT_STRUCT(queue) *, size_t);
size_t __wrap_mpt_queue_prepare(MPT_STRUCT(queue) *q, size_t len)
{
	if (q == wq_queue && wq_fixed) return len > q->max - q->len ? 0 : q->max - q->len;
	if (q == wq_queue && q->max + len > wq_limit) return 0;
	return __real_mpt_queue_prepare(q, len);
}
/* the stream input (mptio): its own reply context, driven over a socketpair */
#include <poll.h>
#include <fcntl.h>
#include <sys/socket.h>
#include "stream/stream_input.c"

/* ---- transport ---- */
static struct { int dummy; } transport;
static int script[1024], nscript, spos;
static char calls[1 << 16];
static size_t clen;

static void cadd(const char *fmt, ...)
{
	va_list ap;
	va_start(ap, fmt);
	if (clen < sizeof(calls) - 64) clen += vsnprintf(calls + clen, sizeof(calls) - clen, fmt, ap);
	va_end(ap);
}
static void chex(const void *p, size_t n)
{
	const uint8_t *b = p;
	size_t i;
	for (i = 0; i < n; i++) cadd("%02x", b[i]);
}
static int send_cb(void *ptr, const MPT_STRUCT(reply_data) *rd, const MPT_STRUCT(message) *msg)
{
	int r = spos < nscript ? script[spos] : 0;
	spos++;
	if (clen) cadd(",");
	if (!rd->len) cadd("-"); else chex(rd->val, rd->len);
	cadd("/");
	if (!msg) cadd("null");
	else {
		size_t i, tot = msg->used;
		chex(msg->base, msg->used);
		for (i = 0; i < msg->clen; i++) { chex(msg->cont[i].iov_base, msg->cont[i].iov_len); tot += msg->cont[i].iov_len; }
		if (!tot) cadd("-");
	}
	cadd("/%d", r);
	if (ptr != &transport) cadd("!ptr");
	return r;
}

/* ---- context case ---- */
#define MAXH 128
static MPT_STRUCT(reply_context_defer) *ctx;
static MPT_INTERFACE(metatype) *mt;
static MPT_INTERFACE(reply_context) *rc;
static MPT_INTERFACE(reply_context_detached) *hd[MAXH];
static int nh, own;
static size_t mx, vsz;
static const void *vp_mt, *vp_ctx;
static void *tptr;

static void dump(int intact)
{
	int i;
	/* property-level view */
	vh_add("|");
	if (!own) vh_add("x");
	else if (!vh_live(ctx)) vh_add("dead");
	else {
		vh_hex(ctx->data.val, ctx->data.len);
		vh_add(":%d", intact);
	}
	vh_add("|");
	if (!nh) vh_add("-");
	for (i = 0; i < nh; i++) {
		struct replyDataDelayed *d = (void *) hd[i];
		if (i) vh_add(",");
		if (!vh_live(d)) vh_add("x");
		else vh_hex(d->data.val, d->data.len);
	}
	/* mechanism */
	vh_add("|");
	if (!ctx || !vh_live(ctx)) vh_add("0");
	else {
		vh_add("1:%u:", (unsigned) ctx->data.len);
		vh_hex(ctx->data.val, vsz);
		vh_add(":%llx:%d:%d", (unsigned long long) ctx->ref._val, ctx->reply.send ? 1 : 0, ctx->reply.ptr ? 1 : 0);
	}
	vh_add("|%d", vh_nlive());
	for (i = 0; i < nh; i++) {
		struct replyDataDelayed *d = (void *) hd[i];
		if (!vh_live(d)) continue;
		vh_add(";%d=%u:%u:", i, (unsigned) d->data._max, (unsigned) d->data.len);
		vh_hex(d->data.val, vsz);
	}
}
static MPT_STRUCT(message) mkmsg_store;
static struct iovec mkmsg_iov;
static const MPT_STRUCT(message) *mkmsg(const char *tok, uint8_t **keep)
{
	size_t n;
	uint8_t *b;
	*keep = 0;
	if (!strcmp(tok, "null")) return 0;
	b = vh_unhex(tok, &n);
	*keep = b;
	mkmsg_store.base = b;
	mkmsg_store.cont = 0;
	mkmsg_store.clen = 0;
	if (n > 2) {
		mkmsg_store.used = 2;
		mkmsg_iov.iov_base = b + 2;
		mkmsg_iov.iov_len = n - 2;
		mkmsg_store.cont = &mkmsg_iov;
		mkmsg_store.clen = 1;
	} else {
		mkmsg_store.used = n;
	}
	return &mkmsg_store;
}
static void run_ctx(int ntok, char **tok)
{
	int t = 6, has_send, has_ptr;
	size_t head = offsetof(MPT_STRUCT(reply_context_defer), data);
	uint8_t *snap = malloc(head);

	mx = vh_u64(tok[2]);
	has_send = vh_int(tok[3]);
	has_ptr = vh_int(tok[4]);
	nscript = 0; spos = 0;
	if (strcmp(tok[5], "-")) {
		char *s = tok[5];
		while (*s && nscript < 1024) {
			script[nscript++] = strtol(s, &s, 10);
			if (*s == ',') s++;
		}
	}
	vsz = mx > 4 ? mx : 4;
	tptr = has_ptr ? &transport : 0;
	mt = mpt_reply_deferrable(mx, has_send ? send_cb : 0, tptr);
	ctx = 0; rc = 0; own = 0; nh = 0;
	if (mt) {
		ctx = MPT_baseaddr(reply_context_defer, mt, _mt);
		own = 1;
		memset(ctx->data.val, 0xee, vsz);
		vp_mt = ctx->_mt._vptr;
		vp_ctx = ctx->_ctx._vptr;
		MPT_metatype_convert(mt, MPT_ENUM(TypeReplyPtr), &rc);
	}
	while (t < ntok) {
		const char *op = tok[t++];
		int strict = 0, intact = 1;
		clen = 0; calls[0] = 0;
		if (ctx && vh_live(ctx)) memcpy(snap, ctx, head);

		if (!strcmp(op, "conv")) {
			int ty = vh_int(tok[t++]);
			if (!own) vh_tok("X");
			else {
				void *p = 0;
				int r = MPT_metatype_convert(mt, ty, &p);
				const char *part = "other";
				if (!p) part = "none";
				else if (p == (void *) &ctx->_ctx) part = "ctx";
				else if (p == (void *) &ctx->data) part = "data";
				else if (p == (void *) &ctx->_mt) part = "mt";
				else if (!ty && ((uint8_t *) p)[0] == MPT_ENUM(TypeReplyPtr)
				         && ((uint8_t *) p)[1] == MPT_ENUM(TypeReplyDataPtr) && !((uint8_t *) p)[2]) part = "fmt";
				vh_tok("v%d:%s", r, part);
				strict = 1;
			}
		}
		else if (!strcmp(op, "arm") || !strcmp(op, "armz")) {
			size_t n; uint8_t *d = 0;
			if (op[3]) n = vh_int(tok[t++]); else d = vh_unhex(tok[t++], &n);
			if (!own) vh_tok("X");
			else {
				/* what connection_dispatch.c does */
				MPT_STRUCT(reply_data) *rd = 0;
				int r = MPT_ERROR(BadOperation);
				if (MPT_metatype_convert(mt, MPT_ENUM(TypeReplyDataPtr), &rd) >= 0 && rd) {
					r = mpt_reply_set(rd, n, d);
				}
				vh_tok("i%d", r);
				strict = 1;
			}
			free(d);
		}
		else if (!strcmp(op, "reply")) {
			uint8_t *keep;
			const MPT_STRUCT(message) *m = mkmsg(tok[t++], &keep);
			if (!own) vh_tok("X");
			else vh_tok("i%d", rc->_vptr->reply(rc, m));
			free(keep);
		}
		else if (!strcmp(op, "creply")) {
			int code = vh_int(tok[t++]);
			const char *tt = tok[t++];
			if (!own) vh_tok("X");
			else if (!strcmp(tt, "null")) vh_tok("i%d", mpt_context_reply(rc, code, 0));
			else {
				size_t n; uint8_t *b = vh_unhex(tt, &n);
				char *s = malloc(n + 1);
				memcpy(s, b, n); s[n] = 0;
				vh_tok("i%d", mpt_context_reply(rc, code, "%s", s));
				free(s); free(b);
			}
		}
		else if (!strcmp(op, "defer")) {
			if (!own) vh_tok("X");
			else {
				MPT_INTERFACE(reply_context_detached) *d = rc->_vptr->defer(rc);
				if (!d) vh_tok("hN");
				else if (nh >= MAXH) { vh_tok("?toomany"); break; }
				else { hd[nh] = d; vh_tok("h%d", nh); nh++; }
			}
		}
		else if (!strcmp(op, "hreply")) {
			int k = vh_int(tok[t++]);
			uint8_t *keep;
			const MPT_STRUCT(message) *m = mkmsg(tok[t++], &keep);
			if (k < 0 || k >= nh || !vh_live(hd[k])) vh_tok("X");
			else vh_tok("i%d", hd[k]->_vptr->reply(hd[k], m));
			free(keep);
		}
		else if (!strcmp(op, "ref")) {
			if (!own) vh_tok("X");
			else {
				uintptr_t r = mt->_vptr->addref(mt);
				if (r) own++;
				vh_tok("c%llx", (unsigned long long) r);
			}
		}
		else if (!strcmp(op, "unref")) {
			if (!own) vh_tok("X");
			else { mt->_vptr->unref(mt); own--; vh_tok("d"); }
		}
		else { vh_tok("?%s", op); break; }

		vh_add("|%s", clen ? calls : "-");
		if (ctx && vh_live(ctx)) {
			if (strict && memcmp(snap, ctx, head)) intact = 0;
			if (ctx->_mt._vptr != vp_mt || ctx->_ctx._vptr != vp_ctx || ctx->reply.ptr != tptr) intact = 0;
		}
		dump(intact);
	}
	free(snap);
}

/* ---- stream input case (mptio/stream/stream_input.c over a socketpair, COBS coding) ----
 *   <id> sin <idlen> <mode> req <message-hex> <nrep> <rep1 hex|null> <rep2 hex|null> <code> ...
 *        mode 0 read-only, 1 bidirectional + buffered, 2 bidirectional with unbuffered writing (no write queue: every
 *        reply fails in mpt_stream_reply), L<n> = like 1 but the write queue may not grow beyond n bytes (mpt_queue_prepare
 *        is wrapped and refuses: what a failing realloc does) - the failure paths of mpt_stream_reply;
 *        Q<n> = like 1, the write queue is given exactly n bytes (mpt_queue_resize) and every further growth is refused:
 *        a reply is sent iff its COBS frame (marked id + message + delimiter) fits into n bytes, else mpt_stream_reply
 *        rolls back (nothing of it may reach the wire, later replies must still work)
 *        further items:  rqd <message-hex> <rep hex|null> <code>   the handler first asks for a deferred handle, then replies
 *                        rq0 <message-hex>                         dispatch(NULL): the message is skipped
 *                        scv <in|fmt|meta|sock|bad>                convert() of the input
 *                        srf                                       addref, clone, unref
 *   <id> sinx <idlen> <mode hex> <coding>     mpt_stream_input with these arguments on a socketpair: ok / null
 * the message (id bytes + payload) is COBS-framed by the harness and written to the peer end;
 * the handler replies nrep times through ev->reply (if it got one) and returns code.
 * token: <dispatch ret>|<ev.id hex>:<reply ctx 01>:<payload hex>  or -|<reply results>|<decoded frames on the wire> */
static size_t cobs_enc(const uint8_t *in, size_t n, uint8_t *out)
{
	size_t ri = 0, wi = 1, ci = 0;
	uint8_t code = 1;
	while (ri < n) {
		if (!in[ri]) { out[ci] = code; code = 1; ci = wi++; ri++; }
		else {
			out[wi++] = in[ri++];
			if (++code == 0xff) { out[ci] = code; code = 1; ci = wi++; }
		}
	}
	out[ci] = code;
	out[wi++] = 0;
	return wi;
}
static size_t cobs_dec(const uint8_t *in, size_t n, uint8_t *out)
{
	size_t ri = 0, wi = 0;
	while (ri < n) {
		uint8_t code = in[ri++], i;
		for (i = 1; i < code && ri < n; i++) out[wi++] = in[ri++];
		if (code < 0xff && ri < n) out[wi++] = 0;
	}
	return wi;
}
struct sin_handler {
	int nrep, code, called, defer;
	const char *rep[2];
	char seen[4096];
	char res[64];
};
static int sin_handle(void *arg, MPT_STRUCT(event) *ev)
{
	struct sin_handler *h = arg;
	uint8_t buf[1400];
	size_t n = 0, i, o;
	h->called = 1;
	if (ev->msg) {
		MPT_STRUCT(message) m = *ev->msg;
		n = mpt_message_read(&m, sizeof(buf), buf);
	}
	o = snprintf(h->seen, sizeof(h->seen), "%llx:%d:", (unsigned long long) ev->id, ev->reply ? 1 : 0);
	if (!n) o += snprintf(h->seen + o, sizeof(h->seen) - o, "-");
	for (i = 0; i < n; i++) o += snprintf(h->seen + o, sizeof(h->seen) - o, "%02x", buf[i]);
	h->res[0] = 0;
	if (ev->reply) {
		int k;
		o = 0;
		if (h->defer) o += snprintf(h->res + o, sizeof(h->res) - o, "%s,", ev->reply->_vptr->defer(ev->reply) ? "h" : "hN");
		for (k = 0; k < h->nrep; k++) {
			uint8_t *keep;
			const MPT_STRUCT(message) *m = mkmsg(h->rep[k], &keep);
			int r = ev->reply->_vptr->reply(ev->reply, m);
			o += snprintf(h->res + o, sizeof(h->res) - o, "%s%d", k ? "," : "", r);
			free(keep);
		}
		if (o && h->res[o - 1] == ',') h->res[o - 1] = 0;
	}
	return h->code;
}
static void run_sin(int ntok, char **tok)
{
	int sv[2], t = 4, md = (tok[3][0] == 'L' || tok[3][0] == 'Q') ? 1 : vh_int(tok[3]);
	size_t idlen = vh_int(tok[2]);
	MPT_STRUCT(socket) sock;
	MPT_INTERFACE(input) *in;
	MPT_STRUCT(streamInput) *srm;
	if (socketpair(AF_UNIX, SOCK_STREAM, 0, sv) < 0) { vh_tok("?socketpair"); return; }
	fcntl(sv[1], F_SETFL, O_NONBLOCK);
	sock._id = sv[0];
	in = mpt_stream_input(&sock, md == 1 ? (MPT_STREAMFLAG(Write) | MPT_STREAMFLAG(RdWr) | MPT_STREAMFLAG(Buffer))
	                           : md == 2 ? (MPT_STREAMFLAG(RdWr) | MPT_STREAMFLAG(ReadBuf))
	                                     : (MPT_STREAMFLAG(Read) | MPT_STREAMFLAG(ReadBuf)),
	                      MPT_ENUM(EncodingCobs), idlen);
	if (!in) { vh_tok("?input"); return; }
	srm = (void *) in;
	if (tok[3][0] == 'L') { wq_limit = vh_int(tok[3] + 1); wq_queue = &srm->data._wd.data; }
	if (tok[3][0] == 'Q') {
		size_t cap = vh_int(tok[3] + 1);
		if (cap && !mpt_queue_resize(&srm->data._wd.data, cap)) { vh_tok("?resize"); return; }
		wq_fixed = 1; wq_queue = &srm->data._wd.data;
	}
	while (t < ntok) {
		struct sin_handler h;
		size_t n, fl;
		uint8_t *msg, frame[1400], wire[4096], dec[4096];
		ssize_t got, tot = 0;
		int r, first = 1, kind;
		size_t pos, start;
		const char *op = tok[t++];
		if (!strcmp(op, "scv")) {
			const char *w = tok[t++];
			const MPT_STRUCT(named_traits) *tr = mpt_input_type_traits();
			int me = tr ? (int) tr->type : (int) MPT_ENUM(TypeMetaPtr);
			int ty = !strcmp(w, "in") ? me : !strcmp(w, "fmt") ? 0 : !strcmp(w, "meta") ? MPT_ENUM(TypeMetaPtr)
			       : !strcmp(w, "sock") ? MPT_ENUM(TypeUnixSocket) : 'd';
			union { void *p; int fd; const char *fmt; } u;
			const char *part = "other";
			memset(&u, 0, sizeof(u));
			if (ty == MPT_ENUM(TypeUnixSocket)) u.fd = -77;
			r = in->_vptr->meta.convertable.convert((void *) in, ty, &u);
			if (ty == MPT_ENUM(TypeUnixSocket)) part = u.fd == -77 ? "none" : u.fd < 0 ? "nofd" : "fd";
			else if (!u.p) part = "none";
			else if (u.p == (void *) &srm->_in) part = "in";
			else if (!ty && u.fmt[0] == MPT_ENUM(TypeUnixSocket) && !u.fmt[1]) part = "fmt";
			vh_tok("v%s:%s", r == me ? "me" : r == MPT_ENUM(TypeUnixSocket) ? "sock" : r < 0 ? "err" : "other", part);
			if (r < 0) vh_add("%d", r);
			continue;
		}
		if (!strcmp(op, "srf")) {
			uintptr_t c = in->_vptr->meta.addref((void *) in);
			void *cl = in->_vptr->meta.clone((void *) in);
			if (c) in->_vptr->meta.unref((void *) in);
			vh_tok("r%d:%s", (int) c, cl ? "clone" : "noclone");
			continue;
		}
		kind = !strcmp(op, "req") ? 0 : !strcmp(op, "rqd") ? 1 : !strcmp(op, "rq0") ? 2 : -1;
		if (kind < 0 || t >= ntok) { vh_tok("?%s", op); break; }
		msg = vh_unhex(tok[t++], &n);
		memset(&h, 0, sizeof(h));
		if (kind == 0) {
			if (t + 3 >= ntok) { vh_tok("?req"); break; }
			h.nrep = vh_int(tok[t]);
			h.rep[0] = tok[t + 1];
			h.rep[1] = tok[t + 2];
			h.code = vh_int(tok[t + 3]);
			t += 4;
		} else if (kind == 1) {
			if (t + 1 >= ntok) { vh_tok("?rqd"); break; }
			h.defer = 1; h.nrep = 1;
			h.rep[0] = tok[t];
			h.code = vh_int(tok[t + 1]);
			t += 2;
		}
		if (n > 1200) { vh_tok("?toolong"); break; }
		fl = cobs_enc(msg, n, frame);
		free(msg);
		if (write(sv[1], frame, fl) != (ssize_t) fl) { vh_tok("?write"); break; }
		/* the input reads 64 bytes at a time: next(POLLIN) while the descriptor has data (what the notifier would do) */
		{
			struct pollfd pf;
			int rounds = 0;
			do {
				in->_vptr->next(in, POLLIN);
				pf.fd = sv[0]; pf.events = POLLIN; pf.revents = 0;
			} while (++rounds < 64 && poll(&pf, 1, 0) > 0 && (pf.revents & POLLIN));
		}
		r = in->_vptr->dispatch(in, kind == 2 ? 0 : sin_handle, &h);
		mpt_stream_flush(&srm->data);
		vh_tok("%d|%s|%s|", r, h.called ? h.seen : "-", h.res[0] ? h.res : "-");
		while ((got = read(sv[1], wire + tot, sizeof(wire) - tot)) > 0) tot += got;
		for (pos = 0, start = 0; pos < (size_t) tot; pos++) {
			if (wire[pos]) continue;
			n = cobs_dec(wire + start, pos - start, dec);
			if (!first) vh_add(";");
			first = 0;
			if (!n) vh_add("e"); else vh_hex(dec, n);
			start = pos + 1;
		}
		if (start < (size_t) tot) { vh_add("%s?partial", first ? "" : ";"); first = 0; }
		if (first) vh_add("-");
	}
	in->_vptr->meta.unref((void *) in);
	close(sv[1]);
}
/* mpt_stream_input argument checks */
static void run_sinx(int ntok, char **tok)
{
	int sv[2];
	MPT_STRUCT(socket) sock;
	MPT_INTERFACE(input) *in;
	if (socketpair(AF_UNIX, SOCK_STREAM, 0, sv) < 0) { vh_tok("?socketpair"); return; }
	sock._id = !strcmp(tok[2], "badfd") ? 999 : sv[0];
	errno = 0;
	in = mpt_stream_input(&sock, strtol(tok[3], 0, 16), vh_int(tok[4]), !strcmp(tok[2], "badfd") ? 2 : (size_t) vh_int(tok[2]));
	if (!in) { vh_tok("null"); close(sv[0]); }
	else { vh_tok("ok"); in->_vptr->meta.unref((void *) in); }
	close(sv[1]);
}
/* mpt_context_reply() without reply context: nothing can be sent, the text goes to stderr
 *   <id> nrc <code> <text hex|null>        token: i<ret>:<what appeared on descriptor 2, hex> */
static void run_nrc(char **tok)
{
	int code = vh_int(tok[2]), r, save;
	FILE *tf = tmpfile();
	char out[2048];
	size_t got;
	if (!tf) { vh_tok("?tmpfile"); return; }
	fflush(stderr);
	save = dup(2);
	dup2(fileno(tf), 2);
	if (!strcmp(tok[3], "null")) r = mpt_context_reply(0, code, 0);
	else {
		size_t n; uint8_t *b = vh_unhex(tok[3], &n);
		char *s = malloc(n + 1);
		memcpy(s, b, n); s[n] = 0;
		r = mpt_context_reply(0, code, "%s", s);
		free(s); free(b);
	}
	fflush(stderr);
	dup2(save, 2);
	close(save);
	rewind(tf);
	got = fread(out, 1, sizeof(out), tf);
	fclose(tf);
	vh_tok("i%d:", r);
	vh_hex(out, got);
}
static void run_case(int ntok, char **tok)
{
	if (ntok < 3) return;
	if (!strcmp(tok[1], "nrc") && ntok >= 4) { run_nrc(tok); return; }
	if (!strcmp(tok[1], "id2buf") && ntok >= 4) {
		uint64_t id = strtoull(tok[2], 0, 16), out = 0xdeadbeefcafef00dULL;
		size_t w = vh_int(tok[3]);
		uint8_t *buf = malloc(w ? w : 1);
		int r;
		memset(buf, 0xee, w ? w : 1);
		r = mpt_message_id2buf(id, buf, w);
		if (r < 0) vh_tok("E%d", r);
		else {
			vh_tok("ok:"); vh_hex(buf, w); vh_add(":%d", r);
			r = mpt_message_buf2id(buf, w, &out);
			if (r < 0) vh_tok("E%d", r);
			else vh_tok("ok:%llx:%d", (unsigned long long) out, r);
		}
		free(buf);
	}
	else if (!strcmp(tok[1], "buf2id")) {
		uint64_t out = 0xdeadbeefcafef00dULL;
		size_t n;
		uint8_t *b = vh_unhex(tok[2], &n);
		int r;
		if (n) {
			/* exact size: vh_unhex allocates n bytes */
			r = mpt_message_buf2id(b, n, &out);
		} else {
			r = mpt_message_buf2id(b, 0, &out);
		}
		if (r < 0) vh_tok("E%d", r);
		else vh_tok("ok:%llx:%d", (unsigned long long) out, r);
		free(b);
	}
	else if (!strcmp(tok[1], "ctx") && ntok >= 6) run_ctx(ntok, tok);
	else if (!strcmp(tok[1], "sin") && ntok >= 4) run_sin(ntok, tok);
	else if (!strcmp(tok[1], "sinx") && ntok >= 5) run_sinx(ntok, tok);
	else vh_tok("?case");
}
int main(int argc, char **argv) { return vh_main(argc, argv, run_case); }
