/* C13 C++ harness: drives the mpt++ queue classes of mpt++/io_queue.cpp (io::queue) and
 * mpt++/queue.cpp (encode_queue, decode_queue) with the case language of harness/c13_queue.c.
 *   <id> <max> <off> <contents-hex> <op> <args> ...
 * The start state is installed in the queue embedded in the object under test; which object
 * that is follows from the operations of the case:
 *   io::queue       (default; the C operations of c13_ops.h act on its embedded queue)
 *     ioprepare n | iopush hex | iopushz n | iounshift hex | iounshiftz n | iopop n h | ioshift n h
 *     iowrite cnt part hex | ioread cnt part | iopeek n | ionew n
 *   encode_queue without encoder ("raw throughput"), first operation starts with 'e'
 *     epush hex | efin | erev | etrim n          token <out>|<contents>|<max>|<done>,<scratch>
 *   decode_queue without decoder ("raw message mode"), first operation is dset
 *     dset curr pos len msg ctx   install a decoder state (msg = -1: no message delivered)
 *     drecv | dpeek max h | dshift   mpt_queue_recv / mpt_queue_peek(max, h ? buffer : NULL) / mpt_queue_shift
 *     dadv | dcur h                  decode_queue::advance / current_message(msg, h ? &vec : 0) + read all of it
 *     and the C operations of c13_ops.h on the embedded queue (data arriving, data taken away)
 *                                    token <out>|<contents>|<max>|<curr>,<pos>,<len>,<msg>
 *   encode_queue(COBS) -> decode_queue(COBS), first operation is xround
 *     xround hex    push + terminate a message, hand the finished bytes over (trim), advance,
 *                   current_message, read it, advance until nothing is offered any more
 *                   token B:<message>|<bytes left in writer>|<bytes left in reader>
 * Token per operation otherwise: <out>|<contents-hex>|<max>  (see ml/c13_driver.ml). */
#include "common.h"
#include <sys/uio.h>
#include <new>
#include "convert.h"
#include "message.h"
#include "queue.h"
#include "io.h"
/* the two files under test are compiled into this translation unit */
#include "io_queue.cpp"
#include "queue.cpp"

using namespace mpt;

#include "c13_ops.h"

struct IoQ : public io::queue {
	IoQ(size_t n = 0) : io::queue(n) { }
	struct ::mpt::queue *raw() { return &_d; }
};
struct EncQ : public encode_queue {
	EncQ(data_encoder_t e = 0) : encode_queue(e) { }
	encode_state *st() { return &_state; }
};
struct DecQ : public decode_queue {
	DecQ(data_decoder_t d = 0) : decode_queue(d) { }
	decode_state *st() { return &_state; }
};

static void tok_count(ssize_t r, const void *d, size_t n)
{
	if (r < 0) { vh_tok("R"); return; }
	vh_tok("N:%zd:", r);
	vh_hex(d, n);
}

/* ---- io::queue ---- */
static void run_io(int ntok, char **tok)
{
	IoQ *o = new IoQ;
	int t = 4;
	c13_init(o->raw(), tok);
	while (t < ntok) {
		const char *op = tok[t++];
		if (c13_c_op(o->raw(), op, tok, &t)) { }
		else if (!strcmp(op, "ioprepare")) {
			vh_tok(o->prepare(vh_int(tok[t++])) ? "D" : "R");
		}
		else if (!strcmp(op, "iopush") || !strcmp(op, "iounshift")) {
			size_t n; uint8_t *d = vh_unhex(tok[t++], &n);
			bool r = op[2] == 'p' ? o->push(d, n) : o->unshift(d, n);
			vh_tok(r ? "D" : "R");
			free(d);
		}
		else if (!strcmp(op, "iopushz") || !strcmp(op, "iounshiftz")) {
			size_t n = vh_int(tok[t++]);
			bool r = op[2] == 'p' ? o->push(0, n) : o->unshift(0, n);
			vh_tok(r ? "D" : "R");
		}
		else if (!strcmp(op, "iopop") || !strcmp(op, "ioshift")) {
			size_t n = vh_int(tok[t++]);
			int hd = vh_int(tok[t++]);
			uint8_t *d = hd ? (uint8_t *) malloc(n ? n : 1) : 0;
			bool r;
			if (d) memset(d, 0xdd, n ? n : 1);
			r = op[2] == 'p' ? o->pop(d, n) : o->shift(d, n);
			if (!r) vh_tok("R");
			else if (!d) vh_tok("D");
			else { vh_tok("B:"); vh_hex(d, n); }
			free(d);
		}
		else if (!strcmp(op, "iowrite")) {
			size_t cnt = vh_int(tok[t++]), part = vh_int(tok[t++]), n;
			uint8_t *d = vh_unhex(tok[t++], &n);
			ssize_t r = static_cast<io::interface *>(o)->write(cnt, d, part);
			tok_count(r, 0, 0);
			free(d);
		}
		else if (!strcmp(op, "ioread")) {
			size_t cnt = vh_int(tok[t++]), part = vh_int(tok[t++]);
			uint8_t *d = (uint8_t *) malloc(cnt * part + 1);
			ssize_t r;
			memset(d, 0xdd, cnt * part + 1);
			r = static_cast<io::interface *>(o)->read(cnt, d, part);
			tok_count(r, d, r > 0 ? r * part : 0);
			free(d);
		}
		else if (!strcmp(op, "iopeek")) {
			span<const uint8_t> s = static_cast<io::interface *>(o)->peek(vh_int(tok[t++]));
			vh_tok("B:"); vh_hex(s.begin(), s.size());
		}
		else if (!strcmp(op, "ionew")) {
			size_t n = vh_int(tok[t++]);
			delete o;
			o = new IoQ(n);
			vh_tok("D");
		}
		else { vh_tok("?%s", op); break; }
		c13_dump(o->raw());
	}
	delete o;
}

/* ---- encode_queue without encoder ---- */
static void run_enc(int ntok, char **tok)
{
	EncQ *e = new EncQ;
	int t = 4;
	c13_init(e, tok);
	e->st()->done = e->len;   /* the start content counts as finished data */
	while (t < ntok) {
		const char *op = tok[t++];
		if (!strcmp(op, "epush")) {
			size_t n; uint8_t *d = vh_unhex(tok[t++], &n);
			tok_count(e->push(n, d), 0, 0);
			free(d);
		}
		else if (!strcmp(op, "efin")) {
			tok_count(e->push(0, 0), 0, 0);
		}
		else if (!strcmp(op, "erev")) {
			vh_tok(e->push(1, 0) < 0 ? "R" : "D");
		}
		else if (!strcmp(op, "etrim")) {
			vh_tok(e->trim(vh_int(tok[t++])) ? "D" : "R");
		}
		else { vh_tok("?%s", op); break; }
		c13_dump(e);
		vh_add("|%zu,%zu", e->done(), e->st()->scratch);
	}
	mpt_queue_resize(e, 0);
	delete e;
}

/* ---- decode_queue without decoder ---- */
static void run_dec(int ntok, char **tok)
{
	DecQ *d = new DecQ;
	int t = 4;
	c13_init(d, tok);
	while (t < ntok) {
		const char *op = tok[t++];
		if (c13_c_op(d, op, tok, &t)) { }
		else if (!strcmp(op, "dset")) {
			decode_state *st = d->st();
			st->curr = vh_int(tok[t++]);
			st->data.pos = vh_int(tok[t++]);
			st->data.len = vh_int(tok[t++]);
			st->data.msg = vh_int(tok[t++]);
			st->_ctx = vh_int(tok[t++]);
			vh_tok("D");
		}
		else if (!strcmp(op, "drecv")) {
			tok_count(mpt_queue_recv(d), 0, 0);
		}
		else if (!strcmp(op, "dpeek")) {
			size_t max = vh_int(tok[t++]);
			int hd = vh_int(tok[t++]);
			uint8_t *b = hd ? (uint8_t *) malloc(max ? max : 1) : 0;
			ssize_t r;
			if (b) memset(b, 0xdd, max ? max : 1);
			r = mpt_queue_peek(d, max, b);
			if (r < 0) vh_tok("R");
			else if (!b) tok_count(r, 0, 0);
			else { vh_tok("B:"); vh_hex(b, r); }
			free(b);
		}
		else if (!strcmp(op, "dshift")) {
			mpt_queue_shift(d);
			vh_tok("D");
		}
		else if (!strcmp(op, "dadv")) {
			vh_tok(d->advance() ? "D" : "R");
		}
		else if (!strcmp(op, "dcur")) {
			int hv = vh_int(tok[t++]);
			message msg;
			struct iovec vec;
			if (!d->current_message(msg, hv ? &vec : 0)) vh_tok("R");
			else {
				size_t len = msg.length();
				uint8_t *b = (uint8_t *) malloc(len ? len : 1);
				if (msg.read(len, b) != len) vh_tok("R:read");
				else { vh_tok("B:"); vh_hex(b, len); }
				free(b);
			}
		}
		else { vh_tok("?%s", op); break; }
		c13_dump(d);
		vh_add("|%zu,%zu,%zu,%zd", d->st()->curr, d->st()->data.pos, d->st()->data.len, d->st()->data.msg);
	}
	mpt_queue_resize(d, 0);
	delete d;
}

/* ---- coded round trip ---- */
static void run_round(int ntok, char **tok)
{
	EncQ *e = new EncQ(mpt_encode_cobs);
	DecQ *d = new DecQ(mpt_decode_cobs);
	int t = 4;
	c13_init(e, tok);
	c13_init(d, tok);
	e->len = d->len = 0;       /* the header content is not used: both rings start empty at <off> */
	if (e->off >= e->max) e->off = d->off = 0;
	while (t < ntok) {
		const char *op = tok[t++];
		if (!strcmp(op, "xround")) {
			size_t n, off = 0, k;
			uint8_t *p = vh_unhex(tok[t++], &n), *tmp;
			int stuck = 0, ok = 1;
			ssize_t r = 0;
			while (off < n) {
				r = e->push(n - off, p + off);
				if (r > 0) { off += r; stuck = 0; continue; }
				if (++stuck > 4 || !mpt_queue_prepare(e, 2 * n + 16)) { ok = 0; break; }
			}
			stuck = 0;
			while (ok && (r = e->push(0, 0)) < 0) {
				if (++stuck > 4 || !mpt_queue_prepare(e, 2 * n + 16)) { ok = 0; break; }
			}
			free(p);
			if (!ok) { vh_tok("R:push%zd", r); break; }
			/* hand the finished bytes over to the reader */
			k = e->done();
			tmp = (uint8_t *) malloc(k ? k : 1);
			if (mpt_queue_get(e, 0, k, tmp) < 0 || !e->trim(k)) { vh_tok("R:trim"); free(tmp); break; }
			mpt_queue_prepare(d, k);
			if (mpt_qpush(d, k, tmp) < 0) { vh_tok("R:wire"); free(tmp); break; }
			free(tmp);
			if (!d->advance() || !d->pending_message()) { vh_tok("R:advance"); break; }
			{
				message msg;
				struct iovec vec;
				size_t len;
				if (!d->current_message(msg, &vec)) { vh_tok("R:current"); break; }
				len = msg.length();
				tmp = (uint8_t *) malloc(len ? len : 1);
				if (msg.read(len, tmp) != len) { vh_tok("R:read"); free(tmp); break; }
				vh_tok("B:"); vh_hex(tmp, len);
				free(tmp);
			}
			/* go on until the reader has nothing more to offer: no second message may
			 * appear and every byte of the frame must have been consumed */
			{
				int guard = 0;
				while (d->advance() && ++guard < 8) {
					if (d->pending_message()) { vh_add("+MSG"); break; }
				}
			}
			vh_add("|%zu|%zu", e->len, d->len);
		}
		else { vh_tok("?%s", op); break; }
	}
	mpt_queue_resize(e, 0);
	mpt_queue_resize(d, 0);
	delete e;
	delete d;
}
static void run_case(int ntok, char **tok)
{
	if (ntok > 4 && !strcmp(tok[4], "xround")) run_round(ntok, tok);
	else if (ntok > 4 && !strcmp(tok[4], "dset")) run_dec(ntok, tok);
	else if (ntok > 4 && tok[4][0] == 'e') run_enc(ntok, tok);
	else run_io(ntok, tok);
}
int main(int argc, char **argv) { return vh_main(argc, argv, run_case); }
