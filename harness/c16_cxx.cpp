/* C16 C++ harness: drives the class identifier of mpt++/identifier.cpp (compiled into this
 * translation unit) and the inline members of mptcore/core.h (destructor, item<T>) with the
 * case language of harness/c16_ident.c; the C functions can be mixed with the members on
 * the same objects.  Every object lives on exact-size malloc storage (placement new), so
 * ASan sees every access outside the `total` bytes the constructor was told about.
 *
 * Case line:
 *   <id> s<size>|w<len>|t32 ... -- <op> <args> ...
 *     s<size>  new (malloc(size)) identifier(size)
 *     w<len>   mpt_identifier_new(len)                    (C object, used through the members)
 *     t32      new (malloc(32)) item<T>()                 (identifier part: total 24)
 *   C operations (see c16_ident.c): set setz raw copy copyn cmp cmpz cmpn ineq
 *   members:
 *     xset i D    id_i->set_name(D, |D|)        xsetz i D   id_i->set_name(D+"\0")  (default length)
 *     xraw i n    id_i->set_name(0, n)
 *     xeq i D     id_i->equal(D, |D|)           xeqz i D    id_i->equal(D+"\0", -1)
 *     xeqn i n    id_i->equal(0, n)
 *     xname i     id_i->name(): NULL, or the _len bytes behind the returned address
 *     xcopy i j   *id_i = *id_j                 (i == j: self assignment; item<T>::operator= for t32)
 *     xctor i j   the object in slot i is destroyed (destructor, storage released), then
 *                 new (malloc(sizeof(identifier))) identifier(*id_j)     (i == j refused)
 *     xnew i n    the object in slot i is destroyed, then new (malloc(n)) identifier(n)
 *     xitem i     the object in slot i is destroyed, then new (malloc(32)) item<T>()
 * Tokens as in c16_ident.c:  <res>|<slot0>|...|h<live>, slot = <_len>.<_charset>.<bytes>;
 *   res: D/R, c:<n>, q:0|lt|gt, e:0|e:ne (equal), N:NULL | N:<bytes> (name)
 *   _len/_charset are read from the object's bytes (offsets 0 and 2), not through the class.
 * Final token: end|h<live>[|L] after the destructor of every object and release of the storage. */
#include "common.h"
#include <errno.h>
#include <new>
#include "core.h"
/* the file under test */
#include "identifier.cpp"

using namespace mpt;

extern "C" {
int __sanitizer_install_malloc_and_free_hooks(void (*)(const volatile void *, size_t), void (*)(const volatile void *));
int __lsan_do_recoverable_leak_check(void);
}

static volatile int counting;
static long live;
static void hook_malloc(const volatile void *p, size_t n) { (void) n; if (counting && p) live++; }
static void hook_free(const volatile void *p) { if (counting && p) live--; }

/* what item<T> refers to (never instantiated: the reference stays empty) */
struct Thing {
	void unref() { }
	uintptr_t addref() { return 1; }
};
typedef item<Thing> Item;

static_assert(sizeof(identifier) == 16, "identifier layout");
static_assert(sizeof(Item) == 32, "item<T> layout");

enum { PLAIN, ITEM, CNEW };
#define MAXSLOT 8
static struct {
	identifier *id;   /* the identifier (sub)object */
	void *mem;        /* its storage */
	int kind;
} slot[MAXSLOT];
static int nslot;

static uint8_t gen_byte(unsigned long seed, unsigned long i)
{
	return (uint8_t) (1 + ((seed * 31 + i * 7 + i / 253) % 255));
}
static uint8_t *get_data(const char *s, size_t *len, int term)
{
	uint8_t *b;
	size_t n, i;
	if (s[0] == 'g') {
		char *e;
		unsigned long seed, flip = ~0ul;
		n = strtoul(s + 1, &e, 10);
		seed = strtoul(e + 1, &e, 10);
		if (*e == '.') flip = strtoul(e + 1, 0, 10);
		b = (uint8_t *) malloc(n + (term ? 1 : 0));
		for (i = 0; i < n; i++) b[i] = gen_byte(seed, i);
		if (flip < n) b[flip] = (b[flip] == 255) ? 1 : b[flip] + 1;
	}
	else {
		uint8_t *t = vh_unhex(s, &n);
		b = (uint8_t *) malloc(n + (term ? 1 : 0));
		memcpy(b, t, n);
		free(t);
	}
	if (term) b[n] = 0;
	*len = n;
	return b;
}
static void put_bytes(const uint8_t *p, size_t n)
{
	if (n <= 40) { vh_hex(p, n); return; }
	{
		uint32_t h = 2166136261u;
		size_t i;
		for (i = 0; i < n; i++) { h ^= p[i]; h *= 16777619u; }
		vh_add("#%08x:", h);
		vh_hex(p, 8);
		vh_add("..");
		vh_hex(p + n - 8, 8);
	}
}
/* header fields read from the object representation */
static unsigned id_len(const identifier *id)
{
	uint16_t l;
	memcpy(&l, (const uint8_t *) id, sizeof(l));
	return l;
}
static unsigned id_charset(const identifier *id)
{
	return ((const uint8_t *) id)[2];
}
static void dump(void)
{
	int i;
	for (i = 0; i < nslot; i++) {
		const identifier *id = slot[i].id;
		const uint8_t *d = (const uint8_t *) mpt_identifier_data(id);
		vh_add("|%u.%u.", id_len(id), id_charset(id));
		if (!d && id_len(id)) vh_add("NULL");
		else put_bytes(d, id_len(id));
	}
	vh_add("|h%ld", live);
}
/* constructors on exact-size storage */
static int make_plain(int i, size_t n)
{
	void *mem;
	if (n < sizeof(identifier) || !(mem = malloc(n))) return 0;
	memset(mem, 0xee, n);
	counting = 1;
	slot[i].id = new (mem) identifier(n);
	counting = 0;
	slot[i].mem = mem;
	slot[i].kind = PLAIN;
	return 1;
}
static int make_item(int i)
{
	void *mem;
	Item *it;
	if (!(mem = malloc(sizeof(Item)))) return 0;
	memset(mem, 0xee, sizeof(Item));
	counting = 1;
	it = new (mem) Item();
	counting = 0;
	slot[i].id = static_cast<identifier *>(it);
	slot[i].mem = mem;
	slot[i].kind = ITEM;
	return 1;
}
static int make_copy(int i, const identifier *from)
{
	void *mem;
	if (!(mem = malloc(sizeof(identifier)))) return 0;
	memset(mem, 0xee, sizeof(identifier));
	counting = 1;
	slot[i].id = new (mem) identifier(*from);
	counting = 0;
	slot[i].mem = mem;
	slot[i].kind = PLAIN;
	return 1;
}
/* destructor + release of the storage */
static void destroy(int i)
{
	counting = 1;
	if (slot[i].kind == ITEM) static_cast<Item *>(slot[i].id)->~Item();
	else slot[i].id->~identifier();
	counting = 0;
	free(slot[i].mem);
	slot[i].id = 0;
	slot[i].mem = 0;
}
static void run_case(int ntok, char **tok)
{
	int t = 1, i;
	__sanitizer_install_malloc_and_free_hooks(hook_malloc, hook_free);
	for (; t < ntok && strcmp(tok[t], "--"); t++) {
		size_t n = strtoul(tok[t] + 1, 0, 10);
		if (nslot >= MAXSLOT) continue;
		if (tok[t][0] == 'w') {
			identifier *id;
			if (!(id = mpt_identifier_new(n))) continue;
			slot[nslot].id = id;
			slot[nslot].mem = id;
			slot[nslot].kind = CNEW;
		}
		else if (tok[t][0] == 't') {
			if (!make_item(nslot)) continue;
		}
		else if (!make_plain(nslot, n)) continue;
		nslot++;
	}
	t++;
	while (t < ntok) {
		const char *op = tok[t++];
		/* ---- C functions on the same objects ---- */
		if (!strcmp(op, "set") || !strcmp(op, "setz")) {
			int z = op[3] == 'z';
			size_t n; void *r;
			i = vh_int(tok[t++]);
			uint8_t *d = get_data(tok[t++], &n, z);
			counting = 1;
			r = mpt_identifier_set(slot[i].id, (const char *) d, z ? -1 : (int) n);
			counting = 0;
			vh_tok(r ? "D" : "R");
			free(d);
		}
		else if (!strcmp(op, "raw")) {
			void *r; long n;
			i = vh_int(tok[t++]);
			n = vh_int(tok[t++]);
			counting = 1;
			r = mpt_identifier_set(slot[i].id, 0, (int) n);
			counting = 0;
			vh_tok(r ? "D" : "R");
		}
		else if (!strcmp(op, "copy") || !strcmp(op, "copyn")) {
			void *r; int j = -1;
			i = vh_int(tok[t++]);
			if (!op[4]) j = vh_int(tok[t++]);
			counting = 1;
			r = mpt_identifier_copy(slot[i].id, j < 0 ? 0 : slot[j].id);
			counting = 0;
			vh_tok(r ? "D" : "R");
		}
		else if (!strcmp(op, "cmp") || !strcmp(op, "cmpz")) {
			int z = op[3] == 'z', r;
			size_t n;
			i = vh_int(tok[t++]);
			uint8_t *d = get_data(tok[t++], &n, z);
			r = mpt_identifier_compare(slot[i].id, (const char *) d, z ? -1 : (int) n);
			vh_tok("c:%d", r);
			free(d);
		}
		else if (!strcmp(op, "cmpn")) {
			long n;
			i = vh_int(tok[t++]);
			n = vh_int(tok[t++]);
			vh_tok("c:%d", mpt_identifier_compare(slot[i].id, 0, (int) n));
		}
		else if (!strcmp(op, "ineq")) {
			int j, r;
			i = vh_int(tok[t++]);
			j = vh_int(tok[t++]);
			r = mpt_identifier_inequal(slot[i].id, slot[j].id);
			vh_tok(r < 0 ? "q:lt" : r > 0 ? "q:gt" : "q:0");
		}
		/* ---- members of the class ---- */
		else if (!strcmp(op, "xset") || !strcmp(op, "xsetz")) {
			int z = op[4] == 'z';
			size_t n; bool r;
			i = vh_int(tok[t++]);
			uint8_t *d = get_data(tok[t++], &n, z);
			counting = 1;
			r = z ? slot[i].id->set_name((const char *) d) : slot[i].id->set_name((const char *) d, (int) n);
			counting = 0;
			vh_tok(r ? "D" : "R");
			free(d);
		}
		else if (!strcmp(op, "xraw")) {
			bool r; long n;
			i = vh_int(tok[t++]);
			n = vh_int(tok[t++]);
			counting = 1;
			r = slot[i].id->set_name(0, (int) n);
			counting = 0;
			vh_tok(r ? "D" : "R");
		}
		else if (!strcmp(op, "xeq") || !strcmp(op, "xeqz")) {
			int z = op[3] == 'z';
			size_t n; bool r;
			i = vh_int(tok[t++]);
			uint8_t *d = get_data(tok[t++], &n, z);
			r = static_cast<const identifier *>(slot[i].id)->equal((const char *) d, z ? -1 : (int) n);
			vh_tok(r ? "e:0" : "e:ne");
			free(d);
		}
		else if (!strcmp(op, "xeqn")) {
			long n;
			i = vh_int(tok[t++]);
			n = vh_int(tok[t++]);
			vh_tok(static_cast<const identifier *>(slot[i].id)->equal(0, (int) n) ? "e:0" : "e:ne");
		}
		else if (!strcmp(op, "xname")) {
			const char *p;
			i = vh_int(tok[t++]);
			p = static_cast<const identifier *>(slot[i].id)->name();
			if (!p) vh_tok("N:NULL");
			else { vh_tok("N:"); put_bytes((const uint8_t *) p, id_len(slot[i].id)); }
		}
		else if (!strcmp(op, "xcopy")) {
			int j;
			i = vh_int(tok[t++]);
			j = vh_int(tok[t++]);
			counting = 1;
			if (slot[i].kind == ITEM) {
				Item &r = (*static_cast<Item *>(slot[i].id) = *slot[j].id);
				counting = 0;
				vh_tok(&r == static_cast<Item *>(slot[i].id) ? "D" : "R");
			} else {
				identifier &r = (*slot[i].id = *slot[j].id);
				counting = 0;
				vh_tok(&r == slot[i].id ? "D" : "R");
			}
		}
		else if (!strcmp(op, "xctor")) {
			int j;
			i = vh_int(tok[t++]);
			j = vh_int(tok[t++]);
			if (i == j) vh_tok("R");
			else {
				destroy(i);
				if (!make_copy(i, slot[j].id)) { vh_tok("F:nomem"); return; }
				vh_tok("D");
			}
		}
		else if (!strcmp(op, "xnew")) {
			size_t n;
			i = vh_int(tok[t++]);
			n = strtoul(tok[t++], 0, 10);
			if (n < sizeof(identifier)) vh_tok("R");
			else {
				destroy(i);
				if (!make_plain(i, n)) { vh_tok("F:nomem"); return; }
				vh_tok("D");
			}
		}
		else if (!strcmp(op, "xitem")) {
			i = vh_int(tok[t++]);
			destroy(i);
			if (!make_item(i)) { vh_tok("F:nomem"); return; }
			vh_tok("D");
		}
		else { vh_tok("?%s", op); break; }
		dump();
	}
	/* every object is destroyed: the destructor is what releases an allocated name */
	for (i = 0; i < nslot; i++) destroy(i);
	vh_tok("end|h%ld", live);
	if (__lsan_do_recoverable_leak_check()) vh_add("|L");
}
int main(int argc, char **argv)
{
	int r = vh_main(argc, argv, run_case);
	fflush(stdout);
	_exit(r);   /* the leak check is made per case in the children, not for the reader loop */
}
