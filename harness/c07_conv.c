/* c07_conv.c — implementation harness of C07 (scalar conversion is exact or refused).
 *
 * Calls the real converters of mptcore/convert on the cases of props/c07.py; the source
 * value and the destination live in heap blocks of exactly their size (ASan sees any
 * access beyond them); the destination is pre-filled with 0xA5 (0x5A on a second run when
 * it looks untouched) and read back as the TARGET type.
 *
 * case kinds (first token after the id), several conversions per line:
 *   D <src> <dst> <hd> v...     mpt_data_convert_<src>(&v, dst, hd ? dest : 0)
 *   V <src> <dst> <hd> v...     mpt_value_convert({&v, src}, dst, dest)
 *   C <src> <dst> <hd> v...     mpt_iterator_consume(one-value iterator, dst, dest)
 *   P code...                   mpt_data_converter(code)
 *   ti|tu <vlen> <base> <hd> text...            _mpt_convert_int / _mpt_convert_uint
 *   tw <name> <base> <lo:hi|-> <hd> text...     mpt_cint8 ... mpt_culong
 *   tn|ts <fmt> <hd> text...                    mpt_convert_number / mpt_convert_string
 *   tf <f|d|e> <xLO:xHI|-> <hd> text...         mpt_cfloat / mpt_cdouble / mpt_cldouble; the optional range as two bit patterns of the type
 *   I <src> <dst> <hd> <mode> v...              mpt_iterator_consume on an iterator that (mode & 1) offers no value, (mode & 2) fails
 *                                               to advance (BadOperation); dst 0 = skip the value; token = the C token + @<advance calls>
 *   W <source kind> <hd> dst...                 mpt_value_convert on a NON-number source (string pointer, vectors, unknown codes,
 *                                               stub convertable / metatype pointer / metatype reference) for every target code listed
 *   T code...                                   mpt_type_traits(code): size and whether the type has init/fini
 *   ts with fmt 0 / 107 'k' / 67 'C' / 115 's' / 24 TypeValFmt: the non-numeric branches of mpt_convert_string
 * src: b y n q i u x t (c for V/C), f d e with values as bit patterns (x...); the value "N" (D V C I) = null source
 * address / value._addr == 0;
 * text: hex bytes ("-" empty, "NULL" null pointer), for float targets
 * hex/end/erange/bits = what libc answered (end pointer, errno == ERANGE, value) when the case was generated (re-checked here).
 */
#include "common.h"
#include <errno.h>
#include <math.h>
#include <float.h>
#include <inttypes.h>
#include <sys/uio.h>

#include "types.h"
#include "convert.h"

static void *exact(size_t n, int fill)
{
	void *p = malloc(n ? n : 1);
	memset(p, fill, n ? n : 1);
	return p;
}
static int all_is(const void *p, size_t n, int fill)
{
	const uint8_t *b = p;
	size_t i;
	for (i = 0; i < n; i++) if (b[i] != (uint8_t) fill) return 0;
	return 1;
}
/* size a caller provides for target type code dst (0 = no scalar) */
static size_t tgt_size(uintptr_t dst)
{
	switch (dst) {
	  case 'c': case 'b': case 'y': return 1;
	  case 'n': case 'q': return 2;
	  case 'i': case 'u': case 'f': return 4;
	  case 'x': case 't': case 'd': return 8;
	  case 'l': return sizeof(long);
	  case 'e': return sizeof(long double);
	  default: return 0;
	}
}
static void print_f80(const void *p)
{
	uint64_t lo; uint16_t hi;
	memcpy(&lo, p, 8); memcpy(&hi, (const char *) p + 8, 2);
	if (hi) vh_add("f%x%016" PRIx64, hi, lo); else vh_add("f%" PRIx64, lo);
}
/* print destination as target type */
static void print_value(uintptr_t dst, const void *d)
{
	switch (dst) {
	  case 'c': vh_add("%d", *(const signed char *) d); break;
	  case 'b': vh_add("%d", *(const int8_t *) d); break;
	  case 'y': vh_add("%u", *(const uint8_t *) d); break;
	  case 'n': { int16_t v; memcpy(&v, d, 2); vh_add("%d", v); break; }
	  case 'q': { uint16_t v; memcpy(&v, d, 2); vh_add("%u", v); break; }
	  case 'i': { int32_t v; memcpy(&v, d, 4); vh_add("%" PRId32, v); break; }
	  case 'u': { uint32_t v; memcpy(&v, d, 4); vh_add("%" PRIu32, v); break; }
	  case 'l':
	  case 'x': { int64_t v; memcpy(&v, d, 8); vh_add("%" PRId64, v); break; }
	  case 't': { uint64_t v; memcpy(&v, d, 8); vh_add("%" PRIu64, v); break; }
	  case 'f': { uint32_t v; memcpy(&v, d, 4); vh_add("f%" PRIx32, v); break; }
	  case 'd': { uint64_t v; memcpy(&v, d, 8); vh_add("f%" PRIx64, v); break; }
	  case 'e': print_f80(d); break;
	  default: vh_add("?");
	}
}
static int is_nan_bits(uintptr_t dst, const void *d)
{
	if (dst == 'f') { float v; memcpy(&v, d, 4); return isnan(v); }
	if (dst == 'd') { double v; memcpy(&v, d, 8); return isnan(v); }
	if (dst == 'e') { long double v; memcpy(&v, d, sizeof(v)); return isnan(v); }
	return 0;
}

/* ---- source values ---- */
struct srcval { void *p; size_t len; };
static struct srcval mk_src(int src, const char *txt)
{
	struct srcval s;
	/* "N": no data address at all (MPT_VALUE_INIT(type, 0), a null `from`): the converters read it as 0 */
	if (!strcmp(txt, "N")) { s.p = 0; s.len = 0; return s; }
	switch (src) {
	  case 'c': case 'b': { int8_t v = (int8_t) strtoll(txt, 0, 10); s.len = 1; s.p = exact(1, 0); memcpy(s.p, &v, 1); break; }
	  case 'y': { uint8_t v = (uint8_t) strtoull(txt, 0, 10); s.len = 1; s.p = exact(1, 0); memcpy(s.p, &v, 1); break; }
	  case 'n': { int16_t v = (int16_t) strtoll(txt, 0, 10); s.len = 2; s.p = exact(2, 0); memcpy(s.p, &v, 2); break; }
	  case 'q': { uint16_t v = (uint16_t) strtoull(txt, 0, 10); s.len = 2; s.p = exact(2, 0); memcpy(s.p, &v, 2); break; }
	  case 'i': { int32_t v = (int32_t) strtoll(txt, 0, 10); s.len = 4; s.p = exact(4, 0); memcpy(s.p, &v, 4); break; }
	  case 'u': { uint32_t v = (uint32_t) strtoull(txt, 0, 10); s.len = 4; s.p = exact(4, 0); memcpy(s.p, &v, 4); break; }
	  case 'x': { int64_t v = (int64_t) strtoll(txt, 0, 10); s.len = 8; s.p = exact(8, 0); memcpy(s.p, &v, 8); break; }
	  case 't': { uint64_t v = (uint64_t) strtoull(txt, 0, 10); s.len = 8; s.p = exact(8, 0); memcpy(s.p, &v, 8); break; }
	  case 'f': { uint32_t v = (uint32_t) strtoull(txt + 1, 0, 16); s.len = 4; s.p = exact(4, 0); memcpy(s.p, &v, 4); break; }
	  case 'd': { uint64_t v = (uint64_t) strtoull(txt + 1, 0, 16); s.len = 8; s.p = exact(8, 0); memcpy(s.p, &v, 8); break; }
	  case 'e': {
		/* x<hi 4 hex digits><lo 16 hex digits> */
		char hi[8]; uint16_t h; uint64_t lo;
		size_t n = strlen(txt + 1);
		if (n > 16) { memcpy(hi, txt + 1, n - 16); hi[n - 16] = 0; h = (uint16_t) strtoul(hi, 0, 16); lo = strtoull(txt + 1 + (n - 16), 0, 16); }
		else { h = 0; lo = strtoull(txt + 1, 0, 16); }
		s.len = sizeof(long double); s.p = exact(s.len, 0); memcpy(s.p, &lo, 8); memcpy((char *) s.p + 8, &h, 2);
		break; }
	  default: s.p = 0; s.len = 0;
	}
	return s;
}
static int call_direct(int src, const void *from, uintptr_t dst, void *dest)
{
	switch (src) {
	  case 'b': return mpt_data_convert_int8(from, dst, dest);
	  case 'y': return mpt_data_convert_uint8(from, dst, dest);
	  case 'n': return mpt_data_convert_int16(from, dst, dest);
	  case 'q': return mpt_data_convert_uint16(from, dst, dest);
	  case 'i': return mpt_data_convert_int32(from, dst, dest);
	  case 'u': return mpt_data_convert_uint32(from, dst, dest);
	  case 'x': return mpt_data_convert_int64(from, dst, dest);
	  case 't': return mpt_data_convert_uint64(from, dst, dest);
	  case 'f': return mpt_data_convert_float32(from, dst, dest);
	  case 'd': return mpt_data_convert_float64(from, dst, dest);
	  case 'e': return mpt_data_convert_exflt(from, dst, dest);
	  default: return -100;
	}
}
/* one-value iterator for mpt_iterator_consume */
struct one_iter { MPT_INTERFACE(iterator) it; MPT_STRUCT(value) val; int left; int fail; int calls; };
static int it_mode, it_calls;   /* mode of the I cases; advance calls of the last mpt_iterator_consume */
static const MPT_STRUCT(value) *one_value(MPT_INTERFACE(iterator) *it)
{
	struct one_iter *o = (struct one_iter *) it;
	return o->left ? &o->val : 0;
}
static int one_advance(MPT_INTERFACE(iterator) *it)
{
	struct one_iter *o = (struct one_iter *) it;
	o->calls++;
	if (o->fail) return MPT_ERROR(BadOperation);
	if (!o->left) return MPT_ERROR(MissingData);
	o->left = 0;
	return 0;
}
static int one_reset(MPT_INTERFACE(iterator) *it) { ((struct one_iter *) it)->left = 1; return 0; }
static const MPT_INTERFACE_VPTR(iterator) one_ctl = { one_value, one_advance, one_reset };

static int call_kind(int kind, int src, const void *from, uintptr_t dst, void *dest)
{
	if (kind == 'D') return call_direct(src, from, dst, dest);
	if (kind == 'V') {
		MPT_STRUCT(value) val;
		val._addr = from;
		val._type = src;
		return mpt_value_convert(&val, dst, dest);
	}
	else {
		struct one_iter o;
		int ret;
		o.it._vptr = &one_ctl;
		o.val._addr = from;
		o.val._type = src;
		o.left = (kind == 'I' && (it_mode & 1)) ? 0 : 1;
		o.fail = (kind == 'I' && (it_mode & 2)) ? 1 : 0;
		o.calls = 0;
		ret = mpt_iterator_consume(&o.it, dst, dest);
		it_calls = o.calls;
		return ret;
	}
}

static void value_case(int kind, int ntok, char **tok)
{
	int src = tok[2][0];
	uintptr_t dst = (uintptr_t) strtoull(tok[3], 0, 10);
	int hd = atoi(tok[4]);
	int up = (kind == 'D');
	size_t tsz = tgt_size(dst);
	size_t dsz = tsz ? tsz : 16;
	int i, first = 5;
	if (kind == 'I') { it_mode = atoi(tok[5]); first = 6; }
	for (i = first; i < ntok; i++) {
		struct srcval s = mk_src(src, tok[i]);
		uint8_t *dest = hd ? exact(dsz, 0xA5) : 0;
		int ret = call_kind(kind, src, s.p, dst, dest);
		int calls = it_calls;
		if (ret < 0) {
			/* the iterator cases also say whether a refused call left the destination alone */
			if (kind == 'I' && dest && !all_is(dest, dsz, 0xA5)) vh_tok("R%d!written", ret);
			else vh_tok("R%d", ret);
		}
		else if (!hd) {
			vh_tok("%c%d", up ? 'Q' : 'q', ret);
		}
		else {
			int untouched = 0;
			if (all_is(dest, dsz, 0xA5)) {
				uint8_t *d2 = exact(dsz, 0x5A);
				call_kind(kind, src, s.p, dst, d2);
				untouched = all_is(d2, dsz, 0x5A);
				free(d2);
			}
			if (untouched) {
				vh_tok("%c%d", up ? 'U' : 'u', ret);
			}
			else if (dst >= 0x40 && dst < 0x5a) {
				struct iovec vec;
				memcpy(&vec, dest, sizeof(vec));
				if (vec.iov_base == s.p) vh_tok("%c%d:%zu", up ? 'V' : 'v', ret, vec.iov_len);
				else vh_tok("%c%d:badbase", up ? 'V' : 'v', ret);
			}
			else if (!tsz) {
				vh_tok("%c%d", up ? 'J' : 'j', ret);
			}
			else {
				vh_tok("%c%d:", up ? 'K' : 'k', ret);
				if (is_nan_bits(dst, dest)) vh_add("fnan"); else print_value(dst, dest);
			}
		}
		if (kind == 'I') vh_add("@%d", calls);
		free(dest);
		free(s.p);
	}
}

/* ---- text ---- */
struct item { char *str; int has_oracle; long oend; int oovf; char obits[40]; };
static struct item mk_item(const char *tok)
{
	struct item it;
	char *copy = strdup(tok), *sl;
	it.has_oracle = 0; it.oend = 0; it.oovf = 0; it.obits[0] = 0;
	if ((sl = strchr(copy, '/'))) {
		*sl++ = 0;
		it.has_oracle = 1;
		sscanf(sl, "%ld/%d/%39s", &it.oend, &it.oovf, it.obits);
	}
	if (!strcmp(copy, "NULL")) it.str = 0;
	else {
		size_t n;
		uint8_t *b = vh_unhex(copy, &n);
		/* exact-size heap string: n bytes + terminator */
		it.str = malloc(n + 1);
		memcpy(it.str, b, n);
		it.str[n] = 0;
		free(b);
	}
	free(copy);
	return it;
}
/* what does libc say (re-check of the oracle recorded in the case) */
static void libc_oracle(int fmt, const char *s, long *oend, int *oovf, char *bits)
{
	char *end = (char *) s;
	*oovf = 0;
	errno = 0;
	if (fmt == 'f') { float v = strtof(s, &end); uint32_t b; *oovf = (errno == ERANGE); memcpy(&b, &v, 4);
		if (isnan(v)) strcpy(bits, "nan"); else sprintf(bits, "%" PRIx32, b); }
	else if (fmt == 'd') { double v = strtod(s, &end); uint64_t b; *oovf = (errno == ERANGE); memcpy(&b, &v, 8);
		if (isnan(v)) strcpy(bits, "nan"); else sprintf(bits, "%" PRIx64, b); }
	else { long double v = strtold(s, &end); uint64_t lo; uint16_t hi; *oovf = (errno == ERANGE);
		memcpy(&lo, &v, 8); memcpy(&hi, (char *) &v + 8, 2);
		if (isnan(v)) strcpy(bits, "nan"); else if (hi) sprintf(bits, "%x%016" PRIx64, hi, lo); else sprintf(bits, "%" PRIx64, lo); }
	*oend = end - s;
}

/* value of floating type fmt from its bit pattern "x<hex>" (as in the source values of the D cases) */
static long double flt_of_bits(int fmt, const char *txt)
{
	char one[48];
	struct srcval s;
	long double r;
	size_t n = strcspn(txt, ":");
	if (n >= sizeof(one)) n = sizeof(one) - 1;
	memcpy(one, txt, n); one[n] = 0;
	s = mk_src(fmt, one);
	if (fmt == 'f') { float v; memcpy(&v, s.p, 4); r = v; }
	else if (fmt == 'd') { double v; memcpy(&v, s.p, 8); r = v; }
	else { memcpy(&r, s.p, sizeof(r)); }
	free(s.p);
	return r;
}
typedef int (*text_fn)(void *ctx, const char *src, void *dest);
struct tctx { int kind; long a; long base; int name; int hasrange; int64_t lo, hi; uint64_t ulo, uhi; long double flo, fhi; uintptr_t fmt; };

static int call_text(struct tctx *c, const char *src, void *dest)
{
	switch (c->kind) {
	  case 'i': return _mpt_convert_int(dest, (size_t) c->a, src, (int) c->base);
	  case 'u': return _mpt_convert_uint(dest, (size_t) c->a, src, (int) c->base);
	  case 'n': return mpt_convert_number(src, (int) c->fmt, dest);
	  case 's': return mpt_convert_string(src, c->fmt, dest);
	  case 'f':
		if (c->fmt == 'f') { float r[2]; r[0] = (float) c->flo; r[1] = (float) c->fhi; return mpt_cfloat(dest, src, c->hasrange ? r : 0); }
		if (c->fmt == 'd') { double r[2]; r[0] = (double) c->flo; r[1] = (double) c->fhi; return mpt_cdouble(dest, src, c->hasrange ? r : 0); }
		{ long double r[2]; r[0] = c->flo; r[1] = c->fhi; return mpt_cldouble(dest, src, c->hasrange ? r : 0); }
	  case 'w': {
		int b = (int) c->base;
#define W(nm, fn, ty, L, H) if (c->name == nm) { ty r[2]; r[0] = (ty) L; r[1] = (ty) H; return fn(dest, src, b, c->hasrange ? r : 0); }
		W(1, mpt_cint8, int8_t, c->lo, c->hi) W(2, mpt_cint16, int16_t, c->lo, c->hi) W(3, mpt_cint32, int32_t, c->lo, c->hi)
		W(4, mpt_cint64, int64_t, c->lo, c->hi) W(5, mpt_cchar, char, c->lo, c->hi) W(6, mpt_cint, int, c->lo, c->hi)
		W(7, mpt_clong, long, c->lo, c->hi)
		W(11, mpt_cuint8, uint8_t, c->ulo, c->uhi) W(12, mpt_cuint16, uint16_t, c->ulo, c->uhi) W(13, mpt_cuint32, uint32_t, c->ulo, c->uhi)
		W(14, mpt_cuint64, uint64_t, c->ulo, c->uhi) W(15, mpt_cuchar, unsigned char, c->ulo, c->uhi) W(16, mpt_cuint, unsigned int, c->ulo, c->uhi)
		W(17, mpt_culong, unsigned long, c->ulo, c->uhi)
#undef W
		return -100; }
	  default: return -100;
	}
}
/* the branches of mpt_convert_string that are no numbers: type 0 (format query), 'k' (keyword), char vector, 's' (string
 * pointer), TypeValFmt.  Returns 0 for every other type. */
static int string_special(struct tctx *c, const char *str, int hd)
{
	uintptr_t fmt = c->fmt;
	uint8_t *dest;
	int ret;
	if (fmt != 0 && fmt != 'k' && fmt != MPT_type_toVector('c') && fmt != 's' && fmt != MPT_ENUM(TypeValFmt)) return 0;
	if (fmt == MPT_ENUM(TypeValFmt)) {
		/* mpt_valfmt_get is not modelled: the call is executed (faults show) and asking without destination has to give the
		 * same answer as performing */
		MPT_STRUCT(value_format) *vf = exact(sizeof(*vf), 0xA5);
		ret = mpt_convert_string(str, fmt, vf);
		if (!hd) {
			int q = mpt_convert_string(str, fmt, 0);
			if (q == ret) vh_tok("X="); else vh_tok("X!perform%d/query%d", ret, q);
		}
		else vh_tok("X");
		free(vf);
		return 1;
	}
	dest = hd ? exact(16, 0xA5) : 0;
	ret = mpt_convert_string(str, fmt, dest);
	if (ret < 0) vh_tok(dest && !all_is(dest, 16, 0xA5) ? "R%d!written" : "R%d", ret);
	else if (!hd) vh_tok("Q%d", ret);
	else if (all_is(dest, 16, 0xA5)) vh_tok(ret ? "U%d" : "E", ret);
	else if (!all_is(dest + (fmt == MPT_type_toVector('c') ? 16 : 8), fmt == MPT_type_toVector('c') ? 0 : 8, 0xA5)) vh_tok("J%d:long", ret);
	else if (fmt == 0) {
		const uint8_t *f; memcpy(&f, dest, 8);
		vh_tok("Z%d:%02x%02x", ret, f[0], f[0] ? f[1] : 0);
	}
	else if (fmt == 'k') {
		const char *key; memcpy(&key, dest, 8);
		if (str && key >= str && key <= str + strlen(str)) vh_tok("K%d:@%ld", ret, (long) (key - str)); else vh_tok("K%d:badptr", ret);
	}
	else if (fmt == 's') {
		const char *p; memcpy(&p, dest, 8);
		vh_tok(p == str ? "P%d" : "P%d:badptr", ret);
	}
	else {
		struct iovec v; memcpy(&v, dest, sizeof(v));
		vh_tok(v.iov_base == (void *) str ? "V%d:%zu" : "V%d:badbase:%zu", ret, v.iov_len);
	}
	free(dest);
	return 1;
}
static int wrapper_id(const char *n, uintptr_t *as)
{
	static const struct { const char *n; int id; char t; } tab[] = {
		{"int8",1,'b'},{"int16",2,'n'},{"int32",3,'i'},{"int64",4,'x'},{"char",5,'c'},{"int",6,'i'},{"long",7,'x'},
		{"uint8",11,'y'},{"uint16",12,'q'},{"uint32",13,'u'},{"uint64",14,'t'},{"uchar",15,'y'},{"uint",16,'u'},{"ulong",17,'t'},{0,0,0}};
	int i;
	for (i = 0; tab[i].n; i++) if (!strcmp(tab[i].n, n)) { *as = tab[i].t; return tab[i].id; }
	return 0;
}

static void text_case(int ntok, char **tok)
{
	struct tctx c;
	uintptr_t readas = 0;   /* type the destination is read back as */
	int hd, first, i;
	memset(&c, 0, sizeof(c));
	c.kind = tok[1][1];
	if (c.kind == 'i' || c.kind == 'u') {
		c.a = strtol(tok[2], 0, 10); c.base = strtol(tok[3], 0, 10); hd = atoi(tok[4]); first = 5;
		switch (c.a) { case 1: readas = c.kind == 'i' ? 'b' : 'y'; break; case 2: readas = c.kind == 'i' ? 'n' : 'q'; break;
		  case 4: readas = c.kind == 'i' ? 'i' : 'u'; break; case 8: readas = c.kind == 'i' ? 'x' : 't'; break; default: readas = 0; }
	}
	else if (c.kind == 'w') {
		c.name = wrapper_id(tok[2], &readas); c.base = strtol(tok[3], 0, 10);
		if (strcmp(tok[4], "-")) {
			char *col = strchr(tok[4], ':');
			c.hasrange = 1;
			c.lo = strtoll(tok[4], 0, 10); c.hi = strtoll(col + 1, 0, 10);
			c.ulo = strtoull(tok[4], 0, 10); c.uhi = strtoull(col + 1, 0, 10);
		}
		hd = atoi(tok[5]); first = 6;
	}
	else if (c.kind == 'f') {
		c.fmt = tok[2][0]; readas = c.fmt;
		if (strcmp(tok[3], "-")) {
			char *col = strchr(tok[3], ':');
			c.hasrange = 1;
			c.flo = flt_of_bits((int) c.fmt, tok[3]); c.fhi = flt_of_bits((int) c.fmt, col + 1);
		}
		hd = atoi(tok[4]); first = 5;
	}
	else {
		c.fmt = (uintptr_t) strtoull(tok[2], 0, 10); readas = c.fmt; hd = atoi(tok[3]); first = 4;
	}
	{
	size_t tsz = tgt_size(readas);
	size_t dsz = tsz ? tsz : 16;
	for (i = first; i < ntok; i++) {
		struct item it = mk_item(tok[i]);
		uint8_t *dest = hd ? exact(dsz, 0xA5) : 0;
		int ret;
		if (it.has_oracle && it.str && (readas == 'f' || readas == 'd' || readas == 'e')) {
			long oe; int ov; char ob[40];
			libc_oracle((int) readas, it.str, &oe, &ov, ob);
			if (oe != it.oend || ov != it.oovf || strcmp(ob, it.obits)) { vh_tok("ORACLE-MISMATCH:%ld/%d/%s", oe, ov, ob); free(dest); continue; }
		}
		if (c.kind == 's' && string_special(&c, it.str, hd)) { free(dest); free(it.str); continue; }
		ret = call_text(&c, it.str, dest);
		if (ret < 0) vh_tok("R%d", ret);
		else if (ret == 0) {
			if (dest && !all_is(dest, dsz, 0xA5)) vh_tok("E!written"); else vh_tok("E");
		}
		else if (!hd) vh_tok("Q%d", ret);
		else {
			int untouched = 0;
			if (all_is(dest, dsz, 0xA5)) {
				uint8_t *d2 = exact(dsz, 0x5A);
				call_text(&c, it.str, d2);
				untouched = all_is(d2, dsz, 0x5A);
				free(d2);
			}
			if (untouched) vh_tok("U%d", ret);
			else if (!tsz) vh_tok("J");
			else {
				vh_tok("K%d:", ret);
				if (is_nan_bits(readas, dest)) vh_add("fnan"); else print_value(readas, dest);
			}
		}
		free(dest);
		free(it.str);
	}
	}
}


/* ---- mpt_value_convert on sources that are no numbers (W cases) ---- */
#include "meta.h"
/* stub convertable / metatype: answers a request for 'i' with 77 and refuses everything else */
struct stub_meta { MPT_INTERFACE(metatype) mt; int convs, addrefs, unrefs; };
static int stub_convert(MPT_INTERFACE(convertable) *c, MPT_TYPE(type) t, void *d)
{
	struct stub_meta *m = (struct stub_meta *) c;
	m->convs++;
	if (t == 'i') { if (d) { int32_t v = 77; memcpy(d, &v, 4); } return 'i'; }
	return MPT_ERROR(BadType);
}
static void stub_unref(MPT_INTERFACE(metatype) *mt) { ((struct stub_meta *) mt)->unrefs++; }
static uintptr_t stub_addref(MPT_INTERFACE(metatype) *mt) { return ++((struct stub_meta *) mt)->addrefs; }
static MPT_INTERFACE(metatype) *stub_clone(const MPT_INTERFACE(metatype) *mt) { (void) mt; return 0; }
static const MPT_INTERFACE_VPTR(metatype) stub_ctl = { { stub_convert }, stub_unref, stub_addref, stub_clone };

static void other_case(int ntok, char **tok)
{
	const char *kind = tok[2];
	int hd = atoi(tok[3]);
	int i;
	for (i = 4; i < ntok; i++) {
		uintptr_t dst = (uintptr_t) strtoull(tok[i], 0, 10);
		/* source data in exact-size heap blocks */
		struct stub_meta *obj = calloc(1, sizeof(*obj)), *old = calloc(1, sizeof(*old));
		char *text = 0;           /* string data a result may point to */
		void *data = 0;           /* the value's address */
		size_t dlen = 0;
		int isvec = 0, run, convs = 0, addrefs = 0, unrefs = 0;
		uintptr_t stype = 0;
		uint8_t *d[2] = { 0, 0 };
		int ret[2] = { 0, 0 };
		MPT_STRUCT(value) val;
		obj->mt._vptr = &stub_ctl; old->mt._vptr = &stub_ctl;
#define DATA(n) (dlen = (n), data = exact(dlen, 0))
		if (!strcmp(kind, "s"))        { stype = 's'; text = strdup("hello"); DATA(8); memcpy(data, &text, 8); }
		else if (!strcmp(kind, "s0"))  { stype = 's'; DATA(8); }
		else if (!strcmp(kind, "C4") || !strcmp(kind, "C3") || !strcmp(kind, "C0")) {
			struct iovec v;
			stype = 'C'; isvec = 1;
			text = malloc(4); memcpy(text, "abc", 4);
			v.iov_base = kind[1] == '0' ? 0 : text; v.iov_len = kind[1] - '0';
			DATA(sizeof(v)); memcpy(data, &v, sizeof(v));
		}
		else if (!strcmp(kind, "I3") || !strcmp(kind, "At")) {
			struct iovec v; int32_t a[3] = { 1, 2, 3 };
			stype = kind[0] == 'I' ? 'I' : '@'; isvec = 1;
			text = malloc(12); memcpy(text, a, 12);
			v.iov_base = text; v.iov_len = 12;
			DATA(sizeof(v)); memcpy(data, &v, sizeof(v));
		}
		else if (!strcmp(kind, "a"))   { stype = 'a'; DATA(16); }
		else if (!strcmp(kind, "z"))   { stype = 'z'; DATA(16); }
		else if (!strcmp(kind, "l"))   { stype = 'l'; DATA(8); }
		else if (!strcmp(kind, "k"))   { stype = 'k'; text = strdup("key"); DATA(8); memcpy(data, &text, 8); }
		else if (!strcmp(kind, "vf"))  { MPT_STRUCT(value_format) f = MPT_VALFMT_INIT; stype = MPT_ENUM(TypeValFmt); f.width = 7; DATA(sizeof(f)); memcpy(data, &f, sizeof(f)); }
		else if (!strcmp(kind, "tv"))  { stype = MPT_ENUM(TypeValue); DATA(sizeof(MPT_STRUCT(value))); }
		else if (!strcmp(kind, "priv")){ stype = 0x12345; DATA(16); }
		else if (!strcmp(kind, "t20")) { stype = 0x20; DATA(16); }
		else if (!strcmp(kind, "it"))  { stype = MPT_ENUM(TypeIteratorPtr); DATA(8); memcpy(data, &obj, 8); }
		else if (!strcmp(kind, "id"))  { stype = MPT_ENUM(TypeIdentifier); DATA(64); }
		else if (!strcmp(kind, "cv"))  { stype = MPT_ENUM(TypeConvertablePtr); DATA(8); memcpy(data, &obj, 8); }
		else if (!strcmp(kind, "cv0")) { stype = MPT_ENUM(TypeConvertablePtr); DATA(8); }
		else if (!strcmp(kind, "cvn")) { stype = MPT_ENUM(TypeConvertablePtr); }
		else if (!strcmp(kind, "mt"))  { stype = MPT_ENUM(TypeMetaPtr); DATA(8); memcpy(data, &obj, 8); }
		else if (!strcmp(kind, "mt0")) { stype = MPT_ENUM(TypeMetaPtr); DATA(8); }
		else if (!strcmp(kind, "mtn")) { stype = MPT_ENUM(TypeMetaPtr); }
		else if (!strcmp(kind, "m7"))  { stype = MPT_ENUM(_TypeMetaPtrMax); DATA(8); memcpy(data, &obj, 8); }
		else if (!strcmp(kind, "rf"))  { stype = MPT_ENUM(TypeMetaRef); DATA(8); memcpy(data, &obj, 8); }
		else if (!strcmp(kind, "rf0")) { stype = MPT_ENUM(TypeMetaRef); DATA(8); }
		else { vh_tok("?kind"); return; }
#undef DATA
		val._addr = data;
		val._type = stype;
		/* two runs with different fill patterns tell exactly which bytes were written */
		for (run = 0; run < (hd ? 2 : 1); run++) {
			if (hd) {
				d[run] = exact(64, run ? 0x5A : 0xA5);
				/* a metatype reference target holds a reference already */
				if (dst == MPT_ENUM(TypeMetaRef)) memcpy(d[run], &old, 8);
			}
			ret[run] = mpt_value_convert(&val, dst, d[run]);
			/* what the first run did to the stubs */
			if (!run) { convs = obj->convs; addrefs = obj->addrefs; unrefs = old->unrefs; }
		}
		if (ret[0] < 0) {
			if (hd && !all_is(d[0], 64, 0xA5) && dst != MPT_ENUM(TypeMetaRef)) vh_tok("R%d!written", ret[0]);
			else vh_tok("R%d", ret[0]);
		}
		else if (!hd) vh_tok("q%d", ret[0]);
		else if (ret[1] != ret[0]) vh_tok("?unstable%d/%d", ret[0], ret[1]);
		else if (dst == MPT_ENUM(TypeMetaRef)) {
			void *now; memcpy(&now, d[0], 8);
			vh_tok("r%d:a%du%d%s", ret[0], addrefs, unrefs, now == (data ? *(void **) data : 0) ? "" : ":badptr");
			if (!all_is(d[0] + 8, 56, 0xA5)) vh_add(":long");
		}
		else {
			size_t n = 0, j;
			int contiguous = 1;
			for (j = 0; j < 64; j++) {
				int mod = d[0][j] != 0xA5 || d[1][j] != 0x5A;
				if (mod) { if (j != n) contiguous = 0; n = j + 1; }
			}
			if (!n) vh_tok("u%d", ret[0]);
			else if (!contiguous) vh_tok("j%d:holes%zu", ret[0], n);
			else {
				struct iovec v; void *ptr; int32_t i32;
				memcpy(&v, d[0], sizeof(v)); memcpy(&ptr, d[0], 8); memcpy(&i32, d[0], 4);
				if (n == 16 && data && v.iov_base == data) vh_tok("v%d:%zu", ret[0], v.iov_len);
				else if (n == 8 && isvec && text && ptr == text) vh_tok("s%d", ret[0]);
				else if (data && n <= dlen && !memcmp(d[0], data, n)) vh_tok("m%d:%zu", ret[0], n);
				else if (n == 4 && i32 == 77) vh_tok("c%d:77", ret[0]);
				else vh_tok("j%d:%zu", ret[0], n);
			}
		}
		/* how often the stub was asked */
		if (convs) vh_add("/c%d", convs);
		free(d[0]); free(d[1]); free(data); free(text); free(obj); free(old);
	}
}

static const char *conv_name(MPT_TYPE(data_converter) f)
{
	if (!f) return "none";
	if (f == (MPT_TYPE(data_converter)) mpt_data_convert_int8) return "int8";
	if (f == (MPT_TYPE(data_converter)) mpt_data_convert_uint8) return "uint8";
	if (f == (MPT_TYPE(data_converter)) mpt_data_convert_int16) return "int16";
	if (f == (MPT_TYPE(data_converter)) mpt_data_convert_uint16) return "uint16";
	if (f == (MPT_TYPE(data_converter)) mpt_data_convert_int32) return "int32";
	if (f == (MPT_TYPE(data_converter)) mpt_data_convert_uint32) return "uint32";
	if (f == (MPT_TYPE(data_converter)) mpt_data_convert_int64) return "int64";
	if (f == (MPT_TYPE(data_converter)) mpt_data_convert_uint64) return "uint64";
	if (f == (MPT_TYPE(data_converter)) mpt_data_convert_float32) return "float32";
	if (f == (MPT_TYPE(data_converter)) mpt_data_convert_float64) return "float64";
	if (f == (MPT_TYPE(data_converter)) mpt_data_convert_exflt) return "exflt";
	return "other";
}

static void run_case(int ntok, char **tok)
{
	int i;
	if (ntok < 2) return;
	if (!strcmp(tok[1], "D") || !strcmp(tok[1], "V") || !strcmp(tok[1], "C")) {
		if (ntok >= 5) value_case(tok[1][0], ntok, tok);
	}
	else if (!strcmp(tok[1], "I")) {
		if (ntok >= 6) value_case('I', ntok, tok);
	}
	else if (!strcmp(tok[1], "W")) {
		if (ntok >= 4) other_case(ntok, tok);
	}
	else if (!strcmp(tok[1], "T")) {
		/* the traits table mpt_value_convert consults */
		for (i = 2; i < ntok; i++) {
			const MPT_STRUCT(type_traits) *t = mpt_type_traits((uintptr_t) strtoull(tok[i], 0, 10));
			if (!t) vh_tok("-"); else vh_tok("%c%zu", (t->init || t->fini) ? 'm' : 'n', t->size);
		}
	}
	else if (!strcmp(tok[1], "P")) {
		for (i = 2; i < ntok; i++) vh_tok("%s", conv_name(mpt_data_converter((uintptr_t) strtoull(tok[i], 0, 10))));
	}
	else if (tok[1][0] == 't' && ntok >= 5) text_case(ntok, tok);
}
int main(int c, char **v) { return vh_main(c, v, run_case); }
