/* c07_conv.c — implementation harness of C07 (scalar conversion is exact or refused).
 *
 * Calls the real converters of mptcore/convert on the cases of props/c07.py; the source
 * value and the destination live in heap blocks of exactly their size (ASan sees any
 * access beyond them); the destination is pre-filled with 0xA5 (0x5A on a second run when
 * it looks untouched) and read back as the TARGET type.
 *
 * case kinds (first token after the id), several conversions per line:
 *   D <src> <dst> <hd> v...     mpt_data_convert_<src>(&v, dst, hd ? dest : 0)
 *   V <src> <dst> <hd> v...     mpt_value_convert({&v, src}, dst, dest)
 *   C <src> <dst> <hd> v...     mpt_iterator_consume(one-value iterator, dst, dest)
 *   P code...                   mpt_data_converter(code)
 *   ti|tu <vlen> <base> <hd> text...            _mpt_convert_int / _mpt_convert_uint
 *   tw <name> <base> <lo:hi|-> <hd> text...     mpt_cint8 ... mpt_culong
 *   tn|ts <fmt> <hd> text...                    mpt_convert_number / mpt_convert_string
 *   tf <f|d|e> <lo:hi|-> <hd> text...           mpt_cfloat / mpt_cdouble / mpt_cldouble
 * src: b y n q i u x t (c for V/C), f d e with values as bit patterns (x...);
 * text: hex bytes ("-" empty, "NULL" null pointer), for float targets
 * hex/end/erange/bits = what libc answered (end pointer, errno == ERANGE, value) when the case was generated (re-checked here).
 */
#include "common.h"
#include <errno.h>
#include <math.h>
#include <float.h>
#include <inttypes.h>
#include <sys/uio.h>

#include "types.h"
#include "convert.h"

static void *exact(size_t n, int fill)
{
	void *p = malloc(n ? n : 1);
	memset(p, fill, n ? n : 1);
	return p;
}
static int all_is(const void *p, size_t n, int fill)
{
	const uint8_t *b = p;
	size_t i;
	for (i = 0; i < n; i++) if (b[i] != (uint8_t) fill) return 0;
	return 1;
}
/* size a caller provides for target type code dst (0 = no scalar) */
static size_t tgt_size(uintptr_t dst)
{
	switch (dst) {
	  case 'c': case 'b': case 'y': return 1;
	  case 'n': case 'q': return 2;
	  case 'i': case 'u': case 'f': return 4;
	  case 'x': case 't': case 'd': return 8;
	  case 'l': return sizeof(long);
	  case 'e': return sizeof(long double);
	  default: return 0;
	}
}
static void print_f80(const void *p)
{
	uint64_t lo; uint16_t hi;
	memcpy(&lo, p, 8); memcpy(&hi, (const char *) p + 8, 2);
	if (hi) vh_add("f%x%016" PRIx64, hi, lo); else vh_add("f%" PRIx64, lo);
}
/* print destination as target type */
static void print_value(uintptr_t dst, const void *d)
{
	switch (dst) {
	  case 'c': vh_add("%d", *(const signed char *) d); break;
	  case 'b': vh_add("%d", *(const int8_t *) d); break;
	  case 'y': vh_add("%u", *(const uint8_t *) d); break;
	  case 'n': { int16_t v; memcpy(&v, d, 2); vh_add("%d", v); break; }
	  case 'q': { uint16_t v; memcpy(&v, d, 2); vh_add("%u", v); break; }
	  case 'i': { int32_t v; memcpy(&v, d, 4); vh_add("%" PRId32, v); break; }
	  case 'u': { uint32_t v; memcpy(&v, d, 4); vh_add("%" PRIu32, v); break; }
	  case 'l':
	  case 'x': { int64_t v; memcpy(&v, d, 8); vh_add("%" PRId64, v); break; }
	  case 't': { uint64_t v; memcpy(&v, d, 8); vh_add("%" PRIu64, v); break; }
	  case 'f': { uint32_t v; memcpy(&v, d, 4); vh_add("f%" PRIx32, v); break; }
	  case 'd': { uint64_t v; memcpy(&v, d, 8); vh_add("f%" PRIx64, v); break; }
	  case 'e': print_f80(d); break;
	  default: vh_add("?");
	}
}
static int is_nan_bits(uintptr_t dst, const void *d)
{
	if (dst == 'f') { float v; memcpy(&v, d, 4); return isnan(v); }
	if (dst == 'd') { double v; memcpy(&v, d, 8); return isnan(v); }
	if (dst == 'e') { long double v; memcpy(&v, d, sizeof(v)); return isnan(v); }
	return 0;
}

/* ---- source values ---- */
struct srcval { void *p; size_t len; };
static struct srcval mk_src(int src, const char *txt)
{
	struct srcval s;
	switch (src) {
	  case 'c': case 'b': { int8_t v = (int8_t) strtoll(txt, 0, 10); s.len = 1; s.p = exact(1, 0); memcpy(s.p, &v, 1); break; }
	  case 'y': { uint8_t v = (uint8_t) strtoull(txt, 0, 10); s.len = 1; s.p = exact(1, 0); memcpy(s.p, &v, 1); break; }
	  case 'n': { int16_t v = (int16_t) strtoll(txt, 0, 10); s.len = 2; s.p = exact(2, 0); memcpy(s.p, &v, 2); break; }
	  case 'q': { uint16_t v = (uint16_t) strtoull(txt, 0, 10); s.len = 2; s.p = exact(2, 0); memcpy(s.p, &v, 2); break; }
	  case 'i': { int32_t v = (int32_t) strtoll(txt, 0, 10); s.len = 4; s.p = exact(4, 0); memcpy(s.p, &v, 4); break; }
	  case 'u': { uint32_t v = (uint32_t) strtoull(txt, 0, 10); s.len = 4; s.p = exact(4, 0); memcpy(s.p, &v, 4); break; }
	  case 'x': { int64_t v = (int64_t) strtoll(txt, 0, 10); s.len = 8; s.p = exact(8, 0); memcpy(s.p, &v, 8); break; }
	  case 't': { uint64_t v = (uint64_t) strtoull(txt, 0, 10); s.len = 8; s.p = exact(8, 0); memcpy(s.p, &v, 8); break; }
	  case 'f': { uint32_t v = (uint32_t) strtoull(txt + 1, 0, 16); s.len = 4; s.p = exact(4, 0); memcpy(s.p, &v, 4); break; }
	  case 'd': { uint64_t v = (uint64_t) strtoull(txt + 1, 0, 16); s.len = 8; s.p = exact(8, 0); memcpy(s.p, &v, 8); break; }
	  case 'e': {
		/* x<hi 4 hex digits><lo 16 hex digits> */
		char hi[8]; uint16_t h; uint64_t lo;
		size_t n = strlen(txt + 1);
		if (n > 16) { memcpy(hi, txt + 1, n - 16); hi[n - 16] = 0; h = (uint16_t) strtoul(hi, 0, 16); lo = strtoull(txt + 1 + (n - 16), 0, 16); }
		else { h = 0; lo = strtoull(txt + 1, 0, 16); }
		s.len = sizeof(long double); s.p = exact(s.len, 0); memcpy(s.p, &lo, 8); memcpy((char *) s.p + 8, &h, 2);
		break; }
	  default: s.p = 0; s.len = 0;
	}
	return s;
}
static int call_direct(int src, const void *from, uintptr_t dst, void *dest)
{
	switch (src) {
	  case 'b': return mpt_data_convert_int8(from, dst, dest);
	  case 'y': return mpt_data_convert_uint8(from, dst, dest);
	  case 'n': return mpt_data_convert_int16(from, dst, dest);
	  case 'q': return mpt_data_convert_uint16(from, dst, dest);
	  case 'i': return mpt_data_convert_int32(from, dst, dest);
	  case 'u': return mpt_data_convert_uint32(from, dst, dest);
	  case 'x': return mpt_data_convert_int64(from, dst, dest);
	  case 't': return mpt_data_convert_uint64(from, dst, dest);
	  case 'f': return mpt_data_convert_float32(from, dst, dest);
	  case 'd': return mpt_data_convert_float64(from, dst, dest);
	  case 'e': return mpt_data_convert_exflt(from, dst, dest);
	  default: return -100;
	}
}
/* one-value iterator for mpt_iterator_consume */
struct one_iter { MPT_INTERFACE(iterator) it; MPT_STRUCT(value) val; int left; };
static const MPT_STRUCT(value) *one_value(MPT_INTERFACE(iterator) *it)
{
	struct one_iter *o = (struct one_iter *) it;
	return o->left ? &o->val : 0;
}
static int one_advance(MPT_INTERFACE(iterator) *it)
{
	struct one_iter *o = (struct one_iter *) it;
	if (!o->left) return MPT_ERROR(MissingData);
	o->left = 0;
	return 0;
}
static int one_reset(MPT_INTERFACE(iterator) *it) { ((struct one_iter *) it)->left = 1; return 0; }
static const MPT_INTERFACE_VPTR(iterator) one_ctl = { one_value, one_advance, one_reset };

static int call_kind(int kind, int src, const void *from, uintptr_t dst, void *dest)
{
	if (kind == 'D') return call_direct(src, from, dst, dest);
	if (kind == 'V') {
		MPT_STRUCT(value) val;
		val._addr = from;
		val._type = src;
		return mpt_value_convert(&val, dst, dest);
	}
	else {
		struct one_iter o;
		o.it._vptr = &one_ctl;
		o.val._addr = from;
		o.val._type = src;
		o.left = 1;
		return mpt_iterator_consume(&o.it, dst, dest);
	}
}

static void value_case(int kind, int ntok, char **tok)
{
	int src = tok[2][0];
	uintptr_t dst = (uintptr_t) strtoull(tok[3], 0, 10);
	int hd = atoi(tok[4]);
	int up = (kind == 'D');
	size_t tsz = tgt_size(dst);
	size_t dsz = tsz ? tsz : 16;
	int i;
	for (i = 5; i < ntok; i++) {
		struct srcval s = mk_src(src, tok[i]);
		uint8_t *dest = hd ? exact(dsz, 0xA5) : 0;
		int ret = call_kind(kind, src, s.p, dst, dest);
		if (ret < 0) {
			vh_tok("R%d", ret);
		}
		else if (!hd) {
			vh_tok("%c%d", up ? 'Q' : 'q', ret);
		}
		else {
			int untouched = 0;
			if (all_is(dest, dsz, 0xA5)) {
				uint8_t *d2 = exact(dsz, 0x5A);
				call_kind(kind, src, s.p, dst, d2);
				untouched = all_is(d2, dsz, 0x5A);
				free(d2);
			}
			if (untouched) {
				vh_tok("%c%d", up ? 'U' : 'u', ret);
			}
			else if (dst >= 0x40 && dst < 0x5a) {
				struct iovec vec;
				memcpy(&vec, dest, sizeof(vec));
				if (vec.iov_base == s.p) vh_tok("%c%d:%zu", up ? 'V' : 'v', ret, vec.iov_len);
				else vh_tok("%c%d:badbase", up ? 'V' : 'v', ret);
			}
			else if (!tsz) {
				vh_tok("%c%d", up ? 'J' : 'j', ret);
			}
			else {
				vh_tok("%c%d:", up ? 'K' : 'k', ret);
				if (is_nan_bits(dst, dest)) vh_add("fnan"); else print_value(dst, dest);
			}
		}
		free(dest);
		free(s.p);
	}
}

/* ---- text ---- */
struct item { char *str; int has_oracle; long oend; int oovf; char obits[40]; };
static struct item mk_item(const char *tok)
{
	struct item it;
	char *copy = strdup(tok), *sl;
	it.has_oracle = 0; it.oend = 0; it.oovf = 0; it.obits[0] = 0;
	if ((sl = strchr(copy, '/'))) {
		*sl++ = 0;
		it.has_oracle = 1;
		sscanf(sl, "%ld/%d/%39s", &it.oend, &it.oovf, it.obits);
	}
	if (!strcmp(copy, "NULL")) it.str = 0;
	else {
		size_t n;
		uint8_t *b = vh_unhex(copy, &n);
		/* exact-size heap string: n bytes + terminator */
		it.str = malloc(n + 1);
		memcpy(it.str, b, n);
		it.str[n] = 0;
		free(b);
	}
	free(copy);
	return it;
}
/* what does libc say (re-check of the oracle recorded in the case) */
static void libc_oracle(int fmt, const char *s, long *oend, int *oovf, char *bits)
{
	char *end = (char *) s;
	*oovf = 0;
	errno = 0;
	if (fmt == 'f') { float v = strtof(s, &end); uint32_t b; *oovf = (errno == ERANGE); memcpy(&b, &v, 4);
		if (isnan(v)) strcpy(bits, "nan"); else sprintf(bits, "%" PRIx32, b); }
	else if (fmt == 'd') { double v = strtod(s, &end); uint64_t b; *oovf = (errno == ERANGE); memcpy(&b, &v, 8);
		if (isnan(v)) strcpy(bits, "nan"); else sprintf(bits, "%" PRIx64, b); }
	else { long double v = strtold(s, &end); uint64_t lo; uint16_t hi; *oovf = (errno == ERANGE);
		memcpy(&lo, &v, 8); memcpy(&hi, (char *) &v + 8, 2);
		if (isnan(v)) strcpy(bits, "nan"); else if (hi) sprintf(bits, "%x%016" PRIx64, hi, lo); else sprintf(bits, "%" PRIx64, lo); }
	*oend = end - s;
}

typedef int (*text_fn)(void *ctx, const char *src, void *dest);
struct tctx { int kind; long a; long base; int name; int hasrange; int64_t lo, hi; uint64_t ulo, uhi; long double flo, fhi; uintptr_t fmt; };

static int call_text(struct tctx *c, const char *src, void *dest)
{
	switch (c->kind) {
	  case 'i': return _mpt_convert_int(dest, (size_t) c->a, src, (int) c->base);
	  case 'u': return _mpt_convert_uint(dest, (size_t) c->a, src, (int) c->base);
	  case 'n': return mpt_convert_number(src, (int) c->fmt, dest);
	  case 's': return mpt_convert_string(src, c->fmt, dest);
	  case 'f':
		if (c->fmt == 'f') { float r[2]; r[0] = (float) c->flo; r[1] = (float) c->fhi; return mpt_cfloat(dest, src, c->hasrange ? r : 0); }
		if (c->fmt == 'd') { double r[2]; r[0] = (double) c->flo; r[1] = (double) c->fhi; return mpt_cdouble(dest, src, c->hasrange ? r : 0); }
		{ long double r[2]; r[0] = c->flo; r[1] = c->fhi; return mpt_cldouble(dest, src, c->hasrange ? r : 0); }
	  case 'w': {
		int b = (int) c->base;
#define W(nm, fn, ty, L, H) if (c->name == nm) { ty r[2]; r[0] = (ty) L; r[1] = (ty) H; return fn(dest, src, b, c->hasrange ? r : 0); }
		W(1, mpt_cint8, int8_t, c->lo, c->hi) W(2, mpt_cint16, int16_t, c->lo, c->hi) W(3, mpt_cint32, int32_t, c->lo, c->hi)
		W(4, mpt_cint64, int64_t, c->lo, c->hi) W(5, mpt_cchar, char, c->lo, c->hi) W(6, mpt_cint, int, c->lo, c->hi)
		W(7, mpt_clong, long, c->lo, c->hi)
		W(11, mpt_cuint8, uint8_t, c->ulo, c->uhi) W(12, mpt_cuint16, uint16_t, c->ulo, c->uhi) W(13, mpt_cuint32, uint32_t, c->ulo, c->uhi)
		W(14, mpt_cuint64, uint64_t, c->ulo, c->uhi) W(15, mpt_cuchar, unsigned char, c->ulo, c->uhi) W(16, mpt_cuint, unsigned int, c->ulo, c->uhi)
		W(17, mpt_culong, unsigned long, c->ulo, c->uhi)
#undef W
		return -100; }
	  default: return -100;
	}
}
static int wrapper_id(const char *n, uintptr_t *as)
{
	static const struct { const char *n; int id; char t; } tab[] = {
		{"int8",1,'b'},{"int16",2,'n'},{"int32",3,'i'},{"int64",4,'x'},{"char",5,'c'},{"int",6,'i'},{"long",7,'x'},
		{"uint8",11,'y'},{"uint16",12,'q'},{"uint32",13,'u'},{"uint64",14,'t'},{"uchar",15,'y'},{"uint",16,'u'},{"ulong",17,'t'},{0,0,0}};
	int i;
	for (i = 0; tab[i].n; i++) if (!strcmp(tab[i].n, n)) { *as = tab[i].t; return tab[i].id; }
	return 0;
}

static void text_case(int ntok, char **tok)
{
	struct tctx c;
	uintptr_t readas = 0;   /* type the destination is read back as */
	int hd, first, i;
	memset(&c, 0, sizeof(c));
	c.kind = tok[1][1];
	if (c.kind == 'i' || c.kind == 'u') {
		c.a = strtol(tok[2], 0, 10); c.base = strtol(tok[3], 0, 10); hd = atoi(tok[4]); first = 5;
		switch (c.a) { case 1: readas = c.kind == 'i' ? 'b' : 'y'; break; case 2: readas = c.kind == 'i' ? 'n' : 'q'; break;
		  case 4: readas = c.kind == 'i' ? 'i' : 'u'; break; case 8: readas = c.kind == 'i' ? 'x' : 't'; break; default: readas = 0; }
	}
	else if (c.kind == 'w') {
		c.name = wrapper_id(tok[2], &readas); c.base = strtol(tok[3], 0, 10);
		if (strcmp(tok[4], "-")) {
			char *col = strchr(tok[4], ':');
			c.hasrange = 1;
			c.lo = strtoll(tok[4], 0, 10); c.hi = strtoll(col + 1, 0, 10);
			c.ulo = strtoull(tok[4], 0, 10); c.uhi = strtoull(col + 1, 0, 10);
		}
		hd = atoi(tok[5]); first = 6;
	}
	else if (c.kind == 'f') {
		c.fmt = tok[2][0]; readas = c.fmt;
		if (strcmp(tok[3], "-")) {
			char *col = strchr(tok[3], ':');
			c.hasrange = 1;
			c.flo = strtold(tok[3], 0); c.fhi = strtold(col + 1, 0);
		}
		hd = atoi(tok[4]); first = 5;
	}
	else {
		c.fmt = (uintptr_t) strtoull(tok[2], 0, 10); readas = c.fmt; hd = atoi(tok[3]); first = 4;
	}
	{
	size_t tsz = tgt_size(readas);
	size_t dsz = tsz ? tsz : 16;
	for (i = first; i < ntok; i++) {
		struct item it = mk_item(tok[i]);
		uint8_t *dest = hd ? exact(dsz, 0xA5) : 0;
		int ret;
		if (it.has_oracle && it.str && (readas == 'f' || readas == 'd' || readas == 'e')) {
			long oe; int ov; char ob[40];
			libc_oracle((int) readas, it.str, &oe, &ov, ob);
			if (oe != it.oend || ov != it.oovf || strcmp(ob, it.obits)) { vh_tok("ORACLE-MISMATCH:%ld/%d/%s", oe, ov, ob); free(dest); continue; }
		}
		ret = call_text(&c, it.str, dest);
		if (ret < 0) vh_tok("R%d", ret);
		else if (ret == 0) {
			if (dest && !all_is(dest, dsz, 0xA5)) vh_tok("E!written"); else vh_tok("E");
		}
		else if (!hd) vh_tok("Q%d", ret);
		else {
			int untouched = 0;
			if (all_is(dest, dsz, 0xA5)) {
				uint8_t *d2 = exact(dsz, 0x5A);
				call_text(&c, it.str, d2);
				untouched = all_is(d2, dsz, 0x5A);
				free(d2);
			}
			if (untouched) vh_tok("U%d", ret);
			else if (!tsz) vh_tok("J");
			else {
				vh_tok("K%d:", ret);
				if (is_nan_bits(readas, dest)) vh_add("fnan"); else print_value(readas, dest);
			}
		}
		free(dest);
		free(it.str);
	}
	}
}

static const char *conv_name(MPT_TYPE(data_converter) f)
{
	if (!f) return "none";
	if (f == (MPT_TYPE(data_converter)) mpt_data_convert_int8) return "int8";
	if (f == (MPT_TYPE(data_converter)) mpt_data_convert_uint8) return "uint8";
	if (f == (MPT_TYPE(data_converter)) mpt_data_convert_int16) return "int16";
	if (f == (MPT_TYPE(data_converter)) mpt_data_convert_uint16) return "uint16";
	if (f == (MPT_TYPE(data_converter)) mpt_data_convert_int32) return "int32";
	if (f == (MPT_TYPE(data_converter)) mpt_data_convert_uint32) return "uint32";
	if (f == (MPT_TYPE(data_converter)) mpt_data_convert_int64) return "int64";
	if (f == (MPT_TYPE(data_converter)) mpt_data_convert_uint64) return "uint64";
	if (f == (MPT_TYPE(data_converter)) mpt_data_convert_float32) return "float32";
	if (f == (MPT_TYPE(data_converter)) mpt_data_convert_float64) return "float64";
	if (f == (MPT_TYPE(data_converter)) mpt_data_convert_exflt) return "exflt";
	return "other";
}

static void run_case(int ntok, char **tok)
{
	int i;
	if (ntok < 2) return;
	if (!strcmp(tok[1], "D") || !strcmp(tok[1], "V") || !strcmp(tok[1], "C")) {
		if (ntok >= 5) value_case(tok[1][0], ntok, tok);
	}
	else if (!strcmp(tok[1], "P")) {
		for (i = 2; i < ntok; i++) vh_tok("%s", conv_name(mpt_data_converter((uintptr_t) strtoull(tok[i], 0, 10))));
	}
	else if (tok[1][0] == 't' && ntok >= 5) text_case(ntok, tok);
}
int main(int c, char **v) { return vh_main(c, v, run_case); }
