/* C11 harness: drives the event dispatcher of mptcore/event (C entry points) and
 * the wrappers of mpt++/event.cpp on one dispatch object per case.
 * Case line:  <id> <op> <args> ...          (see ml/c11_driver.ml)
 * Beside the dispatcher (state untouched): djb/djs/djn mpt_hash_djb2, lrep the default handler of a
 * reserved slot, rset/rzero reply_data::set, rdefer/rtraits reply_context, xcopy, unk the built-in fallback,
 * cinit the init function of the command content traits.
 * Token per operation:
 *   <result>|<handler/reply/unref calls of this operation>|<_def>|<_err>|<_ctx>|<table>
 * The table is read back from the raw buffer memory (not through the library).
 *
 * mpt++/event.cpp is compiled as part of this translation unit: the mpt++
 * classes overlay C structs (buffer, array) whose "vptr" is a C function table,
 * which -fsanitize=vptr (part of "undefined") rejects on every member call;
 * props/c11.py adds -fno-sanitize=vptr for this unit only (lib/ is not ours to change). */
#include "event.cpp"
/* the default constructed command::array (op xarr) detaches through mpt++/array.cpp: same reason, same flag */
#include "array.cpp"
#include "common.h"
#include <new>
#include <type_traits>
#include <fcntl.h>
#include <sys/uio.h>
#include "message.h"
#include "meta.h"
#include "types.h"

using namespace mpt;

/* ---- observation log of one operation */
static char logbuf[16384];
static size_t loglen;
static void lg(const char *fmt, ...)
{
	va_list ap;
	if (loglen && loglen < sizeof(logbuf) - 1) logbuf[loglen++] = ',';
	va_start(ap, fmt);
	loglen += vsnprintf(logbuf + loglen, sizeof(logbuf) - loglen, fmt, ap);
	va_end(ap);
	if (loglen >= sizeof(logbuf)) loglen = sizeof(logbuf) - 1;
}

/* ---- registrations: arg of the harness handler */
struct Reg { int n; };
static Reg *regs;
static int nregs;
static const char *argstr(const void *p)
{
	static char b[4][40];
	static int k;
	char *s = b[k++ & 3];
	const Reg *r = (const Reg *) p;
	if (!p) return "0";
	if (r >= regs && r < regs + nregs) { snprintf(s, 40, "%d", r->n); return s; }
	snprintf(s, 40, "x%lx", (unsigned long) (uintptr_t) p);
	return s;
}

/* ---- reply contexts */
struct HReply : public reply_context
{
	HReply(int t) : tag(t) { }
	int reply(const struct message *m) __MPT_OVERRIDE
	{
		struct message tmp = *m;
		uint8_t hdr[2] = { 0, 0 };
		size_t got = mpt_message_read(&tmp, 2, hdr);
		lg("R%d:%d", tag, got < 2 ? 999 : (int) (int8_t) hdr[1]);
		return 0;
	}
	int tag;
};
static const char *replystr(reply_context *rc)
{
	static char b[4][24];
	static int k;
	char *s = b[k++ & 3];
	if (!rc) return "-";
	snprintf(s, 24, "%d", static_cast<HReply *>(rc)->tag);
	return s;
}
/* fallback reply context of the dispatcher */
struct HCtx : public metatype
{
	HCtx(int t) : rc(t), tag(t) { }
	virtual ~HCtx() { }
	int convert(type_t type, void *ptr) __MPT_OVERRIDE
	{
		if (type == TypeReplyPtr) {
			if (ptr) *static_cast<reply_context **>(ptr) = &rc;
			return TypeReplyPtr;
		}
		return BadType;
	}
	void unref() __MPT_OVERRIDE
	{
		lg("u%d", tag);
		delete this;
	}
	metatype *clone() const __MPT_OVERRIDE { return 0; }
	HReply rc;
	int tag;
};

/* ---- the harness handler: logs, returns the scripted value */
static int cur_ret;
static int cur_setid_valid;
static uintptr_t cur_setid;
static int h_user(void *arg, event *ev)
{
	if (!ev) { lg("f%s", argstr(arg)); return 0; }
	lg("c%s:%lx:%c:%s", argstr(arg), (unsigned long) ev->id, ev->msg ? 'm' : 'n', replystr(ev->reply));
	if (cur_setid_valid) ev->id = cur_setid;
	return cur_ret;
}

/* ---- the dispatcher */
struct D : public dispatch
{
	uintptr_t def() const { return _def; }
	event_handler_t errcmd() const { return _err.cmd; }
	void *errarg() const { return _err.arg; }
	metatype *ctx() const { return _ctx; }
	void setctx(metatype *m) { _ctx = m; }
};
/* raw views, independent of the library headers */
struct rawbuf { void *vptr; const void *traits; size_t size; size_t used; };
struct rawcmd { uintptr_t id; int (*cmd)(void *, void *); void *arg; };

static char fnchar(int (*cmd)(void *, void *))
{
	if (!cmd) return '0';
	if (cmd == (int (*)(void *, void *)) h_user) return 'h';
	return 'L';
}
static void dump_state(D *d)
{
	rawbuf *b = *reinterpret_cast<rawbuf **>(static_cast<dispatch *>(d));
	vh_add("|%s|%lx|", loglen ? logbuf : "-", (unsigned long) d->def());
	if (!d->errcmd()) vh_add("-");
	else if (d->errcmd() == h_user) vh_add("h%s", argstr(d->errarg()));
	else vh_add("U");
	if (d->ctx()) vh_add("|c%d|", static_cast<HCtx *>(d->ctx())->tag);
	else vh_add("|-|");
	if (!b) vh_add("-");
	else {
		rawcmd *c = reinterpret_cast<rawcmd *>(b + 1);
		size_t i, n = b->used / sizeof(*c);
		vh_add(b->traits ? "T:" : "R:");
		for (i = 0; i < n; i++) {
			vh_add("%s%lx.%c.%s", i ? ";" : "", (unsigned long) c[i].id, fnchar(c[i].cmd), argstr(c[i].arg));
		}
	}
}

/* ---- messages: every fragment and the iovec array in exact-size heap blocks */
static void *blk(const char *s, size_t n, size_t *len)
{
	uint8_t *b;
	size_t i;
	if (n == 1 && s[0] == '-') n = 0;
	n /= 2;
	b = (uint8_t *) malloc(n);
	for (i = 0; i < n; i++) { unsigned v; sscanf(s + 2*i, "%2x", &v); b[i] = v; }
	*len = n;
	return b;
}
static struct message *mkmsg(const char *s)
{
	struct message *m;
	struct iovec *v;
	size_t n = 0, i;
	const char *p;
	if (!strcmp(s, "n")) return 0;
	m = new message();
	++s;
	for (p = s, n = 1; *p; ++p) if (*p == ',') ++n;
	v = (struct iovec *) malloc(n * sizeof(*v));
	for (i = 0; i < n; i++) {
		const char *e = strchr(s, ',');
		size_t l = e ? (size_t) (e - s) : strlen(s);
		v[i].iov_base = blk(s, l, &v[i].iov_len);
		s += l + 1;
	}
	m->base = v[0].iov_base;
	m->used = v[0].iov_len;
	m->clen = n - 1;
	m->cont = (struct iovec *) malloc(m->clen * sizeof(*v));
	if (m->clen) memcpy(m->cont, v + 1, m->clen * sizeof(*v));
	free(v);
	return m;
}
/* event token: N | <id>:<msg>:<reply> */
static event *mkev(char *s)
{
	event *ev;
	char *m, *r;
	if (!strcmp(s, "N")) return 0;
	m = strchr(s, ':'); *m++ = 0;
	r = strchr(m, ':'); *r++ = 0;
	ev = new event();
	ev->id = strtoull(s, 0, 16);
	ev->msg = mkmsg(m);
	ev->reply = atoi(r) ? new HReply(atoi(r)) : 0;
	return ev;
}
static void setrsp(char *s)
{
	char *i = strchr(s, ':');
	*i++ = 0;
	cur_ret = atoi(s);
	cur_setid_valid = strcmp(i, "-") != 0;
	cur_setid = cur_setid_valid ? strtoull(i, 0, 16) : 0;
}
static void show_ev(int ret, event *ev)
{
	if (!ev) vh_tok("e%d:-:-", ret);
	else vh_tok("e%d:%lx:%s", ret, (unsigned long) ev->id, replystr(ev->reply));
}

/* ---- copy construction of the dispatcher: possible only while struct dispatch is copyable
 * (docs/C11_dispatch_copy.diff makes it a compile time error; the harness builds either way) */
template <typename T>
static typename std::enable_if<std::is_copy_constructible<T>::value, int>::type try_copy(T *d)
{
	T *c = new T(*d);
	delete c;   /* teardown of the copy: every call it makes is logged */
	return 1;
}
template <typename T>
static typename std::enable_if<!std::is_copy_constructible<T>::value, int>::type try_copy(T *)
{
	return 0;
}
/* library output on stdout (mpt_log of a "message" level) must not reach the token stream */
static int out_save = -1;
static void out_hide(void)
{
	int nl = open("/dev/null", O_WRONLY);
	fflush(stdout);
	out_save = dup(1);
	dup2(nl, 1);
	close(nl);
}
static void out_show(void)
{
	fflush(stdout);
	dup2(out_save, 1);
	close(out_save);
}
/* raw view of struct reply_data */
struct rawreply { uint16_t max, len; uint8_t val[1]; };

static void run_case(int ntok, char **tok)
{
	void *store = malloc(sizeof(D));
	D *d = new (store) D;
	int t = 1, opno = 0, dead = 0;
	nregs = ntok + 2;
	regs = (Reg *) calloc(nregs, sizeof(*regs));
	while (t < ntok) {
		const char *op = tok[t++];
		Reg *reg = &regs[++opno];
		reg->n = opno;
		loglen = 0; logbuf[0] = 0;
		if (dead) { vh_tok("?dead"); break; }
		if (!strcmp(op, "set")) {
			uintptr_t id = strtoull(tok[t++], 0, 16);
			vh_tok("r%d", mpt_dispatch_set(d, id, h_user, reg));
		}
		else if (!strcmp(op, "xset")) {
			uintptr_t id = strtoull(tok[t++], 0, 16);
			vh_tok("b%d", (int) d->set_handler(id, h_user, reg));
		}
		else if (!strcmp(op, "unset")) {
			uintptr_t id = strtoull(tok[t++], 0, 16);
			vh_tok("p%d", mpt_dispatch_set(d, id, 0, 0));
		}
		else if (!strcmp(op, "cset")) {
			uintptr_t id = strtoull(tok[t++], 0, 16);
			int h = atoi(tok[t++]);
			vh_tok("k%d", mpt_command_set(d, id, h ? (int (*)(void *, void *)) h_user : 0, h ? reg : 0));
		}
		else if (!strcmp(op, "get") || !strcmp(op, "xget")) {
			uintptr_t id = strtoull(tok[t++], 0, 16);
			command *c = op[0] == 'x' ? d->handler(id) : mpt_command_get(d, id);
			rawbuf *b = *reinterpret_cast<rawbuf **>(static_cast<dispatch *>(d));
			if (!c) vh_tok("g-");
			else {
				rawcmd *rc = reinterpret_cast<rawcmd *>(c);
				vh_tok("g%ld:%c%s", (long) (rc - reinterpret_cast<rawcmd *>(b + 1)), fnchar(rc->cmd), argstr(rc->arg));
			}
		}
		else if (!strcmp(op, "clear")) {
			mpt_command_clear(d);
			vh_tok("v");
		}
		else if (!strcmp(op, "res") || !strcmp(op, "xres")) {
			size_t max = strtoul(tok[t++], 0, 0);
			command *c = op[0] == 'x' ? d->reserve(max) : mpt_command_reserve(d, max);
			if (!c) vh_tok("i-");
			else {
				rawbuf *b = *reinterpret_cast<rawbuf **>(static_cast<dispatch *>(d));
				/* arm the slot as mpt_connection_await does */
				c->cmd = (int (*)(void *, void *)) h_user;
				c->arg = reg;
				vh_tok("i%ld:%lx", (long) (reinterpret_cast<rawcmd *>(c) - reinterpret_cast<rawcmd *>(b + 1)), (unsigned long) c->id);
			}
		}
		else if (!strcmp(op, "emit") || !strcmp(op, "hash")) {
			event *ev = mkev(tok[t++]);
			int ret;
			setrsp(tok[t++]);
			ret = op[0] == 'e' ? mpt_dispatch_emit(d, ev) : mpt_dispatch_hash(d, ev);
			show_ev(ret, ev);
		}
		else if (!strcmp(op, "serr")) {
			int h = atoi(tok[t++]);
			d->set_error(h ? h_user : 0, h ? reg : 0);
			vh_tok("v");
		}
		else if (!strcmp(op, "sdef")) {
			uintptr_t id = strtoull(tok[t++], 0, 16);
			vh_tok("b%d", (int) d->set_default(id));
		}
		else if (!strcmp(op, "ctx")) {
			if (!d->ctx()) d->setctx(new HCtx(opno));
			vh_tok("v");
		}
		else if (!strcmp(op, "fini")) {
			mpt_dispatch_fini(d);
			vh_tok("v");
		}
		else if (!strcmp(op, "xfini")) {
			/* the destructor; the storage is then read as the plain C struct it overlays */
			d->~D();
			dead = 1;
			vh_tok("v");
		}
		else if (!strcmp(op, "xarr")) {
			/* a default constructed command::array (shared empty content with command traits) is
			 * assigned to the table; the reference to the old buffer is released, whose content traits
			 * (command_traits.c) finalise the handlers.  Not done on a raw (reserve-made) buffer: it has
			 * no traits, the handlers would be lost without notification. */
			rawbuf *b = *reinterpret_cast<rawbuf **>(static_cast<dispatch *>(d));
			if (!b || b->traits) *static_cast<command::array *>(d) = command::array();
			vh_tok("v");
		}
		else if (!strcmp(op, "djb") || !strcmp(op, "djs")) {
			size_t n;
			uint8_t *raw = vh_unhex(tok[t++], &n), *p;
			uintptr_t h;
			if (op[2] == 's') {
				p = (uint8_t *) malloc(n + 1);
				memcpy(p, raw, n);
				p[n] = 0;
				h = mpt_hash_djb2(p, -1);
			} else {
				p = (uint8_t *) malloc(n ? n : 1);
				memcpy(p, raw, n);
				h = mpt_hash_djb2(p, (int) n);
			}
			vh_tok("x%lx", (unsigned long) h);
		}
		else if (!strcmp(op, "djn")) {
			vh_tok("x%lx", (unsigned long) mpt_hash_djb2(0, atoi(tok[t++])));
		}
		else if (!strcmp(op, "lrep")) {
			/* the handler mpt_command_reserve leaves in a fresh slot, called the way a connection
			 * calls a waiter: cmd(arg, message) / cmd(arg, NULL) */
			struct message *m = mkmsg(tok[t++]);
			D *sc = new (malloc(sizeof(D))) D;
			command *c = mpt_command_reserve(sc, 1);
			int ret;
			out_hide();
			ret = c->cmd(c->arg, m);
			out_show();
			vh_tok("L%d", ret);
		}
		else if (!strcmp(op, "rset") || !strcmp(op, "rzero")) {
			size_t max = strtoul(tok[t++], 0, 0), ncur, ndat = 0, i, total;
			uint8_t *cur = vh_unhex(tok[t++], &ncur), *dat = 0;
			rawreply *r;
			bool ok;
			int guard = 1;
			if (op[1] == 's') dat = vh_unhex(tok[t++], &ndat);
			else ndat = strtoul(tok[t++], 0, 0);
			if (ncur > max) ncur = max;
			total = 4 + max < sizeof(reply_data) ? sizeof(reply_data) : 4 + max;
			r = (rawreply *) malloc(total);
			memset(r, 0xee, total);
			r->max = max;
			r->len = ncur;
			memcpy(r->val, cur, ncur);
			ok = reinterpret_cast<reply_data *>(r)->set(ndat, dat);
			for (i = 4 + max; i < total; i++) if (((uint8_t *) r)[i] != 0xee) guard = 0;
			vh_tok("d%d:%u:", (int) ok, (unsigned) r->len);
			vh_hex(r->val, max);
			if (!guard || r->max != max) vh_add("!");
		}
		else if (!strcmp(op, "rdefer")) {
			HReply *rc = new HReply(1);
			vh_tok("b%d", rc->defer() ? 1 : 0);
		}
		else if (!strcmp(op, "rtraits")) {
			const named_traits *nt = reply_context::pointer_traits();
			vh_tok("b%d", nt && nt == mpt_interface_traits(TypeReplyPtr) && nt->type == TypeReplyPtr ? 1 : 0);
		}
		else if (!strcmp(op, "xcopy")) {
			vh_tok("b%d", try_copy(d));
		}
		else if (!strcmp(op, "cinit")) {
			/* content traits of command buffers: init(ptr, src) with src NULL | unused | holding a handler */
			const struct type_traits *tr = mpt_command_traits();
			const char *w = tok[t++];
			rawcmd *dst = (rawcmd *) malloc(sizeof(*dst)), *src = 0;
			size_t i, nz = 0, ne = 0;
			int ret;
			memset(dst, 0xee, sizeof(*dst));
			if (w[0] != 'n') {
				src = (rawcmd *) malloc(sizeof(*src));
				src->id = 5;
				src->cmd = w[0] == '1' ? (int (*)(void *, void *)) h_user : 0;
				src->arg = w[0] == '1' ? reg : 0;
			}
			ret = tr->init(dst, src);
			for (i = 0; i < sizeof(*dst); i++) {
				if (((uint8_t *) dst)[i] == 0) ++nz;
				if (((uint8_t *) dst)[i] == 0xee) ++ne;
			}
			vh_tok("t%d:%c", ret, nz == sizeof(*dst) ? 'z' : ne == sizeof(*dst) ? 'u' : '?');
			if (tr->size != sizeof(*dst) || tr->size != sizeof(command)) vh_add("!");
		}
		else if (!strcmp(op, "unk")) {
			/* the built-in fallback handler of a fresh dispatcher, called directly */
			event *ev = mkev(tok[t++]);
			D *sc = new (malloc(sizeof(D))) D;
			int ret = sc->errcmd()(sc->errarg(), ev);
			vh_tok("w%d:%lx", ret, (unsigned long) ev->id);
		}
		else { vh_tok("?%s", op); break; }
		dump_state(d);
	}
}
int main(int argc, char **argv) { return vh_main(argc, argv, run_case); }
