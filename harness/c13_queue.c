/* C13 harness: drives mptcore/queue/*.c on exact-size heap storage (ASan sees
 * every access outside it).  Case line:
 *   <id> <max> <off> <contents-hex> <op> <args> ...
 * Token per operation: <out>|<contents-hex>|<max>  (see ml/c13_driver.ml).
 * The operations themselves are in harness/c13_ops.h (shared with the C++
 * harness c13_cxx.cpp, which runs the cases that use the mpt++ classes). */
#include "common.h"
#include "queue.h"
#include "c13_ops.h"

static MPT_STRUCT(queue) q;

static void run_case(int ntok, char **tok)
{
	int t = 4;
	c13_init(&q, tok);
	while (t < ntok) {
		const char *op = tok[t++];
		if (!c13_c_op(&q, op, tok, &t)) { vh_tok("?%s", op); break; }
		c13_dump(&q);
	}
	mpt_queue_resize(&q, 0);
}
int main(int argc, char **argv) { return vh_main(argc, argv, run_case); }
