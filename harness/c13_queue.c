/* C13 harness: drives mptcore/queue/*.c on exact-size heap storage (ASan sees
 * every access outside it).  Case line:
 *   <id> <max> <off> <contents-hex> <op> <args> ...
 * Token per operation: <out>|<contents-hex>|<max>  (see ml/c13_driver.ml). */
#include "common.h"
#include <errno.h>
#include "queue.h"

static MPT_STRUCT(queue) q;

static void dump_state(void)
{
	uint8_t *tmp = malloc(q.len ? q.len : 1);
	size_t i;
	/* independent read-out of the ring (does not use the library) */
	for (i = 0; i < q.len; i++) tmp[i] = ((uint8_t *) q.base)[(q.off + i) % q.max];
	vh_add("|");
	vh_hex(tmp, q.len);
	vh_add("|%zu", q.max);
	free(tmp);
}
static int find_key;
static int find_cmp(const void *elem, void *arg)
{
	(void) arg;
	return *((const uint8_t *) elem) == find_key ? 0 : 1;
}
static void run_case(int ntok, char **tok)
{
	size_t clen, i;
	uint8_t *c;
	int t = 4;
	q.max = vh_int(tok[1]);
	q.off = vh_int(tok[2]);
	c = vh_unhex(tok[3], &clen);
	q.base = malloc(q.max);
	memset(q.base, 0xee, q.max);
	q.len = clen;
	for (i = 0; i < clen; i++) ((uint8_t *) q.base)[(q.off + i) % q.max] = c[i];
	free(c);
	while (t < ntok) {
		const char *op = tok[t++];
		if (!strcmp(op, "push") || !strcmp(op, "unshift")) {
			size_t n; uint8_t *d = vh_unhex(tok[t++], &n);
			int r = op[0] == 'p' ? mpt_qpush(&q, n, d) : mpt_qunshift(&q, n, d);
			vh_tok(r < 0 ? "R" : "D");
			free(d);
		}
		else if (!strcmp(op, "pop") || !strcmp(op, "shift")) {
			size_t n = vh_int(tok[t++]);
			int hd = vh_int(tok[t++]);
			uint8_t *d = hd ? malloc(n ? n : 1) : 0;
			void *r = op[0] == 'p' ? mpt_qpop(&q, n, d) : mpt_qshift(&q, n, d);
			if (!r) vh_tok("R");
			else { vh_tok("B:"); vh_hex(r, n); }
			free(d);
		}
		else if (!strcmp(op, "crop")) {
			size_t p = vh_int(tok[t++]), n = vh_int(tok[t++]);
			vh_tok(mpt_queue_crop(&q, p, n) < 0 ? "R" : "D");
		}
		else if (!strcmp(op, "get")) {
			size_t p = vh_int(tok[t++]), n = vh_int(tok[t++]);
			uint8_t *d = malloc(n ? n : 1);
			if (mpt_queue_get(&q, p, n, d) < 0) vh_tok("R");
			else { vh_tok("B:"); vh_hex(d, n); }
			free(d);
		}
		else if (!strcmp(op, "set")) {
			size_t p = vh_int(tok[t++]), n; uint8_t *d = vh_unhex(tok[t++], &n);
			vh_tok(mpt_queue_set(&q, p, n, d) < 0 ? "R" : "D");
			free(d);
		}
		else if (!strcmp(op, "setz")) {
			size_t p = vh_int(tok[t++]), n = vh_int(tok[t++]);
			vh_tok(mpt_queue_set(&q, p, n, 0) < 0 ? "R" : "D");
		}
		else if (!strcmp(op, "align")) {
			mpt_queue_align(&q, vh_int(tok[t++]));
			vh_tok("D");
		}
		else if (!strcmp(op, "resize")) {
			size_t n = vh_int(tok[t++]);
			void *r = mpt_queue_resize(&q, n);
			vh_tok((n && !r) ? "R" : "D");
		}
		else if (!strcmp(op, "prepare")) {
			size_t n = vh_int(tok[t++]);
			size_t r = mpt_queue_prepare(&q, n);
			vh_tok((n && !r) ? "R" : "D");
		}
		else if (!strcmp(op, "find")) {
			size_t e = vh_int(tok[t++]);
			uint8_t *r;
			find_key = vh_int(tok[t++]);
			errno = 0;
			r = mpt_queue_find(&q, e, find_cmp, 0);
			if (!r) vh_tok(errno ? "R" : "P:-");
			else {
				uint8_t *b = q.base;
				size_t k = (r >= b + q.off) ? (size_t) (r - (b + q.off)) : (size_t) (r - b) + (q.max - q.off);
				vh_tok("P:%zu", k);
			}
		}
		else if (!strcmp(op, "string")) {
			char *s = mpt_queue_string(&q);
			if (!s) vh_tok("R");
			else { vh_tok("B:"); vh_hex(s, q.len + 1); }
		}
		else { vh_tok("?%s", op); break; }
		dump_state();
	}
	mpt_queue_resize(&q, 0);
}
int main(int argc, char **argv) { return vh_main(argc, argv, run_case); }
