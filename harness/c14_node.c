/* C14 harness: drives mptcore/node/*.c on real nodes (mpt_node_new) and, after
 * EVERY operation, dumps the raw links of every node it has ever seen from its
 * own table (canonical indices in order of first sight, never addresses), a
 * well-formedness verdict computed here from those raw links, and the shape
 * found by walking children/next from every node without parent and prev.
 *
 * Case line:   <id> <op> <args> ...        (see ml/c14_driver.ml for the operations)
 * Token:       <result>|<links>|<W0/W1>|<shape>
 *   links  = per table index  "x" (memory was freed: ASan poisoned)  or
 *            next,prev,parent,children,name,value   ("-" = NULL, "?" = pointer to no known node)
 *   result = X (guard of the history language failed, call not made) | P<idx> | Z<int> | L<visit sequence>
 *            (parse: Z0 = mpt_parse_node answered 0, Z-1 = an error code)
 *            | L<idx>:<depth>. ... >P<idx> (walk: handler calls with the depth it was told, node returned)
 *
 * Nodes enter the table when mpt_node_new() allocates them (this file compiles node_new.c
 * and identifier.c itself, with malloc replaced by a seam that can be told to fail its
 * k-th call), so the indices are allocation order also for clones the library destroys
 * again before it returns.
 *
 * Released-exactly-once: a second free or a use after free aborts under ASan
 * (token F); "end" destroys whatever is left through the library and reports the
 * number of table nodes whose memory was NOT released plus LeakSanitizer's verdict
 * (the table stores complemented pointers so that it does not keep nodes reachable).
 */
#include "common.h"
#include <errno.h>
#include <sanitizer/asan_interface.h>
#include <sanitizer/lsan_interface.h>
#include "meta.h"
#include "node.h"
#include "parse.h"

#define MAXN 512
static uintptr_t tabx[MAXN];
static int ntab;
#define NODE(i) ((MPT_STRUCT(node) *) ~tabx[i])

/* ---- allocation seam: mptcore/node/node_new.c and mptcore/misc/identifier.c are compiled
 * here (the archive members are then not linked), malloc() in them is c14_malloc() ---- */
static long oom_count;   /* > 0: that many calls from now the seam answers NULL (once) */
static void *c14_malloc(size_t n)
{
	if (oom_count > 0 && !--oom_count) return 0;
	return malloc(n);
}
static void learn(MPT_STRUCT(node) *n);
#include <sys/uio.h>
#include <errno.h>
#include "types.h"
#include "convert.h"
#define malloc(n) c14_malloc(n)
#define mpt_node_new c14_lib_node_new
#include "node/node_new.c"
#undef mpt_node_new
#include "misc/identifier.c"
#undef malloc
extern MPT_STRUCT(node) *mpt_node_new(size_t len)
{
	MPT_STRUCT(node) *n = c14_lib_node_new(len);
	if (n) learn(n);
	return n;
}

/* ---- value: a minimal metatype counting its live instances ---- */
struct hmeta { MPT_INTERFACE(metatype) mt; int val; };
static int nmeta_live;
static const MPT_INTERFACE_VPTR(metatype) hmeta_ctl;
static int hm_conv(MPT_INTERFACE(convertable) *c, MPT_TYPE(type) t, void *p) { (void) c; (void) t; (void) p; return MPT_ERROR(BadType); }
static void hm_unref(MPT_INTERFACE(metatype) *m) { --nmeta_live; free(m); }
static uintptr_t hm_addref(MPT_INTERFACE(metatype) *m) { (void) m; return 0; }
static MPT_INTERFACE(metatype) *hm_new(int val)
{
	struct hmeta *m = malloc(sizeof(*m));
	m->mt._vptr = &hmeta_ctl;
	m->val = val;
	++nmeta_live;
	return &m->mt;
}
/* value 3 is a metatype that cannot be cloned */
static MPT_INTERFACE(metatype) *hm_clone(const MPT_INTERFACE(metatype) *m)
{
	int v = ((const struct hmeta *) m)->val;
	return v == 3 ? 0 : hm_new(v);
}
static const MPT_INTERFACE_VPTR(metatype) hmeta_ctl = { { hm_conv }, hm_unref, hm_addref, hm_clone };

/* ---- table ---- */
static int is_freed(int i) { return __asan_address_is_poisoned(NODE(i)); }
static int live(int i) { return i >= 0 && i < ntab && !is_freed(i); }
static int idx(const MPT_STRUCT(node) *n)
{
	int i;
	if (!n) return -1;
	for (i = 0; i < ntab; i++) if (NODE(i) == n) return i;
	return -2;
}
static void learn(MPT_STRUCT(node) *n)
{
	if (ntab >= MAXN) { fprintf(stderr, "table full\n"); abort(); }
	tabx[ntab++] = ~(uintptr_t) n;
}
static void put_idx(const MPT_STRUCT(node) *n)
{
	int i = idx(n);
	if (i == -1) vh_add("-"); else if (i < 0) vh_add("?"); else vh_add("%d", i);
}
/* names: 0 unnamed, 1..3 "a".."c", 4 a text of 21 characters (needs its own allocation in a
 * default node and in a clone), 5 a binary identifier (no charset, one byte 'a'), 6 a text of 29 characters
 * (allocated in a default node, inside the node in a clone), 100 + n the text T<n> of n characters, 9 anything else */
static const char LONGNAME[] = "Labcdefghijklmnopqrst";
static const char MIDNAME[] = "Mabcdefghijklmnopqrstuvwxyz01";   /* 29 + 1 bytes: mpt_node_new(30) makes room for it */
/* T<n>: a text of n characters (1 <= n <= TNAME_MAX), name code 100 + n: 'T', then letters that depend on place and
 * length.  The lengths around what a node has room for (mpt_node_new: 64, 128, 256 bytes = 20, 84, 212 bytes of
 * identifier data, terminator included) are the ones of interest. */
#define TNAME_MAX 400
static void tname_fill(char *d, int n)
{
	int i;
	for (i = 0; i < n; i++) d[i] = i ? 'a' + (i + n) % 26 : 'T';
	d[n] = 0;
}
static int tname_arg(const char *nm)
{
	int n;
	if (nm[0] != 'T' || !nm[1]) return 0;
	n = atoi(nm + 1);
	if (n < 1 || n > TNAME_MAX) { fprintf(stderr, "bad name %s\n", nm); abort(); }
	return n;
}
static int tname_code(const char *d, size_t len)
{
	char cmp[TNAME_MAX + 1];
	if (len < 2 || len - 1 > TNAME_MAX) return 9;
	tname_fill(cmp, len - 1);
	return memcmp(d, cmp, len) ? 9 : 100 + (int) (len - 1);
}
static int name_code(const MPT_STRUCT(node) *n)
{
	const MPT_STRUCT(identifier) *id = &n->ident;
	const char *d = mpt_identifier_data(id);
	if (!id->_len) return id->_charset ? 9 : 0;
	if (id->_charset == MPT_CHARSET(UTF8)) {
		if (d != mpt_node_ident(n)) return 9;
		if (id->_len == 2 && d[0] >= 'a' && d[0] <= 'c' && !d[1]) return d[0] - 'a' + 1;
		if (id->_len == sizeof(LONGNAME) && !memcmp(d, LONGNAME, sizeof(LONGNAME))) return 4;
		if (id->_len == sizeof(MIDNAME) && !memcmp(d, MIDNAME, sizeof(MIDNAME))) return 6;
		if (d[0] == 'T') return tname_code(d, id->_len);
		return 9;
	}
	if (!id->_charset && id->_len == 1 && d[0] == 'a' && !mpt_node_ident(n)) return 5;
	return 9;
}
/* values: 0 none, 1..3 the harness metatype, 4 a value made by the library for a parsed option (its text is
 * always "v"), 8 anything else */
static int own_meta(const MPT_STRUCT(node) *n) { return n->_meta && n->_meta->_vptr == &hmeta_ctl; }
static int val_code(const MPT_STRUCT(node) *n)
{
	const char *s = 0;
	if (!n->_meta) return 0;
	if (own_meta(n)) return ((const struct hmeta *) n->_meta)->val;
	if (MPT_metatype_convert(n->_meta, 's', &s) >= 0 && s && !strcmp(s, "v")) return 4;
	return 8;
}
/* pointer is NULL or a live table node */
static int okp(const MPT_STRUCT(node) *n) { int i = idx(n); return i == -1 || (i >= 0 && !is_freed(i)); }

/* well-formedness from the raw links only */
static int wf(void)
{
	int i, j, nval = 0;
	for (i = 0; i < ntab; i++) {
		const MPT_STRUCT(node) *n = NODE(i), *m;
		int k;
		if (is_freed(i)) continue;
		if (!okp(n->next) || !okp(n->prev) || !okp(n->parent) || !okp(n->children)) return 0;
		if ((m = n->next) && (m->prev != n || m->parent != n->parent)) return 0;
		if ((m = n->prev)) { if (m->next != n) return 0; }
		else if ((m = n->parent) && m->children != n) return 0;
		if ((m = n->children) && (m->parent != n || m->prev)) return 0;
		for (m = n, k = 0; m; m = m->parent) { if (++k > ntab + 2 || !okp(m)) return 0; }
		for (m = n, k = 0; m; m = m->next) { if (++k > ntab + 2 || !okp(m)) return 0; }
		/* values: every live node owns its metatype alone */
		if (n->_meta) {
			if (own_meta(n)) ++nval;
			for (j = 0; j < i; j++) if (!is_freed(j) && NODE(j)->_meta == n->_meta) return 0;
		}
	}
	return nval == nmeta_live;
}
static int shape_budget;
static void shape_list(const MPT_STRUCT(node) *n, int first)
{
	int i;
	if (!n) return;
	if (shape_budget <= 0) { vh_add("!"); return; }
	--shape_budget;
	i = idx(n);
	if (i < 0 || is_freed(i)) { vh_add("?"); return; }
	if (!first) vh_add(",");
	{
		int nc = name_code(n);
		if (nc >= 100) vh_add("%dT%d:%d", i, nc - 100, val_code(n));
		else vh_add("%d%c%d", i, "_abcLBM???"[nc], val_code(n));
	}
	if (n->children) { vh_add("("); shape_list(n->children, 1); vh_add(")"); }
	shape_list(n->next, 0);
}
static void dump_state(void)
{
	int i, any = 0, w;
	vh_add("|");
	if (!ntab) vh_add("-");
	for (i = 0; i < ntab; i++) {
		const MPT_STRUCT(node) *n = NODE(i);
		if (i) vh_add(";");
		if (is_freed(i)) { vh_add("x"); continue; }
		put_idx(n->next); vh_add(",");
		put_idx(n->prev); vh_add(",");
		put_idx(n->parent); vh_add(",");
		put_idx(n->children);
		vh_add(",%d,%d", name_code(n), val_code(n));
	}
	w = wf();
	vh_add("|W%d|", w);
	shape_budget = 4 * ntab + 4;
	for (i = 0; i < ntab; i++) {
		const MPT_STRUCT(node) *n = NODE(i);
		if (is_freed(i) || n->parent || n->prev) continue;
		if (any) vh_add("/");
		any = 1;
		shape_list(n, 1);
	}
	if (!any) vh_add("-");
}
/* ---- guards of the history language, from the raw links ---- */
static int unlinked(int i) { return live(i) && !NODE(i)->parent && !NODE(i)->next && !NODE(i)->prev; }
static int anc_or_eq(int a, int p)
{
	const MPT_STRUCT(node) *n = NODE(p);
	int k = 0;
	for (; n; n = n->parent) { if (n == NODE(a)) return 1; if (++k > ntab + 1) abort(); }
	return 0;
}
static int tophead(int p)
{
	const MPT_STRUCT(node) *n = NODE(p);
	int k = 0;
	while (n->parent) { n = n->parent; if (++k > ntab + 1) abort(); }
	while (n->prev) { n = n->prev; if (++k > 2 * ntab + 2) abort(); }
	return idx(n);
}
static int is_head(int i) { return live(i) && !NODE(i)->prev; }
static int can_link(int p, int x) { return live(p) && unlinked(x) && !anc_or_eq(x, p); }

static int arg_idx(const char *s) { return !strcmp(s, "-") ? -1 : (int) vh_int(s); }
static MPT_STRUCT(node) *arg_node(int i) { return i < 0 ? 0 : NODE(i); }

static int trav_seq[4 * MAXN], trav_n;
static int trav_fcn(MPT_STRUCT(node) *n, void *ctx, size_t depth)
{
	(void) ctx; (void) depth;
	if (trav_n < 4 * MAXN) trav_seq[trav_n++] = idx(n);
	return 0;
}
static void res_p(const MPT_STRUCT(node) *n) { vh_tok("P"); put_idx(n); }
/* walk: the handler records node and depth and answers non-zero at its walk_stop-th call */
static int walk_seq[4 * MAXN], walk_dep[4 * MAXN], walk_n, walk_stop;
static int walk_fcn(MPT_STRUCT(node) *n, void *ctx, size_t depth)
{
	(void) ctx;
	if (walk_n < 4 * MAXN) { walk_seq[walk_n] = idx(n); walk_dep[walk_n] = (int) depth; }
	return ++walk_n == walk_stop;
}
static int order_flag(const char *o)
{
	return !strcmp(o, "pre") ? MPT_ENUM(TraversePreOrder) : !strcmp(o, "in") ? MPT_ENUM(TraverseInOrder)
	     : !strcmp(o, "level") ? MPT_ENUM(TraverseLevelOrder) : MPT_ENUM(TraversePostOrder);
}
static void res_walk(const MPT_STRUCT(node) *r)
{
	int i;
	vh_tok("L");
	if (!walk_n) vh_add("-");
	for (i = 0; i < walk_n && i < 4 * MAXN; i++) vh_add(i ? ".%d:%d" : "%d:%d", walk_seq[i], walk_dep[i]);
	vh_add(">P");
	put_idx(r);
}
/* the arguments of mpt_node_locate a query token stands for (ml/c14_driver.ml:query_s has the
 * identifier each of them denotes) */
static void query(const char *q, const void **ident, size_t *len, int *charset)
{
	static int dummy;
	*ident = 0; *len = 0; *charset = -1;
	if (q[0] == 't' && q[1] >= 'a' && q[1] <= 'c') { static char nm[2]; nm[0] = q[1]; *ident = nm; *len = 1; }
	else if (!strcmp(q, "tL")) { *ident = LONGNAME; *len = sizeof(LONGNAME) - 1; }
	else if (!strcmp(q, "tM")) { *ident = MIDNAME; *len = sizeof(MIDNAME) - 1; }
	else if (!strcmp(q, "t-")) { }
	else if (!strcmp(q, "pa")) { *ident = "ab"; *len = 1; }
	else if (!strcmp(q, "ua")) { *ident = "a"; *len = 2; *charset = MPT_CHARSET(UTF8); }
	else if (!strcmp(q, "xa")) { *ident = "a"; *len = 1; *charset = MPT_CHARSET(UTF8); }
	else if (!strcmp(q, "Ba")) { *ident = "a"; *len = 1; *charset = 0; }
	else if (!strcmp(q, "Bb")) { *ident = "b"; *len = 1; *charset = 0; }
	else if (!strcmp(q, "U0")) { *charset = 0; }
	else if (!strcmp(q, "E")) { *len = 1; *charset = 0; }
	else if (!strcmp(q, "p6")) { *ident = &dummy; *charset = MPT_CHARSET(ID4); }
	else if (!strcmp(q, "pu")) { *ident = &dummy; *charset = MPT_CHARSET(UTF8); }
	else if (!strcmp(q, "pn")) { *charset = MPT_CHARSET(UTF8); }
	else { fprintf(stderr, "bad query %s\n", q); abort(); }
}
static const char *name_arg(const char *nm)
{
	static char tn[TNAME_MAX + 1];
	int n = tname_arg(nm);
	if (n) { tname_fill(tn, n); return tn; }
	return !strcmp(nm, "-") ? 0 : !strcmp(nm, "L") ? LONGNAME : !strcmp(nm, "M") ? MIDNAME : nm;
}

/* ---- mpt_parse_node: the text comes from a string ---- */
static int text_getc(void *ptr)
{
	const char **pos = ptr;
	if (!**pos) return -2;   /* end of input */
	return (unsigned char) *((*pos)++);
}
static char *unhex(const char *h)
{
	size_t i, n = strcmp(h, "-") ? strlen(h) / 2 : 0;
	char *s = malloc(n + 1);
	for (i = 0; i < n; i++) { unsigned v; sscanf(h + 2 * i, "%2x", &v); s[i] = (char) v; }
	s[n] = 0;
	return s;
}
/* the scratch node of mpt_parse_node lives on its stack: the table index the model gives it is
 * taken by a block that is released already (reads as "x") */
static void learn_scratch(void)
{
	void *d = malloc(sizeof(MPT_STRUCT(node)));
	free(d);
	learn(d);
}

static int lsan_every = 1, case_no;
/* wipe dead stack below the caller so that stale node pointers do not hide a leak */
static __attribute__((noinline)) void scrub_stack(void)
{
	volatile char b[16384];
	memset((void *) b, 0, sizeof(b));
}
static void run_case(int ntok, char **tok)
{
	int t = 1;
	const char *e = getenv("C14_LSAN_EVERY"), *c = tok[0];
	if (e) lsan_every = atoi(e);
	while (*c && (*c < '0' || *c > '9')) ++c;
	case_no = atoi(c);
	while (t < ntok) {
		const char *op = tok[t++];
		if (!strcmp(op, "new") || !strcmp(op, "snew")) {
			const char *nm = tok[t++];
			int v = vh_int(tok[t++]);
			/* snew: the way node_append.c (the parser) makes a named node: sized for the name and its terminator */
			MPT_STRUCT(node) *n = mpt_node_new(op[0] == 's' && tname_arg(nm) ? (size_t) tname_arg(nm) + 1 : 0);
			if (!strcmp(nm, "B")) { char *d = mpt_identifier_set(&n->ident, 0, 1); d[0] = 'a'; }
			else if (strcmp(nm, "-")) mpt_identifier_set(&n->ident, name_arg(nm), -1);
			if (v) n->_meta = hm_new(v);
			res_p(n);
		}
		else if (!strcmp(op, "after") || !strcmp(op, "before")) {
			int p = arg_idx(tok[t++]), x = arg_idx(tok[t++]);
			int ok = (p >= 0 && x >= 0) ? (p == x ? live(p) : can_link(p, x)) : ((p < 0 || live(p)) && (x < 0 || live(x)));
			if (!ok) vh_tok("X");
			else res_p(op[0] == 'a' ? mpt_gnode_after(arg_node(p), arg_node(x)) : mpt_gnode_before(arg_node(p), arg_node(x)));
		}
		else if (!strcmp(op, "add") || !strcmp(op, "nadd")) {
			int f = vh_int(tok[t++]), pos = vh_int(tok[t++]), x = vh_int(tok[t++]);
			if (!(can_link(f, x) && is_head(f))) vh_tok("X");
			else res_p(op[0] == 'a' ? mpt_gnode_add(NODE(f), pos, NODE(x)) : mpt_node_add(NODE(f), pos, NODE(x)));
		}
		else if (!strcmp(op, "ins") || !strcmp(op, "nins")) {
			int p = vh_int(tok[t++]), pos = vh_int(tok[t++]), x = vh_int(tok[t++]);
			if (!can_link(p, x)) vh_tok("X");
			else vh_tok("Z%d", op[0] == 'i' ? mpt_gnode_insert(NODE(p), pos, NODE(x)) : mpt_node_insert(NODE(p), pos, NODE(x)));
		}
		else if (!strcmp(op, "unlink")) {
			int x = vh_int(tok[t++]);
			if (!live(x)) vh_tok("X"); else res_p(mpt_node_unlink(NODE(x)));
		}
		else if (!strcmp(op, "move")) {
			int p = vh_int(tok[t++]), d = vh_int(tok[t++]);
			if (!(live(p) && live(d) && is_head(d)) || tophead(p) == tophead(d)) vh_tok("X");
			else vh_tok("Z%zu", mpt_node_move(&NODE(p)->children, NODE(d)));
		}
		else if (!strcmp(op, "lmove")) {
			int s = vh_int(tok[t++]), d = vh_int(tok[t++]);
			if (!(unlinked(s) && live(d) && is_head(d)) || tophead(d) == s) vh_tok("X");
			else {
				MPT_STRUCT(node) *local = NODE(s);
				vh_tok("Z%zu", mpt_node_move(&local, NODE(d)));
				local = 0;
			}
		}
		else if (!strcmp(op, "clone") || !strcmp(op, "lclone") || !strcmp(op, "tclone")
		         || !strcmp(op, "fclone") || !strcmp(op, "flclone") || !strcmp(op, "ftclone")) {
			/* f...: the k-th malloc of the call (mpt_node_new, mpt_identifier_copy) fails */
			long k = op[0] == 'f' ? vh_int(tok[t++]) : 0;
			int x = vh_int(tok[t++]);
			const char *o = op[0] == 'f' ? op + 1 : op;
			if (!live(x)) vh_tok("X");
			else {
				MPT_STRUCT(node) *r;
				oom_count = k;
				if (o[0] == 'c') r = mpt_node_clone(NODE(x));
				else if (o[0] == 'l') r = mpt_list_clone(NODE(x));
				else r = mpt_tree_clone(NODE(x));
				oom_count = 0;
				res_p(r);
				r = 0;
			}
		}
		else if (!strcmp(op, "clear")) {
			int x = vh_int(tok[t++]);
			if (!live(x)) vh_tok("X"); else { mpt_node_clear(NODE(x)); vh_tok("P-"); }
		}
		else if (!strcmp(op, "destroy")) {
			int x = vh_int(tok[t++]);
			if (!live(x)) vh_tok("X"); else res_p(mpt_node_destroy(NODE(x)));
		}
		else if (!strcmp(op, "swap") || !strcmp(op, "switch")) {
			int a = vh_int(tok[t++]), b = vh_int(tok[t++]);
			if (!(live(a) && live(b)) || ((anc_or_eq(a, b) || anc_or_eq(b, a)) && a != b)) vh_tok("X");
			else {
				if (op[2] == 'a') mpt_gnode_swap(NODE(a), NODE(b)); else mpt_gnode_switch(NODE(a), NODE(b));
				vh_tok("P-");
			}
		}
		else if (!strcmp(op, "relink")) {
			int x = vh_int(tok[t++]);
			if (!live(x)) vh_tok("X"); else { mpt_gnode_relink(NODE(x)); vh_tok("P-"); }
		}
		else if (!strcmp(op, "trav")) {
			const char *o = tok[t++];
			int fl = vh_int(tok[t++]), x = vh_int(tok[t++]), i;
			if (!live(x)) vh_tok("X");
			else {
				int flags = fl | (!strcmp(o, "pre") ? MPT_ENUM(TraversePreOrder) : !strcmp(o, "in") ? MPT_ENUM(TraverseInOrder) : MPT_ENUM(TraversePostOrder));
				trav_n = 0;
				mpt_gnode_traverse(NODE(x), flags, trav_fcn, 0);
				vh_tok("L");
				if (!trav_n) vh_add("-");
				for (i = 0; i < trav_n; i++) vh_add(i ? ".%d" : "%d", trav_seq[i]);
			}
		}
		else if (!strcmp(op, "find")) {
			int p = vh_int(tok[t++]);
			const char *nm = tok[t++];
			int pos = vh_int(tok[t++]);
			if (!live(p)) vh_tok("X"); else res_p(mpt_node_find(NODE(p), name_arg(nm), pos));
		}
		else if (!strcmp(op, "next")) {
			int x = vh_int(tok[t++]);
			const char *nm = tok[t++];
			if (!live(x)) vh_tok("X"); else res_p(mpt_node_next(NODE(x), name_arg(nm)));
		}
		else if (!strcmp(op, "loc")) {
			int x = vh_int(tok[t++]), pos = vh_int(tok[t++]);
			const char *q = tok[t++];
			const void *ident; size_t len; int charset;
			query(q, &ident, &len, &charset);
			if (!live(x)) vh_tok("X"); else res_p(mpt_node_locate(NODE(x), pos, ident, len, charset));
		}
		else if (!strcmp(op, "walk")) {
			const char *o = tok[t++];
			int fl = vh_int(tok[t++]), k = vh_int(tok[t++]), x = vh_int(tok[t++]);
			if (!live(x)) vh_tok("X");
			else {
				walk_n = 0; walk_stop = k;
				res_walk(mpt_gnode_traverse(NODE(x), fl | order_flag(o), walk_fcn, 0));
			}
		}
		else if (!strcmp(op, "parse")) {
			/* parse <root> <K|E> <text in hex> <tree the text denotes (for the model)> */
			int x = vh_int(tok[t++]);
			const char *hex = tok[t + 1];
			t += 3;
			if (!live(x)) vh_tok("X");
			else {
				MPT_STRUCT(parser_context) ctx = MPT_PARSER_INIT;
				char *text = unhex(hex);
				const char *pos = text;
				int ret;
				learn_scratch();
				ctx.src.getc = text_getc;
				ctx.src.arg = &pos;
				ret = mpt_parse_node(NODE(x), &ctx, 0);
				free(text);
				vh_tok("Z%d", ret < 0 ? -1 : ret > 0 ? 1 : 0);
			}
		}
		else if (!strcmp(op, "zparse")) {
			/* the calls mpt_parse_node refuses: no root, no parser context, a format that selects no parser */
			int x = vh_int(tok[t++]);
			if (!live(x)) vh_tok("X");
			else {
				MPT_STRUCT(parser_context) ctx = MPT_PARSER_INIT;
				const char *pos = "a = v\n";
				int r1, r2, r3;
				ctx.src.getc = text_getc;
				ctx.src.arg = &pos;
				r1 = mpt_parse_node(0, &ctx, 0);
				r2 = mpt_parse_node(NODE(x), 0, 0);
				r3 = mpt_parse_node(NODE(x), &ctx, "{?");
				vh_tok("Z%d", (r1 < 0 && r2 < 0 && r3 < 0) ? -1 : 0);
			}
		}
		/* ---- entry points with a NULL node ---- */
		else if (!strcmp(op, "zadd")) {
			int g = tok[t++][0] == 'g', pos = vh_int(tok[t++]), x = vh_int(tok[t++]);
			if (!live(x)) vh_tok("X"); else res_p(g ? mpt_gnode_add(0, pos, NODE(x)) : mpt_node_add(0, pos, NODE(x)));
		}
		else if (!strcmp(op, "zaddn")) {
			int g = tok[t++][0] == 'g', f = vh_int(tok[t++]), pos = vh_int(tok[t++]);
			if (!live(f)) vh_tok("X"); else res_p(g ? mpt_gnode_add(NODE(f), pos, 0) : mpt_node_add(NODE(f), pos, 0));
		}
		else if (!strcmp(op, "zins")) {
			int g = tok[t++][0] == 'g', p = vh_int(tok[t++]), pos = vh_int(tok[t++]);
			if (!live(p)) vh_tok("X"); else vh_tok("Z%d", g ? mpt_gnode_insert(NODE(p), pos, 0) : mpt_node_insert(NODE(p), pos, 0));
		}
		else if (!strcmp(op, "zmove")) {
			int p = vh_int(tok[t++]);
			if (!live(p)) vh_tok("X"); else vh_tok("Z%zu", mpt_node_move(&NODE(p)->children, 0));
		}
		else if (!strcmp(op, "zpos")) { int pos = vh_int(tok[t++]); res_p(mpt_gnode_pos(0, pos)); }
		else if (!strcmp(op, "zunlink")) res_p(mpt_node_unlink(0));
		else if (!strcmp(op, "zdestroy")) res_p(mpt_node_destroy(0));
		else if (!strcmp(op, "zrelink")) { mpt_gnode_relink(0); vh_tok("P-"); }
		else if (!strcmp(op, "zclone")) res_p(mpt_node_clone(0));
		else if (!strcmp(op, "zlclone")) res_p(mpt_list_clone(0));
		else if (!strcmp(op, "ztclone")) res_p(mpt_tree_clone(0));
		else if (!strcmp(op, "ztrav")) {
			const char *o = tok[t++];
			int fl = vh_int(tok[t++]);
			walk_n = 0; walk_stop = 0;
			res_walk(mpt_gnode_traverse(0, fl | order_flag(o), walk_fcn, 0));
		}
		else if (!strcmp(op, "ztravh")) {
			int x = vh_int(tok[t++]);
			walk_n = 0;
			if (!live(x)) vh_tok("X"); else res_walk(mpt_gnode_traverse(NODE(x), MPT_ENUM(TraversePreOrder) | 3, 0, 0));
		}
		else if (!strcmp(op, "zloc")) { int pos = vh_int(tok[t++]); res_p(mpt_node_locate(0, pos, "a", 1, -1)); }
		else if (!strcmp(op, "zfind")) res_p(mpt_node_find(0, "a", 1));
		else if (!strcmp(op, "znext")) res_p(mpt_node_next(0, "a"));
		else if (!strcmp(op, "zsame")) { int up = vh_int(tok[t++]); res_p(mpt_gnode_samelevel(0, up)); }
		else if (!strcmp(op, "zsub")) { int up = vh_int(tok[t++]); res_p(mpt_gnode_sublevel(0, up)); }
		else if (!strcmp(op, "end")) {
			int i, left = 0;
			for (i = 0; i < ntab; i++) {
				if (is_freed(i) || NODE(i)->parent) continue;
				mpt_node_unlink(NODE(i));
				mpt_node_destroy(NODE(i));
			}
			for (i = 0; i < ntab; i++) if (!is_freed(i)) ++left;
			if (!left && nmeta_live) left = 1000;
			/* LeakSanitizer after the clean-up (every lsan_every-th case, default: every case) */
			if (!left && lsan_every > 0 && case_no % lsan_every == 0) {
				scrub_stack();
				if (__lsan_do_recoverable_leak_check()) left = 2000;
			}
			vh_tok("Z%d", left);
		}
		else { fprintf(stderr, "bad op %s\n", op); abort(); }
		dump_state();
	}
}
int main(int argc, char **argv)
{
	int r = vh_main(argc, argv, run_case);
	fflush(stdout);
	_exit(r);
}
