/* C04 C++ harness: drives the C++ array API of mpt++/array.cpp + mptcore/array.h
 * (class array, struct slice) with the same case language and the same
 * observations as harness/c04_array.c.  Handles 0..3 are mpt::array objects,
 * 4..5 mpt::slice objects; every handle is read back after EACH operation from
 * the header fields and the bytes behind the header.
 *
 * Operations (see ml/c04_driver.ml):
 *   xcp x y     arr[x] = arr[y]            (reference assignment)
 *   xclr x      arr[x] = array()
 *   xapp x hex  arr[x].append(len, data)
 *   xins x off hex   arr[x].insert(off, len, data)
 *   xset x hex | xsetz x n   arr[x].set(len, data | 0)
 *   xsets x hex arr[x].set(value('s', text))
 *   xasl x s    arr[x] = slice s           (only for windows inside the data)
 *   xmks s y    sl[s] = slice(arr[y])
 *   xshf s n | xtrm s n   sl[s].shift(n) / trim(n)   (n >= 0, window inside the data)
 *   prt x hex | str x | wr s nblk esz hex | wrz s nblk esz | flg x flags   as in the C harness
 * Token per operation: <res>|<v0>,...,<v5>|<partition>|<mech>   (same as the C harness). */
#include "common.h"
#include <errno.h>
#include "array.h"
/* mpt++/array.cpp is compiled into this translation unit (built with -fno-sanitize=vptr):
 * the buffers are created by C code (_mpt_buffer_alloc) with a C function table in
 * place of a C++ vtable, which UBSan's vptr check rejects on every virtual call.
 * Everything else of UBSan/ASan stays on. */
#include "array.cpp"

using namespace mpt;

#define NARR 4
#define NH   6

/* layout of struct bufferData in mptcore/array/buffer_alloc.c (checked at start) */
struct hdr_view {
	uintptr_t ref;
	size_t psize;
	int flags;
	uint8_t pad[8 * sizeof(void *) - sizeof(uintptr_t) - sizeof(size_t) - sizeof(int) - sizeof(buffer)];
};
/* raw views of the object layouts (no C++ downcasts: the buffers are made by C code) */
struct buf_view { const void *vptr; const type_traits *traits; size_t size; size_t used; };
struct slice_view { const void *buf; uintptr_t off, len; };
struct peek_buffer {
	buf_view v;
	size_t used() const { return v.used; }
	size_t size() const { return v.size; }
	const type_traits *content_traits() const { return v.traits; }
};
struct peek_slice {
	slice_view v;
	size_t off() const { return v.off; }
	size_t len() const { return v.len; }
};

static array *arr[NARR];
static slice *sl[NH - NARR];

static const buffer *buf_of(int i)
{
	return i < NARR ? arr[i]->data() : sl[i - NARR]->array::data();
}
static hdr_view *hdr(const void *b)
{
	return reinterpret_cast<hdr_view *>(const_cast<uint8_t *>(reinterpret_cast<const uint8_t *>(b)) - sizeof(hdr_view));
}
static long traits_id(const type_traits *t)
{
	if (!t) return 0;
	if (t == type_traits::get('c')) return 1;
	return 90 + (long) t->size;
}
static void dump(void)
{
	int i, j, cls[NH], next = 0;
	vh_add("|");
	for (i = 0; i < NH; i++) {
		const peek_buffer *b = reinterpret_cast<const peek_buffer *>(buf_of(i));
		if (i) vh_add(",");
		if (!b) { vh_add("n"); continue; }
		vh_add("%ld.", traits_id(b->content_traits()));
		if (i < NARR) {
			vh_hex(reinterpret_cast<const uint8_t *>(b + 1), b->used());
		} else {
			const peek_slice *s = reinterpret_cast<const peek_slice *>(sl[i - NARR]);
			size_t used = b->used(), off = s->off(), len = s->len();
			if (off > used) off = used;
			if (len > used - off) len = used - off;
			vh_hex(reinterpret_cast<const uint8_t *>(b + 1) + off, len);
		}
	}
	vh_add("|");
	for (i = 0; i < NH; i++) {
		const buffer *b = buf_of(i);
		if (i) vh_add(".");
		if (!b) { vh_add("n"); continue; }
		for (j = 0; j < i; j++) if (buf_of(j) == b) break;
		cls[i] = (j < i) ? cls[j] : next++;
		vh_add("%d", cls[i]);
	}
	vh_add("|");
	for (i = 0; i < NH; i++) {
		const peek_buffer *b = reinterpret_cast<const peek_buffer *>(buf_of(i));
		if (i) vh_add(",");
		if (!b) vh_add("n");
		else vh_add("%zu:%zu:%zu:%d", b->used(), b->size(), (size_t) hdr(b)->ref, hdr(b)->flags);
		if (i >= NARR) {
			const peek_slice *s = reinterpret_cast<const peek_slice *>(sl[i - NARR]);
			vh_add(":%zu:%zu", s->off(), s->len());
		}
	}
}
static bool consistent(int s)
{
	const peek_buffer *b = reinterpret_cast<const peek_buffer *>(buf_of(s));
	const peek_slice *p = reinterpret_cast<const peek_slice *>(sl[s - NARR]);
	size_t used = b ? b->used() : 0;
	return p->off() + p->len() <= used;
}
static void run_case(int ntok, char **tok)
{
	int t = 1, i;
	if (sizeof(hdr_view) + sizeof(buffer) != 8 * sizeof(void *) || sizeof(buf_view) != sizeof(buffer)
	    || sizeof(slice_view) != sizeof(slice)) { vh_tok("?layout"); return; }
	for (i = 0; i < NARR; i++) arr[i] = new array;
	for (i = 0; i < NH - NARR; i++) sl[i] = new slice;
	while (t < ntok) {
		const char *op = tok[t++];
		long x = vh_int(tok[t++]);
		int slice_op = !strcmp(op, "xmks") || !strcmp(op, "xshf") || !strcmp(op, "xtrm") || !strcmp(op, "wr") || !strcmp(op, "wrz");
		int nargs = 0;
		char **arg = tok + t;
		if (!strcmp(op, "xcp") || !strcmp(op, "xapp") || !strcmp(op, "xset") || !strcmp(op, "xsetz") || !strcmp(op, "xsets")
		    || !strcmp(op, "xasl") || !strcmp(op, "xmks") || !strcmp(op, "xshf") || !strcmp(op, "xtrm")
		    || !strcmp(op, "prt") || !strcmp(op, "flg")) nargs = 1;
		else if (!strcmp(op, "xins") || !strcmp(op, "wrz")) nargs = 2;
		else if (!strcmp(op, "wr")) nargs = 3;
		t += nargs;
		if (x < 0 || x >= NH || (x >= NARR) != slice_op) {
			vh_tok("G");
		}
		else if (!strcmp(op, "xcp")) {
			long y = vh_int(arg[0]);
			if (y < 0 || y >= NARR) vh_tok("G");
			else { *arr[x] = *arr[y]; vh_tok("D:0/0"); }
		}
		else if (!strcmp(op, "xclr")) {
			int had = arr[x]->data() ? 2 : 0;   /* the model reports mpt_array_clone's code for a cleared array */
			*arr[x] = array();
			vh_tok("D:0/%d", had);
		}
		else if (!strcmp(op, "xapp")) {
			size_t n; uint8_t *d = vh_unhex(arg[0], &n);
			void *r = arr[x]->append(n, d);
			vh_tok(r ? "D:0/0" : "R");
			free(d);
		}
		else if (!strcmp(op, "xins")) {
			size_t off = vh_int(arg[0]), n; uint8_t *d = vh_unhex(arg[1], &n);
			void *r = arr[x]->insert(off, n, d);
			vh_tok(r ? "D:0/0" : "R");
			free(d);
		}
		else if (!strcmp(op, "xset") || !strcmp(op, "xsetz")) {
			size_t n; uint8_t *d = 0; void *r;
			if (op[4]) n = vh_int(arg[0]); else d = vh_unhex(arg[0], &n);
			r = arr[x]->set(n, d);
			vh_tok(r ? "D:0/0" : "R");
			free(d);
		}
		else if (!strcmp(op, "xsets")) {
			size_t n; uint8_t *d = vh_unhex(arg[0], &n);
			char *s = (char *) malloc(n + 1);
			const char *sp = s;
			value v;
			int r;
			memcpy(s, d, n); s[n] = 0;
			v.set('s', &sp);
			r = arr[x]->set(v);
			vh_tok(r < 0 ? "R" : "D:0/0");
			free(s); free(d);
		}
		else if (!strcmp(op, "xasl")) {
			long s = vh_int(arg[0]);
			if (s < NARR || s >= NH || !consistent(s)) vh_tok("G");
			else { *arr[x] = *sl[s - NARR]; vh_tok("D:0/0"); }
		}
		else if (!strcmp(op, "xmks")) {
			long y = vh_int(arg[0]);
			if (y < 0 || y >= NARR) vh_tok("G");
			else { *sl[x - NARR] = slice(*arr[y]); vh_tok("D:0/0"); }
		}
		else if (!strcmp(op, "xshf") || !strcmp(op, "xtrm")) {
			long n = vh_int(arg[0]);
			if (n < 0 || !consistent(x)) vh_tok("G");
			else {
				bool r = op[1] == 's' ? sl[x - NARR]->shift(n) : sl[x - NARR]->trim(n);
				vh_tok(r ? "D:0/0" : "R");
			}
		}
		else if (!strcmp(op, "prt")) {
			size_t n; uint8_t *d = vh_unhex(arg[0], &n);
			char *s = (char *) malloc(n + 1);
			int r;
			memcpy(s, d, n); s[n] = 0;
			r = arr[x]->printf("%s", s);
			if (r < 0) vh_tok("R"); else vh_tok("D:%d/%d", r, r);
			free(s); free(d);
		}
		else if (!strcmp(op, "str")) {
			char *s = arr[x]->string();
			if (!s) vh_tok("R"); else { size_t l = strlen(s); vh_tok("D:%zu/%zu", l, l); }
		}
		else if (!strcmp(op, "flg")) {
			const buffer *b = buf_of(x);
			if (!b) vh_tok("G");
			else { hdr(b)->flags = vh_int(arg[0]); vh_tok("D:0/0"); }
		}
		else if (!strcmp(op, "wr") || !strcmp(op, "wrz")) {
			size_t nblk = vh_int(arg[0]), esz = vh_int(arg[1]), n; uint8_t *d = 0;
			ssize_t r;
			if (!op[2]) d = vh_unhex(arg[2], &n);
			r = sl[x - NARR]->write(nblk, d, esz);
			if (r < 0) vh_tok("R");
			else if (!esz) vh_tok("D:0/%zd", r);
			else vh_tok("D:%zd/%zd", r, r);
			free(d);
		}
		else {
			vh_tok("?%s", op);
		}
		dump();
	}
}
int main(int argc, char **argv)
{
	return vh_main(argc, argv, run_case);
}
