/* C04 C++ harness: drives the C++ array API of mpt++/array.cpp + mptcore/array.h
 * (class array, struct slice) with the same case language and the same
 * observations as harness/c04_array.c.  Handles 0..3 are mpt::array objects,
 * 4..5 mpt::slice objects; every handle is read back after EACH operation from
 * the header fields and the bytes behind the header.
 *
 * Operations (see ml/c04_driver.ml):
 *   xcp x y     arr[x] = arr[y]            (reference assignment)
 *   xclr x      arr[x] = array()
 *   xapp x hex  arr[x].append(len, data)
 *   xins x off hex   arr[x].insert(off, len, data)
 *   xset x hex | xsetz x n   arr[x].set(len, data | 0)
 *   xsets x hex arr[x].set(value('s', text))
 *   xasl x s    arr[x] = slice s           (only for windows inside the data)
 *   xmks s y    sl[s] = slice(arr[y])
 *   xshf s n | xtrm s n   sl[s].shift(n) / trim(n)   (n >= 0, window inside the data)
 *   prt x hex | str x | wr s nblk esz hex | wrz s nblk esz | flg x flags   as in the C harness
 *   xnew x n    arr[x] = array(n)                       (array::array(size_t))
 *   xiov x hex | xaiov x hex | xasp x hex   arr[x] = iovec / arr[x] += iovec / arr[x] += span<uint8_t>
 *   xpre x hex | xinsz x off n   arr[x].prepend(len, data) / arr[x].insert(off, n, 0)
 *   xsetc x kind hex   arr[x].set(convertable&): the source answers TypeVector (kind v), the character vector (c),
 *                      's' (s), 's' with result 0 (e) or nothing (n)
 *   xsetr x y   arr[x].set(reference<buffer> on the buffer of arr[y])
 *   xsetv x kind hex   arr[x].set(value): TypeVector (V), vector of char / uint32 / double (c u d),
 *                      one scalar char / uint32 / double (C U D)
 *   xlen x n    array::content::set_length(n) on the block of arr[x] (private mutable blocks only)
 *   xscp s t    sl[s] = slice(sl[t])                     (slice copy constructor)
 *   xssc s kind hex    sl[s].set(convertable&)
 * Cases that start with the token E drive struct encode_array (two objects, no encoder):
 *   epush e hex | efin e | eprep e n | eshf e n | ecp e f | epm e hex hex (push(message): base part + one more part)
 *   token: <res>|<done>:<scratch>:<bytes>:<data()>,<...> for both objects
 * Token per operation: <res>|<v0>,...,<v5>|<partition>|<mech>   (same as the C harness). */
#include "common.h"
#include <errno.h>
#include "array.h"
/* mpt++/array.cpp is compiled into this translation unit (built with -fno-sanitize=vptr):
 * the buffers are created by C code (_mpt_buffer_alloc) with a C function table in
 * place of a C++ vtable, which UBSan's vptr check rejects on every virtual call.
 * Everything else of UBSan/ASan stays on. */
#include "array.cpp"

using namespace mpt;

#define NARR 4
#define NH   6

/* layout of struct bufferData in mptcore/array/buffer_alloc.c (checked at start) */
struct hdr_view {
	uintptr_t ref;
	size_t psize;
	int flags;
	uint8_t pad[8 * sizeof(void *) - sizeof(uintptr_t) - sizeof(size_t) - sizeof(int) - sizeof(buffer)];
};
/* raw views of the object layouts (no C++ downcasts: the buffers are made by C code) */
struct buf_view { const void *vptr; const type_traits *traits; size_t size; size_t used; };
struct slice_view { const void *buf; uintptr_t off, len; };
struct peek_buffer {
	buf_view v;
	size_t used() const { return v.used; }
	size_t size() const { return v.size; }
	const type_traits *content_traits() const { return v.traits; }
};
struct peek_slice {
	slice_view v;
	size_t off() const { return v.off; }
	size_t len() const { return v.len; }
};

static array *arr[NARR];
static slice *sl[NH - NARR];

static const buffer *buf_of(int i)
{
	return i < NARR ? arr[i]->data() : sl[i - NARR]->array::data();
}
static hdr_view *hdr(const void *b)
{
	return reinterpret_cast<hdr_view *>(const_cast<uint8_t *>(reinterpret_cast<const uint8_t *>(b)) - sizeof(hdr_view));
}
static long traits_id(const type_traits *t)
{
	if (!t) return 0;
	if (t == type_traits::get('c')) return 1;
	if (t == type_traits::get('u') || t == type_traits::get('d')) return (long) t->size;
	return 90 + (long) t->size;
}
static void dump(void)
{
	int i, j, cls[NH], next = 0;
	vh_add("|");
	for (i = 0; i < NH; i++) {
		const peek_buffer *b = reinterpret_cast<const peek_buffer *>(buf_of(i));
		if (i) vh_add(",");
		if (!b) { vh_add("n"); continue; }
		vh_add("%ld.", traits_id(b->content_traits()));
		if (i < NARR) {
			vh_hex(reinterpret_cast<const uint8_t *>(b + 1), b->used());
		} else {
			const peek_slice *s = reinterpret_cast<const peek_slice *>(sl[i - NARR]);
			size_t used = b->used(), off = s->off(), len = s->len();
			if (off > used) off = used;
			if (len > used - off) len = used - off;
			vh_hex(reinterpret_cast<const uint8_t *>(b + 1) + off, len);
		}
	}
	vh_add("|");
	for (i = 0; i < NH; i++) {
		const buffer *b = buf_of(i);
		if (i) vh_add(".");
		if (!b) { vh_add("n"); continue; }
		for (j = 0; j < i; j++) if (buf_of(j) == b) break;
		cls[i] = (j < i) ? cls[j] : next++;
		vh_add("%d", cls[i]);
	}
	vh_add("|");
	for (i = 0; i < NH; i++) {
		const peek_buffer *b = reinterpret_cast<const peek_buffer *>(buf_of(i));
		if (i) vh_add(",");
		if (!b) vh_add("n");
		else vh_add("%zu:%zu:%zu:%d", b->used(), b->size(), (size_t) hdr(b)->ref, hdr(b)->flags);
		if (i >= NARR) {
			const peek_slice *s = reinterpret_cast<const peek_slice *>(sl[i - NARR]);
			vh_add(":%zu:%zu", s->off(), s->len());
		}
	}
}
static bool consistent(int s)
{
	const peek_buffer *b = reinterpret_cast<const peek_buffer *>(buf_of(s));
	const peek_slice *p = reinterpret_cast<const peek_slice *>(sl[s - NARR]);
	size_t used = b ? b->used() : 0;
	return p->off() + p->len() <= used;
}

/* a conversion source with chosen answers (array::set(convertable &), slice::set(convertable &)) */
struct conv_src : convertable {
	int kind;
	struct iovec vec;
	const char *txt;
	virtual ~conv_src() { }
	int convert(type_t type, void *ptr) __MPT_OVERRIDE
	{
		if (kind == 'v' && type == TypeVector) {
			if (ptr) *static_cast<struct iovec *>(ptr) = vec;
			return TypeVector;
		}
		if (kind == 'c' && type == MPT_type_toVector('c')) {
			if (ptr) *static_cast<struct iovec *>(ptr) = vec;
			return type;
		}
		if ((kind == 's' || kind == 'e') && type == 's') {
			if (ptr) *static_cast<const char **>(ptr) = txt;
			return kind == 'e' ? 0 : 's';
		}
		return BadType;
	}
};
static int set_conv(array *a, slice *s, int kind, const uint8_t *d, size_t n)
{
	conv_src c;
	char *t = (char *) malloc(n + 1);
	int r;
	memcpy(t, d, n); t[n] = 0;
	c.kind = kind; c.vec.iov_base = (void *) d; c.vec.iov_len = n; c.txt = t;
	r = s ? s->set(c) : a->set(c);
	free(t);
	return r;
}
/* struct encode_array with its protected members readable */
struct enc_peek : encode_array {
	size_t done() const { return _state.done; }
	size_t scratch() const { return _state.scratch; }
	const array &arr() const { return _d; }
};
static enc_peek *enc[2];
static void enc_dump(void)
{
	int i;
	vh_add("|");
	for (i = 0; i < 2; i++) {
		const peek_buffer *b = reinterpret_cast<const peek_buffer *>(enc[i]->arr().data());
		size_t used = b ? b->used() : 0, part = enc[i]->done() + enc[i]->scratch();
		if (i) vh_add(",");
		vh_add("%zu:%zu:", enc[i]->done(), enc[i]->scratch());
		vh_hex(b ? reinterpret_cast<const uint8_t *>(b + 1) : 0, used);
		vh_add(":");
		if (part > used) vh_add("!");
		else {
			span<const uint8_t> v = enc[i]->data();
			/* the address must be the one inside the block, too */
			if (v.size() && v.begin() != reinterpret_cast<const uint8_t *>(b + 1) + (used - part)) vh_add("!addr");
			else vh_hex(v.begin(), v.size());
		}
	}
}
static void run_enc(int ntok, char **tok)
{
	int t = 2, i;
	for (i = 0; i < 2; i++) enc[i] = new enc_peek;
	while (t < ntok) {
		const char *op = tok[t++];
		long x = vh_int(tok[t++]);
		int nargs = (!strcmp(op, "efin")) ? 0 : !strcmp(op, "epm") ? 2 : 1;
		char **arg = tok + t;
		t += nargs;
		if (x < 0 || x > 1) vh_tok("G");
		else if (!strcmp(op, "epush")) {
			size_t n; uint8_t *d = vh_unhex(arg[0], &n);
			ssize_t r = n ? enc[x]->push(n, d) : -1;
			if (r < 0) vh_tok("R"); else vh_tok("D:%zd", r);
			free(d);
		}
		else if (!strcmp(op, "efin")) {
			ssize_t r = enc[x]->push(0, 0);
			if (r < 0) vh_tok("R"); else vh_tok("D:%zd", r);
		}
		else if (!strcmp(op, "eprep")) vh_tok(enc[x]->prepare(vh_int(arg[0])) ? "D:0" : "R");
		else if (!strcmp(op, "eshf")) vh_tok(enc[x]->shift(vh_int(arg[0])) ? "D:0" : "R");
		else if (!strcmp(op, "ecp")) {
			long y = vh_int(arg[0]);
			if (y < 0 || y > 1) vh_tok("G");
			else { *enc[x] = *enc[y]; vh_tok("D:0"); }
		}
		else if (!strcmp(op, "epm")) {
			size_t n1, n2; uint8_t *d1 = vh_unhex(arg[0], &n1), *d2 = vh_unhex(arg[1], &n2);
			struct iovec more;
			message m(d1, n1);
			bool r;
			more.iov_base = d2; more.iov_len = n2;
			m.cont = &more; m.clen = 1;
			alarm(3);       /* a push that never ends is a failure of the case, not of the run */
			r = enc[x]->push(m);
			alarm(10);
			vh_tok(r ? "D:0" : "R");
			free(d1); free(d2);
		}
		else vh_tok("?%s", op);
		enc_dump();
	}
	for (i = 0; i < 2; i++) delete enc[i];
}
static void run_case(int ntok, char **tok)
{
	int t = 1, i;
	if (ntok > 1 && !strcmp(tok[1], "E")) { run_enc(ntok, tok); return; }
	if (sizeof(hdr_view) + sizeof(buffer) != 8 * sizeof(void *) || sizeof(buf_view) != sizeof(buffer)
	    || sizeof(slice_view) != sizeof(slice)) { vh_tok("?layout"); return; }
	for (i = 0; i < NARR; i++) arr[i] = new array;
	for (i = 0; i < NH - NARR; i++) sl[i] = new slice;
	while (t < ntok) {
		const char *op = tok[t++];
		long x = vh_int(tok[t++]);
		int slice_op = !strcmp(op, "xmks") || !strcmp(op, "xshf") || !strcmp(op, "xtrm") || !strcmp(op, "wr") || !strcmp(op, "wrz")
		               || !strcmp(op, "xscp") || !strcmp(op, "xssc");
		int nargs = 0;
		char **arg = tok + t;
		if (!strcmp(op, "xcp") || !strcmp(op, "xapp") || !strcmp(op, "xset") || !strcmp(op, "xsetz") || !strcmp(op, "xsets")
		    || !strcmp(op, "xasl") || !strcmp(op, "xmks") || !strcmp(op, "xshf") || !strcmp(op, "xtrm")
		    || !strcmp(op, "prt") || !strcmp(op, "flg")
		    || !strcmp(op, "xnew") || !strcmp(op, "xiov") || !strcmp(op, "xaiov") || !strcmp(op, "xasp") || !strcmp(op, "xpre")
		    || !strcmp(op, "xsetr") || !strcmp(op, "xlen") || !strcmp(op, "xscp")) nargs = 1;
		else if (!strcmp(op, "xins") || !strcmp(op, "wrz") || !strcmp(op, "xinsz") || !strcmp(op, "xsetc")
		         || !strcmp(op, "xsetv") || !strcmp(op, "xssc")) nargs = 2;
		else if (!strcmp(op, "wr")) nargs = 3;
		t += nargs;
		if (x < 0 || x >= NH || (x >= NARR) != slice_op) {
			vh_tok("G");
		}
		else if (!strcmp(op, "xcp")) {
			long y = vh_int(arg[0]);
			if (y < 0 || y >= NARR) vh_tok("G");
			else { *arr[x] = *arr[y]; vh_tok("D:0/0"); }
		}
		else if (!strcmp(op, "xclr")) {
			int had = arr[x]->data() ? 2 : 0;   /* the model reports mpt_array_clone's code for a cleared array */
			*arr[x] = array();
			vh_tok("D:0/%d", had);
		}
		else if (!strcmp(op, "xapp")) {
			size_t n; uint8_t *d = vh_unhex(arg[0], &n);
			void *r = arr[x]->append(n, d);
			vh_tok(r ? "D:0/0" : "R");
			free(d);
		}
		else if (!strcmp(op, "xins")) {
			size_t off = vh_int(arg[0]), n; uint8_t *d = vh_unhex(arg[1], &n);
			void *r = arr[x]->insert(off, n, d);
			vh_tok(r ? "D:0/0" : "R");
			free(d);
		}
		else if (!strcmp(op, "xset") || !strcmp(op, "xsetz")) {
			size_t n; uint8_t *d = 0; void *r;
			if (op[4]) n = vh_int(arg[0]); else d = vh_unhex(arg[0], &n);
			r = arr[x]->set(n, d);
			vh_tok(r ? "D:0/0" : "R");
			free(d);
		}
		else if (!strcmp(op, "xsets")) {
			size_t n; uint8_t *d = vh_unhex(arg[0], &n);
			char *s = (char *) malloc(n + 1);
			const char *sp = s;
			value v;
			int r;
			memcpy(s, d, n); s[n] = 0;
			v.set('s', &sp);
			r = arr[x]->set(v);
			vh_tok(r < 0 ? "R" : "D:0/0");
			free(s); free(d);
		}
		else if (!strcmp(op, "xasl")) {
			long s = vh_int(arg[0]);
			if (s < NARR || s >= NH || !consistent(s)) vh_tok("G");
			else { *arr[x] = *sl[s - NARR]; vh_tok("D:0/0"); }
		}
		else if (!strcmp(op, "xmks")) {
			long y = vh_int(arg[0]);
			if (y < 0 || y >= NARR) vh_tok("G");
			else { *sl[x - NARR] = slice(*arr[y]); vh_tok("D:0/0"); }
		}
		else if (!strcmp(op, "xshf") || !strcmp(op, "xtrm")) {
			long n = vh_int(arg[0]);
			if (n < 0 || !consistent(x)) vh_tok("G");
			else {
				bool r = op[1] == 's' ? sl[x - NARR]->shift(n) : sl[x - NARR]->trim(n);
				vh_tok(r ? "D:0/0" : "R");
			}
		}
		else if (!strcmp(op, "prt")) {
			size_t n; uint8_t *d = vh_unhex(arg[0], &n);
			char *s = (char *) malloc(n + 1);
			int r;
			memcpy(s, d, n); s[n] = 0;
			r = arr[x]->printf("%s", s);
			if (r < 0) vh_tok("R"); else vh_tok("D:%d/%d", r, r);
			free(s); free(d);
		}
		else if (!strcmp(op, "str")) {
			char *s = arr[x]->string();
			if (!s) vh_tok("R"); else { size_t l = strlen(s); vh_tok("D:%zu/%zu", l, l); }
		}
		else if (!strcmp(op, "flg")) {
			const buffer *b = buf_of(x);
			if (!b) vh_tok("G");
			else { hdr(b)->flags = vh_int(arg[0]); vh_tok("D:0/0"); }
		}
		else if (!strcmp(op, "wr") || !strcmp(op, "wrz")) {
			size_t nblk = vh_int(arg[0]), esz = vh_int(arg[1]), n; uint8_t *d = 0;
			ssize_t r;
			if (!op[2]) d = vh_unhex(arg[2], &n);
			r = sl[x - NARR]->write(nblk, d, esz);
			if (r < 0) vh_tok("R");
			else if (!esz) vh_tok("D:0/%zd", r);
			else vh_tok("D:%zd/%zd", r, r);
			free(d);
		}
		else if (!strcmp(op, "xnew")) {
			size_t n = vh_int(arg[0]);
			int had = arr[x]->data() ? 2 : 0;
			*arr[x] = array(n);
			if (n) vh_tok("D:0/%zu", reinterpret_cast<const peek_buffer *>(buf_of(x))->size());
			else vh_tok("D:0/%d", had);
		}
		else if (!strcmp(op, "xiov") || !strcmp(op, "xaiov") || !strcmp(op, "xasp")) {
			size_t n; uint8_t *d = vh_unhex(arg[0], &n);
			struct iovec v;
			const buffer *before = buf_of(x);
			size_t ub = before ? reinterpret_cast<const peek_buffer *>(before)->used() : 0;
			bool ok;
			v.iov_base = d; v.iov_len = n;
			if (op[1] == 'i') { *arr[x] = v; ok = arr[x]->length() == n && (!n || !memcmp(arr[x]->base(), d, n)); }
			else if (!n) { vh_tok("G"); free(d); dump(); continue; }   /* (a refusal could not be told from success) */
			else {
				if (op[2] == 'i') *arr[x] += v; else *arr[x] += span<uint8_t>(d, n);
				/* the operators do not report a refusal: it shows as an unchanged length */
				const peek_buffer *after = reinterpret_cast<const peek_buffer *>(buf_of(x));
				ok = after && after->used() == ub + n;
			}
			vh_tok(ok ? "D:0/0" : "R");
			free(d);
		}
		else if (!strcmp(op, "xpre")) {
			size_t n; uint8_t *d = vh_unhex(arg[0], &n);
			void *r = arr[x]->prepend(n, d);
			vh_tok(r ? "D:0/0" : "R");
			free(d);
		}
		else if (!strcmp(op, "xinsz")) {
			void *r = arr[x]->insert(vh_int(arg[0]), vh_int(arg[1]), 0);
			vh_tok(r ? "D:0/0" : "R");
		}
		else if (!strcmp(op, "xsetc") || !strcmp(op, "xssc")) {
			size_t n; uint8_t *d = vh_unhex(arg[1], &n);
			int r = set_conv(x < NARR ? arr[x] : 0, x < NARR ? 0 : sl[x - NARR], arg[0][0], d, n);
			vh_tok(r < 0 ? "R" : "D:0/0");
			free(d);
		}
		else if (!strcmp(op, "xsetr")) {
			long y = vh_int(arg[0]);
			if (y < 0 || y >= NARR) vh_tok("G");
			else {
				reference<buffer> ref;
				buffer *b = const_cast<array::content *>(arr[y]->data());
				bool r;
				if (b) b->addref();
				ref.set_instance(b);
				r = arr[x]->set(ref);
				vh_tok(r ? "D:0/0" : "R");
			}
		}
		else if (!strcmp(op, "xsetv")) {
			size_t n; uint8_t *d = vh_unhex(arg[1], &n);
			int kind = arg[0][0], r, elem = (kind | 0x20);
			struct iovec v;
			value val;
			v.iov_base = d; v.iov_len = n;
			if (kind == 'V') val.set(TypeVector, &v);
			else if (kind >= 'a') val.set(MPT_type_toVector(elem), &v);
			else val.set(elem, d);
			r = arr[x]->set(val);
			vh_tok(r < 0 ? "R" : "D:0/0");
			free(d);
		}
		else if (!strcmp(op, "xlen")) {
			array::content *c = const_cast<array::content *>(arr[x]->data());
			if (!c || c->shared() || c->immutable()) vh_tok("G");
			else vh_tok(c->set_length(vh_int(arg[0])) ? "D:0/0" : "R");
		}
		else if (!strcmp(op, "xscp")) {
			long y = vh_int(arg[0]);
			if (y < NARR || y >= NH) vh_tok("G");
			else { *sl[x - NARR] = slice(*sl[y - NARR]); vh_tok("D:0/0"); }
		}
		else {
			vh_tok("?%s", op);
		}
		dump();
	}
}
int main(int argc, char **argv)
{
	return vh_main(argc, argv, run_case);
}
