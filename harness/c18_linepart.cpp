/* C18 harness: drives mpt_linepart_linear / _code / _real / _join (mptplot/values) and the two
 * driver loops of mpt++/linepart.cpp (linepart::array::apply on an empty array, and
 * linepart::array::set + apply as polyline::set does it) on double arrays placed in
 * exact-size heap blocks (ASan sees every read outside the data).
 *
 * Case lines (after the id), see ml/c18_driver.ml:
 *   L <min> <max> <v> ...          E <depth> <min> <max> <a0..a4> | <prefix v> ...
 *   J <r u c t r u c t> ...        C <v> ...
 * value syntax <num>/<exp>[*<count>] = num * 2^-exp (exact in binary64), repeated.
 *
 * Observation of one sequence = three groups of part records "raw.usr.cut.trim" closed by
 * "=<sum of raw>": (1) direct loop  pos += raw  over mpt_linepart_linear, (2) array.set(n) +
 * array.apply(), (3) array.apply() on an empty array.  A part with raw = 0 while data
 * remains ends group (1) with STALL (the real loop would never end; (2),(3) are then skipped). */
#include "common.h"
#include <math.h>
#include <vector>
#include <string>
#include "values.h"
/* mpt++/linepart.cpp and array.cpp are compiled INTO this translation unit (not taken from libmpt++.a)
 * so that they get this harness' flags: -fsanitize=vptr must be off for them, because mpt++ treats the
 * C-allocated buffer of _mpt_buffer_alloc() as a polymorphic C++ object (array.cpp:54), which UBSan's
 * vptr check rejects on every typed_array operation - that object-model question belongs to C04/C05,
 * not to this property.  ASan and all other UBSan checks stay on. */
#include "linepart.cpp"
#include "array.cpp"

using namespace mpt;

struct vals { double *v; long n; };

static double one_value(const char *tok, long *count)
{
	char *end;
	long long num = strtoll(tok, &end, 10);
	long e = 0;
	*count = 1;
	if (*end == '/') e = strtol(end + 1, &end, 10);
	if (*end == '*') *count = strtol(end + 1, &end, 10);
	return ldexp((double) num, (int) -e);
}
static vals read_values(int ntok, char **tok, int from)
{
	std::vector<double> tmp;
	for (int i = from; i < ntok; i++) {
		long c;
		double d = one_value(tok[i], &c);
		for (long k = 0; k < c; k++) tmp.push_back(d);
	}
	vals r;
	r.n = (long) tmp.size();
	r.v = (double *) malloc(r.n ? r.n * sizeof(double) : 1);
	for (long i = 0; i < r.n; i++) r.v[i] = tmp[i];
	return r;
}
static void add_part(std::string &s, const linepart &p, const char *sep)
{
	char buf[64];
	snprintf(buf, sizeof(buf), "%u.%u.%u.%u%s", (unsigned) p.raw, (unsigned) p.usr, (unsigned) p._cut, (unsigned) p._trim, sep);
	s += buf;
}
static void add_total(std::string &s, long total)
{
	char buf[32];
	snprintf(buf, sizeof(buf), "=%ld", total);
	s += buf;
}
class tr1 : public transform
{
public:
	const struct range *r;
	int dimensions() const { return 1; }
	linepart part(unsigned, const double *from, int len) const
	{
		linepart p;
		memset(&p, 0xa5, sizeof(p));
		mpt_linepart_linear(&p, from, len, r);
		return p;
	}
};
static void add_array(std::string &s, linepart::array &a, const char *sep)
{
	long total = 0;
	long n = a.length();
	const linepart *p = a.begin();
	for (long i = 0; i < n; i++) { add_part(s, p[i], sep); total += p[i].raw; }
	add_total(s, total);
}
/* the three observations of one sequence */
static std::string observe(const double *v, long n, const struct range *r, const char *sep, const char *gsep)
{
	std::string s;
	long pos = 0;
	bool stall = false;
	/* exact-size copy: reads outside [0,n) are caught */
	double *d = (double *) malloc(n ? n * sizeof(double) : 1);
	if (n) memcpy(d, v, n * sizeof(double));
	while (pos < n) {
		linepart p;
		memset(&p, 0xa5, sizeof(p));
		mpt_linepart_linear(&p, d + pos, n - pos, r);
		if (!p.raw) { stall = true; break; }
		add_part(s, p, sep);
		pos += p.raw;
	}
	if (stall) { free(d); return std::string("STALL") + gsep + "-" + gsep + "-"; }
	add_total(s, pos);
	s += gsep;
	tr1 tr;
	tr.r = r;
	{
		linepart::array a;
		a.set(n);
		a.apply(tr, 0, span<const double>(d, n));
		add_array(s, a, sep);
	}
	s += gsep;
	{
		linepart::array a;
		a.apply(tr, 0, span<const double>(d, n));
		add_array(s, a, sep);
	}
	free(d);
	return s;
}
static void enumerate(std::vector<double> &seq, const double *alpha, int depth, const struct range *r)
{
	if (!depth) {
		std::string s = observe(seq.data(), (long) seq.size(), r, ";", "|");
		vh_tok("%s", s.c_str());
		return;
	}
	for (int i = 0; i < 5; i++) {
		seq.push_back(alpha[i]);
		enumerate(seq, alpha, depth - 1, r);
		seq.pop_back();
	}
}
static const struct range *get_range(char **tok, struct range *r)
{
	long c;
	if (!strcmp(tok[0], "N")) return 0;
	r->min = one_value(tok[0], &c);
	r->max = one_value(tok[1], &c);
	return r;
}
static void run_case(int ntok, char **tok)
{
	struct range rg;
	if (ntok < 2) return;
	if (!strcmp(tok[1], "L") && ntok >= 4) {
		const struct range *r = get_range(tok + 2, &rg);
		vals d = read_values(ntok, tok, 4);
		std::string s = observe(d.v, d.n, r, " ", " | ");
		vh_tok("%s", s.c_str());
		free(d.v);
	}
	else if (!strcmp(tok[1], "E") && ntok >= 11) {
		int depth = atoi(tok[2]);
		const struct range *r = get_range(tok + 3, &rg);
		double alpha[5];
		long c;
		for (int i = 0; i < 5; i++) alpha[i] = one_value(tok[5 + i], &c);
		vals d = read_values(ntok, tok, 11);
		std::vector<double> seq(d.v, d.v + d.n);
		enumerate(seq, alpha, depth, r);
		free(d.v);
	}
	else if (!strcmp(tok[1], "J")) {
		for (int t = 2; t + 7 < ntok; t += 8) {
			linepart a, b;
			a.raw = atoi(tok[t]); a.usr = atoi(tok[t+1]); a._cut = atoi(tok[t+2]); a._trim = atoi(tok[t+3]);
			b.raw = atoi(tok[t+4]); b.usr = atoi(tok[t+5]); b._cut = atoi(tok[t+6]); b._trim = atoi(tok[t+7]);
			linepart *res = mpt_linepart_join(&a, b);
			std::string s = res ? "" : "R:";
			add_part(s, a, "");
			vh_tok("%s", s.c_str());
		}
	}
	else if (!strcmp(tok[1], "C")) {
		vals d = read_values(ntok, tok, 2);
		for (long i = 0; i < d.n; i++) {
			int c = mpt_linepart_code(d.v[i]);
			double re = mpt_linepart_real(c & 0xffff) * 65536.0;
			if (re == floor(re) && fabs(re) < 1e15) vh_tok("%d:%lld/0x10000", c, (long long) re);
			else vh_tok("%d:%a", c, re);
		}
		free(d.v);
	}
}
int main(int argc, char **argv)
{
	return vh_main(argc, argv, run_case);
}
