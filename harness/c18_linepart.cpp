/* C18 harness: drives mpt_linepart_linear / _code / _real / _join (mptplot/values) and the two
 * driver loops of mpt++/linepart.cpp (linepart::array::apply on an empty array, and
 * linepart::array::set + apply as polyline::set does it) on double arrays placed in
 * exact-size heap blocks (ASan sees every read outside the data).
 *
 * Case lines (after the id), see ml/c18_driver.ml:
 *   L <min> <max> <v> ...          E <depth> <min> <max> <a0..a4> | <prefix v> ...
 *   J <r u c t r u c t> ...        C <v> ...
 * value syntax <num>/<exp>[*<count>] = num * 2^-exp (exact in binary64), repeated.
 *
 * Observation of one sequence = three groups of part records "raw.usr.cut.trim" closed by
 * "=<sum of raw>": (1) direct loop  pos += raw  over mpt_linepart_linear, (2) array.set(n) +
 * array.apply(), (3) array.apply() on an empty array.  A part with raw = 0 while data
 * remains ends group (1) with STALL (the real loop would never end; (2),(3) are then skipped). */
#include "common.h"
#include <math.h>
#include <vector>
#include <string>
#include "values.h"
/* mpt++/linepart.cpp and array.cpp are compiled INTO this translation unit (not taken from libmpt++.a)
 * so that they get this harness' flags: -fsanitize=vptr must be off for them, because mpt++ treats the
 * C-allocated buffer of _mpt_buffer_alloc() as a polymorphic C++ object (array.cpp:54), which UBSan's
 * vptr check rejects on every typed_array operation - that object-model question belongs to C04/C05,
 * not to this property.  ASan and all other UBSan checks stay on. */
#include "linepart.cpp"
#include "array.cpp"
/* mpt++/polyline.cpp (apply_data, polyline::set, the part iterator) and value_store.cpp (maxsize) for the same
 * reason; layout::graph::transform3 (transform.cpp) is the REAL transformation class, taken from libmpt++.a */
#include "polyline.cpp"
#include "value_store.cpp"
#include "layout.h"
#include <sanitizer/asan_interface.h>

using namespace mpt;

struct vals { double *v; long n; };

static double one_value(const char *tok, long *count)
{
	char *end;
	long long num = strtoll(tok, &end, 10);
	long e = 0;
	*count = 1;
	if (*end == '/') e = strtol(end + 1, &end, 10);
	if (*end == '*') *count = strtol(end + 1, &end, 10);
	return ldexp((double) num, (int) -e);
}
static vals read_values(int ntok, char **tok, int from)
{
	std::vector<double> tmp;
	for (int i = from; i < ntok; i++) {
		long c;
		double d = one_value(tok[i], &c);
		for (long k = 0; k < c; k++) tmp.push_back(d);
	}
	vals r;
	r.n = (long) tmp.size();
	r.v = (double *) malloc(r.n ? r.n * sizeof(double) : 1);
	for (long i = 0; i < r.n; i++) r.v[i] = tmp[i];
	return r;
}
static void add_part(std::string &s, const linepart &p, const char *sep)
{
	char buf[64];
	snprintf(buf, sizeof(buf), "%u.%u.%u.%u%s", (unsigned) p.raw, (unsigned) p.usr, (unsigned) p._cut, (unsigned) p._trim, sep);
	s += buf;
}
static void add_total(std::string &s, long total)
{
	char buf[32];
	snprintf(buf, sizeof(buf), "=%ld", total);
	s += buf;
}
class tr1 : public transform
{
public:
	const struct range *r;
	int dimensions() const { return 1; }
	linepart part(unsigned, const double *from, int len) const
	{
		linepart p;
		memset(&p, 0xa5, sizeof(p));
		mpt_linepart_linear(&p, from, len, r);
		return p;
	}
};
static void add_array(std::string &s, linepart::array &a, const char *sep)
{
	long total = 0;
	long n = a.length();
	const linepart *p = a.begin();
	for (long i = 0; i < n; i++) { add_part(s, p[i], sep); total += p[i].raw; }
	add_total(s, total);
}
/* the three observations of one sequence */
static std::string observe(const double *v, long n, const struct range *r, const char *sep, const char *gsep)
{
	std::string s;
	long pos = 0;
	bool stall = false;
	/* exact-size copy: reads outside [0,n) are caught */
	double *d = (double *) malloc(n ? n * sizeof(double) : 1);
	if (n) memcpy(d, v, n * sizeof(double));
	while (pos < n) {
		linepart p;
		memset(&p, 0xa5, sizeof(p));
		mpt_linepart_linear(&p, d + pos, n - pos, r);
		if (!p.raw) { stall = true; break; }
		add_part(s, p, sep);
		pos += p.raw;
	}
	if (stall) { free(d); return std::string("STALL") + gsep + "-" + gsep + "-"; }
	add_total(s, pos);
	s += gsep;
	tr1 tr;
	tr.r = r;
	{
		linepart::array a;
		a.set(n);
		a.apply(tr, 0, span<const double>(d, n));
		add_array(s, a, sep);
	}
	s += gsep;
	{
		linepart::array a;
		a.apply(tr, 0, span<const double>(d, n));
		add_array(s, a, sep);
	}
	free(d);
	return s;
}
static void enumerate(std::vector<double> &seq, const double *alpha, int depth, const struct range *r)
{
	if (!depth) {
		std::string s = observe(seq.data(), (long) seq.size(), r, ";", "|");
		vh_tok("%s", s.c_str());
		return;
	}
	for (int i = 0; i < 5; i++) {
		seq.push_back(alpha[i]);
		enumerate(seq, alpha, depth - 1, r);
		seq.pop_back();
	}
}
static const struct range *get_range(char **tok, struct range *r)
{
	long c;
	if (!strcmp(tok[0], "N")) return 0;
	r->min = one_value(tok[0], &c);
	r->max = one_value(tok[1], &c);
	return r;
}
static void run_case(int ntok, char **tok)
{
	struct range rg;
	if (ntok < 2) return;
	if (!strcmp(tok[1], "L") && ntok >= 4) {
		const struct range *r = get_range(tok + 2, &rg);
		vals d = read_values(ntok, tok, 4);
		std::string s = observe(d.v, d.n, r, " ", " | ");
		vh_tok("%s", s.c_str());
		free(d.v);
	}
	else if (!strcmp(tok[1], "E") && ntok >= 11) {
		int depth = atoi(tok[2]);
		const struct range *r = get_range(tok + 3, &rg);
		double alpha[5];
		long c;
		for (int i = 0; i < 5; i++) alpha[i] = one_value(tok[5 + i], &c);
		vals d = read_values(ntok, tok, 11);
		std::vector<double> seq(d.v, d.v + d.n);
		enumerate(seq, alpha, depth, r);
		free(d.v);
	}
	else if (!strcmp(tok[1], "J")) {
		for (int t = 2; t + 7 < ntok; t += 8) {
			linepart a, b;
			a.raw = atoi(tok[t]); a.usr = atoi(tok[t+1]); a._cut = atoi(tok[t+2]); a._trim = atoi(tok[t+3]);
			b.raw = atoi(tok[t+4]); b.usr = atoi(tok[t+5]); b._cut = atoi(tok[t+6]); b._trim = atoi(tok[t+7]);
			linepart *res = mpt_linepart_join(&a, b);
			std::string s = res ? "" : "R:";
			add_part(s, a, "");
			vh_tok("%s", s.c_str());
		}
	}
	else if (!strcmp(tok[1], "C")) {
		vals d = read_values(ntok, tok, 2);
		for (long i = 0; i < d.n; i++) {
			int c = mpt_linepart_code(d.v[i]);
			double re = mpt_linepart_real(c & 0xffff) * 65536.0;
			if (re == floor(re) && fabs(re) < 1e15) vh_tok("%d:%lld/0x10000", c, (long long) re);
			else vh_tok("%d:%a", c, re);
		}
		free(d.v);
	}
}
/* C18 harness, second part: mpt++/polyline.cpp driven through the real classes.
 *
 *   P <dim> | <dim> ... [& <dim> | ... ]   polyline::set(transform3, value stores) once per frame ('&' separates frames,
 *                                          all frames on the SAME polyline object), then parts(), points() and the
 *                                          part iterator (begin/end/++/ * /line()/points()) are read back
 *   R <dim> | <dim> ...                    like P (one frame), then linepart::array::set(-1) on the parts and the records again
 *   A <n> <dim> | <dim> ...                apply_data() without part records: n points, every point visible
 *   D <raw.usr.cut.trim> ... : <dim> | ..  apply_data() WITH the given part records (exact-size copy) on sum(usr) points
 *   W <v> ...                              linepart::set_cut / set_trim / cut() / trim() (values exact in float)
 *
 *   <dim> =  <min> <max> <v> ...   a store of doubles and the visible range of that dimension ("N N" = none)
 *            X                     a store without data            Z   a store of doubles of length 0
 *            F <v> ...             a store of floats (other content type: must be ignored)
 *
 * The transformation is layout::graph::transform3 with its default axes (dimension 0 -> x, 1 -> y, scale 1,
 * offset 0, origin 0) and dimension 2 set to add to both x and y with factor 1 (default 1/sqrt 2), so that every
 * coordinate of a drawn point is an exact sum of products for inputs on the small dyadic grid.
 * The unused capacity behind the data of every store is poisoned for ASan: a read behind the data is a crash. */

struct pl_open : public polyline
{
	linepart::array &vis() { return _vis; }
};
struct dimspec { int kind; struct range r; bool has; std::vector<double> v; };   /* kind: 0 doubles, 1 X, 2 Z, 3 F */

static int parse_dims(int ntok, char **tok, int from, std::vector<dimspec> &out)
{
	int i = from;
	while (i < ntok && strcmp(tok[i], "&")) {
		dimspec d;
		d.kind = 0; d.has = false; d.r.min = d.r.max = 0;
		if (!strcmp(tok[i], "X")) { d.kind = 1; i++; }
		else if (!strcmp(tok[i], "Z")) { d.kind = 2; i++; }
		else if (!strcmp(tok[i], "F")) { d.kind = 3; i++; }
		else if (i + 1 < ntok) {
			d.has = get_range(tok + i, &d.r) != 0;
			i += 2;
		}
		while (i < ntok && strcmp(tok[i], "|") && strcmp(tok[i], "&")) {
			long c;
			double x = one_value(tok[i], &c);
			for (long k = 0; k < c; k++) d.v.push_back(x);
			i++;
		}
		out.push_back(d);
		if (i < ntok && !strcmp(tok[i], "|")) i++;
	}
	return i;
}
static void poison_tail(const value_store &st, bool on)
{
	const array::content *c = st.data();
	if (!c || !c->left()) return;
	char *end = static_cast<char *>(c->data()) + c->length();
	if (on) ASAN_POISON_MEMORY_REGION(end, c->left());
	else ASAN_UNPOISON_MEMORY_REGION(end, c->left());
}
static void fill_stores(const std::vector<dimspec> &dims, std::vector<value_store> &st)
{
	st.resize(dims.size());
	for (size_t d = 0; d < dims.size(); d++) {
		const dimspec &s = dims[d];
		if (s.kind == 0 && s.v.size()) st[d].set(span<const double>(s.v.data(), s.v.size()));
		else if (s.kind == 0 || s.kind == 2) st[d].reserve<double>(0);
		else if (s.kind == 3) {
			std::vector<float> f(s.v.begin(), s.v.end());
			if (f.size()) st[d].set(span<const float>(f.data(), f.size()));
			else st[d].reserve<float>(0);
		}
		poison_tail(st[d], true);
	}
}
static void setup_transform(layout::graph::transform3 &tr, const std::vector<dimspec> &dims)
{
	tr._dim[2].to.x = 1;
	tr._dim[2].to.y = 1;
	for (size_t d = 0; d < dims.size() && d < 3; d++) {
		if (!dims[d].has) continue;
		tr._dim[d]._flags |= TransformLimit;
		tr._dim[d].limit = dims[d].r;
	}
}
static void add_points(std::string &s, const polyline::point *p, long n)
{
	char buf[96];
	snprintf(buf, sizeof(buf), "n%ld", n);
	s += buf;
	for (long i = 0; i < n; ) {
		long k = 1;
		while (i + k < n && !memcmp(p + i, p + i + k, sizeof(*p))) k++;
		if (k > 1) snprintf(buf, sizeof(buf), ",%a:%a*%ld", p[i].x, p[i].y, k);
		else snprintf(buf, sizeof(buf), ",%a:%a", p[i].x, p[i].y);
		s += buf;
		i += k;
	}
}
static void polyline_case(int ntok, char **tok, bool represet)
{
	pl_open pl;
	int i = 2;
	while (i < ntok) {
		std::vector<dimspec> dims;
		std::vector<value_store> st;
		i = parse_dims(ntok, tok, i, dims);
		if (i < ntok) i++;             /* skip '&' */
		fill_stores(dims, st);
		layout::graph::transform3 tr;
		setup_transform(tr, dims);
		bool ok = pl.set(tr, span<const value_store>(st.data(), st.size()));
		vh_tok("%s", ok ? "set=1" : "set=0");
		/* the part records, read from the polyline; totals from the library's own counters */
		span<const linepart> ps = pl.parts();
		std::string s;
		long total = 0;
		for (const linepart *p = ps.begin(); p && p != ps.end(); ++p) { add_part(s, *p, ","); total += p->raw; }
		add_total(s, total);
		char buf[96];
		snprintf(buf, sizeof(buf), ",u%ld,r%ld", pl.vis().length_user(), pl.vis().length_raw());
		s += buf;
		vh_tok("%s", s.c_str());
		/* the points */
		span<const polyline::point> pts = pl.points();
		s.clear();
		add_points(s, pts.begin(), (long) pts.size());
		vh_tok("%s", s.c_str());
		/* the iterator: offsets of line() and points() of every part it yields */
		s = "it";
		long guard = (long) ps.size() + 2;
		for (polyline::iterator it = pl.begin(); it != pl.end() && guard-- > 0; ++it) {
			polyline::part pa = *it;
			span<const polyline::point> l = pa.line(), q = pa.points();
			snprintf(buf, sizeof(buf), ",L%ld+%lu/P%ld+%lu", (long) (l.begin() - pts.begin()), (unsigned long) l.size(),
			         (long) (q.begin() - pts.begin()), (unsigned long) q.size());
			s += buf;
		}
		if (guard <= 0) s += ",ENDLESS";
		{
			/* the end iterator: ++ stays, * yields an empty part */
			polyline::iterator e = pl.end();
			++e;
			polyline::part pe = *e;
			snprintf(buf, sizeof(buf), ",E%lu+%lu%s", (unsigned long) pe.line().size(), (unsigned long) pe.points().size(), e != pl.end() ? "!" : "");
			s += buf;
		}
		vh_tok("%s", s.c_str());
		for (size_t d = 0; d < st.size(); d++) poison_tail(st[d], false);
	}
	if (represet) {
		/* linepart::array::set(-1): all points of the existing parts visible again, in fresh chunks */
		bool ok = pl.vis().set(-1);
		std::string s = ok ? "" : "refused,";
		add_array(s, pl.vis(), ",");
		vh_tok("%s", s.c_str());
	}
}
static void apply_data_case(int ntok, char **tok)
{
	if (ntok < 3) return;
	long n = atol(tok[2]);
	std::vector<dimspec> dims;
	std::vector<value_store> st;
	parse_dims(ntok, tok, 3, dims);
	fill_stores(dims, st);
	layout::graph::transform3 tr;
	setup_transform(tr, dims);
	point<double> *dest = (point<double> *) malloc(n ? n * sizeof(*dest) : 1);
	for (long k = 0; k < n; k++) dest[k] = point<double>(0, 0);
	int proc = apply_data(dest, span<const linepart>(0, n), tr, span<const value_store>(st.data(), st.size()));
	vh_tok("proc=%d", proc);
	std::string s;
	add_points(s, (const polyline::point *) dest, n);
	vh_tok("%s", s.c_str());
	free(dest);
	for (size_t d = 0; d < st.size(); d++) poison_tail(st[d], false);
}
/* apply_data() with part records given by the case (a public function of values.h: the records need not come from
 * polyline::set on the same stores).  Records and points sit in exact-size heap blocks, the stores are poisoned
 * behind their data: a read behind a store or a write behind the points is a crash. */
static void apply_parts_case(int ntok, char **tok)
{
	std::vector<linepart> tmp;
	int i = 2;
	long n = 0;
	for (; i < ntok && strcmp(tok[i], ":"); i++) {
		unsigned r = 0, u = 0, c = 0, t = 0;
		if (sscanf(tok[i], "%u.%u.%u.%u", &r, &u, &c, &t) != 4) return;
		linepart p;
		p.raw = r; p.usr = u; p._cut = c; p._trim = t;
		tmp.push_back(p);
		n += u;
	}
	if (i < ntok) i++;
	std::vector<dimspec> dims;
	std::vector<value_store> st;
	parse_dims(ntok, tok, i, dims);
	fill_stores(dims, st);
	layout::graph::transform3 tr;
	setup_transform(tr, dims);
	linepart *lp = (linepart *) malloc(tmp.size() ? tmp.size() * sizeof(*lp) : 1);
	for (size_t k = 0; k < tmp.size(); k++) lp[k] = tmp[k];
	point<double> *dest = (point<double> *) malloc(n ? n * sizeof(*dest) : 1);
	for (long k = 0; k < n; k++) dest[k] = point<double>(0, 0);
	int proc = apply_data(dest, span<const linepart>(lp, tmp.size()), tr, span<const value_store>(st.data(), st.size()));
	vh_tok("proc=%d", proc);
	std::string s;
	add_points(s, (const polyline::point *) dest, n);
	vh_tok("%s", s.c_str());
	free(dest);
	free(lp);
	for (size_t d = 0; d < st.size(); d++) poison_tail(st[d], false);
}
static void wrapper_case(int ntok, char **tok)
{
	vals d = read_values(ntok, tok, 2);
	for (long i = 0; i < d.n; i++) {
		linepart lp(0, 0);
		lp._cut = 11; lp._trim = 13;
		bool a = lp.set_cut((float) d.v[i]);
		bool b = lp.set_trim((float) d.v[i]);
		vh_tok("%d.%u.%d.%u:%a:%a", a, (unsigned) lp._cut, b, (unsigned) lp._trim, (double) lp.cut() * 65536.0, (double) lp.trim() * 65536.0);
	}
	free(d.v);
}
static void run_case_all(int ntok, char **tok)
{
	if (ntok < 2) return;
	if (!strcmp(tok[1], "P")) polyline_case(ntok, tok, false);
	else if (!strcmp(tok[1], "R")) polyline_case(ntok, tok, true);
	else if (!strcmp(tok[1], "A")) apply_data_case(ntok, tok);
	else if (!strcmp(tok[1], "D")) apply_parts_case(ntok, tok);
	else if (!strcmp(tok[1], "W")) wrapper_case(ntok, tok);
	else run_case(ntok, tok);
}
int main(int argc, char **argv)
{
	return vh_main(argc, argv, run_case_all);
}
