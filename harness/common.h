/* common.h — fork-per-case harness runtime shared by all property harnesses.
 *
 * usage:   static void run_case(int ntok, char **tok) { ... vh_tok("..."); }
 *          int main(int c, char **v) { return vh_main(c, v, run_case); }
 *
 * Input: one case per line, blank separated tokens, first token is the case id.
 * Output: one line per case "I <id> tok tok ...".  Each case runs in a forked
 * child; if the child dies (ASan/UBSan abort, SIGSEGV, SIGFPE, timeout) the
 * token "F" is appended in place of the tokens it did not print.
 */
#ifndef VH_COMMON_H
#define VH_COMMON_H
#include <stdio.h>
#include <stdlib.h>
#include <string.h>
#include <stdarg.h>
#include <stdint.h>
#include <unistd.h>
#include <signal.h>
#include <sys/types.h>
#include <sys/wait.h>

#ifdef __cplusplus
extern "C" {
#endif

static void vh_tok(const char *fmt, ...)
{
	va_list ap;
	fputc(' ', stdout);
	va_start(ap, fmt);
	vfprintf(stdout, fmt, ap);
	va_end(ap);
	fflush(stdout);
}
/* append to the current token */
static void vh_add(const char *fmt, ...)
{
	va_list ap;
	va_start(ap, fmt);
	vfprintf(stdout, fmt, ap);
	va_end(ap);
	fflush(stdout);
}
static void vh_hex(const void *p, size_t n)
{
	const uint8_t *b = (const uint8_t *) p;
	size_t i;
	if (!n) { fputc('-', stdout); }
	for (i = 0; i < n; i++) fprintf(stdout, "%02x", b[i]);
	fflush(stdout);
}
/* parse hex token ("-" = empty); returns malloc'd buffer of exactly *len bytes
 * (1 byte allocation for empty so the pointer is valid) */
static uint8_t *vh_unhex(const char *s, size_t *len)
{
	size_t n, i;
	uint8_t *b;
	if (!strcmp(s, "-")) { *len = 0; return (uint8_t *) malloc(1); }
	n = strlen(s) / 2;
	b = (uint8_t *) malloc(n ? n : 1);
	for (i = 0; i < n; i++) {
		unsigned v;
		sscanf(s + 2*i, "%2x", &v);
		b[i] = (uint8_t) v;
	}
	*len = n;
	return b;
}
static long vh_int(const char *s) { return strtol(s, 0, 0); }
static unsigned long long vh_u64(const char *s) { return strtoull(s, 0, 0); }

typedef void (*vh_case_fn)(int ntok, char **tok);

static int vh_main(int argc, char **argv, vh_case_fn fn)
{
	FILE *in;
	char *line = 0;
	size_t cap = 0;
	ssize_t got;
	int timeout = 10;
	if (argc < 2 || !(in = fopen(argv[1], "r"))) {
		fprintf(stderr, "usage: %s <cases> [timeout_s]\n", argv[0]);
		return 2;
	}
	if (argc > 2) timeout = atoi(argv[2]);
	while ((got = getline(&line, &cap, in)) >= 0) {
		char **tok;
		int ntok = 0, st = 0;
		size_t maxtok = (size_t) got / 2 + 2;
		char *s;
		pid_t pid;
		tok = (char **) malloc(maxtok * sizeof(*tok));
		for (s = strtok(line, " \t\r\n"); s; s = strtok(0, " \t\r\n")) tok[ntok++] = s;
		if (!ntok) { free(tok); continue; }
		fprintf(stdout, "I %s", tok[0]);
		fflush(stdout);
		if (!(pid = fork())) {
			alarm(timeout);
			fn(ntok, tok);
			fflush(stdout);
#ifdef VERIF_COV
			{ extern void __gcov_dump(void); __gcov_dump(); }
#endif
			_exit(0);
		}
		if (pid < 0) { perror("fork"); return 2; }
		while (waitpid(pid, &st, 0) < 0) { }
		if (!WIFEXITED(st) || WEXITSTATUS(st)) {
			if (WIFSIGNALED(st) && WTERMSIG(st) == SIGALRM) fputs(" F:timeout", stdout);
			else fputs(" F", stdout);
		}
		fputc('\n', stdout);
		fflush(stdout);
		free(tok);
	}
	return 0;
}
#ifdef __cplusplus
}
#endif
#endif
