/* C20 harness, mpt++ objects: layout::graph::axis, layout::line, layout::text, layout::graph,
 * layout::graph::world (mpt++/layout.cpp, mpt++/graph.cpp) driven through object::set_property /
 * object::property and the objects' own convert() as generic-assignment source; colour print (operator<<
 * of mpt++/color.cpp) + parse again.  Case language and tokens: c20_ops.h (same as c20_layout.c).
 *
 * Operations only this harness knows (hook h_xop):
 *   clone <t> | cpy <t> | cset <t> <value|font|alias|lfont|tmeta> <text> | conv <t> <request> | lreset <t>
 *   oset <t> <L|N>          object::set(other object, logger | none): every property of the other object by value -> B<bool>
 *   graph:  gadd <t> <axis|world> <name> | gitem <t> <type> <name> <prop|N> <T text> | gbind <t> (bind(0,0)) | gbindl <t> (with a
 *           logger) | gbindo <t> (names looked up among the items of the other graph) | gtr <t> (update_transform, flags,
 *           dimensions, limits taken from the bound axes) | gview <t> (items, bound axes / worlds with all properties)
 *           gcyc <t> <pos> (cycle of a bound world: stage count) | gscyc <t> <pos> (set_cycle)
 *   layout: lload <t> <n> <entry>*n  (entries  p:<name>:<T text> | i:<section key> | e | r:<raw text>  are written to a file,
 *           layout::open + load read it) | lagain <t> (load() again) | lopen <t> <N|X> (open(0) / open(no such file))
 *           -> L<bool>:<items with properties; graphs: own items, bound axes / worlds>/<graph list>/<minimal_scale> */
#include "common.h"
#include <errno.h>
#include <sstream>
#include <string>
#include "types.h"
#include "object.h"
#include "convert.h"
#include "meta.h"
#include "layout.h"
#include "values.h"
#include "collection.h"
#include "parse.h"

/* mpt++/array.cpp, item_group.cpp, graph.cpp and layout.cpp are compiled into this translation unit (harness flag
 * -fno-sanitize=vptr): the item arrays of graph / layout keep their elements in C-made buffers (_mpt_buffer_alloc) whose
 * C vtable UBSan's C++ vptr check rejects on the first member access; every other sanitizer check stays on.  The library
 * objects of these files in libmpt++.a are then not pulled in by the linker. */
#include "array.cpp"
#include "item_group.cpp"
#include "graph.cpp"
#include "layout.cpp"
/* add_items() and the relation search call the text metatypes of the parsed nodes (C-made) */
#include "collection.cpp"
/* cycle::limit_stages grows a typed array whose content is a C-made buffer */
#include "cycle.cpp"

using namespace mpt;

typedef convertable h_conv_t;
typedef object h_object_t;
#define H_PR_DECL(pr)        struct ::mpt::property pr((size_t) 0)
#define H_PR_TYPE(pr)        ((pr).val.type())
#define H_PR_ADDR(pr)        ((pr).val.data())
#define H_VALUE_DECL(v)      struct ::mpt::value v
#define H_VALUE_SET(v, t, p) (v).set((t), (p))
#define H_IDENT_DECL(id)     ::mpt::identifier id

typedef int (*hconv_fn)(void *ctx, type_t type, void *dest);
class hconv : public convertable
{
public:
	hconv(hconv_fn f, void *c) : fn(f), ctx(c) { }
	int convert(type_t t, void *d) __MPT_OVERRIDE { return fn(ctx, t, d); }
	hconv_fn fn;
	void *ctx;
};
#define H_CONV_DECL(h, f, x) hconv h((f), (x))
#define H_CONV_PTR(h)        (static_cast<convertable *>(&(h)))

#include "c20_ops.h"

struct xobj {
	struct hobj h;
	metatype *mt;
	object *ob;
	/* the concrete object, by kind */
	layout::graph::axis *ax;
	layout::line *li;
	layout::text *tx;
	layout::graph *gr;
	layout::graph::world *wl;
	layout *ly;
};
static int x_get(struct hobj *h, struct ::mpt::property *pr)
{
	return static_cast<xobj *>(h->impl)->ob->property(pr);
}
static int x_set(struct hobj *h, const char *name, convertable *src)
{
	return static_cast<xobj *>(h->impl)->ob->set_property(name, src);
}
static void x_bind(xobj *x)
{
	x->h.obj = x->ob;
	x->h.source = x->mt;
}
/* kind token: axis[:flags] world[:cycles] line text graph layout */
static xobj *x_new(int kind, const char *ktok)
{
	xobj *x = new xobj;
	const char *arg = strchr(ktok, ':');
	x->ax = 0; x->li = 0; x->tx = 0; x->gr = 0; x->wl = 0; x->ly = 0;
	switch (kind) {
	case K_AXIS: x->ax = arg ? new layout::graph::axis((AxisFlags) atoi(arg + 1)) : new layout::graph::axis; x->mt = x->ax; x->ob = x->ax; break;
	case K_LINE: x->li = new layout::line; x->mt = x->li; x->ob = x->li; break;
	case K_TEXT: x->tx = new layout::text; x->mt = x->tx; x->ob = x->tx; break;
	case K_GRAPH: x->gr = new layout::graph; x->mt = x->gr; x->ob = x->gr; break;
	case K_LAYOUT: x->ly = new layout; x->mt = x->ly; x->ob = x->ly; break;
	default: x->wl = arg ? new layout::graph::world(atoi(arg + 1)) : new layout::graph::world; x->mt = x->wl; x->ob = x->wl; break;
	}
	x->h.kind = kind;
	x->h.get = x_get;
	x->h.set = x_set;
	x->h.impl = x;
	x_bind(x);
	return x;
}
static void x_free(xobj *x)
{
	x->mt->unref();
	delete x;
}

/* symbolic name of a conversion result */
static void x_retname(xobj *x, int r)
{
	int me = 0, cptr = 0;
	switch (x->h.kind) {
	case K_AXIS: me = type_properties<layout::graph::axis *>::id(true); cptr = mpt_axis_pointer_typeid(); break;
	case K_LINE: me = type_properties<layout::line *>::id(true); cptr = 0; break;
	case K_TEXT: me = type_properties<layout::text *>::id(true); cptr = mpt_text_pointer_typeid(); break;
	case K_GRAPH: me = type_properties<layout::graph *>::id(true); cptr = mpt_graph_pointer_typeid(); break;
	case K_WORLD: me = type_properties<layout::graph::world *>::id(true); cptr = mpt_world_pointer_typeid(); break;
	default: me = type_properties<layout *>::id(true); cptr = 0; break;
	}
	if (r < 0) vh_add("E%d", -r);
	else if (r == me) vh_add("me");
	else if (cptr > 0 && r == cptr) vh_add("cptr");
	else if (r == TypeObjectPtr) vh_add("obj");
	else if (r == TypeMetaPtr) vh_add("meta");
	else if (r == TypeArray) vh_add("arr");
	else if (r == TypeCollectionPtr) vh_add("coll");
	else if (r == mpt_color_typeid()) vh_add("color");
	else if (r == mpt_lattr_typeid()) vh_add("lattr");
	else if (r == mpt_line_typeid()) vh_add("line");
	else if (r == type_properties<group *>::id(true)) vh_add("grp");
	else vh_add("n%d", r);
}

static int x_me_id(struct hobj *h)
{
	switch (h->kind) {
	case K_AXIS: return type_properties<layout::graph::axis *>::id(true);
	case K_LINE: return type_properties<layout::line *>::id(true);
	case K_TEXT: return type_properties<layout::text *>::id(true);
	case K_GRAPH: return type_properties<layout::graph *>::id(true);
	case K_WORLD: return type_properties<layout::graph::world *>::id(true);
	default: return type_properties<layout *>::id(true);
	}
}

/* logger that formats every message (so that format and arguments are exercised) and keeps nothing */
class hlogger : public logger
{
public:
	hlogger() : count(0) { }
	int log(const char *from, int type, const char *fmt, va_list va) __MPT_OVERRIDE
	{
		char buf[1024];
		(void) from; (void) type;
		if (fmt) vsnprintf(buf, sizeof(buf), fmt, va);
		if (fmt && getenv("C20_DEBUG")) fprintf(stderr, "[log %d %s] %s\n", type, from ? from : "", buf);
		++count;
		return 0;
	}
	int count;
};

/* full property dump of any object behind the generic interface (text: also x / y by name) */
static int xo_get(struct hobj *h, struct ::mpt::property *pr)
{
	return static_cast<object *>(h->impl)->property(pr);
}
static void x_dump_object(object *o, int kind)
{
	struct hobj h;
	h.kind = kind; h.get = xo_get; h.set = 0; h.obj = o; h.source = 0; h.impl = o;
	h_dump(&h);
}
/* class of an item: letter and object interface */
static char x_item_class(metatype *mt, object **op, int *kind)
{
	layout::graph::axis *a; layout::graph::world *w; layout::line *l; layout::text *t; layout::graph *g;
	*op = 0; *kind = -1;
	if (!mt) return '0';
	if ((a = *mt)) { *op = a; *kind = K_AXIS; return 'a'; }
	if ((w = *mt)) { *op = w; *kind = K_WORLD; return 'w'; }
	if ((l = *mt)) { *op = l; *kind = K_LINE; return 'l'; }
	if ((t = *mt)) { *op = t; *kind = K_TEXT; return 't'; }
	if ((g = *mt)) { *op = g; *kind = K_GRAPH; return 'g'; }
	return '?';
}
static void x_name(const char *n)
{
	if (n) vh_hex(n, strlen(n)); else vh_add("~");
}
static void x_view_graph(layout::graph *gr);
static void x_view_items(span<const item<metatype> > items, int deep)
{
	for (const item<metatype> *i = items.begin(); i != items.end(); ++i) {
		object *o; int kind;
		char c = x_item_class(i->instance(), &o, &kind);
		vh_add("i(");
		x_name(i->name());
		vh_add(";%c", c);
		if (o) { vh_add(";"); x_dump_object(o, kind); }
		if (c == 'g' && deep) { layout::graph *g = *i->instance(); vh_add(";"); x_view_graph(g); }
		vh_add(")");
	}
}
/* items of a graph (with their properties), bound axes and worlds with the properties of the bound objects */
static void x_view_graph(layout::graph *gr)
{
	vh_add("[");
	x_view_items(gr->items(), 0);
	vh_add("]");
	span<const item<layout::graph::axis> > ax = gr->axes();
	for (const item<layout::graph::axis> *i = ax.begin(); i != ax.end(); ++i) {
		layout::graph::axis *a = i->instance();
		vh_add("a(");
		x_name(i->name());
		if (a) { vh_add(";"); x_dump_object(a, K_AXIS); }
		vh_add(")");
	}
	span<const item<layout::graph::data> > wl = gr->worlds();
	for (const item<layout::graph::data> *i = wl.begin(); i != wl.end(); ++i) {
		layout::graph::data *d = i->instance();
		layout::graph::world *w = d ? d->world.instance() : 0;
		vh_add("w(");
		x_name(i->name());
		if (w) { vh_add(";"); x_dump_object(w, K_WORLD); }
		vh_add(")");
	}
}
static void x_view_layout(layout *ly)
{
	x_view_items(ly->items(), 1);
	vh_add("/");
	span<const item<layout::graph> > gs = ly->graphs();
	for (const item<layout::graph> *g = gs.begin(); g != gs.end(); ++g) {
		int pos = 0, found = -1;
		span<const item<metatype> > items = ly->items();
		for (const item<metatype> *i = items.begin(); i != items.end(); ++i, ++pos) {
			layout::graph *ig = i->instance() ? (layout::graph *) *i->instance() : 0;
			if (ig && ig == g->instance()) { found = pos; break; }
		}
		vh_add("g(");
		x_name(g->name());
		if (found >= 0) vh_add(";%d", found); else vh_add(";new");
		vh_add(")");
	}
	{
		fpoint ms = ly->minimal_scale();
		uint32_t bx, by;
		memcpy(&bx, &ms.x, 4); memcpy(&by, &ms.y, 4);
		vh_add("/%08lx;%08lx", (unsigned long) bx, (unsigned long) by);
	}
}
/* layout file made of the entry tokens:  p:<name>:<T text>  |  i:<section key>  |  e  |  r:<raw text> */
static char x_files[16][40];
static int x_nfiles = 0;
static void x_files_remove(void)
{
	while (x_nfiles > 0) unlink(x_files[--x_nfiles]);
}
static char *x_layout_file(int n, char **tok)
{
	char *path;
	FILE *f;
	int i, fd;
	if (x_nfiles >= 16) return 0;
	path = x_files[x_nfiles];
	strcpy(path, "/tmp/c20_layout_XXXXXX");
	if ((fd = mkstemp(path)) < 0) return 0;
	++x_nfiles;
	if (!(f = fdopen(fd, "w"))) { close(fd); return 0; }
	for (i = 0; i < n; i++) {
		const char *t = tok[i];
		if (t[0] == 'e') fputs("}\n", f);
		else if (t[0] == 'i' || t[0] == 'r') {
			char *k = h_text(t + 2);
			if (k) fputs(k, f);
			fputs(t[0] == 'i' ? " {\n" : "\n", f);
			free(k);
		}
		else if (t[0] == 'p') {
			char *cp = strdup(t + 2), *sep = strchr(cp, ':');
			char *nm, *val;
			if (sep) *sep = 0;
			nm = h_text(cp);
			val = sep ? h_text(sep + 2) : 0;
			fprintf(f, "%s = %s;\n", nm ? nm : "", val ? val : "");
			free(nm); free(val); free(cp);
		}
	}
	fclose(f);
	return path;
}

static int x_op(struct hobj *ha, struct hobj *hb, const char *op, int ntok, char **tok, int *tp)
{
	int t = *tp;
	(void) ntok;
	if (!strcmp(op, "clone")) {
		xobj *x = static_cast<xobj *>((tok[t][0] == 'b' ? hb : ha)->impl);
		metatype *old = x->mt;
		switch (x->h.kind) {
		case K_AXIS: x->ax = x->ax->clone(); x->mt = x->ax; x->ob = x->ax; break;
		case K_LINE: x->li = x->li->clone(); x->mt = x->li; x->ob = x->li; break;
		case K_TEXT: x->tx = x->tx->clone(); x->mt = x->tx; x->ob = x->tx; break;
		case K_GRAPH: x->gr = x->gr->clone(); x->mt = x->gr; x->ob = x->gr; break;
		case K_WORLD: x->wl = x->wl->clone(); x->mt = x->wl; x->ob = x->wl; break;
		default: *tp = t + 1; vh_tok("?clone"); return 1;
		}
		x_bind(x);
		old->unref();
		*tp = t + 1;
		vh_tok("K");
		return 1;
	}
	if (!strcmp(op, "cpy")) {
		/* struct level: copy construction from the other object, then copy assignment */
		xobj *x = static_cast<xobj *>((tok[t][0] == 'b' ? hb : ha)->impl);
		xobj *o = static_cast<xobj *>((tok[t][0] == 'b' ? ha : hb)->impl);
		switch (x->h.kind) {
		case K_AXIS: { ::mpt::axis tmp(*static_cast< ::mpt::axis *>(o->ax)); *static_cast< ::mpt::axis *>(x->ax) = tmp; break; }
		case K_LINE: { ::mpt::line tmp(*static_cast< ::mpt::line *>(o->li)); *static_cast< ::mpt::line *>(x->li) = tmp; break; }
		case K_TEXT: { ::mpt::text tmp(*static_cast< ::mpt::text *>(o->tx)); *static_cast< ::mpt::text *>(x->tx) = tmp; break; }
		case K_GRAPH: { ::mpt::graph tmp(*static_cast< ::mpt::graph *>(o->gr)); *static_cast< ::mpt::graph *>(x->gr) = tmp; break; }
		case K_WORLD: { ::mpt::world tmp(*static_cast< ::mpt::world *>(o->wl)); *static_cast< ::mpt::world *>(x->wl) = tmp; break; }
		default: *tp = t + 1; vh_tok("?cpy"); return 1;
		}
		*tp = t + 1;
		vh_tok("K");
		return 1;
	}
	if (!strcmp(op, "cset")) {
		/* direct C++ setters: cset <tgt> <value|font|alias|lfont|meta> <text> */
		xobj *x = static_cast<xobj *>((tok[t][0] == 'b' ? hb : ha)->impl);
		const char *which = tok[t + 1];
		char *txt = h_text(tok[t + 2]);
		int r = -1;
		if (x->tx && !strcmp(which, "tmeta")) {
			/* text::set(metatype &): the value from a text metatype as a parsed configuration node holds it */
			value v;
			const char *ct = txt;
			metatype *m;
			v.set('s', &ct);
			m = mpt_meta_new(&v);
			*tp = t + 3;
			if (!m) vh_tok("?meta");
			else { h_result(static_cast< ::mpt::text *>(x->tx)->set(*m)); m->unref(); }
			free(txt);
			return 1;
		}
		if (x->tx && !strcmp(which, "value")) r = x->tx->set_value(txt);
		else if (x->tx && !strcmp(which, "font")) r = x->tx->set_font(txt);
		else if (x->wl && !strcmp(which, "alias")) r = x->wl->set_alias(txt);
		else if (x->ly && !strcmp(which, "alias")) r = x->ly->set_alias(txt);
		else if (x->ly && !strcmp(which, "lfont")) r = x->ly->set_font(txt);
		free(txt);
		*tp = t + 3;
		if (r < 0) vh_tok("?cset"); else vh_tok("B%d", r);
		return 1;
	}
	if (!strcmp(op, "oset")) {
		/* oset <tgt> <L|N>: object::set(const object &, logger *): every property of the other object by value */
		xobj *x = static_cast<xobj *>((tok[t][0] == 'b' ? hb : ha)->impl);
		xobj *o = static_cast<xobj *>((tok[t][0] == 'b' ? ha : hb)->impl);
		hlogger lg;
		bool r = x->ob->set(*o->ob, tok[t + 1][0] == 'L' ? &lg : 0);
		*tp = t + 2;
		vh_tok("B%d", (int) r);
		return 1;
	}
	if (!strcmp(op, "lload") || !strcmp(op, "lagain") || !strcmp(op, "lopen")) {
		xobj *x = static_cast<xobj *>((tok[t][0] == 'b' ? hb : ha)->impl);
		hlogger lg;
		if (!x->ly) { vh_tok("?layout"); *tp = ntok; return 1; }
		if (!strcmp(op, "lopen")) {
			/* lopen <tgt> <N|X>: open(0) / open(<no such file>) */
			bool r = tok[t + 1][0] == 'N' ? x->ly->open(0) : x->ly->open("/nonexistent/c20/layout.lay");
			*tp = t + 2;
			vh_tok("B%d", (int) r);
			return 1;
		}
		if (!strcmp(op, "lload")) {
			/* lload <tgt> <n> <entry>*n: write the layout file, open it, load it */
			int n = atoi(tok[t + 1]);
			char *path;
			bool r;
			if (n < 0 || t + 2 + n > ntok) { vh_tok("?lload"); *tp = ntok; return 1; }
			path = x_layout_file(n, tok + t + 2);
			*tp = t + 2 + n;
			if (!path) { vh_tok("?file"); return 1; }
			r = x->ly->open(path);
			if (r) r = x->ly->load(&lg);
			else vh_add(" ?open");
			vh_tok("L%d:", (int) r);
		}
		else {
			/* lagain <tgt>: load() on whatever input the layout has */
			bool r = x->ly->load(&lg);
			*tp = t + 1;
			vh_tok("L%d:", (int) r);
		}
		x_view_layout(x->ly);
		return 1;
	}
	if (!strcmp(op, "lreset")) {
		xobj *x = static_cast<xobj *>((tok[t][0] == 'b' ? hb : ha)->impl);
		*tp = t + 1;
		if (!x->ly) { vh_tok("?lreset"); return 1; }
		vh_tok("B%d", (int) x->ly->reset());
		return 1;
	}
	if (!strcmp(op, "conv")) {
		/* conv <tgt> <request>: the object's convert() */
		xobj *x = static_cast<xobj *>((tok[t][0] == 'b' ? hb : ha)->impl);
		const char *rq = tok[t + 1];
		int r;
		*tp = t + 2;
		vh_tok("V");
		if (!strcmp(rq, "fmt0")) {
			const uint8_t *fmt = 0;
			r = x->mt->convert(0, &fmt);
			x_retname(x, r);
			vh_add(":");
			if (fmt) { while (*fmt) vh_add("%02x", *fmt++); }
			return 1;
		}
		if (!strcmp(rq, "color")) {
			color c(1, 2, 3, 4);
			r = x->mt->convert(mpt_color_typeid(), &c);
			x_retname(x, r);
			vh_add(":%02x%02x%02x%02x", c.alpha, c.red, c.green, c.blue);
			return 1;
		}
		if (!strcmp(rq, "lattr")) {
			lineattr l(9, 9, 9, 9);
			r = x->mt->convert(mpt_lattr_typeid(), &l);
			x_retname(x, r);
			vh_add(":%02x%02x%02x%02x", l.style, l.width, l.symbol, l.size);
			return 1;
		}
		if (!strcmp(rq, "line")) {
			::mpt::line l;
			r = x->mt->convert(mpt_line_typeid(), &l);
			x_retname(x, r);
			vh_add(":%02x%02x%02x%02x", l.color.alpha, l.color.red, l.color.green, l.color.blue);
			{ uint32_t b; memcpy(&b, &l.from.x, 4); vh_add(",%08lx", (unsigned long) b); }
			return 1;
		}
		{
			void *p = 0;
			type_t ty = 0;
			const void *want = 0;
			if (!strcmp(rq, "me")) {
				switch (x->h.kind) {
				case K_AXIS: ty = type_properties<layout::graph::axis *>::id(true); want = x->ax; break;
				case K_LINE: ty = type_properties<layout::line *>::id(true); want = x->li; break;
				case K_TEXT: ty = type_properties<layout::text *>::id(true); want = x->tx; break;
				case K_GRAPH: ty = type_properties<layout::graph *>::id(true); want = x->gr; break;
				case K_WORLD: ty = type_properties<layout::graph::world *>::id(true); want = x->wl; break;
				default: ty = type_properties<layout *>::id(true); want = x->ly; break;
				}
			}
			else if (!strcmp(rq, "cptr")) {
				switch (x->h.kind) {
				case K_AXIS: ty = mpt_axis_pointer_typeid(); want = static_cast< ::mpt::axis *>(x->ax); break;
				case K_TEXT: ty = mpt_text_pointer_typeid(); want = static_cast< ::mpt::text *>(x->tx); break;
				case K_GRAPH: ty = mpt_graph_pointer_typeid(); want = static_cast< ::mpt::graph *>(x->gr); break;
				case K_WORLD: ty = mpt_world_pointer_typeid(); want = static_cast< ::mpt::world *>(x->wl); break;
				default: ty = mpt_axis_pointer_typeid(); want = 0; break;
				}
			}
			else if (!strcmp(rq, "obj")) { ty = TypeObjectPtr; want = x->ob; }
			else if (!strcmp(rq, "meta")) { ty = TypeMetaPtr; want = x->mt; }
			else if (!strcmp(rq, "grp")) { ty = type_properties<group *>::id(true); want = 0; }
			else if (!strcmp(rq, "coll")) { ty = TypeCollectionPtr; want = 0; }
			else if (!strcmp(rq, "otherptr")) { ty = x->h.kind == K_AXIS ? mpt_world_pointer_typeid() : mpt_axis_pointer_typeid(); want = 0; }
			else if (!strcmp(rq, "str")) { ty = 's'; want = 0; }
			else { ty = 0x7e; want = 0; }
			r = x->mt->convert(ty, &p);
			x_retname(x, r);
			if (r >= 0 && want) vh_add(p == want ? ":self" : ":other");
			/* query mode (no target) gives the same verdict */
			{
				int q = x->mt->convert(ty, 0);
				vh_add((q < 0) == (r < 0) ? "" : ":q!");
			}
			return 1;
		}
	}
	if (!strcmp(op, "gview") || !strcmp(op, "gcyc") || !strcmp(op, "gscyc")) {
		xobj *x = static_cast<xobj *>((tok[t][0] == 'b' ? hb : ha)->impl);
		if (!x->gr) { vh_tok("?graph"); *tp = ntok; return 1; }
		if (!strcmp(op, "gview")) {
			*tp = t + 1;
			vh_tok("W");
			x_view_graph(x->gr);
			return 1;
		}
		if (!strcmp(op, "gcyc")) {
			/* gcyc <tgt> <pos>: the cycle of a bound world: created on demand, limited to the world's cycle count */
			const reference<class cycle> *c = x->gr->cycle(atoi(tok[t + 1]));
			*tp = t + 2;
			if (!c) vh_tok("C~");
			else if (!c->instance()) vh_tok("C0~");
			else vh_tok("C%ld", c->instance()->stage_count());
			return 1;
		}
		{
			reference<class cycle> rc;
			bool r;
			rc.set_instance(new reference<class cycle>::type);
			r = x->gr->set_cycle(atoi(tok[t + 1]), rc);
			*tp = t + 2;
			vh_tok("B%d", (int) r);
			return 1;
		}
	}
	if (!strcmp(op, "gadd") || !strcmp(op, "gitem") || !strcmp(op, "gbind") || !strcmp(op, "gbindl") || !strcmp(op, "gbindo") || !strcmp(op, "gtr")) {
		xobj *x = static_cast<xobj *>((tok[t][0] == 'b' ? hb : ha)->impl);
		if (!x->gr) { vh_tok("?graph"); *tp = ntok; return 1; }
		if (!strcmp(op, "gadd")) {
			/* gadd <tgt> <axis|world> <name|N>: a new default axis / world bound directly */
			int isnull;
			char *name = h_name(tok[t + 2], &isnull);
			void *it;
			if (!strcmp(tok[t + 1], "axis")) it = x->gr->add_axis(0, name);
			else it = x->gr->add_world(0, name);
			free(name);
			*tp = t + 3;
			vh_tok(it ? "K" : "R");
		}
		else if (!strcmp(op, "gitem")) {
			/* gitem <tgt> <type> <name> <property|N> <T text>: create an item of the group, assign one property
			 * through its object interface, append it under the name */
			int isnull, pnull;
			char *name = h_name(tok[t + 2], &isnull);
			char *type = h_text(tok[t + 1]);
			char *prop = h_name(tok[t + 3], &pnull);
			char *ptxt = h_text(tok[t + 4] + 1);
			metatype *mt = x->gr->create(type);
			*tp = t + 5;
			if (!mt) vh_tok("R");
			else {
				identifier id;
				int r;
				object *io = *mt;
				if (io && !pnull) mpt_object_set_string(io, prop, ptxt, 0);
				if (name) id.set_name(name);
				r = x->gr->append(&id, mt);
				if (r < 0) { mt->unref(); vh_tok("E%d", -r); }
				else vh_tok("K%d", r);
			}
			free(type);
			free(name);
			free(prop);
			free(ptxt);
		}
		else if (!strcmp(op, "gbind") || !strcmp(op, "gbindl") || !strcmp(op, "gbindo")) {
			/* gbind: bind(0, 0); gbindl: with a logger; gbindo: names are looked up among the items of the other graph */
			hlogger lg;
			int r;
			if (!strcmp(op, "gbindo")) {
				xobj *o = static_cast<xobj *>((tok[t][0] == 'b' ? ha : hb)->impl);
				collection::relation rel(*o->gr);
				r = x->gr->bind(&rel, &lg);
			}
			else r = x->gr->bind(0, !strcmp(op, "gbindl") ? &lg : 0);
			*tp = t + 1;
			if (r < 0) vh_tok("E%d", -r); else vh_tok("K%d", r);
		}
		else {
			bool r = x->gr->update_transform(-1);
			int d;
			*tp = t + 1;
			vh_tok("T%d:%d,%d,%d", (int) r, x->gr->transform_flags(0), x->gr->transform_flags(1), x->gr->transform_flags(2));
			/* dimensions of the transformation, the parts and the limits taken from the bound axes (begin / end) */
			vh_add(";d%d;u%d%d;f%d", x->gr->transform().dimensions(), (int) x->gr->update_transform(3), (int) x->gr->update_transform(0), x->gr->transform_flags(3));
			for (d = 0; d < 4; d++) {
				const struct value_apply *va = x->gr->transform_part(d);
				if (!va) { vh_add(";~"); continue; }
				const layout::graph::transform3::data *td = static_cast<const layout::graph::transform3::data *>(va);
				uint64_t lo, hi;
				memcpy(&lo, &td->limit.min, 8); memcpy(&hi, &td->limit.max, 8);
				vh_add(";%016llx,%016llx", (unsigned long long) lo, (unsigned long long) hi);
			}
		}
		/* bound axes and worlds: name and, for axes, the interval/begin properties of the bound object */
		vh_add(":");
		{
			span<const item<layout::graph::axis> > ax = x->gr->axes();
			for (const item<layout::graph::axis> *i = ax.begin(); i != ax.end(); ++i) {
				const char *n = i->name();
				layout::graph::axis *a = i->instance();
				vh_add("a(");
				if (n) vh_hex(n, strlen(n)); else vh_add("~");
				if (a) { uint64_t b; memcpy(&b, &a->::mpt::axis::begin, 8); vh_add(";%016llx;%u;%u", (unsigned long long) b, (unsigned) a->intv, (unsigned) a->format); }
				vh_add(")");
			}
			span<const item<layout::graph::data> > wl = x->gr->worlds();
			for (const item<layout::graph::data> *i = wl.begin(); i != wl.end(); ++i) {
				const char *n = i->name();
				layout::graph::data *d = i->instance();
				layout::graph::world *w = d ? d->world.instance() : 0;
				vh_add("w(");
				if (n) vh_hex(n, strlen(n)); else vh_add("~");
				if (w) vh_add(";%u", (unsigned) w->cyc);
				vh_add(")");
			}
		}
		return 1;
	}
	return 0;
}

static void run_col(int ntok, char **tok)
{
	int isnull, r;
	char *txt = h_name(tok[3], &isnull);
	color *c = new color(0x22, 0x33, 0x44, 0x11);
	(void) ntok;
	r = mpt_color_parse(c, txt);
	if (r < 0) vh_tok("E|%02x%02x%02x%02x", c->alpha, c->red, c->green, c->blue);
	else vh_tok("K|%02x%02x%02x%02x", c->alpha, c->red, c->green, c->blue);
	{
		int q = mpt_color_parse(0, txt);
		vh_tok(q < 0 ? "qE" : "qK");
	}
	/* print the accepted colour and parse the printed text again */
	if (r >= 0) {
		std::ostringstream os;
		color *d = new color(0x22, 0x33, 0x44, 0x11);
		os << *c;
		std::string s = os.str();
		vh_tok("p:");
		vh_hex(s.c_str(), s.size());
		r = mpt_color_parse(d, s.c_str());
		if (r < 0) vh_add("|E"); else vh_add("|%02x%02x%02x%02x", d->alpha, d->red, d->green, d->blue);
		delete d;
	}
	delete c;
	free(txt);
}

static void run_case(int ntok, char **tok)
{
	int kind;
	if (ntok < 3) return;
	if (!strcmp(tok[2], "pm")) { h_run_pm(ntok, tok); return; }
	if (!strcmp(tok[2], "lat")) { h_run_lat(ntok, tok); return; }
	if (!strcmp(tok[2], "col")) { run_col(ntok, tok); return; }
	if ((kind = h_kind(tok[2])) < 0) { vh_tok("?kind"); return; }
	{
		xobj *a = x_new(kind, tok[2]), *b = x_new(kind, tok[2]);
		h_run_object_case(ntok, tok, &a->h, &b->h);
		x_free(a);
		x_free(b);
		x_files_remove();
		vh_tok(__lsan_do_recoverable_leak_check() ? "ZL" : "Z");
	}
}
int main(int argc, char **argv)
{
	mpt_color_typeid(); mpt_lattr_typeid(); mpt_fpoint_typeid(); mpt_line_typeid();
	mpt_axis_pointer_typeid(); mpt_text_pointer_typeid(); mpt_graph_pointer_typeid(); mpt_world_pointer_typeid();
	h_xop = x_op;
	h_me_id = x_me_id;
	return vh_main(argc, argv, run_case);
}
