/* C20 harness, mpt++ objects: layout::graph::axis, layout::line, layout::text, layout::graph,
 * layout::graph::world (mpt++/layout.cpp, mpt++/graph.cpp) driven through object::set_property /
 * object::property and the objects' own convert() as generic-assignment source; colour print (operator<<
 * of mpt++/color.cpp) + parse again.  Case language and tokens: c20_ops.h (same as c20_layout.c). */
#include "common.h"
#include <errno.h>
#include <sstream>
#include <string>
#include "types.h"
#include "object.h"
#include "convert.h"
#include "meta.h"
#include "layout.h"
#include "values.h"

using namespace mpt;

typedef convertable h_conv_t;
typedef object h_object_t;
#define H_PR_DECL(pr)        struct ::mpt::property pr((size_t) 0)
#define H_PR_TYPE(pr)        ((pr).val.type())
#define H_PR_ADDR(pr)        ((pr).val.data())
#define H_VALUE_DECL(v)      struct ::mpt::value v
#define H_VALUE_SET(v, t, p) (v).set((t), (p))
#define H_IDENT_DECL(id)     ::mpt::identifier id

typedef int (*hconv_fn)(void *ctx, type_t type, void *dest);
class hconv : public convertable
{
public:
	hconv(hconv_fn f, void *c) : fn(f), ctx(c) { }
	int convert(type_t t, void *d) __MPT_OVERRIDE { return fn(ctx, t, d); }
	hconv_fn fn;
	void *ctx;
};
#define H_CONV_DECL(h, f, x) hconv h((f), (x))
#define H_CONV_PTR(h)        (static_cast<convertable *>(&(h)))

#include "c20_ops.h"

struct xobj {
	struct hobj h;
	metatype *mt;
	object *ob;
};
static int x_get(struct hobj *h, struct ::mpt::property *pr)
{
	return static_cast<xobj *>(h->impl)->ob->property(pr);
}
static int x_set(struct hobj *h, const char *name, convertable *src)
{
	return static_cast<xobj *>(h->impl)->ob->set_property(name, src);
}
static xobj *x_new(int kind)
{
	xobj *x = new xobj;
	switch (kind) {
	case K_AXIS: { layout::graph::axis *o = new layout::graph::axis; x->mt = o; x->ob = o; break; }
	case K_LINE: { layout::line *o = new layout::line; x->mt = o; x->ob = o; break; }
	case K_TEXT: { layout::text *o = new layout::text; x->mt = o; x->ob = o; break; }
	case K_GRAPH: { layout::graph *o = new layout::graph; x->mt = o; x->ob = o; break; }
	default: { layout::graph::world *o = new layout::graph::world; x->mt = o; x->ob = o; break; }
	}
	x->h.kind = kind;
	x->h.get = x_get;
	x->h.set = x_set;
	x->h.obj = x->ob;
	x->h.source = x->mt;
	x->h.impl = x;
	return x;
}
static void x_free(xobj *x)
{
	x->mt->unref();
	delete x;
}

static void run_col(int ntok, char **tok)
{
	int isnull, r;
	char *txt = h_name(tok[3], &isnull);
	color *c = new color(0x22, 0x33, 0x44, 0x11);
	(void) ntok;
	r = mpt_color_parse(c, txt);
	if (r < 0) vh_tok("E|%02x%02x%02x%02x", c->alpha, c->red, c->green, c->blue);
	else vh_tok("K|%02x%02x%02x%02x", c->alpha, c->red, c->green, c->blue);
	{
		int q = mpt_color_parse(0, txt);
		vh_tok(q < 0 ? "qE" : "qK");
	}
	/* print the accepted colour and parse the printed text again */
	if (r >= 0) {
		std::ostringstream os;
		color *d = new color(0x22, 0x33, 0x44, 0x11);
		os << *c;
		std::string s = os.str();
		vh_tok("p:");
		vh_hex(s.c_str(), s.size());
		r = mpt_color_parse(d, s.c_str());
		if (r < 0) vh_add("|E"); else vh_add("|%02x%02x%02x%02x", d->alpha, d->red, d->green, d->blue);
		delete d;
	}
	delete c;
	free(txt);
}

static void run_case(int ntok, char **tok)
{
	int kind;
	if (ntok < 3) return;
	if (!strcmp(tok[2], "pm")) { h_run_pm(ntok, tok); return; }
	if (!strcmp(tok[2], "col")) { run_col(ntok, tok); return; }
	if ((kind = h_kind(tok[2])) < 0) { vh_tok("?kind"); return; }
	{
		xobj *a = x_new(kind), *b = x_new(kind);
		h_run_object_case(ntok, tok, &a->h, &b->h);
		x_free(a);
		x_free(b);
		vh_tok(__lsan_do_recoverable_leak_check() ? "ZL" : "Z");
	}
}
int main(int argc, char **argv)
{
	mpt_color_typeid(); mpt_lattr_typeid(); mpt_fpoint_typeid(); mpt_line_typeid();
	mpt_axis_pointer_typeid(); mpt_text_pointer_typeid(); mpt_graph_pointer_typeid(); mpt_world_pointer_typeid();
	return vh_main(argc, argv, run_case);
}
