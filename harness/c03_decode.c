/* C03 harness: drives the four in-place COBS decoders on caller buffers made of separately
 * allocated, 16-byte aligned, exact-size fragments (ASan sees any access outside them).
 *
 * case:  <id> <variant 0..3, 4 = mpt_decode_command (zero-terminated command text)> <slack> <frag lens "a,b,c" (last one is stretched/cut to fit)> <stream hex> <op>...
 *   vis N    N bytes of (slack ++ stream) are readable from now on
 *   dec      one decoder call on the readable fragments
 *   peek     one call in peek mode (sourcelen = 0)
 *   reset    dec(state, 0, 0)
 *   size N   dec(state, 0, N)
 * tokens:  D:<rc>|<code>,<pos>,<curr>,<data.pos>,<data.len>,<data.msg>|<msg hex or ->|<image of readable bytes>
 *          N:<value>   (size)      -   (vis, reset)
 */
#include "common.h"
#include <sys/uio.h>
#include "convert.h"

typedef int (*dec_fn)(MPT_STRUCT(decode_state) *, const struct iovec *, size_t);
static dec_fn decs[] = { mpt_decode_cobs, mpt_decode_cobs_r, mpt_decode_cobs_zpe, mpt_decode_cobs_zpe_r, mpt_decode_command };

#define MAXFRAG 16
static uint8_t *fbase[MAXFRAG];
static size_t flen[MAXFRAG];
static int nfrag;

static void run_case(int ntok, char **tok)
{
	int v = vh_int(tok[1]), t = 5, i;
	size_t slack = vh_int(tok[2]), sl, total, pos, vis = 0;
	uint8_t *stream = vh_unhex(tok[4], &sl), *all;
	char *fs = tok[3], *p;
	MPT_STRUCT(decode_state) ds = MPT_DECODE_INIT;
	total = slack + sl;
	all = malloc(total ? total : 1);
	memset(all, 0xee, slack);
	if (sl) memcpy(all + slack, stream, sl);
	/* fragment lengths */
	nfrag = 0; pos = 0;
	for (p = strtok(fs, ","); p && nfrag < MAXFRAG; p = strtok(0, ",")) {
		size_t l = strtoul(p, 0, 10);
		if (pos + l > total) l = total - pos;
		flen[nfrag++] = l; pos += l;
	}
	if (!nfrag) { flen[nfrag++] = 0; }
	flen[nfrag - 1] += total - pos;
	pos = 0;
	for (i = 0; i < nfrag; i++) {
		void *m = 0;
		if (posix_memalign(&m, 16, flen[i] ? flen[i] : 1)) _exit(3);
		fbase[i] = m;
		if (flen[i]) memcpy(fbase[i], all + pos, flen[i]);
		pos += flen[i];
	}
	ds.curr = slack;
	while (t < ntok) {
		const char *op = tok[t++];
		if (!strcmp(op, "vis")) {
			vis = vh_int(tok[t++]);
			if (vis > total) vis = total;
			vh_tok("-");
		}
		else if (!strcmp(op, "dec") || !strcmp(op, "peek")) {
			struct iovec src[MAXFRAG];
			size_t left = vis, n = 0;
			int rc;
			for (i = 0; i < nfrag; i++) {
				if (i && !left) break;
				src[n].iov_base = fbase[i];
				src[n].iov_len = flen[i] < left ? flen[i] : left;
				left -= src[n].iov_len;
				n++;
			}
			rc = decs[v](&ds, src, op[0] == 'd' ? n : 0);
			vh_tok("D:%d|%d,%d,%zu,%zu,%zu,%zd|", rc, (int) (ds._ctx & 0xff), (int) ((ds._ctx >> 8) & 0xff),
			       (size_t) ds.curr, (size_t) ds.data.pos, (size_t) ds.data.len, (ssize_t) ds.data.msg);
			/* message bytes, read through the fragments */
			if (rc == 1 && ds.data.msg >= 0) {
				size_t a = ds.data.pos, k = ds.data.msg, o = 0;
				if (!k) vh_add("-");
				for (i = 0; i < (int) n && k; i++) {
					size_t j;
					for (j = 0; j < src[i].iov_len && k; j++, o++) {
						if (o >= a) { vh_add("%02x", ((uint8_t *) src[i].iov_base)[j]); k--; }
					}
				}
				if (k) vh_add("SHORT");
			} else vh_add("-");
			vh_add("|");
			{
				int any = 0;
				for (i = 0; i < (int) n; i++) if (src[i].iov_len) { vh_hex(src[i].iov_base, src[i].iov_len); any = 1; }
				if (!any) vh_add("-");
			}
		}
		else if (!strcmp(op, "reset")) {
			decs[v](&ds, 0, 0);
			vh_tok("-");
		}
		else if (!strcmp(op, "size")) {
			size_t n = vh_int(tok[t++]);
			vh_tok("N:%d", decs[v](&ds, 0, n));
		}
		else { vh_tok("?%s", op); break; }
	}
	for (i = 0; i < nfrag; i++) free(fbase[i]);
	free(all); free(stream);
}
int main(int argc, char **argv) { return vh_main(argc, argv, run_case); }
