/* C20 harness, C API: mpt_{axis,line,text,graph,world}_{set,get} on exact-size heap objects behind a
 * minimal object interface (so that mpt_object_set_string / mpt_object_set_value / mpt_object_set_property
 * drive them), mpt_property_match, mpt_color_parse.  Case language and tokens: c20_ops.h.
 * After the last operation both objects are finalised and LeakSanitizer is asked for leaks: final token Z / ZL. */
#include "common.h"
#include <errno.h>
#include "types.h"
#include "object.h"
#include "convert.h"
#include "meta.h"
#include "layout.h"
#include "values.h"

typedef MPT_INTERFACE(convertable) h_conv_t;
typedef MPT_INTERFACE(object) h_object_t;
#define H_PR_DECL(pr)        MPT_STRUCT(property) pr = MPT_PROPERTY_INIT
#define H_PR_TYPE(pr)        ((pr).val._type)
#define H_PR_ADDR(pr)        ((pr).val._addr)
#define H_VALUE_DECL(v)      MPT_STRUCT(value) v = MPT_VALUE_INIT(0, 0)
#define H_VALUE_SET(v, t, p) MPT_value_set(&(v), (t), (p))
#define H_IDENT_DECL(id)     MPT_STRUCT(identifier) id = MPT_IDENTIFIER_INIT

typedef int (*hconv_fn)(void *ctx, MPT_TYPE(type) type, void *dest);
struct hconv { MPT_INTERFACE(convertable) c; hconv_fn fn; void *ctx; };
static int hconv_call(MPT_INTERFACE(convertable) *c, MPT_TYPE(type) t, void *d)
{
	struct hconv *h = (struct hconv *) c;
	return h->fn(h->ctx, t, d);
}
static const MPT_INTERFACE_VPTR(convertable) hconv_vptr = { hconv_call };
#define H_CONV_DECL(h, f, x) struct hconv h = { { &hconv_vptr }, (f), (x) }
#define H_CONV_PTR(h)        (&(h).c)

#include "c20_ops.h"

struct cobj {
	MPT_INTERFACE(object) o;
	struct hobj h;
	struct hconv src;
	void *data;
};
static int c_get(struct hobj *h, MPT_STRUCT(property) *pr)
{
	struct cobj *c = (struct cobj *) h->impl;
	switch (h->kind) {
	case K_AXIS: return mpt_axis_get((MPT_STRUCT(axis) *) c->data, pr);
	case K_LINE: return mpt_line_get((MPT_STRUCT(line) *) c->data, pr);
	case K_TEXT: return mpt_text_get((MPT_STRUCT(text) *) c->data, pr);
	case K_GRAPH: return mpt_graph_get((MPT_STRUCT(graph) *) c->data, pr);
	default: return mpt_world_get((MPT_STRUCT(world) *) c->data, pr);
	}
}
static int c_set(struct hobj *h, const char *name, MPT_INTERFACE(convertable) *src)
{
	struct cobj *c = (struct cobj *) h->impl;
	switch (h->kind) {
	case K_AXIS: return mpt_axis_set((MPT_STRUCT(axis) *) c->data, name, src);
	case K_LINE: return mpt_line_set((MPT_STRUCT(line) *) c->data, name, src);
	case K_TEXT: return mpt_text_set((MPT_STRUCT(text) *) c->data, name, src);
	case K_GRAPH: return mpt_graph_set((MPT_STRUCT(graph) *) c->data, name, src);
	default: return mpt_world_set((MPT_STRUCT(world) *) c->data, name, src);
	}
}
static int o_get(const MPT_INTERFACE(object) *o, MPT_STRUCT(property) *pr)
{
	struct cobj *c = (struct cobj *) o;
	return c_get(&c->h, pr);
}
static int o_set(MPT_INTERFACE(object) *o, const char *name, MPT_INTERFACE(convertable) *src)
{
	struct cobj *c = (struct cobj *) o;
	return c_set(&c->h, name, src);
}
static const MPT_INTERFACE_VPTR(object) cobj_vptr = { o_get, o_set };

/* the object as an assignment source: hands out what a sibling of the same kind hands out
 * (pointer to the data for axis/text/graph/world, the value itself for line) */
static int c_source(void *ctx, MPT_TYPE(type) type, void *dest)
{
	struct cobj *c = (struct cobj *) ctx;
	int want;
	switch (c->h.kind) {
	case K_AXIS: want = mpt_axis_pointer_typeid(); break;
	case K_TEXT: want = mpt_text_pointer_typeid(); break;
	case K_GRAPH: want = mpt_graph_pointer_typeid(); break;
	case K_WORLD: want = mpt_world_pointer_typeid(); break;
	default:
		want = mpt_line_typeid();
		if (want > 0 && type == (MPT_TYPE(type)) want) {
			if (dest) memcpy(dest, c->data, sizeof(MPT_STRUCT(line)));
			return want;
		}
		return MPT_ERROR(BadType);
	}
	if (want > 0 && type == (MPT_TYPE(type)) want) {
		if (dest) *(void **) dest = c->data;
		return want;
	}
	return MPT_ERROR(BadType);
}
static struct cobj *c_new(int kind)
{
	struct cobj *c = (struct cobj *) malloc(sizeof(*c));
	c->o._vptr = &cobj_vptr;
	c->h.kind = kind;
	c->h.get = c_get;
	c->h.set = c_set;
	c->h.obj = &c->o;
	c->h.impl = c;
	c->src.c._vptr = &hconv_vptr;
	c->src.fn = c_source;
	c->src.ctx = c;
	c->h.source = &c->src.c;
	switch (kind) {
	case K_AXIS: c->data = malloc(sizeof(MPT_STRUCT(axis))); mpt_axis_init((MPT_STRUCT(axis) *) c->data, 0); break;
	case K_LINE: c->data = malloc(sizeof(MPT_STRUCT(line))); mpt_line_init((MPT_STRUCT(line) *) c->data); break;
	case K_TEXT: c->data = malloc(sizeof(MPT_STRUCT(text))); mpt_text_init((MPT_STRUCT(text) *) c->data, 0); break;
	case K_GRAPH: c->data = malloc(sizeof(MPT_STRUCT(graph))); mpt_graph_init((MPT_STRUCT(graph) *) c->data, 0); break;
	default: c->data = malloc(sizeof(MPT_STRUCT(world))); mpt_world_init((MPT_STRUCT(world) *) c->data, 0); break;
	}
	return c;
}
static void c_free(struct cobj *c)
{
	switch (c->h.kind) {
	case K_AXIS: mpt_axis_fini((MPT_STRUCT(axis) *) c->data); break;
	case K_TEXT: mpt_text_fini((MPT_STRUCT(text) *) c->data); break;
	case K_GRAPH: mpt_graph_fini((MPT_STRUCT(graph) *) c->data); break;
	case K_WORLD: mpt_world_fini((MPT_STRUCT(world) *) c->data); break;
	default: break;
	}
	free(c->data);
	free(c);
}

static void run_col(int ntok, char **tok)
{
	int isnull, r;
	char *txt = h_name(tok[3], &isnull);
	MPT_STRUCT(color) *c = (MPT_STRUCT(color) *) malloc(sizeof(*c));
	(void) ntok;
	c->alpha = 0x11; c->red = 0x22; c->green = 0x33; c->blue = 0x44;
	r = mpt_color_parse(c, txt);
	if (r < 0) vh_tok("E|%02x%02x%02x%02x", c->alpha, c->red, c->green, c->blue);
	else vh_tok("K|%02x%02x%02x%02x", c->alpha, c->red, c->green, c->blue);
	/* query mode (no target) must give the same verdict */
	r = mpt_color_parse(0, txt);
	vh_tok(r < 0 ? "qE" : "qK");
	free(c);
	free(txt);
}

static void run_case(int ntok, char **tok)
{
	int kind;
	if (ntok < 3) return;
	if (!strcmp(tok[2], "pm")) { h_run_pm(ntok, tok); return; }
	if (!strcmp(tok[2], "lat")) { h_run_lat(ntok, tok); return; }
	if (!strcmp(tok[2], "col")) { run_col(ntok, tok); return; }
	if ((kind = h_kind(tok[2])) < 0) { vh_tok("?kind"); return; }
	{
		struct cobj *a = c_new(kind), *b = c_new(kind);
		h_run_object_case(ntok, tok, &a->h, &b->h);
		c_free(a);
		c_free(b);
		vh_tok(__lsan_do_recoverable_leak_check() ? "ZL" : "Z");
	}
}
int main(int argc, char **argv)
{
	/* register the dynamic types in a fixed order before the first fork */
	mpt_color_typeid(); mpt_lattr_typeid(); mpt_fpoint_typeid(); mpt_line_typeid();
	mpt_axis_pointer_typeid(); mpt_text_pointer_typeid(); mpt_graph_pointer_typeid(); mpt_world_pointer_typeid();
	return vh_main(argc, argv, run_case);
}
