/* C06 harness: drives the process-global type registry of mptcore/types/type_traits.c.
 * Every case runs in a forked child (common.h); the parent never calls into the
 * registry, so each case starts from the pristine globals.
 *
 * Case line:  <id> <op> <args> ...      strings: "-" = NULL, "%" = "", '_' = ' '
 *   ba <size>            mpt_type_basic_add            -> I:<id hex> | R:<code>
 *   ga <size> <flags>    mpt_type_add(fresh traits)    -> I:<id> | R:<code>      (flags: 1 init, 2 fini)
 *   ga null              mpt_type_add(0)
 *   ia <name> / ma <name> mpt_type_interface_add / mpt_type_metatype_add
 *                                                      -> E:<type>:<name>:<size>:<init?><fini?> | R:<errno>
 *   baN/gaN <n> <size>, iaN/maN <n> <prefix>   n registrations (names <prefix><i>), folded into
 *                        N:<accepted>:<first id>:<last id>:<c|n>:<first refusal or ->
 *   lt <id>              mpt_type_traits               -> N | T:<size>:<i><f>[:g<k>]   (k: k-th ga traits object)
 *   li <id> / lm <id>    mpt_interface_traits / mpt_metatype_traits -> E:... | R:<errno>
 *   ln <name> <len>      mpt_named_traits              -> E:... | R:<errno>
 *   al <desc> <0|1>      mpt_alias_typeid(desc, end?)  -> A:<id>:<end offset or -> | R:<code>
 *   ti/tu <n>, vs/vt <fmt>, vc <type>   type_int.c / msgvalfmt.c -> V:<n> | R:<code>
 *   fin                  process exit: the clean-up functions type_traits.c registered with atexit are run in
 *                        the order exit() would run them (reverse registration order; atexit and free are seams);
 *                        all live blocks reachable from the statics are listed beforehand, every free is logged:
 *                        X:<blocks not freed>:<blocks freed twice>:<frees of anything else>:<all statics reset? 1|0>
 *                          :<registered interface entries freed>:<registered metatype entries freed>:<generic chunks freed>
 *                        operations after "fin" see the registry a later exit handler would see (a fresh one)
 *   sw                   sweep: W:<run-length list of mpt_type_traits(id) for id 0..0x1100>
 *                               |X:<id>=<entry>><id by full name>/<id by exact length>,... for every id of the
 *                                  interface and metatype ranges that has an entry
 *                               |Z:<interface_pos>:<dynamic_pos>:<used of meta chunks>:<used of generic chunks>
 * A pointer that differs from the one seen earlier for the same id adds "!moved". */
#include "common.h"
#include <errno.h>
/* buffered variants of vh_tok/vh_add (a sweep emits thousands of pieces); flushed after every operation */
static void c06_tok(const char *fmt, ...)
{
	va_list ap;
	fputc(' ', stdout);
	va_start(ap, fmt);
	vfprintf(stdout, fmt, ap);
	va_end(ap);
}
static void c06_add(const char *fmt, ...)
{
	va_list ap;
	va_start(ap, fmt);
	vfprintf(stdout, fmt, ap);
	va_end(ap);
}
#define vh_tok c06_tok
#define vh_add c06_add
/* seams for the exit path: atexit() calls of type_traits.c are recorded (the forked child ends with _exit,
 * the op "fin" runs the recorded functions the way exit() would), its free() calls are logged */
#define C06_MAXH 64
#define C06_MAXF 16384
static void (*c06_handlers[C06_MAXH])(void);
static int c06_nhandlers = 0;
static const void *c06_freed[C06_MAXF];
static int c06_nfreed = 0, c06_logging = 0;
static int c06_atexit(void (*fn)(void))
{
	if (c06_nhandlers >= C06_MAXH) return -1;
	c06_handlers[c06_nhandlers++] = fn;
	return 0;
}
static void c06_free(void *p)
{
	if (c06_logging && p && c06_nfreed < C06_MAXF) c06_freed[c06_nfreed++] = p;
	free(p);
}
#define atexit c06_atexit
#define free c06_free
#include "types/type_traits.c"   /* found through -I <tree>/mptcore: gives access to the static tables */
#undef atexit
#undef free
#include "message.h"

#define POOL 4200
static MPT_STRUCT(type_traits) pool[POOL];
static int pool_used = 0;
static int d_init(void *p, const void *s) { (void) p; (void) s; return 0; }
static void d_fini(void *p) { (void) p; }

#define SEEN 0x1101
static const void *seen_traits[SEEN];
static const void *seen_named[SEEN];

static const char *untok(const char *s, char *buf)
{
	size_t i;
	if (!strcmp(s, "-")) return 0;
	if (!strcmp(s, "%")) { buf[0] = 0; return buf; }
	for (i = 0; s[i]; i++) buf[i] = s[i] == '_' ? ' ' : s[i];
	buf[i] = 0;
	return buf;
}
static void put_name(const char *n)
{
	if (!n) { vh_add("-"); return; }
	if (!*n) { vh_add("%%"); return; }
	for (; *n; n++) vh_add("%c", *n == ' ' ? '_' : *n);
}
static const char *errno_name(void)
{
	switch (errno) {
	  case EINVAL: return "EINVAL";
	  case ENOMEM: return "ENOMEM";
	  case EAGAIN: return "EAGAIN";
	  default: return "E?";
	}
}
/* describe traits: T:<size>:<i><f>[:g<k> | :d<k-id>] */
static void put_traits(const MPT_STRUCT(type_traits) *t, int head, long rel)
{
	if (!t) { vh_add("N"); return; }
	vh_add("%s%zu:%d%d", head ? "T:" : "", t->size, t->init ? 1 : 0, t->fini ? 1 : 0);
	if (t >= pool && t < pool + POOL) {
		if (rel < 0) vh_add(":g%ld", (long) (t - pool));
		else vh_add(":d%ld", (long) (t - pool) - rel);
	}
}
static void check_moved(const void **tab, uintptr_t id, const void *p)
{
	if (!p || id >= SEEN) return;
	if (tab[id] && tab[id] != p) vh_add("!moved");
	tab[id] = p;
}
static void put_named(const MPT_STRUCT(named_traits) *e)
{
	if (!e) { vh_add("R:%s", errno_name()); return; }
	vh_add("E:%lx:", (unsigned long) e->type);
	put_name(e->name);
	vh_add(":");
	put_traits(e->traits, 0, -1);
	check_moved(seen_named, e->type, e);
	check_moved(seen_traits, e->type, e->traits);
}
static const MPT_STRUCT(type_traits) *fresh_traits(size_t size, int flags)
{
	MPT_STRUCT(type_traits) t = { 0, 0, 0 };
	MPT_STRUCT(type_traits) *p;
	if (pool_used >= POOL) { vh_tok("?pool"); exit(0); }
	p = &pool[pool_used++];
	*((size_t *) &t.size) = size;
	if (flags & 1) *((int (**)(void *, const void *)) &t.init) = d_init;
	if (flags & 2) *((void (**)(void *)) &t.fini) = d_fini;
	memcpy(p, &t, sizeof(t));
	return p;
}
/* folded output of repeated registrations */
struct rep { long n, first, last; int consec; char refusal[64]; };
static void rep_init(struct rep *r) { r->n = 0; r->first = r->last = -1; r->consec = 1; r->refusal[0] = 0; }
static void rep_id(struct rep *r, long id)
{
	if (!r->n) r->first = id;
	else if (id != r->last + 1) r->consec = 0;
	r->last = id;
	r->n++;
}
static void rep_put(const struct rep *r)
{
	vh_tok("N:%ld:", r->n);
	if (r->n) vh_add("%lx:%lx", r->first, r->last); else vh_add("-:-");
	vh_add(":%c:%s", r->consec ? 'c' : 'n', r->refusal[0] ? r->refusal : "-");
}
static void opt_id(const MPT_STRUCT(named_traits) *e)
{
	if (e) vh_add("%lx", (unsigned long) e->type); else vh_add("-");
}
static void sweep_named(uintptr_t from, uintptr_t to, int meta, int *first)
{
	uintptr_t id;
	for (id = from; id <= to; id++) {
		const MPT_STRUCT(named_traits) *e = meta ? mpt_metatype_traits(id) : mpt_interface_traits(id);
		if (!e) continue;
		vh_add("%s%lx=", *first ? "" : ",", (unsigned long) id);
		*first = 0;
		put_named(e);
		vh_add(">");
		opt_id(mpt_named_traits(e->name, -1));
		vh_add("/");
		opt_id(mpt_named_traits(e->name, e->name ? (int) strlen(e->name) : 0));
	}
}
static void sweep(void)
{
	/* run-length list over ids 0..0x1100; descriptions are rendered into a buffer to compare */
	char cur[96], prev[96];
	unsigned long id, start = 0;
	int first = 1, any = 0;
	vh_tok("W:");
	prev[0] = 0;
	for (id = 0; id <= 0x1100; id++) {
		const MPT_STRUCT(type_traits) *t = mpt_type_traits(id);
		if (!t) strcpy(cur, "N");
		else {
			int n = snprintf(cur, sizeof(cur), "T:%zu:%d%d", t->size, t->init ? 1 : 0, t->fini ? 1 : 0);
			if (t >= pool && t < pool + POOL) snprintf(cur + n, sizeof(cur) - n, ":d%ld", (long) (t - pool) - (long) id);
			if (seen_traits[id] && seen_traits[id] != t) strcat(cur, "!moved");
			seen_traits[id] = t;
		}
		if (any && strcmp(cur, prev)) {
			vh_add("%s%lx-%lx=%s", first ? "" : ",", start, id - 1, prev);
			first = 0;
			start = id;
		}
		strcpy(prev, cur);
		any = 1;
	}
	vh_add("%s%lx-%lx=%s", first ? "" : ",", start, id - 1, prev);
	vh_add("|X:");
	first = 1;
	sweep_named(MPT_ENUM(_TypeInterfaceBase), MPT_ENUM(_TypeInterfaceMax), 0, &first);
	sweep_named(MPT_ENUM(_TypeMetaPtrBase), MPT_ENUM(_TypeMetaPtrMax), 1, &first);
	/* mechanism state, read from the static variables themselves */
	vh_add("|Z:%d:%d:", interface_pos, dynamic_pos);
	{
		const struct named_traits_chunk *m;
		const struct generic_traits_chunk *g;
		for (m = meta_types; m; m = m->next) vh_add("%s%d", m == meta_types ? "" : ".", m->used);
		vh_add(":");
		for (g = generic_types; g; g = g->next) vh_add("%s%d", g == generic_types ? "" : ".", g->used);
	}
}
/* process exit */
static void do_fini(void)
{
	static const void *snap[C06_MAXF];
	void (*run[C06_MAXH])(void);
	int ns = 0, i, j, n, leaked = 0, twice = 0, other = 0, pristine;
	long ie = 0, me = 0, gc = 0;
	const struct named_traits_chunk *m;
	const struct generic_traits_chunk *g;
	/* every block the registry owns, found from the statics (independent of the clean-up code) */
	if (core_types) snap[ns++] = core_types;
	if (scalar_types) snap[ns++] = scalar_types;
	if (iovec_types) snap[ns++] = iovec_types;
	if (dynamic_types) snap[ns++] = dynamic_types;
	if (interface_types) {
		snap[ns++] = interface_types;
		for (i = 0; i < TypeInterfaceSize; i++) {
			if (!interface_types[i]) continue;
			snap[ns++] = interface_types[i];
			if (i >= MPT_ENUM(_TypeInterfaceAdd) - MPT_ENUM(_TypeInterfaceBase)) ie++;
		}
	}
	for (m = meta_types; m; m = m->next) {
		snap[ns++] = m;
		for (i = 0; i < m->used && ns < C06_MAXF; i++) { snap[ns++] = m->traits[i]; me++; }
	}
	if (me) me--;   /* the base metatype is built in */
	for (g = generic_types; g; g = g->next) { snap[ns++] = g; gc++; }
	/* what exit() does with the registered functions */
	n = c06_nhandlers;
	memcpy(run, c06_handlers, sizeof(run));
	c06_nhandlers = 0;
	c06_nfreed = 0;
	c06_logging = 1;
	for (i = n - 1; i >= 0; i--) run[i]();
	c06_logging = 0;
	for (i = 0; i < ns; i++) {
		int hits = 0;
		for (j = 0; j < c06_nfreed; j++) if (c06_freed[j] == snap[i]) hits++;
		if (!hits) leaked++;
		if (hits > 1) twice++;
	}
	for (j = 0; j < c06_nfreed; j++) {
		int known = 0;
		for (i = 0; i < ns; i++) if (c06_freed[j] == snap[i]) { known = 1; break; }
		if (!known) other++;
	}
	pristine = !core_types && !scalar_types && !iovec_types && !dynamic_types && !dynamic_pos
	        && !interface_types && !interface_pos && !meta_types && !generic_types;
	vh_tok("X:%d:%d:%d:%d:%ld:%ld:%ld", leaked, twice, other, pristine, ie, me, gc);
	/* pointers of the life that just ended mean nothing any more */
	memset(seen_traits, 0, sizeof(seen_traits));
	memset(seen_named, 0, sizeof(seen_named));
}
static void run_case(int ntok, char **tok)
{
	static char buf[4096], nm[4200];
	int t = 1;
	while (t < ntok) {
		const char *op = tok[t++];
		if (!strcmp(op, "ba")) {
			int r = mpt_type_basic_add(vh_u64(tok[t++]));
			if (r < 0) vh_tok("R:%d", r); else vh_tok("I:%x", r);
		}
		else if (!strcmp(op, "ga")) {
			int r;
			if (!strcmp(tok[t], "null")) { t++; r = mpt_type_add(0); }
			else {
				size_t sz = vh_u64(tok[t++]);
				int fl = vh_int(tok[t++]);
				r = mpt_type_add(fresh_traits(sz, fl));
			}
			if (r < 0) vh_tok("R:%d", r); else vh_tok("I:%x", r);
		}
		else if (!strcmp(op, "ia") || !strcmp(op, "ma")) {
			const char *n = untok(tok[t++], buf);
			const MPT_STRUCT(named_traits) *e;
			errno = 0;
			e = op[0] == 'i' ? mpt_type_interface_add(n) : mpt_type_metatype_add(n);
			vh_tok("");
			put_named(e);
		}
		else if (!strcmp(op, "baN") || !strcmp(op, "gaN")) {
			long i, n = vh_int(tok[t++]);
			size_t sz = vh_u64(tok[t++]);
			struct rep rp;
			rep_init(&rp);
			for (i = 0; i < n; i++) {
				int r = op[0] == 'b' ? mpt_type_basic_add(sz) : mpt_type_add(fresh_traits(sz, 0));
				if (r >= 0) rep_id(&rp, r);
				else if (!rp.refusal[0]) snprintf(rp.refusal, sizeof(rp.refusal), "R:%d", r);
			}
			rep_put(&rp);
		}
		else if (!strcmp(op, "iaN") || !strcmp(op, "maN")) {
			long i, n = vh_int(tok[t++]);
			const char *pre = untok(tok[t++], buf);
			struct rep rp;
			rep_init(&rp);
			for (i = 0; i < n; i++) {
				const MPT_STRUCT(named_traits) *e;
				snprintf(nm, sizeof(nm), "%s%ld", pre ? pre : "", i);
				errno = 0;
				e = op[0] == 'i' ? mpt_type_interface_add(nm) : mpt_type_metatype_add(nm);
				if (e) rep_id(&rp, e->type);
				else if (!rp.refusal[0]) snprintf(rp.refusal, sizeof(rp.refusal), "R:%s", errno_name());
			}
			rep_put(&rp);
		}
		else if (!strcmp(op, "lt")) {
			uintptr_t id = vh_u64(tok[t++]);
			const MPT_STRUCT(type_traits) *tr = mpt_type_traits(id);
			vh_tok("");
			put_traits(tr, 1, -1);
			check_moved(seen_traits, id, tr);
		}
		else if (!strcmp(op, "li") || !strcmp(op, "lm")) {
			uintptr_t id = vh_u64(tok[t++]);
			errno = 0;
			vh_tok("");
			put_named(op[1] == 'i' ? mpt_interface_traits(id) : mpt_metatype_traits(id));
		}
		else if (!strcmp(op, "ln")) {
			const char *n = untok(tok[t++], buf);
			int len = vh_int(tok[t++]);
			errno = 0;
			vh_tok("");
			put_named(mpt_named_traits(n, len));
		}
		else if (!strcmp(op, "al")) {
			const char *d = untok(tok[t++], buf);
			int want = vh_int(tok[t++]);
			const char *end = 0;
			int r = mpt_alias_typeid(d, want ? &end : 0);
			if (r < 0) vh_tok("R:%d", r);
			else if (want && end) vh_tok("A:%x:%ld", r, (long) (end - d));
			else vh_tok("A:%x:-", r);
		}
		else if (!strcmp(op, "ti")) vh_tok("V:%d", (int) mpt_type_int(vh_u64(tok[t++])));
		else if (!strcmp(op, "tu")) vh_tok("V:%d", (int) mpt_type_uint(vh_u64(tok[t++])));
		else if (!strcmp(op, "vs")) vh_tok("V:%zu", mpt_msgvalfmt_size((uint8_t) vh_int(tok[t++])));
		else if (!strcmp(op, "vt")) {
			int r = mpt_msgvalfmt_typeid((uint8_t) vh_int(tok[t++]));
			if (r < 0) vh_tok("R:%d", r); else vh_tok("V:%d", r);
		}
		else if (!strcmp(op, "vc")) vh_tok("V:%d", mpt_msgvalfmt_code(vh_int(tok[t++])));
		else if (!strcmp(op, "sw")) sweep();
		else if (!strcmp(op, "fin")) do_fini();
		else { vh_tok("?%s", op); break; }
		fflush(stdout);
	}
}
int main(int argc, char **argv) { return vh_main(argc, argv, run_case); }
