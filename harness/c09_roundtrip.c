/* C09 harness: parses a printed configuration text with mpt_parse_node into an empty
 * tree and dumps the resulting tree canonically (names through mpt_node_ident, values
 * through the metatype's conversion, child order, link consistency).
 * Case line:   <id> <fmt> <accept> <text>     (written by ml/c09_driver.ml from the tree + decoration)
 * Tokens:      t<text length>.<hash>  r<return code>  d<tree>  L<leak verdict>
 *
 * Second family (the value store behind a node, mptcore/meta/meta_new.c, meta_geninfo.c, array/meta_buffer.c):
 * Case line:   <id> m <value> <op> ...        value as comma separated chunks <hex> | <hexbyte>*<count>, "-" = empty
 *   newv / news / newi   mpt_meta_new from a vector of char (what the parser hands over) / a string pointer / an int
 *   newg / newb          mpt_meta_geninfo + _mpt_geninfo_set / mpt_meta_buffer over an array with the text and no terminator
 *   kind str vec iter self buf ref   the conversions 0, 's', vector of char, iterator, metatype, buffer and addref
 *   clone                replace the metatype by its clone
 * one token per operation, L<leak verdict> at the end
 */
#include "common.h"
#include <sys/uio.h>
#include "meta.h"
#include "node.h"
#include "config.h"
#include "types.h"
#include "parse.h"
#include "array.h"

int __lsan_do_recoverable_leak_check(void);

struct input { const uint8_t *d; size_t len, pos; long calls; };
static int in_getc(void *arg)
{
	struct input *in = arg;
	++in->calls;
	if (in->pos >= in->len) return -2;
	return in->d[in->pos++];
}
static uint32_t fnv(const uint8_t *b, size_t n)
{
	uint32_t h = 2166136261u;
	size_t i;
	for (i = 0; i < n; i++) { h ^= b[i]; h *= 16777619u; }
	return h;
}
static void abbr(const void *p, size_t n)
{
	if (n <= 20) { size_t i; for (i = 0; i < n; i++) vh_add("%02x", ((const uint8_t *) p)[i]); }
	else vh_add("#%zu.%08x", n, fnv(p, n));
}
/* exact-size heap copy of a C string given as "N" or "s<hex>" */
static char *cstr(const char *tok)
{
	size_t n; uint8_t *b; char *s;
	if (!strcmp(tok, "N")) return 0;
	b = vh_unhex(tok[1] ? tok + 1 : "-", &n);
	s = malloc(n + 1);
	memcpy(s, b, n);
	s[n] = 0;
	free(b);
	return s;
}
static uint8_t *parse_input(const char *s, size_t *len)
{
	size_t cap = 64, n = 0;
	uint8_t *d = malloc(cap);
	if (!strcmp(s, "-")) { *len = 0; return d; }
	while (*s) {
		const char *e = strchr(s, ',');
		size_t l = e ? (size_t) (e - s) : strlen(s);
		const char *st = memchr(s, '*', l);
		if (st) {
			unsigned v; size_t cnt = strtoul(st + 1, 0, 10), i;
			sscanf(s, "%2x", &v);
			while (n + cnt > cap) d = realloc(d, cap *= 2);
			for (i = 0; i < cnt; i++) d[n++] = v;
		} else {
			size_t i;
			while (n + l / 2 > cap) d = realloc(d, cap *= 2);
			for (i = 0; i + 1 < l; i += 2) { unsigned v; sscanf(s + i, "%2x", &v); d[n++] = v; }
		}
		s += l;
		if (*s == ',') ++s;
	}
	/* exact size so that ASan sees reads behind the input */
	{ uint8_t *x = malloc(n ? n : 1); memcpy(x, d, n); free(d); d = x; }
	*len = n;
	return d;
}
static int empty_value(const MPT_STRUCT(node) *n)
{
	MPT_INTERFACE(convertable) *c = (MPT_INTERFACE(convertable) *) n->_meta;
	struct iovec vec; const char *s = 0;
	if (c->_vptr->convert(c, MPT_type_toVector('c'), &vec) >= 0) {
		size_t l = vec.iov_len;
		if (l && !((const char *) vec.iov_base)[l - 1]) --l;
		return !l;
	}
	if (c->_vptr->convert(c, 's', &s) >= 0) return !s || !*s;
	return 0;
}
static void dump_forest(const MPT_STRUCT(node) *parent)
{
	const MPT_STRUCT(node) *n, *prev = 0;
	for (n = parent->children; n; prev = n, n = n->next) {
		const char *id = mpt_node_ident(n);
		vh_add("(x");
		if (id) abbr(id, n->ident._len - 1);
		vh_add(",");
		if (!n->_meta) vh_add("n");
		else if (empty_value(n)) vh_add("n");   /* an empty value is no value */
		else {
			MPT_INTERFACE(convertable) *c = (MPT_INTERFACE(convertable) *) n->_meta;
			struct iovec vec; const char *s = 0;
			vh_add("v");
			/* all stored bytes (a value can hold a NUL the input had), without the terminator */
			if (c->_vptr->convert(c, MPT_type_toVector('c'), &vec) >= 0) {
				size_t l = vec.iov_len;
				MPT_INTERFACE(iterator) *it = 0;
				if (l && !((const char *) vec.iov_base)[l - 1]) --l;
				abbr(vec.iov_base, l);
				/* the other views a metatype answers show the same text */
				if (c->_vptr->convert(c, 's', &s) >= 0 && (!s || strlen(s) != l || memcmp(s, vec.iov_base, l))) vh_add("!str");
				if (c->_vptr->convert(c, MPT_ENUM(TypeIteratorPtr), &it) >= 0 && it) {
					const MPT_STRUCT(value) *v = it->_vptr->value(it);
					const char *x = (v && v->_type == 's') ? *(const char * const *) v->_addr : 0;
					if (!x || strlen(x) != l || memcmp(x, vec.iov_base, l) || it->_vptr->advance(it) > 0) vh_add("!iter");
					it->_vptr->reset(it);
				}
			}
			else if (c->_vptr->convert(c, 's', &s) >= 0) { if (s) abbr(s, strlen(s)); }
			else vh_add("?");
		}
		vh_add(",");
		/* link consistency, read directly */
		if (n->parent != parent || n->prev != prev) vh_add("!links");
		dump_forest(n);
		vh_add(")");
	}
}

/* ---- the metatype behind a value */
static void show_bytes(const void *p, size_t n) { if (!n) vh_add("-"); else abbr(p, n); }
static void run_meta(int ntok, char **tok)
{
	MPT_INTERFACE(metatype) *mt = 0;
	size_t len; int i;
	uint8_t *raw = parse_input(tok[2], &len);
	char *txt = malloc(len + 1);        /* exact size: the text and its terminator */
	memcpy(txt, raw, len); txt[len] = 0;
	free(raw);
	for (i = 3; i < ntok; i++) {
		const char *op = tok[i];
		MPT_INTERFACE(convertable) *c = (MPT_INTERFACE(convertable) *) mt;
		if (!strncmp(op, "new", 3)) {
			MPT_STRUCT(value) val; struct iovec vec; const char *sp = txt; int32_t num = 42;
			if (mt) { mt->_vptr->unref(mt); mt = 0; }
			if (op[3] == 'v') {
				/* no terminator behind the bytes, as in the path buffer of the parser */
				vec.iov_base = malloc(len ? len : 1); vec.iov_len = len;
				memcpy(vec.iov_base, txt, len);
				MPT_value_set(&val, MPT_type_toVector('c'), &vec);
				mt = mpt_meta_new(&val);
				free(vec.iov_base);
			}
			else if (op[3] == 's') { MPT_value_set(&val, 's', &sp); mt = mpt_meta_new(&val); }
			else if (op[3] == 'g') {
				/* the basic metatype itself: room for the text, then the text */
				if ((mt = mpt_meta_geninfo(len)) && _mpt_geninfo_set(mt + 1, txt, (int) len) < 0) { mt->_vptr->unref(mt); mt = 0; }
			}
			else if (op[3] == 'b') {
				/* buffer metatype over an array holding the text WITHOUT terminator */
				MPT_STRUCT(array) a = MPT_ARRAY_INIT;
				const MPT_STRUCT(type_traits) *traits = mpt_type_traits('c');
				MPT_STRUCT(buffer) *b = len ? mpt_array_reserve(&a, len, traits) : 0;
				if (b && mpt_buffer_set(b, traits, 0, txt, len) < 0) vh_tok("?set");
				mt = mpt_meta_buffer(&a);
				mpt_array_clone(&a, 0);
			}
			else { MPT_value_set(&val, 'i', &num); mt = mpt_meta_new(&val); }
			vh_tok("N%d", mt ? 1 : 0);
			continue;
		}
		if (!mt) { vh_tok("X"); continue; }
		if (!strcmp(op, "kind")) {
			const uint8_t *f = 0; int r = c->_vptr->convert(c, 0, &f);
			vh_tok("K%d:", r);
			if (f) while (*f) vh_add("%02x", *f++);
		}
		else if (!strcmp(op, "str")) {
			const char *sp = "?"; int r = c->_vptr->convert(c, 's', &sp);
			if (r < 0) vh_tok("S!%d", r);
			else { vh_tok("S"); if (!sp) vh_add("null"); else show_bytes(sp, strlen(sp)); }
		}
		else if (!strcmp(op, "vec")) {
			struct iovec vec = { 0, 0 }; int r = c->_vptr->convert(c, MPT_type_toVector('c'), &vec);
			if (r < 0) vh_tok("V!%d", r);
			else {
				size_t l = vec.iov_len;
				vh_tok("V%zu:", l);
				if (l && !((const char *) vec.iov_base)[l - 1]) --l;
				show_bytes(vec.iov_base, l);
			}
		}
		else if (!strcmp(op, "iter")) {
			MPT_INTERFACE(iterator) *it = 0; int r = c->_vptr->convert(c, MPT_ENUM(TypeIteratorPtr), &it);
			if (r < 0 || !it) vh_tok("I!%d", r);
			else {
				int n = 0, a = -99;
				vh_tok("I");
				do {
					const MPT_STRUCT(value) *v = it->_vptr->value(it);
					if (n) vh_add(",");
					if (!v) { vh_add("none"); break; }
					if (v->_type == 's') { const char *x = *(const char * const *) v->_addr; vh_add("s"); if (x) show_bytes(x, strlen(x)); else vh_add("null"); }
					else if (v->_type == MPT_type_toVector('c')) { const struct iovec *x = v->_addr; vh_add("v"); show_bytes(x->iov_base, x->iov_len); }
					else vh_add("t%d", (int) v->_type);
				} while (++n < 64 && (a = it->_vptr->advance(it)) > 0);
				vh_add("/%d", n < 64 ? a : 99);
				vh_add("/%d", it->_vptr->reset(it));
			}
		}
		else if (!strcmp(op, "self")) {
			void *p = 0; int r = c->_vptr->convert(c, MPT_ENUM(TypeMetaPtr), &p);
			vh_tok("P%d", r >= 0 && p == (void *) mt);
		}
		else if (!strcmp(op, "buf")) {
			const MPT_STRUCT(buffer) *b = 0; int r = c->_vptr->convert(c, MPT_ENUM(TypeBufferPtr), &b);
			if (r < 0) vh_tok("B!%d", r); else vh_tok("B%zu", b ? b->_used : (size_t) 0);
		}
		else if (!strcmp(op, "ref")) vh_tok("R%d", (int) mt->_vptr->addref(mt));
		else if (!strcmp(op, "clone")) {
			MPT_INTERFACE(metatype) *cl = mt->_vptr->clone(mt);
			mt->_vptr->unref(mt);
			mt = cl;
			vh_tok("C%d", mt ? 1 : 0);
		}
		else vh_tok("?");
	}
	if (mt) mt->_vptr->unref(mt);
	free(txt);
	vh_tok("L%d", __lsan_do_recoverable_leak_check() ? 1 : 0);
}

static void run_case(int ntok, char **tok)
{
	char *fmt, *acc;
	struct input in;
	MPT_STRUCT(parser_context) parse = MPT_PARSER_INIT;
	MPT_STRUCT(node) root = MPT_NODE_INIT;
	int ret;
	if (ntok < 4) return;
	if (!strcmp(tok[1], "m")) { run_meta(ntok, tok); return; }
	fmt = cstr(tok[1]);
	acc = cstr(tok[2]);
	mpt_parse_accept(&parse.name, acc);
	in.d = parse_input(tok[3], &in.len);
	in.pos = 0; in.calls = 0;
	parse.src.getc = in_getc;
	parse.src.arg = &in;
	vh_tok("t%zu.%08x", in.len, fnv(in.d, in.len));
	ret = mpt_parse_node(&root, &parse, fmt);
	vh_tok("r%d", ret);
	vh_tok("d"); dump_forest(&root);
	mpt_node_clear(&root);
	free((void *) in.d);
	free(fmt); free(acc);
	in.d = 0; fmt = acc = 0;
	vh_tok("L%d", __lsan_do_recoverable_leak_check() ? 1 : 0);
}
int main(int c, char **v) { return vh_main(c, v, run_case); }
