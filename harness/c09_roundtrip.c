/* C09 harness: parses a printed configuration text with mpt_parse_node into an empty
 * tree and dumps the resulting tree canonically (names through mpt_node_ident, values
 * through the metatype's conversion, child order, link consistency).
 * Case line:   <id> <fmt> <accept> <text>     (written by ml/c09_driver.ml from the tree + decoration)
 * Tokens:      t<text length>.<hash>  r<return code>  d<tree>  L<leak verdict>
 */
#include "common.h"
#include <sys/uio.h>
#include "meta.h"
#include "node.h"
#include "config.h"
#include "types.h"
#include "parse.h"

int __lsan_do_recoverable_leak_check(void);

struct input { const uint8_t *d; size_t len, pos; long calls; };
static int in_getc(void *arg)
{
	struct input *in = arg;
	++in->calls;
	if (in->pos >= in->len) return -2;
	return in->d[in->pos++];
}
static uint32_t fnv(const uint8_t *b, size_t n)
{
	uint32_t h = 2166136261u;
	size_t i;
	for (i = 0; i < n; i++) { h ^= b[i]; h *= 16777619u; }
	return h;
}
static void abbr(const void *p, size_t n)
{
	if (n <= 20) { size_t i; for (i = 0; i < n; i++) vh_add("%02x", ((const uint8_t *) p)[i]); }
	else vh_add("#%zu.%08x", n, fnv(p, n));
}
/* exact-size heap copy of a C string given as "N" or "s<hex>" */
static char *cstr(const char *tok)
{
	size_t n; uint8_t *b; char *s;
	if (!strcmp(tok, "N")) return 0;
	b = vh_unhex(tok[1] ? tok + 1 : "-", &n);
	s = malloc(n + 1);
	memcpy(s, b, n);
	s[n] = 0;
	free(b);
	return s;
}
static uint8_t *parse_input(const char *s, size_t *len)
{
	size_t cap = 64, n = 0;
	uint8_t *d = malloc(cap);
	if (!strcmp(s, "-")) { *len = 0; return d; }
	while (*s) {
		const char *e = strchr(s, ',');
		size_t l = e ? (size_t) (e - s) : strlen(s);
		const char *st = memchr(s, '*', l);
		if (st) {
			unsigned v; size_t cnt = strtoul(st + 1, 0, 10), i;
			sscanf(s, "%2x", &v);
			while (n + cnt > cap) d = realloc(d, cap *= 2);
			for (i = 0; i < cnt; i++) d[n++] = v;
		} else {
			size_t i;
			while (n + l / 2 > cap) d = realloc(d, cap *= 2);
			for (i = 0; i + 1 < l; i += 2) { unsigned v; sscanf(s + i, "%2x", &v); d[n++] = v; }
		}
		s += l;
		if (*s == ',') ++s;
	}
	/* exact size so that ASan sees reads behind the input */
	{ uint8_t *x = malloc(n ? n : 1); memcpy(x, d, n); free(d); d = x; }
	*len = n;
	return d;
}
static int empty_value(const MPT_STRUCT(node) *n)
{
	MPT_INTERFACE(convertable) *c = (MPT_INTERFACE(convertable) *) n->_meta;
	struct iovec vec; const char *s = 0;
	if (c->_vptr->convert(c, MPT_type_toVector('c'), &vec) >= 0) {
		size_t l = vec.iov_len;
		if (l && !((const char *) vec.iov_base)[l - 1]) --l;
		return !l;
	}
	if (c->_vptr->convert(c, 's', &s) >= 0) return !s || !*s;
	return 0;
}
static void dump_forest(const MPT_STRUCT(node) *parent)
{
	const MPT_STRUCT(node) *n, *prev = 0;
	for (n = parent->children; n; prev = n, n = n->next) {
		const char *id = mpt_node_ident(n);
		vh_add("(x");
		if (id) abbr(id, n->ident._len - 1);
		vh_add(",");
		if (!n->_meta) vh_add("n");
		else if (empty_value(n)) vh_add("n");   /* an empty value is no value */
		else {
			MPT_INTERFACE(convertable) *c = (MPT_INTERFACE(convertable) *) n->_meta;
			struct iovec vec; const char *s = 0;
			vh_add("v");
			/* all stored bytes (a value can hold a NUL the input had), without the terminator */
			if (c->_vptr->convert(c, MPT_type_toVector('c'), &vec) >= 0) {
				size_t l = vec.iov_len;
				if (l && !((const char *) vec.iov_base)[l - 1]) --l;
				abbr(vec.iov_base, l);
			}
			else if (c->_vptr->convert(c, 's', &s) >= 0) { if (s) abbr(s, strlen(s)); }
			else vh_add("?");
		}
		vh_add(",");
		/* link consistency, read directly */
		if (n->parent != parent || n->prev != prev) vh_add("!links");
		dump_forest(n);
		vh_add(")");
	}
}

static void run_case(int ntok, char **tok)
{
	char *fmt, *acc;
	struct input in;
	MPT_STRUCT(parser_context) parse = MPT_PARSER_INIT;
	MPT_STRUCT(node) root = MPT_NODE_INIT;
	int ret;
	if (ntok < 4) return;
	fmt = cstr(tok[1]);
	acc = cstr(tok[2]);
	mpt_parse_accept(&parse.name, acc);
	in.d = parse_input(tok[3], &in.len);
	in.pos = 0; in.calls = 0;
	parse.src.getc = in_getc;
	parse.src.arg = &in;
	vh_tok("t%zu.%08x", in.len, fnv(in.d, in.len));
	ret = mpt_parse_node(&root, &parse, fmt);
	vh_tok("r%d", ret);
	vh_tok("d"); dump_forest(&root);
	mpt_node_clear(&root);
	free((void *) in.d);
	free(fmt); free(acc);
	in.d = 0; fmt = acc = 0;
	vh_tok("L%d", __lsan_do_recoverable_leak_check() ? 1 : 0);
}
int main(int c, char **v) { return vh_main(c, v, run_case); }
