/* c20_probe.c — regenerates coq/C20/Gen_Layout.v from the CURRENT source tree.
 *
 * For each layout object kind (axis, line, text, graph, world) a default object is
 * created with mpt_*_init and its properties are enumerated BY POSITION through
 * mpt_*_get.  Printed: the struct size, the member layout (offsetof/sizeof as the
 * compiler sees layout.h), the read table (name, description, value type, offset of
 * the address handed out relative to the object, size of that type according to the
 * type registry) and the default value read through the handed out address.
 * Output is a Coq file on stdout (first line starts with "(* GENERATED"). */
#include <stdio.h>
#include <stdlib.h>
#include <string.h>
#include <stdint.h>
#include <stddef.h>

#include "types.h"
#include "object.h"
#include "convert.h"
#include "layout.h"
#include "values.h"

typedef int (*getfn)(const void *, MPT_STRUCT(property) *);

static int id_color, id_fpoint, id_lattr;

static const char *tname(long type)
{
	static char buf[64];
	switch (type) {
	case 's': return "TStr";
	case 'd': return "TF64";
	case 'f': return "TF32";
	case 'n': return "TI16";
	case 'y': return "TU8";
	case 'u': return "TU32";
	case 'c': return "TChr";
	default:
		if (type > 0 && type == id_color) return "TColor";
		if (type > 0 && type == id_fpoint) return "TFpoint";
		if (type > 0 && type == id_lattr) return "TLattr";
		snprintf(buf, sizeof(buf), "(TBadType (%ld))", type);
		return buf;
	}
}
static void pbytes(const char *s)
{
	printf("(bs \"");
	for (; *s; s++) {
		if (*s == '"') printf("\"\"");
		else putchar(*s);
	}
	printf("\")");
}
static void pvalue(long type, const void *addr)
{
	if (!addr) { printf("PNone"); return; }
	switch (type) {
	case 's': {
		const char *s = *(const char * const *) addr;
		if (!s) printf("(PStr None)");
		else { printf("(PStr (Some "); pbytes(s); printf("))"); }
		return;
	}
	case 'd': { uint64_t b; memcpy(&b, addr, 8); printf("(PF64 %llu%%N)", (unsigned long long) b); return; }
	case 'f': { uint32_t b; memcpy(&b, addr, 4); printf("(PF32 %lu%%N)", (unsigned long) b); return; }
	case 'n': { int16_t v; memcpy(&v, addr, 2); printf("(PInt (%d))", (int) v); return; }
	case 'y': { uint8_t v; memcpy(&v, addr, 1); printf("(PInt %u)", (unsigned) v); return; }
	case 'u': { uint32_t v; memcpy(&v, addr, 4); printf("(PInt %lu)", (unsigned long) v); return; }
	case 'c': { unsigned char v; memcpy(&v, addr, 1); printf("(PChr %u)", (unsigned) v); return; }
	default:
		if (type > 0 && type == id_color) {
			const uint8_t *c = addr;
			printf("(PCol %u%%N %u%%N %u%%N %u%%N)", c[0], c[1], c[2], c[3]);
			return;
		}
		if (type > 0 && type == id_fpoint) {
			uint32_t x, y; memcpy(&x, addr, 4); memcpy(&y, (const char *) addr + 4, 4);
			printf("(PPt %lu%%N %lu%%N)", (unsigned long) x, (unsigned long) y);
			return;
		}
		printf("PNone");
	}
}
static long tsize(long type)
{
	const MPT_STRUCT(type_traits) *t;
	if (type <= 0) return 0;
	if (!(t = mpt_type_traits(type))) return 0;
	return (long) t->size;
}

struct member { const char *name; size_t off, size; const char *type; };
#define M(st, m, ty) { #m, offsetof(MPT_STRUCT(st), m), sizeof(((MPT_STRUCT(st) *) 0)->m), ty }

static void dump_kind(const char *kind, const void *obj, size_t size, getfn get, const struct member *mem, size_t nmem,
                      const char * const *extra, size_t nextra)
{
	size_t i;
	int pos;
	printf("\n(* ---- %s ---- *)\n", kind);
	printf("Definition %s_sizeof : N := %zu%%N.\n", kind, size);
	printf("Definition %s_members : list mrow :=\n  [", kind);
	for (i = 0; i < nmem; i++) {
		printf("%s mkm ", i ? ";\n   " : "");
		pbytes(mem[i].name);
		printf(" %zu%%N %zu%%N %s", mem[i].off, mem[i].size, mem[i].type);
	}
	printf("].\n");
	printf("Definition %s_table : list trow :=\n  [", kind);
	for (pos = 0; pos < 64; pos++) {
		MPT_STRUCT(property) pr = MPT_PROPERTY_INIT;
		long off = -1;
		pr.name = 0;
		pr.desc = (const char *) (intptr_t) pos;
		/* the static table entry: the getters answer for a NULL object with the bare field offset */
		get(0, &pr);
		if (!pr.name) break;
		if ((uintptr_t) pr.val._addr < size) {
			off = (long) (uintptr_t) pr.val._addr;
		}
		printf("%s mkt ", pos ? ";\n   " : "");
		pbytes(pr.name);
		printf(" ");
		pbytes(pr.desc ? pr.desc : "");
		printf(" %s ", tname((long) pr.val._type));
		if (off < 0) printf("None"); else printf("(Some %ld%%N)", off);
		printf(" %ld%%N", tsize((long) pr.val._type));
	}
	printf("].\n");
	if (nextra) {
		printf("Definition %s_table_named : list trow :=\n  [", kind);
		for (i = 0; i < nextra; i++) {
			MPT_STRUCT(property) pr = MPT_PROPERTY_INIT;
			long off = -1;
			pr.name = extra[i];
			pr.desc = 0;
			get(obj, &pr);
			if ((const char *) pr.val._addr >= (const char *) obj && (const char *) pr.val._addr < (const char *) obj + size) {
				off = (const char *) pr.val._addr - (const char *) obj;
			}
			printf("%s mkt ", i ? ";\n   " : "");
			pbytes(pr.name ? pr.name : "");
			printf(" ");
			pbytes(pr.desc ? pr.desc : "");
			printf(" %s ", tname((long) pr.val._type));
			if (off < 0) printf("None"); else printf("(Some %ld%%N)", off);
			printf(" %ld%%N", tsize((long) pr.val._type));
		}
		printf("].\n");
	}
	printf("Definition %s_defaults : list (bytes * pval) :=\n  [", kind);
	for (pos = 0; pos < 64; pos++) {
		MPT_STRUCT(property) pr = MPT_PROPERTY_INIT;
		pr.name = 0;
		pr.desc = (const char *) (intptr_t) pos;
		get(obj, &pr);
		if (!pr.name) break;
		printf("%s (", pos ? ";\n   " : "");
		pbytes(pr.name);
		printf(", ");
		pvalue((long) pr.val._type, pr.val._addr);
		printf(")");
	}
	printf("].\n");
}

int main(void)
{
	static const struct member m_axis[] = {
		M(axis, _title, "TStr"), M(axis, begin, "TF64"), M(axis, end, "TF64"), M(axis, tlen, "TF32"), M(axis, exp, "TI16"),
		M(axis, intv, "TU8"), M(axis, sub, "TU8"), M(axis, format, "TU8"), M(axis, dec, "TU8"), M(axis, lpos, "TChr"), M(axis, tpos, "TChr")
	};
	static const struct member m_line[] = {
		M(line, color, "TColor"), M(line, attr.style, "TU8"), M(line, attr.width, "TU8"), M(line, attr.symbol, "TU8"), M(line, attr.size, "TU8"),
		M(line, from.x, "TF32"), M(line, from.y, "TF32"), M(line, to.x, "TF32"), M(line, to.y, "TF32")
	};
	static const struct member m_text[] = {
		M(text, _value, "TStr"), M(text, _font, "TStr"), M(text, color, "TColor"), M(text, size, "TU8"), M(text, weight, "TChr"),
		M(text, style, "TChr"), M(text, align, "TChr"), M(text, pos, "TFpoint"), M(text, pos.x, "TF32"), M(text, pos.y, "TF32"), M(text, angle, "TF64")
	};
	static const struct member m_graph[] = {
		M(graph, _axes, "TStr"), M(graph, _worlds, "TStr"), M(graph, fg, "TColor"), M(graph, bg, "TColor"), M(graph, pos, "TFpoint"),
		M(graph, scale, "TFpoint"), M(graph, grid, "TU8"), M(graph, align, "TU8"), M(graph, frame, "TU8"), M(graph, clip, "TU8"), M(graph, lpos, "TChr")
	};
	static const struct member m_world[] = {
		M(world, _alias, "TStr"), M(world, color, "TColor"), M(world, attr.style, "TU8"), M(world, attr.width, "TU8"),
		M(world, attr.symbol, "TU8"), M(world, attr.size, "TU8"), M(world, cyc, "TU32")
	};
	static const char * const text_named[] = { "x", "y" };
	MPT_STRUCT(axis) ax;
	MPT_STRUCT(line) li;
	MPT_STRUCT(text) tx;
	MPT_STRUCT(graph) gr;
	MPT_STRUCT(world) wl;

	id_color = mpt_color_typeid();
	id_fpoint = mpt_fpoint_typeid();
	id_lattr = mpt_lattr_typeid();

	printf("(* GENERATED by harness/c20_probe.c from the current source tree (mpt_*_get by position on default objects,\n");
	printf("   offsetof/sizeof of layout.h as compiled).  Do not edit: props/c20.py rewrites this file when the tree changes. *)\n");
	printf("Require Import List String NArith ZArith.\nImport ListNotations.\n");
	printf("Require Import MptV.C20.LayoutTypes.\nOpen Scope string_scope.\nOpen Scope Z_scope.\n");
	printf("\nDefinition size_color : N := %ld%%N.\nDefinition size_fpoint : N := %ld%%N.\nDefinition size_lattr : N := %ld%%N.\n",
	       tsize(id_color), tsize(id_fpoint), tsize(id_lattr));

	mpt_axis_init(&ax, 0);
	dump_kind("axis", &ax, sizeof(ax), (getfn) mpt_axis_get, m_axis, MPT_arrsize(m_axis), 0, 0);
	mpt_line_init(&li);
	dump_kind("line", &li, sizeof(li), (getfn) mpt_line_get, m_line, MPT_arrsize(m_line), 0, 0);
	mpt_text_init(&tx, 0);
	dump_kind("text", &tx, sizeof(tx), (getfn) mpt_text_get, m_text, MPT_arrsize(m_text), text_named, 2);
	mpt_graph_init(&gr, 0);
	dump_kind("graph", &gr, sizeof(gr), (getfn) mpt_graph_get, m_graph, MPT_arrsize(m_graph), 0, 0);
	mpt_world_init(&wl, 0);
	dump_kind("world", &wl, sizeof(wl), (getfn) mpt_world_get, m_world, MPT_arrsize(m_world), 0, 0);
	return 0;
}
