/* C19 harness: value generators of mptplot/values and the text/buffer iterators of mptcore.
 * Case line:  <id> <kind> <arg> <oracle> <op> <op> ...
 *   kind/arg (doubles are 16-digit hex bit patterns, text is hex, "n" = NULL pointer):
 *     create  <text>                 mpt_iterator_create(text)
 *     values  <text>                 mpt_iterator_values(text)
 *     string  <text>                 mpt_iterator_string(text, NULL)
 *     strsep  <sep>;<text>           mpt_iterator_string(text, sep)      sep = n (NULL) | - (empty) | hex
 *     rset    <variant>              mpt_range_set(&r, &val) on r = {7, 9}; first token RS:<ret>:<min>:<max>
 *                it;<string|values>;<text>   TypeIteratorPtr value (source becomes slot 0; second token U:<next value>)
 *                itn                         TypeIteratorPtr value holding a null pointer
 *                vec;<bytes>;<d,d,..|->      vector('d') value: iov_len = bytes, exact-size block filled with the doubles
 *                vecb;<bytes>                vector('d') value with iov_base = NULL
 *                vecn                        vector('d') value with a null address
 *                type;<s|d>                  value of another type
 *     linear  <len>,<a>,<b>          mpt_iterator_linear(len, a, b)
 *     boundary <len>,<l>,<i>,<r>     mpt_iterator_boundary(len, l, i, r)
 *     poly    <text>;<grid>          mpt_iterator_poly(text, &grid)      grid = n | b,b,b...
 *     profile <text>;<grid>          mpt_iterator_profile(&grid, text)
 *     buffer  <bytes> / args <bytes> mpt_meta_buffer / mpt_meta_arguments over a 'c' array
 *                                    (<bytes>@<t>: content traits of type t instead of 'c')
 *     from    <lin|range|fac>;<string|values>;<text>   _mpt_iterator_linear/_range/_factor with an iterator value
 *                                    (second token U:<next value of the source>)
 *     vlin    <points>,<ld>,<min>,<max>       mpt_values_linear on an exact-size heap block
 *     vbound  <points>,<ld>,<l>,<c>,<r>       mpt_values_bound
 *   <oracle> is the libc table for the model (ignored here).
 *   ops: lower case = slot 0 (the created source), upper case = slot 1 (the clone)
 *     v value + documented conversion to double     a advance     r reset
 *     c clone slot 0 into slot 1   C clone slot 1 into slot 1
 *     k mpt_iterator_consume(it,'d')   w documented loop (at most 40 elements)   s read as string
 *     z mpt_iterator_consume(it, 0, 0) (skip)      m conversions of the metatype itself
 *     n text iterator metatype to 's' without target
 *     d generators: slot 1 := mpt_iterator_values(description the source hands out through its 's' conversion)
 *     text iterators only: y element as keyword ('k')   q the same without target   x element as 'c' vector
 *     o the same without target   u element as uint32   j documented loop reading keywords   l .. reading vectors
 * Output token per op, first token is the construction result (see ml/c19_driver.ml). */
#include "common.h"
#include <errno.h>
#include <math.h>
#include <inttypes.h>
#include <sys/uio.h>
#include "types.h"
#include "meta.h"
#include "array.h"
#include "convert.h"
#include "values.h"

#define WALK_MAX 40
static const uint64_t UNSET = 0x7ff8000000c0ffeeULL;

static double d_of_bits(uint64_t b) { double d; memcpy(&d, &b, 8); return d; }
static uint64_t bits_of_d(double d) { uint64_t b; memcpy(&b, &d, 8); return b; }
static double d_of_tok(const char *s)
{
	if (!strcmp(s, "nan")) return NAN;
	if (!strcmp(s, "+inf")) return INFINITY;
	if (!strcmp(s, "-inf")) return -INFINITY;
	return d_of_bits(strtoull(s, 0, 16));
}

/* canonical rendering of a double: class for non-finite values, else bits/decimal(17 digits);
 * -0.0 is rendered as 0.0 (the model works on rationals) */
static void put_bits(double d)
{
	if (isnan(d)) { vh_add("nan"); return; }
	if (isinf(d)) { vh_add(d > 0 ? "+inf" : "-inf"); return; }
	if (d == 0) d = 0.0;
	vh_add("%016" PRIx64, bits_of_d(d));
}
static void put_double(double d)
{
	if (bits_of_d(d) == UNSET) { vh_add("unset"); return; }
	put_bits(d);
	if (isfinite(d)) { if (d == 0) d = 0.0; vh_add("/%.17g", d); }
}

static char *text_of(const char *hex)
{
	size_t n; uint8_t *b; char *s;
	if (!strcmp(hex, "n")) return 0;
	b = vh_unhex(hex, &n);
	s = malloc(n + 1);          /* exact size: ASan sees reads past the terminator */
	memcpy(s, b, n); s[n] = 0;
	free(b);
	return s;
}
static int grid_of(MPT_STRUCT(array) *arr, char *spec)
{
	char *p; long n = 0, i; double *dst;
	if (!strcmp(spec, "n")) return 0;
	for (p = spec; *p; p++) if (*p == ',') n++;
	n++;
	if (!(dst = mpt_values_prepare(arr, n))) return -1;
	for (i = 0, p = strtok(spec, ","); p && i < n; p = strtok(0, ","), i++) dst[i] = d_of_tok(p);
	return n;
}

static struct { MPT_INTERFACE(metatype) *mt; MPT_INTERFACE(iterator) *it; } slot[2];
static int bufkind, strkind;
static const MPT_STRUCT(buffer) *bufref;   /* buffer of the array handed to mpt_meta_buffer/_arguments */

static void set_slot(int i, MPT_INTERFACE(metatype) *mt)
{
	if (slot[i].mt) slot[i].mt->_vptr->unref(slot[i].mt);
	slot[i].mt = mt;
	slot[i].it = 0;
	if (mt && MPT_metatype_convert(mt, MPT_ENUM(TypeIteratorPtr), &slot[i].it) < 0) slot[i].it = 0;
}
/* read the current element the way examples/iter.c does */
static int read_value(MPT_INTERFACE(iterator) *it, double *d, const MPT_STRUCT(value) **vp)
{
	const MPT_STRUCT(value) *val = it->_vptr->value(it);
	uint64_t u = UNSET;
	memcpy(d, &u, 8);
	if (vp) *vp = val;
	if (!val) return 1;
	if (strkind && val->_type == MPT_ENUM(TypeConvertablePtr)) {
		/* raw result of the element conversion (mpt_value_convert maps every result >= 0 to 3) */
		MPT_INTERFACE(convertable) *cv = *((MPT_INTERFACE(convertable) * const *) val->_addr);
		return cv->_vptr->convert(cv, 'd', d);
	}
	return mpt_value_convert(val, 'd', d);
}
static void op_value(MPT_INTERFACE(iterator) *it)
{
	const MPT_STRUCT(value) *val;
	double d; int r;
	if (bufkind) {
		if (!(val = it->_vptr->value(it))) { vh_tok("N"); return; }
		if (val->_type == 's') {
			const char *s = *((const char * const *) val->_addr);
			vh_tok("V:s:"); vh_hex(s, s ? strlen(s) : 0);
		}
		else if (val->_type == MPT_type_toVector('c')) {
			const struct iovec *vec = val->_addr;
			vh_tok("V:v:"); vh_hex(vec->iov_base, vec->iov_len);
		}
		else vh_tok("V:?%d", (int) val->_type);
		return;
	}
	r = read_value(it, &d, &val);
	if (!val) { vh_tok("N"); return; }
	if (r < 0) { vh_tok("E:%d", r); return; }
	if (strkind) { vh_tok("V:%d:", r); put_double(d); return; }
	vh_tok("V:"); put_double(d);
}
static void op_walk(MPT_INTERFACE(iterator) *it)
{
	double vals[WALK_MAX]; int n = 0, i; char end[16] = "L";
	while (n < WALK_MAX) {
		const MPT_STRUCT(value) *val; double d; int r;
		r = read_value(it, &d, &val);
		if (!val) { strcpy(end, "N"); break; }
		if (r < 0) { sprintf(end, "E%d", r); break; }
		vals[n++] = d;
		if ((r = it->_vptr->advance(it)) < 0) { sprintf(end, "e%d", r); break; }
		if (!r) { strcpy(end, "Z"); break; }
	}
	vh_tok("W:%d:%s:", n, end);
	if (!n) vh_add("-");
	for (i = 0; i < n; i++) {
		if (i) vh_add(",");
		if (bits_of_d(vals[i]) == UNSET) vh_add("unset"); else put_bits(vals[i]);
	}
}

/* ---- text iterator: element conversions other than double */
#define VEC_C MPT_type_toVector('c')
static MPT_INTERFACE(convertable) *elem_conv(MPT_INTERFACE(iterator) *it, int *none)
{
	const MPT_STRUCT(value) *val = it->_vptr->value(it);
	*none = !val;
	if (!val || val->_type != MPT_ENUM(TypeConvertablePtr)) return 0;
	return *((MPT_INTERFACE(convertable) * const *) val->_addr);
}
static void put_vec(const struct iovec *vec)
{
	if (vec->iov_len > 100000) vh_add("wild");
	else if (!vec->iov_base) vh_add("null/%d", (int) vec->iov_len);
	else vh_hex(vec->iov_base, vec->iov_len);
}
static void op_elem(MPT_INTERFACE(iterator) *it, char op)
{
	MPT_INTERFACE(convertable) *cv;
	int none, r;
	if (!strkind) { vh_tok("-"); return; }
	cv = elem_conv(it, &none);
	if (none) { vh_tok("N"); return; }
	if (!cv) { vh_tok("-"); return; }
	switch (op) {
	case 'y': {
		const char *key = 0;
		r = cv->_vptr->convert(cv, 'k', &key);
		if (r < 0) vh_tok("Y:%d", r);
		else { vh_tok("Y:%d:", r); if (key) vh_hex(key, strlen(key)); else vh_add("null"); }
		break;
	}
	case 'q': vh_tok("Yn:%d", cv->_vptr->convert(cv, 'k', 0)); break;
	case 'x': {
		struct iovec vec = { 0, 0 };
		r = cv->_vptr->convert(cv, VEC_C, &vec);
		if (r < 0) vh_tok("X:%d", r);
		else { vh_tok("X:%d:", r); put_vec(&vec); }
		break;
	}
	case 'o': vh_tok("Xn:%d", cv->_vptr->convert(cv, VEC_C, 0)); break;
	case 'u': {
		uint32_t u = 0xdeadbeef;
		r = cv->_vptr->convert(cv, 'u', &u);
		if (r < 0) vh_tok("G:%d", r);
		else if (u == 0xdeadbeef) vh_tok("G:%d:unset", r);
		else vh_tok("G:%d:%" PRIu32, r, u);
		break;
	}
	}
}
/* the documented loop reading every element as keyword ('j') or as 'c' vector ('l') */
static void op_walk_text(MPT_INTERFACE(iterator) *it, char op)
{
	char *el[WALK_MAX]; size_t ln[WALK_MAX];
	int n = 0, i; char end[16] = "L";
	if (!strkind) { vh_tok("-"); return; }
	while (n < WALK_MAX) {
		MPT_INTERFACE(convertable) *cv; int none, r;
		cv = elem_conv(it, &none);
		if (none || !cv) { strcpy(end, "N"); break; }
		if (op == 'j') {
			const char *key = 0;
			if ((r = cv->_vptr->convert(cv, 'k', &key)) < 0) { sprintf(end, "E%d", r); break; }
			ln[n] = key ? strlen(key) : 0;
			el[n] = malloc(ln[n] + 1); if (key) memcpy(el[n], key, ln[n]);
		} else {
			struct iovec vec = { 0, 0 };
			if ((r = cv->_vptr->convert(cv, VEC_C, &vec)) < 0) { sprintf(end, "E%d", r); break; }
			ln[n] = vec.iov_len > 100000 ? 0 : vec.iov_len;
			el[n] = malloc(ln[n] + 1); if (ln[n]) memcpy(el[n], vec.iov_base, ln[n]);
		}
		n++;
		if ((r = it->_vptr->advance(it)) < 0) { sprintf(end, "e%d", r); break; }
		if (!r) { strcpy(end, "Z"); break; }
	}
	vh_tok("%c:%d:%s:", op == 'j' ? 'J' : 'H', n, end);
	if (!n) vh_add("-");
	for (i = 0; i < n; i++) { if (i) vh_add(","); vh_hex(el[i], ln[i]); free(el[i]); }
}
/* conversions of the metatype itself (parseConv / bufferConv / bufferConvArgs) */
static void op_meta(int s)
{
	MPT_INTERFACE(metatype) *mt = slot[s].mt;
	const uint8_t *fmt = 0;
	void *p;
	double d;
	int r;
	vh_tok("M:%d", MPT_metatype_convert(mt, 0, 0));
	r = MPT_metatype_convert(mt, 0, &fmt);
	vh_add(":%d/", r); if (fmt) vh_hex(fmt, strlen((const char *) fmt)); else vh_add("null");
	p = 0; r = MPT_metatype_convert(mt, MPT_ENUM(TypeIteratorPtr), &p);
	vh_add(":%d/%d", r, r < 0 ? -1 : p == (void *) slot[s].it);
	vh_add(":%d", MPT_metatype_convert(mt, MPT_ENUM(TypeIteratorPtr), 0));
	vh_add(":%d", MPT_metatype_convert(mt, 'd', &d));
	if (!strkind && !bufkind) {
		/* generators of mptplot/values: 's' with target (a value list hands out its description), without, addref */
		const char *str = 0;
		r = MPT_metatype_convert(mt, 's', &str);
		vh_add(":%d/", r);
		if (r < 0) vh_add("-");
		else vh_add(str ? "set" : "null");   /* the text handed out is observed by op d (source re-created from it) */
		vh_add(":%d", MPT_metatype_convert(mt, 's', 0));
		vh_add(":%d", (int) mt->_vptr->addref(mt));
		return;
	}
	if (strkind) {
		/* the content of the 's' and vector conversions is not observed (see docs/notes_C19.md) */
		const char *str = 0; struct iovec vec = { 0, 0 };
		vh_add(":%d", MPT_metatype_convert(mt, 's', &str));
		vh_add(":%d", MPT_metatype_convert(mt, VEC_C, &vec));
		vh_add(":%d", MPT_metatype_convert(mt, MPT_ENUM(TypeVector), &vec));
		vh_add(":%d", MPT_metatype_convert(mt, VEC_C, 0));
		vh_add(":%d", (int) mt->_vptr->addref(mt));
		return;
	}
	if (bufkind) {
		struct iovec vec = { 0, 0 };
		const char *str = (const char *) &d;
		p = &d; r = MPT_metatype_convert(mt, MPT_ENUM(TypeMetaPtr), &p);
		vh_add(":%d/%d", r, r < 0 ? -1 : p == (void *) mt);
		vh_add(":%d", MPT_metatype_convert(mt, MPT_ENUM(TypeMetaPtr), 0));
		p = &d; r = MPT_metatype_convert(mt, MPT_ENUM(TypeBufferPtr), &p);
		vh_add(":%d/%d", r, r < 0 ? -1 : p == (void *) bufref);
		vh_add(":%d", MPT_metatype_convert(mt, MPT_ENUM(TypeBufferPtr), 0));
		r = MPT_metatype_convert(mt, VEC_C, &vec);
		vh_add(":%d/", r); if (r < 0) vh_add("-"); else put_vec(&vec);
		vec.iov_base = 0; vec.iov_len = 0;
		r = MPT_metatype_convert(mt, MPT_ENUM(TypeVector), &vec);
		vh_add(":%d/", r); if (r < 0) vh_add("-"); else put_vec(&vec);
		vh_add(":%d", MPT_metatype_convert(mt, VEC_C, 0));
		r = MPT_metatype_convert(mt, 's', &str);
		vh_add(":%d/", r);
		if (r < 0) vh_add("-");
		else if (!str) vh_add("null");
		else if (bufref && memchr(str, 0, bufref->_used - (str - (const char *) (bufref + 1)))) vh_hex(str, strlen(str));
		else { vh_add("open:"); vh_hex(str, bufref ? bufref->_used : 0); }
		vh_add(":%d", MPT_metatype_convert(mt, 's', 0));
		vh_add(":%d", (int) mt->_vptr->addref(mt));
	}
}

static void run_case(int ntok, char **tok)
{
	const char *kind = tok[1];
	char *arg = tok[2];
	MPT_STRUCT(array) arr = MPT_ARRAY_INIT;
	MPT_INTERFACE(metatype) *mt = 0;
	int t;
	if (ntok < 4) return;
	errno = 0;
	if (!strcmp(kind, "create")) mt = mpt_iterator_create(text_of(arg));
	else if (!strcmp(kind, "values")) mt = mpt_iterator_values(text_of(arg));
	else if (!strcmp(kind, "string")) { strkind = 1; mt = mpt_iterator_string(text_of(arg), 0); }
	else if (!strcmp(kind, "strsep")) {
		char *sep = strtok(arg, ";"), *txt = strtok(0, ";");
		strkind = 1;
		mt = mpt_iterator_string(text_of(txt), text_of(sep));
	}
	else if (!strcmp(kind, "rset")) {
		/* mpt_range_set called directly */
		char *var = strtok(arg, ";");
		MPT_STRUCT(range) r;
		MPT_STRUCT(value) val;
		MPT_INTERFACE(metatype) *smt = 0;
		MPT_INTERFACE(iterator) *sit = 0;
		struct iovec vec = { 0, 0 };
		const char *str = "1 2";
		double d = 3;
		int ret;
		r.min = 7; r.max = 9;
		if (!strcmp(var, "it")) {
			char *sk = strtok(0, ";"), *txt = strtok(0, ";");
			char *text = text_of(txt);
			smt = sk[0] == 's' ? mpt_iterator_string(text, 0) : mpt_iterator_values(text);
			if (sk[0] == 's') strkind = 1;
			if (smt) MPT_metatype_convert(smt, MPT_ENUM(TypeIteratorPtr), &sit);
			MPT_value_set(&val, MPT_ENUM(TypeIteratorPtr), &sit);
		}
		else if (!strcmp(var, "itn")) MPT_value_set(&val, MPT_ENUM(TypeIteratorPtr), &sit);
		else if (!strcmp(var, "vec")) {
			size_t bytes = strtoul(strtok(0, ";"), 0, 0), i = 0;
			char *ds = strtok(0, ";"), *q;
			uint8_t *blk = malloc(bytes ? bytes : 1);
			memset(blk, 0x5a, bytes);
			for (q = strtok(ds, ","); q && strcmp(q, "-"); q = strtok(0, ","), i++) {
				double x = d_of_tok(q);
				if ((i + 1) * sizeof(x) <= bytes) memcpy(blk + i * sizeof(x), &x, sizeof(x));
				else if (i * sizeof(x) < bytes) memcpy(blk + i * sizeof(x), &x, bytes - i * sizeof(x));
			}
			vec.iov_base = blk; vec.iov_len = bytes;
			MPT_value_set(&val, MPT_type_toVector('d'), &vec);
		}
		else if (!strcmp(var, "vecb")) {
			vec.iov_len = strtoul(strtok(0, ";"), 0, 0);
			MPT_value_set(&val, MPT_type_toVector('d'), &vec);
		}
		else if (!strcmp(var, "vecn")) MPT_value_set(&val, MPT_type_toVector('d'), 0);
		else {
			char *ty = strtok(0, ";");
			if (ty[0] == 's') MPT_value_set(&val, 's', &str); else MPT_value_set(&val, 'd', &d);
		}
		ret = mpt_range_set(&r, &val);
		set_slot(0, smt);
		vh_tok("RS:%d:", ret); put_bits(r.min); vh_add(":"); put_bits(r.max);
		if (sit) {
			const MPT_STRUCT(value) *sv; double x; int rr = read_value(sit, &x, &sv);
			vh_tok("U:");
			if (!sv) vh_add("N"); else if (rr < 0) vh_add("E%d", rr); else put_double(x);
		}
		goto ops;
	}
	else if (!strcmp(kind, "linear")) {
		char *a = strtok(arg, ","), *b = strtok(0, ","), *c = strtok(0, ",");
		mt = mpt_iterator_linear(strtoul(a, 0, 0), d_of_tok(b), d_of_tok(c));
	}
	else if (!strcmp(kind, "boundary")) {
		char *a = strtok(arg, ","), *b = strtok(0, ","), *c = strtok(0, ","), *d = strtok(0, ",");
		mt = mpt_iterator_boundary(strtoul(a, 0, 0), d_of_tok(b), d_of_tok(c), d_of_tok(d));
	}
	else if (!strcmp(kind, "poly") || !strcmp(kind, "profile")) {
		char *txt = strtok(arg, ";"), *grid = strtok(0, ";");
		char *desc = text_of(txt);
		if (grid_of(&arr, grid) < 0) { vh_tok("X"); return; }
		mt = kind[1] == 'o' ? mpt_iterator_poly(desc, &arr) : mpt_iterator_profile(&arr, desc);
	}
	else if (!strcmp(kind, "buffer") || !strcmp(kind, "args")) {
		bufkind = 1;
		if (!strcmp(arg, "n")) mt = kind[0] == 'b' ? mpt_meta_buffer(0) : mpt_meta_arguments(0);
		else {
			size_t n; uint8_t *b;
			char *ty = strchr(arg, '@');
			if (ty) *ty++ = 0;
			b = vh_unhex(arg, &n);
			if (!mpt_array_append(&arr, n, b)) { vh_tok("X"); return; }
			arr._buf->_content_traits = mpt_type_traits(ty ? ty[0] : 'c');
			bufref = arr._buf;
			mt = kind[0] == 'b' ? mpt_meta_buffer(&arr) : mpt_meta_arguments(&arr);
			free(b);
		}
	}
	else if (!strcmp(kind, "from")) {
		/* from <ctor>;<srckind>;<text>: constructor fed from another iterator (TypeIteratorPtr value) */
		char *ctor = strtok(arg, ";"), *sk = strtok(0, ";"), *txt = strtok(0, ";");
		MPT_INTERFACE(metatype) *smt;
		MPT_INTERFACE(iterator) *sit = 0;
		MPT_STRUCT(value) val;
		char *text = text_of(txt);
		smt = sk[0] == 's' ? mpt_iterator_string(text, 0) : mpt_iterator_values(text);
		if (!smt) { vh_tok("X"); return; }
		if (sk[0] == 's') strkind = 1;
		MPT_metatype_convert(smt, MPT_ENUM(TypeIteratorPtr), &sit);
		MPT_value_set(&val, MPT_ENUM(TypeIteratorPtr), &sit);
		if (ctor[0] == 'l') mt = _mpt_iterator_linear(&val);
		else if (ctor[0] == 'r') mt = _mpt_iterator_range(&val);
		else mt = _mpt_iterator_factor(&val);
		set_slot(0, mt);
		vh_tok(mt ? "C:1" : "C:0");
		/* what the source serves next */
		vh_tok("U"); vh_add(":"); 
		{
			const MPT_STRUCT(value) *sv; double d; int r = read_value(sit, &d, &sv);
			if (!sv) vh_add("N"); else if (r < 0) vh_add("E%d", r); else put_double(d);
		}
		strkind = 0;
		smt->_vptr->unref(smt);
		goto ops;
	}
	else if (!strcmp(kind, "vlin") || !strcmp(kind, "vbound")) {
		char *p = strtok(arg, ","); long points = strtol(p, 0, 0), ld, i, n;
		double a[3], *target; int na = kind[1] == 'l' ? 2 : 3;
		ld = strtol(strtok(0, ","), 0, 0);
		for (i = 0; i < na; i++) a[i] = d_of_tok(strtok(0, ","));
		n = points < 1 ? 1 : (points - 1) * ld + 1;
		target = malloc(n * sizeof(*target));
		for (i = 0; i < n; i++) target[i] = d_of_bits(UNSET);
		if (na == 2) mpt_values_linear(points, target, ld, a[0], a[1]);
		else mpt_values_bound(points, target, ld, a[0], a[1], a[2]);
		vh_tok("L:");
		for (i = 0; i < n; i++) {
			if (i) vh_add(",");
			if (bits_of_d(target[i]) == UNSET) vh_add("unset"); else put_bits(target[i]);
		}
		free(target);
		return;
	}
	else { vh_tok("X"); return; }
	set_slot(0, mt);
	vh_tok(mt ? (slot[0].it ? "C:1" : "C:noiter") : "C:0");
ops:
	for (t = 4; t < ntok; t++) {
		char op = tok[t][0];
		int s = (op >= 'A' && op <= 'Z') ? 1 : 0;
		MPT_INTERFACE(iterator) *it = slot[s].it;
		if (s) op = op - 'A' + 'a';
		if (!it) { vh_tok("-"); continue; }
		switch (op) {
		case 'v': op_value(it); break;
		case 'a': vh_tok("A:%d", it->_vptr->advance(it)); break;
		case 'r': vh_tok("R:%d", it->_vptr->reset(it)); break;
		case 'c': {
			MPT_INTERFACE(metatype) *c = slot[s].mt->_vptr->clone(slot[s].mt);
			set_slot(1, c);
			vh_tok(c ? "K:1" : "K:0");
			break;
		}
		case 'k': {
			double d = d_of_bits(UNSET);
			int r;
			r = mpt_iterator_consume(it, 'd', &d);
			vh_tok("Q:%d:", r); put_double(d);
			break;
		}
		case 'w': op_walk(it); break;
		case 'y': case 'q': case 'x': case 'o': case 'u': op_elem(it, op); break;
		case 'j': case 'l': op_walk_text(it, op); break;
		case 'm': op_meta(s); break;
		case 'n':
			if (!strkind) vh_tok("-");
			else vh_tok("Sn:%d", MPT_metatype_convert(slot[s].mt, 's', 0));
			break;
		case 'z': vh_tok("Z:%d", mpt_iterator_consume(it, 0, 0)); break;
		case 'd': {
			/* slot 1 := mpt_iterator_values(description handed out by this source) */
			const char *str = 0; int r;
			MPT_INTERFACE(metatype) *c;
			if (strkind || bufkind) { vh_tok("-"); break; }
			if ((r = MPT_metatype_convert(slot[s].mt, 's', &str)) < 0) { vh_tok("D:%d", r); break; }
			c = str ? mpt_iterator_values(str) : 0;
			set_slot(1, c);
			vh_tok(c ? "D:1" : "D:0");
			break;
		}
		case 's': {
			const MPT_STRUCT(value) *val = it->_vptr->value(it);
			const char *str = 0; int r;
			if (!strkind || !val || val->_type != MPT_ENUM(TypeConvertablePtr)) { vh_tok("-"); break; }
			r = mpt_value_convert(val, 's', &str);
			if (r < 0) vh_tok("E:%d", r);
			else { vh_tok("T:"); if (str) vh_hex(str, strlen(str)); else vh_add("null"); }
			break;
		}
		default: vh_tok("?");
		}
	}
	set_slot(1, 0);
	set_slot(0, 0);
	mpt_array_clone(&arr, 0);
}
int main(int c, char **v) { return vh_main(c, v, run_case); }
