/* C05 harness: element life cycle in typed buffers.
 *
 * Case line:  <id> <A|F|I><szA> B<szB> s<script|-> <op> <args> ...
 * Two harness-defined traits A and B (element sizes from the case) whose init/fini
 * callbacks append to an event log.  The first letter is the SHAPE of both traits:
 *   A  init and fini
 *   F  fini only (mpt::reference_array<T>): the library cannot construct; elements are made by the
 *      caller writing their bytes.  Slots the library adds to the content by itself are zero-filled
 *      (the all-zero pattern is the empty element, fini on it is silent); the harness takes note of
 *      each such slot right after the library call (adopt_zero: it becomes element <next token>,
 *      event i<t>), so that stale bytes in such a slot - or an empty element that is never
 *      finalised - are seen by the monitor.
 *   I  init only: no callback when an element leaves the content; nothing is printed then, also
 *      not for the source elements the harness drops.  Every element stores a magic word and its
 * token, so a raw byte copy (same token twice) can be told from a constructed copy
 * (fresh token, "c<new><<src>").  The script makes chosen traits->init calls of the
 * LIBRARY fail; constructor calls by the harness itself (source elements, elements
 * placed into the raw region returned by insert/append) never fail.
 *
 * Token per operation:  <out>|<events>|<h0>;<h1>;<h2>
 *   events  i<t> default init, c<t><<s> copy init from element pattern s, q<t> copy from
 *           non-element bytes, f<t> fini of a live pattern, x<t> fini of a finalised
 *           pattern, x? fini of anything else
 *   handle  - | <sharing class>:<get_flags hex>:<_size>:<_used>:<a|b|r>:<elements>
 *           elements are read back from the data area independently of the library.
 * After the case's operations the three handles are released (3 more tokens) and
 * "end|live=<n>|leak=<0|1>" reports the harness' live count and LeakSanitizer.
 * Buffers are reached through the C layout (vptr, traits, size, used) and the C
 * vtable, the C++ members buffer::trim/skip/copy/move/append and
 * content<T>::set_length through the C++ classes. */
#include "common.h"
#include <errno.h>
#include <string>
#include <vector>
#include "array.h"
#include "types.h"
/* mpt++/array.cpp is compiled into this translation unit (flags of the harness: -fno-sanitize=vptr).
 * The buffers are created by the C allocator and carry the C vtable, so UBSan's C++ vptr check
 * (part of -fsanitize=undefined for C++) rejects every member access inside buffer::trim & co;
 * the library object of array.cpp in libmpt++.a is then not pulled in by the linker. */
#include "array.cpp"
#include "meta.h"
#include "config.h"
#include "event.h"

extern "C" int __lsan_do_recoverable_leak_check(void);

using mpt::type_traits;

struct rawbuf {            /* C layout of MPT_STRUCT(buffer) */
	const struct cvptr *vptr;
	const type_traits *traits;
	size_t size;
	size_t used;
};
struct cvptr {             /* C layout of MPT_INTERFACE_VPTR(buffer) */
	uint32_t (*get_flags)(const rawbuf *);
	void (*unref)(rawbuf *);
	uintptr_t (*addref)(rawbuf *);
	rawbuf *(*detach)(rawbuf *, size_t);
};
struct carr { rawbuf *buf; };   /* C layout of MPT_STRUCT(array) */

#define NH 3
static carr H[NH];

#define LIVE_A 0xA11FE00Au
#define LIVE_B 0xB11FE00Bu
#define DEAD   0xDEADDEADu
struct ehdr { uint32_t magic, tok; };

static size_t esz[2];
static int sh_init = 1, sh_fini = 1;   /* shape of both harness traits */
static const type_traits *TR[2];
static const char *script = "";
static size_t script_pos;
static int own;                 /* constructor call by the harness itself: never fails */
static unsigned next_tok;
static std::string evlog;
static long live_count;
#define MAXTOK 100000
static unsigned char live[MAXTOK];

static void ev(const char *fmt, ...)
{
	char tmp[64];
	va_list ap;
	va_start(ap, fmt);
	vsnprintf(tmp, sizeof(tmp), fmt, ap);
	va_end(ap);
	if (!evlog.empty()) evlog += ",";
	evlog += tmp;
}
static int el_init(void *ptr, const void *src, int k)
{
	ehdr h, s;
	if (!own && script[script_pos]) {
		if (script[script_pos++] == '0') return mpt::BadOperation;
	}
	h.magic = k ? LIVE_B : LIVE_A;
	h.tok = next_tok++;
	if (src) {
		memcpy(&s, src, sizeof(s));
		if (s.magic == LIVE_A || s.magic == LIVE_B || s.magic == DEAD) ev("c%u<%u", h.tok, s.tok);
		else ev("q%u", h.tok);
	} else {
		ev("i%u", h.tok);
	}
	memset(ptr, 0x5a, esz[k]);
	memcpy(ptr, &h, sizeof(h));
	if (h.tok < MAXTOK) live[h.tok] = 1;
	if (sh_fini) ++live_count;      /* without finaliser nothing ever reports the end of an element */
	return 0;
}
static int all_zero(const uint8_t *p, size_t n)
{
	while (n--) if (*p++) return 0;
	return 1;
}
static void el_fini(void *ptr, int k)
{
	ehdr h;
	memcpy(&h, ptr, sizeof(h));
	/* traits without init function: the zero pattern is the empty element */
	if (!sh_init && all_zero((const uint8_t *) ptr, esz[k])) return;
	if (h.magic == (k ? LIVE_B : LIVE_A)) {
		ev("f%u", h.tok);
		if (h.tok < MAXTOK && live[h.tok]) { live[h.tok] = 0; --live_count; }
		h.magic = DEAD;
		memcpy(ptr, &h, sizeof(h));
	}
	else if (h.magic == DEAD) ev("x%u", h.tok);
	else ev("x?");
}
/* ---- library element types (case header L<type>:<size> instead of A<size>): the traits of
 * kind a are the library's; elements built by the harness own a heap resource each, so that a
 * missing destructor call shows as a leak (LeakSanitizer / counters) and a second one as a
 * double free (ASan).  Events and tokens are not observable: printed as '*'. */
enum { LIB_NONE, LIB_ID, LIB_ARR, LIB_MREF, LIB_CFG, LIB_CMD };
static int lib_mode;
static const char longname[] = "a-name-that-does-not-fit-into-the-identifier-itself";
struct cmeta : public mpt::metatype {
	uintptr_t ref;
	cmeta() : ref(1) { ++live_count; }
	int convert(mpt::type_t, void *) { return mpt::BadType; }
	void unref() { if (!--ref) { --live_count; delete this; } }
	uintptr_t addref() { return ++ref; }
	mpt::metatype *clone() const { return 0; }
};
#define MAXCMD 4096
static int cmd_state[MAXCMD], cmd_next;
static int cmd_fn(void *arg, void *evt)
{
	int *st = (int *) arg;
	if (evt) return 0;
	if (*st == 1) { *st = 0; --live_count; }
	else live_count -= 1000;      /* finalized twice */
	return 0;
}
static void lib_fill(void *ptr)
{
	switch (lib_mode) {
	case LIB_ID:
		mpt_identifier_set((mpt::identifier *) ptr, longname, -1);
		break;
	case LIB_ARR:
		((carr *) ptr)->buf = reinterpret_cast<rawbuf *>(mpt::_mpt_buffer_alloc(8, 0));
		break;
	case LIB_MREF:
		*((mpt::metatype **) ptr) = new cmeta;
		break;
	case LIB_CFG: {
		/* C layout: elements (array), value (metatype *), identifier */
		struct citem { carr elements; mpt::metatype *value; uint8_t ident[16]; } *it = (citem *) ptr;
		const type_traits *t = mpt::mpt_config_item_traits();
		rawbuf *sub = reinterpret_cast<rawbuf *>(mpt::_mpt_buffer_alloc(t->size, 0));
		sub->traits = t;
		mpt_buffer_set(reinterpret_cast<mpt::buffer *>(sub), t, 0, 0, t->size);
		mpt_identifier_set((mpt::identifier *) ((citem *) (sub + 1))->ident, longname, -1);
		it->elements.buf = sub;
		it->value = new cmeta;
		mpt_identifier_set((mpt::identifier *) it->ident, longname, -1);
		break; }
	case LIB_CMD: {
		struct ccmd { uintptr_t id; int (*cmd)(void *, void *); void *arg; } *c = (ccmd *) ptr;
		if (cmd_next < MAXCMD) {
			cmd_state[cmd_next] = 1;
			++live_count;
			c->id = cmd_next + 1;
			c->cmd = cmd_fn;
			c->arg = &cmd_state[cmd_next++];
		}
		break; }
	}
}
/* constructor / destructor calls made by the harness itself */
static void own_construct(void *ptr, int k)
{
	if (lib_mode && !k) {
		TR[0]->init(ptr, 0);
		lib_fill(ptr);
		return;
	}
	own = 1;
	el_init(ptr, 0, k);
	own = 0;
}
static void el_fini(void *ptr, int k);
static void own_destroy(void *ptr, int k)
{
	if (lib_mode && !k) TR[0]->fini(ptr);
	else if (sh_fini) el_fini(ptr, k);
}
static int initA(void *p, const void *s) { return el_init(p, s, 0); }
static int initB(void *p, const void *s) { return el_init(p, s, 1); }
static void finiA(void *p) { el_fini(p, 0); }
static void finiB(void *p) { el_fini(p, 1); }

static int kind_ix(const char *k) { return k[0] == 'a' ? 0 : k[0] == 'b' ? 1 : -1; }
static const type_traits *traits_of(const char *k) { int i = kind_ix(k); return i < 0 ? 0 : TR[i]; }
static int kind_of_traits(const type_traits *t) { return t == TR[0] ? 0 : t == TR[1] ? 1 : -1; }

static const char *err_name(long e)
{
	switch (e) {
	case -1: return "BadArgument"; case -2: return "BadValue"; case -3: return "BadType";
	case -4: return "BadOperation"; case -8: return "BadEncoding"; case -16: return "MissingData";
	case -17: return "MissingBuffer"; default: return "Other";
	}
}
static void out_num(long r) { if (r < 0) vh_tok("E%s", err_name(r)); else vh_tok("n%ld", r); }

/* traits without init function: take note of the empty (all-zero) elements the library added to the
 * content of a buffer; [skip_off, skip_off + skip_len) of skipb is the region the caller fills next */
static void adopt_zero(const rawbuf *skipb, size_t skip_off, size_t skip_len)
{
	rawbuf *seen[NH];
	int nseen = 0, h;
	if (sh_init || lib_mode) return;
	for (h = 0; h < NH; h++) {
		rawbuf *b = H[h].buf;
		int c, k;
		size_t off;
		if (!b) continue;
		for (c = 0; c < nseen && seen[c] != b; c++) { }
		if (c < nseen) continue;
		seen[nseen++] = b;
		if ((k = kind_of_traits(b->traits)) < 0) continue;
		uint8_t *d = (uint8_t *) (b + 1);
		for (off = 0; off + esz[k] <= b->used; off += esz[k]) {
			if (b == skipb && off >= skip_off && off < skip_off + skip_len) continue;
			if (all_zero(d + off, esz[k])) own_construct(d + off, k);
		}
	}
}
static void dump(void)
{
	rawbuf *seen[NH];
	int nseen = 0, h;
	adopt_zero(0, 0, 0);
	vh_add("|%s|", lib_mode ? "*" : evlog.empty() ? "-" : evlog.c_str());
	evlog.clear();
	for (h = 0; h < NH; h++) {
		rawbuf *b = H[h].buf;
		int c, k;
		if (h) vh_add(";");
		if (!b) { vh_add("-"); continue; }
		for (c = 0; c < nseen && seen[c] != b; c++) { }
		if (c == nseen) seen[nseen++] = b;
		k = kind_of_traits(b->traits);
		vh_add("%d:%x:%zu:%zu:%s:", c, (unsigned) b->vptr->get_flags(b), b->size, b->used,
		       !b->traits ? "r" : k == 0 ? "a" : k == 1 ? "b" : "?");
		if (k < 0 || b->used < esz[k]) { vh_add("-"); continue; }
		size_t n = b->used / esz[k], i;
		if (lib_mode) { vh_add("*%zu", n); continue; }
		const uint8_t *d = (const uint8_t *) (b + 1);
		for (i = 0; i < n; i++) {
			ehdr e;
			memcpy(&e, d + i * esz[k], sizeof(e));
			if (i) vh_add(".");
			if (e.magic == (k ? LIVE_B : LIVE_A)) vh_add("%u", e.tok);
			else if (e.magic == DEAD) vh_add("d%u", e.tok);
			else vh_add("?");
		}
	}
}
template <size_t N> struct elem { uint8_t b[N]; };
/* unique_array<elem<N>> works on the harness traits of kind A */
namespace mpt {
template<> const type_traits *type_properties<elem<8> >::traits() { return TR[0]; }
template<> const type_traits *type_properties<elem<16> >::traits() { return TR[0]; }
template<> const type_traits *type_properties<elem<24> >::traits() { return TR[0]; }
}
template <size_t N> struct UA : public mpt::unique_array<elem<N> > {
	UA() : mpt::unique_array<elem<N> >() { }
	void adopt(rawbuf *b) { this->_ref.set_instance(reinterpret_cast<mpt::content<elem<N> > *>(b)); }
	rawbuf *release()
	{
		rawbuf *b = reinterpret_cast<rawbuf *>(this->_ref.detach());
		/* the static immutable dummy of an empty array is no buffer of ours */
		if (b && !b->size && (b->vptr->get_flags(b) & 0x103) == 0x103) return 0;
		return b;
	}
};
/* self-checking scenario: item_array<T>::compact() on n items, item i has an instance iff bit i of
 * mask is set, every item has a name that needs heap storage (iff names); the counting metatypes and
 * LeakSanitizer see a missing destructor call, ASan a second free.  Returns 0 or a failure code. */
static int item_test(unsigned mask, int n, int names)
{
	long live0 = live_count;
	{
		mpt::item_array<cmeta> arr;
		long want = 0, i;
		bool r, expect = false;
		for (i = 0; i < n; i++) {
			cmeta *m = (mask >> i) & 1 ? new cmeta : 0;
			if (m) ++want; else expect = true;
			if (!arr.append(m, names ? longname : 0)) return 1;
		}
		if (arr.length() != n || arr.count() != want) return 2;
		r = arr.compact();
		if (r != expect) return 3;
		if (r && arr.length() != want) return 4;
		if (arr.count() != want) return 5;
		for (i = 0; i < arr.length() && r; i++) if (!arr.get(i)->instance()) return 6;
		if (live_count != live0 + want) return 7;
	}
	return live_count == live0 ? 0 : 8;
}
/* ---- mpt::reference_array<T> (mptcore/array.h): elements are reference<T>, the traits have a finaliser only.
 * rtest <size> <script>: T is a reference-counted object of <size> bytes (8, 16, 24); the script is a comma separated
 * list of  i<pos>.<id> insert(pos, new T(id)) | s<pos>.<id> set(pos, new T(id)) | r<n> resize(n) | v<n> reserve(n)
 * | c clear() | c<id> clear(object id) | k compact() | n count().  Every step is compared with a plain list of ids
 * (0 = empty slot): result, length, every element; at the end the array is destroyed and every object must have been
 * deleted exactly once (a second delete / a use after delete is also an ASan report).  Result "ok" or "bad<code>@<step>". */
static int robj_state[256];          /* 0 unused, 1 live, 2 deleted */
static int robj_err;
template <size_t N> struct RObj {
	int refs, id;
	uint8_t pad[N - 8];
	RObj(int i) : refs(1), id(i) { if (robj_state[i & 255]) robj_err = 1; robj_state[i & 255] = 1; }
	uintptr_t addref() { return ++refs; }
	void unref()
	{
		if (refs <= 0 || robj_state[id & 255] != 1) { robj_err = 2; return; }
		if (--refs) return;
		robj_state[id & 255] = 2;
		delete this;
	}
};
template <size_t N> static int ref_test(const char *sc)
{
	typedef RObj<N> O;
	int step = 0, code = 0, i;
	std::vector<int> want;
	memset(robj_state, 0, sizeof(robj_state));
	robj_err = 0;
	{
		mpt::reference_array<O> arr;
		while (*sc && !code) {
			char op = *sc++;
			char *end;
			long a = 0, id = 0;
			bool have = *sc && *sc != ',';
			if (have) { a = strtol(sc, &end, 10); sc = end; }
			if (*sc == '.') { id = strtol(sc + 1, &end, 10); sc = end; }
			if (*sc == ',') ++sc;
			++step;
			long len = (long) want.size();
			if (op == 'i' || op == 's') {
				O *o = new O((int) id);
				long pos = a;
				bool expect, r;
				if (op == 'i') {
					if (pos < 0) pos += len;
					expect = pos >= 0;
					if (expect) {
						if (pos > len) want.resize(pos, 0);
						want.insert(want.begin() + pos, (int) id);
					}
					r = arr.insert(a, o);
				} else {
					if (pos < 0) pos += len;
					expect = pos >= 0 && pos < len;
					if (expect) want[pos] = (int) id;
					r = arr.set(a, o);
				}
				if (!r) o->unref();
				if (r != expect) code = 1;
			}
			else if (op == 'r' || op == 'v') {
				bool expect = a >= 0 || a + len >= 0;
				bool r = op == 'r' ? arr.resize(a) : arr.reserve(a);
				if (op == 'r' && a >= 0) want.resize(a, 0);
				if (r != expect) code = 2;
			}
			else if (op == 'c') {
				long n = 0, r;
				O *match = 0;
				for (i = 0; i < len; i++) {
					if (!want[i] || (have && want[i] != a)) continue;
					if (have) match = arr.get(i)->instance();
					want[i] = 0; ++n;
				}
				r = (have && !match) ? 0 : arr.clear(match);
				if (r != n) code = 3;
			}
			else if (op == 'k') {
				std::vector<int> c;
				for (i = 0; i < len; i++) if (want[i]) c.push_back(want[i]);
				c.resize(len, 0);
				want = c;
				arr.compact();
			}
			else if (op == 'n') {
				long n = 0;
				for (i = 0; i < len; i++) if (want[i]) ++n;
				if (arr.count() != n) code = 4;
			}
			else code = 9;
			if (code) break;
			if (arr.length() != (long) want.size()) { code = 5; break; }
			for (i = 0; i < (long) want.size(); i++) {
				O *o = arr.get(i)->instance();
				if ((o ? o->id : 0) != want[i]) { code = 6; break; }
				if (o && (o->refs != 1 || robj_state[o->id & 255] != 1)) { code = 7; break; }
			}
			for (i = 1; i < 256 && !code; i++) {       /* an object that left the array is gone, the others live */
				bool in = false;
				for (size_t k = 0; k < want.size(); k++) if (want[k] == i) in = true;
				if (robj_state[i] && (robj_state[i] == 1) != in) code = 8;
			}
			if (robj_err) code = 10 + robj_err;
		}
	}
	if (code) return code * 1000 + step;
	for (i = 0; i < 256; i++) if (robj_state[i] == 1) return 20000 + i;     /* element alive after the last handle went */
	return robj_err ? 10 + robj_err : 0;
}
/* unique_array<T>::insert(pos) (op 'i') / resize(n) (op 'r') on the array that owns handle h */
template <size_t N> static bool ua_op(int h, char op, long arg)
{
	UA<N> ua;
	bool r;
	if (H[h].buf) ua.adopt(H[h].buf);
	if (op == 'i') {
		elem<N> *p = ua.insert(arg);
		rawbuf *nb = ua.release();
		H[h].buf = nb;
		/* traits without init function: unique_array<T>::insert leaves the element to the caller
		 * (placement new of a trivial type), as reference_array<T>::insert sets it afterwards */
		if (p && nb && !sh_init) {
			adopt_zero(nb, (size_t) ((uint8_t *) p - (uint8_t *) (nb + 1)), N);
			own_construct(p, 0);
		}
		return p != 0;
	}
	r = ua.resize(arg);
	H[h].buf = ua.release();
	return r;
}
template <size_t N> static bool set_length(rawbuf *b, size_t bytes)
{
	return reinterpret_cast<mpt::content<elem<N> > *>(b)->set_length((long) (bytes / N));
}
static void construct_range(rawbuf *b, uint8_t *at, size_t len)
{
	int k = kind_of_traits(b->traits);
	size_t i;
	if (k < 0) return;
	for (i = 0; i + esz[k] <= len; i += esz[k]) own_construct(at + i, k);
}
static mpt::buffer *cxx(rawbuf *b) { return reinterpret_cast<mpt::buffer *>(b); }

static void release(int h)
{
	out_num(mpt_array_clone(reinterpret_cast<mpt::array *>(&H[h]), 0));
}
static void run_case(int ntok, char **tok)
{
	int t = 4, h;
	esz[1] = vh_int(tok[2] + 1);
	script = strcmp(tok[3] + 1, "-") ? tok[3] + 1 : "";
	if (tok[1][0] == 'L') {
		const char *ty = tok[1] + 1, *col = strchr(ty, ':');
		esz[0] = vh_int(col + 1);
		if (!strncmp(ty, "id:", 3)) { lib_mode = LIB_ID; TR[0] = mpt::mpt_identifier_traits(); }
		else if (!strncmp(ty, "arr:", 4)) { lib_mode = LIB_ARR; TR[0] = mpt::mpt_array_traits(); }
		else if (!strncmp(ty, "mref:", 5)) { lib_mode = LIB_MREF; TR[0] = mpt::mpt_meta_reference_traits(); }
		else if (!strncmp(ty, "cfg:", 4)) { lib_mode = LIB_CFG; TR[0] = mpt::mpt_config_item_traits(); }
		else if (!strncmp(ty, "cmd:", 4)) { lib_mode = LIB_CMD; TR[0] = mpt::mpt_command_traits(); }
		if (!lib_mode || TR[0]->size != esz[0]) { vh_tok("?size:%zu", lib_mode ? TR[0]->size : (size_t) 0); return; }
	}
	else {
		esz[0] = vh_int(tok[1] + 1);
		sh_init = tok[1][0] != 'F';
		sh_fini = tok[1][0] != 'I';
		TR[0] = new type_traits(esz[0], sh_fini ? finiA : 0, sh_init ? initA : 0);
	}
	TR[1] = new type_traits(esz[1], sh_fini ? finiB : 0, sh_init ? initB : 0);
	while (t < ntok) {
		const char *op = tok[t++];
		if (!strcmp(op, "itest")) {
			unsigned mask = vh_int(tok[t++]);
			int n = vh_int(tok[t++]), names = vh_int(tok[t++]), r = item_test(mask, n, names);
			if (r) vh_tok("bad%d", r); else vh_tok("ok");
			evlog.clear();
			dump();
			continue;
		}
		if (!strcmp(op, "rtest")) {
			size_t n = vh_int(tok[t++]);
			const char *sc = tok[t++];
			int r = n == 8 ? ref_test<8>(sc) : n == 16 ? ref_test<16>(sc) : ref_test<24>(sc);
			if (r) vh_tok("bad%d@%d", r / 1000, r % 1000); else vh_tok("ok");
			evlog.clear();
			dump();
			continue;
		}
		int h = vh_int(tok[t++]);
		rawbuf *b = H[h].buf;
		if (!strcmp(op, "new")) {
			const char *k = tok[t++];
			size_t n = vh_int(tok[t++]);
			int f = vh_int(tok[t++]);
			mpt_array_clone(reinterpret_cast<mpt::array *>(&H[h]), 0);
			b = reinterpret_cast<rawbuf *>(mpt::_mpt_buffer_alloc(n, f));
			b->traits = traits_of(k);
			H[h].buf = b;
			vh_tok("ok");
		}
		else if (!strcmp(op, "res")) {
			const char *k = tok[t++];
			size_t n = vh_int(tok[t++]);
			vh_tok(mpt_array_reserve(reinterpret_cast<mpt::array *>(&H[h]), n, traits_of(k)) ? "ok" : "no");
		}
		else if (!strcmp(op, "set")) {
			const char *ks = tok[t++];
			int k = kind_ix(ks);
			size_t pos = vh_int(tok[t++]), len = vh_int(tok[t++]);
			int withsrc = tok[t++][0] == 'c';
			if (!b) vh_tok("-");
			else {
				uint8_t *src = 0;
				size_t n = 0, i;
				long r;
				if (withsrc) {
					if (k >= 0) n = (len + esz[k] - 1) / esz[k];
					/* exact-size block: a read past the source elements is seen by ASan */
					if (k >= 0) src = (uint8_t *) malloc(n * esz[k] ? n * esz[k] : 1);
					for (i = 0; i < n; i++) own_construct(src + i * esz[k], k);
				}
				r = mpt_buffer_set(cxx(b), traits_of(ks), pos, (withsrc && k >= 0) ? src : 0, len);
				for (i = 0; i < n; i++) own_destroy(src + i * esz[k], k);
				free(src);
				out_num(r);
			}
		}
		else if (!strcmp(op, "ins")) {
			size_t pos = vh_int(tok[t++]), len = vh_int(tok[t++]);
			if (!b) vh_tok("-");
			else {
				uint8_t *p = (uint8_t *) mpt_buffer_insert(cxx(b), pos, len);
				if (p) adopt_zero(b, pos, len);
				if (p) construct_range(b, ((uint8_t *) (b + 1)) + pos, len);
				vh_tok(p ? "ok" : "no");
			}
		}
		else if (!strcmp(op, "cut")) {
			size_t off = vh_int(tok[t++]), len = vh_int(tok[t++]);
			if (!b) vh_tok("-");
			else out_num(mpt_buffer_cut(cxx(b), off, len));
		}
		else if (!strcmp(op, "det")) {
			size_t len = vh_int(tok[t++]);
			if (!b) vh_tok("-");
			else {
				rawbuf *n = b->vptr->detach(b, len);
				if (n) H[h].buf = n;
				vh_tok(n ? "ok" : "no");
			}
		}
		else if (!strcmp(op, "cln")) {
			int g = vh_int(tok[t++]);
			if (!H[g].buf) vh_tok("-");
			else out_num(mpt_array_clone(reinterpret_cast<mpt::array *>(&H[h]), reinterpret_cast<mpt::array *>(&H[g])));
		}
		else if (!strcmp(op, "rel")) {
			release(h);
		}
		else if (!strcmp(op, "trim") || !strcmp(op, "skip")) {
			size_t len = vh_int(tok[t++]);
			if (!b) vh_tok("-");
			else vh_tok((op[0] == 't' ? cxx(b)->trim(len) : cxx(b)->skip(len)) ? "ok" : "no");
		}
		else if (!strcmp(op, "app")) {
			size_t len = vh_int(tok[t++]);
			if (!b) vh_tok("-");
			else {
				uint8_t *p = (uint8_t *) cxx(b)->append(len);
				if (p) adopt_zero(b, (size_t) (p - (uint8_t *) (b + 1)), len);
				if (p) construct_range(b, p, len);
				vh_tok(p ? "ok" : "no");
			}
		}
		else if (!strcmp(op, "slen")) {
			size_t len = vh_int(tok[t++]);
			int k = b ? kind_of_traits(b->traits) : -1;
			if (!b) vh_tok("-");
			else {
				size_t s = k < 0 ? 1 : esz[k];
				bool r = s == 8 ? set_length<8>(b, len) : s == 16 ? set_length<16>(b, len)
				       : s == 24 ? set_length<24>(b, len) : set_length<1>(b, len);
				vh_tok(r ? "ok" : "no");
			}
		}
		else if (!strcmp(op, "uins") || !strcmp(op, "ures")) {
			long arg = vh_int(tok[t++]);
			if (lib_mode || (b && kind_of_traits(b->traits) != 0)) vh_tok("-");
			else {
				char o = op[1] == 'i' ? 'i' : 'r';
				bool r = esz[0] == 8 ? ua_op<8>(h, o, arg) : esz[0] == 16 ? ua_op<16>(h, o, arg) : ua_op<24>(h, o, arg);
				vh_tok(r ? "ok" : "no");
			}
		}
		else if (!strcmp(op, "cpy") || !strcmp(op, "mov")) {
			int g = vh_int(tok[t++]);
			if (!b || !H[g].buf) vh_tok("-");
			else vh_tok((op[0] == 'c' ? cxx(b)->copy(*cxx(H[g].buf)) : cxx(b)->move(*cxx(H[g].buf))) ? "ok" : "no");
		}
		else { vh_tok("?%s", op); break; }
		dump();
	}
	for (h = 0; h < NH; h++) { release(h); dump(); }
	vh_tok("end|live=%ld|leak=%d", live_count, __lsan_do_recoverable_leak_check() ? 1 : 0);
}
int main(int argc, char **argv) { return vh_main(argc, argv, run_case); }
