/* c20_ops.h — language neutral part of the C20 harnesses (included by c20_layout.c and c20_cxx.cpp).
 *
 * Case line:   <id> <impl> <kind> <op> ...          impl: c (C API) | x (mpt++ objects)
 *   kind: axis line text graph world      two objects "a" (target) and "b" (second object / assignment source)
 *   ops:  set <a|b> <name> <src>      name: N (NULL) | E ("") | hex bytes
 *         get <a|b> <name-hex>        property lookup by name (mpt_property_match inside mpt_*_get)
 *         sp  <a|b> <flags> <name> <src>   mpt_object_set_property (identifier + convertable)
 *   src:  R            no source (reset)
 *         TN | T- | T<hex>[~model-only oracle data]     text through mpt_object_set_string
 *         V<t>:<payload>[~...]   typed value through mpt_object_set_value
 *                      t = b y n q i u x t (decimal) | c (code) | f (8 hex) | d (16 hex) | s (hex|N) |
 *                          C (aarrggbb) | L (sswwyyzz) | P (x8hex,y8hex)
 *         O            the other object (generic assignment)
 *   separate kinds:  <impl> pm <mlen> <match-hex|N> <name-hex>...     mpt_property_match
 *                    <impl> col <text-hex|N>                          mpt_color_parse (+ print/parse again in x)
 *                    <impl> lat <w0,s0,y0,z0> <width> <style> <symbol> <size>   mpt_lattr_set on an attribute set holding w0..z0
 *         pinfo <a|b>                 property query without property record (type of the object interface)
 *         tot <a|b>                   the whole-object query (property "")
 * One token per op:  <result>|<dump a>|<dump b>  with dump = name=value,...  read by POSITION through the
 * public get interface;  value: s:<hex>|s:~ (NULL), d:<16hex>, f:<8hex>, i:<dec>, c:<dec>, C:aarrggbb,
 * P:<8hex>;<8hex>, ?<type> (type not readable);  a trailing * = get reports "differs from default",
 * !E<n> = get failed.   result: K (>= 0) | E<n> (error -n) | G:<name>=<value> (get). */
#ifndef C20_OPS_H
#define C20_OPS_H

#include <ctype.h>

#ifdef __cplusplus
extern "C" int __lsan_do_recoverable_leak_check(void);
#else
int __lsan_do_recoverable_leak_check(void);
#endif

struct hobj {
	int kind;
	int (*get)(struct hobj *, MPT_STRUCT(property) *);
	int (*set)(struct hobj *, const char *, h_conv_t *);
	h_object_t *obj;
	h_conv_t *source;
	void *impl;
};
/* optional hook for operations only one harness knows (mpt++ object operations): returns 0 when the
 * operation is not handled, else prints the result token and advances *t past its arguments */
typedef int (*h_xop_fn)(struct hobj *a, struct hobj *b, const char *op, int ntok, char **tok, int *t);
static h_xop_fn h_xop = 0;
/* optional: the type id the mpt++ class of the object registers for itself */
static int (*h_me_id)(struct hobj *) = 0;

enum { K_AXIS, K_LINE, K_TEXT, K_GRAPH, K_WORLD, K_LAYOUT };

static int h_kind(const char *s0)
{
	char s[32];
	char *c;
	strncpy(s, s0, sizeof(s) - 1); s[sizeof(s) - 1] = 0;
	if ((c = strchr(s, ':'))) *c = 0;	/* constructor argument behind ':' */
	if (!strcmp(s, "layout")) return K_LAYOUT;
	if (!strcmp(s, "axis")) return K_AXIS;
	if (!strcmp(s, "line")) return K_LINE;
	if (!strcmp(s, "text")) return K_TEXT;
	if (!strcmp(s, "graph")) return K_GRAPH;
	if (!strcmp(s, "world")) return K_WORLD;
	return -1;
}

/* ---- value rendering ---- */
static void h_value(long type, const void *addr)
{
	static int idc, idp;
	if (!idc) idc = mpt_color_typeid();
	if (!idp) idp = mpt_fpoint_typeid();
	if (!addr) { vh_add("?null"); return; }
	switch (type) {
	case 's': {
		const char *s = *(const char * const *) addr;
		if (!s) vh_add("s:~");
		else { vh_add("s:"); vh_hex(s, strlen(s)); }
		return;
	}
	case 'd': { uint64_t b; memcpy(&b, addr, 8); vh_add("d:%016llx", (unsigned long long) b); return; }
	case 'f': { uint32_t b; memcpy(&b, addr, 4); vh_add("f:%08lx", (unsigned long) b); return; }
	case 'n': { int16_t v; memcpy(&v, addr, 2); vh_add("i:%d", (int) v); return; }
	case 'y': { uint8_t v; memcpy(&v, addr, 1); vh_add("i:%u", (unsigned) v); return; }
	case 'u': { uint32_t v; memcpy(&v, addr, 4); vh_add("i:%lu", (unsigned long) v); return; }
	case 'c': { unsigned char v; memcpy(&v, addr, 1); vh_add("c:%u", (unsigned) v); return; }
	default:
		if (type > 0 && type == idc) {
			const uint8_t *c = (const uint8_t *) addr;
			vh_add("C:%02x%02x%02x%02x", c[0], c[1], c[2], c[3]);
			return;
		}
		if (type > 0 && type == idp) {
			uint32_t x, y; memcpy(&x, addr, 4); memcpy(&y, (const char *) addr + 4, 4);
			vh_add("P:%08lx;%08lx", (unsigned long) x, (unsigned long) y);
			return;
		}
		vh_add("?%ld", type);
	}
}
static void h_dump(struct hobj *o)
{
	int pos;
	for (pos = 0; pos < 64; pos++) {
		H_PR_DECL(pr);
		int r;
		pr.name = 0;
		pr.desc = (const char *) (intptr_t) pos;
		r = o->get(o, &pr);
		if (!pr.name) break;
		vh_add("%s%s=", pos ? "," : "", pr.name);
		h_value((long) H_PR_TYPE(pr), H_PR_ADDR(pr));
		if (r > 0) vh_add("*");
		else if (r < 0) vh_add("!E%d", -r);
	}
	if (o->kind == K_TEXT) {
		static const char * const xy[] = { "x", "y" };
		int i;
		for (i = 0; i < 2; i++) {
			H_PR_DECL(pr);
			int r;
			pr.name = xy[i];
			pr.desc = 0;
			r = o->get(o, &pr);
			vh_add(",%s=", xy[i]);
			if (r < 0) vh_add("!E%d", -r);
			else {
				h_value((long) H_PR_TYPE(pr), H_PR_ADDR(pr));
				if (r > 0) vh_add("*");
			}
		}
	}
}

/* ---- sources ---- */
static char *h_text(const char *tok)	/* token after the leading letter, model-only part cut off */
{
	char *t = strdup(tok), *p;
	size_t n, i;
	uint8_t *b;
	char *s;
	if ((p = strchr(t, '~'))) *p = 0;
	if (!strcmp(t, "N")) { free(t); return 0; }
	b = vh_unhex(t, &n);
	s = (char *) malloc(n + 1);
	for (i = 0; i < n; i++) s[i] = (char) b[i];
	s[n] = 0;
	free(b);
	free(t);
	return s;
}
struct hval {
	long type;
	union { int8_t b; uint8_t y; int16_t n; uint16_t q; int32_t i; uint32_t u; int64_t x; uint64_t t;
	        char c; float f; double d; const char *s; uint8_t col[4]; uint8_t lat[4]; uint32_t pt[2]; } u;
	char *str;
};
static int h_parse_value(const char *tok, struct hval *v)
{
	char t = tok[1];
	char *pl = strdup(tok + 3), *p;
	if ((p = strchr(pl, '~'))) *p = 0;
	v->str = 0;
	v->type = t;
	switch (t) {
	case 'b': v->u.b = (int8_t) strtoll(pl, 0, 10); break;
	case 'y': v->u.y = (uint8_t) strtoull(pl, 0, 10); break;
	case 'n': v->u.n = (int16_t) strtoll(pl, 0, 10); break;
	case 'q': v->u.q = (uint16_t) strtoull(pl, 0, 10); break;
	case 'i': v->u.i = (int32_t) strtoll(pl, 0, 10); break;
	case 'u': v->u.u = (uint32_t) strtoull(pl, 0, 10); break;
	case 'x': v->u.x = (int64_t) strtoll(pl, 0, 10); break;
	case 't': v->u.t = (uint64_t) strtoull(pl, 0, 10); break;
	case 'c': v->u.c = (char) strtol(pl, 0, 10); break;
	case 'f': { uint32_t b = (uint32_t) strtoul(pl, 0, 16); memcpy(&v->u.f, &b, 4); break; }
	case 'd': { uint64_t b = strtoull(pl, 0, 16); memcpy(&v->u.d, &b, 8); break; }
	case 's': v->str = h_text(pl); v->u.s = v->str; break;
	case 'C': { unsigned long b = strtoul(pl, 0, 16); v->u.col[0] = b >> 24; v->u.col[1] = b >> 16; v->u.col[2] = b >> 8; v->u.col[3] = b;
	            v->type = mpt_color_typeid(); break; }
	case 'L': { unsigned long b = strtoul(pl, 0, 16); v->u.lat[0] = b >> 24; v->u.lat[1] = b >> 16; v->u.lat[2] = b >> 8; v->u.lat[3] = b;
	            v->type = mpt_lattr_typeid(); break; }
	case 'P': { char *c = strchr(pl, ','); v->u.pt[0] = (uint32_t) strtoul(pl, 0, 16); v->u.pt[1] = c ? (uint32_t) strtoul(c + 1, 0, 16) : 0;
	            v->type = mpt_fpoint_typeid(); break; }
	default: free(pl); return -1;
	}
	free(pl);
	return 0;
}
/* text-only convertable for mpt_object_set_property: answers 's' like a configuration node value */
struct h_textsrc { const char *txt; };
static int h_textsrc_conv(void *ctx, MPT_TYPE(type) type, void *dest)
{
	struct h_textsrc *t = (struct h_textsrc *) ctx;
	if (type == 's') {
		if (dest) *(const char **) dest = t->txt;
		return t->txt ? 's' : 0;
	}
	return MPT_ERROR(BadType);
}

static int h_apply_set(struct hobj *tg, struct hobj *other, const char *name, const char *src)
{
	if (src[0] == 'R') return tg->set(tg, name, 0);
	if (src[0] == 'O') return tg->set(tg, name, other->source);
	if (src[0] == 'T') {
		char *txt = h_text(src + 1);
		int r = mpt_object_set_string(tg->obj, name, txt, 0);
		free(txt);
		return r;
	}
	if (src[0] == 'V') {
		struct hval v;
		H_VALUE_DECL(val);
		int r;
		if (h_parse_value(src, &v) < 0) return -99;
		H_VALUE_SET(val, v.type, &v.u);
		r = mpt_object_set_value(tg->obj, name, &val);
		free(v.str);
		return r;
	}
	return -99;
}
static char *h_name(const char *tok, int *isnull)
{
	*isnull = 0;
	if (!strcmp(tok, "N")) { *isnull = 1; return 0; }
	if (!strcmp(tok, "E")) return strdup("");
	return h_text(tok);
}

static void h_result(int r)
{
	if (r >= 0) vh_tok("K"); else vh_tok("E%d", -r);
}

static void h_run_object_case(int ntok, char **tok, struct hobj *a, struct hobj *b)
{
	int t = 3;
	while (t < ntok) {
		const char *op = tok[t++];
		if (!strcmp(op, "set") && t + 2 < ntok + 0 + 1) {
			struct hobj *tg = tok[t][0] == 'b' ? b : a, *ot = tok[t][0] == 'b' ? a : b;
			int isnull;
			char *name = h_name(tok[t + 1], &isnull);
			int r = h_apply_set(tg, ot, name, tok[t + 2]);
			t += 3;
			h_result(r);
			free(name);
		}
		else if (!strcmp(op, "get")) {
			struct hobj *tg = tok[t][0] == 'b' ? b : a;
			int isnull;
			char *name = h_name(tok[t + 1], &isnull);
			H_PR_DECL(pr);
			int r;
			t += 2;
			pr.name = name;
			pr.desc = 0;
			r = tg->get(tg, &pr);
			if (r < 0 && (pr.name == name || !pr.name)) vh_tok("E%d", -r);
			else {
				vh_tok("G:%s=", pr.name);
				h_value((long) H_PR_TYPE(pr), H_PR_ADDR(pr));
				if (r > 0) vh_add("*");
				else if (r < 0) vh_add("!E%d", -r);
			}
			free(name);
		}
		else if (!strcmp(op, "sp")) {
			struct hobj *tg = tok[t][0] == 'b' ? b : a, *ot = tok[t][0] == 'b' ? a : b;
			int flags = (int) vh_int(tok[t + 1]);
			int isnull, r;
			char *name = h_name(tok[t + 2], &isnull);
			const char *src = tok[t + 3];
			H_IDENT_DECL(idv);
			MPT_STRUCT(identifier) *id = 0;
			t += 4;
			if (!isnull) {
				id = &idv;
				mpt_identifier_set(id, name, -1);
			}
			if (src[0] == 'R') r = mpt_object_set_property(tg->obj, flags, id, 0);
			else if (src[0] == 'O') r = mpt_object_set_property(tg->obj, flags, id, ot->source);
			else {
				struct h_textsrc ts;
				H_CONV_DECL(hc, h_textsrc_conv, &ts);
				ts.txt = h_text(src + 1);
				r = mpt_object_set_property(tg->obj, flags, id, H_CONV_PTR(hc));
				free((void *) ts.txt);
			}
			if (r < 0) vh_tok("E%d", -r); else vh_tok("K%d", r);
			if (id) mpt_identifier_set(id, 0, 0);
			free(name);
		}
		else if (!strcmp(op, "tot")) {
			/* the whole-object query: property "" (name of the kind, member types, 1 when a member differs from the default) */
			struct hobj *tg = tok[t][0] == 'b' ? b : a;
			H_PR_DECL(pr);
			int r;
			t += 1;
			pr.name = "";
			pr.desc = 0;
			r = tg->get(tg, &pr);
			if (r < 0) vh_tok("E%d", -r);
			else {
				vh_tok("G:%s=", pr.name);
				h_value((long) H_PR_TYPE(pr), H_PR_ADDR(pr));
				if (r > 0) vh_add("*");
			}
		}
		else if (!strcmp(op, "pinfo")) {
			/* the property query without a record: the type id of the object's data (pointer type, line: value type) */
			struct hobj *tg = tok[t][0] == 'b' ? b : a;
			int r = tg->get(tg, 0), want = 0;
			t += 1;
			switch (tg->kind) {
			case K_AXIS: want = mpt_axis_pointer_typeid(); break;
			case K_LINE: want = mpt_line_typeid(); break;
			case K_TEXT: want = mpt_text_pointer_typeid(); break;
			case K_GRAPH: want = mpt_graph_pointer_typeid(); break;
			case K_WORLD: want = mpt_world_pointer_typeid(); break;
			default: want = 0;
			}
			if (r < 0) vh_tok("E%d", -r);
			else if (want > 0 && r == want) vh_tok("Pc");
			else if (h_me_id && r == h_me_id(tg)) vh_tok("Pme");
			else vh_tok("Pn%d", r);
		}
		else if (h_xop && h_xop(a, b, op, ntok, tok, &t)) { }
		else { vh_tok("?%s", op); break; }
		vh_add("|");
		h_dump(a);
		vh_add("|");
		h_dump(b);
	}
}

/* mpt_lattr_set(attr, width, style, symbol, size): result and the four members read back */
static void h_run_lat(int ntok, char **tok)
{
	MPT_STRUCT(lineattr) *at = (MPT_STRUCT(lineattr) *) malloc(sizeof(*at));
	unsigned v[4] = { 0, 0, 0, 0 };
	int r;
	if (ntok < 8) { free(at); vh_tok("?lat"); return; }
	sscanf(tok[3], "%u,%u,%u,%u", &v[0], &v[1], &v[2], &v[3]);
	at->width = v[0]; at->style = v[1]; at->symbol = v[2]; at->size = v[3];
	r = mpt_lattr_set(at, (int) vh_int(tok[4]), (int) vh_int(tok[5]), (int) vh_int(tok[6]), (int) vh_int(tok[7]));
	if (r < 0) vh_tok("E%d", -r); else vh_tok("K%d", r);
	vh_add("|%u,%u,%u,%u", (unsigned) at->width, (unsigned) at->style, (unsigned) at->symbol, (unsigned) at->size);
	free(at);
	r = mpt_lattr_set(0, 1, 1, 1, 1);
	if (r < 0) vh_tok("E%d", -r); else vh_tok("K%d", r);
}

static void h_run_pm(int ntok, char **tok)
{
	int mlen = (int) vh_int(tok[3]);
	int isnull, n = ntok - 5, i, r;
	char *match = h_name(tok[4], &isnull);
	char **names = (char **) malloc(sizeof(*names) * (n > 0 ? n : 1));
	for (i = 0; i < n; i++) names[i] = h_text(tok[5 + i]);
	r = mpt_property_match(match, mlen, (const char * const *) names, n);
	if (r < 0) vh_tok("E%d", -r); else vh_tok("M%d", r);
	for (i = 0; i < n; i++) free(names[i]);
	free(names);
	free(match);
}
#endif
