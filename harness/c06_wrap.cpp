/* C06 C++ harness: drives the registry ONLY through the C++ wrappers of
 * mpt++/type_traits_wrap.cpp (type_traits::get(int), get(name, len), add(traits),
 * add_basic, add_metatype, add_interface), compiled into this translation unit.
 * Same case language and token formats as harness/c06_types.c; a case starts with
 * the marker token "cxx".
 *
 *   ba <size>           type_traits::add_basic          -> I:<id hex> | R:<code>
 *   ga <size> <flags>   type_traits::add(fresh object)  -> I:<id> | R:<code>   (flags: 1 init, 2 fini)
 *   ia <name> / ma <name>   add_interface / add_metatype ("-" = the default argument, i.e. no name)
 *                                                       -> E:<type>:<name>:<size>:<init?><fini?> | R:<errno>
 *   baN/gaN <n> <size>, iaN/maN <n> <prefix>   folded as in the C harness
 *   lt <int>            type_traits::get(int)  (negative values allowed)  -> N | T:<size>:<i><f>[:g<k>]
 *   ln <name> <len>     type_traits::get(name, len); len "d" = the default argument
 *                                                       -> E:... | R:<errno>
 * A pointer that differs from the one seen earlier for the same id adds "!moved". */
#include "common.h"
#include <errno.h>
#include <new>
#include "types.h"
#include "type_traits_wrap.cpp"

using namespace mpt;

#define POOL 4200
static const type_traits *pool[POOL];
static int pool_used = 0;
static int d_init(void *p, const void *s) { (void) p; (void) s; return 0; }
static void d_fini(void *p) { (void) p; }

#define SEEN 0x1101
static const void *seen_traits[SEEN];
static const void *seen_named[SEEN];

static const char *untok(const char *s, char *buf)
{
	size_t i;
	if (!strcmp(s, "-")) return 0;
	if (!strcmp(s, "%")) { buf[0] = 0; return buf; }
	for (i = 0; s[i]; i++) buf[i] = s[i] == '_' ? ' ' : s[i];
	buf[i] = 0;
	return buf;
}
static void put_name(const char *n)
{
	if (!n) { printf("-"); return; }
	if (!*n) { printf("%%"); return; }
	for (; *n; n++) printf("%c", *n == ' ' ? '_' : *n);
}
static const char *errno_name(void)
{
	switch (errno) {
	  case EINVAL: return "EINVAL";
	  case ENOMEM: return "ENOMEM";
	  case EAGAIN: return "EAGAIN";
	  default: return "E?";
	}
}
static long pool_index(const type_traits *t)
{
	for (int i = 0; i < pool_used; i++) if (pool[i] == t) return i;
	return -1;
}
static void put_traits(const type_traits *t, int head)
{
	long k;
	if (!t) { printf("N"); return; }
	printf("%s%zu:%d%d", head ? "T:" : "", t->size, t->init ? 1 : 0, t->fini ? 1 : 0);
	if ((k = pool_index(t)) >= 0) printf(":g%ld", k);
}
static void check_moved(const void **tab, uintptr_t id, const void *p)
{
	if (!p || id >= SEEN) return;
	if (tab[id] && tab[id] != p) printf("!moved");
	tab[id] = p;
}
static void put_named(const named_traits *e)
{
	if (!e) { printf("R:%s", errno_name()); return; }
	printf("E:%lx:", (unsigned long) e->type);
	put_name(e->name);
	printf(":");
	put_traits(&e->traits, 0);
	check_moved(seen_named, e->type, e);
	check_moved(seen_traits, e->type, &e->traits);
}
static const type_traits *fresh_traits(size_t size, int flags)
{
	if (pool_used >= POOL) { printf(" ?pool"); fflush(stdout); _exit(0); }
	return pool[pool_used++] = new type_traits(size, (flags & 2) ? d_fini : 0, (flags & 1) ? d_init : 0);
}
struct rep { long n, first, last; int consec; char refusal[64]; };
static void rep_init(struct rep *r) { r->n = 0; r->first = r->last = -1; r->consec = 1; r->refusal[0] = 0; }
static void rep_id(struct rep *r, long id)
{
	if (!r->n) r->first = id;
	else if (id != r->last + 1) r->consec = 0;
	r->last = id;
	r->n++;
}
static void rep_put(const struct rep *r)
{
	printf(" N:%ld:", r->n);
	if (r->n) printf("%lx:%lx", r->first, r->last); else printf("-:-");
	printf(":%c:%s", r->consec ? 'c' : 'n', r->refusal[0] ? r->refusal : "-");
}
static const named_traits *add_named(char kind, const char *n)
{
	/* a NULL name is passed as the wrappers' default argument */
	if (kind == 'i') return n ? type_traits::add_interface(n) : type_traits::add_interface();
	return n ? type_traits::add_metatype(n) : type_traits::add_metatype();
}
static void run_case(int ntok, char **tok)
{
	static char buf[4096], nm[4200];
	int t = 1;
	while (t < ntok) {
		const char *op = tok[t++];
		if (!strcmp(op, "cxx")) continue;
		if (!strcmp(op, "ba")) {
			int r = type_traits::add_basic(vh_u64(tok[t++]));
			if (r < 0) printf(" R:%d", r); else printf(" I:%x", r);
		}
		else if (!strcmp(op, "ga")) {
			size_t sz = vh_u64(tok[t++]);
			int fl = vh_int(tok[t++]);
			int r = type_traits::add(*fresh_traits(sz, fl));
			if (r < 0) printf(" R:%d", r); else printf(" I:%x", r);
		}
		else if (!strcmp(op, "ia") || !strcmp(op, "ma")) {
			const char *n = untok(tok[t++], buf);
			const named_traits *e;
			errno = 0;
			e = add_named(op[0], n);
			printf(" ");
			put_named(e);
		}
		else if (!strcmp(op, "baN") || !strcmp(op, "gaN")) {
			long i, n = vh_int(tok[t++]);
			size_t sz = vh_u64(tok[t++]);
			struct rep rp;
			rep_init(&rp);
			for (i = 0; i < n; i++) {
				int r = op[0] == 'b' ? type_traits::add_basic(sz) : type_traits::add(*fresh_traits(sz, 0));
				if (r >= 0) rep_id(&rp, r);
				else if (!rp.refusal[0]) snprintf(rp.refusal, sizeof(rp.refusal), "R:%d", r);
			}
			rep_put(&rp);
		}
		else if (!strcmp(op, "iaN") || !strcmp(op, "maN")) {
			long i, n = vh_int(tok[t++]);
			const char *pre = untok(tok[t++], buf);
			struct rep rp;
			rep_init(&rp);
			for (i = 0; i < n; i++) {
				const named_traits *e;
				snprintf(nm, sizeof(nm), "%s%ld", pre ? pre : "", i);
				errno = 0;
				e = add_named(op[0], nm);
				if (e) rep_id(&rp, e->type);
				else if (!rp.refusal[0]) snprintf(rp.refusal, sizeof(rp.refusal), "R:%s", errno_name());
			}
			rep_put(&rp);
		}
		else if (!strcmp(op, "lt")) {
			int id = (int) vh_int(tok[t++]);
			const type_traits *tr = type_traits::get(id);
			printf(" ");
			put_traits(tr, 1);
			if (id > 0) check_moved(seen_traits, id, tr);
		}
		else if (!strcmp(op, "ln")) {
			const char *n = untok(tok[t++], buf);
			const char *l = tok[t++];
			errno = 0;
			printf(" ");
			put_named(!strcmp(l, "d") ? type_traits::get(n) : type_traits::get(n, (int) vh_int(l)));
		}
		else { printf(" ?%s", op); break; }
		fflush(stdout);
	}
}
int main(int argc, char **argv) { return vh_main(argc, argv, run_case); }
