/* C19 C++ harness: the value source mpt::source<T> of mptcore/types.h (iterator over a span with a step) and the
 * default iterator::advance() / reset().  Case line:  <id> <kind> <arg> - <op> ...
 *   csrc <T>,<len>,<step>;<v,v,..|->   mpt::source<T>(block, len, step) over an exact-size heap block holding the given
 *                                      values (T: d double, i int32_t, y uint8_t); len may be negative, 0 .. number of values
 *   cdef <v>                           an iterator subclass that only implements value() (serving <v> as double)
 *   ops (lower case = the source, upper case = its copy): v value  a advance  r reset  w documented loop (<= 40)
 *       c copy construction into slot 1 (csrc only)
 * Tokens as in harness/c19_iter.c: C:1, V:<bits>/<decimal> | N, A:<code>, R:<code>, K:1, W:<n>:<end>:<bits,..>. */
#include "common.h"
#include <math.h>
#include <inttypes.h>
#include "types.h"

using namespace mpt;
#define WALK_MAX 40

static uint64_t bits_of_d(double d) { uint64_t b; memcpy(&b, &d, 8); return b; }
static void put_bits(double d)
{
	if (isnan(d)) { vh_add("nan"); return; }
	if (isinf(d)) { vh_add(d > 0 ? "+inf" : "-inf"); return; }
	if (d == 0) d = 0.0;
	vh_add("%016" PRIx64, bits_of_d(d));
}
static void put_double(double d)
{
	put_bits(d);
	if (isfinite(d)) { if (d == 0) d = 0.0; vh_add("/%.17g", d); }
}

struct slot_t {
	iterator *it;
	char ty;
	iterator *(*copy)(const iterator *);
	void (*del)(iterator *);
};
static slot_t slot[2];

template <typename T> static iterator *copy_src(const iterator *i) { return new source<T>(*static_cast<const source<T> *>(i)); }
template <typename T> static void del_src(iterator *i) { delete static_cast<source<T> *>(i); }

class only_value : public iterator
{
public:
	only_value(double v) : _d(v) { }
	virtual ~only_value() { }
	const struct value *value() __MPT_OVERRIDE { return _v.set('d', &_d) ? &_v : 0; }
protected:
	struct value _v;
	double _d;
};
static void del_def(iterator *i) { delete static_cast<only_value *>(i); }

template <typename T> static iterator *make_src(char **vals, long n, long len, int step)
{
	T *blk = static_cast<T *>(malloc(n ? n * sizeof(T) : 1));     /* exact size: ASan sees reads outside */
	for (long i = 0; i < n; i++) blk[i] = (T) strtol(vals[i], 0, 0);
	return new source<T>(blk, len, step);
}
/* read the current element: the value must carry the type of T and the address of an element */
static int read_value(const slot_t &s, double *d)
{
	const struct value *v = s.it->value();
	if (!v) return 0;
	if (v->type() != (type_t) s.ty || !v->data()) return -1;
	switch (s.ty) {
	  case 'd': *d = *static_cast<const double *>(v->data()); break;
	  case 'i': *d = *static_cast<const int32_t *>(v->data()); break;
	  default:  *d = *static_cast<const uint8_t *>(v->data()); break;
	}
	return 1;
}
static void op_walk(const slot_t &s)
{
	double vals[WALK_MAX]; int n = 0, i; char end[16] = "L";
	while (n < WALK_MAX) {
		double d; int r = read_value(s, &d);
		if (!r) { strcpy(end, "N"); break; }
		if (r < 0) { strcpy(end, "E-3"); break; }
		vals[n++] = d;
		if ((r = s.it->advance()) < 0) { sprintf(end, "e%d", r); break; }
		if (!r) { strcpy(end, "Z"); break; }
	}
	vh_tok("W:%d:%s:", n, end);
	if (!n) vh_add("-");
	for (i = 0; i < n; i++) { if (i) vh_add(","); put_bits(vals[i]); }
}
static void run_case(int ntok, char **tok)
{
	const char *kind = tok[1];
	char *arg = tok[2];
	int t;
	if (ntok < 4) return;
	if (!strcmp(kind, "csrc")) {
		char *hdr = strtok(arg, ";"), *vs = strtok(0, ";");
		char *ty = strtok(hdr, ","), *ls = strtok(0, ","), *ss = strtok(0, ",");
		char *vals[64]; long n = 0;
		long len = strtol(ls, 0, 0); int step = (int) strtol(ss, 0, 0);
		if (vs && strcmp(vs, "-")) for (char *p = strtok(vs, ","); p && n < 64; p = strtok(0, ",")) vals[n++] = p;
		slot[0].ty = ty[0];
		switch (ty[0]) {
		  case 'd': slot[0].it = make_src<double>(vals, n, len, step); slot[0].copy = copy_src<double>; slot[0].del = del_src<double>; break;
		  case 'i': slot[0].it = make_src<int32_t>(vals, n, len, step); slot[0].copy = copy_src<int32_t>; slot[0].del = del_src<int32_t>; break;
		  default:  slot[0].it = make_src<uint8_t>(vals, n, len, step); slot[0].copy = copy_src<uint8_t>; slot[0].del = del_src<uint8_t>; break;
		}
	}
	else if (!strcmp(kind, "cdef")) {
		slot[0].ty = 'd';
		slot[0].it = new only_value((double) strtol(arg, 0, 0));
		slot[0].copy = 0;
		slot[0].del = del_def;
	}
	else { vh_tok("X"); return; }
	vh_tok("C:1");
	for (t = 4; t < ntok; t++) {
		char op = tok[t][0];
		int k = (op >= 'A' && op <= 'Z') ? 1 : 0;
		slot_t &s = slot[k];
		if (k) op = op - 'A' + 'a';
		if (!s.it) { vh_tok("-"); continue; }
		switch (op) {
		case 'v': {
			double d; int r = read_value(s, &d);
			if (!r) vh_tok("N");
			else if (r < 0) vh_tok("E:-3");
			else { vh_tok("V:"); put_double(d); }
			break;
		}
		case 'a': vh_tok("A:%d", s.it->advance()); break;
		case 'r': vh_tok("R:%d", s.it->reset()); break;
		case 'w': op_walk(s); break;
		case 'c':
			if (!s.copy) { vh_tok("-"); break; }
			{
				iterator *c = s.copy(s.it);
				if (slot[1].it) slot[1].del(slot[1].it);
				slot[1] = s;
				slot[1].it = c;
				vh_tok("K:1");
			}
			break;
		default: vh_tok("?");
		}
	}
}
int main(int c, char **v) { return vh_main(c, v, run_case); }
