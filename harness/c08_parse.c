/* C08 harness: drives mptcore/parse on arbitrary bytes.
 * Case line:   <id> <fmt> <accept> <target> <input>     (see ml/c08_driver.ml)
 * Per case (forked child, ASan+UBSan, LeakSanitizer check at the end):
 *   F<ret>:<format fields>        mpt_parse_format on an exact-size heap copy of the string
 *   A<ret>:<sect>.<opt>           mpt_parse_accept
 *   E<ret>.<prev>:<path>:<first>:<val>   one token per call of the path handler under mpt_parse_config
 *   R<ret>:<line>:<getc calls>:<parse.curr>:<input length>
 *   T<target before>  N<ret>:<line>:<getc calls>  T<target after>     mpt_parse_node on the same input
 *   L<0|1>                        LeakSanitizer verdict after everything was released
 * Caller-loop family: <target> = "@B" (path with MPT_PATHFLAG(SepBinary), as examples/core/parse.c, the program behind the
 * five parse_* ctest cases) or "@D" (plain MPT_PATH_INIT): the element function is called in a loop written as the one of
 * mpt_parse_config on a path the CALLER owns; tokens F A E* R L; the binary path is decoded by the harness itself
 * (element, its length byte, length byte of the next element) and ends with "!bin" when the chain is inconsistent.
 * The input is handed out by a counting getc callback: every byte once, then -2.
 */
#include "common.h"
#include <sys/uio.h>
#include "meta.h"
#include "node.h"
#include "config.h"
#include "types.h"
#include "parse.h"

int __lsan_do_recoverable_leak_check(void);

struct input { const uint8_t *d; size_t len, pos; long calls; };
static int in_getc(void *arg)
{
	struct input *in = arg;
	++in->calls;
	if (in->pos >= in->len) return -2;
	return in->d[in->pos++];
}
static uint32_t fnv(const uint8_t *b, size_t n)
{
	uint32_t h = 2166136261u;
	size_t i;
	for (i = 0; i < n; i++) { h ^= b[i]; h *= 16777619u; }
	return h;
}
static void abbr(const void *p, size_t n)
{
	if (n <= 20) { size_t i; for (i = 0; i < n; i++) vh_add("%02x", ((const uint8_t *) p)[i]); }
	else vh_add("#%zu.%08x", n, fnv(p, n));
}
/* exact-size heap copy of a C string given as "N" or "s<hex>" */
static char *cstr(const char *tok)
{
	size_t n; uint8_t *b; char *s;
	if (!strcmp(tok, "N")) return 0;
	b = vh_unhex(tok[1] ? tok + 1 : "-", &n);
	s = malloc(n + 1);
	memcpy(s, b, n);
	s[n] = 0;
	free(b);
	return s;
}
static uint8_t *parse_input(const char *s, size_t *len)
{
	size_t cap = 64, n = 0;
	uint8_t *d = malloc(cap);
	if (!strcmp(s, "-")) { *len = 0; return d; }
	while (*s) {
		const char *e = strchr(s, ',');
		size_t l = e ? (size_t) (e - s) : strlen(s);
		const char *st = memchr(s, '*', l);
		if (st) {
			unsigned v; size_t cnt = strtoul(st + 1, 0, 10), i;
			sscanf(s, "%2x", &v);
			while (n + cnt > cap) d = realloc(d, cap *= 2);
			for (i = 0; i < cnt; i++) d[n++] = v;
		} else {
			size_t i;
			while (n + l / 2 > cap) d = realloc(d, cap *= 2);
			for (i = 0; i + 1 < l; i += 2) { unsigned v; sscanf(s + i, "%2x", &v); d[n++] = v; }
		}
		s += l;
		if (*s == ',') ++s;
	}
	/* exact size so that ASan sees reads behind the input */
	{ uint8_t *x = malloc(n ? n : 1); memcpy(x, d, n); free(d); d = x; }
	*len = n;
	return d;
}
/* ---- target tree ---- */
static const char *build_forest(MPT_STRUCT(node) *parent, const char *s)
{
	while (*s == '(') {
		const char *c1 = strchr(s + 1, ','), *c2 = strchr(c1 + 1, ',');
		size_t nl = (c1 - s - 1) / 2, i;
		MPT_STRUCT(node) *n = mpt_node_new(nl + 1);
		char *name = malloc(nl + 1);
		for (i = 0; i < nl; i++) { unsigned v; sscanf(s + 1 + 2 * i, "%2x", &v); name[i] = v; }
		if (nl) mpt_identifier_set(&n->ident, name, nl);
		free(name);
		if (c1[1] == 'v') {
			size_t vl = (c2 - c1 - 2) / 2;
			char *v = malloc(vl + 1);
			struct iovec vec;
			MPT_STRUCT(value) val = MPT_VALUE_INIT(MPT_type_toVector('c'), &vec);
			for (i = 0; i < vl; i++) { unsigned x; sscanf(c1 + 2 + 2 * i, "%2x", &x); v[i] = x; }
			vec.iov_base = v; vec.iov_len = vl;
			n->_meta = mpt_meta_new(&val);
			free(v);
		}
		mpt_gnode_insert(parent, 0, n);
		s = build_forest(n, c2 + 1);
		if (*s == ')') ++s;
	}
	return s;
}
static void dump_forest(const MPT_STRUCT(node) *parent)
{
	const MPT_STRUCT(node) *n, *prev = 0;
	for (n = parent->children; n; prev = n, n = n->next) {
		const char *id = mpt_node_ident(n);
		vh_add("(x");
		if (id) abbr(id, n->ident._len - 1);
		vh_add(",");
		if (!n->_meta) vh_add("n");
		else {
			MPT_INTERFACE(convertable) *c = (MPT_INTERFACE(convertable) *) n->_meta;
			struct iovec vec; const char *s = 0;
			vh_add("v");
			/* all stored bytes (a value can hold a NUL the input had), without the terminator */
			if (c->_vptr->convert(c, MPT_type_toVector('c'), &vec) >= 0) {
				size_t l = vec.iov_len;
				if (l && !((const char *) vec.iov_base)[l - 1]) --l;
				abbr(vec.iov_base, l);
			}
			else if (c->_vptr->convert(c, 's', &s) >= 0) { if (s) abbr(s, strlen(s)); }
			else vh_add("?");
		}
		vh_add(",");
		/* link consistency, read directly */
		if (n->parent != parent || n->prev != prev) vh_add("!links");
		dump_forest(n);
		vh_add(")");
	}
}
/* ---- path handler ---- */
static int on_event(void *ctx, const MPT_STRUCT(path) *p, const MPT_STRUCT(value) *val, int last, int curr)
{
	(void) ctx;
	vh_tok("E%d.%d:", curr, last);
	if (!p->len) vh_add("~");
	else if (p->flags & MPT_PATHFLAG(SepBinary)) {
		const uint8_t *b = (const uint8_t *) p->base + p->off;
		size_t pos = 0, l = p->first, n = 0;
		while (1) {
			if (pos + l + 2 > p->len || b[pos + l] != l) { vh_add("!bin"); break; }
			if (n++) vh_add("/");
			vh_add("x");
			abbr(b + pos, l);
			pos += l + 2;
			/* the byte behind the last length byte is the length of the next element; after an element was removed
			 * it keeps that length (mpt_path_add overwrites it, readers stop at path.len): not compared */
			if (pos >= p->len) break;
			l = b[pos - 1];
		}
	}
	else {
		const char *b = p->base + p->off;
		size_t i, st = 0, end = p->len - 1;
		for (i = 0; i <= end; i++) {
			if (i == end || b[i] == p->sep) {
				if (st) vh_add("/");
				vh_add("x");
				abbr(b + st, i - st);
				st = i + 1;
				if (i == end) break;
			}
		}
	}
	vh_add(":%d:", (int) p->first);
	if (!val) vh_add("n");
	else {
		const struct iovec *vec = val->_addr;
		vh_add("v");
		abbr(vec->iov_base, vec->iov_len);
	}
	return 0;
}
static void run_case(int ntok, char **tok)
{
	char *fmt, *acc;
	struct input in;
	MPT_STRUCT(parser_format) pfmt;
	MPT_STRUCT(parser_context) parse = MPT_PARSER_INIT;
	MPT_STRUCT(node) root = MPT_NODE_INIT;
	MPT_TYPE(input_parser) next;
	int ret, code;
	if (ntok < 5) return;
	fmt = cstr(tok[1]);
	acc = cstr(tok[2]);
	memset(&pfmt, 0, sizeof(pfmt));
	code = mpt_parse_format(&pfmt, fmt);
	vh_tok("F%d:%d.%d.%d.%d.%d.%d.%d.%d.%d.%d.%d.%d", code, pfmt.sstart, pfmt.send, pfmt.ostart, pfmt.assign, pfmt.oend,
	       pfmt.esc[0], pfmt.esc[1], pfmt.esc[2], pfmt.com[0], pfmt.com[1], pfmt.com[2], pfmt.com[3]);
	ret = mpt_parse_accept(&parse.name, acc);
	vh_tok("A%d:%d.%d", ret, parse.name.sect, parse.name.opt);
	in.d = parse_input(tok[4], &in.len);
	in.pos = 0; in.calls = 0;
	parse.src.getc = in_getc;
	parse.src.arg = &in;
	/* the element functions on a path of the caller (the loop of mpt_parse_config, written out) */
	if (tok[3][0] == '@') {
		MPT_STRUCT(path) path = MPT_PATH_INIT;
		if (tok[3][1] == 'B') path.flags = MPT_PATHFLAG(SepBinary);
		if (!(next = mpt_parse_next_fcn(code))) vh_tok("R!");
		else {
			parse.prev = MPT_PARSEFLAG(Section);
			while ((ret = next(&pfmt, &parse, &path)) > 0) {
				struct iovec vec;
				MPT_STRUCT(value) val = MPT_VALUE_INIT(MPT_type_toVector('c'), &vec);
				vec.iov_base = (char *) (path.base + path.off + path.len);
				vec.iov_len  = parse.valid;
				on_event(0, &path, (ret & MPT_PARSEFLAG(Data)) ? &val : 0, parse.prev, ret);
				if (ret & MPT_PARSEFLAG(SectEnd)) ret = mpt_path_del(&path);
				else ret = mpt_path_invalidate(&path);
				if (ret < 0) { ret = MPT_ERROR(MissingData); break; }
				parse.prev = parse.curr;
				parse.curr = 0;
				parse.valid = 0;
			}
			vh_tok("R%d:%zu:%ld:%d:%zu", ret, parse.src.line, in.calls, (int) parse.curr, in.len);
		}
		mpt_path_fini(&path);
		free((void *) in.d);
		free(fmt); free(acc);
		in.d = 0; fmt = acc = 0;
		vh_tok("L%d", __lsan_do_recoverable_leak_check() ? 1 : 0);
		return;
	}
	/* events under mpt_parse_config, set up as mpt_parse_node does */
	if (!(next = mpt_parse_next_fcn(code))) vh_tok("R!");
	else {
		parse.prev = MPT_PARSEFLAG(Section);
		ret = mpt_parse_config(next, &pfmt, &parse, on_event, 0);
		vh_tok("R%d:%zu:%ld:%d:%zu", ret, parse.src.line, in.calls, (int) parse.curr, in.len);
	}
	/* the same input through mpt_parse_node into the target tree */
	if (strcmp(tok[3], "~")) build_forest(&root, tok[3]);
	vh_tok("T"); dump_forest(&root);
	{
		MPT_STRUCT(parser_context) p2 = MPT_PARSER_INIT;
		p2.name = parse.name;
		in.pos = 0; in.calls = 0;
		p2.src.getc = in_getc;
		p2.src.arg = &in;
		ret = mpt_parse_node(&root, &p2, fmt);
		vh_tok("N%d:%zu:%ld", ret, p2.src.line, in.calls);
	}
	vh_tok("T"); dump_forest(&root);
	mpt_node_clear(&root);
	free((void *) in.d);
	free(fmt); free(acc);
	in.d = 0; fmt = acc = 0;
	vh_tok("L%d", __lsan_do_recoverable_leak_check() ? 1 : 0);
}
int main(int c, char **v) { return vh_main(c, v, run_case); }
