/* C04 template harness: drives the class templates of mptcore/array.h
 * (typed_array<T>, unique_array<T>, pointer_array<T>, map<K,V>, content<T> and the
 * span views) with the case language of harness/c04_array.c / c04_cxx.cpp.
 *
 * A case starts with the family token, all four handles 0..3 have that type:
 *   Td  typed_array<double>        Tu  typed_array<uint32_t>     Tk  typed_array<Counted>  (12 bytes, counts instances)
 *   Tq  unique_array<double>       Tr  unique_array<Counted>
 *   Tp  pointer_array<Obj>         Tm  map<uint32_t, uint32_t>
 * Operations (x, y = handle; positions and lengths are C longs, may be negative; hex = one element):
 *   tcp x y      arr[x] = arr[y]                 (copy assignment)
 *   tcc x y      arr[x] re-made by the copy constructor from arr[y]   (x != y)
 *   tclr x       arr[x] = A()
 *   tnew x len   arr[x] = A(len)
 *   tins x pos hex   typed: insert(pos, value);  unique: p = insert(pos), *p = value
 *   tset x pos hex   set(pos, value)
 *   trsv x len | trsz x len | tdet x     reserve / resize / detach
 *   tget x pos   | toff x hex            get(pos) / offset(value)       (read only)
 *   pointer_array: tcmp x (compact) | tswp x p1 p2 (swap) | tunu x (unused, read only)
 *   map: mset x key val | mapp x key val | mget x key | mval x key | mall x   (get / values(key) / values(): read only)
 *   flg x flags  header flags of the handle's buffer (as in the other harnesses)
 * Token per operation: <res>|<v0>,...,<v5>[;r=<read result>]|<partition>|<mech>[|k=<live Counted objects>]
 *   v = n (the static default_data buffer / nothing) or <element size>.<bytes>, read from the header fields and the
 *   bytes behind the header; the same content is read through the template API (length, get, begin/end,
 *   elements, map::begin/end) and "!api" is added when the two differ. */
#include "common.h"
#include <errno.h>
#include "array.h"
/* see harness/c04_cxx.cpp: C-made buffers carry a C function table, the translation unit is built with -fno-sanitize=vptr */
#include "array.cpp"

using namespace mpt;

#define NARR 4
#define NH   6

struct hdr_view {
	uintptr_t ref;
	size_t psize;
	int flags;
	uint8_t pad[8 * sizeof(void *) - sizeof(uintptr_t) - sizeof(size_t) - sizeof(int) - sizeof(buffer)];
};
struct buf_view { const void *vptr; const type_traits *traits; size_t size; size_t used; };

struct Counted {
	uint32_t a, b, c;
	static long live;
	Counted() : a(0), b(0), c(0) { ++live; }
	Counted(const Counted &o) : a(o.a), b(o.b), c(o.c) { ++live; }
	~Counted() { --live; }
	Counted &operator=(const Counted &o) { a = o.a; b = o.b; c = o.c; return *this; }
	bool operator==(const Counted &o) const { return a == o.a && b == o.b && c == o.c; }
};
long Counted::live = 0;
struct Obj { int unused; };

typedef map<uint32_t, uint32_t> u32map;

/* ---- raw view of a handle: the address of its first element is right behind the buffer header */
static const void *hdata[NARR];
static int api_bad;
static int counted;

static const buf_view *raw(int i)
{
	const buf_view *b;
	if (i >= NARR || !hdata[i]) return 0;
	b = reinterpret_cast<const buf_view *>(hdata[i]) - 1;
	return b->size ? b : 0;   /* _mpt_buffer_alloc never grants 0 bytes: size 0 is the static default_data */
}
static hdr_view *hdr(const void *b)
{
	return reinterpret_cast<hdr_view *>(const_cast<uint8_t *>(reinterpret_cast<const uint8_t *>(b)) - sizeof(hdr_view));
}
static void dump(const char *rd, size_t esz)
{
	int i, j, cls[NH], next = 0;
	vh_add("|");
	for (i = 0; i < NH; i++) {
		const buf_view *b = raw(i);
		if (i) vh_add(",");
		if (!b) { vh_add("n"); continue; }
		vh_add("%zu.", b->traits ? b->traits->size : (size_t) 0);
		vh_hex(b + 1, b->used);
	}
	if (rd) vh_add(";r=%s", rd);
	if (api_bad) vh_add(";!api%d", api_bad);
	vh_add("|");
	for (i = 0; i < NH; i++) {
		const buf_view *b = raw(i);
		if (i) vh_add(".");
		if (!b) { vh_add("n"); continue; }
		for (j = 0; j < i; j++) if (raw(j) == b) break;
		cls[i] = (j < i) ? cls[j] : next++;
		vh_add("%d", cls[i]);
	}
	vh_add("|");
	for (i = 0; i < NH; i++) {
		const buf_view *b = raw(i);
		if (i) vh_add(",");
		if (!b) vh_add("n");
		else vh_add("%zu:%zu:%zu:%d", b->used, b->size, (size_t) hdr(b)->ref, hdr(b)->flags);
		if (i >= NARR) vh_add(":0:0");
	}
	if (counted) vh_add("|k=%ld", Counted::live);
	(void) esz;
}
static char rdbuf[8192];
static const char *hexstr(const void *p, size_t n)
{
	const uint8_t *b = static_cast<const uint8_t *>(p);
	size_t i;
	if (!n) return strcpy(rdbuf, "-");
	if (n > sizeof(rdbuf) / 2 - 1) n = sizeof(rdbuf) / 2 - 1;
	for (i = 0; i < n; i++) sprintf(rdbuf + 2 * i, "%02x", b[i]);
	return rdbuf;
}

/* ---- typed / unique / pointer arrays */
template <typename T> static bool do_insert(typed_array<T> &a, long pos, const T &v) { return a.insert(pos, v); }
template <typename T> static bool do_insert(unique_array<T> &a, long pos, const T &v)
{
	T *p = a.insert(pos);
	if (!p) return false;
	*p = v;
	return true;
}
template <typename A> static int do_compact(A &) { return -1; }
static int do_compact(pointer_array<Obj> &a) { a.compact(); return 0; }
template <typename A> static int do_swap(A &, long, long) { return -1; }
static int do_swap(pointer_array<Obj> &a, long p1, long p2) { return a.swap(p1, p2) ? 1 : 0; }
template <typename A> static long do_unused(const A &) { return -1; }
static long do_unused(const pointer_array<Obj> &a) { return a.unused(); }

/* the content read through the API must be the content behind the header */
template <typename A, typename T> static void api_check(const A &a, int i)
{
	const buf_view *b = raw(i);
	size_t used = b ? b->used : 0;
	const uint8_t *base = b ? reinterpret_cast<const uint8_t *>(b + 1) : 0;
	long len = a.length(), k;
	if (len != (long) (used / sizeof(T))) { api_bad = 1; return; }
	if (a.elements().size() != len || (len && a.elements().begin() != a.begin())) { api_bad = 2; return; }
	if (a.end() - a.begin() != len) { api_bad = 3; return; }
	for (k = 0; k < len; k++) {
		const T *e = a.get(k), *f = a.get(k - len);
		if (!e || e != f || memcmp(e, base + k * sizeof(T), sizeof(T))) { api_bad = 4; return; }
	}
	if (a.get(len) || a.get(-len - 1)) { api_bad = 5; return; }
}
template <typename A, typename T> static void run_arrays(int ntok, char **tok)
{
	A *arr[NARR];
	int t = 2, i;
	for (i = 0; i < NARR; i++) arr[i] = new A;
	for (i = 0; i < NARR; i++) hdata[i] = arr[i]->begin();
	while (t < ntok) {
		const char *op = tok[t++];
		long x = vh_int(tok[t++]);
		char **arg = tok + t;
		const char *rd = 0;
		int nargs = 0;
		if (!strcmp(op, "tcp") || !strcmp(op, "tcc") || !strcmp(op, "tnew") || !strcmp(op, "trsv") || !strcmp(op, "trsz")
		    || !strcmp(op, "tget") || !strcmp(op, "toff") || !strcmp(op, "flg")) nargs = 1;
		else if (!strcmp(op, "tins") || !strcmp(op, "tset") || !strcmp(op, "tswp")) nargs = 2;
		t += nargs;
		if (x < 0 || x >= NARR) {
			vh_tok("G");
		}
		else if (!strcmp(op, "tcp") || !strcmp(op, "tcc")) {
			long y = vh_int(arg[0]);
			if (y < 0 || y >= NARR || (op[2] == 'c' && x == y)) vh_tok("G");
			else if (op[2] == 'p') { *arr[x] = *arr[y]; vh_tok("D:0/0"); }
			else { delete arr[x]; arr[x] = new A(*arr[y]); vh_tok("D:0/0"); }
		}
		else if (!strcmp(op, "tclr")) {
			int had = raw(x) ? 2 : 0;
			*arr[x] = A();
			hdata[x] = arr[x]->begin();
			vh_tok("D:0/%d", raw(x) ? 0 : had);   /* as the model: 2 = a buffer was given up for nothing */
		}
		else if (!strcmp(op, "tnew")) {
			int had = raw(x) ? 2 : 0;
			long len = vh_int(arg[0]);
			*arr[x] = A(len);
			hdata[x] = arr[x]->begin();
			vh_tok("D:0/%d", raw(x) ? 0 : had);
		}
		else if (!strcmp(op, "tins") || !strcmp(op, "tset")) {
			size_t n; uint8_t *d = vh_unhex(arg[1], &n);
			if (n != sizeof(T)) vh_tok("G");
			else {
				bool r;
				{
					T v;
					memcpy(static_cast<void *>(&v), d, sizeof(T));
					r = op[1] == 'i' ? do_insert(*arr[x], vh_int(arg[0]), v) : arr[x]->set(vh_int(arg[0]), v);
				}
				vh_tok(r ? "D:0/0" : "R");
			}
			free(d);
		}
		else if (!strcmp(op, "trsv")) vh_tok(arr[x]->reserve(vh_int(arg[0])) ? "D:0/0" : "R");
		else if (!strcmp(op, "trsz")) vh_tok(arr[x]->resize(vh_int(arg[0])) ? "D:0/0" : "R");
		else if (!strcmp(op, "tdet")) vh_tok(arr[x]->detach() ? "D:0/0" : "R");
		else if (!strcmp(op, "tget")) {
			const T *e = arr[x]->get(vh_int(arg[0]));
			rd = e ? hexstr(e, sizeof(T)) : "none";
			vh_tok("D:0/0");
		}
		else if (!strcmp(op, "toff")) {
			size_t n; uint8_t *d = vh_unhex(arg[0], &n);
			if (n != sizeof(T)) vh_tok("G");
			else {
				long off;
				{
					T v;
					memcpy(static_cast<void *>(&v), d, sizeof(T));
					off = arr[x]->offset(v);
				}
				sprintf(rdbuf, "%ld", off); rd = rdbuf;
				vh_tok("D:0/0");
			}
			free(d);
		}
		else if (!strcmp(op, "tcmp")) {
			if (do_compact(*arr[x]) < 0) vh_tok("?%s", op); else vh_tok("D:0/0");
		}
		else if (!strcmp(op, "tswp")) {
			/* a pointer_array owns a block unless made from a negative length: not applied to the static default_data */
			int r = raw(x) ? do_swap(*arr[x], vh_int(arg[0]), vh_int(arg[1])) : 2;
			if (r < 0) vh_tok("?%s", op); else vh_tok(r == 2 ? "G" : r ? "D:0/0" : "R");
		}
		else if (!strcmp(op, "tunu")) {
			long u = do_unused(*arr[x]);
			if (u < 0) vh_tok("?%s", op);
			else { sprintf(rdbuf, "%ld", u); rd = rdbuf; vh_tok("D:0/0"); }
		}
		else if (!strcmp(op, "flg")) {
			const buf_view *b = raw(x);
			if (!b) vh_tok("G");
			else { hdr(b)->flags = vh_int(arg[0]); vh_tok("D:0/0"); }
		}
		else {
			vh_tok("?%s", op);
		}
		api_bad = 0;
		for (i = 0; i < NARR; i++) hdata[i] = arr[i]->begin();
		for (i = 0; i < NARR; i++) api_check<A, T>(*arr[i], i);
		dump(rd, sizeof(T));
	}
}
/* ---- map<uint32_t, uint32_t> */
static void run_maps(int ntok, char **tok)
{
	typedef u32map::entry entry;
	u32map *arr[NARR];
	int t = 2, i;
	if (sizeof(entry) != 8) { vh_tok("?layout"); return; }
	for (i = 0; i < NARR; i++) arr[i] = new u32map;
	for (i = 0; i < NARR; i++) hdata[i] = arr[i]->begin();
	while (t < ntok) {
		const char *op = tok[t++];
		long x = vh_int(tok[t++]);
		char **arg = tok + t;
		const char *rd = 0;
		int nargs = 0;
		if (!strcmp(op, "tcp") || !strcmp(op, "tcc") || !strcmp(op, "mget") || !strcmp(op, "mval") || !strcmp(op, "flg")) nargs = 1;
		else if (!strcmp(op, "mset") || !strcmp(op, "mapp")) nargs = 2;
		t += nargs;
		if (x < 0 || x >= NARR) {
			vh_tok("G");
		}
		else if (!strcmp(op, "tcp") || !strcmp(op, "tcc")) {
			long y = vh_int(arg[0]);
			if (y < 0 || y >= NARR || (op[2] == 'c' && x == y)) vh_tok("G");
			else if (op[2] == 'p') { *arr[x] = *arr[y]; vh_tok("D:0/0"); }
			else { delete arr[x]; arr[x] = new u32map(*arr[y]); vh_tok("D:0/0"); }
		}
		else if (!strcmp(op, "tclr")) {
			int had = raw(x) ? 2 : 0;
			*arr[x] = u32map();
			hdata[x] = arr[x]->begin();
			vh_tok("D:0/%d", raw(x) ? 0 : had);
		}
		else if (!strcmp(op, "mset") || !strcmp(op, "mapp")) {
			uint32_t k = (uint32_t) vh_u64(arg[0]), v = (uint32_t) vh_u64(arg[1]);
			bool r = op[1] == 's' ? arr[x]->set(k, v) : arr[x]->append(k, v);
			vh_tok(r ? "D:0/0" : "R");
		}
		else if (!strcmp(op, "mget")) {
			uint32_t k = (uint32_t) vh_u64(arg[0]);
			const uint32_t *v = arr[x]->get(k);
			const uint8_t *lo = reinterpret_cast<const uint8_t *>(arr[x]->begin());
			const uint8_t *hi = reinterpret_cast<const uint8_t *>(arr[x]->end());
			/* an address outside the elements is reported, not read */
			if (!v) rd = "none";
			else if (reinterpret_cast<const uint8_t *>(v) < lo || reinterpret_cast<const uint8_t *>(v + 1) > hi) rd = "outside";
			else rd = hexstr(v, sizeof(*v));
			vh_tok("D:0/0");
		}
		else if (!strcmp(op, "mval") || !strcmp(op, "mall")) {
			if (op[1] == 'v') {
				uint32_t k = (uint32_t) vh_u64(arg[0]);
				typed_array<uint32_t> r = arr[x]->values(k);
				rd = hexstr(r.begin(), r.length() * sizeof(uint32_t));
			} else {
				typed_array<uint32_t> r = arr[x]->values();
				rd = hexstr(r.begin(), r.length() * sizeof(uint32_t));
			}
			vh_tok("D:0/0");
		}
		else if (!strcmp(op, "flg")) {
			const buf_view *b = raw(x);
			if (!b) vh_tok("G");
			else { hdr(b)->flags = vh_int(arg[0]); vh_tok("D:0/0"); }
		}
		else {
			vh_tok("?%s", op);
		}
		api_bad = 0;
		for (i = 0; i < NARR; i++) hdata[i] = arr[i]->begin();
		for (i = 0; i < NARR; i++) {
			const buf_view *b = raw(i);
			size_t used = b ? b->used : 0;
			if ((size_t) (reinterpret_cast<const uint8_t *>(arr[i]->end()) - reinterpret_cast<const uint8_t *>(arr[i]->begin())) != used) api_bad = 1;
		}
		dump(rd, sizeof(entry));
	}
}
static void run_case(int ntok, char **tok)
{
	if (sizeof(hdr_view) + sizeof(buffer) != 8 * sizeof(void *) || sizeof(buf_view) != sizeof(buffer)
	    || sizeof(Counted) != 12) { vh_tok("?layout"); return; }
	if (ntok < 2 || tok[1][0] != 'T' || !tok[1][1] || tok[1][2]) { vh_tok("?family"); return; }
	switch (tok[1][1]) {
	case 'd': run_arrays<typed_array<double>, double>(ntok, tok); break;
	case 'u': run_arrays<typed_array<uint32_t>, uint32_t>(ntok, tok); break;
	case 'k': counted = 1; run_arrays<typed_array<Counted>, Counted>(ntok, tok); break;
	case 'q': run_arrays<unique_array<double>, double>(ntok, tok); break;
	case 'r': counted = 1; run_arrays<unique_array<Counted>, Counted>(ntok, tok); break;
	case 'p': run_arrays<pointer_array<Obj>, Obj *>(ntok, tok); break;
	case 'm': run_maps(ntok, tok); break;
	default: vh_tok("?family");
	}
}
int main(int argc, char **argv)
{
	return vh_main(argc, argv, run_case);
}
