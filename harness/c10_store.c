/* C10 harness (C part): process-global configuration + sub-tree views (kind G),
 * raw config_item arrays through mpt_config_item_reserve/query (kind J) and
 * path operations (kind P).  Grammar: see props/c10.py.  One case per forked
 * child, so the process-global store starts empty.
 *
 * Kind G goes through the interface programs use: mpt_config_set (separator and
 * end character), mpt_config_query with handlers (also one that walks the
 * collection it is given), mpt_config_getp / mpt_config_get with type 0, vector
 * of char and 's', and the metatype side of the handles (type list, addref,
 * clone, conversion to a node pointer, the NULL path forms).
 *
 * The state is read back independently of the library: the node tree is walked
 * from the file-local `nodeGlobal` (config_global.c is included below), link
 * fields are checked, item arrays are walked slot by slot from the raw buffer.
 */
#include "common.h"

#include <sys/uio.h>

#include "array.h"
#include "meta.h"
#include "node.h"
#include "types.h"
#include "convert.h"
#include "config.h"
#include "object.h"
#include <stddef.h>

/* reach the file-local `nodeGlobal` */
#include "config/config_global.c"

static unsigned cksum(const uint8_t *b, size_t n)
{
	unsigned long acc = 0;
	size_t i;
	for (i = 0; i < n; i++) acc = (acc + (i + 1) * b[i]) % 65521;
	return (unsigned) acc;
}
static void enc(size_t lim, const void *p, size_t n)
{
	if (n <= lim) { vh_hex(p, n); return; }
	vh_add("%zu.%u.", n, cksum((const uint8_t *) p, n));
	vh_hex(p, 3);
}
#define venc(p, n) enc(6, p, n)

struct spec { int h; int sep; char *str; int end; };

/* <handle>:<sephex>:<str>[:<endhex>] */
static struct spec parse_spec(const char *t0)
{
	struct spec s;
	char *t = strdup(t0);
	char *c1 = strchr(t, ':'), *c2 = c1 ? strchr(c1 + 1, ':') : 0, *c3 = c2 ? strchr(c2 + 1, ':') : 0;
	unsigned sep = 0, end = 0;
	if (!c1 || !c2) { fprintf(stderr, "bad pathspec %s\n", t); _exit(3); }
	if (c3) { *c3 = 0; sscanf(c3 + 1, "%2x", &end); }
	s.end = (int) end;
	s.h = atoi(t);
	sscanf(c1 + 1, "%2x", &sep);
	s.sep = (int) sep;
	if (!strcmp(c2 + 1, "~")) s.str = 0;
	else {
		size_t n;
		uint8_t *b = vh_unhex(c2 + 1, &n);
		s.str = (char *) malloc(n + 1);
		if (n) memcpy(s.str, b, n);
		s.str[n] = 0;
		free(b);
	}
	return s;
}
static char *cstr_of_hex(const char *t)
{
	size_t n;
	uint8_t *b = vh_unhex(t, &n);
	char *s = (char *) malloc(n + 1);
	if (n) memcpy(s, b, n);
	s[n] = 0;
	free(b);
	return s;
}
/* text held by a metatype: 1 = text printed, 0 = no text */
static int meta_text(MPT_INTERFACE(metatype) *mt, const uint8_t **base, size_t *len)
{
	struct iovec vec = { 0, 0 };
	const char *s = 0;
	if (!mt) return 0;
	if (MPT_metatype_convert(mt, MPT_type_toVector('c'), &vec) >= 0 && vec.iov_base) {
		*base = (const uint8_t *) vec.iov_base;
		*len = vec.iov_len;
		if (*len && !(*base)[*len - 1]) --*len;
		return 1;
	}
	if (MPT_metatype_convert(mt, 's', &s) >= 0 && s) {
		*base = (const uint8_t *) s;
		*len = strlen(s);
		return 1;
	}
	return 0;
}

/* ---------------------------------------------------------------- kind G */
static int links_ok(const MPT_STRUCT(node) *first, const MPT_STRUCT(node) *parent)
{
	const MPT_STRUCT(node) *n, *prev = 0;
	for (n = first; n; prev = n, n = n->next) {
		if (n->prev != prev) return 0;
		if (n->parent != parent) return 0;
		if (n->children && !links_ok(n->children, n)) return 0;
	}
	return 1;
}
static void dump_nodes(const MPT_STRUCT(node) *first)
{
	const MPT_STRUCT(node) *n;
	if (!first) { vh_add("0"); return; }
	for (n = first; n; n = n->next) {
		const uint8_t *b; size_t l;
		const uint8_t *id = (const uint8_t *) mpt_identifier_data(&n->ident);
		if (n != first) vh_add(",");
		venc(id, n->ident._len ? n->ident._len - 1 : 0);
		if (meta_text(n->_meta, &b, &l)) { vh_add("="); venc(b, l); }
		else vh_add("!");
		if (n->children) { vh_add("("); dump_nodes(n->children); vh_add(")"); }
	}
}
struct getctx { int found; const uint8_t *base; size_t len; const void *val; };
static int get_handler(void *ptr, MPT_INTERFACE(convertable) *val, const MPT_INTERFACE(collection) *coll)
{
	struct getctx *c = (struct getctx *) ptr;
	(void) coll;
	c->val = val;
	c->found = meta_text((MPT_INTERFACE(metatype) *) val, &c->base, &c->len) ? 2 : 1;
	return 0;
}
/* result class of mpt_config_getp / mpt_config_get: y = found, n = MissingData, t = BadType */
/* An element that holds the default metatype (mpt_metatype_default(): what an assignment without
 * value leaves behind) is read as an element without value: its conversions answer BadType
 * where an element without metatype answers MissingData, and asked for the value itself it
 * hands out that shared object.  The harness reports both states alike (see props/c10.py, trusted). */
static int novalue;
static void put_class(int r)
{
	if (novalue && r == MPT_ERROR(BadType)) r = MPT_ERROR(MissingData);
	if (r >= 0) vh_add("y");
	else if (r == MPT_ERROR(MissingData)) vh_add("n");
	else if (r == MPT_ERROR(BadType)) vh_add("t");
	else vh_add("%d", r);
}
static void put_vec(int r, const struct iovec *vec)
{
	size_t len = vec->iov_len;
	const uint8_t *b = (const uint8_t *) vec->iov_base;
	if (r < 0) { put_class(r); return; }
	if (!b) { vh_add("Z"); return; }
	if (len && !b[len - 1]) --len;
	vh_add("V"); venc(b, len);
}
static void put_str(int r, const char *str)
{
	if (r < 0) { put_class(r); return; }
	if (!str) { vh_add("Z"); return; }
	vh_add("V"); venc(str, strlen(str));
}
/* the value asked for as itself (TypeConvertablePtr): the object a query handler is given,
 * read like any other value; W = some other object, Z = success without object */
static void put_conv(int r, MPT_INTERFACE(convertable) *cv, const void *seen)
{
	const uint8_t *b; size_t l;
	if (r < 0) { put_class(r); return; }
	if (!cv) { vh_add("Z"); return; }
	if ((const void *) cv != seen) { vh_add("W"); return; }
	if (novalue && (const void *) cv == (const void *) mpt_metatype_default()) { vh_add("n"); return; }
	if (!meta_text((MPT_INTERFACE(metatype) *) cv, &b, &l)) { vh_add("E"); return; }
	vh_add("V"); venc(b, l);
}
/* one observation: the element as a query handler sees it, then what the value
 * accessors mpt_config_getp (type 0, vector of char, 's') and, for '.'-separated
 * strings, mpt_config_get report; conv: also the value itself (TypeConvertablePtr)
 * through both accessors */
static void observe_cfg(MPT_INTERFACE(config) *cfg, const struct spec *s, int conv)
{
	MPT_STRUCT(path) p = MPT_PATH_INIT;
	struct getctx c = { 0, 0, 0, 0 };
	struct iovec vec = { 0, 0 };
	const char *str = 0;
	int r;
	if (s->str) {
		p.sep = s->sep;
		p.assign = 0;
		mpt_path_set(&p, s->str, -1);
	}
	r = mpt_config_query(cfg, &p, get_handler, &c);
	novalue = (r >= 0 && c.found == 1 && c.val == (const void *) mpt_metatype_default());
	if (r < 0 || !c.found) vh_add("A");
	else if (c.found == 1) vh_add("E");
	else { vh_add("V"); venc(c.base, c.len); }
	vh_add("/");
	put_class(mpt_config_getp(cfg, &p, 0, 0));
	vh_add("/");
	r = mpt_config_getp(cfg, &p, MPT_type_toVector('c'), &vec);
	put_vec(r, &vec);
	vh_add("/");
	r = mpt_config_getp(cfg, &p, 's', &str);
	put_str(r, str);
	if (s->sep == '.') {
		str = 0;
		vh_add("/");
		r = mpt_config_get(cfg, s->str, 's', &str);
		put_str(r, str);
	}
	if (conv) {
		MPT_INTERFACE(convertable) *cv = 0;
		vh_add("/");
		r = mpt_config_getp(cfg, &p, MPT_ENUM(TypeConvertablePtr), &cv);
		put_conv(r, cv, c.val);
		/* without a target the answer is the same */
		if ((mpt_config_getp(cfg, &p, MPT_ENUM(TypeConvertablePtr), 0) < 0) != (r < 0)) vh_add("F:notarget");
		if (s->sep == '.') {
			cv = 0;
			vh_add("/");
			r = mpt_config_get(cfg, s->str, MPT_ENUM(TypeConvertablePtr), &cv);
			put_conv(r, cv, c.val);
		}
	}
}
/* ---- listing through the collection a query handler receives (collectionEach) */
struct lctx { int count, depth; };
static int list_item(void *ptr, const MPT_STRUCT(identifier) *id, MPT_INTERFACE(convertable) *val, const MPT_INTERFACE(collection) *sub)
{
	struct lctx *c = (struct lctx *) ptr, ch;
	const uint8_t *b; size_t l;
	if (!c->count++) { if (c->depth) vh_add("("); }
	else vh_add(",");
	venc(mpt_identifier_data(id), id->_len ? id->_len - 1 : 0);
	if (meta_text((MPT_INTERFACE(metatype) *) val, &b, &l)) { vh_add("="); venc(b, l); }
	else vh_add("!");
	ch.count = 0;
	ch.depth = c->depth + 1;
	if (sub && sub->_vptr->each(sub, list_item, &ch) < 0) vh_add("?");
	if (ch.count) vh_add(")");
	return 0;
}
static int list_handler(void *ptr, MPT_INTERFACE(convertable) *val, const MPT_INTERFACE(collection) *coll)
{
	struct lctx ch = { 0, 0 };
	const uint8_t *b; size_t l;
	(void) ptr;
	vh_add("L");
	if (meta_text((MPT_INTERFACE(metatype) *) val, &b, &l)) { vh_add("="); venc(b, l); }
	else vh_add("!");
	vh_add("(");
	if (coll && coll->_vptr->each(coll, list_item, &ch) < 0) vh_add("?");
	if (!ch.count) vh_add("0");
	vh_add(")");
	return 0;
}
/* a handler whose item callback refuses the first item: the error must come back */
static int stop_item(void *ptr, const MPT_STRUCT(identifier) *id, MPT_INTERFACE(convertable) *val, const MPT_INTERFACE(collection) *sub)
{
	(void) ptr; (void) id; (void) val; (void) sub;
	return -7;
}
static int stop_handler(void *ptr, MPT_INTERFACE(convertable) *val, const MPT_INTERFACE(collection) *coll)
{
	(void) ptr; (void) val;
	return coll ? coll->_vptr->each(coll, stop_item, 0) : 0;
}
struct selfctx { const void *self; int same; };
static int self_handler(void *ptr, MPT_INTERFACE(convertable) *val, const MPT_INTERFACE(collection) *coll)
{
	struct selfctx *c = (struct selfctx *) ptr;
	c->same = ((const void *) val == c->self && !coll) ? 1 : 0;
	return 0;
}
static void run_global(int ntok, char **tok)
{
	int i = 2, nv, no, k;
	const int conv = tok[1][1] == 'c';   /* "Gc": the observations also ask for the value itself */
	struct spec *views, *obs;
	MPT_INTERFACE(config) **cfg;
	MPT_INTERFACE(metatype) **mts;

	nv = atoi(tok[i++]);
	views = (struct spec *) calloc(nv + 1, sizeof(*views));
	cfg = (MPT_INTERFACE(config) **) calloc(nv + 1, sizeof(*cfg));
	mts = (MPT_INTERFACE(metatype) **) calloc(nv + 1, sizeof(*mts));
	mts[0] = mpt_config_global(0);
	for (k = 0; k < nv; k++) views[k] = parse_spec(tok[i++]);
	no = atoi(tok[i++]);
	obs = (struct spec *) calloc(no + 1, sizeof(*obs));
	for (k = 0; k < no; k++) obs[k] = parse_spec(tok[i++]);

	/* handle 0: the global configuration itself (conf = NULL), i > 0: view on a base path */
	for (k = 0; k < nv; k++) {
		MPT_STRUCT(path) p = MPT_PATH_INIT;
		MPT_INTERFACE(metatype) *mt;
		p.sep = views[k].sep;
		mpt_path_set(&p, views[k].str, -1);
		if (!(mt = mpt_config_global(&p))
		    || MPT_metatype_convert(mt, MPT_ENUM(TypeConfigPtr), &cfg[k + 1]) < 0
		    || !cfg[k + 1]) {
			vh_tok("F:view");
			return;
		}
		mts[k + 1] = mt;
	}
	while (i < ntok) {
		const char *op = tok[i++];
		struct spec s;
		int r;
		if (i >= ntok) break;
		s = parse_spec(tok[i++]);
		if (!strcmp(op, "a")) {
			char *v = cstr_of_hex(tok[i++]);
			r = mpt_config_set(cfg[s.h], s.str, v, s.sep, s.end);
			vh_tok("%s", r >= 0 ? "ok" : "no");
		}
		else if (!strcmp(op, "z")) {
			/* assignment without value through the interface: configAssign(cfg, path, NULL)
			 * -> mpt_node_assign(.., NULL) / mpt_meta_set(&node->_meta, NULL) */
			MPT_STRUCT(path) p = MPT_PATH_INIT;
			MPT_INTERFACE(config) *self = cfg[s.h];
			if (!self) MPT_metatype_convert(mts[s.h], MPT_ENUM(TypeConfigPtr), &self);
			if (s.str) {
				p.sep = s.sep;
				p.assign = 0;
				mpt_path_set(&p, s.str, -1);
			}
			r = self->_vptr->assign(self, &p, 0);
			/* the type code of what the element holds now: > 0 = it still holds a value */
			vh_tok("%s", r > 0 ? "ok+" : r == 0 ? "ok" : "no");
		}
		else if (!strcmp(op, "t")) {
			/* assignment of a typed value through the interface: s = string, p = pointer to a
			 * NULL string (empty text), v = vector of char (exactly the bytes, nothing behind
			 * them), b = array of char, i = an integer (no text: refused) */
			const char *ty = tok[i++];
			size_t n;
			uint8_t *raw = vh_unhex(tok[i++], &n);
			uint8_t *exact = (uint8_t *) malloc(n ? n : 1);
			char *str = (char *) malloc(n + 1);
			const char *nul = 0;
			struct iovec vec;
			int32_t num = 4711;
			MPT_STRUCT(array) arr = MPT_ARRAY_INIT;
			MPT_STRUCT(value) val = MPT_VALUE_INIT(0, 0);
			MPT_STRUCT(path) p = MPT_PATH_INIT;
			MPT_INTERFACE(config) *self = cfg[s.h];
			if (!self) MPT_metatype_convert(mts[s.h], MPT_ENUM(TypeConfigPtr), &self);
			if (s.str) {
				p.sep = s.sep;
				p.assign = 0;
				mpt_path_set(&p, s.str, -1);
			}
			if (n) { memcpy(exact, raw, n); memcpy(str, raw, n); }
			str[n] = 0;
			vec.iov_base = exact;
			vec.iov_len = n;
			switch (ty[0]) {
			  case 's': MPT_value_set(&val, 's', &str); break;
			  case 'p': MPT_value_set(&val, 's', &nul); break;
			  case 'v': MPT_value_set(&val, MPT_type_toVector('c'), &vec); break;
			  case 'b': {
				const MPT_STRUCT(type_traits) *traits = mpt_type_traits('c');
				MPT_STRUCT(buffer) *buf = mpt_array_reserve(&arr, n, traits);
				if (!buf || mpt_buffer_set(buf, traits, 0, raw, n) < 0) { vh_tok("F:array"); return; }
				MPT_value_set(&val, MPT_ENUM(TypeArray), &arr);
				break;
			  }
			  default: MPT_value_set(&val, 'i', &num); break;
			}
			r = self->_vptr->assign(self, &p, &val);
			vh_tok("%s", r >= 0 ? "ok" : "no");
			/* the store keeps nothing of the caller's value */
			memset(exact, 0x5a, n); memset(str, 0x5a, n);
			free(exact); free(str); free(raw);
			mpt_array_clone(&arr, 0);
		}
		else if (!strcmp(op, "l")) {
			/* walk the collection handed to the query handler */
			MPT_STRUCT(path) p = MPT_PATH_INIT;
			if (s.str) {
				p.sep = s.sep;
				p.assign = 0;
				mpt_path_set(&p, s.str, -1);
			}
			vh_tok("%s", "");
			if (mpt_config_query(cfg[s.h], &p, list_handler, 0) < 0) vh_add("LA");
			else vh_add(";s%d", mpt_config_query(cfg[s.h], &p, stop_handler, 0));
		}
		else if (!strcmp(op, "n")) {
			/* the handle as node pointer: a view gets or creates its base node */
			MPT_STRUCT(node) *n = 0;
			r = MPT_metatype_convert(mts[s.h], MPT_ENUM(TypeNodePtr), &n);
			if (r < 0 || !n) vh_tok("N%d", r);
			else {
				const uint8_t *b; size_t l;
				vh_tok("Ny:");
				venc(mpt_identifier_data(&n->ident), n->ident._len ? n->ident._len - 1 : 0);
				if (meta_text(n->_meta, &b, &l)) { vh_add("="); venc(b, l); }
				else vh_add("!");
			}
		}
		else if (!strcmp(op, "y")) {
			/* remove with path == NULL: a view drops the value of its base element */
			MPT_INTERFACE(config) *self = cfg[s.h];
			if (!self) MPT_metatype_convert(mts[s.h], MPT_ENUM(TypeConfigPtr), &self);
			vh_tok("y%d", self->_vptr->remove(self, 0));
		}
		else if (!strcmp(op, "k")) {
			/* metatype side of the handle: type list, reference counting, clone (the clone
			 * replaces the handle, the old one is released), the NULL path forms */
			MPT_INTERFACE(metatype) *mt = mts[s.h], *cl;
			MPT_INTERFACE(config) *c2 = 0;
			const uint8_t *fmt = 0;
			struct selfctx sc = { 0, -1 };
			const char *txt = 0;
			MPT_INTERFACE(config) *self = cfg[s.h];
			if (!self) MPT_metatype_convert(mt, MPT_ENUM(TypeConfigPtr), &self);
			sc.self = mt;
			vh_tok("K%d.%d.", MPT_metatype_convert(mt, 0, 0), MPT_metatype_convert(mt, 0, &fmt));
			if (fmt) vh_hex(fmt, strlen((const char *) fmt)); else vh_add("~");
			vh_add(".%d", (int) mt->_vptr->addref(mt));
			cl = mt->_vptr->clone(mt);
			if (cl && MPT_metatype_convert(cl, MPT_ENUM(TypeConfigPtr), &c2) >= 0 && c2) {
				vh_add(".c");
				mt->_vptr->unref(mt);
				mts[s.h] = cl;
				cfg[s.h] = c2;
				self = c2;
				sc.self = cl;
			}
			else {
				vh_add(".~");
				mt->_vptr->unref(mt);   /* the static global instance: nothing happens */
			}
			self->_vptr->query(self, 0, self_handler, &sc);
			vh_add(".%d.%d.%d.%d", sc.same, self->_vptr->query(self, 0, 0, 0), self->_vptr->assign(self, 0, 0),
			       MPT_metatype_convert(mts[s.h], 's', &txt));
		}
		else {
			r = mpt_config_set(cfg[s.h], s.str, 0, s.sep, s.end);
			vh_tok("%s", r == 1 ? "rm" : "--");
		}
		vh_add("|%d|", links_ok(nodeGlobal, 0));
		for (k = 0; k < no; k++) {
			if (k) vh_add(",");
			observe_cfg(cfg[obs[k].h], &obs[k], conv);
		}
		vh_add("|");
		dump_nodes(nodeGlobal);
	}
}

/* ---------------------------------------------------------------- kind M */
/* mpt_meta_set on ONE metatype reference: every way meta_set.c can take.  Besides what the
 * library makes itself (text in the basic / buffer metatype, the default metatype, a view of
 * the process-wide configuration = a real TypeConfigPtr value) the harness supplies values
 * that ARE an object, a configuration or an iterator and accept / refuse what they are asked. */
struct hcell {
	MPT_INTERFACE(metatype) _mt;
	MPT_INTERFACE(object) _obj;
	MPT_INTERFACE(config) _cfg;
	MPT_INTERFACE(iterator) _it;
	int kind, accept, has;
	uint8_t *text;
	size_t len;
};
#define HCELL(p, m) ((struct hcell *) ((char *) (p) - offsetof(struct hcell, m)))
static int hcell_unrefs, hcell_bad;
static int hcell_take(struct hcell *c, const MPT_STRUCT(value) *val)
{
	const void *src = val->_addr;
	const char *txt;
	size_t len;
	if (!(txt = mpt_data_tostring(&src, val->_type, &len))) return MPT_ERROR(BadType);
	free(c->text);
	c->text = (uint8_t *) malloc(len ? len : 1);
	if (len) memcpy(c->text, txt, len);
	c->len = len;
	c->has = 1;
	return 0;
}
static int hcellConv(MPT_INTERFACE(convertable) *conv, MPT_TYPE(type) type, void *ptr)
{
	struct hcell *c = (struct hcell *) conv;
	if (!type) {
		static const uint8_t fmt[] = { 0 };
		if (ptr) *((const uint8_t **) ptr) = fmt;
		return MPT_ENUM(TypeMetaPtr);
	}
	if (type == MPT_ENUM(TypeMetaPtr)) { if (ptr) *((void **) ptr) = &c->_mt; return type; }
	if (type == MPT_ENUM(TypeObjectPtr) && c->kind == 'o') { if (ptr) *((void **) ptr) = &c->_obj; return type; }
	if (type == MPT_ENUM(TypeConfigPtr) && c->kind == 'c') { if (ptr) *((void **) ptr) = &c->_cfg; return type; }
	if (type == MPT_ENUM(TypeIteratorPtr) && c->kind == 'i') { if (ptr) *((void **) ptr) = &c->_it; return type; }
	return MPT_ERROR(BadType);
}
static void hcellUnref(MPT_INTERFACE(metatype) *mt)
{
	struct hcell *c = (struct hcell *) mt;
	++hcell_unrefs;
	free(c->text);
	free(c);
}
static uintptr_t hcellRef(MPT_INTERFACE(metatype) *mt) { (void) mt; return 0; }
static MPT_INTERFACE(metatype) *hcellClone(const MPT_INTERFACE(metatype) *mt) { (void) mt; return 0; }
static int hcellProp(const MPT_INTERFACE(object) *obj, MPT_STRUCT(property) *pr) { (void) obj; (void) pr; return MPT_ERROR(BadOperation); }
static int hcellSetProp(MPT_INTERFACE(object) *obj, const char *name, MPT_INTERFACE(convertable) *src)
{
	struct hcell *c = HCELL(obj, _obj);
	MPT_STRUCT(value) val = MPT_VALUE_INIT(0, 0);
	if (name) ++hcell_bad;
	if (!c->accept) return MPT_ERROR(BadValue);
	if (!src) { c->has = 0; return 0; }
	if (src->_vptr->convert(src, MPT_ENUM(TypeValue), &val) < 0) return MPT_ERROR(BadType);
	return hcell_take(c, &val);
}
static int hcellQuery(const MPT_INTERFACE(config) *cfg, const MPT_STRUCT(path) *p, MPT_TYPE(config_handler) fcn, void *ctx)
{ (void) cfg; (void) p; (void) fcn; (void) ctx; return MPT_ERROR(BadOperation); }
static int hcellAssign(MPT_INTERFACE(config) *cfg, const MPT_STRUCT(path) *p, const MPT_STRUCT(value) *val)
{
	struct hcell *c = HCELL(cfg, _cfg);
	if (p) ++hcell_bad;
	if (!c->accept) return MPT_ERROR(BadOperation);
	if (!val) { c->has = 0; return 0; }
	return hcell_take(c, val);
}
static int hcellRemove(MPT_INTERFACE(config) *cfg, const MPT_STRUCT(path) *p) { (void) cfg; (void) p; return MPT_ERROR(BadOperation); }
static const MPT_STRUCT(value) *hcellValue(MPT_INTERFACE(iterator) *it) { (void) it; return 0; }
static int hcellAdvance(MPT_INTERFACE(iterator) *it) { (void) it; return 0; }
static int hcellReset(MPT_INTERFACE(iterator) *it)
{
	struct hcell *c = HCELL(it, _it);
	return c->accept ? 0 : MPT_ERROR(BadOperation);
}
static MPT_INTERFACE(metatype) *hcell_new(int kind, int accept, const uint8_t *txt, size_t len)
{
	static const MPT_INTERFACE_VPTR(metatype) mvt = { { hcellConv }, hcellUnref, hcellRef, hcellClone };
	static const MPT_INTERFACE_VPTR(object) ovt = { hcellProp, hcellSetProp };
	static const MPT_INTERFACE_VPTR(config) cvt = { hcellQuery, hcellAssign, hcellRemove };
	static const MPT_INTERFACE_VPTR(iterator) ivt = { hcellValue, hcellAdvance, hcellReset };
	struct hcell *c = (struct hcell *) calloc(1, sizeof(*c));
	c->_mt._vptr = &mvt;
	c->_obj._vptr = &ovt;
	c->_cfg._vptr = &cvt;
	c->_it._vptr = &ivt;
	c->kind = kind;
	c->accept = accept;
	if (txt) {
		c->text = (uint8_t *) malloc(len ? len : 1);
		if (len) memcpy(c->text, txt, len);
		c->len = len;
		c->has = 1;
	}
	return &c->_mt;
}
static const char view_key[] = "mset.x";
static void run_metaset(int ntok, char **tok)
{
	MPT_INTERFACE(metatype) *cell = 0, *view = 0;
	int i = 2;
	while (i < ntok) {
		const char *op = tok[i++];
		MPT_INTERFACE(metatype) *before = cell;
		int r = 0, installed = 0;
		hcell_unrefs = 0;
		if (!strcmp(op, "s") || !strcmp(op, "v")) {
			size_t n;
			uint8_t *raw = vh_unhex(tok[i++], &n);
			uint8_t *exact = (uint8_t *) malloc(n ? n : 1);
			char *str = (char *) malloc(n + 1);
			struct iovec vec;
			MPT_STRUCT(value) val = MPT_VALUE_INIT(0, 0);
			if (n) { memcpy(exact, raw, n); memcpy(str, raw, n); }
			str[n] = 0;
			vec.iov_base = exact;
			vec.iov_len = n;
			if (op[0] == 's') MPT_value_set(&val, 's', &str);
			else MPT_value_set(&val, MPT_type_toVector('c'), &vec);
			r = mpt_meta_set(&cell, &val);
			memset(exact, 0x5a, n); memset(str, 0x5a, n);
			free(exact); free(str); free(raw);
		}
		else if (!strcmp(op, "i")) {
			int32_t num = 4711;
			MPT_STRUCT(value) val = MPT_VALUE_INIT('i', &num);
			r = mpt_meta_set(&cell, &val);
		}
		else if (!strcmp(op, "0")) {
			r = mpt_meta_set(&cell, 0);
		}
		else {
			/* install another kind of value (the old one is released by the harness) */
			const char *mode = tok[i++];
			MPT_INTERFACE(metatype) *nc = 0;
			if (!strcmp(op, "view")) {
				MPT_STRUCT(path) p = MPT_PATH_INIT;
				mpt_path_set(&p, view_key, -1);
				nc = mpt_config_global(&p);
				view = nc;
			}
			else if (!strcmp(op, "it")) nc = hcell_new('i', mode[0] == 'a', (const uint8_t *) "it", 2);
			else nc = hcell_new(op[0], mode[0] == 'a', 0, 0);
			if (cell) cell->_vptr->unref(cell);
			if (before == view && nc != view) view = 0;
			cell = nc;
			installed = 1;
			hcell_unrefs = 0;
		}
		vh_tok("m:%s|%s|", r >= 0 ? "ok" : "e", installed ? "+" : cell == before ? "=" : "!");
		if (!cell) vh_add("0|E");
		else if (cell == mpt_metatype_default()) vh_add("d|E");
		else if (cell == view) {
			/* what the view's element in the process-wide configuration holds */
			struct getctx c = { 0, 0, 0, 0 };
			MPT_STRUCT(path) p = MPT_PATH_INIT;
			mpt_path_set(&p, view_key, -1);
			vh_add("w|");
			if (mpt_config_query(0, &p, get_handler, &c) < 0 || c.found < 2) vh_add("E");
			else { vh_add("V"); venc(c.base, c.len); }
		}
		else if (cell->_vptr->unref == hcellUnref) {
			struct hcell *c = (struct hcell *) cell;
			vh_add("%c%c|", c->kind, c->accept ? '+' : '-');
			if (c->has) { vh_add("V"); venc(c->text, c->len); } else vh_add("E");
		}
		else {
			const uint8_t *b; size_t l;
			vh_add("t|");
			if (meta_text(cell, &b, &l)) { vh_add("V"); venc(b, l); } else vh_add("E");
		}
		vh_add("|u%d", hcell_unrefs);
		if (hcell_bad) vh_add("F:args");
	}
	if (cell) cell->_vptr->unref(cell);
}

/* ---------------------------------------------------------------- kind J */
static MPT_STRUCT(config_item) *items_of(const MPT_STRUCT(array) *a, size_t *count)
{
	MPT_STRUCT(buffer) *b = a->_buf;
	if (!b) { *count = 0; return 0; }
	*count = b->_used / sizeof(MPT_STRUCT(config_item));
	return (MPT_STRUCT(config_item) *) (b + 1);
}
static void dump_items(const MPT_STRUCT(array) *a)
{
	size_t n, k;
	MPT_STRUCT(config_item) *it = items_of(a, &n);
	if (!n) { vh_add("0"); return; }
	for (k = 0; k < n; k++) {
		const uint8_t *b; size_t l, sub;
		if (k) vh_add(",");
		if (!it[k].identifier._len) { vh_add("_"); continue; }
		venc(mpt_identifier_data(&it[k].identifier), it[k].identifier._len - 1);
		if (meta_text(it[k].value, &b, &l)) { vh_add("="); venc(b, l); }
		else vh_add("!");
		(void) items_of(&it[k].elements, &sub);
		if (sub) { vh_add("("); dump_items(&it[k].elements); vh_add(")"); }
	}
}
/* whatever lies between _used and _size is not part of the array: put a
 * plausible stale item there (what a memmove or an earlier, larger use of the
 * block can leave behind) */
static void decoys(const MPT_STRUCT(array) *a)
{
	size_t n, k;
	MPT_STRUCT(buffer) *b = a->_buf;
	MPT_STRUCT(config_item) *it = items_of(a, &n);
	if (!b) return;
	for (k = 0; k < n; k++) decoys(&it[k].elements);
	if (b->_size - b->_used >= sizeof(*it)) {
		MPT_STRUCT(config_item) *slot = it + n;
		mpt_config_item_traits()->init(slot, 0);
		mpt_identifier_set(&slot->identifier, "zz", 2);
	}
}
static void observe_items(const MPT_STRUCT(array) *a, const struct spec *s)
{
	MPT_STRUCT(path) p = MPT_PATH_INIT;
	MPT_STRUCT(config_item) *it;
	const uint8_t *b; size_t l;
	if (s->str) {
		p.sep = s->sep;
		p.assign = 0;
		mpt_path_set(&p, s->str, -1);
	}
	if (!(it = mpt_config_item_query(a, &p))) { vh_add("A"); return; }
	if (!meta_text(it->value, &b, &l)) { vh_add("E"); return; }
	vh_add("V"); venc(b, l);
}
static void run_items(int ntok, char **tok)
{
	int i = 2, nv, no, k;
	struct spec *obs;
	MPT_STRUCT(array) arr = MPT_ARRAY_INIT;

	nv = atoi(tok[i++]);
	i += nv;
	no = atoi(tok[i++]);
	obs = (struct spec *) calloc(no + 1, sizeof(*obs));
	for (k = 0; k < no; k++) obs[k] = parse_spec(tok[i++]);

	while (i < ntok) {
		const char *op = tok[i++];
		struct spec s;
		MPT_STRUCT(path) p = MPT_PATH_INIT;
		MPT_STRUCT(config_item) *it;
		if (i >= ntok) break;
		s = parse_spec(tok[i++]);
		if (s.str) {
			p.sep = s.sep;
			p.assign = 0;
			mpt_path_set(&p, s.str, -1);
		}
		if (!strcmp(op, "a")) {
			const char *v = cstr_of_hex(tok[i++]);
			MPT_STRUCT(value) val = MPT_VALUE_INIT('s', &v);
			MPT_INTERFACE(metatype) *mt, *old;
			if (!p.len || !(mt = mpt_meta_new(&val))) {
				vh_tok("no");
			}
			else if (!(it = mpt_config_item_reserve(&arr, &p))) {
				mt->_vptr->unref(mt);
				vh_tok("no");
			}
			else {
				if ((old = it->value)) old->_vptr->unref(old);
				it->value = mt;
				vh_tok("ok");
			}
		} else {
			/* lazy removal: the slot is only marked unused */
			if (p.len && (it = mpt_config_item_query(&arr, &p))) {
				mpt_identifier_set(&it->identifier, 0, 0);
				vh_tok("rm");
			}
			else vh_tok("--");
		}
		decoys(&arr);
		vh_add("|1|");
		for (k = 0; k < no; k++) {
			if (k) vh_add(",");
			observe_items(&arr, &obs[k]);
		}
		vh_add("|");
		dump_items(&arr);
	}
}

/* ---------------------------------------------------------------- kind P */
static size_t path_used(const MPT_STRUCT(path) *p)
{
	const MPT_STRUCT(buffer) *b = (const MPT_STRUCT(buffer) *) p->base;
	return b[-1]._used;
}
static void show_path(MPT_STRUCT(path) *p, int ret, int isset)
{
	MPT_STRUCT(path) q;
	int r, first = 1;
	if (isset && ret >= 0) vh_tok("s"); else vh_tok("%d", ret);
	vh_add("|%zu.%zu.%u.%u.%d|", p->off, p->len, (unsigned) p->first, (unsigned) p->flags, isset ? ret : 0);
	if (p->base) enc(48, p->base + p->off, p->len); else vh_add("-");
	vh_add("|");
	if (p->base && (p->flags & MPT_PATHFLAG(HasArray))) {
		size_t used = path_used(p), end = p->off + p->len;
		enc(48, p->base + end, used > end ? used - end : 0);
	}
	else vh_add("-");
	vh_add("|");
	/* walk a copy */
	q = *p;
	q.flags &= ~MPT_PATHFLAG(HasArray);
	for (;;) {
		size_t off = q.off;
		if ((r = mpt_path_next(&q)) < 0) break;
		if (!first) vh_add(",");
		first = 0;
		enc(12, q.base + off, (size_t) r);
	}
	if (first) vh_add("0");
}
static void run_path(int ntok, char **tok)
{
	MPT_STRUCT(path) p = MPT_PATH_INIT;
	unsigned sep = 0, asg = 0;
	int i = 4, forked = 0;
	const char *strbuf = 0;
	size_t strn = 0;
	sscanf(tok[2], "%2x", &sep);
	sscanf(tok[3], "%2x", &asg);
	p.sep = (char) sep;
	p.assign = (char) asg;
	while (i < ntok) {
		const char *op = tok[i++];
		int r;
		if (!strcmp(op, "set")) {
			const char *s = tok[i++];
			int len = atoi(tok[i++]);
			char *buf = 0;
			if (strcmp(s, "~")) {
				size_t n;
				uint8_t *b = vh_unhex(s, &n);
				buf = (char *) malloc(n + 1);
				if (n) memcpy(buf, b, n);
				buf[n] = 0;
				strbuf = buf; strn = n + 1;
			}
			r = mpt_path_set(&p, buf, len);
			show_path(&p, r, 1);
		}
		else if (!strcmp(op, "sets")) {
			/* what mpt::path::set(str, len, sep, assign) does: fields first, then mpt_path_set */
			const char *s = tok[i++];
			int len = atoi(tok[i++]);
			const char *st = tok[i++], *at = tok[i++];
			char *buf = 0;
			unsigned c;
			if (strcmp(s, "~")) {
				size_t n;
				uint8_t *b = vh_unhex(s, &n);
				buf = (char *) malloc(n + 1);
				if (n) memcpy(buf, b, n);
				buf[n] = 0;
				strbuf = buf; strn = n + 1;
			}
			if (strcmp(st, "~")) { sscanf(st, "%2x", &c); p.sep = (char) c; }
			if (strcmp(at, "~")) { sscanf(at, "%2x", &c); p.assign = (char) c; }
			r = mpt_path_set(&p, buf, len);
			show_path(&p, r, 1);
		}
		else if (!strcmp(op, "next")) { r = mpt_path_next(&p); show_path(&p, r, 0); }
		else if (!strcmp(op, "last")) { r = mpt_path_last(&p); show_path(&p, r, 0); }
		else if (!strcmp(op, "del")) { r = mpt_path_del(&p); show_path(&p, r, 0); }
		else if (!strcmp(op, "add")) { r = mpt_path_add(&p, atoi(tok[i++])); show_path(&p, r, 0); }
		else if (!strcmp(op, "post")) {
			size_t n, k;
			uint8_t *b = vh_unhex(tok[i++], &n);
			/* keep post data that is already there (mpt_path_valid sets KeepPost), then append */
			mpt_path_valid(&p);
			for (k = 0; k < n; k++) {
				if (mpt_path_addchar(&p, b[k]) < 0) { vh_tok("F:addchar"); return; }
				mpt_path_valid(&p);
			}
			show_path(&p, 0, 0);
		}
		else if (!strcmp(op, "bin")) { p.flags |= MPT_PATHFLAG(SepBinary); show_path(&p, 0, 0); }
		else if (!strcmp(op, "clr")) { r = mpt_path_invalidate(&p); show_path(&p, r < 0 ? r : 0, 0); }
		/* copies are a C++ matter (kind Q); a C struct copy changes nothing */
		else if (!strcmp(op, "cp") || !strcmp(op, "asg")) { show_path(&p, 0, 0); }
		else if (!strcmp(op, "fork")) { forked = 1; show_path(&p, 0, 0); }
		else { fprintf(stderr, "bad op %s\n", op); _exit(3); }
		if (forked) vh_add(";o1");
	}
	/* the end of the path's life: storage the path does not point into the caller's string for is an array of
	 * the library; mpt_path_fini must release it exactly once.  The harness holds a second reference over the
	 * call: released once = no longer shared afterwards (twice: the harness's own release hits freed memory) */
	{
		MPT_STRUCT(buffer) *buf = 0;
		if (p.base && !(strbuf && p.base >= strbuf && p.base < strbuf + strn)) {
			buf = ((MPT_STRUCT(buffer) *) p.base) - 1;
			buf->_vptr->addref(buf);
		}
		mpt_path_fini(&p);
		if (!buf) vh_tok("fin:ok");
		else {
			vh_tok((buf->_vptr->get_flags(buf) & MPT_ENUM(BufferShared)) ? "fin:leak" : "fin:ok");
			buf->_vptr->unref(buf);
		}
	}
}

/* ---------------------------------------------------------------- kind N
 * mpt_node_locate / mpt_node_query on sibling lists the harness links itself, holding every kind of
 * identifier: names (mpt_identifier_set with a name: UTF8 + terminator), nameless identifiers
 * (mpt_identifier_set(id, NULL, k): charset 0, k zero bytes), pointer identifiers (charset != 0,
 * length 0, _base = one of four fixed addresses).  The list is installed as the top level of the
 * process-global configuration, every node holds its own trail as value ("v0.1"), so the query
 * operation also shows WHICH node the store reads. */
static char ptr_tags[4];
static MPT_STRUCT(node) *ln_make(const char *spec, const char *trail)
{
	MPT_STRUCT(node) *n = mpt_node_new(0);
	MPT_STRUCT(value) val;
	const char *txt = trail;
	if (spec[0] == 'n') {
		size_t len;
		uint8_t *b = vh_unhex(spec + 1, &len);
		if (!mpt_identifier_set(&n->ident, (const char *) b, (int) len)) { vh_tok("F:ident"); _exit(0); }
		free(b);
	}
	else if (spec[0] == 'z') {
		if (!mpt_identifier_set(&n->ident, 0, atoi(spec + 1))) { vh_tok("F:ident"); _exit(0); }
	}
	else if (spec[0] == 'p') {
		int cs = 0, tag = 0;
		sscanf(spec + 1, "%d.%d", &cs, &tag);
		n->ident._charset = (uint8_t) cs;
		n->ident._len = 0;
		n->ident._base = tag ? ptr_tags + tag : 0;
	}
	MPT_value_set(&val, 's', &txt);
	if (mpt_meta_set(&n->_meta, &val) < 0) { vh_tok("F:value"); _exit(0); }
	return n;
}
static const void *key_ptr(int tag) { return tag ? ptr_tags + tag : 0; }
static void run_locate(int ntok, char **tok)
{
	MPT_STRUCT(node) *top[64];
	int n = atoi(tok[2]), i, t = 3;
	if (n > 64) n = 64;
	for (i = 0; i < n; i++) {
		char *sp = strdup(tok[t++]), *sub, trail[64];
		MPT_STRUCT(node) *prev = 0;
		int j = 0;
		if ((sub = strchr(sp, '/'))) *sub++ = 0;
		snprintf(trail, sizeof(trail), "v%d", i);
		top[i] = ln_make(sp, strdup(trail));
		if (i) { top[i - 1]->next = top[i]; top[i]->prev = top[i - 1]; }
		while (sub && *sub) {
			char *e = strchr(sub, ';');
			MPT_STRUCT(node) *c;
			if (e) *e++ = 0;
			snprintf(trail, sizeof(trail), "v%d.%d", i, j++);
			c = ln_make(sub, strdup(trail));
			c->parent = top[i];
			if (prev) { prev->next = c; c->prev = prev; } else top[i]->children = c;
			prev = c;
			sub = e;
		}
	}
	nodeGlobal = n ? top[0] : 0;
	while (t < ntok) {
		const char *op = tok[t++];
		if (!strcmp(op, "loc")) {
			const char *st = tok[t++];
			int pos = atoi(tok[t++]);
			const char *ks = tok[t++];
			const MPT_STRUCT(node) *curr = strcmp(st, "~") ? top[atoi(st)] : 0, *r;
			const void *id = 0;
			uint8_t *kb = 0;
			size_t len = 0;
			int cs = -1;
			if (ks[0] == 'd') { kb = vh_unhex(ks + 1, &len); id = kb; }
			else if (ks[0] == 'c') { const char *d = strchr(ks, '.'); cs = atoi(ks + 1); kb = vh_unhex(d + 1, &len); id = kb; }
			else if (ks[0] == 'p') { int tag = 0; sscanf(ks + 1, "%d.%d", &cs, &tag); id = key_ptr(tag); }
			else if (ks[0] == 'x') { len = (size_t) atoi(ks + 1); id = 0; }
			if (kb) {
				/* exactly len readable bytes (ASan sees a read behind them) */
				uint8_t *ex = (uint8_t *) malloc(len ? len : 1);
				if (len) memcpy(ex, kb, len);
				free(kb); kb = ex; id = ex;
			}
			errno = 0;
			r = mpt_node_locate(curr, pos, id, len, cs);
			if (!r) vh_tok(errno == EFAULT ? "f" : "n");
			else {
				for (i = 0; i < n && top[i] != r; i++) { }
				if (i < n) vh_tok("i%d", i); else vh_tok("W");
			}
			free(kb);
		}
		else if (!strcmp(op, "q")) {
			MPT_STRUCT(path) p = MPT_PATH_INIT, q;
			const MPT_STRUCT(node) *r, *w;
			unsigned sep = 0;
			const char *str = 0;
			int rc;
			sscanf(tok[t++], "%2x", &sep);
			p.sep = (char) sep;
			p.assign = 0;
			mpt_path_set(&p, cstr_of_hex(tok[t++]), -1);
			q = p;
			r = mpt_node_query(nodeGlobal, &q);
			if (!r) vh_tok("q:-");
			else {
				/* the trail, from the links upwards */
				int tr[8], d = 0;
				for (w = r; w && d < 8; w = w->parent) {
					const MPT_STRUCT(node) *s;
					int k = 0;
					for (s = w; s->prev; s = s->prev) k++;
					tr[d++] = k;
				}
				vh_tok("q:");
				while (d--) vh_add(d ? "%d." : "%d", tr[d]);
			}
			vh_add("|%zu.%zu|", q.off - p.off, q.len);
			/* the same through the store */
			rc = mpt_config_getp(0, &p, 's', &str);
			put_str(rc, str);
		}
		else { fprintf(stderr, "bad op %s\n", op); _exit(3); }
	}
}

static void run_case(int ntok, char **tok)
{
	if (ntok < 2) return;
	switch (tok[1][0]) {
	  case 'G': run_global(ntok, tok); break;
	  case 'J': run_items(ntok, tok); break;
	  case 'M': run_metaset(ntok, tok); break;
	  case 'P': run_path(ntok, tok); break;
	  case 'N': run_locate(ntok, tok); break;
	  default: break;
	}
}
int main(int c, char **v) { return vh_main(c, v, run_case); }
