/* C06 template harness: the C++ template layer of mptcore/types.h above the registry -
 * type_properties<T>::id(bool) / ::traits() for the primary template, T *, span<T>, span<const T> and the
 * full specialisations, basetype(), MPT_type_toVector / MPT_type_toScalar - interleaved with registrations
 * and lookups through the wrappers of mpt++/type_traits_wrap.cpp (compiled into this translation unit).
 * A case starts with the marker "tpl"; every case runs in a forked child of a parent that never touches
 * the registry or a template static, so every _valtype starts at 0.
 *
 *   pi <k> <0|1>   type_properties<T_k>::id(obtain)          -> I:<id hex> | R:<code>
 *   pt <k>         p = type_properties<T_k>::traits(); i = id(false)
 *                                                            -> N | T:<size>:<init?><fini?>:<c|d|u>
 *                  c: type_traits::get(i) == p, d: it is another object, u: i <= 0 (no id yet)
 *   px <k>         init(a, 0); a[0] = 9; init(b, a); fini(b) of the description of a generic slot (17..24)
 *                                                            -> V:<a[0] * 10000 + b[0] * 100 + b[0] after fini> | V:-1 (no init)
 *   pb <id>        basetype(id)                               -> V:<n>
 *   pv <int> / ps <int>   MPT_type_toVector / MPT_type_toScalar -> V:<n>
 *   tb             sizeof(T_k) of every slot                  -> B:<n>,<n>,...
 *   ba ga ia ma gaN lt ln   as in harness/c06_wrap.cpp
 * The slot table must match g_slots of coq/C06/TplModel.v. */
#include "common.h"
#include <errno.h>
#include <new>
#include <sys/uio.h>
#include "types.h"
#include "type_traits_wrap.cpp"

using namespace mpt;

struct U24 { char c[24]; };
class UD { public: UD() : v(7) { } UD(const UD &o) : v(o.v) { } ~UD() { v = 0; } volatile long v; };
struct U1 { char c; };
struct U40 { double d[5]; };
typedef const char *cstr;
typedef convertable *conv_p;
typedef iterator *iter_p;
typedef source<double> *src_p;
typedef U24 *u24_p;
typedef double *dbl_p;
typedef span<U24> sp_u24;
typedef span<double> sp_dbl;
typedef span<const double> spc_dbl;
typedef span<const char> spc_chr;
typedef span<const cstr> spc_str;
typedef span<const U24> spc_u24;
typedef span<const UD> spc_ud;
typedef span<const value> spc_val;
typedef span<const long double> spc_ldbl;
typedef span<const u24_p> spc_ptr;
typedef span<const int32_t> spc_i32;

#define SLOTS(X) \
	X(0, double) X(1, float) X(2, long double) X(3, int8_t) X(4, int16_t) X(5, int32_t) X(6, int64_t) \
	X(7, uint8_t) X(8, uint16_t) X(9, uint32_t) X(10, uint64_t) X(11, char) X(12, cstr) X(13, value) \
	X(14, conv_p) X(15, iter_p) X(16, src_p) \
	X(17, U24) X(18, UD) X(19, U1) X(20, U40) X(21, u24_p) X(22, dbl_p) X(23, sp_u24) X(24, sp_dbl) \
	X(25, spc_dbl) X(26, spc_chr) X(27, spc_str) X(28, spc_u24) X(29, spc_ud) X(30, spc_val) X(31, spc_ldbl) \
	X(32, spc_ptr) X(33, spc_i32)
#define NSLOTS 34

static_assert(sizeof(U24) == 24 && sizeof(UD) == 8 && sizeof(U1) == 1 && sizeof(U40) == 40, "slot sizes");
static_assert(sizeof(sp_u24) == sizeof(struct iovec) && sizeof(spc_dbl) == sizeof(struct iovec), "span = iovec");

static int slot_id(int k, bool obtain)
{
	switch (k) {
#define X(n, T) case n: return type_properties<T>::id(obtain);
	SLOTS(X)
#undef X
	}
	return -99;
}
static const type_traits *slot_traits(int k)
{
	switch (k) {
#define X(n, T) case n: return type_properties<T>::traits();
	SLOTS(X)
#undef X
	}
	return 0;
}
static size_t slot_size(int k)
{
	switch (k) {
#define X(n, T) case n: return sizeof(T);
	SLOTS(X)
#undef X
	}
	return 0;
}

#define POOL 4200
static const type_traits *pool[POOL];
static int pool_used = 0;
static int d_init(void *p, const void *s) { (void) p; (void) s; return 0; }
static void d_fini(void *p) { (void) p; }

static const char *untok(const char *s, char *buf)
{
	size_t i;
	if (!strcmp(s, "-")) return 0;
	if (!strcmp(s, "%")) { buf[0] = 0; return buf; }
	for (i = 0; s[i]; i++) buf[i] = s[i] == '_' ? ' ' : s[i];
	buf[i] = 0;
	return buf;
}
static void put_name(const char *n)
{
	if (!n) { printf("-"); return; }
	if (!*n) { printf("%%"); return; }
	for (; *n; n++) printf("%c", *n == ' ' ? '_' : *n);
}
static const char *errno_name(void)
{
	switch (errno) {
	  case EINVAL: return "EINVAL";
	  case ENOMEM: return "ENOMEM";
	  case EAGAIN: return "EAGAIN";
	  default: return "E?";
	}
}
static void put_traits(const type_traits *t, int head)
{
	int i;
	if (!t) { printf("N"); return; }
	printf("%s%zu:%d%d", head ? "T:" : "", t->size, t->init ? 1 : 0, t->fini ? 1 : 0);
	for (i = 0; i < pool_used; i++) if (pool[i] == t) { printf(":g%d", i); break; }
}
static void put_named(const named_traits *e)
{
	if (!e) { printf("R:%s", errno_name()); return; }
	printf("E:%lx:", (unsigned long) e->type);
	put_name(e->name);
	printf(":");
	put_traits(&e->traits, 0);
}
static const type_traits *fresh_traits(size_t size, int flags)
{
	if (pool_used >= POOL) { printf(" ?pool"); fflush(stdout); _exit(0); }
	return pool[pool_used++] = new type_traits(size, (flags & 2) ? d_fini : 0, (flags & 1) ? d_init : 0);
}
static void run_case(int ntok, char **tok)
{
	static char buf[4096];
	int t = 1;
	while (t < ntok) {
		const char *op = tok[t++];
		if (!strcmp(op, "tpl")) continue;
		if (!strcmp(op, "pi")) {
			int k = (int) vh_int(tok[t++]);
			int ob = (int) vh_int(tok[t++]);
			int r = slot_id(k, ob != 0);
			if (r < 0) printf(" R:%d", r); else printf(" I:%x", r);
		}
		else if (!strcmp(op, "pt")) {
			int k = (int) vh_int(tok[t++]);
			const type_traits *p = slot_traits(k);
			int i = slot_id(k, false);
			printf(" ");
			if (!p) printf("N");
			else printf("T:%zu:%d%d", p->size, p->init ? 1 : 0, p->fini ? 1 : 0);
			if (i <= 0) printf(":u");
			else printf(":%c", type_traits::get(i) == p ? 'c' : 'd');
		}
		else if (!strcmp(op, "px")) {
			/* the behaviour part of the description: default construction, copy construction, destruction */
			int k = (int) vh_int(tok[t++]);
			const type_traits *p = (k >= 17 && k <= 24) ? slot_traits(k) : 0;
			if (!p || !p->init || !p->fini || p->size > 64) printf(" V:-1");
			else {
				alignas(16) unsigned char a[64], b[64];
				int d, c, f;
				memset(a, 0x55, sizeof(a)); memset(b, 0x55, sizeof(b));
				p->init(a, 0);
				d = a[0];
				a[0] = 9;
				p->init(b, a);
				c = b[0];
				p->fini(b);
				f = b[0];
				p->fini(a);
				printf(" V:%d", d * 10000 + c * 100 + f);
			}
		}
		else if (!strcmp(op, "pb")) {
			printf(" V:%d", (int) basetype((type_t) vh_u64(tok[t++])));
		}
		else if (!strcmp(op, "pv")) {
			int v = (int) vh_int(tok[t++]);
			printf(" V:%d", (int) MPT_type_toVector(v));
		}
		else if (!strcmp(op, "ps")) {
			int v = (int) vh_int(tok[t++]);
			printf(" V:%d", (int) MPT_type_toScalar(v));
		}
		else if (!strcmp(op, "tb")) {
			int k;
			printf(" B:");
			for (k = 0; k < NSLOTS; k++) printf("%s%zu", k ? "," : "", slot_size(k));
		}
		else if (!strcmp(op, "ba")) {
			int r = type_traits::add_basic(vh_u64(tok[t++]));
			if (r < 0) printf(" R:%d", r); else printf(" I:%x", r);
		}
		else if (!strcmp(op, "ga")) {
			size_t sz = vh_u64(tok[t++]);
			int fl = vh_int(tok[t++]);
			int r = type_traits::add(*fresh_traits(sz, fl));
			if (r < 0) printf(" R:%d", r); else printf(" I:%x", r);
		}
		else if (!strcmp(op, "gaN")) {
			long i, n = vh_int(tok[t++]), cnt = 0, first = -1, last = -1;
			size_t sz = vh_u64(tok[t++]);
			int consec = 1; char refusal[32] = "-";
			for (i = 0; i < n; i++) {
				int r = type_traits::add(*fresh_traits(sz, 0));
				if (r >= 0) { if (!cnt) first = r; else if (r != last + 1) consec = 0; last = r; cnt++; }
				else if (refusal[0] == '-') snprintf(refusal, sizeof(refusal), "R:%d", r);
			}
			printf(" N:%ld:", cnt);
			if (cnt) printf("%lx:%lx", first, last); else printf("-:-");
			printf(":%c:%s", consec ? 'c' : 'n', refusal);
		}
		else if (!strcmp(op, "ia") || !strcmp(op, "ma")) {
			const char *n = untok(tok[t++], buf);
			const named_traits *e;
			errno = 0;
			if (op[0] == 'i') e = n ? type_traits::add_interface(n) : type_traits::add_interface();
			else e = n ? type_traits::add_metatype(n) : type_traits::add_metatype();
			printf(" ");
			put_named(e);
		}
		else if (!strcmp(op, "lt")) {
			int id = (int) vh_int(tok[t++]);
			printf(" ");
			put_traits(type_traits::get(id), 1);
		}
		else if (!strcmp(op, "ln")) {
			const char *n = untok(tok[t++], buf);
			const char *l = tok[t++];
			errno = 0;
			printf(" ");
			put_named(!strcmp(l, "d") ? type_traits::get(n) : type_traits::get(n, (int) vh_int(l)));
		}
		else { printf(" ?%s", op); break; }
		fflush(stdout);
	}
}
int main(int argc, char **argv) { return vh_main(argc, argv, run_case); }
