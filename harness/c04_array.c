/* C04 harness: drives the C array/buffer/slice API of mptcore/array on several
 * handles and reads every handle back after EACH operation, independently of the
 * library (header fields and the bytes behind the header).
 *
 * Case line:  <id> <op> <args> ...     (see ml/c04_driver.ml for the operations)
 * handles 0..3 are MPT_STRUCT(array) (the _a member), 4..5 MPT_STRUCT(slice).
 * Token per operation:  <res>|<v0>,...,<v5>|<partition>|<mech>
 *   res    D:<n>/<m> accepted (n value-level number, m mechanism-level number), R refused,
 *          G not applied by the harness (wrong handle kind, in-place function on a shared buffer)
 *   v      n = no buffer, else <traits>.<hex of what the handle reads>
 *   part   class number of the buffer of each handle by first occurrence (no addresses)
 *   mech   used:size:ref:flags[:off:len] of each handle
 * Buffers are the library's own exact-size malloc blocks, so ASan sees any access
 * behind _size; every case runs in a forked child (common.h).
 *
 * buffer_alloc.c is included so that the harness can see struct bufferData (ref
 * count, flags) and set the flags in the header directly. */
#include "common.h"
#include <errno.h>
#include "array/buffer_alloc.c"

#define NARR 4
#define NH   6

static MPT_STRUCT(slice) h[NH];
static const MPT_STRUCT(type_traits) t4 = MPT_TYPETRAIT_INIT(4);

static const MPT_STRUCT(type_traits) *traits_of(long id)
{
	if (id == 1) return mpt_type_traits('c');
	if (id == 4) return &t4;
	return 0;
}
static long traits_id(const MPT_STRUCT(type_traits) *t)
{
	if (!t) return 0;
	if (t == mpt_type_traits('c')) return 1;
	if (t == &t4) return 4;
	return 99;
}
static MPT_STRUCT(bufferData) *hdr(MPT_STRUCT(buffer) *b)
{
	return MPT_baseaddr(bufferData, b, buf);
}
static void dump(void)
{
	int i, j, cls[NH], next = 0;
	vh_add("|");
	for (i = 0; i < NH; i++) {
		MPT_STRUCT(buffer) *b = h[i]._a._buf;
		if (i) vh_add(",");
		if (!b) { vh_add("n"); continue; }
		vh_add("%ld.", traits_id(b->_content_traits));
		if (i < NARR) {
			vh_hex(b + 1, b->_used);
		} else {
			size_t used = b->_used, off = h[i]._off, len = h[i]._len;
			if (off > used) off = used;
			if (len > used - off) len = used - off;
			vh_hex(((uint8_t *) (b + 1)) + off, len);
		}
	}
	vh_add("|");
	for (i = 0; i < NH; i++) {
		MPT_STRUCT(buffer) *b = h[i]._a._buf;
		if (i) vh_add(".");
		if (!b) { vh_add("n"); continue; }
		for (j = 0; j < i; j++) if (h[j]._a._buf == b) break;
		cls[i] = (j < i) ? cls[j] : next++;
		vh_add("%d", cls[i]);
	}
	vh_add("|");
	for (i = 0; i < NH; i++) {
		MPT_STRUCT(buffer) *b = h[i]._a._buf;
		if (i) vh_add(",");
		if (!b) vh_add("n");
		else vh_add("%zu:%zu:%zu:%d", b->_used, b->_size, (size_t) hdr(b)->_ref._val, hdr(b)->_flags);
		if (i >= NARR) vh_add(":%zu:%zu", (size_t) h[i]._off, (size_t) h[i]._len);
	}
}
static int guard_direct(MPT_STRUCT(buffer) *b)
{
	return !b || (b->_vptr->get_flags(b) & (MPT_ENUM(BufferShared) | MPT_ENUM(BufferImmutable)));
}
static void run_case(int ntok, char **tok)
{
	int t = 1;
	while (t < ntok) {
		const char *op = tok[t++];
		long x = vh_int(tok[t++]);
		int slice_op = !strcmp(op, "mks") || !strcmp(op, "wr") || !strcmp(op, "wrz");
		int nargs = 0, guard = 0;
		MPT_STRUCT(array) *a = 0;
		char **arg = tok + t;
		if (!strcmp(op, "app") || !strcmp(op, "appz") || !strcmp(op, "cln") || !strcmp(op, "prt")
		    || !strcmp(op, "flg")) nargs = 1;
		else if (!strcmp(op, "ins") || !strcmp(op, "slc") || !strcmp(op, "slw") || !strcmp(op, "rsv")
		         || !strcmp(op, "bins") || !strcmp(op, "bcut") || !strcmp(op, "new") || !strcmp(op, "wrz")) nargs = 2;
		else if (!strcmp(op, "set") || !strcmp(op, "setz") || !strcmp(op, "bset") || !strcmp(op, "bsetz")
		         || !strcmp(op, "mks") || !strcmp(op, "wr")) nargs = 3;
		t += nargs;
		if (x < 0 || x >= NH || (x >= NARR) != slice_op) guard = 1;
		else a = &h[x]._a;

		if (guard) {
			vh_tok("G");
		}
		else if (!strcmp(op, "app") || !strcmp(op, "appz")) {
			size_t n; uint8_t *d = 0; void *r;
			if (op[3]) n = vh_int(arg[0]); else d = vh_unhex(arg[0], &n);
			r = mpt_array_append(a, n, d);
			vh_tok(r ? "D:0/0" : "R");
			free(d);
		}
		else if (!strcmp(op, "ins")) {
			size_t pos = vh_int(arg[0]), n; uint8_t *d = vh_unhex(arg[1], &n);
			void *r = mpt_array_insert(a, pos, n);
			if (r) memcpy(r, d, n);
			vh_tok(r ? "D:0/0" : "R");
			free(d);
		}
		else if (!strcmp(op, "set") || !strcmp(op, "setz")) {
			long tr = vh_int(arg[0]), off = vh_int(arg[1]);
			size_t n; uint8_t *d = 0; void *r;
			if (op[3]) n = vh_int(arg[2]); else d = vh_unhex(arg[2], &n);
			r = mpt_array_set(a, traits_of(tr), n, d, off);
			vh_tok(r ? "D:0/0" : "R");
			free(d);
		}
		else if (!strcmp(op, "slc")) {
			void *r = mpt_array_slice(a, vh_int(arg[0]), vh_int(arg[1]));
			vh_tok(r ? "D:0/0" : "R");
		}
		else if (!strcmp(op, "slw")) {
			size_t n; uint8_t *d = vh_unhex(arg[1], &n);
			void *r = mpt_array_slice(a, vh_int(arg[0]), n);
			if (r) memcpy(r, d, n);
			vh_tok(r ? "D:0/0" : "R");
			free(d);
		}
		else if (!strcmp(op, "rsv")) {
			void *r = mpt_array_reserve(a, vh_int(arg[0]), traits_of(vh_int(arg[1])));
			vh_tok(r ? "D:0/0" : "R");
		}
		else if (!strcmp(op, "cln")) {
			long y = vh_int(arg[0]);
			if (y < 0 || y >= NARR) vh_tok("G");
			else {
				int r = mpt_array_clone(a, &h[y]._a);
				if (r < 0) vh_tok("R"); else vh_tok("D:0/%d", r);
			}
		}
		else if (!strcmp(op, "clr")) {
			int r = mpt_array_clone(a, 0);
			if (r < 0) vh_tok("R"); else vh_tok("D:0/%d", r);
		}
		else if (!strcmp(op, "red")) {
			vh_tok("D:0/%zu", mpt_array_reduce(a));
		}
		else if (!strcmp(op, "bins")) {
			if (guard_direct(a->_buf)) vh_tok("G");
			else {
				size_t pos = vh_int(arg[0]), n; uint8_t *d = vh_unhex(arg[1], &n);
				void *r = mpt_buffer_insert(a->_buf, pos, n);
				if (r) memcpy(r, d, n);
				vh_tok(r ? "D:0/0" : "R");
				free(d);
			}
		}
		else if (!strcmp(op, "bcut")) {
			if (guard_direct(a->_buf)) vh_tok("G");
			else vh_tok(mpt_buffer_cut(a->_buf, vh_int(arg[0]), vh_int(arg[1])) < 0 ? "R" : "D:0/0");
		}
		else if (!strcmp(op, "bset") || !strcmp(op, "bsetz")) {
			if (guard_direct(a->_buf)) vh_tok("G");
			else {
				long tr = vh_int(arg[0]); size_t pos = vh_int(arg[1]), n; uint8_t *d = 0;
				if (op[4]) n = vh_int(arg[2]); else d = vh_unhex(arg[2], &n);
				vh_tok(mpt_buffer_set(a->_buf, traits_of(tr), pos, d, n) < 0 ? "R" : "D:0/0");
				free(d);
			}
		}
		else if (!strcmp(op, "prt")) {
			size_t n; uint8_t *d = vh_unhex(arg[0], &n);
			char *s = malloc(n + 1);
			int r;
			memcpy(s, d, n); s[n] = 0;
			r = mpt_printf(a, "%s", s);
			if (r < 0) vh_tok("R"); else vh_tok("D:%d/%d", r, r);
			free(s); free(d);
		}
		else if (!strcmp(op, "str")) {
			char *s = mpt_array_string(a);
			if (!s) vh_tok("R"); else { size_t l = strlen(s); vh_tok("D:%zu/%zu", l, l); }
		}
		else if (!strcmp(op, "new")) {
			MPT_STRUCT(buffer) *b;
			if ((b = a->_buf)) b->_vptr->unref(b);
			a->_buf = b = _mpt_buffer_alloc(vh_int(arg[0]), vh_int(arg[1]));
			vh_tok("D:0/%zu", b->_size);
		}
		else if (!strcmp(op, "flg")) {
			if (!a->_buf) vh_tok("G");
			else { hdr(a->_buf)->_flags = vh_int(arg[0]); vh_tok("D:0/0"); }
		}
		else if (!strcmp(op, "mks")) {
			long y = vh_int(arg[0]);
			if (y < 0 || y >= NARR) vh_tok("G");
			else {
				int r = mpt_array_clone(a, &h[y]._a);
				if (r < 0) vh_tok("R");
				else { h[x]._off = vh_int(arg[1]); h[x]._len = vh_int(arg[2]); vh_tok("D:0/%d", r); }
			}
		}
		else if (!strcmp(op, "wr") || !strcmp(op, "wrz")) {
			size_t nblk = vh_int(arg[0]), esz = vh_int(arg[1]), n; uint8_t *d = 0;
			ssize_t r;
			if (!op[2]) d = vh_unhex(arg[2], &n);
			r = mpt_slice_write(&h[x], nblk, d, esz);
			if (r < 0) vh_tok("R");
			else if (!esz) vh_tok("D:0/%zd", r);
			else vh_tok("D:%zd/%zd", r, r);
			free(d);
		}
		else {
			vh_tok("?%s", op);
		}
		dump();
	}
}
int main(int argc, char **argv)
{
	return vh_main(argc, argv, run_case);
}
