/* C12 harness 2: the mptio users of the reply context and of message ids, executed for real
 *   mptio/output_remote.c            (the object returned by mpt_output_remote(): next/dispatch/push/sync/await/unref)
 *   mptio/connection/connection_dispatch.c (mpt_connection_dispatch, streamWrapper, replyConnection)
 *   mptio/stream/stream_sync.c, stream_reply.c
 * Backends (second token of the case): d = SOCK_DGRAM socketpair handed over with mpt_connection_assign (mpt_outdata_*),
 * s = stream opened with mpt_connection_open("Unix:<path>") to a listening socket of the harness (COBS framing),
 * a = SOCK_STREAM socketpair handed over with mpt_connection_assign + default encoding through the "encoding" property.
 * The harness plays the peer.
 *
 * Case line (same file is read by ml/c12_driver.ml):
 *   <id> con <d|s|a> <idlen> <op> <args> ...
 *   tx <msghex>           the peer sends one message (id bytes + payload), nothing is called in the library
 *   dp <hacts> <code>     next(POLLIN) while the socket is readable (datagram: once) + dispatch(handler); the handler performs hacts through ev->reply and returns code
 *                         hacts: - | comma list of r<hex> (reply), rnull (reply(NULL)), r- (empty message), d (defer)
 *   dp0                   next(POLLIN) + dispatch(NULL)
 *   hr <k> <hex|null|->   reply through deferred handle k
 *   aw <payloadhex>       await(waiter, tag) + push(payload) + push(0, 0): one outgoing request that expects an answer
 *   ps <payloadhex>       await(waiter, tag) + push(payload): the outgoing request stays open (message in progress)
 *   pe                    push(0, 0): finish the outgoing message
 *   sy                    sync(timeout 0)
 *   cl                    release one reference of the object (the last one: mpt_connection_fini)
 *   rf                    one more reference (remoteRef)
 *   a0 <payloadhex>       like aw, but await(NULL, 0): the answer goes to the default handler of mpt_command_reserve (log_reply)
 *   no                    next(POLLOUT)            nh   next(POLLHUP)
 *   cv <in|fmt|meta|sock|obj|out|log|bad>   convert() of the object (remoteConv)
 *   gp <name|->           property(name) through the object interface (remoteProperty / mpt_connection_get)
 *   lg <type> <texthex>   mpt_log(logger interface of the object, "hs", type, "%s", text): remoteLog / mpt_output_vlog
 *   as <d|a|x>            mpt_connection_assign on the open connection: new datagram socketpair / new stream socketpair / NULL
 *   sp <d|a|x|D|S>        the same through the object interface: set_property("", socket | NULL | target string unix:/Unix:)
 *   op <d|s>              mpt_connection_open("unix:<path>" datagram / "Unix:<path>" stream) on the open connection
 *   an answer whose payload starts with ff makes the harness' waiter return -3
 *
 * Token per operation:  <ret>|<waiter calls>|<wire>|<ctx>|<handles>|<wait>
 *   ret      op specific (see below)
 *   waiter   W<tag>=<payload hex|null>,...   calls of registered answer handlers (in order) or -
 *   wire     messages the peer received (decoded), hex;hex  e = empty  - none
 *   ctx      armed id of con->_rctx (- none armed, x no context, 0 context freed)
 *   handles  per deferred handle: armed id, x consumed
 *   wait     <cid>:<id>=<tag>,...   entries of the wait table in table order (tag . = slot not in use; mechanism detail)
 */
/* the library's default logger prints messages of type 0 to stdout (log_reply does for an Output answer):
 * the case output goes to a duplicate of descriptor 1, descriptor 1 itself is pointed to stderr */
#include <stdio.h>
static FILE *vh_out;
#undef stdout
#define stdout vh_out
#include "common.h"
#include <errno.h>
#include <stddef.h>
#include <poll.h>
#include <fcntl.h>
#include <sys/socket.h>
#include <sys/un.h>
#include <sys/uio.h>

/* ---- allocation tracking for reply_deferrable.c (to know which context/handle is still allocated) ---- */
#define VH_MAXALLOC 512
static void *vh_ptrs[VH_MAXALLOC];
static int vh_state[VH_MAXALLOC];
static int vh_nptr;
static void *vh_malloc(size_t n)
{
	void *p = malloc(n);
	if (p && vh_nptr < VH_MAXALLOC) { vh_ptrs[vh_nptr] = p; vh_state[vh_nptr++] = 1; }
	return p;
}
static void vh_free(void *p)
{
	int i;
	for (i = vh_nptr - 1; i >= 0; i--) if (vh_ptrs[i] == p && vh_state[i] == 1) { vh_state[i] = 2; break; }
	free(p);
}
static int vh_live(const void *p)
{
	int i;
	for (i = vh_nptr - 1; i >= 0; i--) if (vh_ptrs[i] == p) return vh_state[i] == 1;
	return 0;
}
#define malloc vh_malloc
#define free vh_free
#include "event/reply_deferrable.c"
#undef malloc
#undef free

#include "convert.h"
#include "output_remote.c"

/* ---- COBS (the peer's own codec) ---- */
static size_t cobs_enc(const uint8_t *in, size_t n, uint8_t *out)
{
	size_t ri = 0, wi = 1, ci = 0;
	uint8_t code = 1;
	while (ri < n) {
		if (!in[ri]) { out[ci] = code; code = 1; ci = wi++; ri++; }
		else {
			out[wi++] = in[ri++]; code++;
			if (code == 0xff) { out[ci] = code; code = 1; ci = wi++; }
		}
	}
	out[ci] = code;
	out[wi++] = 0;
	return wi;
}
static size_t cobs_dec(const uint8_t *in, size_t n, uint8_t *out)
{
	size_t ri = 0, wi = 0;
	while (ri < n) {
		uint8_t code = in[ri++], i;
		for (i = 1; i < code && ri < n; i++) out[wi++] = in[ri++];
		if (code < 0xff && ri < n) out[wi++] = 0;
	}
	return wi;
}

/* ---- state ---- */
#define MAXH 64
static int dgram, sv[2];
static size_t idlen;
static MPT_INTERFACE(input) *in;
static MPT_INTERFACE(output) *out;
static MPT_STRUCT(out_data) *od;
static MPT_INTERFACE(reply_context_detached) *hd[MAXH];
static int nh, ntag, closed;

static char wcalls[8192];
static size_t wlen;

static int waiter(void *arg, const MPT_STRUCT(message) *msg)
{
	uint8_t buf[1024];
	size_t n = 0, i;
	wlen += snprintf(wcalls + wlen, sizeof(wcalls) - wlen, "%sW%d=", wlen ? "," : "", (int) (intptr_t) arg);
	if (!msg) wlen += snprintf(wcalls + wlen, sizeof(wcalls) - wlen, "null");
	else {
		MPT_STRUCT(message) m = *msg;
		n = mpt_message_read(&m, sizeof(buf), buf);
		if (!n) wlen += snprintf(wcalls + wlen, sizeof(wcalls) - wlen, "-");
		for (i = 0; i < n && wlen < sizeof(wcalls) - 8; i++) wlen += snprintf(wcalls + wlen, sizeof(wcalls) - wlen, "%02x", buf[i]);
	}
	return (msg && n && buf[0] == 0xff) ? -3 : 0;
}

static MPT_STRUCT(message) mkmsg_store;
static struct iovec mkmsg_iov;
static const MPT_STRUCT(message) *mkmsg(const char *tok, uint8_t **keep)
{
	size_t n;
	uint8_t *b;
	*keep = 0;
	if (!strcmp(tok, "null")) return 0;
	b = vh_unhex(tok, &n);
	*keep = b;
	mkmsg_store.base = b;
	mkmsg_store.cont = 0;
	mkmsg_store.clen = 0;
	if (n > 2) {
		mkmsg_store.used = 2;
		mkmsg_iov.iov_base = b + 2;
		mkmsg_iov.iov_len = n - 2;
		mkmsg_store.cont = &mkmsg_iov;
		mkmsg_store.clen = 1;
	} else {
		mkmsg_store.used = n;
	}
	return &mkmsg_store;
}

struct handler {
	const char *acts;
	int code, called;
	char seen[2100];
	char res[256];
};
static int handle(void *arg, MPT_STRUCT(event) *ev)
{
	struct handler *h = arg;
	uint8_t buf[1024];
	size_t n = 0, i, o;
	h->called = 1;
	if (ev->msg) {
		MPT_STRUCT(message) m = *ev->msg;
		n = mpt_message_read(&m, sizeof(buf), buf);
	}
	o = snprintf(h->seen, sizeof(h->seen), "%llx:%d:", (unsigned long long) ev->id, ev->reply ? 1 : 0);
	if (!ev->msg) o += snprintf(h->seen + o, sizeof(h->seen) - o, "null");
	else if (!n) o += snprintf(h->seen + o, sizeof(h->seen) - o, "-");
	for (i = 0; i < n; i++) o += snprintf(h->seen + o, sizeof(h->seen) - o, "%02x", buf[i]);
	h->res[0] = 0;
	o = 0;
	if (ev->reply && strcmp(h->acts, "-")) {
		char *acts = strdup(h->acts), *a, *save = 0;
		for (a = strtok_r(acts, ",", &save); a; a = strtok_r(0, ",", &save)) {
			if (a[0] == 'r') {
				uint8_t *keep;
				const MPT_STRUCT(message) *m = mkmsg(a + 1, &keep);
				int r = ev->reply->_vptr->reply(ev->reply, m);
				o += snprintf(h->res + o, sizeof(h->res) - o, "%s%d", o ? "," : "", r);
				free(keep);
			}
			else if (a[0] == 'd') {
				MPT_INTERFACE(reply_context_detached) *d = ev->reply->_vptr->defer(ev->reply);
				if (!d) o += snprintf(h->res + o, sizeof(h->res) - o, "%shN", o ? "," : "");
				else if (nh < MAXH) { hd[nh] = d; o += snprintf(h->res + o, sizeof(h->res) - o, "%sh%d", o ? "," : "", nh); nh++; }
			}
		}
		free(acts);
	}
	return h->code;
}

static uint8_t wbuf[140000];
static size_t wtot;
static void wire(void)
{
	static uint8_t dec[140000];
	ssize_t got;
	int first = 1;
	if (sv[1] < 0) { vh_add("-"); return; }
	if (dgram) {
		while ((got = recv(sv[1], wbuf, sizeof(wbuf), 0)) >= 0) {
			if (!first) vh_add(";");
			first = 0;
			if (!got) vh_add("e"); else vh_hex(wbuf, got);
		}
	} else {
		/* bytes of an unfinished frame stay in wbuf until the rest arrives */
		size_t pos, start, n;
		while (wtot < sizeof(wbuf) && (got = read(sv[1], wbuf + wtot, sizeof(wbuf) - wtot)) > 0) wtot += got;
		for (pos = 0, start = 0; pos < wtot; pos++) {
			if (wbuf[pos]) continue;
			n = cobs_dec(wbuf + start, pos - start, dec);
			if (!first) vh_add(";");
			first = 0;
			if (!n) vh_add("e"); else vh_hex(dec, n);
			start = pos + 1;
		}
		memmove(wbuf, wbuf + start, wtot - start);
		wtot -= start;
	}
	if (first) vh_add("-");
}
static void state(void)
{
	int i;
	vh_add("|%s|", wlen ? wcalls : "-");
	wire();
	vh_add("|");
	if (closed) vh_add("x");
	else {
		MPT_INTERFACE(metatype) *mt = od->con._rctx;
		if (!mt) vh_add("x");
		else {
			MPT_STRUCT(reply_context_defer) *c = MPT_baseaddr(reply_context_defer, mt, _mt);
			if (!vh_live(c)) vh_add("0");
			else vh_hex(c->data.val, c->data.len);
		}
	}
	vh_add("|");
	if (!nh) vh_add("-");
	for (i = 0; i < nh; i++) {
		struct replyDataDelayed *d = (void *) hd[i];
		if (i) vh_add(",");
		if (!vh_live(d)) vh_add("x");
		else vh_hex(d->data.val, d->data.len);
	}
	vh_add("|");
	if (closed) vh_add("x");
	else {
		MPT_STRUCT(buffer) *b = od->con._wait._buf;
		vh_add("%x:", (unsigned) od->con.cid);
		if (b) {
			MPT_STRUCT(command) *c = (void *) (b + 1);
			size_t k, n = b->_used / sizeof(*c);
			int f = 1;
			for (k = 0; k < n; k++) {
				if (!c[k].cmd) vh_add("%s%llx=.", f ? "" : ",", (unsigned long long) c[k].id);
				else vh_add("%s%llx=%d", f ? "" : ",", (unsigned long long) c[k].id, c[k].cmd == (int (*)()) waiter ? (int) (intptr_t) c[k].arg : 0);
				f = 0;
			}
			if (f) vh_add("-");
		} else vh_add("-");
	}
}


/* a convertable that hands out a socket descriptor or a target string (what mpt_connection_set expects) */
struct srcval { MPT_INTERFACE(convertable) _conv; int fd; const char *str; };
static int srcval_conv(MPT_INTERFACE(convertable) *c, MPT_TYPE(type) type, void *ptr)
{
	struct srcval *v = (void *) c;
	if (type == MPT_ENUM(TypeUnixSocket) && v->fd >= 0) { if (ptr) *((int *) ptr) = v->fd; return MPT_ENUM(TypeUnixSocket); }
	if (type == 's' && v->fd < 0) { if (ptr) *((const char **) ptr) = v->str; return 's'; }
	return MPT_ERROR(BadType);
}
static const MPT_INTERFACE_VPTR(convertable) srcval_vptr = { srcval_conv };

static int own0;   /* sv[0] is a descriptor of the harness (socketpair), not the library's */
/* give the connection a (new) backend.  kind: d / a = socketpair (datagram / stream) through mpt_connection_assign,
 * S / D = mpt_connection_open("Unix:<path>" stream / "unix:<path>" datagram) to a socket of the harness, x = assign(NULL);
 * how: 0 = the connection functions, 1 = set_property("", value) of the object interface.
 * the old peer end is drained into oldwire and closed. */
static char oldwire[4096];
static const char *attach(int kind, int how, int *ret)
{
	int nsv[2] = { -1, -1 }, nown = 0, ar, osv1 = sv[1], osv0 = own0 ? sv[0] : -1;
	struct srcval src = { { &srcval_vptr }, -1, 0 };
	if (kind == 'S' || kind == 'D') {
		struct sockaddr_un un;
		static char target[sizeof(un.sun_path) + 8];
		int ls;
		memset(&un, 0, sizeof(un));
		un.sun_family = AF_UNIX;
		snprintf(un.sun_path, sizeof(un.sun_path), "/tmp/c12conn_%ld.sock", (long) getpid());
		unlink(un.sun_path);
		if ((ls = socket(AF_UNIX, kind == 'S' ? SOCK_STREAM : SOCK_DGRAM, 0)) < 0 || bind(ls, (struct sockaddr *) &un, sizeof(un)) < 0) return "bind";
		if (kind == 'S' && listen(ls, 1) < 0) return "listen";
		snprintf(target, sizeof(target), "%s:%s", kind == 'S' ? "Unix" : "unix", un.sun_path);
		src.str = target;
		ar = how ? od->_obj._vptr->set_property(&od->_obj, "", &src._conv) : mpt_connection_open(&od->con, target, 0);
		if (ar >= 0) nsv[1] = kind == 'S' ? accept(ls, 0, 0) : ls;
		if (kind == 'S' || ar < 0) close(ls);
		unlink(un.sun_path);
		*ret = ar;
		if (ar < 0) return "open";
		if (nsv[1] < 0) return "accept";
		if (kind == 'S') {
			if (MPT_socket_active(&od->con.out.sock) || !od->con.out.buf._buf) return "open-backend";
			nsv[0] = _mpt_stream_fread(&((MPT_STRUCT(stream) *) od->con.out.buf._buf)->_info);    /* only polled by the harness */
		} else {
			if (!MPT_socket_active(&od->con.out.sock)) return "open-backend";
			nsv[0] = od->con.out.sock._id;
		}
	}
	else if (kind == 'x') {
		ar = how ? od->_obj._vptr->set_property(&od->_obj, "", &src._conv) : mpt_connection_assign(&od->con, 0);
		*ret = ar;
		if (ar < 0) return "assign";
	}
	else {
		MPT_STRUCT(socket) sock;
		if (socketpair(AF_UNIX, kind == 'd' ? SOCK_DGRAM : SOCK_STREAM, 0, nsv) < 0) return "socketpair";
		sock._id = src.fd = nsv[0];
		ar = how ? od->_obj._vptr->set_property(&od->_obj, "", &src._conv) : mpt_connection_assign(&od->con, &sock);
		*ret = ar;
		if (ar < 0) { close(nsv[0]); close(nsv[1]); return "assign"; }
		nown = 1;
	}
	/* what the old peer still got */
	oldwire[0] = 0;
	if (osv1 >= 0) {
		uint8_t b[1024];
		ssize_t got;
		size_t o = 0, i;
		while ((got = recv(osv1, b, sizeof(b), MSG_DONTWAIT)) > 0 && o < sizeof(oldwire) - 2 * sizeof(b) - 2) {
			for (i = 0; i < (size_t) got; i++) o += snprintf(oldwire + o, sizeof(oldwire) - o, "%02x", b[i]);
			oldwire[o++] = ';'; oldwire[o] = 0;
		}
		close(osv1);
	}
	if (osv0 >= 0) close(osv0);
	sv[0] = nsv[0]; sv[1] = nsv[1]; own0 = nown; wtot = 0;
	if (sv[1] >= 0) fcntl(sv[1], F_SETFL, O_NONBLOCK);
	return 0;
}

static int open_stream(void)
{
	return !closed && !MPT_socket_active(&od->con.out.sock) && od->con.out.buf._buf;
}
static int readable(void)
{
	struct pollfd p;
	if (sv[0] < 0) return 0;
	p.fd = sv[0];
	p.events = POLLIN;
	p.revents = 0;
	return poll(&p, 1, 0) > 0 && (p.revents & POLLIN);
}
static void run_con(int ntok, char **tok)
{
	int t = 4;
	int ar, refs = 1;
	dgram = tok[2][0] == 'd';
	sv[0] = sv[1] = -1; own0 = 0;
	idlen = vh_int(tok[3]);
	if (!(in = mpt_output_remote())) { vh_tok("?create"); return; }
	od = MPT_baseaddr(out_data, in, _in);
	out = &od->_out;
	{
		const char *e = attach(tok[2][0] == 's' ? 'S' : tok[2][0], 0, &ar);
		if (e) { vh_tok("?%s%d", e, ar); return; }
		if (dgram ? !MPT_socket_active(&od->con.out.sock) : (MPT_socket_active(&od->con.out.sock) || !od->con.out.buf._buf)) { vh_tok("?backend"); return; }
		if (tok[2][0] == 'a' && (ar = od->_obj._vptr->set_property(&od->_obj, "encoding", 0)) < 0) { vh_tok("?encoding%d", ar); return; }
	}
	/* the only place an id width comes from (examples/io/mclient.c does the same) */
	od->con.out._idlen = idlen;
	nh = 0; ntag = 0; closed = 0; wtot = 0;

	while (t < ntok) {
		const char *op = tok[t++];
		wlen = 0; wcalls[0] = 0;
		if (closed && strcmp(op, "hr") && strcmp(op, "tx")) { vh_tok("X"); state(); continue; }
		if (!strcmp(op, "tx")) {
			size_t n, fl;
			uint8_t *msg = vh_unhex(tok[t++], &n), frame[4200];
			if (n > 2000) { vh_tok("?toolong"); free(msg); break; }
			if (dgram) {
				vh_tok("t%d", (int) send(sv[1], msg, n, 0));
			} else {
				fl = cobs_enc(msg, n, frame);
				vh_tok("t%d", write(sv[1], frame, fl) == (ssize_t) fl ? (int) n : -1);
			}
			free(msg);
		}
		else if (!strcmp(op, "dp") || !strcmp(op, "dp0")) {
			struct handler h;
			int rn, rd, st;
			memset(&h, 0, sizeof(h));
			if (op[2]) { h.acts = "-"; }
			else { h.acts = tok[t++]; h.code = vh_int(tok[t++]); }
			/* what the notifier does: next(POLLIN) while the descriptor is readable (datagram: once) */
			rn = -99;
			st = open_stream();
			if (!st) { if (readable()) rn = in->_vptr->next(in, POLLIN); }
			else { int k = 0; while (readable() && k++ < 256) rn = in->_vptr->next(in, POLLIN); }
			rd = in->_vptr->dispatch(in, op[2] ? 0 : handle, &h);
			if (st) in->_vptr->next(in, POLLOUT);
			/* "no message": MissingData when the read queue is empty, 0 when it holds consumed bytes only
			 * (state of the ring, subject of C02): one observation here */
			if (st && rd == MPT_ERROR(MissingData) && !h.called) rd = 0;
			if (st) vh_tok("n*");
			else if (rn == -99) vh_tok("n-");
			else vh_tok("n%d", rn);
			vh_add(":d%d:%s:%s", rd, h.called ? h.seen : "-", h.res[0] ? h.res : "-");
		}
		else if (!strcmp(op, "hr")) {
			int k = vh_int(tok[t++]);
			uint8_t *keep;
			const MPT_STRUCT(message) *m = mkmsg(tok[t++], &keep);
			if (k < 0 || k >= nh || !vh_live(hd[k])) vh_tok("X");
			else {
				vh_tok("i%d", hd[k]->_vptr->reply(hd[k], m));
				if (open_stream()) in->_vptr->next(in, POLLOUT);
			}
			free(keep);
		}
		else if (!strcmp(op, "aw") || !strcmp(op, "a0")) {
			size_t n;
			uint8_t *pay = vh_unhex(tok[t++], &n);
			int ra = op[1] == '0' ? out->_vptr->await(out, 0, 0) : out->_vptr->await(out, waiter, (void *) (intptr_t) ++ntag);
			unsigned cid = od->con.cid;
			long p1 = n ? out->_vptr->push(out, n, pay) : 0;
			long p2 = out->_vptr->push(out, 0, 0);
			if (open_stream()) in->_vptr->next(in, POLLOUT);
			vh_tok("a%d:%x:%ld:%ld", ra, cid, p1, p2);
			free(pay);
		}
		else if (!strcmp(op, "ps")) {
			size_t n;
			uint8_t *pay = vh_unhex(tok[t++], &n);
			int ra = out->_vptr->await(out, waiter, (void *) (intptr_t) ++ntag);
			unsigned cid = od->con.cid;
			long p1 = out->_vptr->push(out, n, pay);
			if (open_stream()) in->_vptr->next(in, POLLOUT);
			vh_tok("a%d:%x:%ld", ra, cid, p1);
			free(pay);
		}
		else if (!strcmp(op, "pe")) {
			long p2 = out->_vptr->push(out, 0, 0);
			if (open_stream()) in->_vptr->next(in, POLLOUT);
			vh_tok("e%ld", p2);
		}
		else if (!strcmp(op, "sy")) {
			vh_tok("s%d", out->_vptr->sync(out, 0));
		}
		else if (!strcmp(op, "cl")) {
			in->_vptr->meta.unref((void *) in);
			if (!--refs) closed = 1;
			vh_tok("c");
		}
		else if (!strcmp(op, "rf")) {
			uintptr_t r = in->_vptr->meta.addref((void *) in);
			if (r) refs++;
			vh_tok("r%d", (int) r);
		}
		else if (!strcmp(op, "no") || !strcmp(op, "nh")) {
			/* an open stream: mpt_stream_poll (value not compared) */
			int st = open_stream(), r = in->_vptr->next(in, op[1] == 'o' ? POLLOUT : POLLHUP);
			if (st) vh_tok("x*"); else vh_tok("x%d", r);
		}
		else if (!strcmp(op, "cv")) {
			const char *w = tok[t++];
			const MPT_STRUCT(named_traits) *tr = mpt_input_type_traits();
			int me = tr ? (int) tr->type : (int) MPT_ENUM(TypeMetaPtr);
			int ty = !strcmp(w, "in") ? me : !strcmp(w, "fmt") ? 0 : !strcmp(w, "meta") ? MPT_ENUM(TypeMetaPtr)
			       : !strcmp(w, "sock") ? MPT_ENUM(TypeUnixSocket) : !strcmp(w, "obj") ? MPT_ENUM(TypeObjectPtr)
			       : !strcmp(w, "out") ? MPT_ENUM(TypeOutputPtr) : !strcmp(w, "log") ? MPT_ENUM(TypeLoggerPtr) : 'd';
			union { void *p; int fd; const uint8_t *fmt; } u;
			int r;
			const char *part = "other";
			memset(&u, 0, sizeof(u));
			u.fd = -77;
			if (ty != MPT_ENUM(TypeUnixSocket)) u.p = 0;
			r = in->_vptr->meta.convertable.convert((void *) in, ty, &u);
			if (ty == MPT_ENUM(TypeUnixSocket)) part = u.fd == -77 ? "none" : u.fd < 0 ? "nofd" : u.fd == sv[0] || !own0 ? "fd" : "fd";
			else if (!u.p) part = "none";
			else if (u.p == (void *) &od->_in) part = "in";
			else if (u.p == (void *) &od->_obj) part = "obj";
			else if (u.p == (void *) &od->_out) part = "out";
			else if (u.p == (void *) &od->_log) part = "log";
			else if (!ty && u.fmt[0] == MPT_ENUM(TypeObjectPtr) && u.fmt[1] == MPT_ENUM(TypeOutputPtr) && u.fmt[2] == MPT_ENUM(TypeLoggerPtr) && !u.fmt[3]) part = "fmt";
			vh_tok("v%s:%s", r == me ? "me" : r == MPT_ENUM(TypeUnixSocket) ? "sock" : r < 0 ? "err" : "other", part);
			if (r < 0) vh_add("%d", r);
		}
		else if (!strcmp(op, "gp")) {
			const char *w = tok[t++];
			MPT_STRUCT(property) pr;
			int r;
			memset(&pr, 0, sizeof(pr));
			pr.name = !strcmp(w, "-") ? "" : w;
			r = od->_obj._vptr->property(&od->_obj, &pr);
			vh_tok("p%d:%s", r, r >= 0 && pr.name ? pr.name : "-");
		}
		else if (!strcmp(op, "lg")) {
			int ty = vh_int(tok[t++]), r;
			size_t n;
			uint8_t *b = vh_unhex(tok[t++], &n);
			char *txt = malloc(n + 1);
			memcpy(txt, b, n); txt[n] = 0;
			r = mpt_log(&od->_log, "hs", ty, "%s", txt);
			if (open_stream()) in->_vptr->next(in, POLLOUT);
			vh_tok("l%d", r);
			free(txt); free(b);
		}
		else if (!strcmp(op, "as") || !strcmp(op, "sp") || !strcmp(op, "op")) {
			int kind = tok[t++][0], r = 0;
			const char *e;
			if (op[0] == 'o') kind = kind == 's' ? 'S' : 'D';
			e = attach(kind, op[0] == 's', &r);
			if (!e) {
				if (kind != 'x') dgram = kind == 'd' || kind == 'D';
				/* a stream handed over as descriptor has no codec yet */
				if (kind == 'a' && od->con.out.buf._buf && !((MPT_STRUCT(stream) *) od->con.out.buf._buf)->_rd._dec) {
					int er = od->_obj._vptr->set_property(&od->_obj, "encoding", 0);
					if (er < 0) vh_tok("?encoding%d", er);
				}
			}
			vh_tok("g%d", r);
			if (!e && oldwire[0]) vh_add(":old=%s", oldwire);
		}
		else { vh_tok("?%s", op); break; }
		state();
	}
	while (!closed && refs-- > 0) in->_vptr->meta.unref((void *) in);
	if (sv[1] >= 0) close(sv[1]);
	if (own0 && sv[0] >= 0) close(sv[0]);
}
/* <id> rsv <max> r|f<k> ...   direct calls of mpt_command_reserve(arr, max) on a private array (every width of the switch);
 * r = reserve (the slot gets the harness' waiter with the number of the call), f<k> = the caller releases slot k.
 * token: <slot>:<id> (N = refused, - = release) | table */
static void run_rsv(int ntok, char **tok)
{
	MPT_STRUCT(array) arr = MPT_ARRAY_INIT;
	size_t max = vh_int(tok[2]);
	int t, n = 0;
	for (t = 3; t < ntok; t++) {
		MPT_STRUCT(buffer) *b;
		if (tok[t][0] == 'r') {
			MPT_STRUCT(command) *c = mpt_command_reserve(&arr, max);
			n++;
			if (!c) vh_tok("N");
			else {
				c->cmd = (int (*)()) waiter;
				c->arg = (void *) (intptr_t) n;
				vh_tok("%d:%llx", (int) (c - (MPT_STRUCT(command) *) (arr._buf + 1)), (unsigned long long) c->id);
			}
		} else {
			size_t k = vh_int(tok[t] + 1);
			if ((b = arr._buf) && k < b->_used / sizeof(MPT_STRUCT(command))) ((MPT_STRUCT(command) *) (b + 1))[k].cmd = 0;
			vh_tok("-");
		}
		vh_add("|");
		if ((b = arr._buf) && b->_used) {
			MPT_STRUCT(command) *c = (void *) (b + 1);
			size_t k, len = b->_used / sizeof(*c);
			for (k = 0; k < len; k++) {
				if (!c[k].cmd) vh_add("%s%llx=.", k ? "," : "", (unsigned long long) c[k].id);
				else vh_add("%s%llx=%d", k ? "," : "", (unsigned long long) c[k].id, (int) (intptr_t) c[k].arg);
			}
		} else vh_add("-");
	}
	{ MPT_STRUCT(buffer) *b = arr._buf; if (b) { b->_used = 0; mpt_array_clone(&arr, 0); } }
}
static void run_case(int ntok, char **tok)
{
	if (ntok >= 4 && !strcmp(tok[1], "con")) run_con(ntok, tok);
	else if (ntok >= 3 && !strcmp(tok[1], "rsv")) run_rsv(ntok, tok);
	else vh_tok("?case");
}
int main(int argc, char **argv)
{
	vh_out = fdopen(dup(1), "w");
	dup2(2, 1);
	return vh_main(argc, argv, run_case);
}
