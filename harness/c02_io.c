/* C02 harness, stream glue: two mpt_stream objects over a socketpair.  The writer pushes messages
 * through mpt_stream_push / mpt_stream_flush (mptio/stream/stream_push.c, stream_flush.c: framed output
 * queue, partial writes), the reader takes them with mpt_stream_poll / mpt_stream_dispatch
 * (stream_poll.c, stream_dispatch.c: reads of arbitrary size into the framed input queue, growth of the
 * ring, mpt_queue_recv / mpt_message_get).  Here the kernel decides the transfer sizes, so the tokens are
 * compared with the specification only (received = sent); the mechanism-level comparison of the same
 * functions with scripted transfers is harness/c02_glue.c against coq/Cobs/GlueRun.v.
 *
 * case: <id> <10+variant 0..3 | 14 = command text> <sndbuf> <0> <0> <0> <op>...
 *       <id> <50+variant 0..3> ...: as 10+variant, but the reader is the stream INPUT object (mpt_stream_input) driven
 *       like the event loop does: next() on POLLIN, dispatch while Retry, nothing after a negative dispatch result
 *       <id> <20+variant 0,1 | 24> <size> ...: memory streams (mpt_stream_memory): the writer encodes into a user
 *       buffer of <size> bytes, `drain` hands the finished bytes to a reader stream over memory
 *   send HEX   push the message and terminate it (retrying after flush / reader progress)
 *   part HEX   push a piece, no termination;   fin   terminate
 *   wire N     flush the writer (N is ignored; the kernel decides how much is taken)
 *   recv       one poll + dispatch round on the reader
 *   drain      flush and receive until nothing moves any more
 * tokens: <msg>,<msg>...|<status>   ("-" = no message) */
#include "common.h"
#include <sys/uio.h>
#include <sys/socket.h>
#include <fcntl.h>
#include <poll.h>
#include <errno.h>
#include <unistd.h>
#include "convert.h"
#include "message.h"
#include "event.h"
#include "queue.h"
#include "stream.h"
#include "connection.h"
#include "notify.h"

static MPT_STRUCT(stream) w, r;
static int nrecv;
/* variants 50..53: the reader is the library's stream INPUT object (mpt_stream_input: what an event loop holds),
 * driven the way mpt_loop / mpt_notify_wait drive it: next() when poll reports input, then dispatch while it asks
 * for a retry; after a negative dispatch result the loop waits for new input */
static MPT_INTERFACE(input) *rin;
static int rin_fd = -1;

static int on_msg(void *arg, const MPT_STRUCT(message) *msg)
{
	MPT_STRUCT(message) m = *msg;
	size_t n = mpt_message_length(&m), got;
	uint8_t *tmp = malloc(n ? n : 1);
	(void) arg;
	got = mpt_message_read(&m, n, tmp);
	vh_add(nrecv++ ? "," : "");
	if (got != n) vh_add("SHORT");
	else if (!n) vh_add("E");
	else vh_hex(tmp, n);
	free(tmp);
	return 0;
}
static int on_msg(void *arg, const MPT_STRUCT(message) *msg);
static int on_event(void *arg, MPT_STRUCT(event) *ev)
{
	if (ev && ev->msg) return on_msg(arg, ev->msg);
	return 0;
}
static int do_recv_input(void)
{
	int before = nrecv, guard = 0, ret;
	struct pollfd p;
	p.fd = rin_fd; p.events = POLLIN; p.revents = 0;
	if (poll(&p, 1, 0) <= 0 || !(p.revents & POLLIN)) return 0;
	if (rin->_vptr->next(rin, p.revents) < 0) return 0;
	while (++guard < 100000 && nrecv <= 4000) {
		ret = rin->_vptr->dispatch(rin, on_event, 0);
		if (ret < 0 || !(ret & MPT_EVENTFLAG(Retry))) break;
	}
	return (nrecv - before) + 1;
}
/* one receive round, following the event loop protocol of the library (mpt_loop): dispatch only after
 * mpt_stream_poll reported input, and again only while the dispatcher asks for a retry.
 * returns number of messages delivered (plus one if bytes were read or buffers changed) */
static int do_recv(void)
{
	int before = nrecv, guard = 0, ret, moved, pr;
	if (rin) return do_recv_input();
	size_t l0 = r._rd.data.len, c0 = r._rd._state.curr, m0 = r._rd.data.max;
	pr = mpt_stream_poll(&r, POLLIN, 0);
	if (pr > 0 && (pr & POLLIN)) {
		while (++guard < 100000 && nrecv <= 4000) {
			ret = mpt_stream_dispatch(&r, on_msg, 0);
			if (ret < 0 || !(ret & MPT_EVENTFLAG(Retry))) break;
		}
	}
	moved = (l0 != r._rd.data.len) || (c0 != r._rd._state.curr) || (m0 != r._rd.data.max);
	return (nrecv - before) + moved;
}
static void pump(void)
{
	int idle = 0, guard = 0, nomove = 0;
	while (++guard < 100000 && idle < 3) {
		size_t d0 = w._wd._state.done;
		int f = mpt_stream_flush(&w);
		int got = do_recv();
		size_t pend = w._wd._state.done;
		idle = (got || (f >= 0 && pend)) ? 0 : idle + 1;
		if (f < 0 && !got) idle++;
		/* finished data that is neither written nor received any more: give up quickly (reported by the caller) */
		nomove = (got || pend != d0) ? 0 : nomove + 1;
		if (nomove > 200) break;
		if (nrecv > 4000) break;      /* a stream that keeps producing messages: certainly not what was sent */
	}
}
static ssize_t push_all(const uint8_t *d, size_t n)
{
	size_t off = 0;
	int stuck = 0;
	ssize_t rc = 0;
	while (off < n || !d) {
		rc = mpt_stream_push(&w, d ? n - off : 0, d ? d + off : 0);
		if (!d) {
			if (rc >= 0) return 0;
		} else if (rc > 0) {
			off += rc; stuck = 0;
			continue;
		}
		if (++stuck > 5) return rc < 0 ? rc : -99;
		pump();
	}
	return 0;
}
/* memory streams: no descriptor, fixed user buffers */
static void run_memory(int ntok, char **tok, int code)
{
	static const MPT_STRUCT(stream) init = MPT_STREAM_INIT;
	size_t size = vh_int(tok[2]);
	struct iovec ov, iv;
	int t = 6;
	uint8_t *copy = 0;
	ov.iov_base = malloc(size ? size : 1); ov.iov_len = size;
	memset(ov.iov_base, 0xee, size);
	w = init; r = init;
	if (mpt_stream_memory(&w, 0, &ov) < 0) { vh_tok("?wmem"); return; }
	w._wd._enc = mpt_message_encoder(code);
	while (t < ntok) {
		const char *op = tok[t++];
		ssize_t rc = 0;
		nrecv = 0;
		vh_tok("");
		if (!strcmp(op, "send") || !strcmp(op, "part")) {
			size_t n, off = 0; uint8_t *d = vh_unhex(tok[t++], &n);
			while (off < n && rc >= 0) { rc = mpt_stream_push(&w, n - off, d + off); if (rc > 0) off += rc; else if (!rc) rc = -99; }
			if (rc >= 0 && op[0] == 's') rc = mpt_stream_push(&w, 0, 0);
			free(d);
		}
		else if (!strcmp(op, "fin")) rc = mpt_stream_push(&w, 0, 0);
		else if (!strcmp(op, "wire")) { t++; }
		else if (!strcmp(op, "recv")) { }
		else if (!strcmp(op, "drain")) {
			/* hand the finished bytes to a reader over memory and take every message */
			size_t k = w._wd._state.done;
			int guard = 0, ret;
			copy = malloc(k ? k : 1);
			if (k && mpt_queue_get(&w._wd.data, 0, k, copy) < 0) { vh_add("?get"); break; }
			mpt_queue_crop(&w._wd.data, 0, k);
			w._wd._state.done -= k;
			iv.iov_base = copy; iv.iov_len = k;
			r = init;
			if (k && mpt_stream_memory(&r, &iv, 0) < 0) { vh_add("?rmem"); break; }
			r._rd._dec = mpt_message_decoder(code);
			r._rd._state.data.msg = -1;
			while (k && ++guard < 100000) {
				ret = mpt_stream_dispatch(&r, on_msg, 0);
				if (ret < 0 || !(ret & MPT_EVENTFLAG(Retry))) break;
			}
			free(copy); copy = 0;
		}
		else { vh_add("?%s", op); break; }
		if (!nrecv) vh_add("-");
		if (rc < 0) vh_add("|fail%zd", rc); else vh_add("|ok");
	}
	free(ov.iov_base);
}
static void run_case(int ntok, char **tok)
{
	static const int codes[] = { MPT_ENUM(EncodingCobs), MPT_ENUM(EncodingCobsInline),
	                             MPT_ENUM(EncodingCobs) | MPT_ENUM(EncodingCompress),
	                             MPT_ENUM(EncodingCobsInline) | MPT_ENUM(EncodingCompress),
	                             MPT_ENUM(EncodingCommand) };
	static const MPT_STRUCT(stream) init = MPT_STREAM_INIT;
	int v = vh_int(tok[1]) - 10, sndbuf = vh_int(tok[2]), t = 6, sv[2], as_input = 0;
	MPT_STRUCT(socket) sock;
	if (v >= 40 && v <= 43) { as_input = 1; v -= 40; }
	else if (v >= 10) { run_memory(ntok, tok, codes[v - 10]); return; }
	if (v < 0 || v > 4) { vh_tok("?variant"); return; }
	if (socketpair(AF_UNIX, SOCK_STREAM, 0, sv) < 0) { vh_tok("?socketpair"); return; }
	fcntl(sv[0], F_SETFL, O_NONBLOCK);
	fcntl(sv[1], F_SETFL, O_NONBLOCK);
	if (sndbuf > 0) setsockopt(sv[0], SOL_SOCKET, SO_SNDBUF, &sndbuf, sizeof(sndbuf));
	w = init; r = init;
	w._wd._enc = mpt_message_encoder(codes[v]);
	r._rd._dec = mpt_message_decoder(codes[v]);
	sock._id = sv[0];
	if (!w._wd._enc || mpt_stream_dopen(&w, &sock, MPT_STREAMFLAG(Write) | MPT_STREAMFLAG(WriteBuf)) < 0) { vh_tok("?wopen"); return; }
	sock._id = sv[1];
	if (as_input) {
		if (!(rin = mpt_stream_input(&sock, MPT_STREAMFLAG(Read) | MPT_STREAMFLAG(ReadBuf), codes[v], 0))) { vh_tok("?rinput"); return; }
		rin_fd = sv[1];
	}
	else if (!r._rd._dec || mpt_stream_dopen(&r, &sock, MPT_STREAMFLAG(Read) | MPT_STREAMFLAG(ReadBuf)) < 0) { vh_tok("?ropen"); return; }
	while (t < ntok) {
		const char *op = tok[t++];
		ssize_t rc = 0;
		nrecv = 0;
		vh_tok("");
		if (!strcmp(op, "send") || !strcmp(op, "part")) {
			size_t n; uint8_t *d = vh_unhex(tok[t++], &n);
			if (n) rc = push_all(d, n);
			if (rc >= 0 && op[0] == 's') rc = push_all(0, 0);
			free(d);
		}
		else if (!strcmp(op, "fin")) rc = push_all(0, 0);
		else if (!strcmp(op, "wire")) { t++; mpt_stream_flush(&w); }
		else if (!strcmp(op, "recv")) { do_recv(); }
		else if (!strcmp(op, "drain")) { pump(); }
		else { vh_add("?%s", op); break; }
		if (!nrecv) vh_add("-");
		if (rc < 0) vh_add("|fail%zd", rc); else vh_add("|ok");
	}
	mpt_stream_close(&w);
	mpt_stream_close(&r);
}
int main(int argc, char **argv) { return vh_main(argc, argv, run_case); }
