/* c20_oracle.c — libc / FPU oracle used by the C20 generator (built WITHOUT the library under test).
 * stdin lines:
 *   T <hex text|->   ->  "<f1>~<d1>~<f2>"  with <x> = <end>/<overflow>/<bits>: strtof on the text, strtod on the
 *                        text, strtof on the text behind the first float and one separator character
 *   I <decimal>      ->  "<f32 bits>/<f64 bits>" of the integer converted by the FPU (unsigned when > INT64_MAX)
 *   F <8 hex>        ->  "<f64 bits>"            float widened
 *   D <16 hex>       ->  "<f32 bits>" or "o"     double narrowed, o = finite value becomes infinite */
#include <stdio.h>
#include <stdlib.h>
#include <string.h>
#include <stdint.h>
#include <inttypes.h>
#include <errno.h>
#include <math.h>

static void one_f(const char *s, long *endp)
{
	char *end = (char *) s;
	float v; uint32_t b; int ovf;
	errno = 0;
	v = strtof(s, &end);
	ovf = (errno == ERANGE && isinf(v));
	memcpy(&b, &v, 4);
	printf("%ld/%d/%" PRIx32, (long) (end - s), ovf, b);
	if (endp) *endp = end - s;
}
static void one_d(const char *s)
{
	char *end = (char *) s;
	double v; uint64_t b; int ovf;
	errno = 0;
	v = strtod(s, &end);
	ovf = (errno == ERANGE && isinf(v));
	memcpy(&b, &v, 8);
	printf("%ld/%d/%" PRIx64, (long) (end - s), ovf, b);
}
int main(void)
{
	char *line = 0;
	size_t cap = 0;
	ssize_t got;
	while ((got = getline(&line, &cap, stdin)) >= 0) {
		char *arg = line + 2;
		while (got > 0 && (line[got-1] == '\n' || line[got-1] == '\r')) line[--got] = 0;
		if (line[0] == 'T') {
			size_t n = (arg[0] == '-') ? 0 : strlen(arg) / 2, i;
			char *s = malloc(n + 1);
			long e1 = 0;
			for (i = 0; i < n; i++) { unsigned v; sscanf(arg + 2*i, "%2x", &v); s[i] = (char) v; }
			s[n] = 0;
			one_f(s, &e1);
			putchar('~');
			one_d(s);
			putchar('~');
			if ((size_t) e1 < n) one_f(s + e1 + 1, 0); else printf("0/0/0");
			putchar('\n');
			free(s);
		}
		else if (line[0] == 'I') {
			float f; double d; uint32_t bf; uint64_t bd;
			if (arg[0] == '-') { int64_t v = strtoll(arg, 0, 10); f = (float) v; d = (double) v; }
			else { uint64_t v = strtoull(arg, 0, 10); if (v > INT64_MAX) { f = (float) v; d = (double) v; } else { f = (float) (int64_t) v; d = (double) (int64_t) v; } }
			memcpy(&bf, &f, 4); memcpy(&bd, &d, 8);
			printf("%" PRIx32 "/%" PRIx64 "\n", bf, bd);
		}
		else if (line[0] == 'F') {
			uint32_t b = (uint32_t) strtoul(arg, 0, 16); float f; double d; uint64_t bd;
			memcpy(&f, &b, 4); d = f; memcpy(&bd, &d, 8);
			printf("%" PRIx64 "\n", bd);
		}
		else if (line[0] == 'D') {
			uint64_t b = strtoull(arg, 0, 16); double d; float f; uint32_t bf;
			memcpy(&d, &b, 8); f = (float) d; memcpy(&bf, &f, 4);
			if (isinf(f) && !isinf(d)) printf("o\n"); else printf("%" PRIx32 "\n", bf);
		}
		else printf("?\n");
	}
	return 0;
}
