/* C02 harness, stream glue at MECHANISM level: two mpt_stream objects whose descriptors are served by
 * wrapped writev/readv (link with -Wl,--wrap=writev,--wrap=readv): the case decides how many bytes every
 * transfer moves, whether it returns 0 or fails, so that mpt_stream_push / mpt_stream_flush /
 * mpt_stream_poll / mpt_stream_dispatch (mptio/stream/stream_push.c, stream_flush.c, stream_poll.c,
 * stream_dispatch.c, mptcore/queue/queue_load.c) run deterministically and can be compared with the
 * model coq/Cobs/GlueRun.v after every operation: return value, delivered messages, both rings (offset,
 * length, capacity, contents), encoder and decoder state, bytes in flight.
 *
 * case: <id> <30+variant 0..3> <wcap> <woff> <rcap> <roff> <op>...
 *   gpush HEX   mpt_stream_push(len, data)          gfin       mpt_stream_push(0, 0)
 *   gflush K    mpt_stream_flush; writev moves min(K, offered) bytes (K = 0: returns 0, K < 0: EAGAIN)
 *   gpoll K     mpt_stream_poll(POLLIN, -1); readv moves min(K, in flight, free) bytes (0: EAGAIN)
 *   gdisp       mpt_stream_dispatch (handler returns 0)
 *   gdrain      flush / poll / dispatch with unlimited transfers until nothing moves
 * tokens: <msg>,<msg>...|ok~R<rc>#w:...#r:...#x:<bytes in flight> */
#include "common.h"
#include <sys/uio.h>
#include <sys/socket.h>
#include <fcntl.h>
#include <poll.h>
#include <errno.h>
#include <unistd.h>
#include "convert.h"
#include "message.h"
#include "event.h"
#include "queue.h"
#include "stream.h"
#include "connection.h"

typedef ssize_t (*enc_fn)(MPT_STRUCT(encode_state) *, const struct iovec *, const struct iovec *);
typedef int (*dec_fn)(MPT_STRUCT(decode_state) *, const struct iovec *, size_t);
static enc_fn encs[] = { mpt_encode_cobs, mpt_encode_cobs_r, mpt_encode_cobs_zpe, mpt_encode_cobs_zpe_r };
static dec_fn decs[] = { mpt_decode_cobs, mpt_decode_cobs_r, mpt_decode_cobs_zpe, mpt_decode_cobs_zpe_r };

static MPT_STRUCT(stream) w, r;
static int nrecv, fdw = -1, fdr = -1;
static uint8_t *wire;
static size_t wire_len, wire_cap;
static long wq, rq;

extern ssize_t __real_writev(int, const struct iovec *, int);
extern ssize_t __real_readv(int, const struct iovec *, int);

ssize_t __wrap_writev(int fd, const struct iovec *iov, int n)
{
	size_t left, done = 0;
	int i;
	if (fd != fdw || fdw < 0) return __real_writev(fd, iov, n);
	if (wq < 0) { errno = EAGAIN; return -1; }
	if (!wq) return 0;
	left = wq;
	for (i = 0; i < n && left; i++) {
		size_t take = iov[i].iov_len < left ? iov[i].iov_len : left;
		if (wire_len + take > wire_cap) {
			wire_cap = (wire_len + take) * 2 + 64;
			wire = realloc(wire, wire_cap);
		}
		memcpy(wire + wire_len, iov[i].iov_base, take);
		wire_len += take; left -= take; done += take;
	}
	return done;
}
ssize_t __wrap_readv(int fd, const struct iovec *iov, int n)
{
	size_t left, done = 0;
	int i;
	if (fd != fdr || fdr < 0) return __real_readv(fd, iov, n);
	left = rq < 0 ? 0 : (size_t) rq;
	if (left > wire_len) left = wire_len;
	for (i = 0; i < n && left; i++) {
		size_t take = iov[i].iov_len < left ? iov[i].iov_len : left;
		memcpy(iov[i].iov_base, wire + done, take);
		left -= take; done += take;
	}
	if (!done) { errno = EAGAIN; return -1; }
	memmove(wire, wire + done, wire_len - done);
	wire_len -= done;
	return done;
}
static int on_msg(void *arg, const MPT_STRUCT(message) *msg)
{
	MPT_STRUCT(message) m = *msg;
	size_t n = mpt_message_length(&m), got;
	uint8_t *tmp = malloc(n ? n : 1);
	(void) arg;
	got = mpt_message_read(&m, n, tmp);
	vh_add(nrecv++ ? "," : "");
	if (got != n) vh_add("SHORT");
	else if (!n) vh_add("E");
	else vh_hex(tmp, n);
	free(tmp);
	return 0;
}
static void ring_init(MPT_STRUCT(queue) *q, size_t cap, size_t off)
{
	free(q->base);
	q->base = malloc(cap ? cap : 1);
	memset(q->base, 0xee, cap);
	q->max = cap; q->off = cap ? off % cap : 0; q->len = 0;
}
static void drain(void)
{
	size_t fuel = 2 * (w._wd.data.len + wire_len + r._rd.data.len) + 8;
	while (fuel--) {
		size_t n1 = 0, n2 = 0, f2;
		int got0 = nrecv;
		if (w._wd._state.done) {
			size_t before = wire_len;
			wq = w._wd._state.done;
			mpt_stream_flush(&w);
			n1 = wire_len - before;
		}
		if (wire_len) {
			size_t before = wire_len;
			rq = wire_len;
			mpt_stream_poll(&r, POLLIN, -1);
			n2 = before - wire_len;
		}
		f2 = r._rd.data.len + 1;
		while (f2--) {
			int before = nrecv;
			mpt_stream_dispatch(&r, on_msg, 0);
			if (nrecv == before) break;
		}
		if (!n1 && !n2 && nrecv == got0) break;
	}
}
static void run_case(int ntok, char **tok)
{
	static const MPT_STRUCT(stream) init = MPT_STREAM_INIT;
	int v = vh_int(tok[1]) - 30, t = 6, sv[2];
	MPT_STRUCT(socket) sock;
	if (v < 0 || v > 3) { vh_tok("?variant"); return; }
	if (socketpair(AF_UNIX, SOCK_STREAM, 0, sv) < 0) { vh_tok("?socketpair"); return; }
	w = init; r = init;
	sock._id = sv[0];
	if (mpt_stream_dopen(&w, &sock, MPT_STREAMFLAG(Write) | MPT_STREAMFLAG(WriteBuf)) < 0) { vh_tok("?wopen"); return; }
	sock._id = sv[1];
	if (mpt_stream_dopen(&r, &sock, MPT_STREAMFLAG(Read) | MPT_STREAMFLAG(ReadBuf)) < 0) { vh_tok("?ropen"); return; }
	w._wd._enc = encs[v];
	r._rd._dec = decs[v];
	r._rd._state.data.msg = -1;
	ring_init(&w._wd.data, vh_int(tok[2]), vh_int(tok[3]));
	ring_init(&r._rd.data, vh_int(tok[4]), vh_int(tok[5]));
	fdw = sv[0]; fdr = sv[1];
	while (t < ntok) {
		const char *op = tok[t++];
		long rc = 0;
		size_t i;
		nrecv = 0;
		vh_tok("");
		if (!strcmp(op, "gpush")) {
			size_t n; uint8_t *d = vh_unhex(tok[t++], &n);
			if (n) rc = mpt_stream_push(&w, n, d);
			free(d);
		}
		else if (!strcmp(op, "gfin")) rc = mpt_stream_push(&w, 0, 0);
		else if (!strcmp(op, "gflush")) { wq = vh_int(tok[t++]); rc = mpt_stream_flush(&w); }
		else if (!strcmp(op, "gpoll")) { rq = vh_int(tok[t++]); rc = mpt_stream_poll(&r, POLLIN, -1); }
		else if (!strcmp(op, "gdisp")) rc = mpt_stream_dispatch(&r, on_msg, 0);
		else if (!strcmp(op, "gdrain")) drain();
		else { vh_add("?%s", op); break; }
		if (!nrecv) vh_add("-");
		vh_add("|ok~R%ld", rc);
		vh_add("#w:%zu,%zu,%zu,%zu,%zu,%d|", w._wd.data.off, w._wd.data.len, w._wd.data.max,
		       (size_t) w._wd._state.done, (size_t) w._wd._state.scratch, w._wd._state._ctx ? 1 : 0);
		if (!w._wd.data.len) vh_add("-");
		for (i = 0; i < w._wd.data.len; i++) vh_add("%02x", ((uint8_t *) w._wd.data.base)[(w._wd.data.off + i) % w._wd.data.max]);
		vh_add("#r:%zu,%zu,%zu,%zu,%zu,%zu,%zd,%d,%d|", r._rd.data.off, r._rd.data.len, r._rd.data.max,
		       (size_t) r._rd._state.curr, (size_t) r._rd._state.data.pos, (size_t) r._rd._state.data.len, (ssize_t) r._rd._state.data.msg,
		       (int) (r._rd._state._ctx & 0xff), (int) ((r._rd._state._ctx >> 8) & 0xff));
		{
			size_t a = r._rd._state.data.pos, b = a + r._rd._state.data.len, c = r._rd._state.curr, any = 0;
			for (i = a; i < b && i < r._rd.data.len; i++, any = 1) vh_add("%02x", ((uint8_t *) r._rd.data.base)[(r._rd.data.off + i) % r._rd.data.max]);
			if (!any) vh_add("-");
			vh_add("|");
			any = 0;
			for (i = c; i < r._rd.data.len; i++, any = 1) vh_add("%02x", ((uint8_t *) r._rd.data.base)[(r._rd.data.off + i) % r._rd.data.max]);
			if (!any) vh_add("-");
		}
		vh_add("#x:%zu", wire_len);
	}
	fdw = fdr = -1;
	mpt_stream_close(&w);
	mpt_stream_close(&r);
	free(wire);
}
int main(int argc, char **argv) { return vh_main(argc, argv, run_case); }
