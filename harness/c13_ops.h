/* C13: the operations of the C queue API on a MPT_STRUCT(queue), shared by
 * harness/c13_queue.c (C, links mptcore only) and harness/c13_cxx.cpp (C++,
 * where the same queue is the one embedded in an mpt++ object).
 * Token per operation: <out>|<contents-hex>|<max>  (see ml/c13_driver.ml). */
#ifndef C13_OPS_H
#define C13_OPS_H
#include <errno.h>

/* independent read-out of the ring (does not use the library) */
static void c13_dump(const MPT_STRUCT(queue) *q)
{
	uint8_t *tmp = (uint8_t *) malloc(q->len ? q->len : 1);
	size_t i;
	for (i = 0; i < q->len; i++) tmp[i] = ((uint8_t *) q->base)[(q->off + i) % q->max];
	vh_add("|");
	vh_hex(tmp, q->len);
	vh_add("|%zu", q->max);
	free(tmp);
}
/* start state from the case header: exact-size heap storage, unused bytes 0xee */
static void c13_init(MPT_STRUCT(queue) *q, char **tok)
{
	size_t clen, i;
	uint8_t *c;
	q->max = vh_int(tok[1]);
	q->off = vh_int(tok[2]);
	c = vh_unhex(tok[3], &clen);
	q->base = malloc(q->max);
	memset(q->base, 0xee, q->max);
	q->len = clen;
	for (i = 0; i < clen; i++) ((uint8_t *) q->base)[(q->off + i) % q->max] = c[i];
	free(c);
}
static int c13_find_key;
static int c13_find_cmp(const void *elem, void *arg)
{
	(void) arg;
	return *((const uint8_t *) elem) == c13_find_key ? 0 : 1;
}
/* run one C-level operation; returns 0 when `op` is not one of them */
static int c13_c_op(MPT_STRUCT(queue) *q, const char *op, char **tok, int *tp)
{
	int t = *tp;
	if (!strcmp(op, "push") || !strcmp(op, "unshift")) {
		size_t n; uint8_t *d = vh_unhex(tok[t++], &n);
		int r = op[0] == 'p' ? mpt_qpush(q, n, d) : mpt_qunshift(q, n, d);
		vh_tok(r < 0 ? "R" : "D");
		free(d);
	}
	else if (!strcmp(op, "pop") || !strcmp(op, "shift")) {
		size_t n = vh_int(tok[t++]);
		int hd = vh_int(tok[t++]);
		uint8_t *d = hd ? (uint8_t *) malloc(n ? n : 1) : 0;
		void *r = op[0] == 'p' ? mpt_qpop(q, n, d) : mpt_qshift(q, n, d);
		if (!r) vh_tok("R");
		else { vh_tok("B:"); vh_hex(r, n); }
		free(d);
	}
	else if (!strcmp(op, "crop")) {
		size_t p = vh_int(tok[t++]), n = vh_int(tok[t++]);
		vh_tok(mpt_queue_crop(q, p, n) < 0 ? "R" : "D");
	}
	else if (!strcmp(op, "get")) {
		size_t p = vh_int(tok[t++]), n = vh_int(tok[t++]);
		uint8_t *d = (uint8_t *) malloc(n ? n : 1);
		if (mpt_queue_get(q, p, n, d) < 0) vh_tok("R");
		else { vh_tok("B:"); vh_hex(d, n); }
		free(d);
	}
	else if (!strcmp(op, "set")) {
		size_t p = vh_int(tok[t++]), n; uint8_t *d = vh_unhex(tok[t++], &n);
		vh_tok(mpt_queue_set(q, p, n, d) < 0 ? "R" : "D");
		free(d);
	}
	else if (!strcmp(op, "setz")) {
		size_t p = vh_int(tok[t++]), n = vh_int(tok[t++]);
		vh_tok(mpt_queue_set(q, p, n, 0) < 0 ? "R" : "D");
	}
	else if (!strcmp(op, "align")) {
		mpt_queue_align(q, vh_int(tok[t++]));
		vh_tok("D");
	}
	else if (!strcmp(op, "resize")) {
		size_t n = vh_int(tok[t++]);
		void *r = mpt_queue_resize(q, n);
		vh_tok((n && !r) ? "R" : "D");
	}
	else if (!strcmp(op, "prepare")) {
		size_t n = vh_int(tok[t++]);
		size_t r = mpt_queue_prepare(q, n);
		vh_tok((n && !r) ? "R" : "D");
	}
	else if (!strcmp(op, "find")) {
		size_t e = vh_int(tok[t++]);
		uint8_t *r;
		c13_find_key = vh_int(tok[t++]);
		errno = 0;
		r = (uint8_t *) mpt_queue_find(q, e, c13_find_cmp, 0);
		if (!r) vh_tok(errno ? "R" : "P:-");
		else {
			uint8_t *b = (uint8_t *) q->base;
			size_t k = (r >= b + q->off) ? (size_t) (r - (b + q->off)) : (size_t) (r - b) + (q->max - q->off);
			vh_tok("P:%zu", k);
		}
	}
	else if (!strcmp(op, "string")) {
		char *s = mpt_queue_string(q);
		if (!s) vh_tok("R");
		else { vh_tok("B:"); vh_hex(s, q->len + 1); }
	}
	else {
		return 0;
	}
	*tp = t;
	return 1;
}
#endif
