/* C15 harness (C++ part): reference<T> of mptcore/core.h, refcount of mpt++/refcount_wrap.cpp and
 * metatype::generic of mpt++/metatype_generic.cpp.
 *
 * Case lines (lines of family c / r belong to c15_refs.c):
 *   <id> x <op> <args> ...   slots 12..14 reference<Obj>, 15..17 raw Obj* (each raw pointer owns one reference);
 *                            objects: reference<Obj>::type instances (harness class, logging vtable)
 *   <id> g <op> <args> ...   slots 12..14 reference<metatype>, 15..17 raw metatype*; objects: metatype::generic
 *        xnew d (x) | xgen d (g) | xclone s d (g) | xassign s d | xcopy s d | xmove s d | xdetach s d | xset s d | xdrop d
 *        addref s d | unref s (raw pointers) | force s <hex> | unforce
 *   <id> n <op> <args> ...   slots 12..14 reference<Node>, 15..17 raw Node*; objects: reference<Node>::type instances of a
 *                            harness class that OWNS a reference<Node> next (linked nodes, logging vtable); the operations
 *                            of family x except force/unforce, plus
 *        xsetnext s d        r[d].instance()->next = r[s]   (only towards an object created earlier: no cycles)
 *        xnext s d           r[d] = r[s].instance()->next   (s == d: step along the chain)
 *                            objects token: <hex count>[><object next refers to>] | x
 *   <id> y <cop> <args> ...  refcount::raise / refcount::lower on a bare counter
 *   <id> q                   probe: create a metatype::generic and drop its only reference (allocator discipline)
 * Token format: see ml/c15_driver.ml.  The x objects' addref/unref overrides log the call and forward to the
 * library implementation, the destructor logs the destruction; metatype::generic is used as it is (no log). */
#include "common.h"
#include <new>
#include <utility>
#include <sanitizer/asan_interface.h>
#include <sanitizer/lsan_interface.h>
#include "core.h"
#define private public      /* the counter member of metatype::generic is private */
#define protected public
#include "meta.h"
#undef private
#undef protected

using namespace mpt;

static char evlog[4096];
static size_t evlen;
static void ev(char c, int id)
{
	if (evlen + 16 < sizeof(evlog)) evlen += sprintf(evlog + evlen, "%c%d", c, id);
}

class Obj
{
public:
	Obj() : id(-1) { }
	virtual ~Obj() { ev('d', id); }
	virtual void unref() = 0;
	virtual uintptr_t addref() = 0;
	int id;
};
class CObj : public reference<Obj>::type
{
public:
	void unref()
	{
		ev('u', id);
		reference<Obj>::type::unref();
	}
	uintptr_t addref()
	{
		ev('a', id);
		return reference<Obj>::type::addref();
	}
	uintptr_t &field()
	{
		return *reinterpret_cast<uintptr_t *>(&_ref);
	}
};

/* family n: nodes that own a reference to another node (destroying a node releases its successor) */
class Node
{
public:
	Node() : id(-1) { }
	virtual ~Node() { ev('d', id); }
	virtual void unref() = 0;
	virtual uintptr_t addref() = 0;
	reference<Node> next;
	int id;
};
class CNode : public reference<Node>::type
{
public:
	void unref()
	{
		ev('u', id);
		reference<Node>::type::unref();
	}
	uintptr_t addref()
	{
		ev('a', id);
		return reference<Node>::type::addref();
	}
	uintptr_t &field()
	{
		return *reinterpret_cast<uintptr_t *>(&_ref);
	}
};

/* family x: harness objects */
struct FamObj
{
	typedef Obj base;
	static Obj *create(int id)
	{
		CObj *o = new CObj;
		o->id = id;
		return o;
	}
	static uintptr_t &field(Obj *p) { return static_cast<CObj *>(p)->field(); }
	static Obj *clone(Obj *) { return 0; }
	static bool can_create(const char *op) { return !strcmp(op, "xnew"); }
	static bool can_clone() { return false; }
	static bool can_force() { return true; }
	static reference<Obj> *next(Obj *) { return 0; }
};
struct FamNode
{
	typedef Node base;
	static Node *create(int id)
	{
		CNode *o = new CNode;
		o->id = id;
		return o;
	}
	static uintptr_t &field(Node *p) { return static_cast<CNode *>(p)->field(); }
	static Node *clone(Node *) { return 0; }
	static bool can_create(const char *op) { return !strcmp(op, "xnew"); }
	static bool can_clone() { return false; }
	static bool can_force() { return false; }
	static reference<Node> *next(Node *p) { return &p->next; }
};
/* family g: library objects */
struct FamGen
{
	typedef metatype base;
	static metatype *create(int)
	{
		double v = 1.5;
		return metatype::generic::create('d', &v);
	}
	static uintptr_t &field(metatype *p) { return *reinterpret_cast<uintptr_t *>(&static_cast<metatype::generic *>(p)->_ref); }
	static metatype *clone(metatype *p) { return p->clone(); }
	static bool can_create(const char *op) { return !strcmp(op, "xgen"); }
	static bool can_clone() { return true; }
	static bool can_force() { return true; }
	static reference<metatype> *next(metatype *) { return 0; }
};

#define MAXOBJ 256
static int bank(int i) { return i < 0 ? 5 : i < 6 ? 0 : i < 9 ? 1 : i < 12 ? 2 : i < 15 ? 3 : i < 18 ? 4 : 5; }
__attribute__((noinline)) static void clear_stack()
{
	volatile char pad[16384];
	for (size_t i = 0; i < sizeof(pad); i++) pad[i] = 0;
}
#define ARGI(n) ((int) vh_int(tok[t + (n)]))

template <class F>
struct Run
{
	typedef typename F::base T;
	uintptr_t objs[MAXOBJ];   /* inverted pointers: not references for LeakSanitizer */
	int nobj;
	reference<T> rslot[3];
	T *pslot[3];

	Run() : nobj(0) { pslot[0] = pslot[1] = pslot[2] = 0; }
	T *optr(int i) { return reinterpret_cast<T *>(~objs[i]); }
	int reg(T *p)
	{
		objs[nobj] = ~reinterpret_cast<uintptr_t>(p);
		return nobj++;
	}
	int find_obj(const T *p)
	{
		if (!p) return -1;
		for (int i = nobj - 1; i >= 0; i--) if (objs[i] == ~reinterpret_cast<uintptr_t>(p)) return i;
		return -1;
	}
	int alive(int i) { return !__asan_address_is_poisoned(optr(i)); }
	int slot_obj(int i)
	{
		if (bank(i) == 3) return find_obj(rslot[i - 12].instance());
		if (bank(i) == 4) return find_obj(pslot[i - 15]);
		return -1;
	}
	uintptr_t held(int o)
	{
		uintptr_t n = 0;
		for (int i = 12; i < 18; i++) if (slot_obj(i) == o) n++;
		return n;
	}
	void dump()
	{
		int any = 0;
		vh_add("|");
		for (int i = 0; i < nobj; i++) {
			if (i) vh_add(",");
			if (!alive(i)) vh_add("x");
			else {
				reference<T> *nx = F::next(optr(i));
				vh_add("%llx", (unsigned long long) F::field(optr(i)));
				if (nx && nx->instance()) vh_add(">%d", find_obj(nx->instance()));
			}
		}
		if (!nobj) vh_add("-");
		vh_add("|");
		for (int i = 12; i < 18; i++) {
			int o = slot_obj(i);
			if (o < 0) continue;
			vh_add("%s%d:%d", any ? "," : "", i, o);
			any = 1;
		}
		if (!any) vh_add("-");
		vh_add("|%s", evlen ? evlog : "-");
	}
	void run(int ntok, char **tok)
	{
		int t = 2;
		while (t < ntok) {
			const char *op = tok[t++];
			evlen = 0; evlog[0] = 0;
			if (!strcmp(op, "xnew") || !strcmp(op, "xgen")) {
				int d = ARGI(0);
				t += 1;
				if (!F::can_create(op) || bank(d) != 3 || nobj >= MAXOBJ) vh_tok("X");
				else {
					T *o = F::create(nobj);
					if (!o) { vh_tok("?create"); break; }
					reg(o);
					rslot[d - 12].set_instance(o);
					vh_tok("D");
				}
			}
			else if (!strcmp(op, "xclone")) {
				int s = ARGI(0), d = ARGI(1);
				t += 2;
				if (!F::can_clone() || bank(s) != 3 || bank(d) != 4 || slot_obj(s) < 0 || pslot[d - 15] || nobj >= MAXOBJ) vh_tok("X");
				else {
					T *n = F::clone(rslot[s - 12].instance());
					if (!n) vh_tok("E");
					else { reg(n); pslot[d - 15] = n; vh_tok("D"); }
				}
			}
			else if (!strcmp(op, "xassign")) {
				int s = ARGI(0), d = ARGI(1);
				t += 2;
				if (bank(s) != 3 || bank(d) != 3) vh_tok("X");
				else { rslot[d - 12] = rslot[s - 12]; vh_tok("D"); }
			}
			else if (!strcmp(op, "xcopy")) {
				int s = ARGI(0), d = ARGI(1);
				t += 2;
				if (bank(s) != 3 || bank(d) != 3 || s == d) vh_tok("X");
				else {
					rslot[d - 12].~reference<T>();
					new (&rslot[d - 12]) reference<T>(rslot[s - 12]);
					vh_tok("D");
				}
			}
			else if (!strcmp(op, "xmove")) {
				int s = ARGI(0), d = ARGI(1);
				t += 2;
				if (bank(s) != 3 || bank(d) != 3) vh_tok("X");
				else { rslot[d - 12] = std::move(rslot[s - 12]); vh_tok("D"); }
			}
			else if (!strcmp(op, "xdetach")) {
				int s = ARGI(0), d = ARGI(1);
				t += 2;
				if (bank(s) != 3 || bank(d) != 4 || pslot[d - 15]) vh_tok("X");
				else { pslot[d - 15] = rslot[s - 12].detach(); vh_tok("D"); }
			}
			else if (!strcmp(op, "xset")) {
				int s = ARGI(0), d = ARGI(1);
				t += 2;
				if (bank(s) != 4 || bank(d) != 3) vh_tok("X");
				else {
					T *p = pslot[s - 15];
					pslot[s - 15] = 0;
					rslot[d - 12].set_instance(p);
					vh_tok("D");
				}
			}
			else if (!strcmp(op, "xdrop")) {
				int d = ARGI(0);
				t += 1;
				if (bank(d) != 3) vh_tok("X");
				else { rslot[d - 12].set_instance(0); vh_tok("D"); }
			}
			else if (!strcmp(op, "addref")) {
				int s = ARGI(0), d = ARGI(1);
				t += 2;
				if (bank(s) != 4 || bank(d) != 4 || !pslot[s - 15] || pslot[d - 15]) vh_tok("X");
				else {
					uintptr_t r = pslot[s - 15]->addref();
					if (r) pslot[d - 15] = pslot[s - 15];
					vh_tok("R%llx", (unsigned long long) r);
				}
			}
			else if (!strcmp(op, "unref")) {
				int s = ARGI(0);
				t += 1;
				if (bank(s) != 4 || !pslot[s - 15]) vh_tok("X");
				else {
					T *p = pslot[s - 15];
					pslot[s - 15] = 0;
					p->unref();
					vh_tok("D");
				}
			}
			else if (!strcmp(op, "xsetnext")) {
				int s = ARGI(0), d = ARGI(1), od, os;
				t += 2;
				od = bank(d) == 3 ? slot_obj(d) : -1;
				os = bank(s) == 3 ? slot_obj(s) : -1;
				if (bank(s) != 3 || od < 0 || !F::next(optr(od)) || (rslot[s - 12].instance() && os >= od)) vh_tok("X");
				else { *F::next(rslot[d - 12].instance()) = rslot[s - 12]; vh_tok("D"); }
			}
			else if (!strcmp(op, "xnext")) {
				int s = ARGI(0), d = ARGI(1), os;
				t += 2;
				os = bank(s) == 3 ? slot_obj(s) : -1;
				if (bank(d) != 3 || os < 0 || !F::next(optr(os))) vh_tok("X");
				else { rslot[d - 12] = *F::next(rslot[s - 12].instance()); vh_tok("D"); }
			}
			else if (!strcmp(op, "force")) {
				int s = ARGI(0), o;
				unsigned long long v = strtoull(tok[t + 1], 0, 16);
				t += 2;
				o = bank(s) == 3 ? slot_obj(s) : -1;
				if (!F::can_force() || o < 0 || v < 1 || held(o) > v) vh_tok("X");
				else { F::field(optr(o)) = (uintptr_t) v; vh_tok("D"); }
			}
			else if (!strcmp(op, "unforce") && !F::can_force()) vh_tok("X");
			else if (!strcmp(op, "unforce")) {
				int n = nobj;
				for (int i = 0; i < n; i++) {
					uintptr_t h;
					if (!alive(i)) continue;
					if ((h = held(i))) F::field(optr(i)) = h;
					else { F::field(optr(i)) = 1; optr(i)->unref(); }
				}
				vh_tok("D");
			}
			else { vh_tok("?op:%s", op); break; }
			dump();
		}
		clear_stack();
		vh_tok("L%d", __lsan_do_recoverable_leak_check() ? 1 : 0);
	}
};
static Run<FamObj> runx;
static Run<FamGen> rung;
static Run<FamNode> runn;

static void run_counter(int ntok, char **tok)
{
	refcount *ref = new refcount(1);
	int t = 2;
	while (t < ntok) {
		const char *op = tok[t++];
		uintptr_t r;
		if (!strcmp(op, "set")) { r = *reinterpret_cast<uintptr_t *>(ref) = (uintptr_t) strtoull(tok[t++], 0, 16); }
		else if (!strcmp(op, "raise")) r = ref->raise();
		else if (!strcmp(op, "lower")) r = ref->lower();
		else { vh_tok("?op:%s", op); break; }
		vh_tok("%llx|%llx", (unsigned long long) r, (unsigned long long) ref->value());
	}
	delete ref;
}
/* the block of a metatype::generic comes from malloc(): it must go back through free() */
static void run_probe()
{
	double v = 1.5;
	metatype *m = metatype::generic::create('d', &v);
	if (!m) { vh_tok("?create"); return; }
	m->unref();
	vh_tok("D");
}
static void run_case(int ntok, char **tok)
{
	if (sizeof(uintptr_t) != 8 || sizeof(refcount) != sizeof(uintptr_t)) { vh_tok("?uintptr_t"); return; }
	if (ntok < 2) return;
	if (!strcmp(tok[1], "x")) runx.run(ntok, tok);
	else if (!strcmp(tok[1], "g")) rung.run(ntok, tok);
	else if (!strcmp(tok[1], "n")) runn.run(ntok, tok);
	else if (!strcmp(tok[1], "y")) run_counter(ntok, tok);
	else if (!strcmp(tok[1], "q")) run_probe();
	else vh_tok("?family");
}
int main(int argc, char **argv)
{
	int r = vh_main(argc, argv, run_case);
	fflush(stdout);
	_exit(r);
}
