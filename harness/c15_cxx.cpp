/* C15 harness (C++ part): reference<T> of mptcore/core.h and refcount of mpt++/refcount_wrap.cpp.
 *
 * Case lines (lines of family c / r belong to c15_refs.c):
 *   <id> x <op> <args> ...   slots 12..14 reference<Obj>, 15..17 raw Obj* (each raw pointer owns one reference)
 *        xnew d | xassign s d | xcopy s d | xmove s d | xdetach s d | xset s d | xdrop d
 *        addref s d | unref s (raw pointers) | force s <hex> | unforce
 *   <id> y <cop> <args> ...  refcount::raise / refcount::lower on a bare counter
 * Token format: see ml/c15_driver.ml.  The objects are reference<Obj>::type instances; their addref/unref
 * overrides log the call and forward to the library implementation, the destructor logs the destruction. */
#include "common.h"
#include <new>
#include <utility>
#include <sanitizer/asan_interface.h>
#include <sanitizer/lsan_interface.h>
#include "core.h"

using namespace mpt;

static char evlog[4096];
static size_t evlen;
static void ev(char c, int id)
{
	if (evlen + 16 < sizeof(evlog)) evlen += sprintf(evlog + evlen, "%c%d", c, id);
}

class Obj
{
public:
	Obj() : id(-1) { }
	virtual ~Obj() { ev('d', id); }
	virtual void unref() = 0;
	virtual uintptr_t addref() = 0;
	int id;
};
class CObj : public reference<Obj>::type
{
public:
	void unref()
	{
		ev('u', id);
		reference<Obj>::type::unref();
	}
	uintptr_t addref()
	{
		ev('a', id);
		return reference<Obj>::type::addref();
	}
	uintptr_t &field()
	{
		return *reinterpret_cast<uintptr_t *>(&_ref);
	}
};

#define MAXOBJ 256
static uintptr_t objs[MAXOBJ];   /* inverted pointers: not references for LeakSanitizer */
static int nobj;
static CObj *optr(int i) { return reinterpret_cast<CObj *>(~objs[i]); }
static int find_obj(const Obj *p)
{
	if (!p) return -1;
	for (int i = nobj - 1; i >= 0; i--) if (objs[i] == ~reinterpret_cast<uintptr_t>(static_cast<const CObj *>(p))) return i;
	return -1;
}
static int alive(int i) { return !__asan_address_is_poisoned(optr(i)); }

static reference<Obj> rslot[3];
static Obj *pslot[3];

static int bank(int i) { return i < 0 ? 5 : i < 6 ? 0 : i < 9 ? 1 : i < 12 ? 2 : i < 15 ? 3 : i < 18 ? 4 : 5; }
static int slot_obj(int i)
{
	if (bank(i) == 3) return find_obj(rslot[i - 12].instance());
	if (bank(i) == 4) return find_obj(pslot[i - 15]);
	return -1;
}
static uintptr_t held(int o)
{
	uintptr_t n = 0;
	for (int i = 12; i < 18; i++) if (slot_obj(i) == o) n++;
	return n;
}
static void dump()
{
	int any = 0;
	vh_add("|");
	for (int i = 0; i < nobj; i++) {
		if (i) vh_add(",");
		if (!alive(i)) vh_add("x");
		else vh_add("%llx", (unsigned long long) optr(i)->field());
	}
	if (!nobj) vh_add("-");
	vh_add("|");
	for (int i = 12; i < 18; i++) {
		int o = slot_obj(i);
		if (o < 0) continue;
		vh_add("%s%d:%d", any ? "," : "", i, o);
		any = 1;
	}
	if (!any) vh_add("-");
	vh_add("|%s", evlen ? evlog : "-");
}
__attribute__((noinline)) static void clear_stack()
{
	volatile char pad[16384];
	for (size_t i = 0; i < sizeof(pad); i++) pad[i] = 0;
}
#define ARGI(n) ((int) vh_int(tok[t + (n)]))
static void run_objects(int ntok, char **tok)
{
	int t = 2;
	while (t < ntok) {
		const char *op = tok[t++];
		evlen = 0; evlog[0] = 0;
		if (!strcmp(op, "xnew")) {
			int d = ARGI(0);
			t += 1;
			if (bank(d) != 3 || nobj >= MAXOBJ) vh_tok("X");
			else {
				CObj *o = new CObj;
				o->id = nobj;
				objs[nobj++] = ~reinterpret_cast<uintptr_t>(o);
				rslot[d - 12].set_instance(o);
				vh_tok("D");
			}
		}
		else if (!strcmp(op, "xassign")) {
			int s = ARGI(0), d = ARGI(1);
			t += 2;
			if (bank(s) != 3 || bank(d) != 3) vh_tok("X");
			else { rslot[d - 12] = rslot[s - 12]; vh_tok("D"); }
		}
		else if (!strcmp(op, "xcopy")) {
			int s = ARGI(0), d = ARGI(1);
			t += 2;
			if (bank(s) != 3 || bank(d) != 3 || s == d) vh_tok("X");
			else {
				rslot[d - 12].~reference<Obj>();
				new (&rslot[d - 12]) reference<Obj>(rslot[s - 12]);
				vh_tok("D");
			}
		}
		else if (!strcmp(op, "xmove")) {
			int s = ARGI(0), d = ARGI(1);
			t += 2;
			if (bank(s) != 3 || bank(d) != 3) vh_tok("X");
			else { rslot[d - 12] = std::move(rslot[s - 12]); vh_tok("D"); }
		}
		else if (!strcmp(op, "xdetach")) {
			int s = ARGI(0), d = ARGI(1);
			t += 2;
			if (bank(s) != 3 || bank(d) != 4 || pslot[d - 15]) vh_tok("X");
			else { pslot[d - 15] = rslot[s - 12].detach(); vh_tok("D"); }
		}
		else if (!strcmp(op, "xset")) {
			int s = ARGI(0), d = ARGI(1);
			t += 2;
			if (bank(s) != 4 || bank(d) != 3) vh_tok("X");
			else {
				Obj *p = pslot[s - 15];
				pslot[s - 15] = 0;
				rslot[d - 12].set_instance(p);
				vh_tok("D");
			}
		}
		else if (!strcmp(op, "xdrop")) {
			int d = ARGI(0);
			t += 1;
			if (bank(d) != 3) vh_tok("X");
			else { rslot[d - 12].set_instance(0); vh_tok("D"); }
		}
		else if (!strcmp(op, "addref")) {
			int s = ARGI(0), d = ARGI(1);
			t += 2;
			if (bank(s) != 4 || bank(d) != 4 || !pslot[s - 15] || pslot[d - 15]) vh_tok("X");
			else {
				uintptr_t r = pslot[s - 15]->addref();
				if (r) pslot[d - 15] = pslot[s - 15];
				vh_tok("R%llx", (unsigned long long) r);
			}
		}
		else if (!strcmp(op, "unref")) {
			int s = ARGI(0);
			t += 1;
			if (bank(s) != 4 || !pslot[s - 15]) vh_tok("X");
			else {
				Obj *p = pslot[s - 15];
				pslot[s - 15] = 0;
				p->unref();
				vh_tok("D");
			}
		}
		else if (!strcmp(op, "force")) {
			int s = ARGI(0), o;
			unsigned long long v = strtoull(tok[t + 1], 0, 16);
			t += 2;
			o = bank(s) == 3 ? slot_obj(s) : -1;
			if (o < 0 || v < 1 || held(o) > v) vh_tok("X");
			else { optr(o)->field() = (uintptr_t) v; vh_tok("D"); }
		}
		else if (!strcmp(op, "unforce")) {
			int n = nobj;
			for (int i = 0; i < n; i++) {
				uintptr_t h;
				if (!alive(i)) continue;
				if ((h = held(i))) optr(i)->field() = h;
				else { optr(i)->field() = 1; static_cast<Obj *>(optr(i))->unref(); }
			}
			vh_tok("D");
		}
		else { vh_tok("?op:%s", op); break; }
		dump();
	}
	clear_stack();
	vh_tok("L%d", __lsan_do_recoverable_leak_check() ? 1 : 0);
}
static void run_counter(int ntok, char **tok)
{
	refcount *ref = new refcount(1);
	int t = 2;
	while (t < ntok) {
		const char *op = tok[t++];
		uintptr_t r;
		if (!strcmp(op, "set")) { r = *reinterpret_cast<uintptr_t *>(ref) = (uintptr_t) strtoull(tok[t++], 0, 16); }
		else if (!strcmp(op, "raise")) r = ref->raise();
		else if (!strcmp(op, "lower")) r = ref->lower();
		else { vh_tok("?op:%s", op); break; }
		vh_tok("%llx|%llx", (unsigned long long) r, (unsigned long long) ref->value());
	}
	delete ref;
}
static void run_case(int ntok, char **tok)
{
	if (sizeof(uintptr_t) != 8 || sizeof(refcount) != sizeof(uintptr_t)) { vh_tok("?uintptr_t"); return; }
	if (ntok < 2) return;
	if (!strcmp(tok[1], "x")) run_objects(ntok, tok);
	else if (!strcmp(tok[1], "y")) run_counter(ntok, tok);
	else vh_tok("?family");
}
int main(int argc, char **argv)
{
	int r = vh_main(argc, argv, run_case);
	fflush(stdout);
	_exit(r);
}
