#!/bin/sh
# setup: build everything that does not depend on /repo (Coq development, extraction),
# then warm the sanitizer build cache of /repo's current tree. Offline, files on disk only.
set -e
cd "$(dirname "$0")"
cd coq
python3 ../lib/mkcoqproject.py >/dev/null; coq_makefile -f _CoqProject -o Makefile >/dev/null
timeout 3000 make -j16 >/dev/null 2>../out_setup_coq.log || { mkdir -p ../out; mv ../out_setup_coq.log ../out/setup_coq.log; echo "coq build failed, see out/setup_coq.log"; tail -20 ../out/setup_coq.log; exit 1; }
rm -f ../out_setup_coq.log
cd ..
python3 lib/warm.py
echo setup-ok
