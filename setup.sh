#!/bin/sh
# setup: build what the claimed checks need and that does not depend on /repo (Coq development,
# extraction, OCaml drivers), then warm the sanitizer build cache of /repo's current tree.
# Offline, files on disk only.
set -e
cd "$(dirname "$0")"
python3 lib/warm.py
echo setup-ok
