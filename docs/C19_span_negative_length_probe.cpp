#include <stdio.h>
#include <stdint.h>
#include "types.h"
int main(int argc, char **argv)
{
	const double d[] = { 1, -4, 78 };
	long len = argc > 1 ? atol(argv[1]) : -1;
	int step = argc > 2 ? atoi(argv[2]) : 1;
	mpt::source<double> s(d, len, step);
	printf("size=%ld\n", s.size());
	const mpt::value *v = s.value();
	printf("value0=%p\n", (void *) v);
	int a = s.advance();
	printf("advance=%d\n", a);
	v = s.value();
	printf("value1=%p addr=%p\n", (void *) v, v ? v->data() : 0);
	if (v && v->data()) { printf("reading...\n"); fflush(stdout); printf("%g\n", *(const double *) v->data()); }
	return 0;
}
