#!/bin/sh
# usage: seedrun.sh <Cnn> <patch file> [tier]  — apply a seeded change to /repo, run the check, undo it
P=$1; F=$2; T=${3:-quick}
cd /verif
git -C /repo apply --check "$F" || { echo "PATCH DOES NOT APPLY"; exit 2; }
git -C /repo apply "$F"
./check $P --tier $T > out/seed_$P.log 2>&1; rc=$?
git -C /repo checkout -- .
echo "check $P exit=$rc"; grep -E "^VIOLATION|^KNOWN|quick tier|thorough tier" out/seed_$P.log | cut -c1-200
exit $rc
