#!/bin/bash
# run the thorough tier of every claimed check one after the other; summary at the end
cd "$(dirname "$0")/.." || exit 9
[ -n "$VP_RUN_REPO" ] && export VERIF_REPO=$VP_RUN_REPO
./setup.sh >/dev/null 2>&1
for p in $(cat claimed.txt); do
  s=$(date +%s)
  ./check $p --tier thorough > out/thorough_$p.log 2>&1; rc=$?
  echo "$p exit=$rc $(( $(date +%s) - s ))s $(tail -n 1 out/thorough_$p.log)"
done
