#!/bin/bash
# coverage audit: which lines of the files each property is anchored in do the quick tiers execute?
# builds instrumented copies (separate build dir), runs every claimed quick tier, writes docs/coverage.txt
cd "$(dirname "$0")/.." || exit 9
export VERIF_COV=1
for p in $(cat claimed.txt); do ./check $p > out/cov_$p.log 2>&1; echo "$p $(tail -n 1 out/cov_$p.log)"; done
bd=$(ls -td out/build/*_cov | head -1)
python3 - "$bd" <<'PY'
import sys,os,subprocess,json,glob,re
bd=os.path.abspath(sys.argv[1])
cov={}      # file -> best (percent, lines) over the binaries
lines={}    # file -> {lineno: executed by ANY binary}
# library objects and harness translation units (several harnesses #include library sources directly)
for od in glob.glob(os.path.join(bd,'obj_*')) + [bd]:
    for g in glob.glob(os.path.join(od,'*.gcno')):
        r=subprocess.run(['gcov','-t','-o',od,g],capture_output=True,text=True,cwd=od)
        cur=None; per={}
        for line in r.stdout.splitlines():
            m=re.match(r"\s*(-|#####|=====|[0-9]+\*?):\s*([0-9]+):(.*)",line)
            if not m: continue
            cnt,no,txt=m.group(1),int(m.group(2)),m.group(3)
            if no==0:
                mm=re.match(r"Source:(.*)",txt)
                if mm: cur=mm.group(1); per.setdefault(cur,{})
                continue
            if cur is None or cnt=='-': continue
            ex = cnt not in ('#####','=====')
            per[cur][no]=per[cur].get(no,False) or ex
        for f,d in per.items():
            f=os.path.normpath(os.path.join(od,f)) if not f.startswith('/') else f
            if not f.startswith('/repo/') or not d: continue
            k=f[len('/repo/'):]
            v=(100.0*sum(d.values())/len(d),len(d))
            if k not in cov or v[0]>cov[k][0]: cov[k]=v
            L=lines.setdefault(k,{})
            for no,ex in d.items(): L[no]=L.get(no,False) or ex
props=[json.loads(l) for l in open('properties.jsonl')]
out=[]; out2=[]
def ranges(ns):
    ns=sorted(ns); r=[]
    for n in ns:
        if r and n==r[-1][1]+1: r[-1][1]=n
        else: r.append([n,n])
    return ",".join(str(a) if a==b else "%d-%d"%(a,b) for a,b in r)
seen=set()
for p in props:
    out.append("%s"%p['id'])
    for f in p['anchors']['files']:
        c=cov.get(f)
        out.append("   %-45s %s"%(f, ("%5.1f%% of %d lines"%c) if c else "(not compiled into a library / not C)"))
        if f in lines and f not in seen:
            seen.add(f); L=lines[f]; miss=[n for n,e in L.items() if not e]
            out2.append("%-45s union %5.1f%% of %d lines; not executed by any quick tier: %s"%(f,100.0*(len(L)-len(miss))/len(L),len(L),ranges(miss) or "-"))
open('docs/coverage.txt','w').write("\n".join(out)+"\n")
open('docs/coverage_lines.txt','w').write("# per anchored file: union over all harness binaries of the quick tiers (a line counts when any binary executed it);\n# the line numbers are those of /repo at the time of the run. Identical return blocks merged by the compiler show up as\n# not executed although their twin is (e.g. decode_cobs.c 209-212).\n"+"\n".join(sorted(out2))+"\n")
print("\n".join(l for l in out if '%' in l and float(l.split()[1].rstrip('%'))<50))
PY
