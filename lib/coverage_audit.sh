#!/bin/bash
# coverage audit: which lines of the files each property is anchored in do the quick tiers execute?
# builds instrumented copies (separate build dir), runs every claimed quick tier, writes docs/coverage.txt
cd "$(dirname "$0")/.." || exit 9
export VERIF_COV=1
for p in $(cat claimed.txt); do ./check $p > out/cov_$p.log 2>&1; echo "$p $(tail -n 1 out/cov_$p.log)"; done
bd=$(ls -td out/build/*_cov | head -1)
python3 - "$bd" <<'PY'
import sys,os,subprocess,json,glob,re
bd=os.path.abspath(sys.argv[1])
cov={}
# library objects and harness translation units (several harnesses #include library sources directly)
for od in glob.glob(os.path.join(bd,'obj_*')) + [bd]:
    gcnos=glob.glob(os.path.join(od,'*.gcno'))
    for g in gcnos:
        r=subprocess.run(['gcov','-n','-o',od,g],capture_output=True,text=True,cwd=od)
        cur=None
        for line in r.stdout.splitlines():
            m=re.match(r"File '(.*)'",line)
            if m: cur=m.group(1); continue
            m=re.match(r"Lines executed:([0-9.]+)% of (\d+)",line)
            if m and cur and cur.startswith('/repo/'):
                k=cur[len('/repo/'):]; v=(float(m.group(1)),int(m.group(2)))
                if k not in cov or v[0]>cov[k][0]: cov[k]=v
                cur=None
props=[json.loads(l) for l in open('properties.jsonl')]
out=[]
for p in props:
    out.append("%s"%p['id'])
    for f in p['anchors']['files']:
        c=cov.get(f)
        out.append("   %-45s %s"%(f, ("%5.1f%% of %d lines"%c) if c else "(not compiled into a library / not C)"))
open('docs/coverage.txt','w').write("\n".join(out)+"\n")
print("\n".join(l for l in out if '%' in l and float(l.split()[1].rstrip('%'))<50))
PY
