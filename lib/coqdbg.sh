#!/bin/sh
# usage: coqdbg.sh <file.v> <line>   — show the goals before line <line> (run from /verif/coq)
f=$1; n=$2
head -n $((n-1)) "$f" > /tmp/cq/Dbg.v
echo "Show." >> /tmp/cq/Dbg.v
timeout 120 coqc -Q . MptV /tmp/cq/Dbg.v 2>&1 | grep -v "conda" | tail -${3:-60}
