"""vcheck — common machinery of the /verif checks (see DESIGN.md sections 2-4).

One check = prove (Coq) + correspond (extracted model vs. sanitizer build of
/repo's current working tree on the same cases) + decide + write evidence.
"""
import hashlib, json, os, random, re, shutil, subprocess, sys, time, glob

VERIF = os.path.dirname(os.path.dirname(os.path.abspath(__file__)))
REPO = os.environ.get("VERIF_REPO", "/repo")
OUT = os.path.join(VERIF, "out")
COQ = os.path.join(VERIF, "coq")
NPROC = os.cpu_count() or 4

CFLAGS = ["-g", "-O1", "-fsanitize=address,undefined", "-fno-sanitize-recover=all",
          "-fno-omit-frame-pointer", "-DMPT_VERIF", "-fPIC", "-w"]
# coverage audit (lib/coverage_audit.sh): VERIF_COV=1 builds everything with gcov instrumentation into separate
# build directories; never used by a registered check
COV = bool(os.environ.get("VERIF_COV"))
if COV:
    CFLAGS = CFLAGS + ["--coverage", "-DVERIF_COV"]
ASAN_ENV = {"ASAN_OPTIONS": "detect_leaks=0:abort_on_error=1:allocator_may_return_null=1",
            "UBSAN_OPTIONS": "halt_on_error=1:abort_on_error=1:print_stacktrace=0"}
ASAN_LEAK_ENV = {"ASAN_OPTIONS": "detect_leaks=1:abort_on_error=1:allocator_may_return_null=1",
                 "LSAN_OPTIONS": "exitcode=23",
                 "UBSAN_OPTIONS": "halt_on_error=1:abort_on_error=1:print_stacktrace=0"}

FORBIDDEN = re.compile(
    r"\b(Admitted|admit|Axiom|Axioms|Parameter|Parameters|Conjecture|Conjectures|"
    r"Admit\s+Obligations|bypass_check|native_compute)\b|Unset\s+Guard|Unset\s+Positivity|"
    r"Unset\s+Universe|-type-in-type|-impredicative-set|Guard\s+Checking|Positivity\s+Checking|"
    r"Universe\s+Checking")

LIBS = {
    # name: (source globs relative to REPO, language, include dirs)
    "mptcore": (["mptcore/*/*.c", "mptcore/libinfo.c"], "c", ["mptcore", "."]),
    "mptplot": (["mptplot/*/*.c", "mptplot/libinfo.c"], "c", ["mptplot", "mptcore", "."]),
    "mptio": (["mptio/*/*.c", "mptio/*.c"], "c", ["mptio", "mptcore", "."]),
    "mpt++": (["mpt++/*.cpp"], "c++", ["mpt++", "mptcore", "mptplot", "mptio", "."]),
}
HASH_GLOBS = ["mptcore/*.h", "mptcore/*/*.c", "mptcore/*.c", "mptplot/*.h", "mptplot/*/*.c", "mptplot/*.c",
              "mptio/*.h", "mptio/*/*.c", "mptio/*.c", "mpt++/*.cpp", "mpt++/*.h", "*.h", "mpt.py"]


def log(*a):
    print(*a, file=sys.stderr, flush=True)


def sh(cmd, cwd=None, timeout=None, env=None, stdin=None):
    e = dict(os.environ)
    if env:
        e.update(env)
    try:
        p = subprocess.run(cmd, cwd=cwd, timeout=timeout, env=e, stdin=stdin,
                           stdout=subprocess.PIPE, stderr=subprocess.STDOUT, text=True, errors="replace")
        return p.returncode, p.stdout
    except subprocess.TimeoutExpired as ex:
        o = ex.stdout or ""
        if isinstance(o, bytes):
            o = o.decode(errors="replace")
        return 124, o + "\n[timeout after %ss]" % timeout


# ----------------------------------------------------------------- repo build
def tree_hash():
    h = hashlib.sha1()
    files = []
    for g in HASH_GLOBS:
        files += glob.glob(os.path.join(REPO, g))
    for f in sorted(set(files)):
        h.update(f.encode())
        try:
            with open(f, "rb") as fh:
                h.update(fh.read())
        except OSError:
            pass
    h.update(" ".join(CFLAGS).encode())
    return h.hexdigest()[:16]


def build_dir():
    d = os.path.join(OUT, "build", tree_hash() + ("_cov" if COV else ""))
    os.makedirs(d, exist_ok=True)
    # keep at most 3 cached trees
    root = os.path.join(OUT, "build")
    ds = sorted((os.path.join(root, x) for x in os.listdir(root)), key=os.path.getmtime)
    for old in ds[:-4]:
        if old != d and time.time() - os.path.getmtime(old) > 3 * 3600:
            shutil.rmtree(old, ignore_errors=True)
    os.utime(d)
    return d


def build_lib(name):
    """compile library `name` of /repo's current working tree with sanitizers; cached by content hash"""
    with locked("lib_" + name):
        return _build_lib(name)


def _build_lib(name):
    bd = build_dir()
    lib = os.path.join(bd, "lib%s.a" % name)
    if os.path.exists(lib):
        return lib
    globs, lang, incs = LIBS[name]
    srcs = []
    for g in globs:
        srcs += sorted(glob.glob(os.path.join(REPO, g)))
    od = os.path.join(bd, "obj_" + name)
    os.makedirs(od, exist_ok=True)
    cc = ["gcc"] if lang == "c" else ["g++", "-std=c++11"]
    inc = []
    for i in incs:
        inc += ["-I", os.path.join(REPO, i)]
    procs = []
    objs = []
    fails = []
    t0 = time.time()

    def reap(block):
        for pr in list(procs):
            p, src, fh = pr
            if block:
                p.wait()
            if p.poll() is not None:
                procs.remove(pr)
                fh.seek(0)
                o = fh.read()
                fh.close()
                if p.returncode:
                    fails.append((src, o))
    import tempfile
    for s in srcs:
        rel = os.path.relpath(s, REPO).replace("/", "__")
        o = os.path.join(od, os.path.splitext(rel)[0] + ".o")
        objs.append(o)
        fh = tempfile.TemporaryFile(mode="w+")
        p = subprocess.Popen(cc + CFLAGS + inc + ["-c", s, "-o", o], stdout=fh, stderr=subprocess.STDOUT)
        procs.append((p, s, fh))
        while len(procs) >= NPROC:
            reap(False)
            time.sleep(0.005)
    while procs:
        reap(True)
    if fails:
        raise BuildError("compile of /repo failed:\n" + "\n".join("%s:\n%s" % f for f in fails[:5]))
    tmp = lib + ".tmp"
    if os.path.exists(tmp):
        os.unlink(tmp)
    rc, o = sh(["ar", "rcs", tmp] + objs)
    if rc:
        raise BuildError("ar failed: " + o)
    os.rename(tmp, lib)
    if not COV:      # the coverage audit needs the .gcno files next to where the .gcda files are written
        shutil.rmtree(od, ignore_errors=True)
    log("[build] lib%s.a from working tree in %.1fs" % (name, time.time() - t0))
    return lib


class BuildError(Exception):
    pass


def build_harness(src, libs, extra=None, name=None):
    """compile harness `src` (relative to VERIF/harness) against libs built from the working tree"""
    bd = build_dir()
    srcp = os.path.join(VERIF, "harness", src)
    with open(srcp, "rb") as fh:
        hh = hashlib.sha1(fh.read())
    with open(os.path.join(VERIF, "harness", "common.h"), "rb") as fh:
        hh.update(fh.read())
    hh.update(" ".join(extra or []).encode())
    exe = os.path.join(bd, (name or os.path.splitext(src)[0]) + "_" + hh.hexdigest()[:8])
    if os.path.exists(exe):
        return exe
    libpaths = [build_lib(l) for l in libs]
    cxx = src.endswith(".cpp") or "mpt++" in libs
    cc = ["g++", "-std=c++11"] if cxx else ["gcc"]
    inc = ["-I", os.path.join(VERIF, "harness")]
    for i in ["mptcore", "mptplot", "mptio", "mpt++", "."]:
        inc += ["-I", os.path.join(REPO, i)]
    cmd = cc + CFLAGS + inc + (extra or []) + [srcp] + libpaths + libpaths + ["-ldl", "-lm", "-lpthread", "-o", exe + ".tmp"]
    rc, o = sh(cmd, timeout=600)
    if rc:
        raise BuildError("harness build failed (%s):\n%s" % (src, o[-4000:]))
    os.rename(exe + ".tmp", exe)
    return exe


# ----------------------------------------------------------------- coq
def coq_makefile():
    sh([sys.executable, os.path.join(VERIF, "lib", "mkcoqproject.py")])
    mk = os.path.join(COQ, "Makefile")
    cp = os.path.join(COQ, "_CoqProject")
    if not os.path.exists(mk) or os.path.getmtime(mk) < os.path.getmtime(cp):
        rc, o = sh(["coq_makefile", "-f", "_CoqProject", "-o", "Makefile"], cwd=COQ)
        if rc:
            raise BuildError("coq_makefile: " + o)


import fcntl, contextlib


@contextlib.contextmanager
def locked(name):
    os.makedirs(OUT, exist_ok=True)
    fh = open(os.path.join(OUT, ".lock_" + name), "w")
    fcntl.flock(fh, fcntl.LOCK_EX)
    try:
        yield
    finally:
        fcntl.flock(fh, fcntl.LOCK_UN)
        fh.close()


def coq_make(targets, timeout=1500):
    with locked("coq"):
        coq_makefile()
        rc, o = sh(["make", "-k", "-j%d" % NPROC] + targets, cwd=COQ, timeout=timeout)
    return rc, o


def forbidden_scan(dirs=None):
    """scan the .v files of the given sub-directories of coq/ (default: all) for forbidden constructs"""
    bad = []
    for root, _, fs in os.walk(COQ):
        rel = os.path.relpath(root, COQ).split(os.sep)[0]
        if dirs is not None and rel not in dirs:
            continue
        for f in fs:
            if f.endswith(".v"):
                p = os.path.join(root, f)
                txt = open(p, errors="replace").read()
                # strip comments (non-nested is enough: we never write the words in code otherwise)
                txt2 = re.sub(r"\(\*.*?\*\)", "", txt, flags=re.S)
                for m in FORBIDDEN.finditer(txt2):
                    bad.append("%s: %s" % (os.path.relpath(p, VERIF), m.group(0)))
    cpj = open(os.path.join(COQ, "_CoqProject")).read()
    for m in FORBIDDEN.finditer(cpj):
        bad.append("_CoqProject: " + m.group(0))
    return bad


def prove(pid, dirname, propfile="Properties.v", extra_targets=(), deps=()):
    """full .vo build of the property file and what it depends on; capture Print Assumptions"""
    res = {"ok": False, "obligations": 0, "discharged": 0, "assumptions": {}, "failed": [], "log": ""}
    t0 = time.time()
    src = os.path.join(COQ, dirname, propfile)
    txt = open(src).read()
    txt_nc = re.sub(r"\(\*.*?\*\)", "", txt, flags=re.S)
    thms = re.findall(r"^\s*(?:Theorem|Lemma|Corollary|Example)\s+(\w+)", txt_nc, flags=re.M)
    res["obligations"] = len(thms)
    res["theorems"] = thms
    vo = "%s/%s" % (dirname, propfile.replace(".v", ".vo"))
    targets = [vo] + list(extra_targets)
    # force the property file itself to be re-checked on every run (its deps are rebuilt by make when stale)
    try:
        os.unlink(os.path.join(COQ, vo))
    except OSError:
        pass
    rc, o = coq_make(targets)
    res["log"] = o[-6000:]
    bad = forbidden_scan(set(["Base", dirname]) | set(deps))
    if bad:
        res["failed"].append("forbidden construct: " + "; ".join(bad[:5]))
    if rc == 0 and os.path.exists(os.path.join(COQ, vo)):
        # Print Assumptions output is in the make log
        cur = None
        for m in re.finditer(r"(Closed under the global context)|Axioms:\n((?:.+\n?)+?)(?=\n|\Z|COQC)", o):
            pass
        closed = len(re.findall(r"Closed under the global context", o))
        axioms = re.findall(r"^Axioms:\s*\n((?:[^\n]+\n)+?)(?:\n|$)", o, flags=re.M)
        res["assumptions"] = {"closed_under_global_context": closed, "axiom_blocks": axioms}
        res["discharged"] = len(thms) if not bad else 0
        res["ok"] = not bad
    else:
        # which file broke?
        m = re.findall(r'File "\./([^"]+)", line (\d+)[^\n]*\n(Error:[^\n]*(?:\n[^\n]+){0,6})', o)
        for f, l, e in m[:5]:
            res["failed"].append("%s:%s %s" % (f, l, e.replace("\n", " ")[:400]))
        if not m:
            res["failed"].append("make exit %d: %s" % (rc, o[-800:]))
    res["wall_s"] = round(time.time() - t0, 2)
    return res


def build_model(mlname, driver, extract_vo):
    """extract (via make) and compile the OCaml model driver; returns path of the binary"""
    rc, o = coq_make([extract_vo])
    if rc:
        raise BuildError("extraction failed:\n" + o[-3000:])
    d = os.path.join(OUT, "ml", mlname)
    os.makedirs(d, exist_ok=True)
    ml = os.path.join(COQ, mlname + ".ml")
    mli = os.path.join(COQ, mlname + ".mli")
    h = hashlib.sha1()
    parts = [ml, mli, os.path.join(VERIF, "ml", "conv.inc.ml"), os.path.join(VERIF, "ml", driver)]
    for p in parts:
        h.update(open(p, "rb").read())
    exe = os.path.join(d, "model_" + h.hexdigest()[:10])
    if os.path.exists(exe):
        return exe
    for f in os.listdir(d):
        p = os.path.join(d, f)
        if os.path.isfile(p):
            os.unlink(p)
    shutil.copy(ml, d)
    shutil.copy(mli, d)
    mod = mlname[0].upper() + mlname[1:]
    with open(os.path.join(d, "main.ml"), "w") as fh:
        fh.write("open %s\n" % mod)
        fh.write(open(parts[2]).read())
        fh.write(open(parts[3]).read())
    rc, o = sh(["ocamlfind", "ocamlopt", "-O3", "-w", "-a", mlname + ".mli", mlname + ".ml", "main.ml", "-o", exe],
               cwd=d, timeout=600)
    if rc:
        rc, o = sh(["ocamlfind", "ocamlopt", "-w", "-a", mlname + ".mli", mlname + ".ml", "main.ml", "-o", exe],
                   cwd=d, timeout=600)
    if rc:
        raise BuildError("ocaml build failed:\n" + o[-3000:])
    return exe


# ----------------------------------------------------------------- running
def parse_out(txt):
    """lines '<tag> <id> tok...' -> {tag: {id: [tok]}}"""
    res = {}
    for line in txt.splitlines():
        p = line.split()
        if len(p) >= 2 and p[0] in ("I", "M", "S"):
            res.setdefault(p[0], {})[p[1]] = p[2:]
    return res


def run_cases(exe, cases, workdir, tag, env=None, timeout=3600, args=(), shards=None):
    """write cases to files (sharded), run exe on each shard in parallel, return merged parsed output"""
    os.makedirs(workdir, exist_ok=True)
    shards = shards or min(NPROC, max(1, len(cases) // 50))
    chunks = [cases[i::shards] for i in range(shards)]
    procs = []
    e = dict(os.environ)
    if env:
        e.update(env)
    for i, ch in enumerate(chunks):
        fn = os.path.join(workdir, "%s_%d.cases" % (tag, i))
        with open(fn, "w") as fh:
            fh.write("\n".join(ch) + "\n")
        ofn = os.path.join(workdir, "%s_%d.out" % (tag, i))
        efn = os.path.join(workdir, "%s_%d.err" % (tag, i))
        p = subprocess.Popen([exe, fn] + list(args), stdout=open(ofn, "w"), stderr=open(efn, "w"), env=e, cwd=workdir)
        procs.append((p, ofn, efn))
    out = {}
    errs = []
    t0 = time.time()
    for p, ofn, efn in procs:
        try:
            p.wait(timeout=max(1, timeout - (time.time() - t0)))
        except subprocess.TimeoutExpired:
            p.kill()
            errs.append("timeout")
        if p.returncode not in (0, None):
            errs.append("exit %s: %s" % (p.returncode, open(efn, errors="replace").read()[-500:]))
        po = parse_out(open(ofn, errors="replace").read())
        for tg, d in po.items():
            out.setdefault(tg, {}).update(d)
    return out, errs


def case_id(case):
    return case.split(None, 1)[0]


# ----------------------------------------------------------------- known findings
def load_known(pid):
    p = os.path.join(VERIF, "known_findings.json")
    if not os.path.exists(p):
        return []
    return [k for k in json.load(open(p)).get("findings", []) if k.get("property") == pid and k.get("kind") == "known"]


# ----------------------------------------------------------------- evidence
def write_evidence(pid, tier, seed, level, coverage, assumptions, wall, violations):
    # runs against a scratch tree (VERIF_REPO, used when replaying seeded changes) do not overwrite the evidence of /repo
    evdir = os.path.join(VERIF, "evidence") if os.path.realpath(REPO) == "/repo" else os.path.join(VERIF, "out", "evidence_scratch")
    os.makedirs(evdir, exist_ok=True)
    ev = {"property_id": pid, "tier": tier, "seed": seed, "level": level, "coverage": coverage,
          "assumptions": assumptions, "wall_s": round(wall, 2), "violations": violations}
    p = os.path.join(evdir, pid + ".json")
    with open(p + ".tmp", "w") as fh:
        json.dump(ev, fh, indent=1)
    os.rename(p + ".tmp", p)
    return p


BASE_TRUST = [
    "Coq 8.16.1 kernel (coqc full .vo build; vm_compute used for finite sweeps and examples; native_compute not used)",
    "no axiom declared by this development; per-theorem Print Assumptions output is recorded under coverage.print_assumptions",
    "extraction: ExtrOcamlBasic only (bool/option/unit/list/prod/sumbool to OCaml natives), no Extract Constant/Inductive of our own; nat/N/Z/positive stay extracted inductives; OCaml 4.13.1 + the driver under /verif/ml are trusted",
    "the correspondence harness (/verif/harness, /verif/props generators, lib/vcheck.py comparison) is trusted to report what the code does; gcc 12 + ASan/UBSan are trusted observers of memory errors",
    "all C/C++ source is modelled by hand transcription and validated by differential execution, not verified; the C semantics itself is not formalised",
]


# ----------------------------------------------------------------- generic differential property
class DiffProperty:
    """Subclass per property.  Attributes / hooks:
       pid, coq_dir, extract_vo, mlname, driver, harness_src, libs, trusted (list), modelled (str)
       generate(rng, tier) -> list of case strings (without ids)
       classify(case) -> set of class labels (non-trivial when non-empty)
       project(tok) -> property-level view of one observation token (default: identity)
       split(case) -> (header tokens, [op token lists]) ; join(header, ops)
       match_known(case, idx, itok, stok) -> description string or None
    """
    pid = None
    level = "proof"
    harness_env = ASAN_ENV
    harness_args = ()
    quick_n = 3000
    thorough_n = 60000
    extra_harness_flags = None
    propfile = "Properties.v"

    def project(self, tok):
        return tok

    def classify(self, case):
        return {"any"}

    def corpus(self):
        d = os.path.join(VERIF, "corpus", self.pid)
        cs = []
        if os.path.isdir(d):
            for f in sorted(os.listdir(d)):
                for line in open(os.path.join(d, f)):
                    line = line.strip()
                    if line and not line.startswith("#"):
                        cs.append(line)
        return cs

    def match_known(self, case, idx, itok, stok):
        return None

    def shrink_candidates(self, case):
        """yield simpler cases (without id)"""
        hdr, ops = self.split(case)
        n = len(ops)
        # drop suffix / single ops
        for k in range(n):
            yield self.join(hdr, ops[:k] + ops[k + 1:])

    def split(self, case):
        raise NotImplementedError

    def join(self, hdr, ops):
        return " ".join(hdr + [t for o in ops for t in o])

    # -- run implementation and model on cases (list of strings without id); returns per-case verdicts
    def evaluate(self, cases, workdir, tagsuffix=""):
        hx = build_harness(self.harness_src, self.libs, extra=self.extra_harness_flags)
        mx = build_model(self.mlname, self.driver, self.extract_vo)
        ided = ["c%d %s" % (i, c) for i, c in enumerate(cases)]
        I, e1 = run_cases(hx, ided, workdir, "impl" + tagsuffix, env=self.harness_env, args=self.harness_args)
        # a case that ran into the per-case time limit is run once more, alone and with a long limit: a loaded machine must
        # not look like a hang (a real hang still times out and is reported)
        late = [l for l in ided if any(t.startswith("F:timeout") for t in (I.get("I", {}).get(l.split(None, 1)[0]) or []))]
        if late and not self.harness_args:
            I2, e1b = run_cases(hx, late, workdir, "implate" + tagsuffix, env=self.harness_env, args=["60"], shards=min(4, len(late)))
            I.setdefault("I", {}).update(I2.get("I", {}))
            e1 = e1 + e1b
        M, e2 = run_cases(mx, ided, workdir, "model" + tagsuffix)
        res = []
        for i, c in enumerate(cases):
            k = "c%d" % i
            it = I.get("I", {}).get(k)
            mt = M.get("M", {}).get(k)
            st = M.get("S", {}).get(k)
            res.append(self.compare(c, it, mt, st))
        return res, e1 + e2

    def compare(self, case, it, mt, st):
        """returns dict(corr=None|(idx, itok, mtok), spec=None|(idx, itok, stok))"""
        r = {"corr": None, "spec": None, "I": it, "M": mt, "S": st}
        if it is None or mt is None or st is None:
            r["corr"] = (-1, "missing output", "I=%s M=%s S=%s" % (it is not None, mt is not None, st is not None))
            return r
        n = max(len(it), len(mt))
        for j in range(n):
            a = it[j] if j < len(it) else "<none>"
            b = mt[j] if j < len(mt) else "<none>"
            if a != b:
                r["corr"] = (j, a, b)
                break
        n = max(len(it), len(st))
        for j in range(n):
            a = self.project(it[j]) if j < len(it) else "<none>"
            b = self.project(st[j]) if j < len(st) else "<none>"
            if b.endswith("*") and a.startswith(b[:-1]):
                continue   # the specification leaves this observation open
            if a != b:
                r["spec"] = (j, a, b)
                break
        return r

    def shrink(self, case, kind, workdir, budget=12):
        """greedy shrink of a failing case while it still fails the same way (kind: 'spec' or 'corr')"""
        cur = case
        for rnd in range(budget):
            cands = []
            seen = set()
            for c in self.shrink_candidates(cur):
                if c not in seen and c != cur:
                    seen.add(c)
                    cands.append(c)
                if len(cands) >= 400:
                    break
            if not cands:
                break
            res, _ = self.evaluate(cands, workdir, tagsuffix="_shr")
            better = [c for c, r in zip(cands, res) if r[kind] is not None and r[kind][0] >= 0]
            if not better:
                break
            cur = min(better, key=len)
        return cur

    # -- the check
    def run(self, tier, seed, replay=None):
        t0 = time.time()
        rng = random.Random(seed)
        # one work directory per process: two runs of the same check at the same time (different trees under VERIF_REPO,
        # another session) must not delete each other's files; leftovers of killed runs are swept after six hours
        wroot = os.path.join(OUT, "work")
        os.makedirs(wroot, exist_ok=True)
        for x in os.listdir(wroot):
            px = os.path.join(wroot, x)
            try:
                if time.time() - os.path.getmtime(px) > 6 * 3600:
                    shutil.rmtree(px, ignore_errors=True)
            except OSError:
                pass
        wd = os.path.join(wroot, "%s_%s_%d_%d" % (self.pid, tier, seed, os.getpid()))
        shutil.rmtree(wd, ignore_errors=True)
        os.makedirs(wd, exist_ok=True)
        os.makedirs(os.path.join(OUT, "replay"), exist_ok=True)
        lines = []
        viol = 0
        if hasattr(self, "probe"):
            self.probe()
        pr = prove(self.pid, self.coq_dir, self.propfile, deps=getattr(self, "coq_deps", ()))
        log("[%s] proofs: ok=%s obligations=%d discharged=%d (%.1fs)" % (self.pid, pr["ok"], pr["obligations"], pr["discharged"], pr["wall_s"]))
        if replay:
            cases = [json.load(open(replay))["case"]]
            ncorp = 0
        else:
            corp = self.corpus()
            ncorp = len(corp)
            cases = corp + self.generate(rng, tier)
        build_err = None
        try:
            res, errs = self.evaluate(cases, wd)
        except BuildError as ex:
            build_err = str(ex)
            res, errs = [], [str(ex)]
        # statistics
        classes = {}
        distinct = set()
        for c in cases:
            cl = self.classify(c)
            if cl:
                hsh = hashlib.sha1(c.encode()).hexdigest()
                if hsh not in distinct:
                    distinct.add(hsh)
                for x in cl:
                    classes[x] = classes.get(x, 0) + 1
        spec_fail = [(c, r) for c, r in zip(cases, res) if r["spec"] is not None]
        corr_fail = [(c, r) for c, r in zip(cases, res) if r["corr"] is not None]
        known = load_known(self.pid)
        reported_known = set()
        new_spec = []
        for c, r in spec_fail:
            k = self.match_known(c, *r["spec"]) if known else None
            if k:
                reported_known.add(k)
            else:
                new_spec.append((c, r))
        replay_files = []

        def write_replay(name, obj):
            p = os.path.join(OUT, "replay", "%s-%d-%s.json" % (self.pid, seed, name))
            with open(p, "w") as fh:
                json.dump(obj, fh, indent=1)
            replay_files.append(p)
            return p
        for k in sorted(reported_known):
            lines.append("KNOWN-FINDING: property=%s %s" % (self.pid, k))
        if build_err:
            viol += 1
            p = write_replay("build", {"property": self.pid, "what": "implementation harness or model does not build against the current tree; correspondence cannot be checked",
                                       "error": build_err[-3000:]})
            lines.append("VIOLATION property=%s replay=%s no-failing-input-found" % (self.pid, p))
        elif new_spec:
            # shrink the first few distinct failures
            done = 0
            seen_sig = set()
            for c, r in new_spec:
                sig = (r["spec"][1].split("|")[0][:1], r["spec"][2].split("|")[0][:1], tuple(sorted(self.classify(c)))[:3])
                if sig in seen_sig:
                    continue
                seen_sig.add(sig)
                small = c if replay else self.shrink(c, "spec", wd)
                rr, _ = self.evaluate([small], wd, tagsuffix="_rp")
                rr = rr[0]
                if rr["spec"] is None:
                    small, rr = c, r
                viol += 1
                p = write_replay("v%d" % done, {"property": self.pid, "case": small, "original_case": c,
                                               "first_difference_at_step": rr["spec"][0],
                                               "implementation": rr["spec"][1], "specification_requires": rr["spec"][2],
                                               "impl_trace": rr["I"], "spec_trace": rr["S"], "model_trace": rr["M"],
                                               "replay_cmd": "./check %s --replay <this file>" % self.pid})
                lines.append("VIOLATION property=%s replay=%s" % (self.pid, p))
                done += 1
                if done >= 3:
                    break
        elif corr_fail or not pr["ok"]:
            viol += 1
            obj = {"property": self.pid}
            if not pr["ok"]:
                obj["proof_obligation_broken"] = pr["failed"]
                obj["coq_log_tail"] = pr["log"][-2000:]
            if corr_fail:
                c, r = corr_fail[0]
                unk = [cr for cr in corr_fail if not (known and self.match_known(cr[0], *cr[1]["corr"]))]
                if unk:
                    c, r = unk[0]
                small = c if (replay or r["corr"][0] < 0) else self.shrink(c, "corr", wd)
                rr, _ = self.evaluate([small], wd, tagsuffix="_rp")
                rr = rr[0]
                if rr["corr"] is None:
                    small, rr = c, r
                obj.update({"correspondence_broken": "implementation and mechanism model differ; the specification is still met on every explored case",
                            "case": small, "first_difference_at_step": rr["corr"][0], "implementation": rr["corr"][1],
                            "model": rr["corr"][2], "impl_trace": rr["I"], "model_trace": rr["M"],
                            "cases_differing": len(corr_fail)})
            p = write_replay("nofail", obj)
            lines.append("VIOLATION property=%s replay=%s no-failing-input-found" % (self.pid, p))
        wall = time.time() - t0
        samples = [cases[i] for i in range(ncorp, min(len(cases), ncorp + 3))] or cases[:3]
        samp = []
        for s in samples:
            i = cases.index(s)
            samp.append({"case": s[:600], "impl": (res[i]["I"] or [])[:6] if i < len(res) else None})
        cov = {
            "obligations": pr["obligations"], "discharged": pr["discharged"],
            "checker_cmd": "make -C /verif/coq -k %s/%s (coqc 8.16.1, full .vo build) ; forbidden-construct scan" % (self.coq_dir, self.propfile.replace('.v', '.vo')),
            "trusted_base": BASE_TRUST + list(getattr(self, "trusted", [])),
            "theorems": pr.get("theorems", []),
            "print_assumptions": pr["assumptions"],
            "proof_failures": pr["failed"],
            "evaluations": len(cases), "distinct_nontrivial": len(distinct),
            "rule": getattr(self, "rule", ""),
            "samples": samp,
            "traces_validated_against_impl": len(res) - len(corr_fail),
            "correspondence_disagreements": len(corr_fail),
            "spec_disagreements": len(spec_fail),
            "known_findings_matched": sorted(reported_known),
            "input_distribution": classes,
            "corpus_cases": ncorp,
            "harness_errors": errs[:5],
            "modelled_not_verified": getattr(self, "modelled", ""),
            "tree_hash": tree_hash(),
        }
        assumptions = list(getattr(self, "assumptions", []))
        write_evidence(self.pid, tier, seed, self.level, cov, assumptions, wall, viol)
        for l in lines:
            print(l)
        log("[%s] %s tier: %d cases, %d corr diffs, %d spec diffs, %d violations, %.1fs" % (
            self.pid, tier, len(cases), len(corr_fail), len(spec_fail), viol, wall))
        # the work directory (case files and raw outputs: gigabytes for a thorough tier) is not needed afterwards:
        # replays are under out/replay, evidence under evidence/; VERIF_KEEP=1 keeps it for debugging
        if not os.environ.get("VERIF_KEEP"):
            shutil.rmtree(wd, ignore_errors=True)
        return 1 if viol else 0
