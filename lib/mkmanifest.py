"""regenerate MANIFEST.json from the property modules (props/cNN.py) — claimed checks — and
properties.jsonl — everything else is listed under not_applicable with its reason."""
import os, sys, json, importlib
here = os.path.dirname(os.path.dirname(os.path.abspath(__file__)))
sys.path.insert(0, os.path.join(here, "lib")); sys.path.insert(0, os.path.join(here, "props"))
props = [json.loads(l) for l in open(os.path.join(here, "properties.jsonl"))]
NA = {}
na_file = os.path.join(here, "not_applicable.json")
if os.path.exists(na_file):
    NA = json.load(open(na_file))
CLAIMED = set(open(os.path.join(here, "claimed.txt")).read().split())   # maintained by hand: reviewed checks only
checks = []
claimed = set()
engines = []
for p in props:
    pid = p["id"]
    f = os.path.join(here, "props", pid.lower() + ".py")
    if not os.path.exists(f):
        continue
    P = importlib.import_module(pid.lower()).PROP
    if pid not in CLAIMED:
        continue
    claimed.add(pid)
    checks.append({
        "property_id": pid,
        "quick_cmd": "./check %s --tier quick" % pid,
        "thorough_cmd": "./check %s --tier thorough" % pid,
        "evidence_file": "/verif/evidence/%s.json" % pid,
        "replay_cmd_template": "./check %s --replay {path}" % pid,
        "engine": "coq-refinement+differential",
        "level_claimed": {"category": P.level, "text": P.level_text, "design_ref": "DESIGN.md section 7, %s" % pid},
        "level_note": P.level_note,
        "technique": P.technique,
    })
hooks_commits = []
hf = os.path.join(here, "hook_commits.txt")
if os.path.exists(hf):
    hooks_commits = [l.split()[0] for l in open(hf) if l.strip()]
m = {
    "version": 1,
    "setup_cmd": "./setup.sh",
    "hooks": {"guard": "MPT_VERIF",
              "enable": "checks compile /repo's working tree themselves with -DMPT_VERIF (lib/vcheck.py CFLAGS); " + ("hook commits listed in source_commits" if hooks_commits else "no hook commit exists: static functions are reached by #include of the .c file, seams by function pointers"),
              "baseline_off_cmd": "cmake -G Ninja -B /repo/_build /repo && cmake --build /repo/_build && ctest --test-dir /repo/_build -j8 --timeout 900",
              "source_commits": hooks_commits, "add_only": True},
    "engines": [{"name": "coq-refinement+differential", "path": "/verif/check",
                 "serves_properties": sorted(claimed),
                 "kind_free_text": "Coq 8.16 theorems (refinement of a hand-transcribed mechanism model to an abstract spec, all inputs/histories) + correspondence check: OCaml-extracted model and spec run side by side with an ASan/UBSan build of /repo's current working tree on generated and exhaustive small-scope cases"}],
    "checks": checks,
    "notes": "Every check: (1) full .vo build of coq/<Cnn>/Properties.v and its dependencies, forbidden-construct scan, Print Assumptions captured; (2) extraction + OCaml driver; (3) sanitizer build of /repo's working tree (cached by content hash); (4) same cases through implementation and model+spec; (5) verdict per DESIGN.md section 4. known_findings.json lists repaired and open defects.",
    "not_applicable": [{"property_id": p["id"], "reason": NA.get(p["id"], "check not built yet (planned, see DESIGN.md section 7); no claim is made for this property")}
                       for p in props if p["id"] not in claimed],
}
json.dump(m, open(os.path.join(here, "MANIFEST.json"), "w"), indent=1)
print("claimed:", sorted(claimed))
