#!/bin/bash
# replay every stored seeded change (seeded/<id>-N/patch.diff) against the current quick tier of its property.
# Each change is applied on a scratch worktree of /repo HEAD (outside /repo and /verif, removed afterwards);
# /repo itself is never touched.  Expected: every line says exit=1 with at least one VIOLATION.
cd "$(dirname "$0")/.." || exit 9
V=$PWD; mkdir -p out/sweep
one_prop() {
  p=$1
  for d in seeded/$p-*; do
    [ -f $d/patch.diff ] || continue
    w=$(mktemp -d /tmp/sweep_${p}_XXXX); rmdir $w; git -C /repo worktree prune; git -C /repo worktree add -q --detach $w HEAD
    if git -C $w apply $V/$d/patch.diff 2>/dev/null; then
      VERIF_REPO=$w ./check $p > out/sweep/$(basename $d).log 2>&1; rc=$?
      echo "$(basename $d) exit=$rc violations=$(grep -c '^VIOLATION' out/sweep/$(basename $d).log) $(grep 'quick tier' out/sweep/$(basename $d).log | sed 's/.*cases, //')"
    else
      echo "$(basename $d) PATCH-DOES-NOT-APPLY"
    fi
    git -C /repo worktree remove --force $w
  done
}
export -f one_prop; export V
printf "%s\n" ${@:-C01 C02 C03 C04 C05 C06 C07 C08 C09 C10 C11 C12 C13 C14 C15 C16 C17 C18 C19 C20} | xargs -P ${SWEEP_JOBS:-5} -I{} bash -c 'one_prop {}'
