"""warm caches: sanitizer libs of the current /repo tree, harnesses, model drivers"""
import os, sys, importlib
here = os.path.dirname(os.path.dirname(os.path.abspath(__file__)))
sys.path.insert(0, os.path.join(here, "lib")); sys.path.insert(0, os.path.join(here, "props"))
import vcheck
for f in sorted(os.listdir(os.path.join(here, "props"))):
    if f.startswith("c") and f.endswith(".py"):
        P = importlib.import_module(f[:-3]).PROP
        try:
            if hasattr(P, "warm"):
                P.warm()
            else:
                vcheck.build_harness(P.harness_src, P.libs, extra=P.extra_harness_flags)
                vcheck.build_model(P.mlname, P.driver, P.extract_vo)
        except Exception as ex:
            print("warm %s: %s" % (f, str(ex)[:300]))
