"""setup / cache warm-up: for every claimed property build its Coq targets (full .vo), the model
driver, the sanitizer libs of the current /repo tree and the harness."""
import os, sys, json, importlib
here = os.path.dirname(os.path.dirname(os.path.abspath(__file__)))
sys.path.insert(0, os.path.join(here, "lib")); sys.path.insert(0, os.path.join(here, "props"))
import vcheck
m = json.load(open(os.path.join(here, "MANIFEST.json")))
ids = [c["property_id"] for c in m["checks"]]
fail = 0
targets = []
mods = []
for pid in ids:
    P = importlib.import_module(pid.lower()).PROP
    mods.append(P)
    targets.append("%s/%s" % (P.coq_dir, P.propfile.replace(".v", ".vo")))
    targets.append(P.extract_vo)
rc, o = vcheck.coq_make(sorted(set(targets)), timeout=3000)
if rc:
    print("coq build failed:\n" + o[-3000:])
    fail = 1
for P in mods:
    try:
        if hasattr(P, "warm"):
            P.warm()
        else:
            vcheck.build_harness(P.harness_src, P.libs, extra=P.extra_harness_flags)
            vcheck.build_model(P.mlname, P.driver, P.extract_vo)
    except Exception as ex:
        print("warm %s: %s" % (P.pid, str(ex)[:600]))
        fail = 1
sys.exit(fail)
