#!/bin/bash
# usage: seedrun_wt.sh <name e.g. C07c> ; runs both seeds of /tmp/seed_<name>/seeds/{1,2} against the check of the property, on a scratch worktree
x=$1; p=${x%c}; p=${p%b}; p=${p%d}; p=${p%e}; p=${p%f}; p=${p%g}; p=${p%h}
cd /verif
for n in 1 2; do
  d=/tmp/sw_$x; rm -rf $d; git -C /repo worktree prune; git -C /repo worktree add -q --detach $d HEAD
  if git -C $d apply /tmp/seed_$x/seeds/$n/patch.diff; then
    VERIF_REPO=$d ./check $p > /tmp/seedr3_$x-$n.log 2>&1; rc=$?
    echo "$x-$n exit=$rc $(grep -m1 '^VIOLATION' /tmp/seedr3_$x-$n.log | cut -c1-100) | $(grep 'quick tier' /tmp/seedr3_$x-$n.log)"
  else echo "$x-$n PATCH DOES NOT APPLY"; fi
  git -C /repo worktree remove --force $d
done
