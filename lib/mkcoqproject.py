"""regenerate coq/_CoqProject from the .v files present (sorted; coqdep orders the build)"""
import os
here = os.path.dirname(os.path.dirname(os.path.abspath(__file__)))
coq = os.path.join(here, "coq")
vs = []
for root, ds, fs in os.walk(coq):
    ds.sort()
    for f in sorted(fs):
        if f.endswith(".v"):
            vs.append(os.path.relpath(os.path.join(root, f), coq))
txt = "-Q . MptV\n" + "\n".join(sorted(vs)) + "\n"
p = os.path.join(coq, "_CoqProject")
if not os.path.exists(p) or open(p).read() != txt:
    open(p, "w").write(txt)
    print("updated _CoqProject (%d files)" % len(vs))
