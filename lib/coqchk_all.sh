#!/bin/bash
# independent re-check (coqchk -o) of every claimed property file; writes docs/coqchk.txt
cd "$(dirname "$0")/../coq" || exit 9
mods=""
for p in $(cat ../claimed.txt); do
  case $p in
    C01|C02|C03) mods="$mods MptV.Cobs.Properties_$p";;
    C08|C09) mods="$mods MptV.C08.Properties_$p";;
    *) mods="$mods MptV.$p.Properties";;
  esac
done
{ echo "# coqchk -o -silent -Q . MptV $mods"; date -u +"# %Y-%m-%dT%H:%MZ"; timeout 7200 coqchk -o -silent -Q . MptV $mods 2>&1 | grep -v conda; echo "exit=${PIPESTATUS[0]}"; } > ../docs/coqchk.txt
tail -n 20 ../docs/coqchk.txt
