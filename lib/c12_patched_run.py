#!/usr/bin/env python3
"""Trial run of the C12 check on a tree that already has the patches docs/C12_*.diff, without editing props/c12.py:
     VERIF_REPO=<patched copy of /repo> python3 lib/c12_patched_run.py quick|thorough <seed> [<replay.json>|-] [patch names NOT applied ...]
   Sets the entries of props/c12.py:COMMITTED in memory only and calls PROP.run (what ./check C12 does).
   The registered check never uses this file."""
import sys, os
sys.path.insert(0, '/verif/lib'); sys.path.insert(0, '/verif/props')
import c12
for k in c12.COMMITTED: c12.COMMITTED[k] = (k not in sys.argv[4:])
tier = sys.argv[1]; seed = int(sys.argv[2]); replay = sys.argv[3] if len(sys.argv) > 3 and sys.argv[3] != "-" else None
sys.exit(c12.PROP.run(tier, seed, replay))
