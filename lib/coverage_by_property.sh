#!/bin/bash
# per-property coverage audit: which lines of the files a property is ANCHORED in does that property's OWN quick
# tier execute?  (lib/coverage_audit.sh answers the same question for the union of all checks.)  Each check runs
# with its own GCOV_PREFIX, so the counters of the shared library objects are kept apart.  Writes
# docs/coverage_by_property.txt.  Takes about as long as running every quick tier once.
cd "$(dirname "$0")/.." || exit 9
V=$PWD
export VERIF_COV=1
rm -rf out/covp; mkdir -p out/covp
# build once (the first check builds the instrumented libraries), then one run per property with a private prefix
for p in ${@:-$(cat claimed.txt)}; do
  GCOV_PREFIX=$V/out/covp/$p GCOV_PREFIX_STRIP=0 ./check $p > out/covp/$p.log 2>&1
  echo "$p $(tail -n 1 out/covp/$p.log)"
done
bd=$(ls -td out/build/*_cov | head -1)
python3 - "$bd" "$V/out/covp" <<'PY'
import sys,os,subprocess,json,glob,re,shutil
bd=os.path.abspath(sys.argv[1]); covp=sys.argv[2]
props=[json.loads(l) for l in open('properties.jsonl')]
def ranges(ns):
    ns=sorted(ns); r=[]
    for n in ns:
        if r and n==r[-1][1]+1: r[-1][1]=n
        else: r.append([n,n])
    return ",".join(str(a) if a==b else "%d-%d"%(a,b) for a,b in r)
out=["# per property: lines of each anchored file executed by THAT property's own quick tier (union over its harness binaries)",
     "# 'own' = this property's check alone; compare docs/coverage_lines.txt (all checks together)"]
for p in props:
    pid=p['id']; root=os.path.join(covp,pid)
    out.append(pid)
    if not os.path.isdir(root):
        out.append("   (not run)"); continue
    lines={}
    # gcda files live under <root>/<absolute object dir>/x.gcda ; the matching gcno is in the object dir itself
    for gcda in glob.glob(os.path.join(root,'**','*.gcda'),recursive=True):
        od=os.path.dirname(gcda)[len(root):]            # absolute object dir
        gcno=os.path.join(od,os.path.basename(gcda)[:-5]+'.gcno')
        if not os.path.exists(gcno): continue
        tmp=os.path.dirname(gcda)
        shutil.copy(gcno,tmp)
        r=subprocess.run(['gcov','-t','-o',tmp,os.path.join(tmp,os.path.basename(gcno))],capture_output=True,text=True,cwd=od)
        cur=None
        for line in r.stdout.splitlines():
            m=re.match(r"\s*(-|#####|=====|[0-9]+\*?):\s*([0-9]+):(.*)",line)
            if not m: continue
            cnt,no,txt=m.group(1),int(m.group(2)),m.group(3)
            if no==0:
                mm=re.match(r"Source:(.*)",txt)
                if mm:
                    cur=mm.group(1)
                    if not cur.startswith('/'): cur=os.path.normpath(os.path.join(od,cur))
                continue
            if cur is None or cnt=='-' or not cur.startswith('/repo/'): continue
            L=lines.setdefault(cur[len('/repo/'):],{})
            L[no]=L.get(no,False) or (cnt not in ('#####','====='))
    for f in p['anchors']['files']:
        L=lines.get(f)
        if not L:
            out.append("   %-45s own: not executed (or not C/C++)"%f); continue
        miss=[n for n,e in L.items() if not e]
        out.append("   %-45s own: %5.1f%% of %d lines; not executed: %s"%(f,100.0*(len(L)-len(miss))/len(L),len(L),ranges(miss) or "-"))
open('docs/coverage_by_property.txt','w').write("\n".join(out)+"\n")
low=[l for l in out if 'own:' in l and ('not executed (or' in l or float(l.split('own:')[1].split('%')[0])<60)]
print("\n".join(low))
PY
