(* C05 driver.  One case per line:
     <id> <A|F|I><szA> B<szB> s<script|-> <op> <args> ...  [@@ <tokens printed by the implementation harness>]
   first letter = shape of both harness traits: A init+fini, F fini only, I init only (L<type>:<size> = library type)
   prints "M <id> tok..."  mechanism model: <out>|<events>|<h0>;<h1>;<h2> per operation (+ 3 final releases + end token)
          "S <id> tok..."  verdict of the specification monitor (coq/C05/TypedSpec.v) on the log the
                           IMPLEMENTATION printed: "ok" or "V:<violation>" per operation. *)
let nh = 3
let ni s = nat_of_int (int_of_string s)
let kind_of = function "a" -> Some KA | "b" -> Some KB | _ -> None

let rec parse_ops toks = match toks with
  | [] -> []
  | "new" :: h :: k :: n :: f :: r ->
    let f = int_of_string f in OpNew (ni h, kind_of k, ni n, f land 1 = 1, f land 2 = 2) :: parse_ops r
  | "res" :: h :: k :: n :: r -> OpReserve (ni h, kind_of k, ni n) :: parse_ops r
  | "set" :: h :: k :: p :: l :: s :: r -> OpSet (ni h, kind_of k, ni p, ni l, s = "c") :: parse_ops r
  | "ins" :: h :: p :: l :: r -> OpInsert (ni h, ni p, ni l) :: parse_ops r
  | "cut" :: h :: p :: l :: r -> OpCut (ni h, ni p, ni l) :: parse_ops r
  | "det" :: h :: l :: r -> OpDetach (ni h, ni l) :: parse_ops r
  | "cln" :: h :: g :: r -> OpClone (ni h, ni g) :: parse_ops r
  | "rel" :: h :: r -> OpRelease (ni h) :: parse_ops r
  | "trim" :: h :: l :: r -> OpTrim (ni h, ni l) :: parse_ops r
  | "skip" :: h :: l :: r -> OpSkip (ni h, ni l) :: parse_ops r
  | "app" :: h :: l :: r -> OpAppend (ni h, ni l) :: parse_ops r
  | "slen" :: h :: l :: r -> OpSetLen (ni h, ni l) :: parse_ops r
  | "cpy" :: h :: g :: r -> OpCopy (ni h, ni g) :: parse_ops r
  | "mov" :: h :: g :: r -> OpMove (ni h, ni g) :: parse_ops r
  | "itest" :: _ :: _ :: _ :: r -> OpNop :: parse_ops r
  | "rtest" :: _ :: _ :: r -> OpNop :: parse_ops r
  | "uins" :: h :: p :: r -> OpUInsert (ni h, ni p) :: parse_ops r
  | "ures" :: h :: n :: r -> OpUResize (ni h, ni n) :: parse_ops r
  | t :: _ -> failwith ("bad op " ^ t)

let err_name = function
  | BadArgument -> "BadArgument" | BadValue -> "BadValue" | BadType -> "BadType" | BadOperation -> "BadOperation"
  | BadEncoding -> "BadEncoding" | MissingData -> "MissingData" | MissingBuffer -> "MissingBuffer"
  | ERange -> "ERange" | EInval -> "EInval"
let show_out = function
  | OSkip -> "-" | ONum n -> "n" ^ string_of_int (int_of_nat n) | OErr e -> "E" ^ err_name e
  | OOk -> "ok" | ORefused -> "no"
let show_event = function
  | EInit (t, None) -> "i" ^ string_of_int (int_of_nat t)
  | EInit (t, Some s) -> "c" ^ string_of_int (int_of_nat t) ^ "<" ^ string_of_int (int_of_nat s)
  | EInitRaw t -> "q" ^ string_of_int (int_of_nat t)
  | EFini t -> "f" ^ string_of_int (int_of_nat t)
  | EFiniBad (Some t) -> "x" ^ string_of_int (int_of_nat t)
  | EFiniBad None -> "x?"
let show_slot = function
  | STok t -> string_of_int (int_of_nat t) | SDead t -> "d" ^ string_of_int (int_of_nat t) | SRaw -> "?"
let rec take n l = if n <= 0 then [] else match l with [] -> [] | x :: r -> x :: take (n-1) r
let join sep l = if l = [] then "-" else String.concat sep l

let lib_mode = ref false

let show_state env w =
  let cls = ref [] in
  let view h = match handle w (nat_of_int h) with
    | None -> "-"
    | Some id ->
      let id' = int_of_nat id in
      let c = match List.assoc_opt id' !cls with
        | Some c -> c
        | None -> let c = List.length !cls in cls := !cls @ [(id', c)]; c in
      (match hget w id with
       | None -> Printf.sprintf "%d:freed" c
       | Some b ->
         let flags = (if int_of_nat b.bref > 1 then 0x100 else 0) lor (if b.bimm then 1 else 0) lor (if b.bncp then 2 else 0) in
         let used = int_of_nat b.bused in
         let k, elts = match b.btr with
           | None -> "r", "-"
           | Some k ->
             let sz = int_of_nat (esz env k) in
             (match k with KA -> "a" | KB -> "b"),
             (if !lib_mode then (if used / sz = 0 then "-" else "*" ^ string_of_int (used / sz))
              else join "." (List.map show_slot (take (used / sz) b.bslots))) in
         Printf.sprintf "%d:%x:%d:%d:%s:%s" c flags (int_of_nat b.bsize) used k elts) in
  String.concat ";" (List.init nh view)

(* ---- reading back what the implementation printed ---- *)
let parse_event s =
  let num x = nat_of_int (int_of_string x) in
  let rest = String.sub s 1 (String.length s - 1) in
  match s.[0] with
  | 'i' -> EInit (num rest, None)
  | 'c' -> (match String.split_on_char '<' rest with
      | [a; b] -> if b = "?" then EInitRaw (num a) else EInit (num a, Some (num b))
      | _ -> failwith "event")
  | 'q' -> EInitRaw (num rest)
  | 'f' -> EFini (num rest)
  | 'x' -> if rest = "?" then EFiniBad None else EFiniBad (Some (num rest))
  | _ -> failwith "event"
let parse_slot s =
  if s = "?" || s = "z" then SRaw else if s.[0] = 'd' then SDead (nat_of_int (int_of_string (String.sub s 1 (String.length s - 1))))
  else STok (nat_of_int (int_of_string s))
let parse_obs tok =
  try
    match String.split_on_char '|' tok with
    | [_; evs; st] ->
      let evs = if evs = "-" then [] else List.map parse_event (String.split_on_char ',' evs) in
      let seen = ref [] in
      let stored = List.concat_map (fun h ->
          if h = "-" then [] else
            match String.split_on_char ':' h with
            | [c; _; _; _; _; elts] ->
              if List.mem c !seen then [] else begin
                seen := c :: !seen;
                if elts = "-" then [] else List.map parse_slot (String.split_on_char '.' elts) end
            | _ -> failwith "state") (String.split_on_char ';' st) in
      Some (evs, stored)
    | _ -> None
  with _ -> None

let num t = string_of_int (int_of_nat t)
let show_viol = function
  | VReinit t -> "V:token-initialised-twice:" ^ num t
  | VCopyFromDead (t, s) -> "V:copy-source-not-live:" ^ num t ^ "<" ^ num s
  | VCopyFromRaw t -> "V:copy-source-is-no-element:" ^ num t
  | VFiniNotLive t -> "V:destroyed-twice-or-never-created:" ^ num t
  | VFiniBad (Some t) -> "V:destructor-on-finalised-element:" ^ num t
  | VFiniBad None -> "V:destructor-on-non-element-memory"
  | VStoredBad -> "V:used-slot-holds-no-constructed-element"
  | VStoredDup t -> "V:element-bytes-duplicated-raw:" ^ num t
  | VStoredDead t -> "V:stored-element-not-live:" ^ num t
  | VLost t -> "V:live-element-stored-nowhere(leak):" ^ num t
  | VFault -> "V:memory-error-or-leak-reported-by-sanitizer"

let end_ok = "end|live=0|leak=0"

let () =
  let ic = open_in Sys.argv.(1) in
  List.iter (fun line ->
      let line, itoks = match String.index_opt line '@' with
        | Some i when i + 1 < String.length line && line.[i+1] = '@' ->
          String.sub line 0 i, Some (split_ws (String.sub line (i+2) (String.length line - i - 2)))
        | _ -> line, None in
      match split_ws line with
      | id :: a :: b :: s :: ops ->
        let sub x = String.sub x 1 (String.length x - 1) in
        (* library element type: L<type>:<size>; events and tokens are not observable there *)
        let lib, asz = if a.[0] = 'L' then
            (match String.split_on_char ':' (sub a) with [ty; n] -> Some ty, n | _ -> failwith "header")
          else None, sub a in
        lib_mode := lib <> None;
        let shape = match a.[0] with 'F' -> ShFini | 'I' -> ShInit | _ -> ShFull in
        let env = { eszA = ni asz; eszB = ni (sub b); ehdr = nat_of_int 64; epage = nat_of_int 128;
                    ecopyfail = (lib = Some "cmd"); eshape = shape } in
        (* traits without finaliser: the abandon steps of the model are ghosts, the implementation prints nothing *)
        let visible ev = match ev with EFini _ -> shape <> ShInit | _ -> true in
        let script = if sub s = "-" then [] else List.init (String.length s - 1) (fun i -> s.[i+1] = '1') in
        let ops = parse_ops ops @ release_all (nat_of_int nh) in
        let w0 = init_world (nat_of_int nh) script in
        let results = run env w0 ops in
        let prevlen = ref 0 in
        let faulted = ref false in
        let toks = List.map (fun r -> match r with
            | Ok (w, o) ->
              let lg = w.wctx.clog in
              let n = List.length lg in
              let evs = List.filter visible (List.rev (take (n - !prevlen) lg)) in
              prevlen := n;
              Printf.sprintf "%s|%s|%s" (show_out o) (if !lib_mode then "*" else join "," (List.map show_event evs)) (show_state env w)
            | _ -> faulted := true; "F") results in
        let toks = if !faulted then toks else toks @ [end_ok] in
        Printf.printf "M %s %s\n" id (String.concat " " toks);
        (match itoks with
         | None -> Printf.printf "S %s\n" id
         | Some it ->
           (* all but a trailing end token are operation observations *)
           let rec split l = match l with
             | [] -> [], None
             | [x] when String.length x >= 3 && String.sub x 0 3 = "end" -> [], Some x
             | x :: r -> let a, e = split r in x :: a, e in
           let obs, e = split it in
           let verdicts = if !lib_mode
             then List.map (fun t -> if String.length t > 0 && t.[0] = 'F' then Some VFault else None) obs
             else if shape = ShInit then monitor_nf mon0 (List.map parse_obs obs)
             else monitor mon0 (List.map parse_obs obs) in
           let vs = List.map (function None -> "ok" | Some v -> show_viol v) verdicts in
           (* self-checking scenarios (itest, rtest): the harness compares every step with a plain list and the
              object counters; "bad<code>@<step>" = an element lost, kept alive, destroyed twice or misplaced *)
           let vs = if List.length vs <> List.length obs then vs else
               List.map2 (fun t v ->
                   if v = "ok" && String.length t >= 3 && String.sub t 0 3 = "bad"
                   then "V:array-scenario-failed:" ^ List.hd (String.split_on_char '|' t) else v) obs vs in
           let all_ok = List.for_all (fun v -> v = "ok") vs && List.length vs = List.length obs in
           let vs = if not all_ok then vs else
               match e with
               | Some x when x = end_ok -> vs @ ["ok"]
               | Some x -> vs @ ["V:elements-alive-after-last-release:" ^ x]
               | None -> vs @ [show_viol VFault] in
           Printf.printf "S %s %s\n" id (String.concat " " vs))
      | _ -> ()) (read_lines ic)
