(* C10 driver: one case per line, see props/c10.py for the grammar.
     <id> G|R|J <nv> <pathspec>*nv <no> <pathspec>*no <op>...     op: a <pathspec> <hex> | r <pathspec> | d <pathspec>
     <id> P <sephex> <assignhex> <op>...                           op: set <str> <len> | next | last | del | add <n> | post <hex> | bin
   pathspec = <handle>:<sephex>:<str>, str = "~" (NULL) | "-" (empty) | hex.
   Prints "M <id> tok..." (mechanism model) and "S <id> tok..." (specification). *)
let cksum l =
  let rec go i acc = function [] -> acc | b :: r -> go (i + 1) ((acc + (i + 1) * int_of_n b) mod 65521) r in go 0 0 l
let rec take k l = if k <= 0 then [] else match l with [] -> [] | x :: r -> x :: take (k - 1) r
let enc lim l =
  let n = List.length l in
  if n <= lim then hex_of_bytes l
  else Printf.sprintf "%d.%d.%s" n (cksum l) (hex_of_bytes (take 3 l))
let venc = enc 6
let show_entry = function
  | Absent -> "A"
  | Exists None -> "E"
  | Exists (Some v) -> "V" ^ venc v
let str_of_tok s = if s = "~" then None else Some (bytes_of_hex s)
let byte_of_hex s = n_of_int (int_of_string ("0x" ^ s))
(* handle, sep, string *)
let parse_spec t = match String.split_on_char ':' t with
  | [h; sep; s] -> (int_of_string h, byte_of_hex sep, str_of_tok s)
  | _ -> failwith ("bad pathspec " ^ t)
let mkpath_of (s, sep) = match str_path s sep N0 with Done p -> Some p | _ -> None
let rec dump_nodes f =
  if f = [] then "0" else String.concat "," (List.map (fun (Node (n, v, k)) ->
    venc n ^ (match v with None -> "!" | Some v -> "=" ^ venc v) ^ (if k = [] then "" else "(" ^ dump_nodes k ^ ")")) f)
let rec dump_items f =
  if f = [] then "0" else String.concat "," (List.map (fun (Item (n, v, k)) ->
    match n with None -> "_" | Some n ->
    venc n ^ (match v with None -> "!" | Some v -> "=" ^ venc v) ^ (if k = [] then "" else "(" ^ dump_items k ^ ")")) f)
let show_rc kind o = match o with
  | OutRc r -> (match kind, r with
      | `A, RcOk -> "ok" | `A, _ -> "no"
      | `R, RcRemoved -> "rm" | `R, _ -> "--")
  | OutEntry _ -> "?" | OutFault -> "F" | OutFuel -> "U"
let show_obs o = match o with OutEntry e -> show_entry e | OutFault -> "F" | OutFuel -> "U" | OutRc _ -> "?"

let rec split_n k l = if k = 0 then ([], l) else match l with x :: r -> let (a, b) = split_n (k - 1) r in (x :: a, b) | [] -> failwith "short case"

let run_store kind id toks =
  let nv, toks = match toks with n :: r -> int_of_string n, r | [] -> failwith "nv" in
  let vs, toks = split_n nv toks in
  let no, toks = match toks with n :: r -> int_of_string n, r | [] -> failwith "no" in
  let os, toks = split_n no toks in
  let views = Array.of_list (List.map parse_spec vs) in
  let obs = List.map parse_spec os in
  let empty_path = path_init N0 N0 in
  let base_path h = if h = 0 then Some empty_path else let (_, sep, s) = views.(h - 1) in mkpath_of (s, sep) in
  let base_key h = if h = 0 then [] else let (_, sep, s) = views.(h - 1) in str_key s sep in
  let g = ref [] and a = ref [] and hist = ref [] in
  let mt = Buffer.create 256 and st = Buffer.create 256 in
  let mstep_store o = match kind with
    | 'G' -> (match o with
        | `A (h, p, v) -> (match base_path h with Some b -> let (g', out) = cstep !g (CAssign (b, p, v)) in g := g'; out | None -> OutFault)
        | `R (h, p) -> (match base_path h with Some b -> let (g', out) = cstep !g (CRemove (b, p)) in g := g'; out | None -> OutFault)
        | `D (h, p) -> OutFault
        | `Q (h, p) -> (match base_path h with Some b -> snd (cstep !g (CQuery (b, p))) | None -> OutFault))
    | _ -> (let r = match o with
        | `A (_, p, v) -> RAssign (p, v) | `R (_, p) -> RRemove p | `D (_, p) -> RDrop p | `Q (_, p) -> RQuery p in
        let (a', out) = rstep !a r in a := a'; out) in
  let observe () =
    let mo = List.map (fun (h, sep, s) -> match mkpath_of (s, sep) with
      | Some p -> show_obs (mstep_store (`Q (h, p))) | None -> "F") obs in
    let so = List.map (fun (h, sep, s) -> show_obs (snd (sstep !hist (HQuery (base_key h, str_key s sep)) true))) obs in
    (String.concat "," mo, String.concat "," so) in
  let emit rcm rcs =
    let (mo, so) = observe () in
    let dump = if kind = 'G' then dump_nodes !g else dump_items !a in
    Buffer.add_string mt (Printf.sprintf " %s|1|%s|%s" rcm mo dump);
    Buffer.add_string st (Printf.sprintf " %s|1|%s" rcs so) in
  let rec go = function
    | [] -> ()
    | "a" :: ps :: v :: r ->
      let (h, sep, s) = parse_spec ps in
      let v = bytes_of_hex v in
      (match mkpath_of (s, sep) with
       | None -> Buffer.add_string mt " F"; Buffer.add_string st " F"
       | Some p ->
         let out = mstep_store (`A (h, p, v)) in
         let (h', sout) = sstep !hist (HAssign (base_key h, str_key s sep, v)) (match out with OutRc RcOk -> true | _ -> false) in
         hist := h';
         emit (show_rc `A out) (show_rc `A sout));
      go r
    | (("r" | "d") as k) :: ps :: r ->
      let (h, sep, s) = parse_spec ps in
      (match mkpath_of (s, sep) with
       | None -> Buffer.add_string mt " F"; Buffer.add_string st " F"
       | Some p ->
         let out = mstep_store (if k = "r" then `R (h, p) else `D (h, p)) in
         let (h', sout) = sstep !hist (HRemove (base_key h, str_key s sep)) true in
         hist := h';
         emit (show_rc `R out) (show_rc `R sout));
      go r
    | t :: _ -> failwith ("bad op " ^ t) in
  go toks;
  Printf.printf "M %s%s\nS %s%s\n" id (Buffer.contents mt) id (Buffer.contents st)

let errno = function
  | BadArgument -> -1 | BadValue -> -2 | BadType -> -3 | BadOperation -> -4 | BadEncoding -> -8
  | MissingData -> -16 | MissingBuffer -> -17 | ERange -> -34 | EInval -> -2
let show_ret = function RNum n -> string_of_int (int_of_nat n) | RErr e -> string_of_int (errno e) | RFault -> "F" | RFuel -> "U"
let show_walk = function
  | Done l -> if l = [] then "0" else String.concat "," (List.map (enc 12) l)
  | _ -> "F"
let rec drop k l = if k <= 0 then l else match l with [] -> [] | _ :: r -> drop (k - 1) r

let run_path id toks =
  match toks with
  | sep :: asg :: ops ->
    let sep = byte_of_hex sep and asg = byte_of_hex asg in
    let p = ref (path_init sep asg) in
    let a = ref { aelems = []; apost = []; abin = false; asep = sep; aassign = asg; anull = true } in
    let mt = Buffer.create 256 and st = Buffer.create 256 in
    let step o isset =
      let (p', r) = pstep !p o in
      let (a', ar) = astep !a o in
      p := p'; a := a';
      let q = !p in
      let off = int_of_nat q.poff and len = int_of_nat q.plen in
      let flags = (if q.pbin then 128 else 0) + (if q.parr then 64 else 0) + (if q.pkeep then 1 else 0) in
      let body = take len (drop off q.pbase) in
      let post = if q.parr then drop (off + len) q.pbase else [] in
      let cnt = if isset then show_ret r else "0" in
      let rs = if isset then (match r with RNum _ -> "s" | x -> show_ret x) else show_ret r in
      let ars = if isset then (match ar with RNum _ -> "s" | x -> show_ret x) else show_ret ar in
      Buffer.add_string mt (Printf.sprintf " %s|%d.%d.%d.%d.%s|%s|%s|%s" rs off len (int_of_nat q.pfirst) flags cnt
                              (enc 48 body) (enc 48 post) (show_walk (pwalk q)));
      Buffer.add_string st (Printf.sprintf " %s|%s" ars (show_walk (Done !a.aelems))) in
    let rec go = function
      | [] -> ()
      | "set" :: s :: l :: r ->
        let l = int_of_string l in
        step (PSet (str_of_tok s, if l < 0 then None else Some (nat_of_int l))) true; go r
      | "next" :: r -> step PNext false; go r
      | "last" :: r -> step PLast false; go r
      | "del" :: r -> step PDel false; go r
      | "add" :: n :: r -> step (PAdd (nat_of_int (int_of_string n))) false; go r
      | "post" :: d :: r -> step (PPost (bytes_of_hex d)) false; go r
      | "bin" :: r -> step PBin false; go r
      | t :: _ -> failwith ("bad op " ^ t) in
    go ops;
    Printf.printf "M %s%s\nS %s%s\n" id (Buffer.contents mt) id (Buffer.contents st)
  | _ -> ()

let () =
  let ic = open_in Sys.argv.(1) in
  List.iter (fun line ->
    match split_ws line with
    | id :: ("P" | "Q") :: r -> run_path id r
    | id :: k :: r when k = "G" || k = "R" || k = "J" -> run_store k.[0] id r
    | _ -> ()) (read_lines ic)
