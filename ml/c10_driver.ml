(* C10 driver: one case per line, see props/c10.py for the grammar.
     <id> G|H|R|X|J|Gc|Hc|Rc|Xc <nv> <pathspec>*nv <no> <pathspec>*no <op>...
          op: a <pathspec> <hex> | r <pathspec> | d <pathspec> | z <pathspec> | l <pathspec> | n <pathspec> | k <pathspec>
              | env <sephex> <patternhex> <hex,hex,...>
     <id> P|Q <sephex> <assignhex> <op>...
          op: set <str> <len> | sets <str> <len> <sephex|~> <assignhex|~> | next | last | del | add <n> | post <hex> | bin
              | clr | cp | asg | fork
     <id> T
   pathspec = <handle>:<sephex>:<str>, str = "~" (NULL) | "-" (empty) | hex.
   Prints "M <id> tok..." (mechanism model) and "S <id> tok..." (specification). *)
let cksum l =
  let rec go i acc = function [] -> acc | b :: r -> go (i + 1) ((acc + (i + 1) * int_of_n b) mod 65521) r in go 0 0 l
let rec take k l = if k <= 0 then [] else match l with [] -> [] | x :: r -> x :: take (k - 1) r
let enc lim l =
  let n = List.length l in
  if n <= lim then hex_of_bytes l
  else Printf.sprintf "%d.%d.%s" n (cksum l) (hex_of_bytes (take 3 l))
let venc = enc 6
let show_entry = function
  | Absent -> "A"
  | Exists None -> "E"
  | Exists (Some v) -> "V" ^ venc v
let str_of_tok s = if s = "~" then None else Some (bytes_of_hex s)
let byte_of_hex s = n_of_int (int_of_string ("0x" ^ s))
(* handle, sep, string *)
let parse_spec t = match String.split_on_char ':' t with
  | [h; sep; s] | [h; sep; s; _] -> (int_of_string h, byte_of_hex sep, str_of_tok s)
  | _ -> failwith ("bad pathspec " ^ t)
(* optional 4th field: the end character of mpt_config_set (kind G, operations a / r) *)
let spec_end t = match String.split_on_char ':' t with
  | [_; _; _; en] -> byte_of_hex en
  | _ -> N0
let mkpath_end (s, sep, en) = match str_path s sep en with Done p -> Some p | _ -> None
let mkpath_of (s, sep) = match str_path s sep N0 with Done p -> Some p | _ -> None
let rec dump_nodes f =
  if f = [] then "0" else String.concat "," (List.map (fun (Node (n, v, k)) ->
    venc n ^ (match v with None -> "!" | Some v -> "=" ^ venc v) ^ (if k = [] then "" else "(" ^ dump_nodes k ^ ")")) f)
let rec dump_items f =
  if f = [] then "0" else String.concat "," (List.map (fun (Item (n, v, k)) ->
    match n with None -> "_" | Some n ->
    venc n ^ (match v with None -> "!" | Some v -> "=" ^ venc v) ^ (if k = [] then "" else "(" ^ dump_items k ^ ")")) f)
let show_rc kind o = match o with
  | OutRc r -> (match kind, r with
      | `A, RcOk -> "ok" | `A, _ -> "no"
      | `R, RcRemoved -> "rm" | `R, _ -> "--")
  | OutEntry _ -> "?" | OutFault -> "F" | OutFuel -> "U"
let show_obs o = match o with OutEntry e -> show_entry e | OutFault -> "F" | OutFuel -> "U" | OutRc _ -> "?"

let rec split_n k l = if k = 0 then ([], l) else match l with x :: r -> let (a, b) = split_n (k - 1) r in (x :: a, b) | [] -> failwith "short case"

(* value accessors: raw result classes (mpt_config_getp, config::get(path, type, ptr)) or the
   bool wrappers get<T>, which cannot tell MissingData from BadType *)
let show_gval coll = function
  | GMissing -> if coll then "f" else "n"
  | GBadType -> if coll then "f" else "t"
  | GFound -> "y"
  | GText v -> "V" ^ venc v
let show_listing dump = function
  | None -> "LA"
  | Some (v, kids) -> "L" ^ (match v with None -> "!" | Some v -> "=" ^ venc v) ^ "(" ^ dump kids ^ ")"
                      ^ (if kids = [] then ";s0" else ";s-7")      (* a refusing item callback stops the walk *)

(* the glob patterns the generator uses: literal bytes, '*' and '?' *)
let glob_match pat str =
  let np = String.length pat and ns = String.length str in
  let rec go i j =
    if i = np then j = ns
    else if pat.[i] = '*' then (go (i + 1) j || (j < ns && go i (j + 1)))
    else j < ns && (pat.[i] = '?' || pat.[i] = str.[j]) && go (i + 1) (j + 1) in
  go 0 0
let string_of_bytes l = String.concat "" (List.map (fun b -> String.make 1 (Char.chr (int_of_n b))) l)
let bytes_of_string s = List.init (String.length s) (fun i -> n_of_int (Char.code s.[i]))

(* metatype side of a configuration handle (op k): what the C says, see config_global.c:
   conversion to type 0 without / with target, the type list { TypeConfigPtr = 0x85, TypeNodePtr = 9 },
   addref (the global one is static: 1, a view is not shared: 0), clone (a view gives a new
   view, the global one has no base path to clone from: NULL), query(NULL) hands out the
   metatype itself, query(NULL) without handler, assign(NULL, ..) BadArgument, an unknown
   conversion BadType *)
let handle_facts h = if h = 0 then "K133.0.8509.1.~.1.0.-1.-3" else "K133.0.8509.0.c.1.0.-1.-3"

(* the path-less forms of config::root (op k, kinds R / X): remove(NULL) = 0, nothing changes;
   assign(NULL, value) = BadArgument; query(NULL) without handler = 0 *)
let root_facts = "K0.-1.0"

(* conv: the observations also ask for the value itself (kind token "Gc", "Hc", "Rc", "Xc") *)
let run_store kind conv id toks =
  let nv, toks = match toks with n :: r -> int_of_string n, r | [] -> failwith "nv" in
  let vs, toks = split_n nv toks in
  let no, toks = match toks with n :: r -> int_of_string n, r | [] -> failwith "no" in
  let os, toks = split_n no toks in
  let views = Array.of_list (List.map parse_spec vs) in
  let obs = List.map parse_spec os in
  let empty_path = path_init N0 N0 in
  let base_path h = if h = 0 then Some empty_path else let (_, sep, s) = views.(h - 1) in mkpath_of (s, sep) in
  let base_key h = if h = 0 then [] else let (_, sep, s) = views.(h - 1) in str_key s sep in
  let tree = (kind = 'G' || kind = 'H') in        (* the process-global node tree; otherwise item slots *)
  let cxx = (kind = 'R' || kind = 'X') in   (* values made by the C++ metatype::create *)
  let coll = (kind = 'H' || kind = 'X') in        (* bool wrappers *)
  let g = ref [] and a = ref [] and hist = ref [] in
  let mt = Buffer.create 256 and st = Buffer.create 256 in
  let wdo o = let (g', out) = wstep !g o in g := g'; out in
  let xdo o = let (a', out) = xstep !a o in a := a'; out in
  let wc = function WOut c -> c | _ -> OutFault in
  let xc = function XOut c -> c | _ -> OutFault in
  let wv0 c = function WVal v -> show_gval c v | WOut OutFault -> "F" | WOut OutFuel -> "U" | _ -> "?" in
  let xv0 c = function XVal v -> show_gval c v | XOut OutFault -> "F" | XOut OutFuel -> "U" | _ -> "?" in
  let wv = wv0 coll and xv = xv0 coll in
  let dot = n_of_int 0x2e in
  let observe () =
    let one (h, sep, s) =
      match mkpath_of (s, sep), base_path h with
      | Some p, Some b ->
        if kind = 'J' then (show_obs (snd (rstep !a (RQuery p))))
        else if tree then
          String.concat "/" ([ show_obs (wc (wdo (WVt (CQuery (b, p))))); wv0 false (wdo (WGetp (b, p, GExist)));
                               wv (wdo (WGetp (b, p, GVec))); wv (wdo (WGetp (b, p, GStr))) ]
                             @ (if sep = dot then [ wv (wdo (WGet (b, s, GStr))) ] else [])
                             @ (if conv then [ wv (wdo (WGetp (b, p, GConv))) ] else [])
                             @ (if conv && sep = dot then [ wv (wdo (WGet (b, s, GConv))) ] else []))
        else
          String.concat "/" ([ show_obs (xc (xdo (XVt (RQuery p)))); xv0 false (xdo (XGetp (p, GExist)));
                               xv (xdo (XGetp (p, GVec))); xv (xdo (XGetp (p, GStr))) ]
                             @ (if sep = dot && kind = 'X' then
                                  [ match mkpath_of (s, dot) with Some q -> xv (xdo (XGetp (q, GStr))) | None -> "F" ] else [])
                             @ (if conv then [ xv (xdo (XGetp (p, GConv))) ] else [])
                             @ (if conv && sep = dot && kind = 'X' then
                                  [ match mkpath_of (s, dot) with Some q -> xv (xdo (XGetp (q, GConv))) | None -> "F" ] else []))
      | _ -> "F" in
    let sone (h, sep, s) =
      let e = (match snd (sstep !hist (HQuery (base_key h, str_key s sep)) true) with OutEntry e -> e | _ -> Absent) in
      if kind = 'J' then show_entry e
      else
        let gv ty = show_gval coll (get_view cxx ty e) in
        String.concat "/" ([ show_entry e; show_gval false (get_view cxx GExist e); gv GVec; gv GStr ]
                           @ (if sep = dot && kind <> 'R' then [ gv GStr ] else [])
                           @ (if conv then [ gv GConv ] else [])
                           @ (if conv && sep = dot && kind <> 'R' then [ gv GConv ] else [])) in
    (String.concat "," (List.map one obs), String.concat "," (List.map sone obs)) in
  let emit rcm rcs =
    let (mo, so) = observe () in
    let dump = if tree then dump_nodes !g else dump_items !a in
    Buffer.add_string mt (Printf.sprintf " %s|1|%s|%s" rcm mo dump);
    Buffer.add_string st (Printf.sprintf " %s|1|%s" rcs so) in
  let bad () = Buffer.add_string mt " F"; Buffer.add_string st " F" in
  (* one assignment / removal on the model, the way this kind of case calls it *)
  let m_assign ?(en = N0) h s sep p v = match base_path h with
    | None -> OutFault
    | Some b ->
      if tree then wc (wdo (WSet (b, s, sep, en, Some v)))
      else if kind = 'X' then xc (xdo (XSet (s, sep, Some v)))
      else xc (xdo (XVt (RAssign (p, v)))) in
  let m_remove ?(en = N0) h s sep p = match base_path h with
    | None -> OutFault
    | Some b ->
      if tree then wc (wdo (WSet (b, s, sep, en, None)))
      else if kind = 'X' then xc (xdo (XSet (s, sep, None)))
      else xc (xdo (XVt (RRemove p))) in
  let s_assign ?(en = N0) h s sep v out =
    let (h', sout) = sstep !hist (HAssign (base_key h, str_key_end s sep en, v)) (match out with OutRc RcOk -> true | _ -> false) in
    hist := h'; sout in
  let rec go = function
    | [] -> ()
    | "a" :: ps :: v :: r ->
      let (h, sep, s) = parse_spec ps in
      let en = spec_end ps in
      let v = bytes_of_hex v in
      (match mkpath_end (s, sep, en) with
       | None -> bad ()
       | Some p ->
         let out = m_assign ~en h s sep p v in
         let sout = s_assign ~en h s sep v out in
         emit (show_rc `A out) (show_rc `A sout));
      go r
    | "r" :: ps :: r ->
      let (h, sep, s) = parse_spec ps in
      let en = spec_end ps in
      (match mkpath_end (s, sep, en) with
       | None -> bad ()
       | Some p ->
         let out = m_remove ~en h s sep p in
         let (h', sout) = sstep !hist (HRemove (base_key h, str_key_end s sep en)) true in
         hist := h';
         if kind = 'H' then emit (match out with OutRc RcRefused -> "vr0" | OutRc _ -> "vr1" | OutFault -> "F" | _ -> "U") "vr"
         else emit (show_rc `R out) (show_rc `R sout));
      go r
    | "d" :: ps :: r ->
      let (h, sep, s) = parse_spec ps in
      (match mkpath_of (s, sep), base_path h with
       | Some p, Some b ->
         if kind = 'J' then begin
           let out = xc (xdo (XVt (RDrop p))) in
           let (h', sout) = sstep !hist (HRemove (base_key h, str_key s sep)) true in
           hist := h';
           emit (show_rc `R out) (show_rc `R sout)
         end else begin
           (* config::del(str, sep, len): the harness passes -1, the full length or one byte less,
              by string length *)
           let n = match s with Some b -> List.length b | None -> 0 in
           let len = if n mod 3 = 0 then None else if n mod 3 = 1 then Some (nat_of_int n) else Some (nat_of_int (n - 1)) in
           let out = if tree then wc (wdo (WDel (b, s, sep, len))) else xc (xdo (XDel (s, sep, len))) in
           let (h', _) = sstep !hist (HRemove (base_key h, del_key s sep len)) true in
           hist := h';
           let t = match out with OutFault -> "F" | OutFuel -> "U" | _ -> "vd" in
           emit t "vd"
         end
       | _ -> bad ());
      go r
    | "z" :: ps :: r when tree ->
      (* configAssign(cfg, path, NULL): the element is there afterwards, without value *)
      let (h, sep, s) = parse_spec ps in
      (match mkpath_of (s, sep), base_path h with
       | Some p, Some b ->
         let out = wc (wdo (WAssignNone (b, p))) in
         let (h', sout) = wsstep !hist (HAssignNone (base_key h, str_key s sep)) (out = OutRc RcOk) in
         hist := h';
         let show = function OutRc RcOk -> "ok+" | OutRc RcCleared -> "ok" | OutRc _ -> "no" | OutFault -> "F" | _ -> "U" in
         emit (show out) (show (wc sout))
       | _ -> bad ());
      go r
    | "t" :: ps :: ty :: v :: r ->
      (* configAssign(cfg, path, value) with a typed value: text in a string, a vector of char or
         an array of char is text; an integer holds none and is refused *)
      let (h, sep, s) = parse_spec ps in
      let v = if ty = "p" then [] else bytes_of_hex v in
      (match mkpath_of (s, sep), base_path h with
       | Some p, Some b ->
         if ty = "i" then begin
           let out = wc (wdo (WAssignBad (b, p))) in
           let (h', sout) = wsstep !hist (HAssignBad (base_key h)) true in
           hist := h';
           emit (show_rc `A out) (show_rc `A (wc sout))
         end else begin
           let out = wc (wdo (WVt (CAssign (b, p, v)))) in
           let sout = s_assign h s sep v out in
           emit (show_rc `A out) (show_rc `A sout)
         end
       | _ -> bad ());
      go r
    | "z" :: ps :: r ->
      let (_, sep, s) = parse_spec ps in
      (match mkpath_of (s, sep) with
       | None -> bad ()
       | Some p ->
         let out = xc (xdo (XUnset p)) in
         let (h', sout) = xsstep !hist (XHUnset (str_key s sep)) true in
         hist := h';
         emit (show_rc `A out) (show_rc `A (xc sout)));
      go r
    | "l" :: ps :: r ->
      let (h, sep, s) = parse_spec ps in
      (match mkpath_of (s, sep), base_path h with
       | Some p, Some b ->
         if tree then begin
           let m = match wdo (WList (b, p)) with WListing l -> show_listing dump_nodes l | WOut OutFault -> "F" | _ -> "U" in
           let e = squery !hist (base_key h) (str_key s sep) in
           emit m (if e = Absent then "LA" else "LP")
         end else begin
           let top = (s = None) in
           let m = match xdo (XList (if top then None else Some p)) with
             | XListing l -> show_listing dump_items l | XOut OutFault -> "F" | _ -> "U" in
           let e = match snd (xsstep !hist (XHList (if top then None else Some (str_key s sep))) true) with
             | XOut (OutEntry e) -> e | _ -> Absent in
           emit m (if e = Absent then "LA" else "LP")
         end
       | _ -> bad ());
      go r
    | "n" :: ps :: r ->
      let (h, _, _) = parse_spec ps in
      (match base_path h with
       | None -> bad ()
       | Some b ->
         let m = match wdo (WNode b) with
           | WNodeAt (Some t) ->
             (match node_at !g t with
              | Some (Node (n, v, _)) -> "Ny:" ^ venc n ^ (match v with None -> "!" | Some v -> "=" ^ venc v)
              | None -> "F")
           | WNodeAt None -> "N-2"
           | WOut OutFault -> "F" | _ -> "U" in
         let (h', sout) = wsstep !hist (HTouch (base_key h)) true in
         hist := h';
         emit m (match sout with WNodeAt (Some _) -> "Ny" | _ -> "N-2"));
      go r
    | "y" :: ps :: r ->
      let (h, _, _) = parse_spec ps in
      (match base_path h with
       | None -> bad ()
       | Some b ->
         let out = wc (wdo (WUnset b)) in
         let (h', _) = wsstep !hist (HUnsetBase (base_key h)) true in
         hist := h';
         emit (match out with OutRc RcRefused -> "y-4" | OutRc _ -> "y0" | OutFault -> "F" | _ -> "U") "y");
      go r
    | "k" :: ps :: r ->
      let (h, _, _) = parse_spec ps in
      if tree then emit (handle_facts h) (handle_facts h) else emit root_facts root_facts;
      go r
    | "env" :: sep :: pat :: ents :: r ->
      (* config::environ(pattern, sep, env): every "NAME=value" whose lower-cased name matches the
         pattern is assigned at the path the name spells with the separator, in order; stops at
         the first refused assignment *)
      (* "~ ~": config::environ() with its default arguments *)
      let sep = if sep = "~" then N0 else byte_of_hex sep in
      let sep = if sep = N0 then n_of_int 0x5f else sep in
      let pat = if pat = "~" then "mpt_*" else string_of_bytes (bytes_of_hex pat) in
      let ents = List.map (fun t -> string_of_bytes (bytes_of_hex t)) (String.split_on_char ',' ents) in
      let accept = ref 0 and stop = ref false and fault = ref false in
      List.iter (fun e ->
        if not !stop then
          match String.index_opt e '=' with
          | None -> ()
          | Some k ->
            if k + 1 >= 1024 then () else
            let name = String.lowercase_ascii (String.sub e 0 k) in
            if glob_match pat name then begin
              incr accept;
              let v = bytes_of_string (String.sub e (k + 1) (String.length e - k - 1)) in
              let s = Some (bytes_of_string name) in
              match mkpath_of (s, sep) with
              | None -> fault := true; stop := true
              | Some p ->
                let out = if tree then wc (wdo (WVt (CAssign (empty_path, p, v)))) else xc (xdo (XVt (RAssign (p, v)))) in
                let _ = s_assign 0 s sep v out in
                (match out with OutRc RcOk -> () | OutRc _ -> accept := - !accept; stop := true | _ -> fault := true; stop := true)
            end) ents;
      let t = if !fault then "F" else Printf.sprintf "n%d" !accept in
      emit t t;
      go r
    | t :: _ -> failwith ("bad op " ^ t) in
  go toks;
  Printf.printf "M %s%s\nS %s%s\n" id (Buffer.contents mt) id (Buffer.contents st)

let errno = function
  | BadArgument -> -1 | BadValue -> -2 | BadType -> -3 | BadOperation -> -4 | BadEncoding -> -8
  | MissingData -> -16 | MissingBuffer -> -17 | ERange -> -34 | EInval -> -2
let show_ret = function RNum n -> string_of_int (int_of_nat n) | RErr e -> string_of_int (errno e) | RFault -> "F" | RFuel -> "U"
let show_walk = function
  | Done l -> if l = [] then "0" else String.concat "," (List.map (enc 12) l)
  | _ -> "F"
let rec drop k l = if k <= 0 then l else match l with [] -> [] | _ :: r -> drop (k - 1) r

let run_path cxx id toks =
  let forked = ref false in
  match toks with
  | sep :: asg :: ops ->
    let sep = byte_of_hex sep and asg = byte_of_hex asg in
    let p = ref (path_init sep asg) in
    let a = ref { aelems = []; apost = []; abin = false; asep = sep; aassign = asg; anull = true; astr = None } in
    let mt = Buffer.create 256 and st = Buffer.create 256 in
    let step o isset =
      let (p', r) = pstep !p o in
      let (a', ar) = astep !a o in
      p := p'; a := a';
      let q = !p in
      let off = int_of_nat q.poff and len = int_of_nat q.plen in
      let flags = (if q.pbin then 128 else 0) + (if q.parr then 64 else 0) + (if q.pkeep then 1 else 0) in
      let body = take len (drop off q.pbase) in
      let post = if q.parr then drop (off + len) q.pbase else [] in
      let cnt = if isset then show_ret r else "0" in
      let rs = if isset then (match r with RNum _ -> "s" | x -> show_ret x) else show_ret r in
      let ars = if isset then (match ar with RNum _ -> "s" | x -> show_ret x) else show_ret ar in
      let o = if !forked then ";o1" else "" in
      Buffer.add_string mt (Printf.sprintf " %s|%d.%d.%d.%d.%s|%s|%s|%s%s" rs off len (int_of_nat q.pfirst) flags cnt
                              (enc 48 body) (enc 48 post) (show_walk (pwalk q)) o);
      Buffer.add_string st (Printf.sprintf " %s|%s%s" ars (show_walk (Done !a.aelems)) o) in
    let rec go = function
      | [] -> ()
      | "set" :: s :: l :: r ->
        let l = int_of_string l in
        step (PSet (str_of_tok s, if l < 0 then None else Some (nat_of_int l))) true; go r
      | "sets" :: s :: l :: st :: at :: r ->
        (* mpt::path::set(str, len, sep, assign): the fields, then mpt_path_set; one observation *)
        let l = int_of_string l in
        let fld t = if t = "~" then None else Some (byte_of_hex t) in
        let o = PSep (fld st, fld at) in
        p := fst (pstep !p o); a := fst (astep !a o);
        step (PSet (str_of_tok s, if l < 0 then None else Some (nat_of_int l))) true; go r
      | "next" :: r -> step PNext false; go r
      | "last" :: r -> step PLast false; go r
      | "del" :: r -> step PDel false; go r
      | "add" :: n :: r -> step (PAdd (nat_of_int (int_of_string n))) false; go r
      | "post" :: d :: r -> step (PPost (bytes_of_hex d)) false; go r
      | "bin" :: r -> step PBin false; go r
      | "clr" :: r -> step (PClear false) false; go r        (* mpt_path_invalidate *)
      | "clrx" :: r -> step (PClear true) false; go r       (* array content cut only (content::set_length) *)
      | ("cp" | "asg") :: r -> step PCopy false; go r
      | "fork" :: r -> forked := true; step PCopy false; go r
      | t :: _ -> failwith ("bad op " ^ t) in
    go ops;
    (* kind P ends with mpt_path_fini: storage of the path's own is released exactly once *)
    if not cxx then (Buffer.add_string mt " fin:ok"; Buffer.add_string st " fin:ok");
    Printf.printf "M %s%s\nS %s%s\n" id (Buffer.contents mt) id (Buffer.contents st)
  | _ -> ()

(* kind M: mpt_meta_set on one metatype reference *)
let run_metaset id toks =
  let c = ref CNull and txt = ref None in
  let mt = Buffer.create 256 and st = Buffer.create 256 in
  let show_text = function None -> "E" | Some v -> "V" ^ venc v in
  let pm b = if b then "+" else "-" in
  let kind = function
    | CNull -> "0" | CDefault -> "d" | CText _ -> "t" | CObj (a, _) -> "o" ^ pm a | CCfg (a, _) -> "c" ^ pm a
    | CIter (a, _) -> "i" ^ pm a | CView -> "w" in
  let harness_made = function CObj _ | CCfg _ | CIter _ -> true | _ -> false in
  let emit r rs ident c' rel txt' =
    Buffer.add_string mt (Printf.sprintf " m:%s|%s|%s|%s|u%d" r ident (kind c') (show_text (cell_text c')) rel);
    Buffer.add_string st (Printf.sprintf " m:%s|%s" rs (show_text txt')) in
  let set a =
    let ((r, c'), rel) = meta_set_cell !c a in
    let same = match r with
      | MErr -> true
      | MOk -> (match !c, c' with
          | CObj _, CObj _ | CCfg _, CCfg _ | CIter _, CIter _ | CDefault, CDefault -> true
          | CText _, CText _ -> a = ANone
          | _ -> false) in
    let dropped = (cell_text c' = None) in
    let txt' = cell_spec !txt a (r = MOk) dropped in
    (* the specification's result class: a value without text is refused, "no value" accepted,
       text as the implementation decided *)
    let rm = if r = MOk then "ok" else "e" in
    let rs = match a with ABad -> "e" | ANone -> "ok" | AText _ -> rm in
    emit rm rs (if same then "=" else "!") c' (if rel && harness_made !c then 1 else 0) txt';
    c := c'; txt := txt' in
  let install c' = c := c'; txt := cell_text c'; emit "ok" "ok" "+" c' 0 !txt in
  let rec go = function
    | [] -> ()
    | ("s" | "v") :: h :: r -> set (AText (bytes_of_hex h)); go r
    | "i" :: r -> set ABad; go r
    | "0" :: r -> set ANone; go r
    | "obj" :: m :: r -> install (CObj (m = "a", None)); go r
    | "cfg" :: m :: r -> install (CCfg (m = "a", None)); go r
    | "it" :: m :: r -> install (CIter (m = "a", bytes_of_hex "6974")); go r
    | "view" :: _ :: r -> install CView; go r
    | t :: _ -> failwith ("bad op " ^ t) in
  go toks;
  Printf.printf "M %s%s\nS %s%s\n" id (Buffer.contents mt) id (Buffer.contents st)

(* kind N: mpt_node_locate / mpt_node_query on sibling lists with every kind of identifier *)
let run_locate id toks =
  let ident_of sp =
    let body = String.sub sp 1 (String.length sp - 1) in
    match sp.[0] with
    | 'n' -> ident_of_name (bytes_of_hex body)
    | 'z' -> ident_nameless (nat_of_int (int_of_string body))
    | _ -> (match String.split_on_char '.' body with
        | [cs; tag] -> (nat_of_int (int_of_string cs), IPtr (nat_of_int (int_of_string tag)))
        | _ -> failwith "bad pointer identifier") in
  let node_of tok = match String.index_opt tok '/' with
    | None -> LNode (ident_of tok, [])
    | Some k ->
      let subs = List.filter (fun x -> x <> "") (String.split_on_char ';' (String.sub tok (k + 1) (String.length tok - k - 1))) in
      LNode (ident_of (String.sub tok 0 k), List.map (fun x -> LNode (ident_of x, [])) subs) in
  match toks with
  | n :: rest ->
    let (nodes, ops) = split_n (int_of_string n) rest in
    let forest = List.map node_of nodes in
    let ids = List.map lid' forest in
    let mt = Buffer.create 256 and st = Buffer.create 256 in
    let trail_str t = String.concat "." (List.map (fun i -> string_of_int (int_of_nat i)) t) in
    let value_of t = "V" ^ venc (bytes_of_string ("v" ^ trail_str t)) in
    let rec go = function
      | [] -> ()
      | "loc" :: stt :: pos :: ks :: r ->
        let start = if stt = "~" then None else Some (nat_of_int (int_of_string stt)) in
        let pos = int_of_string pos in
        let lp = if pos > 0 then LFwd (nat_of_int pos) else if pos = 0 then LLast else LBwd (nat_of_int (- pos)) in
        let body = String.sub ks 1 (String.length ks - 1) in
        let key = match ks.[0] with
          | 'd' -> let b = bytes_of_hex body in { kcs = None; kptr = nat_of_int 99; kmem = b; klen = nat_of_int (List.length b) }
          | 'c' -> (match String.split_on_char '.' body with
              | [cs; h] -> let b = bytes_of_hex h in
                { kcs = Some (nat_of_int (int_of_string cs)); kptr = nat_of_int 99 (* the key's own buffer: no node's pointer *); kmem = b; klen = nat_of_int (List.length b) }
              | _ -> failwith "bad key")
          | 'p' -> (match String.split_on_char '.' body with
              | [cs; tag] -> { kcs = Some (nat_of_int (int_of_string cs)); kptr = nat_of_int (int_of_string tag); kmem = []; klen = O }
              | _ -> failwith "bad key")
          | _ -> { kcs = None; kptr = O; kmem = []; klen = nat_of_int (int_of_string body) } in
        (match node_locate ids start lp key with
         | LFound i -> Buffer.add_string mt (Printf.sprintf " i%d" (int_of_nat i))
         | LNone -> Buffer.add_string mt " n"
         | LEfault -> Buffer.add_string mt " f");
        (* specification: the k-th match in that direction; a NULL list or a NULL identifier with a length is refused *)
        let refused = (start = None) || (key.kptr = O && key.klen <> O) in
        (if refused then Buffer.add_string st " f"
         else match start with
           | Some s0 -> (match locate_kth ids s0 lp key with
               | Some i -> Buffer.add_string st (Printf.sprintf " i%d" (int_of_nat i))
               | None -> Buffer.add_string st " n")
           | None -> ());
        go r
      | "q" :: sep :: str :: r ->
        let sep = byte_of_hex sep in
        let sb = bytes_of_hex str in
        (match str_path (Some sb) sep N0 with
         | Done p ->
           (match lquery forest p with
            | Done (t, p') ->
              let ts = match t with None -> "-" | Some t -> trail_str t in
              let v = match t with Some t when int_of_nat p'.plen = 0 -> value_of t | _ -> "n" in
              Buffer.add_string mt (Printf.sprintf " q:%s|%d.%d|%s" ts (int_of_nat p'.poff - int_of_nat p.poff) (int_of_nat p'.plen) v)
            | _ -> Buffer.add_string mt " F")
         | _ -> Buffer.add_string mt " F");
        let k = str_key (Some sb) sep in
        let t = squery_l forest k in
        let v = if t <> [] && List.length t = List.length k then value_of t else "n" in
        Buffer.add_string st (Printf.sprintf " q:%s|%s" (if t = [] then "-" else trail_str t) v);
        go r
      | t :: _ -> failwith ("bad op " ^ t) in
    go ops;
    Printf.printf "M %s%s\nS %s%s\n" id (Buffer.contents mt) id (Buffer.contents st)
  | _ -> ()

let () =
  let ic = open_in Sys.argv.(1) in
  List.iter (fun line ->
    match split_ws line with
    | id :: "P" :: r -> run_path false id r
    | id :: "Q" :: r -> run_path true id r
    | id :: "M" :: r -> run_metaset id r
    | id :: "N" :: r -> run_locate id r
    | id :: "T" :: _ -> Printf.printf "M %s config.133.1.133.1\nS %s config.133.1.133.1\n" id id
    | id :: k :: r when k = "G" || k = "R" || k = "J" || k = "H" || k = "X" -> run_store k.[0] false id r
    | id :: k :: r when k = "Gc" || k = "Rc" || k = "Hc" || k = "Xc" -> run_store k.[0] true id r
    | _ -> ()) (read_lines ic)
