(* C06 driver: one case per line
     <id> <op> <args> ...
   prints "M <id> tok..." (mechanism model, TypesModel.run from reg0) and
   "S <id> tok..." (abstract specification, RegistrySpec.srun from sreg0: two finite
   maps and four counters, its own observation type; refusals carry no error kind
   and a sweep has no mechanism part, which is what props/c06.py:project leaves of
   an implementation token);  the token formats are documented in harness/c06_types.c. *)
let rec z_of_int i = if i = 0 then Z0 else if i > 0 then Zpos (pos_of_int i) else Zneg (pos_of_int (-i))
let int_of_z z = match z with Z0 -> 0 | Zpos p -> int_of_pos p | Zneg p -> - (int_of_pos p)

(* string tokens: "-" = NULL, "%" = empty string, '_' = space *)
let name_of_tok s =
  if s = "-" then None else if s = "%" then Some [] else
  Some (List.init (String.length s) (fun i -> let c = s.[i] in n_of_int (Char.code (if c = '_' then ' ' else c))))
let tok_of_name n = match n with
  | None -> "-"
  | Some [] -> "%"
  | Some l -> String.concat "" (List.map (fun b -> let c = Char.chr (int_of_n b) in String.make 1 (if c = ' ' then '_' else c)) l)

let int_of_tok s = int_of_string s   (* accepts 0x.. and negative numbers *)
(* ids may exceed OCaml's int (up to 2^64-1): hex tokens are converted bit by bit *)
let n_of_tok s =
  if String.length s > 2 && String.sub s 0 2 = "0x" then begin
    let acc = ref N0 in
    String.iteri (fun i c -> if i >= 2 then begin
      let d = int_of_string ("0x" ^ String.make 1 c) in
      for b = 3 downto 0 do
        let bit = (d lsr b) land 1 = 1 in
        acc := (match !acc with
                | N0 -> if bit then Npos XH else N0
                | Npos p -> Npos (if bit then XI p else XO p))
      done end) s;
    !acc end
  else n_of_int (int_of_string s)

(* a parsed operation: the model operations it expands to, and how many outputs are folded into one token *)
type pop = One of op | Rep of op list | Fin   (* Fin: process exit, see harness "fin" *)

let tag = ref 0
(* a case that starts with the marker "cxx" goes through the C++ wrappers of mpt++/type_traits_wrap.cpp:
   lookups by id are type_traits::get(int) = OpWrapTraits (signed argument), "ln <name> d" uses the default length *)
let cxx = ref false
let mk_traits size flags =
  let t = { ti_size = n_of_int size; ti_init = (flags land 1 <> 0); ti_fini = (flags land 2 <> 0);
            ti_tag = Some (n_of_int !tag) } in
  incr tag; t

let rec parse toks = match toks with
  | [] -> []
  | "cxx" :: r -> cxx := true; parse r
  | "lt" :: i :: r when !cxx -> One (OpWrapTraits (z_of_int (int_of_tok i))) :: parse r
  | "ln" :: n :: "d" :: r -> One (OpNamed (name_of_tok n, z_of_int (-1))) :: parse r
  | "ba" :: s :: r -> One (OpBasicAdd (n_of_int (int_of_tok s))) :: parse r
  | "ga" :: "null" :: r -> One (OpTypeAdd None) :: parse r
  | "ga" :: s :: f :: r ->
    let t = mk_traits (int_of_tok s) (int_of_tok f) in
    let rest = parse r in
    One (OpTypeAdd (Some t)) :: rest
  | "ia" :: n :: r -> One (OpIfaceAdd (name_of_tok n)) :: parse r
  | "ma" :: n :: r -> One (OpMetaAdd (name_of_tok n)) :: parse r
  | "baN" :: c :: s :: r ->
    Rep (List.init (int_of_tok c) (fun _ -> OpBasicAdd (n_of_int (int_of_tok s)))) :: parse r
  | "gaN" :: c :: s :: r ->
    (* tags are numbered in case order: build this op's traits before parsing the rest *)
    let rec mk k = if k = 0 then [] else let t = mk_traits (int_of_tok s) 0 in OpTypeAdd (Some t) :: mk (k - 1) in
    let l = mk (int_of_tok c) in
    let rest = parse r in
    Rep l :: rest
  | "iaN" :: c :: p :: r ->
    Rep (List.init (int_of_tok c) (fun i -> OpIfaceAdd (name_of_tok (p ^ string_of_int i)))) :: parse r
  | "maN" :: c :: p :: r ->
    Rep (List.init (int_of_tok c) (fun i -> OpMetaAdd (name_of_tok (p ^ string_of_int i)))) :: parse r
  | "lt" :: i :: r -> One (OpTraits (n_of_tok i)) :: parse r
  | "li" :: i :: r -> One (OpIface (n_of_tok i)) :: parse r
  | "lm" :: i :: r -> One (OpMeta (n_of_tok i)) :: parse r
  | "ln" :: n :: l :: r -> One (OpNamed (name_of_tok n, z_of_int (int_of_tok l))) :: parse r
  | "al" :: d :: e :: r -> One (OpAlias (name_of_tok d, e = "1")) :: parse r
  | "ti" :: n :: r -> One (OpTypeInt (n_of_int (int_of_tok n))) :: parse r
  | "tu" :: n :: r -> One (OpTypeUint (n_of_int (int_of_tok n))) :: parse r
  | "vs" :: f :: r -> One (OpFmtSize (n_of_int (int_of_tok f))) :: parse r
  | "vt" :: f :: r -> One (OpFmtType (n_of_int (int_of_tok f))) :: parse r
  | "vc" :: t :: r -> One (OpFmtCode (z_of_int (int_of_tok t))) :: parse r
  | "sw" :: r -> One OpSweep :: parse r
  | "fin" :: r -> Fin :: parse r
  | t :: _ -> failwith ("bad op " ^ t)

let code_of_err e = match e with
  | BadArgument -> -1 | BadValue -> -2 | BadType -> -3 | BadOperation -> -4 | BadEncoding -> -8
  | MissingData -> -16 | MissingBuffer -> -17 | ERange -> -100 | EInval -> -101
let str_of_eno e = match e with EINVAL -> "EINVAL" | ENOMEM -> "ENOMEM" | EAGAIN -> "EAGAIN"
let b01 b = if b then "1" else "0"

(* traits description; [id] given: the tag is shown relative to the id (constant along runs of a sweep) *)
let show_traits ?id t = match t with
  | None -> "N"
  | Some t ->
    Printf.sprintf "T:%d:%s%s%s" (int_of_n t.ti_size) (b01 t.ti_init) (b01 t.ti_fini)
      (match t.ti_tag, id with
       | None, _ -> ""
       | Some g, _ when int_of_n g >= 100000 -> ""     (* static object of a template instantiation (tpl cases) *)
       | Some g, None -> ":g" ^ string_of_int (int_of_n g)
       | Some g, Some i -> ":d" ^ string_of_int (int_of_n g - i))
let show_named e =
  Printf.sprintf "E:%x:%s:%s" (int_of_n e.ne_type) (tok_of_name e.ne_name)
    (match show_traits (Some e.ne_traits) with s -> String.sub s 2 (String.length s - 2))
let show_optid o = match o with None -> "-" | Some i -> Printf.sprintf "%x" (int_of_n i)

let rle items =
  (* items: (id, desc) in id order -> "a-b=desc,..." *)
  let buf = Buffer.create 256 in
  let flush a b d = if Buffer.length buf > 0 then Buffer.add_char buf ','; Buffer.add_string buf (Printf.sprintf "%x-%x=%s" a b d) in
  let rec go cur l = match cur, l with
    | None, [] -> ()
    | Some (a, b, d), [] -> flush a b d
    | None, (i, d) :: r -> go (Some (i, i, d)) r
    | Some (a, b, d), (i, d') :: r -> if d = d' then go (Some (a, i, d)) r else (flush a b d; go (Some (i, i, d')) r)
  in go None items; Buffer.contents buf

let show o = match o with
  | OId i -> Printf.sprintf "I:%x" (int_of_n i)
  | OCode e -> Printf.sprintf "R:%d" (code_of_err e)
  | ONamed e -> show_named e
  | ONull e -> "R:" ^ str_of_eno e
  | OTraits t -> show_traits t
  | OAlias (AliasErr e) -> Printf.sprintf "R:%d" (code_of_err e)
  | OAlias (AliasId (i, e)) -> Printf.sprintf "A:%x:%s" (int_of_n i) (match e with None -> "-" | Some k -> string_of_int (int_of_nat k))
  | ONum z -> Printf.sprintf "V:%d" (int_of_z z)
  | OSweep (tr, nm, (((ip, dp), mu), gu)) ->
    let items = List.mapi (fun i t -> (i, match t with Ok t -> show_traits ~id:i t | _ -> "F")) tr in
    let names = List.map (fun s -> Printf.sprintf "%x=%s>%s/%s" (int_of_n s.sw_id) (show_named s.sw_ent)
                                      (show_optid s.sw_full) (show_optid s.sw_exact)) nm in
    let ul l = String.concat "." (List.map (fun n -> string_of_int (int_of_nat n)) l) in
    Printf.sprintf "W:%s|X:%s|Z:%d:%d:%s:%s" (rle items) (String.concat "," names)
      (int_of_nat ip) (int_of_nat dp) (ul mu) (ul gu)
  | OFault -> "F"

(* ---- observations of the specification (RegistrySpec.sout) ---- *)
let show_sentry id n t =
  Printf.sprintf "E:%x:%s:%s" (int_of_n id) (tok_of_name n)
    (match show_traits (Some t) with s -> String.sub s 2 (String.length s - 2))
let show_s o = match o with
  | SId i -> Printf.sprintf "I:%x" (int_of_n i)
  | SEntry (id, n, t) -> show_sentry id n t
  | SRefused -> "R"
  | STraits t -> show_traits t
  | SAlias (i, e) -> Printf.sprintf "A:%x:%s" (int_of_n i) (match e with None -> "-" | Some k -> string_of_int (int_of_nat k))
  | SNum z -> Printf.sprintf "V:%d" (int_of_z z)
  | SSweep (tr, rows) ->
    let items = List.mapi (fun i t -> (i, show_traits ~id:i t)) tr in
    let names = List.map (fun w -> Printf.sprintf "%x=%s>%s/%s" (int_of_n w.sr_id) (show_sentry w.sr_type w.sr_name w.sr_info)
                                     (show_optid w.sr_full) (show_optid w.sr_exact)) rows in
    Printf.sprintf "W:%s|X:%s" (rle items) (String.concat "," names)
  | SFault -> "F"

let show_rep_s outs =
  let ids = List.filter_map (fun o -> match o with SId i -> Some (int_of_n i) | SEntry (i, _, _) -> Some (int_of_n i) | _ -> None) outs in
  let refs = List.filter (fun o -> match o with SId _ | SEntry _ -> false | _ -> true) outs in
  let rec consec l = match l with a :: (b :: _ as r) -> b = a + 1 && consec r | _ -> true in
  Printf.sprintf "N:%d:%s:%s:%s:%s" (List.length ids)
    (match ids with [] -> "-" | a :: _ -> Printf.sprintf "%x" a)
    (match List.rev ids with [] -> "-" | a :: _ -> Printf.sprintf "%x" a)
    (if consec ids then "c" else "n")
    (match refs with [] -> "-" | o :: _ -> show_s o)

(* fold the outputs of a repeated registration into one token:
   N:<accepted>:<first id>:<last id>:<c|n consecutive?>:<first refusal or -> *)
let show_rep outs =
  let ids = List.filter_map (fun o -> match o with OId i -> Some (int_of_n i) | ONamed e -> Some (int_of_n e.ne_type) | _ -> None) outs in
  let refs = List.filter (fun o -> match o with OId _ | ONamed _ -> false | _ -> true) outs in
  let rec consec l = match l with a :: (b :: _ as r) -> b = a + 1 && consec r | _ -> true in
  Printf.sprintf "N:%d:%s:%s:%s:%s" (List.length ids)
    (match ids with [] -> "-" | a :: _ -> Printf.sprintf "%x" a)
    (match List.rev ids with [] -> "-" | a :: _ -> Printf.sprintf "%x" a)
    (if consec ids then "c" else "n")
    (match refs with [] -> "-" | o :: _ -> show o)

let rec take n l = if n = 0 then ([], l) else match l with x :: r -> let (a, b) = take (n-1) r in (x :: a, b) | [] -> ([], [])

let render show show_rep pops outs =
  let rec go pops outs = match pops with
    | [] -> []
    | One _ :: r -> (match outs with o :: outs -> show o :: go r outs | [] -> ["<none>"])
    | Rep l :: r -> let (a, b) = take (List.length l) outs in show_rep a :: go r b
    | Fin :: _ -> []
  in go pops outs

(* a case is a sequence of process lives separated by "fin": every life starts from the fresh registry;
   the token of "fin": nothing leaked, nothing freed twice, nothing foreign freed, statics reset, and how many
   registered entries / chunks the clean-up releases (TypesModel.fini_counts of the state the life ended in);
   the specification has no blocks: it only requires the first four fields *)
let rec lives pops = match pops with
  | [] -> [([], false)]
  | Fin :: r -> ([], true) :: lives r
  | p :: r -> (match lives r with (l, f) :: t -> (p :: l, f) :: t | [] -> [([p], false)])

let ops_of pops = List.concat (List.map (fun p -> match p with One o -> [o] | Rep l -> l | Fin -> []) pops)

(* ---- cases with the marker "tpl": the template layer of types.h (TplModel.v), see harness/c06_tpl.cpp ---- *)
type tpop = TOne of top | TRep of top list | TTab
let rec tparse toks = match toks with
  | [] -> []
  | "tpl" :: r -> tparse r
  | "pi" :: k :: ob :: r -> TOne (TId (nat_of_int (int_of_tok k), ob <> "0")) :: tparse r
  | "pt" :: k :: r -> TOne (TTraits (nat_of_int (int_of_tok k))) :: tparse r
  | "pb" :: i :: r -> TOne (TBasetype (n_of_tok i)) :: tparse r
  | "pv" :: v :: r -> TOne (TToVector (z_of_int (int_of_tok v))) :: tparse r
  | "ps" :: v :: r -> TOne (TToScalar (z_of_int (int_of_tok v))) :: tparse r
  | "px" :: k :: r -> TOne (TBehave (nat_of_int (int_of_tok k))) :: tparse r
  | "tb" :: r -> TTab :: tparse r
  | _ ->
    (* one operation of the wrappers: parse exactly one *)
    let arity = (match List.hd toks with "ga" when List.nth toks 1 = "null" -> 1 | "gaN" | "ga" | "ln" -> 2 | _ -> 1) in
    let (a, b) = take_toks (arity + 1) toks in
    (match parse a with
     | [One o] -> let rest = tparse b in TOne (TBase o) :: rest
     | [Rep l] -> let rest = tparse b in TRep (List.map (fun o -> TBase o) l) :: rest
     | _ -> failwith "bad tpl op")
and take_toks n l = if n = 0 then ([], l) else match l with x :: r -> let (a, b) = take_toks (n - 1) r in (x :: a, b) | [] -> ([], [])

let rel_tok r = match r with RSame -> "c" | RDiff -> "d" | RNoId -> "u"
let show_tout sh shrep ~refcode pop outs = match pop, outs with
  | TOne (TBase _), [TOut x] -> sh x
  | TRep _, _ -> shrep (List.filter_map (fun o -> match o with TOut x -> Some x | _ -> None) outs)
  | TOne (TId _), [TInt z] -> Printf.sprintf "I:%x" (int_of_z z)
  | TOne (TId _), [TRef c] -> if refcode then Printf.sprintf "R:%d" (int_of_z c) else "R"
  | TOne (TTraits _), [TTr (t, r)] ->
    (match t with
     | None -> "N:" ^ rel_tok r
     | Some t -> Printf.sprintf "T:%d:%s%s:%s" (int_of_n t.ti_size) (b01 t.ti_init) (b01 t.ti_fini) (rel_tok r))
  | TOne _, [TInt z] -> Printf.sprintf "V:%d" (int_of_z z)
  | _ -> "?"
let table_tok () =
  "B:" ^ String.concat "," (List.map (fun s -> match s with
    | TFixed (_, sz) -> string_of_int (int_of_n sz)
    | TGen t | TSpanC (_, t) -> string_of_int (int_of_n t.ti_size)) g_slots)
let trender sh shrep ~refcode pops outs =
  let rec go pops outs = match pops with
    | [] -> []
    | TTab :: r -> table_tok () :: go r outs
    | (TOne _ as p) :: r -> (match outs with o :: outs -> show_tout sh shrep ~refcode p [o] :: go r outs | [] -> ["<none>"])
    | (TRep l as p) :: r -> let (a, b) = take (List.length l) outs in show_tout sh shrep ~refcode p a :: go r b
  in go pops outs
let tops_of pops = List.concat (List.map (fun p -> match p with TOne o -> [o] | TRep l -> l | TTab -> []) pops)

let () =
  let ic = open_in Sys.argv.(1) in
  List.iter (fun line ->
    match split_ws line with
    | id :: "tpl" :: toks ->
      tag := 0; cxx := true;
      let pops = tparse toks in
      let ops = tops_of pops in
      let mtoks = trender show show_rep ~refcode:true pops (mtrun (t0 reg0) ops) in
      let stoks = trender show_s show_rep_s ~refcode:false pops (strun (t0 sreg0) ops) in
      Printf.printf "M %s %s\n" id (String.concat " " mtoks);
      Printf.printf "S %s %s\n" id (String.concat " " stoks)
    | id :: toks ->
      tag := 0; cxx := false;
      let pops = parse toks in
      let ls = lives pops in
      let mtoks = List.concat (List.map (fun (l, fin) ->
        let ops = ops_of l in
        render show show_rep l (run reg0 ops) @
        (if fin then
           let ((ie, me), gc) = fini_counts (exec reg0 ops) in
           [Printf.sprintf "X:0:0:0:1:%d:%d:%d" (int_of_nat ie) (int_of_nat me) (int_of_nat gc)]
         else [])) ls) in
      let stoks = List.concat (List.map (fun (l, fin) ->
        render show_s show_rep_s l (srun sreg0 (ops_of l)) @ (if fin then ["X:0:0:0:1:*"] else [])) ls) in
      Printf.printf "M %s %s\n" id (String.concat " " mtoks);
      Printf.printf "S %s %s\n" id (String.concat " " stoks)
    | _ -> ()) (read_lines ic)
