(* C15 driver: one case per line
     <id> c|x|g <op> <args> ...    object histories (C harness / C++ harness: reference<Obj> / reference<metatype>)
     <id> r|y <cop> <args> ...     the bare counter (C functions / C++ wrapper)
   prints "M <id> tok..." (mechanism model) and "S <id> tok..." (specification).
   token of an object history step:  <out>|<objects>|<slots>|<events>   (S: no events)
     out      X not performed (harness precondition), D done, E refused, R<hex> returned value
     objects  per created object: <hex count> counted and alive, u unique alive, s static, x destroyed
     slots    i:o for every slot i holding a handle on object o
     events   a<o> u<o> d<o>  addref / unref / destroy calls seen by harness-implemented vtables
   last token: L0 | L1 (an object neither freed nor reachable), F after a fault
     <id> n <op> <args> ...        linked nodes (reference<node>, every node owns a reference<node> next):
                                   objects  <hex count>[><id of the object next refers to>] | x *)
let hexdigit c = match c with
  | '0'..'9' -> Char.code c - 48 | 'a'..'f' -> Char.code c - 87 | 'A'..'F' -> Char.code c - 55
  | _ -> failwith "hex"
(* bits, most significant first *)
let n_of_hex s =
  let bits = List.concat (List.map (fun c -> let d = hexdigit c in
      [d land 8 <> 0; d land 4 <> 0; d land 2 <> 0; d land 1 <> 0]) (List.init (String.length s) (String.get s))) in
  let rec go acc bs = match bs with
    | [] -> acc
    | b :: r -> (match acc with
        | None -> go (if b then Some XH else None) r
        | Some p -> go (Some (if b then XI p else XO p)) r) in
  match go None bits with None -> N0 | Some p -> Npos p
let hex_of_n n =
  let rec bits p = match p with XH -> [true] | XO q -> false :: bits q | XI q -> true :: bits q in
  match n with
  | N0 -> "0"
  | Npos p ->
    let b = Array.of_list (bits p) in   (* least significant first *)
    let nd = (Array.length b + 3) / 4 in
    String.init nd (fun i ->
      let k = nd - 1 - i in
      let v = ref 0 in
      for j = 3 downto 0 do
        let idx = 4 * k + j in
        v := 2 * !v + (if idx < Array.length b && b.(idx) then 1 else 0)
      done;
      "0123456789abcdef".[!v])

let nat s = nat_of_int (int_of_string s)
let kind_of s = match s with
  | "buf" -> KBuf | "hbuf" -> KHBuf | "hcnt" -> KHCnt | "huni" -> KHUni | "gen" -> KGen | "mbuf" -> KMetaBuf
  | "cfg" -> KCfg | "top" -> KCfgTop | "reply" -> KReply | "raw" -> KRaw | "stream" -> KStream | "cxx" -> KCxx
  | "iterf" -> KIterFd | "itern" -> KIterName | "xgen" -> KXGen | "stage" -> KStage
  | _ -> failwith ("bad kind " ^ s)

let rec parse_ops toks = match toks with
  | [] -> []
  | "new" :: k :: d :: r -> ONew (kind_of k, nat d) :: parse_ops r
  | "mbuf" :: a :: d :: r -> OMetaBuf (nat a, nat d) :: parse_ops r
  | "addref" :: s :: d :: r -> OAddref (nat s, nat d) :: parse_ops r
  | "unref" :: s :: r -> OUnref (nat s) :: parse_ops r
  | "clone" :: s :: d :: r -> OClone (nat s, nat d) :: parse_ops r
  | "conv" :: s :: d :: r -> OConv (nat s, nat d) :: parse_ops r
  | "rinit" :: v :: s :: d :: r -> ORefInit (nat v, nat s, nat d) :: parse_ops r
  | "rfini" :: v :: d :: r -> ORefFini (nat v, nat d) :: parse_ops r
  | "rcopy" :: r -> ORefCopy :: parse_ops r
  | "aclone" :: s :: d :: r -> OArrClone (nat s, nat d) :: parse_ops r
  | "aclear" :: d :: r -> OArrClear (nat d) :: parse_ops r
  | "detach" :: a :: r -> ODetach (nat a) :: parse_ops r
  | "detachf" :: a :: r -> ODetachF (nat a) :: parse_ops r
  | "setin" :: m :: a :: r -> OSetInner (nat m, nat a) :: parse_ops r
  | "defer" :: s :: d :: r -> ODefer (nat s, nat d) :: parse_ops r
  | "force" :: s :: v :: r -> OForce (nat s, n_of_hex v) :: parse_ops r
  | "unforce" :: r -> OUnforce :: parse_ops r
  | "xnew" :: d :: r -> XNew (nat d) :: parse_ops r
  | "xassign" :: s :: d :: r -> XAssign (nat s, nat d) :: parse_ops r
  | "xcopy" :: s :: d :: r -> XCopy (nat s, nat d) :: parse_ops r
  | "xmove" :: s :: d :: r -> XMove (nat s, nat d) :: parse_ops r
  | "xdetach" :: s :: d :: r -> XDetach (nat s, nat d) :: parse_ops r
  | "xset" :: s :: d :: r -> XSetInst (nat s, nat d) :: parse_ops r
  | "xdrop" :: d :: r -> XDrop (nat d) :: parse_ops r
  | "xgen" :: d :: r -> XGen (nat d) :: parse_ops r
  | "xclone" :: s :: d :: r -> XClone (nat s, nat d) :: parse_ops r
  (* modify m <dim> <form>: forms 0..2 store a value (the dimension and the value form do not matter for the
     references), forms 3.. are refused before anything is touched *)
  | "modify" :: m :: _ :: f :: r ->
    (if int_of_string f < 3 then ORawModify (nat m) else ORawCall (nat m, true)) :: parse_ops r
  | "advance" :: m :: r -> ORawAdvance (nat m) :: parse_ops r
  | "rget" :: m :: a :: r -> ORawGet (nat m, nat a) :: parse_ops r
  | "rread" :: m :: r -> ORawCall (nat m, false) :: parse_ops r
  | "rconv" :: m :: r -> ORawCall (nat m, false) :: parse_ops r   (* conversion to the own interface by type id: no reference taken *)
  | t :: _ -> failwith ("bad op " ^ t)

(* family n: linked nodes (coq/C15/ChainModel.v) *)
let rec parse_nops toks = match toks with
  | [] -> []
  | "xnew" :: d :: r -> NNew (nat d) :: parse_nops r
  | "xassign" :: s :: d :: r -> NAssign (nat s, nat d) :: parse_nops r
  | "xcopy" :: s :: d :: r -> NCopy (nat s, nat d) :: parse_nops r
  | "xmove" :: s :: d :: r -> NMove (nat s, nat d) :: parse_nops r
  | "xdetach" :: s :: d :: r -> NDetach (nat s, nat d) :: parse_nops r
  | "xset" :: s :: d :: r -> NSetInst (nat s, nat d) :: parse_nops r
  | "xdrop" :: d :: r -> NDrop (nat d) :: parse_nops r
  | "addref" :: s :: d :: r -> NAddref (nat s, nat d) :: parse_nops r
  | "unref" :: s :: r -> NUnref (nat s) :: parse_nops r
  | "xsetnext" :: s :: d :: r -> NSetNext (nat s, nat d) :: parse_nops r
  | "xnext" :: s :: d :: r -> NNext (nat s, nat d) :: parse_nops r
  | t :: _ -> failwith ("bad node op " ^ t)

(* family p: deferrable reply context (coq/C15/ReplyModel.v); detached-reply slots are written 9..11 *)
let dsl s = nat_of_int (int_of_string s - 9)
let rec parse_pops toks = match toks with
  | [] -> []
  | "pnew" :: d :: m :: r -> PNew (nat d, n_of_hex m) :: parse_pops r
  | "pset" :: s :: l :: i :: r -> PSet (nat s, n_of_hex l, n_of_hex i) :: parse_pops r
  | "pdefer" :: s :: d :: r -> PDefer (nat s, dsl d) :: parse_pops r
  | "psend" :: s :: m :: r -> PSend (nat s, m <> "0") :: parse_pops r
  | "preply" :: d :: m :: r -> PReply (dsl d, m <> "0") :: parse_pops r
  | "paddref" :: s :: d :: r -> PAddref (nat s, nat d) :: parse_pops r
  | "punref" :: s :: r -> PUnref (nat s) :: parse_pops r
  | "pfail" :: b :: r -> PFail (b <> "0") :: parse_pops r
  | t :: _ -> failwith ("bad reply op " ^ t)

let rec parse_cops toks = match toks with
  | [] -> []
  | "set" :: v :: r -> CSet (n_of_hex v) :: parse_cops r
  | "raise" :: r -> CRaise :: parse_cops r
  | "lower" :: r -> CLower :: parse_cops r
  | t :: _ -> failwith ("bad counter op " ^ t)

let show_out o = match o with OX -> "X" | OD -> "D" | OE -> "E" | ORet n -> "R" ^ hex_of_n n
let show_disp d = match d with DCnt n -> hex_of_n n | DUni -> "u" | DSta -> "s" | DDead -> "x"
let show_ev e = match e with
  | EAdd o -> "a" ^ string_of_int (int_of_nat o)
  | EUnr o -> "u" ^ string_of_int (int_of_nat o)
  | EDel o -> "d" ^ string_of_int (int_of_nat o)
let dash s = if s = "" then "-" else s
let show_slots h =
  dash (String.concat "," (List.concat (List.mapi (fun i v -> match v with
    | Some o -> [Printf.sprintf "%d:%d" i (int_of_nat o)] | None -> []) h)))
let show_ndisp d = match d with
  | NDead -> "x"
  | NLive (c, None) -> hex_of_n c
  | NLive (c, Some b) -> hex_of_n c ^ ">" ^ string_of_int (int_of_nat b)
let show_nobs with_ev o = match o with
  | NObsFault -> "F"
  | NObs (t, d, h, e) ->
    show_out t ^ "|" ^ dash (String.concat "," (List.map show_ndisp d)) ^ "|" ^ show_slots h
    ^ (if with_ev then "|" ^ dash (String.concat "" (List.map show_ev e)) else "")
let show_obs with_ev o = match o with
  | ObsFault -> "F"
  | Obs (t, d, h, e) ->
    show_out t ^ "|" ^ dash (String.concat "," (List.map show_disp d)) ^ "|" ^ show_slots h
    ^ (if with_ev then "|" ^ dash (String.concat "" (List.map show_ev e)) else "")

(* family p token: <out>[;s<ctx>:<len>:<id>[m]]*|<contexts>|<slots>|-
     out       X not performed, D done, E refused (null / BadValue), R<hex> result >= 0, N<hex> result -<hex>
     send      one per call of the send callback: context id, id length, id, m = with a message
     contexts  x destroyed | <hex count>.<e target set|d target cleared>.<len>:<id> | ... .-  (nothing pending)
     slots     i:o metatype slot, i:o/<len>:<id> detached reply (context it refers to, the id it answers) *)
let show_pres r = match r with
  | PX -> "X" | PD -> "D" | PE -> "E" | PR n -> "R" ^ hex_of_n n | PNeg n -> "N" ^ hex_of_n n
let show_pend p = match p with None -> "-" | Some (l, i) -> hex_of_n l ^ ":" ^ hex_of_n i
let show_send e = Printf.sprintf ";s%d:%s:%s%s" (int_of_nat e.sv_obj) (hex_of_n e.sv_len) (hex_of_n e.sv_id) (if e.sv_msg then "m" else "")
let show_pdisp d = match d with
  | PDead -> "x"
  | PLive (c, snd, p) -> hex_of_n c ^ "." ^ (if snd then "e" else "d") ^ "." ^ show_pend p
let show_pobs o = match o with
  | PObsFault -> "F"
  | PObs (r, e, d, m, h) ->
    let ms = List.concat (List.mapi (fun i v -> match v with
      | Some o -> [Printf.sprintf "%d:%d" i (int_of_nat o)] | None -> []) m) in
    let hs = List.concat (List.mapi (fun i v -> match v with
      | Some (o, p) -> [Printf.sprintf "%d:%d/%s" (i + 9) (int_of_nat o) (show_pend p)] | None -> []) h) in
    show_pres r ^ String.concat "" (List.map show_send e) ^ "|" ^ dash (String.concat "," (List.map show_pdisp d))
    ^ "|" ^ dash (String.concat "," (ms @ hs)) ^ "|-"

let () =
  let ic = open_in Sys.argv.(1) in
  List.iter (fun line ->
    match split_ws line with
    | id :: ("c" | "x" | "g") :: ops ->
      let ops = parse_ops ops in
      let (mo, mf) = mrun init ops in
      let ml = match mf with Some s -> [if leaked s then "L1" else "L0"] | None -> [] in
      Printf.printf "M %s %s\n" id (String.concat " " (List.map (show_obs true) mo @ ml));
      let (so, sf) = srun sinit ops in
      Printf.printf "S %s %s\n" id
        (String.concat " " (List.map (show_obs false) so @ [if sleaked sf then "L1" else "L0"]))
    | id :: "n" :: ops ->
      let ops = parse_nops ops in
      let (mo, mf) = nrun ninit ops in
      let ml = match mf with Some s -> [if nleaked s then "L1" else "L0"] | None -> [] in
      Printf.printf "M %s %s\n" id (String.concat " " (List.map (show_nobs true) mo @ ml));
      let (so, sf) = csrun csinit ops in
      Printf.printf "S %s %s\n" id
        (String.concat " " (List.map (show_nobs false) so @ [if csleaked sf then "L1" else "L0"]))
    | id :: "p" :: ops ->
      let ops = parse_pops ops in
      let (mo, mf) = prun pinit ops in
      let ml = match mf with Some s -> [if pleaked s then "L1" else "L0"] | None -> [] in
      Printf.printf "M %s %s\n" id (String.concat " " (List.map show_pobs mo @ ml));
      let (so, sf) = psrun psinit ops in
      Printf.printf "S %s %s\n" id
        (String.concat " " (List.map show_pobs so @ [if psleaked sf then "L1" else "L0"]))
    | id :: ("r" | "y") :: ops ->
      let ops = parse_cops ops in
      let show (ret, v) = hex_of_n ret ^ "|" ^ hex_of_n v in
      Printf.printf "M %s %s\n" id (String.concat " " (List.map show (crun (n_of_int 1) ops)));
      Printf.printf "S %s %s\n" id (String.concat " " (List.map show (scrun (n_of_int 1) ops)))
    | _ -> ()) (read_lines ic)
