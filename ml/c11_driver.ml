(* C11 driver: one case per line
     <id> <op> <args> ...
   ops:  set|xset <id>   unset <id>   cset <id> <0|1>   get|xget <id>   clear
         res|xres <max>  emit|hash <ev> <rsp>  serr <0|1>  sdef <id>  ctx  fini|xfini  xarr
         beside the dispatcher: djb|djs <hex>  djn <len>  lrep <msg>  rset <max> <cur> <data>  rzero <max> <cur> <len>
         rdefer  rtraits  xcopy  unk <ev>  cinit <n|0|1>
   ids are hex (up to 64 bit); ev = N | <id>:<msg>:<reply>, msg = n | f<hex>,<hex>,..,
   reply = 0 | tag; rsp = <ret>:<newid | ->.
   prints "M <id> tok..." (mechanism model) and "S <id> tok..." (specification);
   token = <result>|<log delta>|<_def>|<_err>|<_ctx>|<table or map>. *)
let z_of_int n = if n = 0 then Z0 else if n > 0 then Zpos (pos_of_int n) else Zneg (pos_of_int (-n))
let int_of_z z = match z with Z0 -> 0 | Zpos p -> int_of_pos p | Zneg p -> - (int_of_pos p)
let unhex s = if s = "-" || s = "" then [] else bytes_of_hex s

(* 64-bit ids do not fit an OCaml int: digit-wise conversion *)
let rec pos_bits p = match p with XH -> [1] | XO q -> 0 :: pos_bits q | XI q -> 1 :: pos_bits q
let hex_of_n n = match n with
  | N0 -> "0"
  | Npos p ->
    let bits = Array.of_list (pos_bits p) in
    let nb = Array.length bits in
    let nd = (nb + 3) / 4 in
    String.init nd (fun k ->
      let d = nd - 1 - k in
      let v = ref 0 in
      for j = 3 downto 0 do
        let i = 4 * d + j in
        v := 2 * !v + (if i < nb then bits.(i) else 0)
      done;
      "0123456789abcdef".[!v])
let n_double n = match n with N0 -> N0 | Npos p -> Npos (XO p)
let n_succ_double n = match n with N0 -> Npos XH | Npos p -> Npos (XI p)
let n_of_hex s =
  let acc = ref N0 in
  String.iter (fun c ->
    let v = int_of_string ("0x" ^ String.make 1 c) in
    for j = 3 downto 0 do
      acc := if (v lsr j) land 1 = 1 then n_succ_double !acc else n_double !acc
    done) s;
  !acc
let dec_of_n n = string_of_int (int_of_n n)

let parse_frags s =
  if s = "n" then None else
  Some (List.map unhex (String.split_on_char ',' (String.sub s 1 (String.length s - 1))))
let parse_ev s =
  if s = "N" then None else
  match String.split_on_char ':' s with
  | [id; m; rp] -> Some { e_id = n_of_hex id; e_msg = parse_frags m;
                          e_reply = (if rp = "0" then None else Some (n_of_int (int_of_string rp))) }
  | _ -> failwith ("bad event " ^ s)
let parse_rsp s =
  match String.split_on_char ':' s with
  | [r; i] -> { r_ret = z_of_int (int_of_string r); r_setid = (if i = "-" then None else Some (n_of_hex i)) }
  | _ -> failwith ("bad response " ^ s)

(* operation and the name it was written with (x.. = C++ wrapper, same model operation) *)
let rec parse_ops toks = match toks with
  | [] -> []
  | ("set" | "xset" as t) :: i :: r -> (t, OSet (n_of_hex i)) :: parse_ops r
  | "unset" :: i :: r -> ("unset", OUnset (n_of_hex i)) :: parse_ops r
  | "cset" :: i :: h :: r -> ("cset", OCmdSet (n_of_hex i, h = "1")) :: parse_ops r
  | ("get" | "xget" as t) :: i :: r -> (t, OGet (n_of_hex i)) :: parse_ops r
  | "clear" :: r -> ("clear", OClear) :: parse_ops r
  | ("res" | "xres" as t) :: m :: r -> (t, OReserve (n_of_int (int_of_string m))) :: parse_ops r
  | "emit" :: e :: p :: r -> ("emit", OEmit (parse_ev e, parse_rsp p)) :: parse_ops r
  | "hash" :: e :: p :: r -> ("hash", OHash (parse_ev e, parse_rsp p)) :: parse_ops r
  | "serr" :: h :: r -> ("serr", OSetErr (h = "1")) :: parse_ops r
  | "sdef" :: i :: r -> ("sdef", OSetDef (n_of_hex i)) :: parse_ops r
  | "ctx" :: r -> ("ctx", OSetCtx) :: parse_ops r
  | ("fini" | "xfini" as t) :: r -> (t, OFini) :: parse_ops r
  | "xarr" :: r -> ("xarr", OArr) :: parse_ops r
  | "djb" :: h :: r -> ("djb", OAux (ADjbLen (unhex h))) :: parse_ops r
  | "djs" :: h :: r -> ("djs", OAux (ADjbStr (unhex h))) :: parse_ops r
  | "djn" :: l :: r -> ("djn", OAux (ADjbNull (z_of_int (int_of_string l)))) :: parse_ops r
  | "lrep" :: m :: r -> ("lrep", OAux (ALogReply (parse_frags m))) :: parse_ops r
  | "rset" :: mx :: c :: d :: r ->
    ("rset", OAux (ARSet (n_of_int (int_of_string mx), unhex c, unhex d))) :: parse_ops r
  | "rzero" :: mx :: c :: l :: r ->
    ("rzero", OAux (ARZero (n_of_int (int_of_string mx), unhex c, nat_of_int (int_of_string l)))) :: parse_ops r
  | "rdefer" :: r -> ("rdefer", OAux ADefer) :: parse_ops r
  | "rtraits" :: r -> ("rtraits", OAux ATraits) :: parse_ops r
  | "xcopy" :: r -> ("xcopy", OAux ACopy) :: parse_ops r
  | "cinit" :: w :: r ->
    ("cinit", OAux (ACmdInit (if w = "n" then None else Some (w = "1")))) :: parse_ops r
  | "unk" :: e :: r ->
    (match parse_ev e with
     | Some ev -> ("unk", OAux (AUnknown (ev.e_id, ev.e_msg, ev.e_reply))) :: parse_ops r
     | None -> failwith "unk needs an event")
  | t :: _ -> failwith ("bad op " ^ t)

let fn_char f = match f with FUser -> "h" | FLog -> "L" | FUnk -> "U"
let optn o = match o with None -> "-" | Some n -> dec_of_n n
let show_hdl h = fn_char h.hf ^ dec_of_n h.ha
let show_slot s = hex_of_n s.sid ^ "." ^ (match s.scmd with None -> "0" | Some f -> fn_char f) ^ "." ^ dec_of_n s.sarg

let show_entry e = match e with
  | LReg _ -> None
  | LCall (_, FUser, a, None) -> Some ("f" ^ dec_of_n a)
  | LCall (_, FUser, a, Some v) ->
    Some (Printf.sprintf "c%s:%s:%s:%s" (dec_of_n a) (hex_of_n v.v_id) (if v.v_msg then "m" else "n") (optn v.v_reply))
  | LCall (_, _, _, _) -> None     (* built-in handlers are not observed *)
  | LReply (c, z) -> Some (Printf.sprintf "R%s:%d" (dec_of_n c) (int_of_z z))
  | LUnref c -> Some ("u" ^ dec_of_n c)
let show_log lg =
  match List.filter_map show_entry lg with [] -> "-" | l -> String.concat "," l

let show_err e = match e with None -> "-" | Some h -> (match h.hf with FUnk -> "U" | _ -> show_hdl h)
let show_ctx c = match c with None -> "-" | Some c -> "c" ^ dec_of_n c
let show_ev z i rp =
  Printf.sprintf "e%d:%s:%s" (int_of_z z) (match i with None -> "-" | Some i -> hex_of_n i) (optn rp)

let show_aux x = match x with
  | XHash h -> "x" ^ hex_of_n h
  | XInt z -> "L" ^ string_of_int (int_of_z z)
  | XBool b -> if b then "b1" else "b0"
  | XRData (ok, len, v) -> Printf.sprintf "d%d:%s:%s" (if ok then 1 else 0) (dec_of_n len) (hex_of_bytes v)
  | XUnk (ret, id) -> Printf.sprintf "w%d:%s" (int_of_z ret) (hex_of_n id)
  | XInit (ret, z) -> Printf.sprintf "t%d:%s" (int_of_z ret) (if z then "z" else "u")

let show_out t o = match o with
  | OInt z ->
    let z = int_of_z z in
    (match t with
     | "xset" -> if z >= 0 then "b1" else "b0"
     | "unset" -> "p" ^ string_of_int z
     | "cset" -> "k" ^ string_of_int z
     | _ -> "r" ^ string_of_int z)
  | OBool b -> if b then "b1" else "b0"
  | OSlot None -> "g-"
  | OSlot (Some (pos, s)) -> Printf.sprintf "g%d:%s%s" (int_of_nat pos) (match s.scmd with None -> "0" | Some f -> fn_char f) (dec_of_n s.sarg)
  | ORes None -> "i-"
  | ORes (Some (pos, id)) -> Printf.sprintf "i%d:%s" (int_of_nat pos) (hex_of_n id)
  | OEv (z, i, rp) -> show_ev z i rp
  | OVoid -> "v"
  | OAuxR x -> show_aux x
  | OFault -> "F"
  | OFuel -> "FUEL"

let show_sout t o = match o with
  | SOk -> if t = "xset" then "b1" else "ok"
  | SDel -> "del"
  | SErr z -> if t = "xset" then "b0" else "E" ^ string_of_int (int_of_z z)
  | SHdl None -> "g-"
  | SHdl (Some h) -> "g" ^ show_hdl h
  | SRes None -> "i-"
  | SRes (Some id) -> "i" ^ hex_of_n id
  | SEv (z, i, rp) -> show_ev z i rp
  | SBool b -> if b then "b1" else "b0"
  | SVoid -> "v"
  | SAux x -> show_aux x
  | SBad -> "BAD"

let show_tbl t = match t with
  | None -> "-"
  | Some tb -> (if tb.typed then "T:" else "R:") ^ String.concat ";" (List.map show_slot tb.slots)

let cmp_hex a b =
  if String.length a <> String.length b then compare (String.length a) (String.length b) else compare a b
let show_map m =
  let l = List.map (fun (k, h) -> (hex_of_n k, h)) m in
  let l = List.sort (fun (a, _) (b, _) -> cmp_hex a b) l in
  "M:" ^ String.concat ";" (List.map (fun (k, h) -> k ^ "." ^ fn_char h.hf ^ "." ^ dec_of_n h.ha) l)

let () =
  let ic = open_in Sys.argv.(1) in
  List.iter (fun line ->
    match split_ws line with
    | id :: toks ->
      let nops = parse_ops toks in
      let names = List.map fst nops and ops = List.map snd nops in
      let mr = drun dinit ops and sr = srun dinit sinit ops in
      let mt = List.map2 (fun t ((o, lg), d) ->
        String.concat "|" [show_out t o; show_log lg; hex_of_n d.d_def; show_err d.d_err; show_ctx d.d_ctx; show_tbl d.d_tbl]) names mr in
      let st = List.map2 (fun t ((o, lg), s) ->
        String.concat "|" [show_sout t o; show_log lg; hex_of_n s.s_def; show_err s.s_fb; show_ctx s.s_ctx; show_map s.s_map]) names sr in
      Printf.printf "M %s %s\n" id (String.concat " " mt);
      Printf.printf "S %s %s\n" id (String.concat " " st)
    | _ -> ()) (read_lines ic)
