(* C13 driver: one case per line
     <id> <max> <off> <contents-hex> <op> <args> ... 
   prints "M <id> tok..." (mechanism model) and "S <id> tok..." (specification). *)
let rec parse_ops toks = match toks with
  | [] -> []
  | "push" :: h :: r -> OpPush (bytes_of_hex h) :: parse_ops r
  | "unshift" :: h :: r -> OpUnshift (bytes_of_hex h) :: parse_ops r
  | "pop" :: n :: d :: r -> OpPop (nat_of_int (int_of_string n), d = "1") :: parse_ops r
  | "shift" :: n :: d :: r -> OpShift (nat_of_int (int_of_string n), d = "1") :: parse_ops r
  | "crop" :: p :: n :: r -> OpCrop (nat_of_int (int_of_string p), nat_of_int (int_of_string n)) :: parse_ops r
  | "get" :: p :: n :: r -> OpGet (nat_of_int (int_of_string p), nat_of_int (int_of_string n)) :: parse_ops r
  | "set" :: p :: h :: r -> OpSet (nat_of_int (int_of_string p), bytes_of_hex h) :: parse_ops r
  | "setz" :: p :: n :: r -> OpSet (nat_of_int (int_of_string p), List.init (int_of_string n) (fun _ -> N0)) :: parse_ops r
  | "align" :: p :: r -> OpAlign (nat_of_int (int_of_string p)) :: parse_ops r
  | "resize" :: n :: r -> OpResize (nat_of_int (int_of_string n), n_of_int 0xee) :: parse_ops r
  | "prepare" :: n :: r -> OpPrepare (nat_of_int (int_of_string n), n_of_int 0xee) :: parse_ops r
  | "find" :: e :: k :: r -> OpFind (nat_of_int (int_of_string e), n_of_int (int_of_string k)) :: parse_ops r
  | "string" :: r -> OpString :: parse_ops r
  | t :: _ -> failwith ("bad op " ^ t)

let show_out o = match o with
  | ODone -> "D"
  | OBytes d -> "B:" ^ hex_of_bytes d
  | OPos None -> "P:-"
  | OPos (Some k) -> "P:" ^ string_of_int (int_of_nat k)
  | ORefused _ -> "R"
  | OFault -> "F"

let show ((o, c), m) = show_out o ^ "|" ^ hex_of_bytes c ^ "|" ^ string_of_int (int_of_nat m)

let () =
  let ic = open_in Sys.argv.(1) in
  List.iter (fun line ->
    match split_ws line with
    | id :: mx :: off :: cont :: ops ->
      let mx = int_of_string mx and off = int_of_string off in
      let c = Array.of_list (bytes_of_hex cont) in
      let buf = Array.make mx (n_of_int 0xee) in
      Array.iteri (fun i b -> buf.((off + i) mod mx) <- b) c;
      let q = { qbuf = Array.to_list buf; qlen = nat_of_int (Array.length c);
                qmax = nat_of_int mx; qoff = nat_of_int off } in
      let ops = parse_ops ops in
      Printf.printf "M %s %s\n" id (String.concat " " (List.map show (qrun q ops)));
      Printf.printf "S %s %s\n" id (String.concat " " (List.map show (srun q (abs q) ops)))
    | _ -> ()) (read_lines ic)
