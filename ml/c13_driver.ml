(* C13 driver: one case per line
     <id> <max> <off> <contents-hex> <op> <args> ... 
   prints "M <id> tok..." (mechanism model) and "S <id> tok..." (specification).
   Four kinds of cases (see harness/c13_cxx.cpp):
     - C operations and io::queue methods (io...) on one queue: qrun / srun
     - raw encode_queue (first operation starts with 'e'): erun / esrun
     - raw decode_queue (first operation is dset): drun / dsrun
     - xround: a message through encode_queue(COBS) -> decode_queue(COBS).  No model exists
       for this layer (the codec belongs to C01/C02): M and S are the specification only,
       "the message comes out as it went in, both rings end up empty". *)
let fill = n_of_int 0xee
let nat s = nat_of_int (int_of_string s)
let rec chunks d part cnt =
  if cnt <= 0 then [] else
  let rec take k l = if k = 0 then ([], l) else match l with [] -> ([], []) | x :: r -> let (a, b) = take (k-1) r in (x :: a, b) in
  let (a, b) = take part d in a :: chunks b part (cnt - 1)
let rec parse_ops toks = match toks with
  | [] -> []
  | "push" :: h :: r -> OpPush (bytes_of_hex h) :: parse_ops r
  | "unshift" :: h :: r -> OpUnshift (bytes_of_hex h) :: parse_ops r
  | "pop" :: n :: d :: r -> OpPop (nat_of_int (int_of_string n), d = "1") :: parse_ops r
  | "shift" :: n :: d :: r -> OpShift (nat_of_int (int_of_string n), d = "1") :: parse_ops r
  | "crop" :: p :: n :: r -> OpCrop (nat_of_int (int_of_string p), nat_of_int (int_of_string n)) :: parse_ops r
  | "get" :: p :: n :: r -> OpGet (nat_of_int (int_of_string p), nat_of_int (int_of_string n)) :: parse_ops r
  | "set" :: p :: h :: r -> OpSet (nat_of_int (int_of_string p), bytes_of_hex h) :: parse_ops r
  | "setz" :: p :: n :: r -> OpSet (nat_of_int (int_of_string p), List.init (int_of_string n) (fun _ -> N0)) :: parse_ops r
  | "align" :: p :: r -> OpAlign (nat_of_int (int_of_string p)) :: parse_ops r
  | "resize" :: n :: r -> OpResize (nat_of_int (int_of_string n), n_of_int 0xee) :: parse_ops r
  | "prepare" :: n :: r -> OpPrepare (nat_of_int (int_of_string n), n_of_int 0xee) :: parse_ops r
  | "find" :: e :: k :: r -> OpFind (nat_of_int (int_of_string e), n_of_int (int_of_string k)) :: parse_ops r
  | "string" :: r -> OpString :: parse_ops r
  | "ioprepare" :: n :: r -> OpIoPrepare (nat n, fill) :: parse_ops r
  | "iopush" :: h :: r -> OpIoPush (bytes_of_hex h, fill) :: parse_ops r
  | "iopushz" :: n :: r -> OpIoPush (List.init (int_of_string n) (fun _ -> N0), fill) :: parse_ops r
  | "iounshift" :: h :: r -> OpIoUnshift (bytes_of_hex h, fill) :: parse_ops r
  | "iounshiftz" :: n :: r -> OpIoUnshift (List.init (int_of_string n) (fun _ -> N0), fill) :: parse_ops r
  | "iopop" :: n :: d :: r -> OpIoPop (nat n, d = "1") :: parse_ops r
  | "ioshift" :: n :: d :: r -> OpIoShift (nat n, d = "1") :: parse_ops r
  | "iowrite" :: c :: p :: h :: r ->
    OpIoWrite (nat p, chunks (bytes_of_hex h) (int_of_string p) (int_of_string c), fill) :: parse_ops r
  | "ioread" :: c :: p :: r -> OpIoRead (nat c, nat p) :: parse_ops r
  | "iopeek" :: n :: r -> OpIoPeek (nat n) :: parse_ops r
  | "ionew" :: n :: r -> OpIoNew (nat n, fill) :: parse_ops r
  | t :: _ -> failwith ("bad op " ^ t)

let rec parse_eops toks = match toks with
  | [] -> []
  | "epush" :: h :: r -> EPush (bytes_of_hex h) :: parse_eops r
  | "efin" :: r -> EPush [] :: parse_eops r
  | "erev" :: r -> ERevert :: parse_eops r
  | "etrim" :: n :: r -> ETrim (nat n) :: parse_eops r
  | t :: _ -> failwith ("bad op " ^ t)

(* raw decode_queue: d... operations, everything else is a C operation on the embedded ring *)
let c_arity = function
  | "string" -> 0
  | "push" | "unshift" | "align" | "resize" | "prepare" -> 1
  | "pop" | "shift" | "crop" | "get" | "set" | "setz" | "find" -> 2
  | t -> failwith ("bad op " ^ t)
let rec take_n k l = if k = 0 then ([], l) else match l with [] -> failwith "short" | x :: r -> let (a, b) = take_n (k-1) r in (x :: a, b)
let msg_of s = let v = int_of_string s in if v < 0 then None else Some (nat_of_int v)
let rec parse_dops toks = match toks with
  | [] -> []
  | "dset" :: c :: p :: l :: m :: x :: r -> DSet (nat c, nat p, nat l, msg_of m, x <> "0") :: parse_dops r
  | "drecv" :: r -> DRecv :: parse_dops r
  | "dpeek" :: n :: h :: r -> DPeek (nat n, h = "1") :: parse_dops r
  | "dshift" :: r -> DShift :: parse_dops r
  | "dadv" :: r -> DAdvance :: parse_dops r
  | "dcur" :: h :: r -> DCurrent (h = "1") :: parse_dops r
  | op :: r -> let (a, rest) = take_n (c_arity op) r in
    (match parse_ops (op :: a) with [o] -> DQ o :: parse_dops rest | _ -> failwith "bad op")

let rec parse_rounds toks = match toks with
  | [] -> []
  | "xround" :: h :: r -> h :: parse_rounds r
  | t :: _ -> failwith ("bad op " ^ t)

let show_out o = match o with
  | ODone -> "D"
  | OBytes d -> "B:" ^ hex_of_bytes d
  | OPos None -> "P:-"
  | OPos (Some k) -> "P:" ^ string_of_int (int_of_nat k)
  | OCount (k, d) -> "N:" ^ string_of_int (int_of_nat k) ^ ":" ^ hex_of_bytes d
  | ORefused _ -> "R"
  | OFault -> "F"

let show ((o, c), m) = show_out o ^ "|" ^ hex_of_bytes c ^ "|" ^ string_of_int (int_of_nat m)
let dshow (((o, c), m), (((cu, p), l), mg)) =
  show ((o, c), m) ^ "|" ^ string_of_int (int_of_nat cu) ^ "," ^ string_of_int (int_of_nat p) ^ ","
  ^ string_of_int (int_of_nat l) ^ "," ^ (match mg with None -> "-1" | Some v -> string_of_int (int_of_nat v))
let eshow ((((o, c), m), dn), sc) =
  show ((o, c), m) ^ "|" ^ string_of_int (int_of_nat dn) ^ "," ^ string_of_int (int_of_nat sc)

let () =
  let ic = open_in Sys.argv.(1) in
  List.iter (fun line ->
    match split_ws line with
    | id :: mx :: off :: cont :: ops ->
      let mx = int_of_string mx and off = int_of_string off in
      let c = Array.of_list (bytes_of_hex cont) in
      let buf = Array.make mx (n_of_int 0xee) in
      Array.iteri (fun i b -> buf.((off + i) mod mx) <- b) c;
      let q = { qbuf = Array.to_list buf; qlen = nat_of_int (Array.length c);
                qmax = nat_of_int mx; qoff = nat_of_int off } in
      (match ops with
       | "xround" :: _ ->
         let l = String.concat " " (List.map (fun h -> "B:" ^ h ^ "|0|0") (parse_rounds ops)) in
         Printf.printf "M %s %s\n" id l;
         Printf.printf "S %s %s\n" id l
       | "dset" :: _ ->
         let d = { dring = q; dcurr = O; dpos = O; dlen = O; dmsg = None; dctx = false } in
         let ops = parse_dops ops in
         Printf.printf "M %s %s\n" id (String.concat " " (List.map dshow (drun d ops)));
         Printf.printf "S %s %s\n" id (String.concat " " (List.map dshow (dsrun d (dabs d) ops)))
       | o1 :: _ when o1.[0] = 'e' ->
         let e = { ering = q; edone = q.qlen; escr = O } in
         let ops = parse_eops ops in
         Printf.printf "M %s %s\n" id (String.concat " " (List.map eshow (erun e ops)));
         Printf.printf "S %s %s\n" id (String.concat " " (List.map eshow (esrun e (eabs e) ops)))
       | _ ->
         let ops = parse_ops ops in
         Printf.printf "M %s %s\n" id (String.concat " " (List.map show (qrun q ops)));
         Printf.printf "S %s %s\n" id (String.concat " " (List.map show (srun q (abs q) ops))))
    | _ -> ()) (read_lines ic)
