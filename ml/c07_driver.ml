(* C07 driver: one case per line (see props/c07.py for the formats); prints
   "M <id> tok..." (mechanism model) and "S <id> tok..." (specification). *)

(* ---- big integers <-> text (the extracted Z stays an inductive) ---- *)
let z_of_small n = if n = 0 then Z0 else if n > 0 then Zpos (pos_of_int n) else Zneg (pos_of_int (-n))
let small_of_z z = match z with Z0 -> 0 | Zpos p -> int_of_pos p | Zneg p -> - (int_of_pos p)
let ten15 = z_of_small 1_000_000_000_000_000
let z_of_string s =
  let neg = String.length s > 0 && s.[0] = '-' in
  let d = if neg || (String.length s > 0 && s.[0] = '+') then String.sub s 1 (String.length s - 1) else s in
  let n = String.length d in
  let rec go i acc =
    if i >= n then acc else
    let k = min 15 (n - i) in
    let chunk = int_of_string (String.sub d i k) in
    let rec p10 k = if k = 0 then 1 else 10 * p10 (k-1) in
    go (i + k) (Z.add (Z.mul acc (z_of_small (p10 k))) (z_of_small chunk)) in
  let m = go 0 Z0 in
  if neg then Z.opp m else m
let string_of_z z =
  let neg, a = (match z with Zneg p -> true, Zpos p | _ -> false, z) in
  let rec go a acc =
    match a with
    | Z0 -> acc
    | _ -> let (q, r) = Z.div_eucl a ten15 in go q (small_of_z r :: acc) in
  match go a [] with
  | [] -> "0"
  | h :: t -> (if neg then "-" else "") ^ string_of_int h ^ String.concat "" (List.map (Printf.sprintf "%015d") t)
(* hexadecimal, from the bits of the positive *)
let hex_of_z z =
  match z with
  | Z0 -> "0"
  | Zneg _ -> "neg"
  | Zpos p ->
    let rec bits p acc = match p with XH -> 1 :: acc | XO q -> bits q (0 :: acc) | XI q -> bits q (1 :: acc) in
    let b = bits p [] in                      (* most significant first *)
    let pad = (4 - List.length b mod 4) mod 4 in
    let b = List.init pad (fun _ -> 0) @ b in
    let buf = Buffer.create 24 in
    let rec go = function
      | a :: b :: c :: d :: r -> Buffer.add_char buf "0123456789abcdef".[a*8+b*4+c*2+d]; go r
      | _ -> () in
    go b; Buffer.contents buf
let z_of_hex s =
  let n = String.length s in
  let rec go i acc = if i >= n then acc else
    go (i+1) (Z.add (Z.mul acc (z_of_small 16)) (z_of_small (int_of_string ("0x" ^ String.make 1 s.[i])))) in
  go 0 Z0
let text_of_hex s =
  if s = "-" then [] else
  List.init (String.length s / 2) (fun i -> z_of_small (int_of_string ("0x" ^ String.sub s (2*i) 2)))

(* ---- type names ---- *)
let ity_of_letter = function
  | "b" -> I8 | "y" -> U8 | "n" -> I16 | "q" -> U16 | "i" -> I32 | "u" -> U32 | "x" -> I64 | "t" -> U64
  | s -> failwith ("source type " ^ s)
let cty_of_name = function
  | "int8" -> CI8 | "int16" -> CI16 | "int32" -> CI32 | "int64" -> CI64 | "char" -> CChar | "int" -> CI32 | "long" -> CI64
  | "uint8" -> CU8 | "uint16" -> CU16 | "uint32" -> CU32 | "uint64" -> CU64 | "uchar" -> CU8 | "uint" -> CU32 | "ulong" -> CU64
  | s -> failwith ("wrapper " ^ s)
let err_code = function
  | BadArgument -> -1 | BadValue -> -2 | BadType -> -3 | BadOperation -> -4 | BadEncoding -> -8
  | MissingData -> -16 | MissingBuffer -> -17 | _ -> -99

(* ---- tokens ---- *)
(* up = true: size-reporting entry points (upper case), false: mpt_value_convert / iterator (lower case) *)
let cs up c = if up then String.make 1 c else String.make 1 (Char.lowercase_ascii c)
let fbits c w = "f" ^ hex_of_z (flt_bits c (round_int (fprec c) w))
let show_obs up o = match o with
  | ORefused e -> "R" ^ string_of_int (err_code e)
  | OInt (w, ret) -> cs up 'K' ^ string_of_z ret ^ ":" ^ string_of_z w
  | OFlt (c, v, ret) -> cs up 'K' ^ string_of_z ret ^ ":" ^ fbits c v
  | OVec (l, ret) -> cs up 'V' ^ string_of_z ret ^ ":" ^ string_of_z l
  | OUntouched ret -> cs up 'U' ^ string_of_z ret
  | OQuery ret -> cs up 'Q' ^ string_of_z ret
  | OJunk ret -> cs up 'J' ^ string_of_z ret
  | OFault -> "F"
let accepted o = match o with ORefused _ | OFault -> false | _ -> true
let show_sobs up mtok s = match s with
  | SRefused -> "R"
  | SInt (w, size) -> cs up 'K' ^ (if up then string_of_z size else "*") ^ ":" ^ string_of_z w
  | SFlt (c, w, size) -> cs up 'K' ^ (if up then string_of_z size else "*") ^ ":f" ^ hex_of_z (flt_bits c w)
  | SQuery size -> cs up 'Q' ^ (if up then string_of_z size else "*")
  | SEmpty -> "E"
  | SFree -> mtok

let n2s n = string_of_int (int_of_nat n)
let show_tobs obits o = match o with
  | TORefused e -> "R" ^ string_of_int (err_code e)
  | TOEmpty -> "E"
  | TOInt (w, n) -> "K" ^ n2s n ^ ":" ^ string_of_z w
  | TOFlt n -> "K" ^ n2s n ^ ":f" ^ obits
  | TOUntouched n -> "U" ^ n2s n
  | TOQuery n -> "Q" ^ n2s n
  | TOJunk -> "J"
  | TOFault -> "F"
(* the specification of a query is the one of the performing call without the value *)
let as_query s = match s with
  | SInt (_, n) -> SQuery n
  | SFlt (_, _, n) -> SQuery n
  | s -> s
let show_tsobs obits mtok s = match s with
  | SRefused -> "R"
  | SInt (w, n) -> "K" ^ string_of_z n ^ ":" ^ string_of_z w
  | SFlt (_, _, n) -> "K" ^ string_of_z n ^ ":f" ^ obits
  | SQuery n -> "Q" ^ string_of_z n
  | SEmpty -> "E"
  | SFree -> mtok

(* stop a batch after a predicted fault: the forked harness child is gone then *)
let rec upto_fault = function
  | [] -> []
  | ((m, _) as x) :: r -> if m = "F" then [x] else x :: upto_fault r

let emit id pairs =
  let pairs = upto_fault pairs in
  Printf.printf "M %s %s\n" id (String.concat " " (List.map fst pairs));
  Printf.printf "S %s %s\n" id (String.concat " " (List.map snd pairs))

(* a text item is hex[/end/erange/bits]: libc's end pointer, errno == ERANGE, bit pattern of the value
   ("nan" for NaN); "NULL" = null pointer.  [fc] = floating type the oracle was asked for *)
let cls_of_bits fc b =
  if b = "nan" then FcNaN else
  match fc with
  | None -> FcFinite
  | Some c -> (match fdecode c (z_of_hex b) with
               | FInf true -> FcNegInf | FInf false -> FcPosInf | FNaN -> FcNaN | FFin (_, _, _) -> FcFinite)
let parse_item_f fc it =
  match String.split_on_char '/' it with
  | [h] -> (if h = "NULL" then None else Some (text_of_hex h)), { fo_end = O; fo_erange = false; fo_cls = FcFinite }, "-"
  | [h; e; er; b] -> (if h = "NULL" then None else Some (text_of_hex h)),
                     { fo_end = nat_of_int (int_of_string e); fo_erange = (er = "1"); fo_cls = cls_of_bits fc b }, b
  | _ -> failwith ("bad text item " ^ it)
let parse_item it = parse_item_f None it
let flt_of_code k = if k = 102 then Some CF32 else if k = 100 then Some CF64 else if k = 101 then Some CF80 else None
let str_or_empty = function Some s -> s | None -> []

let text_spec base tcode (src : z list option) o obits mo =
  let t = tty_of_code tcode in
  match tgt_cty t with
  | None -> SFree
  | Some c ->
    (match src with
     | None -> (match mo with TOEmpty -> SEmpty | _ -> SRefused)
     | Some s ->
       (match c with
        | CChar when t = Tc -> spec_text_char s mo
        | CF32 | CF64 | CF80 -> spec_text_flt s o mo
        | _ -> spec_text base c s mo))

(* second argument "space-patched": mpt_convert_string as patched by docs/C07_convert_string_space.diff
   (props/c07.py PATCHED_STRING_SPACE) *)
let patched = Array.length Sys.argv > 2 && Sys.argv.(2) = "space-patched"

(* third argument "nullcopy-patched": mpt_value_convert as patched by docs/C07_null_raw_copy.diff (props/c07.py PATCHED_NULL_COPY) *)
let null_patched = Array.length Sys.argv > 3 && Sys.argv.(3) = "nullcopy-patched"
(* a value: "N" = no data address (None), else the number / bit pattern *)
let from_int v = if v = "N" then None else Some (z_of_string v)

let fb = function None -> "fnan" | Some b -> "f" ^ hex_of_z b
let show_fobs up o = match o with
  | FRefused e -> "R" ^ string_of_int (err_code e)
  | FOk (_, b, ret) -> cs up 'K' ^ string_of_z ret ^ ":" ^ fb b
  | FVec (l, ret) -> cs up 'V' ^ string_of_z ret ^ ":" ^ string_of_z l
  | FQuery ret -> cs up 'Q' ^ string_of_z ret
  | FFault -> "F"
let show_fsobs up m s = match s with
  | FSRefused -> "R"
  | FSOk (_, b, size) -> cs up 'K' ^ (if up then string_of_z size else "*") ^ ":" ^ fb b
  | FSQuery size -> cs up 'Q' ^ (if up then string_of_z size else "*")
  | FSFree -> m
let flt_cty = function "f" -> CF32 | "d" -> CF64 | _ -> CF80
let bits_of_x v = z_of_hex (String.sub v 1 (String.length v - 1))
let from_flt v = if v = "N" then None else Some (bits_of_x v)
(* the harness iterator of the I cases: mode bit 0 = no value, bit 1 = advance fails with BadOperation *)
let iter_of_mode sk mode =
  { it_val = (if mode land 1 = 1 then None else Some sk);
    it_adv = (if mode land 2 = 2 then Some BadOperation else if mode land 1 = 1 then Some MissingData else None) }
let with_calls tok calls = tok ^ "@" ^ string_of_z calls

(* ---- W cases: sources that are no numbers ---- *)
type wconv = NoConv | Cv of wsrc | Mt of wsrc
let wkind = function   (* type code, converter, mpt_data_tostring succeeds *)
  | "s" | "s0" -> 115, NoConv, true
  | "C4" -> 67, NoConv, true
  | "C3" | "C0" -> 67, NoConv, false
  | "I3" -> 73, NoConv, false
  | "At" -> 64, NoConv, false
  | "a" -> 97, NoConv, false | "z" -> 122, NoConv, false | "l" -> 108, NoConv, false | "k" -> 107, NoConv, false
  | "vf" -> 24, NoConv, false | "tv" -> 25, NoConv, false | "priv" -> 0x12345, NoConv, false | "t20" -> 32, NoConv, false
  | "it" -> 0x86, NoConv, false | "id" -> 0x800, NoConv, false
  | "cv" -> 0x80, Cv WObj, false | "cv0" -> 0x80, Cv WNullPtr, false | "cvn" -> 0x80, Cv WNoFrom, false
  | "mt" -> 0x100, Mt WObj, false | "mt0" -> 0x100, Mt WNullPtr, false | "mtn" -> 0x100, Mt WNoFrom, false
  | "m7" -> 0x7ff, Mt WObj, false
  | "rf" -> 0x801, Mt WObj, false | "rf0" -> 0x801, Mt WNullPtr, false
  | k -> failwith ("source kind " ^ k)
(* the stub object answers 'i' (with 77) and nothing else *)
let stub_ans tk = if tk = 105 then None else Some BadType

let () =
  let ic = open_in Sys.argv.(1) in
  List.iter (fun line ->
    match split_ws line with
    | id :: ("V" | "C" as kind) :: (("f" | "d" | "e") as src) :: dst :: hd :: vals ->
      (* floating sources through mpt_value_convert / mpt_iterator_consume *)
      let sc = flt_cty src and tk = z_of_string dst and hd = (hd = "1") in
      let sk = z_of_small (Char.code src.[0]) in
      let t = tty_of_code tk in
      emit id (List.map (fun v ->
        let from = from_flt v in
        let bits = src_val from in
        let f hd =
          let r = value_convert_flt_a null_patched sc from tk hd in
          if kind = "V" then r else
          (match iterator_consume_c { it_val = Some sk; it_adv = None } tk hd (fobs_err r) with
           | IOut (Inl e, _, _) -> FRefused e
           | IOut (Inr ret, _, _) -> (match r with FOk (c, b, _) -> FOk (c, b, ret) | FVec (l, _) -> FVec (l, ret) | FQuery _ -> FQuery ret | r -> r)) in
        let m = show_fobs false (f hd) in
        let acc = (match f true with FRefused _ | FFault -> false | _ -> true) in
        (m, show_fsobs false m (spec_fconv sc bits t hd acc))) vals)
    | id :: "I" :: src :: dst :: hd :: mode :: vals ->
      (* mpt_iterator_consume: no value / failing advance / skip *)
      let tk = z_of_string dst and hd = (hd = "1") and mode = int_of_string mode in
      let sk = z_of_small (Char.code src.[0]) in
      let t = tty_of_code tk in
      let it = iter_of_mode sk mode in
      let isflt = (src = "f" || src = "d" || src = "e") in
      emit id (List.map (fun v ->
        (* (value_convert error, token of a successful conversion with return code ret, spec token) per hd *)
        let one hd =
          if isflt then
            let sc = flt_cty src and from = from_flt v in
            let bits = src_val from in
            let r = value_convert_flt_a null_patched sc from tk hd in
            (r = FFault, fobs_err r,
             (fun ret -> show_fobs false (match r with FOk (c, b, _) -> FOk (c, b, ret) | FVec (l, _) -> FVec (l, ret) | FQuery _ -> FQuery ret | r -> r)),
             (fun m acc -> show_fsobs false m (spec_fconv sc bits t hd acc)))
          else
            let from = from_int v in
            let v = src_val from in
            let r = value_convert_a null_patched sk from tk hd in
            (r = CFault, cres_err r,
             (fun ret -> show_obs false (observe t hd (match r with Done (stv, _) -> Done (stv, ret) | r -> r))),
             (fun m acc -> show_sobs false m (spec_conv v t hd acc))) in
        let run hd =
          let (fault, vc, tok, spec) = one hd in
          if fault && mode land 1 = 0 && tk <> Z0 && tgt_cty t <> None then ("F", false, spec) else
          (match iterator_consume_c it tk hd vc with
           | IOut (Inl e, calls, _) -> (with_calls ("R" ^ string_of_int (err_code e)) calls, false, spec)
           | IOut (Inr ret, calls, None) -> (with_calls ((if hd then "u" else "q") ^ string_of_z ret) calls, true, spec)
           | IOut (Inr ret, calls, Some _) -> (with_calls (tok ret) calls, true, spec)) in
        let (m, _, spec) = run hd in
        let (_, acc, _) = run true in
        let s =
          if tk = Z0 then m                                  (* skipping is no conversion *)
          else if m.[0] = 'R' || m = "F" then (if acc then m else "R")
          else (let base = String.sub m 0 (String.index m '@') and calls = String.sub m (String.index m '@') (String.length m - String.index m '@') in
                let st = spec base acc in if st = "R" then "R" else st ^ calls) in
        (m, s)) vals)
    | id :: "W" :: kind :: hd :: dsts ->
      let hd = (hd = "1") in
      let (ski, wc, tostr) = wkind kind in
      let sk = z_of_small ski in
      emit id (List.map (fun d ->
        let tk = z_of_string d in
        let tki = int_of_string d in
        let table_ok = (match data_converter sk, wc with ConvNone, NoConv -> true | ConvOther, (Cv _ | Mt _) -> true | _ -> false) in
        let conv_ok = (match wc with
          | NoConv -> false
          | Cv w -> convertable_wrap w (stub_ans tki) = None
          | Mt w -> mw_ok (metatype_wrap w tk hd true hd (stub_ans tki))) in
        let asked = tki <> 0 && (match wc with Cv WObj -> true | Mt WObj -> tki <> 2049 | _ -> false) in
        let r = value_convert_c sk tk conv_ok tostr in
        let m = (match r with
          | _ when not table_ok -> "?converter-table"
          | VRefused e -> "R" ^ string_of_int (err_code e)
          | r when not hd -> "q" ^ string_of_z (vret r)
          | VConv ret ->
            (match wc with
             | Mt w when tki = 2049 -> Printf.sprintf "r%s:a%du1" (string_of_z ret) (if w = WObj then 1 else 0)
             | _ -> "c" ^ string_of_z ret ^ ":77")
          | VCopy n -> "m0:" ^ string_of_z n
          | VCopyVec -> "m1:16"
          | VMkVec n -> "v2:" ^ string_of_z n
          | VStr -> "s4") in
        let m = if asked && m.[0] <> '?' then m ^ "/c1" else m in
        let delegated = (match wc with NoConv -> false | _ -> true) in
        let s = (match spec_other_to_number tk delegated with Some false -> "R" | _ -> m) in
        (m, s)) dsts)
    | id :: "T" :: codes ->
      emit id (List.map (fun k ->
        let m = (match traits (z_of_string k) with
          | None -> "-"
          | Some (n, managed) -> (if managed then "m" else "n") ^ string_of_z n) in
        (m, m)) codes)
    | id :: "D" :: (("f" | "d" | "e") as src) :: dst :: hd :: vals ->
      let sc = (match src with "f" -> CF32 | "d" -> CF64 | _ -> CF80) in
      let t = tty_of_code (z_of_string dst) and hd = (hd = "1") in
      let fb = function None -> "fnan" | Some b -> "f" ^ hex_of_z b in
      let show o = (match o with
        | FRefused e -> "R" ^ string_of_int (err_code e)
        | FOk (_, b, ret) -> "K" ^ string_of_z ret ^ ":" ^ fb b
        | FVec (l, ret) -> "V" ^ string_of_z ret ^ ":" ^ string_of_z l
        | FQuery ret -> "Q" ^ string_of_z ret
        | FFault -> "F") in
      emit id (List.map (fun v ->
        let bits = src_val (from_flt v) in
        let m = show (fconv sc bits t hd) in
        let acc = (match fconv sc bits t true with FRefused _ | FFault -> false | _ -> true) in
        let s = (match spec_fconv sc bits t hd acc with
          | FSRefused -> "R"
          | FSOk (_, b, size) -> "K" ^ string_of_z size ^ ":" ^ fb b
          | FSQuery size -> "Q" ^ string_of_z size
          | FSFree -> m) in
        (m, s)) vals)
    | id :: "D" :: src :: dst :: hd :: vals ->
      let s = ity_of_letter src and t = tty_of_code (z_of_string dst) and hd = (hd = "1") in
      emit id (List.map (fun v ->
        let v = src_val (from_int v) in
        let o = conv s v t hd in
        let m = show_obs true o in
        (* a query has to give the verdict of the performing call *)
        (m, show_sobs true m (spec_conv v t hd (accepted (conv s v t true))))) vals)
    | id :: ("V" | "C" as kind) :: src :: dst :: hd :: vals ->
      let sk = z_of_small (Char.code src.[0]) and tk = z_of_string dst and hd = (hd = "1") in
      emit id (List.map (fun v ->
        let from = from_int v in
        let v = src_val from in
        let t = tty_of_code tk in
        let f hd = observe t hd (if kind = "V" then value_convert_a null_patched sk from tk hd else iterator_consume_a null_patched sk from tk hd) in
        let m = show_obs false (f hd) in
        (m, show_sobs false m (spec_conv v (tty_of_code tk) hd (accepted (f true))))) vals)
    | id :: "P" :: codes ->
      emit id (List.map (fun k ->
        let m = (match data_converter (z_of_string k) with
          | ConvInt I8 -> "int8" | ConvInt U8 -> "uint8" | ConvInt I16 -> "int16" | ConvInt U16 -> "uint16"
          | ConvInt I32 -> "int32" | ConvInt U32 -> "uint32" | ConvInt I64 -> "int64" | ConvInt U64 -> "uint64"
          | ConvF32 -> "float32" | ConvF64 -> "float64" | ConvF80 -> "exflt" | ConvOther -> "other" | ConvNone -> "none") in
        (m, m)) codes)
    | id :: ("ti" | "tu" as kind) :: vlen :: base :: hd :: items ->
      let vlen = z_of_string vlen and base = z_of_string base and hd = (hd = "1") in
      emit id (List.map (fun it ->
        let (src, o, ob) = parse_item it in
        let f hd = if kind = "ti" then convert_int_text hd vlen src base else convert_uint_text hd vlen src base in
        let r = f hd in
        let sg = (kind = "ti") in
        let tc = (match small_of_z vlen with
          | 1 -> Some (if sg then CI8 else CU8) | 2 -> Some (if sg then CI16 else CU16)
          | 4 -> Some (if sg then CI32 else CU32) | 8 -> Some (if sg then CI64 else CU64) | _ -> None) in
        let mo = tobserve tc hd r in
        let m = show_tobs ob mo in
        let mp = tobserve tc true (f true) in
        let s = (match tc, src with
          | Some c, Some s -> spec_text base c s mp
          | Some _, None -> SRefused
          | None, _ -> SFree) in
        (m, show_tsobs ob m (if hd then s else as_query s))) items)
    | id :: "tw" :: name :: base :: range :: hd :: items ->
      let c = cty_of_name name and base = z_of_string base and hd = (hd = "1") in
      let range = if range = "-" then None else
        (match String.split_on_char ':' range with
         | [a; b] -> Some (z_of_string a, z_of_string b) | _ -> failwith "range") in
      emit id (List.map (fun it ->
        let (src, o, ob) = parse_item it in
        let mo = tobserve (Some c) hd (get_string_fcn c hd src base range) in
        let m = show_tobs ob mo in
        let mp = tobserve (Some c) true (get_string_fcn c true src base range) in
        let s = (match src with Some s -> spec_text base c s mp | None -> SRefused) in
        (m, show_tsobs ob m (if hd then s else as_query s))) items)
    | id :: "ts" :: (("0" | "107" | "67" | "24" | "115") as fmt) :: hd :: items ->
      (* the branches of mpt_convert_string that are no numbers *)
      let tk = z_of_string fmt and hd = (hd = "1") in
      let n2z n = string_of_int (int_of_nat n) in
      emit id (List.map (fun it ->
        let (src, o, _) = parse_item it in
        let m = (match convert_string_full patched src tk hd o with
          | SFmt -> if hd then "Z0:7300" else "Q115"
          | SKey None -> if hd then "E" else "Q0"
          | SKey (Some None) -> "R-2"
          | SKey (Some (Some (off, n))) -> if hd then "K" ^ n2z n ^ ":@" ^ n2z off else "Q" ^ n2z n
          | SVec (null, len) -> if hd then "V" ^ n2z len ^ ":" ^ (if null then "0" else string_of_int (int_of_nat len + 1)) else "Q" ^ n2z len
          | SPtr len -> if hd then "P" ^ n2z len else "Q" ^ n2z len
          | SValFmt -> if hd then "X" else "X="
          | SNum _ -> "?numeric") in
        (m, m)) items)
    | id :: ("tn" | "ts" as kind) :: fmt :: hd :: items ->
      let tk = z_of_string fmt and hd = (hd = "1") in
      let t = tty_of_code tk in
      let fc = flt_of_code (int_of_string fmt) in
      emit id (List.map (fun it ->
        let (src, o, ob) = parse_item_f fc it in
        let f hd = if kind = "tn" then convert_number src t hd o else
          (match convert_string_full patched src tk hd o with SNum r -> r | _ -> TRefused EInval) in
        let mo = tobserve (tgt_cty t) hd (f hd) in
        let m = show_tobs ob mo in
        let mp = tobserve (tgt_cty t) true (f true) in
        let s = text_spec Z0 tk src o ob mp in
        (m, show_tsobs ob m (if hd then s else as_query s))) items)
    | id :: "tf" :: fmt :: range :: hd :: items ->
      let tk = z_of_small (Char.code fmt.[0]) and hd = (hd = "1") in
      let t = tty_of_code tk in
      let fc = flt_of_code (Char.code fmt.[0]) in
      let c = flt_cty fmt in
      let range = if range = "-" then None else
        (match String.split_on_char ':' range with
         | [a; b] -> Some (fdecode c (bits_of_x a), fdecode c (bits_of_x b)) | _ -> failwith "range") in
      emit id (List.map (fun it ->
        let (src, o, ob) = parse_item_f fc it in
        let v = if ob = "nan" || ob = "-" then FNaN else fdecode c (z_of_hex ob) in
        let f hd = (match src with None -> TRefused BadArgument | Some s -> convert_float_text_r hd s o v range) in
        let mo = tobserve (tgt_cty t) hd (f hd) in
        let m = show_tobs ob mo in
        let mp = tobserve (tgt_cty t) true (f true) in
        let s = (match src with None -> SRefused | Some s -> spec_text_flt_r s o v range mp) in
        (m, show_tsobs ob m (if hd then s else as_query s))) items)
    | _ -> ()) (read_lines ic)
