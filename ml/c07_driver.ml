(* C07 driver: one case per line (see props/c07.py for the formats); prints
   "M <id> tok..." (mechanism model) and "S <id> tok..." (specification). *)

(* ---- big integers <-> text (the extracted Z stays an inductive) ---- *)
let z_of_small n = if n = 0 then Z0 else if n > 0 then Zpos (pos_of_int n) else Zneg (pos_of_int (-n))
let small_of_z z = match z with Z0 -> 0 | Zpos p -> int_of_pos p | Zneg p -> - (int_of_pos p)
let ten15 = z_of_small 1_000_000_000_000_000
let z_of_string s =
  let neg = String.length s > 0 && s.[0] = '-' in
  let d = if neg || (String.length s > 0 && s.[0] = '+') then String.sub s 1 (String.length s - 1) else s in
  let n = String.length d in
  let rec go i acc =
    if i >= n then acc else
    let k = min 15 (n - i) in
    let chunk = int_of_string (String.sub d i k) in
    let rec p10 k = if k = 0 then 1 else 10 * p10 (k-1) in
    go (i + k) (Z.add (Z.mul acc (z_of_small (p10 k))) (z_of_small chunk)) in
  let m = go 0 Z0 in
  if neg then Z.opp m else m
let string_of_z z =
  let neg, a = (match z with Zneg p -> true, Zpos p | _ -> false, z) in
  let rec go a acc =
    match a with
    | Z0 -> acc
    | _ -> let (q, r) = Z.div_eucl a ten15 in go q (small_of_z r :: acc) in
  match go a [] with
  | [] -> "0"
  | h :: t -> (if neg then "-" else "") ^ string_of_int h ^ String.concat "" (List.map (Printf.sprintf "%015d") t)
(* hexadecimal, from the bits of the positive *)
let hex_of_z z =
  match z with
  | Z0 -> "0"
  | Zneg _ -> "neg"
  | Zpos p ->
    let rec bits p acc = match p with XH -> 1 :: acc | XO q -> bits q (0 :: acc) | XI q -> bits q (1 :: acc) in
    let b = bits p [] in                      (* most significant first *)
    let pad = (4 - List.length b mod 4) mod 4 in
    let b = List.init pad (fun _ -> 0) @ b in
    let buf = Buffer.create 24 in
    let rec go = function
      | a :: b :: c :: d :: r -> Buffer.add_char buf "0123456789abcdef".[a*8+b*4+c*2+d]; go r
      | _ -> () in
    go b; Buffer.contents buf
let z_of_hex s =
  let n = String.length s in
  let rec go i acc = if i >= n then acc else
    go (i+1) (Z.add (Z.mul acc (z_of_small 16)) (z_of_small (int_of_string ("0x" ^ String.make 1 s.[i])))) in
  go 0 Z0
let text_of_hex s =
  if s = "-" then [] else
  List.init (String.length s / 2) (fun i -> z_of_small (int_of_string ("0x" ^ String.sub s (2*i) 2)))

(* ---- type names ---- *)
let ity_of_letter = function
  | "b" -> I8 | "y" -> U8 | "n" -> I16 | "q" -> U16 | "i" -> I32 | "u" -> U32 | "x" -> I64 | "t" -> U64
  | s -> failwith ("source type " ^ s)
let cty_of_name = function
  | "int8" -> CI8 | "int16" -> CI16 | "int32" -> CI32 | "int64" -> CI64 | "char" -> CChar | "int" -> CI32 | "long" -> CI64
  | "uint8" -> CU8 | "uint16" -> CU16 | "uint32" -> CU32 | "uint64" -> CU64 | "uchar" -> CU8 | "uint" -> CU32 | "ulong" -> CU64
  | s -> failwith ("wrapper " ^ s)
let err_code = function
  | BadArgument -> -1 | BadValue -> -2 | BadType -> -3 | BadOperation -> -4 | BadEncoding -> -8
  | MissingData -> -16 | MissingBuffer -> -17 | _ -> -99

(* ---- tokens ---- *)
(* up = true: size-reporting entry points (upper case), false: mpt_value_convert / iterator (lower case) *)
let cs up c = if up then String.make 1 c else String.make 1 (Char.lowercase_ascii c)
let fbits c w = "f" ^ hex_of_z (flt_bits c (round_int (fprec c) w))
let show_obs up o = match o with
  | ORefused e -> "R" ^ string_of_int (err_code e)
  | OInt (w, ret) -> cs up 'K' ^ string_of_z ret ^ ":" ^ string_of_z w
  | OFlt (c, v, ret) -> cs up 'K' ^ string_of_z ret ^ ":" ^ fbits c v
  | OVec (l, ret) -> cs up 'V' ^ string_of_z ret ^ ":" ^ string_of_z l
  | OUntouched ret -> cs up 'U' ^ string_of_z ret
  | OQuery ret -> cs up 'Q' ^ string_of_z ret
  | OJunk ret -> cs up 'J' ^ string_of_z ret
  | OFault -> "F"
let accepted o = match o with ORefused _ | OFault -> false | _ -> true
let show_sobs up mtok s = match s with
  | SRefused -> "R"
  | SInt (w, size) -> cs up 'K' ^ (if up then string_of_z size else "*") ^ ":" ^ string_of_z w
  | SFlt (c, w, size) -> cs up 'K' ^ (if up then string_of_z size else "*") ^ ":f" ^ hex_of_z (flt_bits c w)
  | SQuery size -> cs up 'Q' ^ (if up then string_of_z size else "*")
  | SEmpty -> "E"
  | SFree -> mtok

let n2s n = string_of_int (int_of_nat n)
let show_tobs obits o = match o with
  | TORefused e -> "R" ^ string_of_int (err_code e)
  | TOEmpty -> "E"
  | TOInt (w, n) -> "K" ^ n2s n ^ ":" ^ string_of_z w
  | TOFlt n -> "K" ^ n2s n ^ ":f" ^ obits
  | TOUntouched n -> "U" ^ n2s n
  | TOQuery n -> "Q" ^ n2s n
  | TOJunk -> "J"
  | TOFault -> "F"
(* the specification of a query is the one of the performing call without the value *)
let as_query s = match s with
  | SInt (_, n) -> SQuery n
  | SFlt (_, _, n) -> SQuery n
  | s -> s
let show_tsobs obits mtok s = match s with
  | SRefused -> "R"
  | SInt (w, n) -> "K" ^ string_of_z n ^ ":" ^ string_of_z w
  | SFlt (_, _, n) -> "K" ^ string_of_z n ^ ":f" ^ obits
  | SQuery n -> "Q" ^ string_of_z n
  | SEmpty -> "E"
  | SFree -> mtok

(* stop a batch after a predicted fault: the forked harness child is gone then *)
let rec upto_fault = function
  | [] -> []
  | ((m, _) as x) :: r -> if m = "F" then [x] else x :: upto_fault r

let emit id pairs =
  let pairs = upto_fault pairs in
  Printf.printf "M %s %s\n" id (String.concat " " (List.map fst pairs));
  Printf.printf "S %s %s\n" id (String.concat " " (List.map snd pairs))

(* a text item is hex[/end/erange/bits]: libc's end pointer, errno == ERANGE, bit pattern of the value
   ("nan" for NaN); "NULL" = null pointer.  [fc] = floating type the oracle was asked for *)
let cls_of_bits fc b =
  if b = "nan" then FcNaN else
  match fc with
  | None -> FcFinite
  | Some c -> (match fdecode c (z_of_hex b) with
               | FInf true -> FcNegInf | FInf false -> FcPosInf | FNaN -> FcNaN | FFin (_, _, _) -> FcFinite)
let parse_item_f fc it =
  match String.split_on_char '/' it with
  | [h] -> (if h = "NULL" then None else Some (text_of_hex h)), { fo_end = O; fo_erange = false; fo_cls = FcFinite }, "-"
  | [h; e; er; b] -> (if h = "NULL" then None else Some (text_of_hex h)),
                     { fo_end = nat_of_int (int_of_string e); fo_erange = (er = "1"); fo_cls = cls_of_bits fc b }, b
  | _ -> failwith ("bad text item " ^ it)
let parse_item it = parse_item_f None it
let flt_of_code k = if k = 102 then Some CF32 else if k = 100 then Some CF64 else if k = 101 then Some CF80 else None
let str_or_empty = function Some s -> s | None -> []

let text_spec base tcode (src : z list option) o obits mo =
  let t = tty_of_code tcode in
  match tgt_cty t with
  | None -> SFree
  | Some c ->
    (match src with
     | None -> (match mo with TOEmpty -> SEmpty | _ -> SRefused)
     | Some s ->
       (match c with
        | CChar when t = Tc -> spec_text_char s mo
        | CF32 | CF64 | CF80 -> spec_text_flt s o mo
        | _ -> spec_text base c s mo))

let () =
  let ic = open_in Sys.argv.(1) in
  List.iter (fun line ->
    match split_ws line with
    | id :: "D" :: (("f" | "d" | "e") as src) :: dst :: hd :: vals ->
      let sc = (match src with "f" -> CF32 | "d" -> CF64 | _ -> CF80) in
      let t = tty_of_code (z_of_string dst) and hd = (hd = "1") in
      let fb = function None -> "fnan" | Some b -> "f" ^ hex_of_z b in
      let show o = (match o with
        | FRefused e -> "R" ^ string_of_int (err_code e)
        | FOk (_, b, ret) -> "K" ^ string_of_z ret ^ ":" ^ fb b
        | FVec (l, ret) -> "V" ^ string_of_z ret ^ ":" ^ string_of_z l
        | FQuery ret -> "Q" ^ string_of_z ret
        | FFault -> "F") in
      emit id (List.map (fun v ->
        let bits = z_of_hex (String.sub v 1 (String.length v - 1)) in
        let m = show (fconv sc bits t hd) in
        let acc = (match fconv sc bits t true with FRefused _ | FFault -> false | _ -> true) in
        let s = (match spec_fconv sc bits t hd acc with
          | FSRefused -> "R"
          | FSOk (_, b, size) -> "K" ^ string_of_z size ^ ":" ^ fb b
          | FSQuery size -> "Q" ^ string_of_z size
          | FSFree -> m) in
        (m, s)) vals)
    | id :: "D" :: src :: dst :: hd :: vals ->
      let s = ity_of_letter src and t = tty_of_code (z_of_string dst) and hd = (hd = "1") in
      emit id (List.map (fun v ->
        let v = z_of_string v in
        let o = conv s v t hd in
        let m = show_obs true o in
        (* a query has to give the verdict of the performing call *)
        (m, show_sobs true m (spec_conv v t hd (accepted (conv s v t true))))) vals)
    | id :: ("V" | "C" as kind) :: src :: dst :: hd :: vals ->
      let sk = z_of_small (Char.code src.[0]) and tk = z_of_string dst and hd = (hd = "1") in
      emit id (List.map (fun v ->
        let v = z_of_string v in
        let f hd = if kind = "V" then vconv sk v tk hd else iconv sk v tk hd in
        let m = show_obs false (f hd) in
        (m, show_sobs false m (spec_conv v (tty_of_code tk) hd (accepted (f true))))) vals)
    | id :: "P" :: codes ->
      emit id (List.map (fun k ->
        let m = (match data_converter (z_of_string k) with
          | ConvInt I8 -> "int8" | ConvInt U8 -> "uint8" | ConvInt I16 -> "int16" | ConvInt U16 -> "uint16"
          | ConvInt I32 -> "int32" | ConvInt U32 -> "uint32" | ConvInt I64 -> "int64" | ConvInt U64 -> "uint64"
          | ConvF32 -> "float32" | ConvF64 -> "float64" | ConvF80 -> "exflt" | ConvOther -> "other" | ConvNone -> "none") in
        (m, m)) codes)
    | id :: ("ti" | "tu" as kind) :: vlen :: base :: hd :: items ->
      let vlen = z_of_string vlen and base = z_of_string base and hd = (hd = "1") in
      emit id (List.map (fun it ->
        let (src, o, ob) = parse_item it in
        let f hd = if kind = "ti" then convert_int_text hd vlen src base else convert_uint_text hd vlen src base in
        let r = f hd in
        let sg = (kind = "ti") in
        let tc = (match small_of_z vlen with
          | 1 -> Some (if sg then CI8 else CU8) | 2 -> Some (if sg then CI16 else CU16)
          | 4 -> Some (if sg then CI32 else CU32) | 8 -> Some (if sg then CI64 else CU64) | _ -> None) in
        let mo = tobserve tc hd r in
        let m = show_tobs ob mo in
        let mp = tobserve tc true (f true) in
        let s = (match tc, src with
          | Some c, Some s -> spec_text base c s mp
          | Some _, None -> SRefused
          | None, _ -> SFree) in
        (m, show_tsobs ob m (if hd then s else as_query s))) items)
    | id :: "tw" :: name :: base :: range :: hd :: items ->
      let c = cty_of_name name and base = z_of_string base and hd = (hd = "1") in
      let range = if range = "-" then None else
        (match String.split_on_char ':' range with
         | [a; b] -> Some (z_of_string a, z_of_string b) | _ -> failwith "range") in
      emit id (List.map (fun it ->
        let (src, o, ob) = parse_item it in
        let mo = tobserve (Some c) hd (get_string_fcn c hd src base range) in
        let m = show_tobs ob mo in
        let mp = tobserve (Some c) true (get_string_fcn c true src base range) in
        let s = (match src with Some s -> spec_text base c s mp | None -> SRefused) in
        (m, show_tsobs ob m (if hd then s else as_query s))) items)
    | id :: ("tn" | "ts" as kind) :: fmt :: hd :: items ->
      let tk = z_of_string fmt and hd = (hd = "1") in
      let t = tty_of_code tk in
      let fc = flt_of_code (int_of_string fmt) in
      emit id (List.map (fun it ->
        let (src, o, ob) = parse_item_f fc it in
        let f hd = if kind = "tn" then convert_number src t hd o else convert_string src t hd o in
        let mo = tobserve (tgt_cty t) hd (f hd) in
        let m = show_tobs ob mo in
        let mp = tobserve (tgt_cty t) true (f true) in
        let s = text_spec Z0 tk src o ob mp in
        (m, show_tsobs ob m (if hd then s else as_query s))) items)
    | id :: "tf" :: fmt :: _range :: hd :: items ->
      let tk = z_of_small (Char.code fmt.[0]) and hd = (hd = "1") in
      let t = tty_of_code tk in
      let fc = flt_of_code (Char.code fmt.[0]) in
      emit id (List.map (fun it ->
        let (src, o, ob) = parse_item_f fc it in
        let f hd = (match src with None -> TRefused BadArgument | Some s -> convert_float_text hd s o) in
        let mo = tobserve (tgt_cty t) hd (f hd) in
        let m = show_tobs ob mo in
        let mp = tobserve (tgt_cty t) true (f true) in
        let s = (match src with None -> SRefused | Some s -> spec_text_flt s o mp) in
        (m, show_tsobs ob m (if hd then s else as_query s))) items)
    | _ -> ()) (read_lines ic)
