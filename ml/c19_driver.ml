(* C19 driver: one case per line
     <id> <kind> <arg> <oracle> <op> ...
   (see harness/c19_iter.c for kinds/ops).  <oracle> = libc answers for every offset of the text,
   entries "dlen,dovf,dval,ulen,urng,uvalhex" joined by ';' ("-" when there is no text).
   prints "M <id> tok..." (mechanism model, binary64 arithmetic) and "S <id> tok..." (specification). *)
let rec z_of_int i = if i = 0 then Z0 else if i > 0 then Zpos (pos_of_int i) else Zneg (pos_of_int (-i))
let int_of_z z = match z with Z0 -> 0 | Zpos p -> int_of_pos p | Zneg p -> - (int_of_pos p)
let rec pos_of_hexbits s =  (* binary string, msb first, no leading zero *)
  let n = String.length s in
  let rec go i acc = if i >= n then acc else go (i+1) (if s.[i] = '1' then XI acc else XO acc) in
  go 1 XH
let bin_of_hex h =
  let b = Buffer.create 64 in
  String.iter (fun c -> let v = int_of_string ("0x" ^ String.make 1 c) in
    for k = 3 downto 0 do Buffer.add_char b (if (v lsr k) land 1 = 1 then '1' else '0') done) h;
  let s = Buffer.contents b in
  match String.index_opt s '1' with None -> "" | Some i -> String.sub s i (String.length s - i)
let n_of_hex h = let b = bin_of_hex h in if b = "" then N0 else Npos (pos_of_hexbits b)
(* positive -> hex *)
let hex_of_pos p =
  let rec bits p acc = match p with XH -> 1 :: acc | XO q -> bits q (0 :: acc) | XI q -> bits q (1 :: acc) in
  let l = bits p [] in
  let pad = (4 - (List.length l mod 4)) mod 4 in
  let l = List.init pad (fun _ -> 0) @ l in
  let b = Buffer.create 32 in
  let rec go l = match l with
    | a :: bb :: c :: d :: r -> Buffer.add_string b (Printf.sprintf "%x" (a*8+bb*4+c*2+d)); go r
    | _ -> () in
  go l; Buffer.contents b
let hex_of_z z = match z with Z0 -> "0" | Zpos p -> hex_of_pos p | Zneg p -> "-" ^ hex_of_pos p

(* ---- doubles *)
let fv_of_float f =
  if Float.is_nan f then NaN else if f = Float.infinity then PInf else if f = Float.neg_infinity then NInf
  else if f = 0.0 then Fin { qnum = Z0; qden = XH }
  else begin
    let (m, e) = Float.frexp f in          (* f = m * 2^e, 0.5 <= |m| < 1 *)
    let mi = Int64.to_int (Int64.of_float (Float.ldexp m 53)) in
    dyadic (z_of_int mi) (z_of_int (e - 53))
  end
let fv_of_tok s = match s with
  | "nan" -> NaN | "+inf" -> PInf | "-inf" -> NInf
  | _ -> fv_of_float (Int64.float_of_bits (Int64.of_string ("0x" ^ s)))
(* exact for representable values: at most 53 significant bits *)
let float_of_pos p =
  let rec bits p acc = match p with XH -> 1 :: acc | XO q -> bits q (0 :: acc) | XI q -> bits q (1 :: acc) in
  List.fold_left (fun a b -> 2.0 *. a +. float_of_int b) 0.0 (bits p [])
let rec pow2_exp p = match p with XH -> 0 | XO q -> 1 + pow2_exp q | XI _ -> failwith "denominator is no power of two"
(* strip common trailing zero bits so that huge numerators stay exact *)
let float_of_q q =
  let rec tz p = match p with XO r -> let (k, o) = tz r in (k+1, o) | _ -> (0, p) in
  match q.qnum with
  | Z0 -> 0.0
  | Zpos p -> let (k, o) = tz p in Float.ldexp (float_of_pos o) (k - pow2_exp q.qden)
  | Zneg p -> let (k, o) = tz p in -. Float.ldexp (float_of_pos o) (k - pow2_exp q.qden)
let bits_tok v = match v with
  | NaN -> "nan" | PInf -> "+inf" | NInf -> "-inf"
  | Fin q -> Printf.sprintf "%016Lx" (Int64.bits_of_float (float_of_q q))
let dbl_tok v = match v with
  | Fin q -> let f = float_of_q q in Printf.sprintf "%016Lx/%.17g" (Int64.bits_of_float f) f
  | _ -> bits_tok v
let opt_dbl v = match v with Some v -> dbl_tok v | None -> "unset"
let opt_bits v = match v with Some v -> bits_tok v | None -> "unset"

(* ---- text + oracle *)
let text_of hex orc =
  let bytes = bytes_of_hex hex in
  let ents = if orc = "-" then [] else String.split_on_char ';' orc in
  let dl = List.map (fun e -> match String.split_on_char ',' e with
    | dl :: dov :: dv :: _ -> { d_len = nat_of_int (int_of_string dl); d_ovf = (dov = "1"); d_val = fv_of_tok dv }
    | _ -> failwith "oracle") ents in
  let ul = List.map (fun e -> match String.split_on_char ',' e with
    | _ :: _ :: _ :: ul :: ur :: uv :: _ -> { u_len = nat_of_int (int_of_string ul); u_rng = (ur = "1"); u_val = n_of_hex uv }
    | _ -> failwith "oracle") ents in
  { t_bytes = bytes; t_d0 = dl; t_u = ul }
let topt hex orc = if hex = "n" then None else Some (text_of hex orc)
let grid_of s = if s = "n" then None else Some (List.map fv_of_tok (String.split_on_char ',' s))

let parse_ops toks = List.map (fun t ->
  let c = t.[0] in
  let upper = c >= 'A' && c <= 'Z' in
  let o = match Char.lowercase_ascii c with
    | 'v' -> OValue | 'a' -> OAdvance | 'r' -> OReset | 'c' -> OClone | 'k' -> OConsume | 'w' -> OWalk | 's' -> OString
    | 'y' -> OKey | 'q' -> OKeyN | 'x' -> OVec | 'o' -> OVecN | 'u' -> OUint | 'j' -> OWalkK | 'l' -> OWalkV
    | 'm' -> OMeta | 'z' -> OSkip | 'n' -> OMetaS | 'd' -> ORedesc
    | _ -> failwith ("bad op " ^ t) in
  (o, upper)) toks

let zs z = string_of_int (int_of_z z)
let wend_m e = match e with WLimit -> "L" | WNoValue -> "N" | WConvErr c -> "E" ^ zs c | WAdvErr c -> "e" ^ zs c | WDone -> "Z"
let wend_s e = match e with WLimit -> "L" | WNoValue -> "N" | WConvErr _ -> "E" | WAdvErr _ -> "e" | WDone -> "Z"
let join l = if l = [] then "-" else String.concat "," l

let hexb b = hex_of_bytes b
let show_meta strkind r =
  let c = Array.of_list (List.map zs r.mr_codes) in
  let head = Printf.sprintf "M:%s:%s/%s:%s/1:%s:%s" c.(0) c.(1) (hexb r.mr_fmt) c.(2) c.(3) c.(4) in
  if Array.length c = 8 then begin
    (* generators: 's' with target (+ text), 's' without target, addref *)
    let str = if int_of_string c.(5) < 0 then c.(5) ^ "/-" else
      c.(5) ^ "/" ^ (match r.mr_str with MNull -> "null" | _ -> "set") in
    Printf.sprintf "%s:%s:%s:%s" head str c.(6) c.(7)
  end else
  if strkind then Printf.sprintf "%s:%s:%s:%s:%s:%s" head c.(5) c.(6) c.(7) c.(8) c.(9)
  else begin
    let same k = if int_of_string c.(k) < 0 then c.(k) ^ "/-1" else c.(k) ^ "/1" in
    let vec k = if int_of_string c.(k) < 0 then c.(k) ^ "/-" else
      c.(k) ^ "/" ^ (match r.mr_vec with Some b -> hexb b | None -> "null/0") in
    let str = if int_of_string c.(12) < 0 then c.(12) ^ "/-" else
      c.(12) ^ "/" ^ (match r.mr_str with MNull -> "null" | MStr b -> hexb b | MOpen b -> "open:" ^ hexb b) in
    Printf.sprintf "%s:%s:%s:%s:%s:%s:%s:%s:%s:%s:%s" head (same 5) c.(6) (same 7) c.(8) (vec 9) (vec 10) c.(11) str c.(13) c.(14)
  end
let show_m strkind (op, _) o = match o with
  | OutB (c, b) ->
    let pre = (if op = OKey then "Y" else "X") in
    (match b with
     | Some b when int_of_z c >= 0 -> pre ^ ":" ^ zs c ^ ":" ^ hexb b
     | None when int_of_z c >= 0 -> pre ^ ":" ^ zs c ^ ":null"
     | _ -> pre ^ ":" ^ zs c)
  | OutC c -> (match op with OKeyN -> "Yn" | OMetaS -> "Sn" | ORedesc -> "D" | _ -> "Xn") ^ ":" ^ zs c
  | OutU (c, v) -> if int_of_z c < 0 then "G:" ^ zs c else
      "G:" ^ zs c ^ ":" ^ (match v with Some n -> string_of_int (int_of_n n) | None -> "unset")
  | OutWB (l, e) -> Printf.sprintf "%s:%d:%s:%s" (if op = OWalkK then "J" else "H") (List.length l) (wend_m e)
                      (join (List.map hexb l))
  | OutM r -> show_meta strkind r
  | OutZ c -> "Z:" ^ zs c
  | OutV VNone -> "N"
  | OutV (VErr c) -> "E:" ^ zs c
  | OutV (VNum (c, v)) -> if strkind then "V:" ^ zs c ^ ":" ^ opt_dbl v else "V:" ^ opt_dbl v
  | OutV (VStr b) -> "V:s:" ^ hex_of_bytes b
  | OutV (VVec b) -> "V:v:" ^ hex_of_bytes b
  | OutA c -> "A:" ^ zs c
  | OutR c -> "R:" ^ zs c
  | OutK ok -> (if op = ORedesc then "D:" else "K:") ^ (if ok then "1" else "0")
  | OutQ (c, v) -> "Q:" ^ zs c ^ ":" ^ opt_dbl v
  | OutW (l, e) -> Printf.sprintf "W:%d:%s:%s" (List.length l) (wend_m e) (join (List.map opt_bits l))
  | OutS (Some b) -> "T:" ^ hex_of_bytes b
  | OutS None -> "T:null"
  | OutNone -> "-"

(* closed form annotation: ~num/den@scale (hex), for linear sources with finite bounds *)
let annot cf idx = match cf, idx with
  | Some (a, b, steps), Some i ->
    let q = qred (lin_closed a b steps i) in
    let aq = if (match a.qnum with Zneg _ -> true | _ -> false) then qopp a else a in
    let bq = if (match b.qnum with Zneg _ -> true | _ -> false) then qopp b else b in
    let sc = (match qcompare aq bq with Lt -> bq | _ -> aq) in
    Printf.sprintf "~%s/%s@%s/%s" (hex_of_z q.qnum) (hex_of_pos q.qden) (hex_of_z sc.qnum) (hex_of_pos sc.qden)
  | _ -> ""
let show_elem e = match e with
  | EV v -> "V:" ^ bits_tok v | EUnset -> "V:unset" | EErr _ -> "E"
  | ES b -> "V:s:" ^ hex_of_bytes b | EVec b -> "V:v:" ^ hex_of_bytes b
let elem_bits e = match e with EV v -> bits_tok v | EUnset -> "unset" | _ -> "?"
let elem_hex e = match e with ES b | EVec b -> hexb b | _ -> "?"
let show_s cf (op, _) o = match op, o with
  | (OKey | OVec), SoV (Some (EErr _), _) -> (if op = OKey then "Y" else "X") ^ ":-"
  | (OKey | OVec), SoV (Some e, _) -> (if op = OKey then "Y" else "X") ^ ":" ^ elem_hex e
  | (OKeyN | OVecN), SoV (Some (EErr _), _) -> (if op = OKeyN then "Yn" else "Xn") ^ ":-"
  | (OKeyN | OVecN), SoV (Some _, _) -> (if op = OKeyN then "Yn" else "Xn") ^ ":+"
  | (OWalkK | OWalkV), SoW (l, e) -> Printf.sprintf "%s:%d:%s:%s" (if op = OWalkK then "J" else "H") (List.length l) (wend_s e)
                                       (join (List.map elem_hex l))
  | OMetaS, SoK true -> "Sn:+"
  | ORedesc, SoK ok -> if ok then "D:1" else "D:0"
  | ORedesc, SoA _ -> "D:-"
  | _, SoZ (ARefused, _) -> "Z:-" | _, SoZ (ANotMore, _) -> "Z:<=0"
  | _, SoZ (_, true) -> "Z:+" | _, SoZ (_, false) -> "Z:0"
  | _ -> match o with
  | SoV (None, _) -> "N"
  | SoV (Some e, idx) -> show_elem e ^ (match e with EV (Fin _) -> annot cf idx | _ -> "")
  | SoA AMore -> "A:+" | SoA AEnd -> "A:0" | SoA ARefused -> "A:-" | SoA ANotMore -> "A:<=0"
  | SoR -> "R:ok"
  | SoK ok -> if ok then "K:1" else "K:0"
  | SoQ (true, Some e, idx) -> "Q:+:" ^ elem_bits e ^ (match e with EV (Fin _) -> annot cf idx | _ -> "")
  | SoQ (_, _, _) -> "Q:-"
  | SoW (l, e) -> Printf.sprintf "W:%d:%s:%s" (List.length l) (wend_s e) (join (List.map elem_bits l))
  | SoOpen -> "*"
  | SoNone -> "-"

(* specification tokens of a history; a text iterator is specified for one way of reading its elements *)
let spec_tokens strkind src ops cf =
  let has l = List.exists (fun (o, _) -> List.mem o l) ops in
  let rnum = has [OValue; OConsume; OWalk] and rkey = has [OKey; OKeyN; OWalkK]
  and rvec = has [OVec; OVecN; OWalkV] and rmix = has [OUint] in
  let nmodes = List.length (List.filter (fun b -> b) [rnum; rkey; rvec]) in
  let mixed = strkind && (rmix || nmodes > 1) in
  let cst = match src with
    | Some (SStr m) when rkey -> Some (abs_key m)
    | Some (SStr m) when rvec -> Some (abs_vec m)
    | Some s -> Some (abs0 s)
    | None -> None in
  let so = srun rnd64 (cst, None) ops in
  List.map2 (fun o x -> if mixed then "*" else show_s cf o x) ops so

let () =
  let ic = open_in Sys.argv.(1) in
  List.iter (fun line ->
    match split_ws line with
    | id :: kind :: arg :: orc :: ops ->
      (try
        if kind = "vlin" || kind = "vbound" then begin
          let a = String.split_on_char ',' arg in
          let points = int_of_string (List.nth a 0) and ld = int_of_string (List.nth a 1) in
          let f k = fv_of_tok (List.nth a k) in
          let wr = if kind = "vlin" then values_linear rnd64 (z_of_int points) (z_of_int ld) (f 2) (f 3)
                   else values_bound rnd64 (z_of_int points) (z_of_int ld) (f 2) (f 3) (f 4) in
          let n = if points < 1 then 1 else (points - 1) * ld + 1 in
          let arr = Array.make n "unset" in
          List.iter (fun (i, v) -> arr.(int_of_z i) <- bits_tok v) wr;
          let t = "L:" ^ String.concat "," (Array.to_list arr) in
          Printf.printf "M %s %s\nS %s %s\n" id t id t
        end else if kind = "csrc" then begin
          (* mpt::source<T> (harness/c19_src.cpp): T,len,step;values *)
          (match String.split_on_char ';' arg with
           | [hdr; vs] ->
             (match String.split_on_char ',' hdr with
              | [ty; len; step] ->
                let elems = if vs = "-" then [] else
                  List.map (fun v -> Fin { qnum = z_of_int (int_of_string v); qden = XH }) (String.split_on_char ',' vs) in
                let tyc = (match ty with "d" -> 100 | "i" -> 105 | _ -> 121) in
                let stepi = int_of_string step in
                let src = Some (SSrc (mk_csrc elems (z_of_int (int_of_string len)) (z_of_int stepi) (z_of_int tyc))) in
                let ops = parse_ops ops in
                let mo = mrun rnd64 (src, None) ops in
                (* step 0 never ends: not specified at the level of the cursor *)
                let so_t = if stepi = 0 then List.map (fun _ -> "*") ops else spec_tokens false src ops None in
                Printf.printf "M %s %s\n" id (String.concat " " ("C:1" :: List.map2 (show_m false) ops mo));
                Printf.printf "S %s %s\n" id (String.concat " " ("C:1" :: so_t))
              | _ -> failwith "arg")
           | _ -> failwith "arg")
        end else if kind = "cdef" then begin
          (* an iterator that only implements value(): the defaults of mptcore/types.h answer advance with MissingData
             and reset with BadOperation (constants of the interface, no state): compared with the code only *)
          let v = Fin { qnum = z_of_int (int_of_string arg); qden = XH } in
          let tok o = match o with
            | (OValue, false) -> "V:" ^ dbl_tok v
            | (OAdvance, false) -> "A:-16"
            | (OReset, false) -> "R:-4"
            | (OWalk, false) -> "W:1:e-16:" ^ bits_tok v
            | _ -> "-" in
          let ops = parse_ops ops in
          Printf.printf "M %s %s\n" id (String.concat " " ("C:1" :: List.map tok ops));
          Printf.printf "S %s %s\n" id (String.concat " " ("C:1" :: List.map (fun _ -> "*") ops))
        end else if kind = "from" then begin
          (match String.split_on_char ';' arg with
           | [ctor; sk; txt] ->
             let t = text_of txt orc in
             let strk = (sk.[0] = 's') in
             let source = if strk then Some (SStr (mk_string t))
                          else (match build rnd64 (PVals (t, O)) with Some s -> Some s | None -> None) in
             (match source with
              | None -> Printf.printf "M %s X\nS %s X\n" id id
              | Some s0 ->
                let (d, s1) = match ctor.[0] with
                  | 'l' -> lin_of_iter rnd64 s0 | 'r' -> range_of_iter rnd64 s0 | _ -> fac_of_iter rnd64 s0 in
                let src = match d with Some d -> build rnd64 d | None -> None in
                let (v, _) = it_value rnd64 s1 in
                let u = "U:" ^ (match v with
                  | VNone -> "N" | VErr c -> "E" ^ zs c | VNum (_, x) -> opt_dbl x | _ -> "?") in
                let ops = parse_ops ops in
                let c0 = if src = None then "C:0" else "C:1" in
                let mo = mrun rnd64 (src, None) ops in
                let so = srun rnd64 ((match src with Some s -> Some (abs0 s) | None -> None), None) ops in
                Printf.printf "M %s %s\n" id (String.concat " " (c0 :: u :: List.map2 (show_m false) ops mo));
                Printf.printf "S %s %s\n" id (String.concat " " (c0 :: "*" :: List.map2 (show_s None) ops so)))
           | _ -> failwith "arg")
        end else if kind = "rset" then begin
          let sent7 = fv_of_float 7.0 and sent9 = fv_of_float 9.0 in
          let ops = parse_ops ops in
          let fin ret mn mx rest_m rest_s =
            let t = Printf.sprintf "RS:%s:%s:%s" (zs ret) (bits_tok mn) (bits_tok mx) in
            Printf.printf "M %s %s\n" id (String.concat " " (t :: rest_m));
            Printf.printf "S %s %s\n" id (String.concat " " (t :: rest_s)) in
          (match String.split_on_char ';' arg with
           | ["it"; sk; txt] ->
             let t = text_of txt orc in
             let strk = (sk.[0] = 's') in
             let source = if strk then Some (SStr (mk_string t)) else build rnd64 (PVals (t, O)) in
             (match source with
              | None ->
                (* no source: the value holds a null iterator pointer *)
                let ((ret, mn), mx) = range_set_val RSNoIter sent7 sent9 in
                fin ret mn mx (List.map (fun _ -> "-") ops) (List.map (fun _ -> "-") ops)
              | Some s0 ->
                let (((ret, mn), mx), s1) = range_set rnd64 s0 sent7 sent9 in
                let (v, s1) = it_value rnd64 s1 in     (* the harness reads the next value of the source *)
                let u = "U:" ^ (match v with
                  | VNone -> "N" | VErr c -> "E" ^ zs c | VNum (_, x) -> opt_dbl x | _ -> "?") in
                let mo = mrun rnd64 (Some s1, None) ops in
                fin ret mn mx (u :: List.map2 (show_m strk) ops mo) ("*" :: spec_tokens strk (Some s1) ops None))
           | _ ->
             let a = (match String.split_on_char ';' arg with
               | ["itn"] -> RSNoIter
               | ["vec"; bytes; ds] ->
                 let l = if ds = "-" then [] else List.map fv_of_tok (String.split_on_char ',' ds) in
                 RSVec (n_of_int (int_of_string bytes), Some l)
               | ["vecb"; bytes] -> RSVec (n_of_int (int_of_string bytes), None)
               | ["vecn"] -> RSVecNull
               | _ -> RSOther) in
             let ((ret, mn), mx) = range_set_val a sent7 sent9 in
             fin ret mn mx (List.map (fun _ -> "-") ops) (List.map (fun _ -> "-") ops))
        end else begin
          let split2 s = match String.split_on_char ';' s with [a; b] -> (a, b) | _ -> failwith "arg" in
          let desc = match kind with
            | "create" -> parse_create rnd64 (topt arg orc)
            | "values" -> (match topt arg orc with Some t -> Some (PVals (t, O)) | None -> None)
            | "linear" -> (match String.split_on_char ',' arg with
                | [l; a; b] -> Some (PLin (n_of_int (int_of_string l), fv_of_tok a, fv_of_tok b)) | _ -> failwith "arg")
            | "boundary" -> (match String.split_on_char ',' arg with
                | [l; a; b; c] -> Some (PBnd (n_of_int (int_of_string l), fv_of_tok a, fv_of_tok b, fv_of_tok c)) | _ -> failwith "arg")
            | "poly" -> let (t, g) = split2 arg in poly_of_text (topt t orc) O (grid_of g)
            | "profile" -> let (t, g) = split2 arg in parse_profile (grid_of g) (topt t orc)
            | _ -> None in
          let src = match kind with
            | "string" -> Some (SStr (if arg = "n" then mk_string_sep [] (text_of "-" "-") else mk_string (text_of arg orc)))
            | "strsep" ->
              let (sp, tx) = split2 arg in
              Some (SStr (if tx = "n" then mk_string_sep [] (text_of "-" "-")
                          else mk_string_sep (if sp = "n" then default_sep else bytes_of_hex sp) (text_of tx orc)))
            | "buffer" | "args" ->
              Some (SBuf (mk_buffer (if arg = "n" then None else Some (bytes_of_hex arg)) (kind = "args")))
            | _ -> (match desc with Some d -> build rnd64 d | None -> None) in
          (* closed form is compared where b-a does not overflow and the exact step (b-a)/n is zero or a
             normal binary64 number (a subnormal step loses relative precision, i*step then carries up to
             i/2 units of 2^-1074) *)
          let cf = match desc, src with
            | Some (PLin (len, Fin a, Fin b)), Some _ ->
              let steps = n_of_int (int_of_n len - 1) in
              let st = qminus (lin_closed a b steps (n_of_int 1)) a in
              let ast = if (match st.qnum with Zneg _ -> true | _ -> false) then qopp st else st in
              let normal = (match st.qnum with Z0 -> true | _ ->
                (match c_dblmin with Fin m -> qcompare ast m <> Lt | _ -> false)) in
              (match fsub rnd64 (Fin b) (Fin a) with
               | Fin _ when normal -> Some (a, b, steps)
               | _ -> None)
            | _ -> None in
          let ops = parse_ops ops in
          let strkind = (kind = "string" || kind = "strsep") in
          let c0 = if src = None then "C:0" else "C:1" in
          let mo = mrun rnd64 (src, None) ops in
          let so_t = spec_tokens strkind src ops cf in
          Printf.printf "M %s %s\n" id (String.concat " " (c0 :: List.map2 (show_m strkind) ops mo));
          Printf.printf "S %s %s\n" id (String.concat " " (c0 :: so_t))
        end
      with e -> Printf.printf "M %s X:%s\nS %s X\n" id (String.escaped (Printexc.to_string e)) id)
    | _ -> ()) (read_lines ic)
