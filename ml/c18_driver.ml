(* C18 driver.  Case lines (after the id):
     L <min> <max> <v> ...                 one value sequence ("N N" = no range)
     E <depth> <min> <max> <a0> .. <a4> | <prefix v> ...
                                           every sequence prefix ++ w, w in alphabet^depth (lexicographic)
     J <r u c t  r u c t> ...              pairs of parts for mpt_linepart_join
     C <v> ...                             values for mpt_linepart_code / mpt_linepart_real
   value syntax: <num>/<exp>[*<count>]  =  num * 2^-exp, repeated count times.
   Prints "M <id> tok..." (mechanism model) and "S <id> tok..." (specification). *)
let z_of_int i = if i = 0 then Z0 else if i > 0 then Zpos (pos_of_int i) else Zneg (pos_of_int (- i))
let int_of_z z = match z with Z0 -> 0 | Zpos p -> int_of_pos p | Zneg p -> - (int_of_pos p)
let rec pow2_pos e = if e <= 0 then XH else XO (pow2_pos (e - 1))
let rec shl_pos p e = if e <= 0 then p else shl_pos (XO p) (e - 1)
let shl_z z e = match z with Z0 -> Z0 | Zpos p -> Zpos (shl_pos p e) | Zneg p -> Zneg (shl_pos p e)

(* big numbers are printed in hex *)
let hex_of_pos p =
  let rec bits p acc = match p with XH -> 1 :: acc | XO q -> bits q (0 :: acc) | XI q -> bits q (1 :: acc) in
  let b = bits p [] in                       (* most significant first *)
  let pad = (4 - List.length b mod 4) mod 4 in
  let b = List.init pad (fun _ -> 0) @ b in
  let buf = Buffer.create 32 in
  let rec go l = match l with
    | a :: b :: c :: d :: r -> Buffer.add_char buf "0123456789abcdef".[8*a + 4*b + 2*c + d]; go r
    | _ -> () in
  go b; Buffer.contents buf
let str_of_z z = match z with Z0 -> "0" | Zpos p -> "0x" ^ hex_of_pos p | Zneg p -> "-0x" ^ hex_of_pos p
let str_of_q q = str_of_z q.qnum ^ "/" ^ "0x" ^ hex_of_pos q.qden

let value_of tok =
  let body, cnt = match String.index_opt tok '*' with
    | Some i -> String.sub tok 0 i, int_of_string (String.sub tok (i + 1) (String.length tok - i - 1))
    | None -> tok, 1 in
  let i = String.index body '/' in
  let num = int_of_string (String.sub body 0 i) in
  let e = int_of_string (String.sub body (i + 1) (String.length body - i - 1)) in
  let q = if e >= 0 then { qnum = z_of_int num; qden = pow2_pos e }
          else { qnum = shl_z (z_of_int num) (- e); qden = XH } in
  (q, cnt)
let values toks =
  List.concat_map (fun t -> let (q, c) = value_of t in if c = 1 then [q] else List.init c (fun _ -> q)) toks
let range_of a b = if a = "N" then None else Some { rmin = fst (value_of a); rmax = fst (value_of b) }

let show_part p = Printf.sprintf "%d.%d.%d.%d" (int_of_z p.raw) (int_of_z p.usr) (int_of_z p.cut) (int_of_z p.trim)
let total ps = List.fold_left (fun a p -> a + int_of_z p.raw) 0 ps
let show_run sep r = match r with
  | Done ps -> String.concat sep (List.map show_part ps @ ["=" ^ string_of_int (total ps)])
  | OutOfFuel -> "STALL"
  | RFault -> "FAULT"

(* the three observations of one sequence: direct loop, set+apply (polyline), apply on an empty array *)
let model_seq sep gsep r data =
  let a = show_run sep (run r data) in
  String.concat gsep [a; show_run sep (run_merged r data); a]

let show_class c = match c with Once -> "1" | Never -> "0" | Edge -> "*"
let spec_seq sep r data =
  let cl = String.concat "" (List.map show_class (spec_classes r data)) in
  let xs = List.mapi (fun i o -> match o with None -> "" | Some q -> Printf.sprintf "x%d:%s" i (str_of_q q)) (spec_cross r data) in
  String.concat sep ((if cl = "" then "-" else cl) :: List.filter (fun s -> s <> "") xs)

let rec product alpha d = if d = 0 then [[]] else
  List.concat_map (fun a -> List.map (fun w -> a :: w) (product alpha (d - 1))) alpha

let rec join_pairs toks = match toks with
  | r1 :: u1 :: c1 :: t1 :: r2 :: u2 :: c2 :: t2 :: rest ->
    let mk r u c t = { raw = z_of_int (int_of_string r); usr = z_of_int (int_of_string u);
                       cut = z_of_int (int_of_string c); trim = z_of_int (int_of_string t) } in
    (mk r1 u1 c1 t1, mk r2 u2 c2 t2) :: join_pairs rest
  | _ -> []

let () =
  let ic = open_in Sys.argv.(1) in
  List.iter (fun line ->
    match split_ws line with
    | id :: "L" :: mn :: mx :: vs ->
      let r = range_of mn mx and data = values vs in
      Printf.printf "M %s %s\n" id (model_seq " " " | " r data);
      Printf.printf "S %s %s\n" id (spec_seq " " r data)
    | id :: "E" :: depth :: mn :: mx :: a0 :: a1 :: a2 :: a3 :: a4 :: "|" :: pre ->
      let r = range_of mn mx and pre = values pre in
      let alpha = List.map (fun t -> fst (value_of t)) [a0; a1; a2; a3; a4] in
      let seqs = List.map (fun w -> pre @ w) (product alpha (int_of_string depth)) in
      Printf.printf "M %s %s\n" id (String.concat " " (List.map (model_seq ";" "|" r) seqs));
      Printf.printf "S %s %s\n" id (String.concat " " (List.map (spec_seq ";" r) seqs))
    | id :: "J" :: toks ->
      let ps = join_pairs toks in
      Printf.printf "M %s %s\n" id (String.concat " " (List.map (fun (a, b) ->
        match linepart_join a b with Some j -> show_part j | None -> "R:" ^ show_part a) ps));
      (* the specification of an accepted join: counts add up, the line keeps the cut of the first and
         the trim of the second part; whether a join is accepted is the implementation's choice *)
      Printf.printf "S %s %s\n" id (String.concat " " (List.map (fun (a, b) ->
        match linepart_join a b with
        | Some _ -> Printf.sprintf "%d.%d.%d.%d" (int_of_z a.raw + int_of_z b.raw) (int_of_z a.usr + int_of_z b.usr)
                      (int_of_z a.cut) (int_of_z b.trim)
        | None -> "R:" ^ show_part a) ps))
    | id :: "C" :: vs ->
      let data = values vs in
      let one f = String.concat " " (List.map f data) in
      Printf.printf "M %s %s\n" id (one (fun v ->
        let c = linepart_code v in
        let c16 = ((int_of_z c) land 0xffff) in
        Printf.sprintf "%d:%s" (int_of_z c) (str_of_q (linepart_real (z_of_int c16)))));
      Printf.printf "S %s %s\n" id (one (fun v ->
        match code_total v with
        | Some c -> Printf.sprintf "%d:%s" (int_of_z c) (str_of_q { qnum = c; qden = pow2_pos 16 })
        | None -> "-2:" ^ str_of_q { qnum = z_of_int 65534; qden = pow2_pos 16 }))
    | _ -> ()) (read_lines ic)
