(* C18 driver.  Case lines (after the id):
     L <min> <max> <v> ...                 one value sequence ("N N" = no range)
     E <depth> <min> <max> <a0> .. <a4> | <prefix v> ...
                                           every sequence prefix ++ w, w in alphabet^depth (lexicographic)
     J <r u c t  r u c t> ...              pairs of parts for mpt_linepart_join
     C <v> ...                             values for mpt_linepart_code / mpt_linepart_real
     P <dim> | <dim> ... [& <dim> | ...]   polyline::set per frame on one polyline (see harness/c18_linepart.cpp);
                                           <dim> = <min> <max> <v>... | X | Z | F <v>...
     R <dim> | <dim> ...                   P with one frame, then linepart::array::set(-1)
     A <n> <dim> | <dim> ...               apply_data without part records
     D <raw.usr.cut.trim> ... : <dim> | ..  apply_data WITH the given part records on sum(usr) points
     W <v> ...                             linepart::set_cut / set_trim / cut() / trim()
   value syntax: <num>/<exp>[*<count>]  =  num * 2^-exp, repeated count times.
   Prints "M <id> tok..." (mechanism model) and "S <id> tok..." (specification). *)
let z_of_int i = if i = 0 then Z0 else if i > 0 then Zpos (pos_of_int i) else Zneg (pos_of_int (- i))
let int_of_z z = match z with Z0 -> 0 | Zpos p -> int_of_pos p | Zneg p -> - (int_of_pos p)
let rec pow2_pos e = if e <= 0 then XH else XO (pow2_pos (e - 1))
let rec shl_pos p e = if e <= 0 then p else shl_pos (XO p) (e - 1)
let shl_z z e = match z with Z0 -> Z0 | Zpos p -> Zpos (shl_pos p e) | Zneg p -> Zneg (shl_pos p e)

(* big numbers are printed in hex *)
let hex_of_pos p =
  let rec bits p acc = match p with XH -> 1 :: acc | XO q -> bits q (0 :: acc) | XI q -> bits q (1 :: acc) in
  let b = bits p [] in                       (* most significant first *)
  let pad = (4 - List.length b mod 4) mod 4 in
  let b = List.init pad (fun _ -> 0) @ b in
  let buf = Buffer.create 32 in
  let rec go l = match l with
    | a :: b :: c :: d :: r -> Buffer.add_char buf "0123456789abcdef".[8*a + 4*b + 2*c + d]; go r
    | _ -> () in
  go b; Buffer.contents buf
let str_of_z z = match z with Z0 -> "0" | Zpos p -> "0x" ^ hex_of_pos p | Zneg p -> "-0x" ^ hex_of_pos p
let str_of_q q = str_of_z q.qnum ^ "/" ^ "0x" ^ hex_of_pos q.qden

let value_of tok =
  let body, cnt = match String.index_opt tok '*' with
    | Some i -> String.sub tok 0 i, int_of_string (String.sub tok (i + 1) (String.length tok - i - 1))
    | None -> tok, 1 in
  let i = String.index body '/' in
  let num = int_of_string (String.sub body 0 i) in
  let e = int_of_string (String.sub body (i + 1) (String.length body - i - 1)) in
  let q = if e >= 0 then { qnum = z_of_int num; qden = pow2_pos e }
          else { qnum = shl_z (z_of_int num) (- e); qden = XH } in
  (q, cnt)
let values toks =
  List.concat_map (fun t -> let (q, c) = value_of t in if c = 1 then [q] else List.init c (fun _ -> q)) toks
let range_of a b = if a = "N" then None else Some { rmin = fst (value_of a); rmax = fst (value_of b) }

let show_part p = Printf.sprintf "%d.%d.%d.%d" (int_of_z p.raw) (int_of_z p.usr) (int_of_z p.cut) (int_of_z p.trim)
let total ps = List.fold_left (fun a p -> a + int_of_z p.raw) 0 ps
let show_run sep r = match r with
  | Done ps -> String.concat sep (List.map show_part ps @ ["=" ^ string_of_int (total ps)])
  | OutOfFuel -> "STALL"
  | RFault -> "FAULT"

(* the three observations of one sequence: direct loop, set+apply (polyline), apply on an empty array *)
let model_seq sep gsep r data =
  let a = show_run sep (run r data) in
  String.concat gsep [a; show_run sep (run_merged r data); a]

let show_class c = match c with Once -> "1" | Never -> "0" | Edge -> "*"
let spec_seq sep r data =
  let cl = String.concat "" (List.map show_class (spec_classes r data)) in
  let xs = List.mapi (fun i o -> match o with None -> "" | Some q -> Printf.sprintf "x%d:%s" i (str_of_q q)) (spec_cross r data) in
  String.concat sep ((if cl = "" then "-" else cl) :: List.filter (fun s -> s <> "") xs)

let rec product alpha d = if d = 0 then [[]] else
  List.concat_map (fun a -> List.map (fun w -> a :: w) (product alpha (d - 1))) alpha

let rec join_pairs toks = match toks with
  | r1 :: u1 :: c1 :: t1 :: r2 :: u2 :: c2 :: t2 :: rest ->
    let mk r u c t = { raw = z_of_int (int_of_string r); usr = z_of_int (int_of_string u);
                       cut = z_of_int (int_of_string c); trim = z_of_int (int_of_string t) } in
    (mk r1 u1 c1 t1, mk r2 u2 c2 t2) :: join_pairs rest
  | _ -> []


(* ---- polyline ---- *)
let rec split_on sep toks =
  let rec go cur acc l = match l with
    | [] -> List.rev (List.rev cur :: acc)
    | t :: r when t = sep -> go [] (List.rev cur :: acc) r
    | t :: r -> go (t :: cur) acc r in
  go [] [] toks
let store_of toks = match toks with
  | "X" :: _ -> SNone
  | "F" :: _ -> SNone
  | "Z" :: _ -> SData (None, [])
  | mn :: mx :: vs -> SData (range_of mn mx, values vs)
  | _ -> SNone
let stores_of toks = List.map store_of (List.filter (fun d -> d <> []) (split_on "|" toks))
let z_int z = int_of_z z
let show_points pts =
  (* run-length encoded like the harness: equal neighbours are written once with *count *)
  let n = List.length pts in
  let buf = Buffer.create 256 in
  Buffer.add_string buf (Printf.sprintf "n%d" n);
  let rec go l = match l with
    | [] -> ()
    | (x, y) :: r ->
      let same (a, b) = qeq_bool a x && qeq_bool b y in
      let rec cnt l k = match l with p :: r when same p -> cnt r (k + 1) | _ -> (k, l) in
      let (k, rest) = cnt r 1 in
      Buffer.add_string buf (Printf.sprintf ",%s:%s%s" (str_of_q x) (str_of_q y) (if k > 1 then Printf.sprintf "*%d" k else ""));
      go rest in
  go pts; Buffer.contents buf
let show_view v = Printf.sprintf "L%d+%d/P%d+%s" (z_int v.line_off) (z_int v.line_len) (z_int v.pts_off)
    (match v.pts_len with Z0 -> "0" | Zpos p -> if List.length (String.split_on_char 'f' (hex_of_pos p)) > 8 then "0x" ^ hex_of_pos p else string_of_int (int_of_pos p) | Zneg _ -> "neg")
let sum_of f ps = List.fold_left (fun a p -> a + z_int (f p)) 0 ps
let show_frame st ok =
  let ps = st.vis in
  let parts = String.concat "" (List.map (fun p -> show_part p ^ ",") ps) in
  let tot = sum_of (fun p -> p.raw) ps in
  [ (if ok then "set=1" else "set=0");
    Printf.sprintf "%s=%d,u%d,r%d" parts tot (sum_of (fun p -> p.usr) ps) tot;
    show_points st.pts;
    (let e = Printf.sprintf "E%d+%d" (z_int end_view.line_len) (z_int end_view.pts_len) in
     match polyline_walk st with
     | WDone vs -> String.concat "," ("it" :: List.map show_view vs @ [e])
     | WEndless vs -> String.concat "," ("it" :: List.map show_view vs @ ["ENDLESS"; e])) ]
let spec_dim s = match s with
  | SNone -> "X"
  | SData (r, d) -> spec_seq ";" r d

let () =
  let ic = open_in Sys.argv.(1) in
  List.iter (fun line ->
    match split_ws line with
    | id :: "L" :: mn :: mx :: vs ->
      let r = range_of mn mx and data = values vs in
      Printf.printf "M %s %s\n" id (model_seq " " " | " r data);
      Printf.printf "S %s %s\n" id (spec_seq " " r data)
    | id :: "E" :: depth :: mn :: mx :: a0 :: a1 :: a2 :: a3 :: a4 :: "|" :: pre ->
      let r = range_of mn mx and pre = values pre in
      let alpha = List.map (fun t -> fst (value_of t)) [a0; a1; a2; a3; a4] in
      let seqs = List.map (fun w -> pre @ w) (product alpha (int_of_string depth)) in
      Printf.printf "M %s %s\n" id (String.concat " " (List.map (model_seq ";" "|" r) seqs));
      Printf.printf "S %s %s\n" id (String.concat " " (List.map (spec_seq ";" r) seqs))
    | id :: "J" :: toks ->
      let ps = join_pairs toks in
      Printf.printf "M %s %s\n" id (String.concat " " (List.map (fun (a, b) ->
        match linepart_join a b with Some j -> show_part j | None -> "R:" ^ show_part a) ps));
      (* the specification of an accepted join: counts add up, the line keeps the cut of the first and
         the trim of the second part; whether a join is accepted is the implementation's choice *)
      Printf.printf "S %s %s\n" id (String.concat " " (List.map (fun (a, b) ->
        match linepart_join a b with
        | Some _ -> Printf.sprintf "%d.%d.%d.%d" (int_of_z a.raw + int_of_z b.raw) (int_of_z a.usr + int_of_z b.usr)
                      (int_of_z a.cut) (int_of_z b.trim)
        | None -> "R:" ^ show_part a) ps))
    | id :: "C" :: vs ->
      let data = values vs in
      let one f = String.concat " " (List.map f data) in
      Printf.printf "M %s %s\n" id (one (fun v ->
        let c = linepart_code v in
        let c16 = ((int_of_z c) land 0xffff) in
        Printf.sprintf "%d:%s" (int_of_z c) (str_of_q (linepart_real (z_of_int c16)))));
      Printf.printf "S %s %s\n" id (one (fun v ->
        match code_total v with
        | Some c -> Printf.sprintf "%d:%s" (int_of_z c) (str_of_q { qnum = c; qden = pow2_pos 16 })
        | None -> "-2:" ^ str_of_q { qnum = z_of_int 65534; qden = pow2_pos 16 }))
    | id :: "P" :: toks ->
      let frames = List.map stores_of (split_on "&" toks) in
      let st = ref { vis = []; pts = [] } in
      let out = List.concat_map (fun sts ->
        match polyline_set !st sts with
        | SetOk (ok, st') -> st := st'; show_frame st' ok
        | SetStall -> ["STALL"]
        | SetFault -> ["FAULT"]) frames in
      Printf.printf "M %s %s\n" id (String.concat " " out);
      Printf.printf "S %s %s\n" id (String.concat " & " (List.map (fun sts -> String.concat " " (List.map spec_dim sts)) frames))
    | id :: "R" :: toks ->
      let sts = stores_of toks in
      let st0 = { vis = []; pts = [] } in
      let (out, v) = match polyline_set st0 sts with
        | SetOk (ok, st') -> (show_frame st' ok, st'.vis)
        | SetStall -> (["STALL"], [])
        | SetFault -> (["FAULT"], []) in
      let v' = array_set v (z_of_int (-1)) in
      Printf.printf "M %s %s %s\n" id (String.concat " " out)
        (String.concat "" (List.map (fun p -> show_part p ^ ",") v') ^ "=" ^ string_of_int (sum_of (fun p -> p.raw) v'));
      Printf.printf "S %s %s\n" id (String.concat " " (List.map spec_dim sts))
    | id :: "A" :: n :: toks ->
      let sts = stores_of toks in
      let n = int_of_string n in
      (match apply_data_plain (z_of_int n) sts with
       | Ok (pts, proc) -> Printf.printf "M %s proc=%d %s\n" id (z_int proc) (show_points pts)
       | Fault -> Printf.printf "M %s FAULT\n" id);
      Printf.printf "S %s %s\n" id (String.concat " " (List.map spec_dim sts))
    | id :: "D" :: toks ->
      let rec cut_at l acc = match l with
        | [] -> (List.rev acc, [])
        | ":" :: r -> (List.rev acc, r)
        | t :: r -> cut_at r (t :: acc) in
      let (ptoks, dtoks) = cut_at toks [] in
      let ps = List.map (fun t -> match String.split_on_char '.' t with
        | [r; u; c; tr] -> { raw = z_of_int (int_of_string r); usr = z_of_int (int_of_string u);
                             cut = z_of_int (int_of_string c); trim = z_of_int (int_of_string tr) }
        | _ -> failwith "part") ptoks in
      let sts = stores_of dtoks in
      let n = sum_of (fun p -> p.usr) ps in
      (match apply_data_parts ps (z_of_int n) sts with
       | Ok (pts, proc) -> Printf.printf "M %s proc=%d %s\n" id (z_int proc) (show_points pts)
       | Fault -> Printf.printf "M %s FAULT\n" id);
      Printf.printf "S %s %s\n" id (String.concat " " (List.map spec_dim sts))
    | id :: "W" :: vs ->
      let data = values vs in
      let one f = String.concat " " (List.map f data) in
      let show okc c okt t = Printf.sprintf "%d.%d.%d.%d:%s:%s" (if okc then 1 else 0) c (if okt then 1 else 0) t
          (str_of_q { qnum = z_of_int c; qden = XH }) (str_of_q { qnum = z_of_int t; qden = XH }) in
      Printf.printf "M %s %s\n" id (one (fun v ->
        let (a, c) = set_code (z_of_int 11) v and (b, t) = set_code (z_of_int 13) v in show a (z_int c) b (z_int t)));
      Printf.printf "S %s %s\n" id (one (fun v ->
        match code_total v with
        | Some c -> show true (z_int c) true (z_int c)
        | None -> show false 11 false 13))
    | _ -> ()) (read_lines ic)
