(* C04 driver: one case per line   <id> <op> <args> ...
   operations (x = handle 0..3 arrays, 4..5 slices; hex "-" = empty):
     app x hex | appz x n | ins x pos hex | set x tr off hex | setz x tr off n   (off < 0: from the end)
     slc x off len | slw x off hex | rsv x len tr | cln x y | clr x | red x
     bins x pos hex | bcut x off len | bset x tr pos hex | bsetz x tr pos n
     prt x hex | str x | new x len flags | flg x flags | mks s y off len
     wr s nblk esz hex | wrz s nblk esz
     C++: xcp x y | xclr x | xapp x hex | xins x off hex | xset x hex | xsetz x n | xsets x hex | xasl x s
          xmks s y | xshf s n | xtrm s n
          xnew x n | xiov x hex | xaiov x hex | xasp x hex | xpre x hex | xinsz x off n | xsetc x kind hex
          xsetr x y | xsetv x kind hex | xlen x n | xscp s t | xssc s kind hex
     struct encode_array (specification only, coq/C04/ArrayEnc.v), case = E ops...:
          epush e hex | efin e | eprep e n | eshf e n | ecp e f | epm e hex hex
     class templates (harness/c04_tpl.cpp), case = T<family> ops...; family d u k q r p m:
          tcp x y | tcc x y | tclr x | tnew x len | tins x pos hex | tset x pos hex | trsv x len | trsz x len | tdet x
          tget x pos | toff x hex | tcmp x | tswp x p1 p2 | tunu x | mset x key val | mapp x key val
          mget x key | mval x key | mall x
   prints "M <id> tok..." (mechanism model) and "S <id> tok..." (specification);
   token = res|views|partition|mech  (S: res|views), see harness/c04_array.c *)
let ni s = nat_of_int (int_of_string s)
let zeros n = List.init (int_of_string n) (fun _ -> N0)
let flag s k = (int_of_string s) land k <> 0
let rec parse toks = match toks with
  | [] -> []
  | "app" :: x :: h :: r -> OAppend (ni x, bytes_of_hex h) :: parse r
  | "appz" :: x :: n :: r -> OAppend (ni x, zeros n) :: parse r
  | "ins" :: x :: p :: h :: r -> OInsert (ni x, ni p, bytes_of_hex h) :: parse r
  | "set" :: x :: t :: o :: h :: r ->
    let o = int_of_string o in OSet (ni x, ni t, o < 0, nat_of_int (Stdlib.abs o), bytes_of_hex h) :: parse r
  | "setz" :: x :: t :: o :: n :: r ->
    let o = int_of_string o in OSet (ni x, ni t, o < 0, nat_of_int (Stdlib.abs o), zeros n) :: parse r
  | "slc" :: x :: o :: n :: r -> OSlice (ni x, ni o, zeros n, false) :: parse r
  | "slw" :: x :: o :: h :: r -> OSlice (ni x, ni o, bytes_of_hex h, true) :: parse r
  | "rsv" :: x :: n :: t :: r -> OReserve (ni x, ni n, ni t) :: parse r
  | "cln" :: x :: y :: r -> OClone (ni x, Some (ni y)) :: parse r
  | "clr" :: x :: r -> OClone (ni x, None) :: parse r
  | "red" :: x :: r -> OReduce (ni x) :: parse r
  | "bins" :: x :: p :: h :: r -> OBufInsert (ni x, ni p, bytes_of_hex h) :: parse r
  | "bcut" :: x :: o :: n :: r -> OBufCut (ni x, ni o, ni n) :: parse r
  | "bset" :: x :: t :: p :: h :: r -> OBufSet (ni x, ni t, ni p, bytes_of_hex h) :: parse r
  | "bsetz" :: x :: t :: p :: n :: r -> OBufSet (ni x, ni t, ni p, zeros n) :: parse r
  | "prt" :: x :: h :: r -> OPrintf (ni x, bytes_of_hex h) :: parse r
  | "str" :: x :: r -> OString (ni x) :: parse r
  | "new" :: x :: n :: f :: r -> ONew (ni x, ni n, flag f 1, flag f 2) :: parse r
  | "flg" :: x :: f :: r -> OFlags (ni x, flag f 1, flag f 2) :: parse r
  | "mks" :: s :: y :: o :: n :: r -> OMkSlice (ni s, ni y, ni o, ni n) :: parse r
  | "wr" :: s :: n :: e :: h :: r -> OWrite (ni s, ni n, ni e, true, bytes_of_hex h) :: parse r
  | "wrz" :: s :: n :: e :: r -> OWrite (ni s, ni n, ni e, false, []) :: parse r
  (* C++ API (harness/c04_cxx.cpp) *)
  | "xcp" :: x :: y :: r -> OXAssign (ni x, ni y) :: parse r
  | "xclr" :: x :: r -> OClone (ni x, None) :: parse r
  | "xapp" :: x :: h :: r -> OXAppend (ni x, bytes_of_hex h) :: parse r
  | "xins" :: x :: p :: h :: r -> OInsert (ni x, ni p, bytes_of_hex h) :: parse r
  | "xset" :: x :: h :: r -> OXSet (ni x, bytes_of_hex h) :: parse r
  | "xsetz" :: x :: n :: r -> OXSet (ni x, zeros n) :: parse r
  | "xsets" :: x :: h :: r -> OXSetStr (ni x, bytes_of_hex h) :: parse r
  | "xasl" :: x :: s :: r -> OXAssignSlice (ni x, ni s) :: parse r
  | "xmks" :: s :: y :: r -> OXMkSlice (ni s, ni y) :: parse r
  | "xshf" :: s :: n :: r -> OXShift (ni s, ni n) :: parse r
  | "xtrm" :: s :: n :: r -> OXTrim (ni s, ni n) :: parse r
  (* further entry points of mpt++/array.cpp: wrappers are mapped to the operation they call *)
  | "xnew" :: x :: n :: r ->
    (if int_of_string n = 0 then OClone (ni x, None) else ONew (ni x, ni n, false, false)) :: parse r
  | "xiov" :: x :: h :: r -> OXSet (ni x, bytes_of_hex h) :: parse r
  | "xaiov" :: x :: h :: r | "xasp" :: x :: h :: r ->
    (* the operators do not return the verdict; the harness does not apply them to no data *)
    (if h = "-" then OXAssign (ni x, nat_of_int 99) else OXAppend (ni x, bytes_of_hex h)) :: parse r
  | "xpre" :: x :: h :: r -> OInsert (ni x, O, bytes_of_hex h) :: parse r
  | "xinsz" :: x :: p :: n :: r -> OInsert (ni x, ni p, zeros n) :: parse r
  | "xsetc" :: x :: k :: h :: r ->
    (* array::set(convertable &): vector answers -> set(len, base); text -> set(len + 1), copy, NUL;
       no answer / empty answer -> refused (spelled as the typed set without element type, which changes nothing) *)
    (match k with
     | "v" | "c" -> OXSet (ni x, bytes_of_hex h)
     | "s" -> OXSet (ni x, bytes_of_hex h @ [N0])
     | _ -> OSet (ni x, O, false, O, [])) :: parse r
  | "xsetr" :: x :: y :: r -> OXSetRef (ni x, ni y) :: parse r
  | "xsetv" :: x :: k :: h :: r ->
    let tr = match k with "V" -> 0 | "c" | "C" -> 1 | "u" | "U" -> 4 | "d" | "D" -> 8 | _ -> failwith "bad value kind" in
    OXSetVal (ni x, nat_of_int tr, bytes_of_hex h) :: parse r
  | "xlen" :: x :: n :: r -> OXSetLen (ni x, ni n) :: parse r
  | "xscp" :: s :: t :: r -> OXSliceCopy (ni s, ni t) :: parse r
  | "xssc" :: s :: k :: h :: r ->
    (match k with
     | "v" | "c" -> OXSliceSet (ni s, bytes_of_hex h, true)
     | "s" -> OXSliceSet (ni s, bytes_of_hex h @ [N0], true)
     | _ -> OXSliceSet (ni s, [], false)) :: parse r
  | t :: _ -> failwith ("bad op " ^ t)

(* ---- struct encode_array: specification only *)
let rec eparse toks = match toks with
  | [] -> []
  | "epush" :: e :: h :: r -> EPush (ni e, bytes_of_hex h) :: eparse r
  | "efin" :: e :: r -> EFinish (ni e) :: eparse r
  | "eprep" :: e :: n :: r -> EPrepare (ni e, ni n) :: eparse r
  | "eshf" :: e :: n :: r -> EShift (ni e, ni n) :: eparse r
  | "ecp" :: e :: f :: r -> ECopy (ni e, ni f) :: eparse r
  | "epm" :: e :: h1 :: h2 :: r -> EPushMsg (ni e, bytes_of_hex h1, bytes_of_hex h2) :: eparse r
  | t :: _ -> failwith ("bad encode_array op " ^ t)
let show_enc (vs, out) =
  (match out with EDone n -> Printf.sprintf "D:%d" (int_of_nat n) | ERefused -> "R" | EGuard -> "G") ^ "|"
  ^ String.concat "," (List.map (fun v ->
      Printf.sprintf "%d:%d:%s:%s" (int_of_nat v.edone) (int_of_nat v.escr) (hex_of_bytes v.ebytes)
        (if int_of_nat v.edone + int_of_nat v.escr > List.length v.ebytes then "!" else hex_of_bytes (e_view v))) vs)

(* ---- class templates: element size, unique_array, key size of the family *)
type rdkind = RNone | RGet of tpos | ROff of n list | RUnused | RMGet of n list | RMVal of n list option
let family f = match f with
  | "Td" -> (8, false) | "Tu" -> (4, false) | "Tk" -> (12, false) | "Tq" -> (8, true) | "Tr" -> (12, true)
  | "Tp" -> (8, false) | "Tm" -> (8, false) | _ -> failwith ("bad family " ^ f)
let tpos s = let v = int_of_string s in if v < 0 then PBack (nat_of_int (-v - 1)) else PFwd (nat_of_int v)
let optpos s = let v = int_of_string s in if v < 0 then None else Some (nat_of_int v)
let u32 s = let v = int_of_string s in List.init 4 (fun k -> n_of_int ((v lsr (8 * k)) land 255))
let rec tparse fam toks =
  let (tr, uq) = family fam in
  let tr = nat_of_int tr in
  let ks = nat_of_int 4 in
  let next r = tparse fam r in
  match toks with
  | [] -> []
  | "tcp" :: x :: y :: r | "tcc" :: x :: y :: r -> (OXAssign (ni x, ni y), RNone) :: next r
  | "tclr" :: x :: r ->
    ((if fam = "Tp" then OTNew (ni x, tr, uq, O) else OClone (ni x, None)), RNone) :: next r
  | "tnew" :: x :: n :: r ->
    ((match optpos n with Some k -> OTNew (ni x, tr, uq, k) | None -> OClone (ni x, None)), RNone) :: next r
  | "tins" :: x :: p :: h :: r -> (OTInsert (ni x, tr, uq, tpos p, bytes_of_hex h), RNone) :: next r
  | "tset" :: x :: p :: h :: r -> (OTStore (ni x, tr, uq, tpos p, bytes_of_hex h), RNone) :: next r
  | "trsv" :: x :: n :: r -> (OTReserve (ni x, tr, uq, tpos n), RNone) :: next r
  | "trsz" :: x :: n :: r -> (OTResize (ni x, tr, uq, tpos n), RNone) :: next r
  | "tdet" :: x :: r -> (OTDetach (ni x, tr, uq), RNone) :: next r
  | "tget" :: x :: p :: r -> (OTRead (ni x), RGet (tpos p)) :: next r
  | "toff" :: x :: h :: r -> (OTRead (ni x), ROff (bytes_of_hex h)) :: next r
  | "tunu" :: x :: r -> (OTRead (ni x), RUnused) :: next r
  | "tcmp" :: x :: r -> (OPCompact (ni x, tr), RNone) :: next r
  | "tswp" :: x :: p :: q :: r -> (OPSwap (ni x, tr, optpos p, optpos q), RNone) :: next r
  | "mset" :: x :: k :: v :: r -> (OMSet (ni x, ks, tr, u32 k, u32 v), RNone) :: next r
  | "mapp" :: x :: k :: v :: r -> (OTInsert (ni x, tr, uq, PEnd, u32 k @ u32 v), RNone) :: next r
  | "mget" :: x :: k :: r -> (OTRead (ni x), RMGet (u32 k)) :: next r
  | "mval" :: x :: k :: r -> (OTRead (ni x), RMVal (Some (u32 k))) :: next r
  | "mall" :: x :: r -> (OTRead (ni x), RMVal None) :: next r
  | "flg" :: x :: f :: r -> (OFlags (ni x, flag f 1, flag f 2), RNone) :: next r
  | t :: _ -> failwith ("bad template op " ^ t)

let i = int_of_nat
let show_out full o = match o with
  | ODone (n, m) -> if full then Printf.sprintf "D:%d/%d" (i n) (i m) else Printf.sprintf "D:%d" (i n)
  | ORefused -> "R" | OGuard -> "G" | OFault -> "F"
let show_val v = match v with
  | None -> "n"
  | Some (t, l) -> string_of_int (i t) ^ "." ^ hex_of_bytes l
let show_views vs = String.concat "," (List.map (fun (_, v) -> show_val v) vs)

let show_m (st, out) =
  let hs = st.shnd in
  let ids = List.map (fun h -> match h.hbuf with None -> None | Some k -> Some (i k)) hs in
  let tbl = Hashtbl.create 8 in
  let part = List.map (fun o -> match o with
    | None -> "n"
    | Some k -> (match Hashtbl.find_opt tbl k with
                 | Some c -> string_of_int c
                 | None -> let c = Hashtbl.length tbl in Hashtbl.add tbl k c; string_of_int c)) ids in
  let mech = List.map (fun h ->
    let base = match h.hbuf with
      | None -> "n"
      | Some k -> (match hget st.sheap k with
                   | None -> "freed"
                   | Some b -> Printf.sprintf "%d:%d:%d:%d" (i b.bused) (i b.bsize) (i b.bref)
                                 ((if b.bimm then 1 else 0) + (if b.bnc then 2 else 0))) in
    if h.hsl then Printf.sprintf "%s:%d:%d" base (i h.hoff) (i h.hlen) else base) hs in
  show_out true out ^ "|" ^ show_views (abs st) ^ "|" ^ String.concat "." part ^ "|" ^ String.concat "," mech
  ^ (if invb st then "" else "|!inv")

let show_s (vs, out) = show_out false out ^ "|" ^ show_views vs

(* what a read-only template operation returns: a function of the value of the target handle *)
let read_of fam o rd (vs : (bool * (nat * n list) option) list) =
  let (tr, _) = family fam in
  let tr = nat_of_int tr and ks = nat_of_int 4 in
  let x = i (target o) in
  if x >= List.length vs then "" else
  let l = svec (snd (List.nth vs x)) in
  match rd with
  | RNone -> ""
  | RGet p -> ";r=" ^ (match elem_at l tr p with Some e -> hex_of_bytes e | None -> "none")
  | ROff e -> if List.length e <> i tr then "" else
              ";r=" ^ (match offset_of l tr e with Some k -> string_of_int (i k) | None -> "-1")
  | RUnused -> ";r=" ^ string_of_int (i (unused_of l tr))
  | RMGet k -> ";r=" ^ (match map_get l ks tr k with Some e -> hex_of_bytes e | None -> "none")
  | RMVal k -> ";r=" ^ hex_of_bytes (map_values l ks tr k)
(* live elements of the instance-counting element type = elements of all live blocks of that type *)
let live_count st tr =
  List.fold_left (fun acc ob -> match ob with
    | Some b when i b.btr = tr -> acc + i b.bused / tr
    | _ -> acc) 0 st.sheap
let ins_views tok extra =
  if extra = "" then tok else
  match String.split_on_char '|' tok with
  | res :: views :: rest -> String.concat "|" (res :: (views ^ extra) :: rest)
  | _ -> tok

let () =
  let ic = open_in Sys.argv.(1) in
  List.iter (fun line ->
    match split_ws line with
    | id :: fam :: tops when String.length fam = 2 && fam.[0] = 'T' ->
      let (tr, uq) = family fam in
      let st = init (nat_of_int 4) (nat_of_int 2) in
      (* pointer_array(long len = 0): every handle starts with an empty block *)
      let st = if fam <> "Tp" then st else
        List.fold_left (fun st k -> fst (step st (OTNew (nat_of_int k, nat_of_int tr, uq, O)))) st [0; 1; 2; 3] in
      let pops = tparse fam tops in
      let ops = List.map fst pops in
      let counted = fam = "Tk" || fam = "Tr" in
      let ms = List.map2 (fun (o, rd) (st', out) ->
          ins_views (show_m (st', out)) (if accepted out then read_of fam o rd (abs st') else "")
          ^ (if counted then Printf.sprintf "|k=%d" (live_count st' tr) else "")) pops (run st ops) in
      let ss = List.map2 (fun (o, rd) (vs, out) -> show_s (vs, out) ^ (if accepted out then read_of fam o rd vs else "")) pops (srun st (abs st) ops) in
      Printf.printf "M %s %s\n" id (String.concat " " ms);
      Printf.printf "S %s %s\n" id (String.concat " " ss)
    | id :: "E" :: eops ->
      let toks = List.map show_enc (erun [e0; e0] (eparse eops)) in
      Printf.printf "M %s %s\n" id (String.concat " " toks);
      Printf.printf "S %s %s\n" id (String.concat " " toks)
    | id :: ops ->
      let st = init (nat_of_int 4) (nat_of_int 2) in
      let ops = parse ops in
      Printf.printf "M %s %s\n" id (String.concat " " (List.map show_m (run st ops)));
      Printf.printf "S %s %s\n" id (String.concat " " (List.map show_s (srun st (abs st) ops)))
    | _ -> ()) (read_lines ic)
