(* C04 driver: one case per line   <id> <op> <args> ...
   operations (x = handle 0..3 arrays, 4..5 slices; hex "-" = empty):
     app x hex | appz x n | ins x pos hex | set x tr off hex | setz x tr off n   (off < 0: from the end)
     slc x off len | slw x off hex | rsv x len tr | cln x y | clr x | red x
     bins x pos hex | bcut x off len | bset x tr pos hex | bsetz x tr pos n
     prt x hex | str x | new x len flags | flg x flags | mks s y off len
     wr s nblk esz hex | wrz s nblk esz
     C++: xcp x y | xclr x | xapp x hex | xins x off hex | xset x hex | xsetz x n | xsets x hex | xasl x s
          xmks s y | xshf s n | xtrm s n
   prints "M <id> tok..." (mechanism model) and "S <id> tok..." (specification);
   token = res|views|partition|mech  (S: res|views), see harness/c04_array.c *)
let ni s = nat_of_int (int_of_string s)
let zeros n = List.init (int_of_string n) (fun _ -> N0)
let flag s k = (int_of_string s) land k <> 0
let rec parse toks = match toks with
  | [] -> []
  | "app" :: x :: h :: r -> OAppend (ni x, bytes_of_hex h) :: parse r
  | "appz" :: x :: n :: r -> OAppend (ni x, zeros n) :: parse r
  | "ins" :: x :: p :: h :: r -> OInsert (ni x, ni p, bytes_of_hex h) :: parse r
  | "set" :: x :: t :: o :: h :: r ->
    let o = int_of_string o in OSet (ni x, ni t, o < 0, nat_of_int (Stdlib.abs o), bytes_of_hex h) :: parse r
  | "setz" :: x :: t :: o :: n :: r ->
    let o = int_of_string o in OSet (ni x, ni t, o < 0, nat_of_int (Stdlib.abs o), zeros n) :: parse r
  | "slc" :: x :: o :: n :: r -> OSlice (ni x, ni o, zeros n, false) :: parse r
  | "slw" :: x :: o :: h :: r -> OSlice (ni x, ni o, bytes_of_hex h, true) :: parse r
  | "rsv" :: x :: n :: t :: r -> OReserve (ni x, ni n, ni t) :: parse r
  | "cln" :: x :: y :: r -> OClone (ni x, Some (ni y)) :: parse r
  | "clr" :: x :: r -> OClone (ni x, None) :: parse r
  | "red" :: x :: r -> OReduce (ni x) :: parse r
  | "bins" :: x :: p :: h :: r -> OBufInsert (ni x, ni p, bytes_of_hex h) :: parse r
  | "bcut" :: x :: o :: n :: r -> OBufCut (ni x, ni o, ni n) :: parse r
  | "bset" :: x :: t :: p :: h :: r -> OBufSet (ni x, ni t, ni p, bytes_of_hex h) :: parse r
  | "bsetz" :: x :: t :: p :: n :: r -> OBufSet (ni x, ni t, ni p, zeros n) :: parse r
  | "prt" :: x :: h :: r -> OPrintf (ni x, bytes_of_hex h) :: parse r
  | "str" :: x :: r -> OString (ni x) :: parse r
  | "new" :: x :: n :: f :: r -> ONew (ni x, ni n, flag f 1, flag f 2) :: parse r
  | "flg" :: x :: f :: r -> OFlags (ni x, flag f 1, flag f 2) :: parse r
  | "mks" :: s :: y :: o :: n :: r -> OMkSlice (ni s, ni y, ni o, ni n) :: parse r
  | "wr" :: s :: n :: e :: h :: r -> OWrite (ni s, ni n, ni e, true, bytes_of_hex h) :: parse r
  | "wrz" :: s :: n :: e :: r -> OWrite (ni s, ni n, ni e, false, []) :: parse r
  (* C++ API (harness/c04_cxx.cpp) *)
  | "xcp" :: x :: y :: r -> OXAssign (ni x, ni y) :: parse r
  | "xclr" :: x :: r -> OClone (ni x, None) :: parse r
  | "xapp" :: x :: h :: r -> OXAppend (ni x, bytes_of_hex h) :: parse r
  | "xins" :: x :: p :: h :: r -> OInsert (ni x, ni p, bytes_of_hex h) :: parse r
  | "xset" :: x :: h :: r -> OXSet (ni x, bytes_of_hex h) :: parse r
  | "xsetz" :: x :: n :: r -> OXSet (ni x, zeros n) :: parse r
  | "xsets" :: x :: h :: r -> OXSetStr (ni x, bytes_of_hex h) :: parse r
  | "xasl" :: x :: s :: r -> OXAssignSlice (ni x, ni s) :: parse r
  | "xmks" :: s :: y :: r -> OXMkSlice (ni s, ni y) :: parse r
  | "xshf" :: s :: n :: r -> OXShift (ni s, ni n) :: parse r
  | "xtrm" :: s :: n :: r -> OXTrim (ni s, ni n) :: parse r
  | t :: _ -> failwith ("bad op " ^ t)

let i = int_of_nat
let show_out full o = match o with
  | ODone (n, m) -> if full then Printf.sprintf "D:%d/%d" (i n) (i m) else Printf.sprintf "D:%d" (i n)
  | ORefused -> "R" | OGuard -> "G" | OFault -> "F"
let show_val v = match v with
  | None -> "n"
  | Some (t, l) -> string_of_int (i t) ^ "." ^ hex_of_bytes l
let show_views vs = String.concat "," (List.map (fun (_, v) -> show_val v) vs)

let show_m (st, out) =
  let hs = st.shnd in
  let ids = List.map (fun h -> match h.hbuf with None -> None | Some k -> Some (i k)) hs in
  let tbl = Hashtbl.create 8 in
  let part = List.map (fun o -> match o with
    | None -> "n"
    | Some k -> (match Hashtbl.find_opt tbl k with
                 | Some c -> string_of_int c
                 | None -> let c = Hashtbl.length tbl in Hashtbl.add tbl k c; string_of_int c)) ids in
  let mech = List.map (fun h ->
    let base = match h.hbuf with
      | None -> "n"
      | Some k -> (match hget st.sheap k with
                   | None -> "freed"
                   | Some b -> Printf.sprintf "%d:%d:%d:%d" (i b.bused) (i b.bsize) (i b.bref)
                                 ((if b.bimm then 1 else 0) + (if b.bnc then 2 else 0))) in
    if h.hsl then Printf.sprintf "%s:%d:%d" base (i h.hoff) (i h.hlen) else base) hs in
  show_out true out ^ "|" ^ show_views (abs st) ^ "|" ^ String.concat "." part ^ "|" ^ String.concat "," mech
  ^ (if invb st then "" else "|!inv")

let show_s (vs, out) = show_out false out ^ "|" ^ show_views vs

let () =
  let ic = open_in Sys.argv.(1) in
  List.iter (fun line ->
    match split_ws line with
    | id :: ops ->
      let st = init (nat_of_int 4) (nat_of_int 2) in
      let ops = parse ops in
      Printf.printf "M %s %s\n" id (String.concat " " (List.map show_m (run st ops)));
      Printf.printf "S %s %s\n" id (String.concat " " (List.map show_s (srun st (abs st) ops)))
    | _ -> ()) (read_lines ic)
