(* C01 driver: <id> <variant> <op> ... ; prints M (model) and S (specification) lines *)
let errno e = match e with
  | BadArgument -> -1 | BadValue -> -2 | BadType -> -3 | BadOperation -> -4 | BadEncoding -> -8
  | MissingData -> -16 | MissingBuffer -> -17 | ERange -> -34 | EInval -> -22
let sched s = List.map (fun x -> nat_of_int (int_of_string x)) (String.split_on_char ',' s)
let rec parse_ops toks = match toks with
  | [] -> []
  | "call" :: c :: h :: r -> CCall (nat_of_int (int_of_string c), bytes_of_hex h) :: parse_ops r
  | "term" :: c :: r -> CTerm (nat_of_int (int_of_string c)) :: parse_ops r
  | "pushall" :: s :: h :: r -> CPushAll (sched s, bytes_of_hex h) :: parse_ops r
  | "termall" :: s :: r -> CTermAll (sched s) :: parse_ops r
  | "msg" :: r -> CMsg :: parse_ops r
  | "py" :: m :: f :: r -> CPy (bytes_of_hex m, bytes_of_hex f) :: parse_ops r
  | "apush" :: h :: r -> CAPush (bytes_of_hex h) :: parse_ops r
  | "aterm" :: r -> CATerm :: parse_ops r
  | "del" :: r -> CMsg :: parse_ops r   (* placeholder: handled in run_ops, see below *)
  | t :: _ -> failwith ("bad op " ^ t)
(* positions of the "del" operations (delete the message in progress: Cobs/EncDelete.v enc_delete_current) *)
let rec del_marks toks = match toks with
  | [] -> []
  | "call" :: _ :: _ :: r -> false :: del_marks r
  | "term" :: _ :: r -> false :: del_marks r
  | "pushall" :: _ :: _ :: r -> false :: del_marks r
  | "termall" :: _ :: r -> false :: del_marks r
  | "msg" :: r -> false :: del_marks r
  | "py" :: _ :: _ :: r -> false :: del_marks r
  | "apush" :: _ :: r -> false :: del_marks r
  | "aterm" :: r -> false :: del_marks r
  | "del" :: r -> true :: del_marks r
  | _ -> []
let show_res r = match r with EInt n -> string_of_int (int_of_nat n) | EErr e -> string_of_int (errno e) | EFault -> "F"
let show_st st buf =
  Printf.sprintf "|%d|%d|%d|%s" (int_of_nat st.edone) (int_of_nat st.escr)
    (if int_of_nat st.ectx <> 0 then 1 else 0) (hex_of_bytes buf)
let show spec o = match o with
  | OAny -> "*"
  | OCall (r, st, buf, over) ->
    if over then Printf.sprintf "C:%s|%d|%d|%d|OVER" (show_res r) (int_of_nat st.edone) (int_of_nat st.escr) (if int_of_nat st.ectx <> 0 then 1 else 0)
    else "C:" ^ show_res r ^ show_st st buf
  | OPush (r, st, buf, cap) ->
    if spec then "P:" ^ show_res r
    else "P:" ^ show_res r ^ show_st st buf ^ "|" ^ string_of_int (int_of_nat cap)
  | OPy (d, f) ->
    let ds = match d with Some l -> hex_of_bytes l | None -> "X" in
    if spec then "Y:" ^ ds else "Y:" ^ ds ^ "|" ^ hex_of_bytes f
  | OMsg (z, ms, rest) ->
    let m = List.map (fun x -> match x with Some l -> hex_of_bytes l | None -> "X") ms in
    let m = if int_of_nat rest > 0 then m @ ["REST" ^ string_of_int (int_of_nat rest)] else m in
    Printf.sprintf "M:%d|%s" (int_of_nat z) (if m = [] then "-" else String.concat "," m)
let variant i = match i with 0 -> FCobs v_cobs | 1 -> FCobs v_cobs_r | 2 -> FCobs v_zpe | 3 -> FCobs v_zpe_r | _ -> FText
let () =
  let ic = open_in Sys.argv.(1) in
  List.iter (fun line ->
    match split_ws line with
    | id :: v :: ops ->
      let raw_ops = ops in
      let ops = parse_ops ops in
      let v = variant (int_of_string v) in
      if not (List.mem true (del_marks raw_ops)) then begin
      Printf.printf "M %s %s\n" id (String.concat " " (List.map (show false) (crun v cinit ops)));
      Printf.printf "S %s %s\n" id (String.concat " " (List.map (show true) (csrun v sinit ops))) end
      else begin
        (* step by step, the deletion request is applied to the encoder state between the modelled operations *)
        let marks = del_marks raw_ops in
        let st = ref cinit and sp = ref sinit in
        let mt = ref [] and stk = ref [] in
        List.iter2 (fun o isdel ->
          if isdel then begin
            (match v with
             | FCobs _ ->
               (match enc_delete_current !st.cst !st.cbuf with
                | Some ((r, st'), buf') ->
                  st := { cst = st'; cbuf = buf'; ccap = !st.ccap };
                  mt := ("C:" ^ show_res r ^ show_st st' buf') :: !mt
                | None -> mt := "C:skip" :: !mt)
             | FText -> mt := "C:skip" :: !mt);
            sp := { sfin = !sp.sfin; scur = []; sraw = !sp.sraw };
            stk := "*" :: !stk
          end else begin
            let (s', ob) = cstep v !st o in st := s'; mt := show false ob :: !mt;
            let (p', ob2) = cspec_step v !sp o in sp := p'; stk := show true ob2 :: !stk
          end) ops marks;
        Printf.printf "M %s %s\n" id (String.concat " " (List.rev !mt));
        Printf.printf "S %s %s\n" id (String.concat " " (List.rev !stk))
      end
    | _ -> ()) (read_lines ic)
