(* C09 driver.  One case per line:
     <id> <style> <accept> <items> <decos>
   style  : p (prefix '*', default format) | x (enclosed, "%x% = #") | s (separated, "[ ] = #")
            | y (enclosed with distinct delimiters "[x] = #": option lists only)
   accept : "N" or "s"<hex>
   items  : forest of (o:<name>:<value>) and (s:<name>:<items>), "~" = none;
            name/value = comma separated chunks, each <hex> or <hexbyte>*<count>, may be empty
   decos  : "~" or records separated by ";", fields separated by ":" :
            lead:comments:indent:mid1:mid2:quote:trail:tcomment:bracenl
            (hex strings; comments = hex strings separated by "|"; tcomment "-" = none or "c"<hex>)
   Second family, the value store behind a node (coq/C08/MetaModel.v):
     <id> m <value> <op> ...      value = chunks as above ("-" = empty); op = newv news newi newg newb kind str vec iter self buf ref clone
     X <id> m <value> <op> ...    handed on unchanged;  M = meta_run, S = spec_run (every answered view shows the stored text)
   Output:
     X <id> <fmt> <accept> <text>     the case for harness/c09_roundtrip.c (text = print style deco items)
     M <id> t<len>.<hash> r<ret> d<tree the model parses> L0
     S <id> t* r0 d<source tree> L0      (r* d* when the tree is not well formed for the style: no claim) *)
let z_of_int n = if n = 0 then Z0 else if n > 0 then Zpos (pos_of_int n) else Zneg (pos_of_int (-n))
let int_of_z z = match z with Z0 -> 0 | Zpos p -> int_of_pos p | Zneg p -> - (int_of_pos p)
let zbytes_of_hex s = List.init (String.length s / 2) (fun i -> z_of_int (int_of_string ("0x" ^ String.sub s (2*i) 2)))

let fnv (l : int list) =
  List.fold_left (fun h b -> ((h lxor b) * 16777619) land 0xffffffff) 2166136261 l
let abbr (l : z list) =
  let il = List.map int_of_z l in
  let n = List.length il in
  if n <= 20 then String.concat "" (List.map (Printf.sprintf "%02x") il)
  else Printf.sprintf "#%d.%08x" n (fnv il)

let chunks s =
  if s = "" then [] else
  List.concat (List.map (fun ch ->
    match String.index_opt ch '*' with
    | Some i ->
      let b = z_of_int (int_of_string ("0x" ^ String.sub ch 0 i)) in
      let n = int_of_string (String.sub ch (i+1) (String.length ch - i - 1)) in
      List.init n (fun _ -> b)
    | None -> zbytes_of_hex ch) (String.split_on_char ',' s))

(* run-length encoded text for the harness *)
let rle (l : int list) : string =
  let b = Buffer.create 256 in
  let first = ref true in
  let sep () = if !first then first := false else Buffer.add_char b ',' in
  let rec go l lit =
    (* lit: pending literal bytes (reversed) *)
    let flush () = if lit <> [] then (sep (); List.iter (fun x -> Buffer.add_string b (Printf.sprintf "%02x" x)) (List.rev lit)) in
    match l with
    | [] -> flush ()
    | x :: _ ->
      let rec run l n = match l with y :: r when y = x -> run r (n + 1) | _ -> (n, l) in
      let (n, rest) = run l 0 in
      if n >= 24 then (flush (); sep (); Buffer.add_string b (Printf.sprintf "%02x*%d" x n); go rest [])
      else go (List.tl l) (x :: lit) in
  go l [];
  if Buffer.length b = 0 then "-" else Buffer.contents b

let cstr s = if s = "N" then None else Some (zbytes_of_hex (String.sub s 1 (String.length s - 1)))
let hexz l = String.concat "" (List.map (fun z -> Printf.sprintf "%02x" (int_of_z z)) l)

let parse_items (s : string) : item list =
  let pos = ref 0 in
  let n = String.length s in
  let field () =
    let j = ref !pos in
    while !j < n && s.[!j] <> ':' && s.[!j] <> ')' && s.[!j] <> '(' do incr j done;
    let f = String.sub s !pos (!j - !pos) in
    pos := !j; f in
  let rec forest () =
    if !pos < n && s.[!pos] = '(' then begin
      let kind = s.[!pos + 1] in
      pos := !pos + 3;
      let name = chunks (field ()) in
      incr pos; (* ':' *)
      let it =
        if kind = 'o' then (let v = chunks (field ()) in Opt (name, v))
        else Sec (name, forest ()) in
      if !pos >= n || s.[!pos] <> ')' then failwith "bad items";
      incr pos;
      it :: forest ()
    end else [] in
  if s = "~" then [] else forest ()

let parse_decos (s : string) : deco list =
  if s = "~" then [] else
  List.map (fun r ->
    match String.split_on_char ':' r with
    | [lead; com; ind; m1; m2; q; tr; tc; nl] ->
      { d_lead = zbytes_of_hex lead;
        d_comments = (if com = "" then [] else List.map zbytes_of_hex (String.split_on_char '|' com));
        d_indent = zbytes_of_hex ind; d_mid1 = zbytes_of_hex m1; d_mid2 = zbytes_of_hex m2;
        d_quote = z_of_int (int_of_string q); d_trail = zbytes_of_hex tr;
        d_tcomment = (if tc = "-" then None else Some (zbytes_of_hex (String.sub tc 1 (String.length tc - 1))));
        d_brace_nl = (nl = "1") }
    | _ -> failwith ("bad deco " ^ r)) (String.split_on_char ';' s)

let rec dump_forest (f : tree list) : string =
  String.concat "" (List.map (fun (T (n, v, k)) ->
    "(x" ^ abbr n ^ "," ^ (match v with None | Some [] -> "n" | Some b -> "v" ^ abbr b) ^ "," ^ dump_forest k ^ ")") f)

(* ---- value store family *)
let op_of_string = function
  | "newv" -> ONewV | "news" -> ONewS | "newi" -> ONewI | "newg" -> ONewG | "newb" -> ONewB | "kind" -> OKind | "str" -> OStr | "vec" -> OVec
  | "iter" -> OIter | "self" -> OSelf | "buf" -> OBuf | "ref" -> ORef | "clone" -> OClone
  | s -> failwith ("bad op " ^ s)
let show_bytes l = if l = [] then "-" else abbr l
let b01 b = if b then "1" else "0"
let show_obs = function
  | BNew ok -> "N" ^ b01 ok
  | BNone -> "X"
  | BKind (r, f) -> Printf.sprintf "K%d:%s" (int_of_z r) (hexz f)
  | BStr (Inl c) -> Printf.sprintf "S!%d" (int_of_z c)
  | BStr (Inr t) -> "S" ^ show_bytes t
  | BVec (n, t) -> Printf.sprintf "V%d:%s" (int_of_z n) (show_bytes t)
  | BIter (Inl c) -> Printf.sprintf "I!%d" (int_of_z c)
  | BIter (Inr ((els, a), r)) ->
    Printf.sprintf "I%s/%d/%d"
      (if els = [] then "none" else String.concat "," (List.map (fun (str, e) -> (if str then "s" else "v") ^ show_bytes e) els))
      (int_of_z a) (int_of_z r)
  | BSelf ok -> "P" ^ b01 ok
  | BBuf (Inl c) -> Printf.sprintf "B!%d" (int_of_z c)
  | BBuf (Inr n) -> Printf.sprintf "B%d" (int_of_z n)
  | BRef r -> Printf.sprintf "R%d" (int_of_z r)
  | BClone ok -> "C" ^ b01 ok

let code z = let c = int_of_z z in if c = -9999 then "FAULT" else if c = -9998 then "FUEL" else string_of_int c

(* --raw: mpt_parse_option as patched by docs/C09_option_name_blank.diff (see [allow] in coq/C08/ParseModel.v) *)
let raw_variant = Array.exists (fun a -> a = "--raw") Sys.argv

let () =
  let ic = open_in Sys.argv.(1) in
  List.iter (fun line ->
    match split_ws line with
    | id :: "m" :: value :: ops ->
      let v = if value = "-" then [] else chunks value in
      let ol = List.map op_of_string ops in
      Printf.printf "X %s\n" line;
      Printf.printf "M %s %s L0\n" id (String.concat " " (List.map show_obs (meta_run v None ol)));
      Printf.printf "S %s %s L0\n" id (String.concat " " (List.map show_obs (spec_run v None None ol)))
    | id :: st :: acc :: items :: decos :: _ ->
      let style = (match st with "p" -> StPre | "x" -> StEnc | "y" -> StEncD | _ -> StSep) in
      let (_, al) = parse_accept (allow_variant allow_init raw_variant) (cstr acc) in
      let its = parse_items items in
      let ds = parse_decos decos in
      let text = print style ds its in
      let itext = List.map int_of_z text in
      let fmt = (match style_fmt style with None -> "N" | Some f -> "s" ^ hexz f) in
      Printf.printf "X %s %s %s %s\n" id fmt acc (rle itext);
      let (ret, tr) = parse_tree style al text in
      Printf.printf "M %s t%d.%08x r%s d%s L0\n" id (List.length itext) (fnv itext) (code ret) (dump_forest tr);
      (* the specification is the full claim: names with white space wherever the style can carry it, that is
         well-formedness for the patched variant of mpt_parse_option whatever variant the model runs *)
      if wf_items style (allow_variant al true) its then
        Printf.printf "S %s t* r0 d%s L0\n" id (dump_forest (abs_items its))
      else
        Printf.printf "S %s t* r* d* L0\n" id
    | _ -> ()) (read_lines ic)
