(* C20 driver: one case per line (language: harness/c20_ops.h)
     <id> <impl> <kind> <op> ...      |  <id> <impl> pm <mlen> <match> <names..>  |  <id> <impl> col <text>
   prints "M <id> tok..." (mechanism model) and "S <id> tok..." (specification).
   Floats are bit patterns; what libc/the FPU would answer is part of the case (text after "~"). *)
let z_of_int n = if n = 0 then Z0 else if n > 0 then Zpos (pos_of_int n) else Zneg (pos_of_int (-n))
let int_of_z z = match z with Z0 -> 0 | Zpos p -> int_of_pos p | Zneg p -> - (int_of_pos p)
let unhex s = if s = "-" || s = "" then [] else bytes_of_hex s
let hexs l = String.concat "" (List.map (fun b -> Printf.sprintf "%02x" (int_of_n b)) l)
(* arbitrary size numerals through the extracted arithmetic *)
let n_of_digits base s =
  let b = n_of_int base in
  let r = ref N0 in
  String.iter (fun c ->
    let d = match c with '0'..'9' -> Char.code c - 48 | 'a'..'f' -> Char.code c - 87 | 'A'..'F' -> Char.code c - 55 | _ -> failwith ("digit " ^ s) in
    r := N.add (N.mul !r b) (n_of_int d)) s;
  !r
let z_of_dec s =
  if s <> "" && s.[0] = '-' then (match n_of_digits 10 (String.sub s 1 (String.length s - 1)) with N0 -> Z0 | Npos p -> Zneg p)
  else (match n_of_digits 10 s with N0 -> Z0 | Npos p -> Zpos p)
let n_of_hex s = n_of_digits 16 s
(* hex rendering of an N of any size, fixed width *)
let hex_of_n width n =
  let rec bits p = match p with XH -> [1] | XO q -> 0 :: bits q | XI q -> 1 :: bits q in
  let bl = match n with N0 -> [] | Npos p -> bits p in         (* least significant first *)
  let rec nib l = match l with
    | [] -> []
    | a :: r -> let b, r = (match r with [] -> 0, [] | x :: r -> x, r) in
                let c, r = (match r with [] -> 0, [] | x :: r -> x, r) in
                let d, r = (match r with [] -> 0, [] | x :: r -> x, r) in
                (a + 2*b + 4*c + 8*d) :: nib r in
  let ns = nib bl in
  let ns = ns @ List.init (max 0 (width - List.length ns)) (fun _ -> 0) in
  String.concat "" (List.rev_map (fun d -> Printf.sprintf "%x" d) ns)

let split_on c s = String.split_on_char c s
let cut_tilde s = match split_on '~' s with x :: r -> x, r | [] -> "", []

let parse_forc s = match split_on '/' s with
  | [e; o; b] -> { fo_end = z_of_int (int_of_string e); fo_ovf = (o = "1"); fo_bits = if b = "nan" then n_of_hex "7fc00000" else n_of_hex b }
  | _ -> failwith ("forc " ^ s)
let no_forc = { fo_end = Z0; fo_ovf = false; fo_bits = N0 }
let parse_torc l = match l with
  | [a; b; c] -> { or_f1 = parse_forc a; or_d1 = parse_forc b; or_f2 = parse_forc c }
  | [a; b] -> { or_f1 = parse_forc a; or_d1 = parse_forc b; or_f2 = no_forc }
  | _ -> { or_f1 = no_forc; or_d1 = no_forc; or_f2 = no_forc }

let parse_text s = if s = "N" then None else Some (unhex s)
let parse_name s = if s = "N" then None else if s = "E" then Some [] else Some (unhex s)

let parse_src s =
  match s.[0] with
  | 'R' -> XReset
  | 'O' -> XOther
  | 'T' -> let t, o = cut_tilde (String.sub s 1 (String.length s - 1)) in XText (parse_text t, parse_torc o)
  | 'V' ->
    let ty = s.[1] in
    let pl, ex = cut_tilde (String.sub s 3 (String.length s - 3)) in
    XValue (match ty with
      | 'b' | 'y' | 'n' | 'q' | 'i' | 'u' | 'x' | 't' ->
        let f32, f64 = (match ex with [e] -> (match split_on '/' e with [a; b] -> n_of_hex a, n_of_hex b | _ -> N0, N0) | _ -> N0, N0) in
        VI (n_of_int (Char.code ty), z_of_dec pl, f32, f64)
      | 'c' -> VC (z_of_dec pl)
      | 'f' -> VF (n_of_hex pl, (match ex with [e] -> n_of_hex e | _ -> N0))
      | 'd' -> VD (n_of_hex pl, (match ex with [e] when e <> "o" -> Some (n_of_hex e) | _ -> None))
      | 's' -> VS (parse_text pl)
      | 'C' -> let b i = n_of_hex (String.sub pl (2*i) 2) in VCol (b 0, b 1, b 2, b 3)
      | 'L' -> let b i = n_of_hex (String.sub pl (2*i) 2) in VLat (b 0, b 1, b 2, b 3)
      | 'P' -> (match split_on ',' pl with [x; y] -> VPt (n_of_hex x, n_of_hex y) | _ -> failwith "VP")
      | _ -> failwith ("value type " ^ s))
  | _ -> failwith ("src " ^ s)

let rec parse_ops toks = match toks with
  | [] -> []
  | "set" :: tg :: n :: s :: r -> OpSet (tg = "b", parse_name n, parse_src s) :: parse_ops r
  | "get" :: tg :: n :: r -> OpGet (tg = "b", (match parse_name n with Some b -> b | None -> [])) :: parse_ops r
  | "sp" :: tg :: fl :: n :: s :: r -> OpSp (tg = "b", z_of_int (int_of_string fl), parse_name n, parse_src s) :: parse_ops r
  | t :: _ -> failwith ("bad op " ^ t)

let cstring l = String.concat "" (List.map (fun b -> String.make 1 (Char.chr (int_of_n b))) l)

let show_val ty v = match v with
  | PStr None -> "s:~"
  | PStr (Some []) -> "s:-"
  | PStr (Some b) -> "s:" ^ hexs b
  | PF64 b -> "d:" ^ hex_of_n 16 b
  | PF32 b -> "f:" ^ hex_of_n 8 b
  | PInt z -> "i:" ^ string_of_int (int_of_z z)
  | PChr z -> "c:" ^ string_of_int (int_of_z z)
  | PCol (a, r, g, b) -> Printf.sprintf "C:%02x%02x%02x%02x" (int_of_n a) (int_of_n r) (int_of_n g) (int_of_n b)
  | PPt (x, y) -> "P:" ^ hex_of_n 8 x ^ ";" ^ hex_of_n 8 y
  | PNone -> (match ty with TBadType raw -> "?" ^ string_of_int (int_of_z raw) | _ -> "?null")

let show_ent e =
  let r = int_of_z e.pe_ret in
  cstring e.pe_name ^ "=" ^ show_val e.pe_type e.pe_val ^ (if r > 0 then "*" else if r < 0 then "!E" ^ string_of_int (-r) else "")
let show_dump l = String.concat "," (List.map show_ent l)
let show_rtok t = match t with
  | RK -> "K"
  | RE e -> "E" ^ string_of_int (int_of_z e)
  | RG p -> "G:" ^ show_ent p
  | RKn n -> "K" ^ string_of_int (int_of_z n)
let show_out ((t, a), b) = show_rtok t ^ "|" ^ show_dump a ^ "|" ^ show_dump b

let kind_index k = match k with "axis" -> 0 | "line" -> 1 | "text" -> 2 | "graph" -> 3 | "world" -> 4 | _ -> failwith ("kind " ^ k)

let show_col c = Printf.sprintf "%02x%02x%02x%02x" (int_of_n c.c_a) (int_of_n c.c_r) (int_of_n c.c_g) (int_of_n c.c_b)

(* specification side *)
let show_sent e = cstring e.se_name ^ "=" ^ show_val TStr e.se_val ^ (if e.se_diff then "*" else "")
let show_sdump l = String.concat "," (List.map show_sent l)
let show_stok t = match t with
  | TK -> "K"
  | TR -> "R"
  | TG e -> "G:" ^ show_sent e
  | TKn n -> "K" ^ string_of_int (int_of_z n)
let show_sout ((t, a), b) = show_stok t ^ "|" ^ show_sdump a ^ "|" ^ show_sdump b

(* ---- mpt++-only operations ---- *)
let parse_which w = match w with
  | "value" -> WValue | "font" -> WFont | "alias" -> WAlias | "lfont" -> WLfont | _ -> failwith ("cset " ^ w)
let parse_req r = match r with
  | "me" -> QMe | "cptr" -> QCptr | "obj" -> QObj | "meta" -> QMeta | "grp" -> QGrp | "coll" -> QColl
  | "otherptr" -> QOtherPtr | "str" -> QStr | "fmt0" -> QFmt0 | "color" -> QColor | "lattr" -> QLattr | "line" -> QLine
  | _ -> QBad
let rec nat_of_int n = if n <= 0 then O else S (nat_of_int (n - 1))
let rec parse_xops_i impl toks = let parse_xops = parse_xops_i impl in match toks with
  | [] -> []
  | "gbindl" :: tg :: r -> XGbindl (tg = "b") :: parse_xops r
  | "gbindo" :: tg :: r -> XGbindo (tg = "b") :: parse_xops r
  | "gview" :: tg :: r -> XGview (tg = "b") :: parse_xops r
  | "gcyc" :: tg :: pos :: r -> XGcyc (tg = "b", z_of_int (int_of_string pos)) :: parse_xops r
  | "gscyc" :: tg :: pos :: r -> XGscyc (tg = "b", z_of_int (int_of_string pos)) :: parse_xops r
  | "oset" :: tg :: lg :: r -> XOset (tg = "b", lg = "L") :: parse_xops r
  | "cset" :: tg :: "tmeta" :: t :: r -> XTmeta (tg = "b", parse_text t) :: parse_xops r
  | "tot" :: tg :: r -> XTot (tg = "b") :: parse_xops r
  | "pinfo" :: tg :: r -> XPinfo (tg = "b", impl = "x") :: parse_xops r
  | "set" :: tg :: n :: s :: r -> XBase (OpSet (tg = "b", parse_name n, parse_src s)) :: parse_xops r
  | "get" :: tg :: n :: r -> XBase (OpGet (tg = "b", (match parse_name n with Some b -> b | None -> []))) :: parse_xops r
  | "sp" :: tg :: fl :: n :: s :: r -> XBase (OpSp (tg = "b", z_of_int (int_of_string fl), parse_name n, parse_src s)) :: parse_xops r
  | "clone" :: tg :: r -> XClone (tg = "b") :: parse_xops r
  | "cpy" :: tg :: r -> XCpy (tg = "b") :: parse_xops r
  | "cset" :: tg :: w :: t :: r -> XCset (tg = "b", parse_which w, parse_text t) :: parse_xops r
  | "conv" :: tg :: q :: r -> XConv (tg = "b", parse_req q) :: parse_xops r
  | "lreset" :: tg :: r -> XLreset (tg = "b") :: parse_xops r
  | "gadd" :: tg :: what :: n :: r -> XGadd (tg = "b", what = "axis", parse_name n) :: parse_xops r
  | "gitem" :: tg :: ty :: n :: p :: t :: r ->
    let tx, o = cut_tilde (String.sub t 1 (String.length t - 1)) in
    XGitem (tg = "b", unhex ty, parse_name n, parse_name p, parse_text tx, parse_torc o) :: parse_xops r
  | "gbind" :: tg :: r -> XGbind (tg = "b") :: parse_xops r
  | "gtr" :: tg :: r -> XGtr (tg = "b") :: parse_xops r
  | t :: _ -> failwith ("bad op " ^ t)
let parse_xops toks = parse_xops_i "x" toks

(* ---- layout files: entry tokens  p:<name>:<T text>  i:<key>  e  r:<raw> ---- *)
let parse_fprop t =
  match String.split_on_char ':' t with
  | [_; n; v] ->
    let tx, o = cut_tilde (String.sub v 1 (String.length v - 1)) in
    { fp_name = unhex n; fp_text = (match parse_text tx with Some b -> b | None -> []); fp_orc = parse_torc o }
  | _ -> failwith ("entry " ^ t)
let key_of t = unhex (String.sub t 2 (String.length t - 2))
(* entries of a section up to its closing token: (entries, rest) *)
let rec leaf_props toks = match toks with
  | "e" :: r -> [], r
  | t :: r when t.[0] = 'p' -> let ps, r' = leaf_props r in parse_fprop t :: ps, r'
  | t :: _ -> failwith ("layout file: nested section in an item: " ^ t)
  | [] -> failwith "layout file: unclosed section"
let rec sect_ents toks = match toks with
  | "e" :: r -> [], r
  | t :: r when t.[0] = 'p' -> let es, r' = sect_ents r in GEProp (parse_fprop t) :: es, r'
  | t :: r when t.[0] = 'i' ->
    let ps, r1 = leaf_props r in
    let es, r2 = sect_ents r1 in
    GEItem { fl_key = key_of t; fl_props = ps } :: es, r2
  | t :: _ -> failwith ("layout file: " ^ t)
  | [] -> failwith "layout file: unclosed section"
let rec top_ents toks = match toks with
  | [] -> []
  | t :: r when t.[0] = 'p' -> TEProp (parse_fprop t) :: top_ents r
  | t :: r when t.[0] = 'r' -> TERaw :: top_ents r
  | t :: r when t.[0] = 'i' -> let es, r' = sect_ents r in TESect { fs_key = key_of t; fs_ents = es } :: top_ents r'
  | t :: _ -> failwith ("layout file: " ^ t)
let rec take n l = if n <= 0 then [], l else match l with x :: r -> let a, b = take (n - 1) r in x :: a, b | [] -> failwith "lload: count"
let rec parse_lxops toks = match toks with
  | [] -> []
  | "lload" :: tg :: n :: r -> let es, r' = take (int_of_string n) r in LF (tg = "b", LLoad (top_ents es)) :: parse_lxops r'
  | "lagain" :: tg :: r -> LF (tg = "b", LAgain) :: parse_lxops r
  | "lopen" :: tg :: m :: r -> LF (tg = "b", (if m = "N" then LOpenNull else LOpenMissing)) :: parse_lxops r
  | "lreset" :: tg :: r -> LF (tg = "b", LReset) :: parse_lxops r
  | _ ->
    (* one operation of the common language: find its length by parsing *)
    let rec try_n n = if n > List.length toks then failwith ("bad op " ^ List.hd toks) else
      let hd, tl = take n toks in
      (match (try Some (parse_xops hd) with _ -> None) with
       | Some [p] -> LX p :: parse_lxops tl
       | _ -> try_n (n + 1)) in
    try_n 2

let show_cret r = match r with
  | CrErr e -> "E" ^ string_of_int (int_of_z e) | CrMe -> "me" | CrCptr -> "cptr" | CrObj -> "obj" | CrMeta -> "meta"
  | CrArr -> "arr" | CrColl -> "coll" | CrColor -> "color" | CrLattr -> "lattr" | CrLine -> "line" | CrGrp -> "grp"
let show_cpay p = match p with
  | CpNone -> "" | CpSelf -> ":self"
  | CpFmt b -> ":" ^ (if b = [] then "" else hexs b)
  | CpColor c -> ":" ^ show_col c
  | CpLattr l -> Printf.sprintf ":%02x%02x%02x%02x" (int_of_z l.la_style) (int_of_z l.la_width) (int_of_z l.la_symbol) (int_of_z l.la_size)
  | CpLine (c, fx) -> ":" ^ show_col c ^ "," ^ hex_of_n 8 fx
let show_oname n = match n with None -> "~" | Some [] -> "-" | Some b -> hexs b
let show_bound ax wl =
  String.concat "" (List.map (fun (n, a) -> Printf.sprintf "a(%s;%s;%d;%d)" (show_oname n) (hex_of_n 16 a.ax_begin)
                               (int_of_z a.ax_intv) (int_of_z a.ax_format)) ax)
  ^ String.concat "" (List.map (fun (n, w) -> Printf.sprintf "w(%s;%d)" (show_oname n) (int_of_z w.wl_cyc)) wl)
let show_ghead h = match h with
  | GhK -> "K" | GhR -> "R" | GhKn n -> "K" ^ string_of_int (int_of_z n) | GhE e -> "E" ^ string_of_int (int_of_z e)
  | GhT (fl, u0, lims) ->
    "T1:" ^ String.concat "," (List.map (fun f -> string_of_int (int_of_z f)) fl)
    ^ ";d3;u0" ^ (if u0 then "1" else "0") ^ ";f0"
    ^ (match lims with
       | None -> ";~;~;~"
       | Some l -> String.concat "" (List.map (fun (lo, hi) -> ";" ^ hex_of_n 16 lo ^ "," ^ hex_of_n 16 hi) l))
    ^ ";~"
let obj_letter o = match o with OAxis _ -> "a" | OWorld _ -> "w" | OLine _ -> "l" | OText _ -> "t" | OGraph _ -> "g"
let show_vname n = match n with None -> "~" | Some [] -> "-" | Some b -> hexs b
let show_level l = String.concat "" (List.map (fun (n, o) -> "i(" ^ show_vname n ^ ";" ^ obj_letter o ^ ";" ^ show_dump (obj_props o) ^ ")") l)
let show_bound_full ax wl =
  String.concat "" (List.map (fun (n, o) -> "a(" ^ show_vname n ^ ";" ^ show_dump (obj_props o) ^ ")") ax)
  ^ String.concat "" (List.map (fun (n, o) -> "w(" ^ show_vname n ^ ";" ^ show_dump (obj_props o) ^ ")") wl)
let show_xres r = match r with
  | XRtok t -> show_rtok t
  | XBool b -> if b then "B1" else "B0"
  | XConvR (r, p) -> "V" ^ show_cret r ^ show_cpay p
  | XGraphR (h, ax, wl) -> show_ghead h ^ ":" ^ show_bound ax wl
  | XViewR (items, ax, wl) ->
    "W[" ^ show_level items ^ "]" ^ show_bound_full (List.map (fun (n, a) -> (n, OAxis a)) ax) (List.map (fun (n, w) -> (n, OWorld w)) wl)
  | XCycR None -> "C~"
  | XCycR (Some n) -> "C" ^ string_of_int (int_of_z n)
  | XTotR e -> "G:" ^ show_ent e
  | XPinfoR me -> if me then "Pme" else "Pc"
  | XUnsup -> "?"
let show_xout ((t, a), b) = show_xres t ^ "|" ^ show_dump a ^ "|" ^ show_dump b
(* specification: convert() and the graph's item handling are the mechanism's own results (taken from the model),
   the bool of the direct setters is left to the projection *)
let show_xshead t mt = match t with
   | XsTok st -> show_stok st
   | XsBool -> "B"
   | XsOpen -> show_xres mt
   | XsTot changed ->
     (* whole-object query: a change of a listed property must be reported; members that are no property are the
        mechanism's (taken from the model) *)
     (match mt with
      | XTotR e -> "G:" ^ cstring e.pe_name ^ "=?0" ^ (if changed || int_of_z e.pe_ret > 0 then "*" else "")
      | _ -> "?")
   | XsUnsup -> "?"
let show_xsout ((t, a), b) ((mt, _), _) = show_xshead t mt ^ "|" ^ show_sdump a ^ "|" ^ show_sdump b

(* ---- class layout with items ---- *)
let show_graphs f gs = String.concat "" (List.map (fun ((n, o), i) ->
  "g(" ^ show_vname n ^ ";" ^ (match i with Some k -> string_of_int (int_of_nat k) | None -> "new") ^ ")") gs)
let show_scale (x, y) = hex_of_n 8 x ^ ";" ^ hex_of_n 8 y
let show_tops letter dump tops =
  String.concat "" (List.map (fun t ->
    "i(" ^ show_vname t.tn_name ^ ";" ^ letter t.tn_obj ^ ";" ^ dump t.tn_obj
    ^ (if letter t.tn_obj = "g" then
         ";[" ^ String.concat "" (List.map (fun (n, o) -> "i(" ^ show_vname n ^ ";" ^ letter o ^ ";" ^ dump o ^ ")") t.tn_items) ^ "]"
         ^ String.concat "" (List.map (fun (n, o) -> "a(" ^ show_vname n ^ ";" ^ dump o ^ ")") t.tn_axes)
         ^ String.concat "" (List.map (fun (n, o) -> "w(" ^ show_vname n ^ ";" ^ dump o ^ ")") t.tn_worlds)
       else "") ^ ")") tops)
let m_dump o = show_dump (obj_props o)
let s_letter (k, _) = match k with KAxis -> "a" | KWorld -> "w" | KLine -> "l" | KText -> "t" | KGraph -> "g"
let s_dump (k, a) = show_sdump (sdump k a)
let show_lres r = match r with
  | LBool b -> if b then "B1" else "B0"
  | LLoaded (b, v) -> "L" ^ (if b then "1" else "0") ^ ":" ^ show_tops obj_letter m_dump v.lv_tops ^ "/" ^ show_graphs () v.lv_graphs
                      ^ "/" ^ show_scale v.lv_scale
let show_llout ((t, a), b) = (match t with LXR r -> show_xres r | LFR r -> show_lres r) ^ "|" ^ show_dump a ^ "|" ^ show_dump b
let show_slout ((t, a), b) ((mt, _), _) =
  (match t, mt with
   | SLXR r, LXR mr -> show_xshead r mr
   | SLFR SLBool, _ -> "B"
   | SLFR (SLLoaded (b, v)), _ -> "L" ^ (if b then "1" else "0") ^ ":" ^ show_tops s_letter s_dump v.slv_tops ^ "/" ^ show_graphs () v.slv_graphs
                                  ^ "/" ^ show_scale v.slv_scale
   | _, _ -> "?") ^ "|" ^ show_sdump a ^ "|" ^ show_sdump b
let abs_of o = List.map (fun e -> (e.pe_name, e.pe_val)) (obj_listed o)

let () =
  let ic = open_in Sys.argv.(1) in
  List.iter (fun line ->
    match split_ws line with
    | id :: impl :: "pm" :: mlen :: m :: names ->
      let ml = z_of_int (int_of_string mlen) and nb = List.map unhex names in
      let r = (match parse_name m with None -> -1 | Some mb -> int_of_z (property_match mb ml nb Z0)) in
      Printf.printf "M %s %s\n" id (if r < 0 then "E" ^ string_of_int (-r) else "M" ^ string_of_int r);
      let sr = (match parse_name m with None -> None | Some mb -> spec_match mb ml nb) in
      Printf.printf "S %s %s\n" id (match sr with None -> "R" | Some i -> "M" ^ string_of_int (int_of_nat i))
    | id :: impl :: "lat" :: cur :: w :: st :: sy :: sz :: _ ->
      let zi x = z_of_int (int_of_string x) in
      let c = (match List.map int_of_string (String.split_on_char ',' cur) with [a; b; c; d] -> (a, b, c, d) | _ -> failwith "lat") in
      let (w0, s0, y0, z0) = c in
      let a0 = { la_style = z_of_int s0; la_width = z_of_int w0; la_symbol = z_of_int y0; la_size = z_of_int z0 } in
      let show a = Printf.sprintf "%d,%d,%d,%d" (int_of_z a.la_width) (int_of_z a.la_style) (int_of_z a.la_symbol) (int_of_z a.la_size) in
      let r, a1 = lattr_set4 a0 (zi w) (zi st) (zi sy) (zi sz) in
      Printf.printf "M %s %s|%s E1\n" id (match r with SOk -> "K0" | SFail e -> "E" ^ string_of_int (int_of_z e)) (show a1);
      (match spec_lattr4 (zi w) (zi st) (zi sy) (zi sz) with
       | Some (((a, b), c), d) -> Printf.printf "S %s K0|%d,%d,%d,%d R\n" id (int_of_z a) (int_of_z b) (int_of_z c) (int_of_z d)
       | None -> Printf.printf "S %s R|%s R\n" id (show a0))
    | id :: impl :: "col" :: txt :: _ ->
      let t = parse_name txt in
      let toks dec = (match dec with
        | None -> ["E|11223344"; "qE"]
        | Some c ->
          let printed = color_print c in
          let again = (match color_parse (Some printed) with None -> "E" | Some d -> show_col d) in
          ["K|" ^ show_col c; "qK"] @ (if impl = "x" then ["p:" ^ hexs printed ^ "|" ^ again] else [])) in
      let m = color_parse t in
      Printf.printf "M %s %s\n" id (String.concat " " (toks m));
      (* the strict grammar is binding; other text is accepted or refused as the parser decides, but an accepted
         colour must survive print + parse *)
      let strict = (match t with
        | None | Some [] -> Some { c_a = n_of_int 255; c_r = N0; c_g = N0; c_b = N0 }
        | Some b -> (match spec_colour_strict b with
                     | Some (((a, r), g), bl) -> Some { c_a = a; c_r = r; c_g = g; c_b = bl }
                     | None -> m)) in
      let stoks = (match strict with
        | None -> ["R|11223344"; "qR"]
        | Some c -> ["K|" ^ show_col c; "qK"] @ (if impl = "x" then ["p:" ^ hexs (color_print c) ^ "|" ^ show_col c] else [])) in
      Printf.printf "S %s %s\n" id (String.concat " " stoks)
    | id :: "x" :: kind :: ops ->
      (* mpt++ objects: constructor argument behind ':', additional operations, class layout *)
      let kname, karg = (match String.split_on_char ':' kind with
        | [k; a] -> k, Some (z_of_int (int_of_string a)) | _ -> kind, None) in
      if kname = "layout" then begin
        let lops = parse_lxops ops in
        let m = llrun (ls_init, ls_init) lops in
        Printf.printf "M %s %s Z\n" id (String.concat " " (List.map show_llout m));
        Printf.printf "S %s %s Z\n" id (String.concat " " (List.map2 show_slout (slrun (sl_init, sl_init) lops) m))
      end else begin
      let xops = parse_xops ops in
        let kn = n_of_int (kind_index kname) in
        let o = cxx_construct kn karg in
        let st = { xa = o; xb = o; xga = gx_empty; xgb = gx_empty } in
        let m = xrun st xops in
        Printf.printf "M %s %s Z\n" id (String.concat " " (List.map show_xout m));
        let sk = kind_no kn in
        let d0 = abs_of o in
        Printf.printf "S %s %s Z\n" id (String.concat " " (List.map2 show_xsout (xsrun sk (d0, d0) xops) m))
      end
    | id :: "c" :: kind :: ops when List.mem "tot" ops || List.mem "pinfo" ops ->
      (* the C API with the whole-object query / the query without record: same operations, objects from the C initialisers *)
      let kn = n_of_int (kind_index kind) in
      let o = default_of kn in
      let xops = parse_xops_i "c" ops in
      let st = { xa = o; xb = o; xga = gx_empty; xgb = gx_empty } in
      let m = xrun st xops in
      Printf.printf "M %s %s Z\n" id (String.concat " " (List.map show_xout m));
      let sk = kind_no kn in
      let d0 = abs_of o in
      Printf.printf "S %s %s Z\n" id (String.concat " " (List.map2 show_xsout (xsrun sk (d0, d0) xops) m))
    | id :: impl :: kind :: ops ->
      let kn = n_of_int (kind_index kind) in
      (* mpt++ objects start from their constructors (proved to show the same defaults and to meet the invariant) *)
      let o = if impl = "x" then cxx_new kn else default_of kn in
      let ops = parse_ops ops in
      Printf.printf "M %s %s Z\n" id (String.concat " " (List.map show_out (mrun (o, o) ops)));
      let sk = kind_no kn in
      let d = defaults sk in
      Printf.printf "S %s %s Z\n" id (String.concat " " (List.map show_sout (srun sk (d, d) ops)))
    | _ -> ()) (read_lines ic)
