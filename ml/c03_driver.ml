(* C03 driver: <id> <variant> <slack> <frags> <stream hex> <op>... *)
let errno e = match e with
  | BadArgument -> -1 | BadValue -> -2 | BadType -> -3 | BadOperation -> -4 | BadEncoding -> -8
  | MissingData -> -16 | MissingBuffer -> -17 | ERange -> -34 | EInval -> -22
let rec parse_ops toks = match toks with
  | [] -> []
  | "vis" :: n :: r -> DVis (nat_of_int (int_of_string n)) :: parse_ops r
  | "dec" :: r -> DDec :: parse_ops r
  | "peek" :: r -> DPeek :: parse_ops r
  | "reset" :: r -> DReset :: parse_ops r
  | "size" :: n :: r -> DSize (nat_of_int (int_of_string n)) :: parse_ops r
  | t :: _ -> failwith ("bad op " ^ t)
let show_r r = match r with DMsg -> "1" | DMore -> "0" | DErr e -> string_of_int (errno e) | DFault -> "F"
let rec take n l = if n <= 0 then [] else match l with [] -> [] | x :: r -> x :: take (n-1) r
let rec drop n l = if n <= 0 then l else match l with [] -> [] | _ :: r -> drop (n-1) r
let show o = match o with
  | ONone -> "-"
  | ONum n -> "N:" ^ string_of_int (int_of_nat n)
  | OSpec l -> "L:" ^ String.concat "," (List.map (fun x -> match x with Some m -> hex_of_bytes m | None -> "X") l)
  | ODec (r, st, img) ->
    let msg = match r, st.dmsg with
      | DMsg, Some k -> hex_of_bytes (take (int_of_nat k) (drop (int_of_nat st.dpos) img))
      | _ -> "-" in
    Printf.sprintf "D:%s|%d,%d,%d,%d,%d,%d|%s|%s" (show_r r) (int_of_nat st.dcode) (int_of_nat st.dpos8)
      (int_of_nat st.dcurr) (int_of_nat st.dpos) (int_of_nat st.dlen)
      (match st.dmsg with Some k -> int_of_nat k | None -> -1) msg (hex_of_bytes img)
let variant i = match i with 0 -> v_cobs | 1 -> v_cobs_r | 2 -> v_zpe | _ -> v_zpe_r
let () =
  let ic = open_in Sys.argv.(1) in
  List.iter (fun line ->
    match split_ws line with
    | id :: v :: slack :: frags :: stream :: ops ->
      let slack = int_of_string slack in
      let stream = bytes_of_hex stream in
      let buf = List.init slack (fun _ -> n_of_int 0xee) @ stream in
      let total = List.length buf in
      let fl = List.map int_of_string (String.split_on_char ',' frags) in
      let rec fit pos l = match l with
        | [] -> []
        | [x] -> [total - pos]
        | x :: r -> let x = if pos + x > total then total - pos else x in x :: fit (pos + x) r in
      let fl = fit 0 fl in
      let w = { wbuf = buf; wfrags = List.map nat_of_int fl; wvis = O; wst = dinit (nat_of_int slack) } in
      let ops = parse_ops ops in
      if int_of_string v = 4 then begin
        (* mpt_decode_command against Cobs/TextModel.cmd_call on the flat view of the readable bytes;
           specification: the command header followed by each zero-terminated text of the stream *)
        let st = ref { tcurr = nat_of_int slack; tpos = O; tlen = O; tmsg = None } in
        let cur = ref buf and vis = ref 0 in
        let toks = List.map (fun o -> match o with
          | DVis n -> vis := min (int_of_nat n) total; "-"
          | DDec ->
            let ((r, st'), img) = cmd_call !st (take !vis !cur) in
            st := st'; cur := img @ drop !vis !cur;
            let rc = match r with TMsg -> "1" | TMore -> "0" | TErr e -> string_of_int (errno e) in
            let msg = match r, st'.tmsg with
              | TMsg, Some k -> hex_of_bytes (take (int_of_nat k) (drop (int_of_nat st'.tpos) img))
              | _ -> "-" in
            Printf.sprintf "D:%s|0,0,%d,%d,%d,%d|%s|%s" rc (int_of_nat st'.tcurr) (int_of_nat st'.tpos) (int_of_nat st'.tlen)
              (match st'.tmsg with Some k -> int_of_nat k | None -> -1) msg (hex_of_bytes img)
          | DReset -> st := { tcurr = O; tpos = O; tlen = O; tmsg = None }; "-"
          | _ -> "?") ops in
        Printf.printf "M %s %s\n" id (String.concat " " toks);
        let rec bodies acc curb l = match l with
          | [] -> List.rev acc
          | b :: r -> if int_of_n b = 0 then bodies (List.rev curb :: acc) [] r else bodies acc (b :: curb) r in
        let frames = List.map (fun b -> hex_of_bytes (cmd_header @ b)) (bodies [] [] stream) in
        let sline = "L:" ^ String.concat "," frames in
        Printf.printf "S %s %s\n" id (String.concat " " (List.map (fun o -> match o with DDec | DPeek -> sline | _ -> "-") ops))
      end else begin
      let v = variant (int_of_string v) in
      Printf.printf "M %s %s\n" id (String.concat " " (List.map show (drun v w ops)));
      Printf.printf "S %s %s\n" id (String.concat " " (List.map show (dsrun v stream ops))) end
    | _ -> ()) (read_lines ic)
