(* shared conversions between OCaml ints/strings and the extracted nat/N/positive;
   textually included after `open <Model>` so that it binds that module's types *)
let rec nat_of_int_acc n acc = if n <= 0 then acc else nat_of_int_acc (n-1) (S acc)
let nat_of_int n = nat_of_int_acc n O
let int_of_nat n = let rec go n acc = match n with O -> acc | S m -> go m (acc+1) in go n 0
let rec pos_of_int n = if n <= 1 then XH else if n land 1 = 1 then XI (pos_of_int (n lsr 1)) else XO (pos_of_int (n lsr 1))
let n_of_int n = if n = 0 then N0 else Npos (pos_of_int n)
let rec int_of_pos p = match p with XH -> 1 | XO q -> 2 * int_of_pos q | XI q -> 2 * int_of_pos q + 1
let int_of_n n = match n with N0 -> 0 | Npos p -> int_of_pos p
let bytes_of_hex s =
  if s = "-" then [] else
  let l = String.length s / 2 in
  List.init l (fun i -> n_of_int (int_of_string ("0x" ^ String.sub s (2*i) 2)))
let hex_of_bytes l =
  if l = [] then "-" else String.concat "" (List.map (fun b -> Printf.sprintf "%02x" (int_of_n b)) l)
let split_ws s = List.filter (fun t -> t <> "") (String.split_on_char ' ' s)
let read_lines ic =
  let rec go acc = match input_line ic with l -> go (l :: acc) | exception End_of_file -> List.rev acc in go []
