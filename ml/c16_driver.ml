(* C16 driver: one case per line
     <id> s<size>|w<len>|t32 ... -- <op> <args> ...      (see harness/c16_ident.c, harness/c16_cxx.cpp)
   prints "M <id> tok..." (mechanism model) and "S <id> tok..." (specification). *)
let gen_byte seed i = 1 + ((seed * 31 + i * 7 + i / 253) mod 255)

let data_of s =
  if String.length s > 0 && s.[0] = 'g' then begin
    match String.split_on_char '.' (String.sub s 1 (String.length s - 1)) with
    | n :: seed :: rest ->
      let n = int_of_string n and seed = int_of_string seed in
      let flip = match rest with p :: _ -> int_of_string p | [] -> -1 in
      List.init n (fun i ->
        let b = gen_byte seed i in
        n_of_int (if i = flip then (if b = 255 then 1 else b + 1) else b))
    | _ -> failwith ("bad data " ^ s)
  end else bytes_of_hex s

(* item<T> (mptcore/core.h): 32 bytes, of which reference<T> takes 8; the identifier part is constructed with
   total = sizeof(identifier) + sizeof(_post) = 24 *)
let item_ident_size = 24

let optlen s = let n = int_of_string s in if n < 0 then None else Some (nat_of_int n)
let nat s = nat_of_int (int_of_string s)

let rec parse_ops toks = match toks with
  | [] -> []
  | "set" :: i :: d :: r -> let b = data_of d in OSet (nat i, Some b, Some (nat_of_int (List.length b))) :: parse_ops r
  | "setz" :: i :: d :: r -> OSet (nat i, Some (data_of d @ [N0]), None) :: parse_ops r
  | "raw" :: i :: n :: r -> OSet (nat i, None, optlen n) :: parse_ops r
  | "seta" :: i :: o :: n :: r -> OSetSelf (nat i, nat o, Some (nat n)) :: parse_ops r
  | "setaz" :: i :: o :: r -> OSetSelf (nat i, nat o, None) :: parse_ops r
  | "copy" :: i :: j :: r -> OCopy (nat i, Some (nat j)) :: parse_ops r
  | "copyn" :: i :: r -> OCopy (nat i, None) :: parse_ops r
  | "cmp" :: i :: d :: r -> let b = data_of d in OCompare (nat i, Some b, Some (nat_of_int (List.length b))) :: parse_ops r
  | "cmpz" :: i :: d :: r -> OCompare (nat i, Some (data_of d @ [N0]), None) :: parse_ops r
  | "cmpn" :: i :: n :: r -> OCompare (nat i, None, optlen n) :: parse_ops r
  | "ineq" :: i :: j :: r -> OInequal (nat i, nat j) :: parse_ops r
  | "new" :: n :: r -> ONew (nat n) :: parse_ops r
  | "node" :: n :: r -> ONode (nat n) :: parse_ops r
  (* members of the C++ class identifier (harness/c16_cxx.cpp) *)
  | "xset" :: i :: d :: r -> let b = data_of d in OXSet (nat i, Some b, Some (nat_of_int (List.length b))) :: parse_ops r
  | "xsetz" :: i :: d :: r -> OXSet (nat i, Some (data_of d @ [N0]), None) :: parse_ops r
  | "xraw" :: i :: n :: r -> OXSet (nat i, None, optlen n) :: parse_ops r
  | "xeq" :: i :: d :: r -> let b = data_of d in OXEqual (nat i, Some b, Some (nat_of_int (List.length b))) :: parse_ops r
  | "xeqz" :: i :: d :: r -> OXEqual (nat i, Some (data_of d @ [N0]), None) :: parse_ops r
  | "xeqn" :: i :: n :: r -> OXEqual (nat i, None, optlen n) :: parse_ops r
  | "xname" :: i :: r -> OXName (nat i) :: parse_ops r
  | "xcopy" :: i :: j :: r -> OXAssign (nat i, nat j) :: parse_ops r
  | "xctor" :: i :: j :: r -> OXCtor (nat i, nat j) :: parse_ops r
  | "xnew" :: i :: n :: r -> OXNew (nat i, nat n) :: parse_ops r
  | "xitem" :: i :: r -> OXNew (nat i, nat_of_int item_ident_size) :: parse_ops r
  | t :: _ -> failwith ("bad op " ^ t)

let show_bytes l =
  let n = List.length l in
  if n <= 40 then hex_of_bytes l else begin
    let a = Array.of_list (List.map int_of_n l) in
    let h = ref 2166136261 in
    Array.iter (fun b -> h := ((!h lxor b) * 16777619) land 0xffffffff) a;
    let hx lo = String.concat "" (List.init 8 (fun i -> Printf.sprintf "%02x" a.(lo + i))) in
    Printf.sprintf "#%08x:%s..%s" !h (hx 0) (hx (n - 8))
  end

let err_code e = match e with
  | BadArgument -> -1 | BadValue -> -2 | BadType -> -3 | BadOperation -> -4 | BadEncoding -> -8
  | MissingData -> -16 | MissingBuffer -> -17 | _ -> -99

let show_out is_new o = match o with
  | ODone -> if is_new then "n:ok" else "D"
  | ORefused -> if is_new then "n:R" else "R"
  | OCmp CEq -> "c:0"
  | OCmp (CDiff n) -> "c:" ^ string_of_int (int_of_nat n)
  | OCmp (CErr e) -> "c:" ^ string_of_int (err_code e)
  | OEq b -> if b then "e:0" else "e:ne"
  | OSign SZero -> "q:0" | OSign SNeg -> "q:lt" | OSign SPos -> "q:gt"
  | OMax (Some m) -> "n:" ^ string_of_int (int_of_nat m)
  | OMax None -> "n:R"
  | OName None -> "N:NULL"
  | OName (Some d) -> "N:" ^ show_bytes d
  | OFault -> "F"

let show_slot ((l, c), d) = Printf.sprintf "%d.%d.%s" (int_of_nat l) (int_of_n c) (show_bytes d)

let show with_live op o = match o with
  | Crash -> "F"
  | Step (out, slots, live) ->
    let is_new = (match op with ONew _ | ONode _ -> true | _ -> false) in
    String.concat "|" (show_out is_new out :: List.map show_slot slots)
    ^ (if with_live then "|h" ^ string_of_int (int_of_nat live) else "")

let rec show_all with_live ops obs = match ops, obs with
  | op :: r, o :: s -> show with_live op o :: show_all with_live r s
  | _, _ -> []

(* node lookup by name (mpt_node_locate): line  <id> L <names "," separated> <start> <pos> <key> *)
let locate_case id names start pos key =
  let names = List.map data_of (String.split_on_char ',' names) in
  let p = if pos > 0 then LFwd (nat_of_int pos) else if pos = 0 then LLast else LBwd (nat_of_int (- pos)) in
  let show r = match r with Some i -> "F:" ^ string_of_int (int_of_nat i) | None -> "F:-" in
  Printf.printf "M %s %s\n" id (show (locate names (nat_of_int start) p (data_of key)));
  Printf.printf "S %s %s\n" id (show (locate_spec names (nat_of_int start) p (data_of key)))

let () =
  let ic = open_in Sys.argv.(1) in
  List.iter (fun line ->
    match split_ws line with
    | id :: "L" :: names :: start :: pos :: key :: _ -> locate_case id names (int_of_string start) (int_of_string pos) key
    | id :: rest ->
      let rec hdr acc l = match l with
        | "--" :: r -> (List.rev acc, r)
        | t :: r -> hdr (t :: acc) r
        | [] -> (List.rev acc, []) in
      let (slots, ops) = hdr [] rest in
      let sizes = List.filter_map (fun t ->
        let n = int_of_string (String.sub t 1 (String.length t - 1)) in
        if t.[0] = 'w' then (match new_size (nat_of_int n) with Some s -> Some s | None -> None)
        else if t.[0] = 't' then Some (nat_of_int item_ident_size)
        else if n < 16 then None else Some (nat_of_int n)) slots in
      let w = init_world sizes in
      let ops = parse_ops ops in
      let (mo, e) = mrun_end w ops in
      let crashed = List.exists (fun o -> o = Crash) mo in
      let fin = if crashed then [] else
        [ (match e with Some k -> "end|h" ^ string_of_int (int_of_nat k) | None -> "F") ] in
      Printf.printf "M %s %s\n" id (String.concat " " (show_all true ops mo @ fin));
      Printf.printf "S %s %s\n" id (String.concat " " (show_all false ops (srun (absw w) ops) @ ["end|h0"]))
    | _ -> ()) (read_lines ic)
