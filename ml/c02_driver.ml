(* C02 driver: prints, per operation, the list of messages completely handed to the writer so far
   (specification level).  The ring mechanics of mpt_queue_push / mpt_queue_recv are not modelled:
   the M line repeats the S line and the comparison is made against the specification only. *)
let rec parse_ops toks = match toks with
  | [] -> []
  | "send" :: h :: r -> SSend (bytes_of_hex h) :: parse_ops r
  | "part" :: h :: r -> SPart (bytes_of_hex h) :: parse_ops r
  | "fin" :: r -> SFin :: parse_ops r
  | "wire" :: n :: r -> SWire (nat_of_int (int_of_string n)) :: parse_ops r
  | "recv" :: r -> SRecv :: parse_ops r
  | "drain" :: r -> SDrain :: parse_ops r
  | t :: _ -> failwith ("bad op " ^ t)
let show l = "L:" ^ (if l = [] then "" else String.concat "," (List.map (fun m -> if m = [] then "E" else hex_of_bytes m) l))
let () =
  let ic = open_in Sys.argv.(1) in
  List.iter (fun line ->
    match split_ws line with
    | id :: _ :: _ :: _ :: _ :: _ :: ops ->
      let ops = parse_ops ops in
      let out = String.concat " " (List.map show (sspec_run { sent = []; cur = []; open_ = false } ops)) in
      Printf.printf "M %s %s\n" id out;
      Printf.printf "S %s %s\n" id out
    | _ -> ()) (read_lines ic)
