(* C02 driver: <id> <variant> <wcap> <woff> <rcap> <roff> <op>...
   M line: ring-level mechanism model of the two framed queues and of the harness transport
   (coq/Cobs/QueueCodec.v, StreamRun.v): per operation  <msgs>|<status>#<writer state>#<reader state>
   S line: specification: the list of messages completely handed to the writer so far *)
let rec parse_ops toks = match toks with
  | [] -> []
  | "send" :: h :: r -> SSend (bytes_of_hex h) :: parse_ops r
  | "part" :: h :: r -> SPart (bytes_of_hex h) :: parse_ops r
  | "fin" :: r -> SFin :: parse_ops r
  | "wire" :: n :: r -> SWire (nat_of_int (int_of_string n)) :: parse_ops r
  | "recv" :: r -> SRecv :: parse_ops r
  | "drain" :: r -> SDrain :: parse_ops r
  | "peek" :: n :: r -> SPeek (nat_of_int (int_of_string n), true) :: parse_ops r
  | "peekn" :: n :: r -> SPeek (nat_of_int (int_of_string n), false) :: parse_ops r
  | "raw" :: h :: r -> SRaw (bytes_of_hex h) :: parse_ops r
  | "wopen" :: h :: r -> SOpen (bytes_of_hex h) :: parse_ops r
  | "dump" :: r -> parse_ops r
  | t :: _ -> failwith ("bad op " ^ t)
let hexm m = if m = [] then "E" else hex_of_bytes m
let show_spec l = "L:" ^ (if l = [] then "" else String.concat "," (List.map hexm l))
let rec int_of_z z = match z with Z0 -> 0 | Zpos p -> int_of_pos p | Zneg p -> - (int_of_pos p)
let show_w (e : equeue) =
  let q = e.eq_q and st = e.eq_st in
  Printf.sprintf "w:%d,%d,%d,%d,%d,%d|%s" (int_of_nat q.qoff) (int_of_nat q.qlen) (int_of_nat q.qmax)
    (int_of_nat st.edone) (int_of_nat st.escr) (if int_of_nat st.ectx <> 0 then 1 else 0) (hex_of_bytes (contents q))
let show_r (d : dqueue) =
  let q = d.dq_q and st = d.dq_st in
  Printf.sprintf "r:%d,%d,%d,%d,%d,%d,%d,%d,%d|%s" (int_of_nat q.qoff) (int_of_nat q.qlen) (int_of_nat q.qmax)
    (int_of_nat st.dcurr) (int_of_nat st.dpos) (int_of_nat st.dlen)
    (match st.dmsg with Some k -> int_of_nat k | None -> -1) (int_of_nat st.dcode) (int_of_nat st.dpos8)
    (let c = contents q in
     let rec take n l = if n <= 0 then [] else match l with [] -> [] | x :: r -> x :: take (n-1) r in
     let rec drop n l = if n <= 0 then l else match l with [] -> [] | _ :: r -> drop (n-1) r in
     hex_of_bytes (take (int_of_nat st.dlen) (drop (int_of_nat st.dpos) c)) ^ "|" ^ hex_of_bytes (drop (int_of_nat st.dcurr) c))
let show_m o = match o with
  | None -> "F"
  | Some s ->
    let msgs = if s.so_got = [] then "-" else String.concat "," (List.map hexm s.so_got) in
    let errno e = match e with
      | BadArgument -> -1 | BadValue -> -2 | BadType -> -3 | BadOperation -> -4 | BadEncoding -> -8
      | MissingData -> -16 | MissingBuffer -> -17 | ERange -> -34 | EInval -> -22 in
    let st = match s.so_stat with PSOk -> "ok" | PSFail c -> "fail" ^ string_of_int (int_of_z c)
      | PSPeek (rc, data) ->
        "ok~K" ^ (match rc with EInt n -> string_of_int (int_of_nat n) | EErr e -> string_of_int (errno e) | EFault -> "F")
        ^ ":" ^ hex_of_bytes data in
    msgs ^ "|" ^ st ^ "#" ^ show_w s.so_w ^ "#" ^ show_r s.so_r
let variant i = match i with 0 -> v_cobs | 1 -> v_cobs_r | 2 -> v_zpe | _ -> v_zpe_r
(* stream glue at mechanism level (coq/Cobs/GlueRun.v, harness/c02_glue.c): variants 30..33 *)
let z_of_int i = if i = 0 then Z0 else if i > 0 then Zpos (pos_of_int i) else Zneg (pos_of_int (- i))
let rec parse_gops toks = match toks with
  | [] -> []
  | "gpush" :: h :: r -> GPush (bytes_of_hex h) :: parse_gops r
  | "gfin" :: r -> GFin :: parse_gops r
  | "gflush" :: k :: r -> GFlush (z_of_int (int_of_string k)) :: parse_gops r
  | "gpoll" :: k :: r -> GPoll (nat_of_int (max 0 (int_of_string k))) :: parse_gops r
  | "gdisp" :: r -> GDisp :: parse_gops r
  | "gdrain" :: r -> GDrain :: parse_gops r
  | t :: _ -> failwith ("bad op " ^ t)
let show_g o = match o with
  | None -> "F"
  | Some s ->
    let msgs = if s.go_got = [] then "-" else String.concat "," (List.map hexm s.go_got) in
    msgs ^ "|ok~R" ^ string_of_int (int_of_z s.go_rc) ^ "#" ^ show_w s.go_w ^ "#" ^ show_r s.go_r
    ^ "#x:" ^ string_of_int (int_of_nat s.go_wire)
let () =
  let ic = open_in Sys.argv.(1) in
  List.iter (fun line ->
    match split_ws line with
    | id :: v :: wc :: wo :: rc :: ro :: ops ->
      let n s = nat_of_int (int_of_string s) in
      if int_of_string v >= 30 && int_of_string v < 40 then begin
        let gops = parse_gops ops in
        let w = gworld_init (n wc) (n wo) (n rc) (n ro) in
        Printf.printf "M %s %s\n" id (String.concat " " (List.map show_g (grun (variant (int_of_string v - 30)) w gops)));
        Printf.printf "S %s %s\n" id (String.concat " " (List.map show_spec
          (sspec_run { sent = []; cur = []; open_ = false } (List.map gop_sop gops))))
      end else
      begin
      let ops = parse_ops ops in
      if int_of_string v >= 10 then
        (* stream glue cases (harness/c02_io.c): no mechanism model, specification only *)
        Printf.printf "M %s %s\n" id (String.concat " " (List.map (fun _ -> "*") ops))
      else begin
      let w = world_init (n wc) (n wo) (n rc) (n ro) in
      Printf.printf "M %s %s\n" id (String.concat " " (List.map show_m (wrun (variant (int_of_string v)) w ops))) end;
      let has_raw = List.exists (fun o -> match o with SRaw _ -> true | _ -> false) ops in
      if has_raw then begin
        (* C03 ring cases: the reference decodings of the well-formed complete frames among the bytes put in so far *)
        let vv = variant (int_of_string v) in
        let acc = ref [] in
        let toks = List.map (fun o ->
          (match o with SRaw b -> acc := !acc @ b | _ -> ());
          let (bodies, _) = split_frames [] !acc in
          let decs = List.filter_map (fun b -> sdec vv b) bodies in
          show_spec decs) ops in
        Printf.printf "S %s %s\n" id (String.concat " " toks)
      end else
      Printf.printf "S %s %s\n" id (String.concat " " (List.map show_spec (sspec_run { sent = []; cur = []; open_ = false } ops)))
      end
    | _ -> ()) (read_lines ic)
