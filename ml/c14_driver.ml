(* C14 driver: one case per line
     <id> <op> <args> ...
   prints "M <id> tok..." (mechanism model: pointer heap) and "S <id> tok..." (specification: forests).
   token = <result>|<link table>|<W0/W1>|<shape>   (see harness/c14_node.c) *)
let z_of_int n = if n = 0 then Z0 else if n > 0 then Zpos (pos_of_int n) else Zneg (pos_of_int (-n))
let int_of_z z = match z with Z0 -> 0 | Zpos p -> int_of_pos p | Zneg p -> - (int_of_pos p)
let nat_s s = nat_of_int (int_of_string s)
let ptr_s s = if s = "-" then None else Some (nat_s s)
(* names: unnamed, "a","b","c", L = a text of 21 characters (does not fit the node, nor the node a clone gets),
   B = the binary identifier (no charset, one byte 'a'), M = a text of 29 characters (a clone has room for it),
   T<n> = a text of n characters *)
(* T<n> = a text of n characters (code 100 + n): the lengths around what a node has room for *)
let tname_n s =
  let l = String.length s in
  if l >= 2 && s.[0] = 'T' then (match int_of_string_opt (String.sub s 1 (l - 1)) with Some n when n >= 1 -> Some n | _ -> None)
  else None
let name_s s = nat_of_int (match s with "-" -> 0 | "a" -> 1 | "b" -> 2 | "c" -> 3 | "L" -> 4 | "B" -> 5 | "M" -> 6
  | _ -> (match tname_n s with Some n -> 100 + n | None -> failwith "name"))
let letter n = match n with 0 -> "_" | 1 -> "a" | 2 -> "b" | 3 -> "c" | 4 -> "L" | 5 -> "B" | 6 -> "M"
  | _ -> if n > 100 then Printf.sprintf "T%d:" (n - 100) else "?"
let order_s s = match s with "post" -> PostOrder | "pre" -> PreOrder | "in" -> InOrder | _ -> failwith "order"
let worder_s s = match s with "level" -> None | _ -> Some (order_s s)
let byname_s s = match s with "n" -> true | "g" -> false | _ -> failwith "g|n"
let zi s = z_of_int (int_of_string s)
(* the identifier a query (ident, len, charset) of mpt_node_locate denotes, as a name code; 99 = the identifier
   of no node; None = the call is refused (len without ident).  The same table (as the actual arguments) is in
   harness/c14_node.c:query(). *)
let query_s s = match s with
  | "ta" -> Some 1 | "tb" -> Some 2 | "tc" -> Some 3 | "tL" -> Some 4 | "tM" -> Some 6    (* (text, strlen, -1) *)
  | "t-" -> Some 99                                                      (* (NULL, 0, -1): the empty text *)
  | "pa" -> Some 1                                                       (* ("ab", 1, -1): length is honoured *)
  | "ua" -> Some 1                                                       (* ("a\0", 2, UTF8) *)
  | "xa" -> Some 99                                                      (* ("a", 1, UTF8): no terminator *)
  | "Ba" -> Some 5 | "Bb" -> Some 99                                     (* ("a"/"b", 1, 0) *)
  | "U0" -> Some 0                                                       (* (NULL, 0, 0): unnamed *)
  | "E" -> None                                                          (* (NULL, 1, 0) *)
  | "p6" | "pu" | "pn" -> Some 99                                        (* (pointer, 0, charset != 0) *)
  | _ -> failwith "query"

(* the tree a configuration text denotes: items  <name>.  (option, value code 4)  or  <name>( items )  (section);
   "-" = no element *)
let ptrees_s s =
  let n = String.length s in
  let rec items i =
    if i >= n || s.[i] = ')' then ([], i) else begin
      let nm = name_s (String.make 1 s.[i]) in
      if s.[i + 1] = '.' then
        let (r, j) = items (i + 2) in (PT (nm, nat_of_int 4, []) :: r, j)
      else if s.[i + 1] = '(' then begin
        let (k, j) = items (i + 2) in
        if j >= n || s.[j] <> ')' then failwith "tree";
        let (r, j2) = items (j + 1) in (PT (nm, nat_of_int 0, k) :: r, j2)
      end else failwith "tree"
    end in
  if s = "-" then [] else
  let (l, j) = items 0 in
  if j <> n then failwith "tree"; l

let rec parse_ops t = match t with
  | [] -> []
  | "new" :: n :: v :: r -> ONew (name_s n, nat_s v) :: parse_ops r
  (* snew: the node is made the way node_append.c makes it, mpt_node_new(length + 1); the same operation for the model *)
  | "snew" :: n :: v :: r -> ONew (name_s n, nat_s v) :: parse_ops r
  | "after" :: p :: x :: r -> OAfter (ptr_s p, ptr_s x) :: parse_ops r
  | "before" :: p :: x :: r -> OBefore (ptr_s p, ptr_s x) :: parse_ops r
  | "add" :: f :: p :: x :: r -> OAdd (false, nat_s f, z_of_int (int_of_string p), nat_s x) :: parse_ops r
  | "nadd" :: f :: p :: x :: r -> OAdd (true, nat_s f, z_of_int (int_of_string p), nat_s x) :: parse_ops r
  | "ins" :: f :: p :: x :: r -> OIns (false, nat_s f, z_of_int (int_of_string p), nat_s x) :: parse_ops r
  | "nins" :: f :: p :: x :: r -> OIns (true, nat_s f, z_of_int (int_of_string p), nat_s x) :: parse_ops r
  | "unlink" :: x :: r -> OUnlink (nat_s x) :: parse_ops r
  | "move" :: p :: d :: r -> OMove (nat_s p, nat_s d) :: parse_ops r
  | "lmove" :: p :: d :: r -> OLMove (nat_s p, nat_s d) :: parse_ops r
  | "clone" :: x :: r -> OClone (nat_s x, nat_of_int 0) :: parse_ops r
  | "lclone" :: x :: r -> OLClone (nat_s x, nat_of_int 0) :: parse_ops r
  | "tclone" :: x :: r -> OTClone (nat_s x, nat_of_int 0) :: parse_ops r
  | "fclone" :: k :: x :: r -> OClone (nat_s x, nat_s k) :: parse_ops r
  | "flclone" :: k :: x :: r -> OLClone (nat_s x, nat_s k) :: parse_ops r
  | "ftclone" :: k :: x :: r -> OTClone (nat_s x, nat_s k) :: parse_ops r
  | "loc" :: x :: p :: q :: r ->
    OLocate (nat_s x, zi p, (match query_s q with None -> None | Some n -> Some (nat_of_int n))) :: parse_ops r
  | "walk" :: o :: f :: k :: x :: r -> OWalk (worder_s o, nat_s f, nat_s x, nat_s k) :: parse_ops r
  | "zadd" :: b :: p :: x :: r -> ONull (NAdd (byname_s b, zi p, nat_s x)) :: parse_ops r
  | "zaddn" :: b :: f :: p :: r -> ONull (NAddN (byname_s b, nat_s f, zi p)) :: parse_ops r
  | "zins" :: b :: q :: p :: r -> ONull (NInsN (byname_s b, nat_s q, zi p)) :: parse_ops r
  | "zmove" :: p :: r -> ONull (NMove (nat_s p)) :: parse_ops r
  | "zpos" :: p :: r -> ONull (NPos (zi p)) :: parse_ops r
  | "zunlink" :: r -> ONull NUnlink :: parse_ops r
  | "zdestroy" :: r -> ONull NDestroy :: parse_ops r
  | "zrelink" :: r -> ONull NRelink :: parse_ops r
  | "zclone" :: r -> ONull NClone :: parse_ops r
  | "zlclone" :: r -> ONull NLClone :: parse_ops r
  | "ztclone" :: r -> ONull NTClone :: parse_ops r
  | "ztrav" :: o :: f :: r -> ONull (NTrav (worder_s o, nat_s f)) :: parse_ops r
  | "ztravh" :: x :: r -> ONull (NTravH (nat_s x)) :: parse_ops r
  | "zloc" :: p :: r -> ONull (NLocate (zi p)) :: parse_ops r
  | "zfind" :: r -> ONull NFind :: parse_ops r
  | "znext" :: r -> ONull NNext :: parse_ops r
  | "zsame" :: u :: r -> ONull (NSame (nat_s u)) :: parse_ops r
  | "zsub" :: u :: r -> ONull (NSub (nat_s u)) :: parse_ops r
  | "clear" :: x :: r -> OClear (nat_s x) :: parse_ops r
  | "destroy" :: x :: r -> ODestroy (nat_s x) :: parse_ops r
  | "swap" :: a :: b :: r -> OSwap (nat_s a, nat_s b) :: parse_ops r
  | "switch" :: a :: b :: r -> OSwitch (nat_s a, nat_s b) :: parse_ops r
  | "relink" :: x :: r -> ORelink (nat_s x) :: parse_ops r
  | "trav" :: o :: f :: x :: r -> OTrav (order_s o, nat_s f, nat_s x) :: parse_ops r
  | "find" :: p :: n :: q :: r -> OFind (nat_s p, name_s n, z_of_int (int_of_string q)) :: parse_ops r
  | "next" :: x :: n :: r -> ONext (nat_s x, name_s n) :: parse_ops r
  | "end" :: r -> OEnd :: parse_ops r
  | t :: _ -> failwith ("bad op " ^ t)

(* the extended language: "parse <root> <K|E> <text in hex> <tree>" = mpt_parse_node(root, text, default format);
   K: the parser succeeds, E: it reports an error after having delivered the elements of <tree> *)
let rec parse_hops t =
  let rec upto acc t = match t with
    | [] -> (List.rev acc, [])
    | "parse" :: _ | "zparse" :: _ -> (List.rev acc, t)
    | x :: r -> upto (x :: acc) r in
  match t with
  | [] -> []
  | "parse" :: x :: k :: _ :: tr :: r ->
    HParse (nat_s x, ptrees_s tr, (match k with "K" -> true | "E" -> false | _ -> failwith "parse K|E")) :: parse_hops r
  | "zparse" :: x :: r -> HParseRefused (nat_s x) :: parse_hops r
  | _ -> let (b, r) = upto [] t in List.map (fun o -> HBase o) (parse_ops b) @ parse_hops r

let show_ptr p = match p with None -> "-" | Some i -> string_of_int (int_of_nat i)
let show_out o = match o with
  | OutX -> "X"
  | OutP p -> "P" ^ show_ptr p
  | OutZ z -> "Z" ^ string_of_int (int_of_z z)
  | OutL [] -> "L-"
  | OutL l -> "L" ^ String.concat "." (List.map (fun i -> string_of_int (int_of_nat i)) l)
  | OutW (l, p) ->
    "L" ^ (if l = [] then "-" else
           String.concat "." (List.map (fun (i, d) -> Printf.sprintf "%d:%d" (int_of_nat i) (int_of_nat d)) l))
    ^ ">P" ^ show_ptr p

(* table of n cells: int -> node option *)
let show_links n (cell : int -> node option) =
  if n = 0 then "-" else
  String.concat ";" (List.init n (fun i -> match cell i with
    | None -> "x"
    | Some c -> Printf.sprintf "%s,%s,%s,%s,%d,%d" (show_ptr c.nnext) (show_ptr c.nprev) (show_ptr c.npar)
                  (show_ptr c.nkid) (int_of_nat c.nname) (int_of_nat c.nval)))

(* the shape as the harness derives it: walk from every live node without parent and
   prev along children/next; the walk is bounded by 4n+4 visits ("!" when exceeded) *)
let show_shape n (cell : int -> node option) =
  let budget = ref (4 * n + 4) in
  let b = Buffer.create 64 in
  let ip p = match p with None -> -1 | Some i -> int_of_nat i in
  let rec lst i first =
    if i < 0 then () else
    if !budget <= 0 then Buffer.add_string b "!" else begin
      decr budget;
      match cell i with
      | None -> Buffer.add_string b "?"
      | Some c ->
        if not first then Buffer.add_string b ",";
        Buffer.add_string b (Printf.sprintf "%d%s%d" i (letter (int_of_nat c.nname)) (int_of_nat c.nval));
        if c.nkid <> None then begin Buffer.add_string b "("; lst (ip c.nkid) true; Buffer.add_string b ")" end;
        lst (ip c.nnext) false
    end in
  let any = ref false in
  for i = 0 to n - 1 do
    match cell i with
    | Some c when c.npar = None && c.nprev = None ->
      if !any then Buffer.add_string b "/";
      any := true; lst i true
    | _ -> ()
  done;
  if !any then Buffer.contents b else "-"

let show_m (h : heap) =
  let n = int_of_nat h.nextid in
  let cell i = h.cells (nat_of_int i) in
  show_links n cell ^ "|" ^ (if wfcheck h then "W1" else "W0") ^ "|" ^ show_shape n cell

let show_s (s : sstate) =
  let n = int_of_nat s.scount in
  let tab = Array.make (max n 1) None in
  List.iter (fun (i, c) -> tab.(int_of_nat i) <- Some c) (exp_st s.lists);
  let cell i = tab.(i) in
  show_links n cell ^ "|W1|" ^ show_shape n cell

let () =
  let ic = open_in Sys.argv.(1) in
  List.iter (fun line ->
    match split_ws line with
    | id :: ops ->
      let ops = parse_hops ops in
      let mt = List.map (fun r -> match r with
          | None -> "F"
          | Some (o, h) -> show_out o ^ "|" ^ show_m h) (hrun empty_heap ops) in
      Printf.printf "M %s %s\n" id (String.concat " " mt);
      let st = List.map (fun (o, s) -> show_out o ^ "|" ^ show_s s) (hsrun empty_sstate ops) in
      Printf.printf "S %s %s\n" id (String.concat " " st)
    | _ -> ()) (read_lines ic)
