(* C17 driver: one case per line
     <id> <frags> <op> <args> ...
   frags: "n" (no part) or "f"<hex>,<hex>,... (an empty hex = empty fragment, "_" = empty fragment with a NULL address)
   prints "M <id> tok..." (mechanism model) and "S <id> tok..." (specification);
   token = <output>|<remaining message>, the model shows the fragments separated by "/". *)
let z_of_int n = if n = 0 then Z0 else if n > 0 then Zpos (pos_of_int n) else Zneg (pos_of_int (-n))
let int_of_z z = match z with Z0 -> 0 | Zpos p -> int_of_pos p | Zneg p -> - (int_of_pos p)
let hexs l = String.concat "" (List.map (fun b -> Printf.sprintf "%02x" (int_of_n b)) l)
(* "_" = empty fragment without address { NULL, 0 }: the same (empty) byte list for model and specification *)
let unhex s = if s = "-" || s = "" || s = "_" then [] else bytes_of_hex s
let nat s = nat_of_int (int_of_string s)
let rec pos_of_i64 n = if Int64.compare n 1L <= 0 then XH
  else if Int64.logand n 1L = 1L then XI (pos_of_i64 (Int64.shift_right_logical n 1)) else XO (pos_of_i64 (Int64.shift_right_logical n 1))
let n_of_i64 n = if n = 0L then N0 else Npos (pos_of_i64 n)
let rec i64_of_pos p = match p with XH -> 1L | XO q -> Int64.mul 2L (i64_of_pos q) | XI q -> Int64.add (Int64.mul 2L (i64_of_pos q)) 1L
let i64_of_n n = match n with N0 -> 0L | Npos p -> i64_of_pos p
let lim s = if s = "N" then None else if s = "t" then Some O else Some (nat_of_int (int_of_string s))
(* "F..." = the same fragments with a NULL continuation pointer when there is no continuation part *)
let parse_frags s =
  if s = "n" then [] else
  List.map unhex (String.split_on_char ',' (String.sub s 1 (String.length s - 1)))
let optset s = if s = "N" then None else Some (unhex s)
let set s = if s = "N" then [] else unhex s

let rec parse_ops toks = match toks with
  | [] -> []
  | "set" :: f :: r -> OpSet (parse_frags f) :: parse_ops r
  | "read" :: n :: d :: r -> OpRead (nat n, d = "1") :: parse_ops r
  | "len" :: r -> OpLen :: parse_ops r
  | "argv" :: s :: r -> OpArgv (n_of_int (int_of_string s)) :: parse_ops r
  | "chr" :: b :: r -> OpChr (false, n_of_int (int_of_string b)) :: parse_ops r
  | "rchr" :: b :: r -> OpChr (true, n_of_int (int_of_string b)) :: parse_ops r
  | "fcn" :: k :: r -> OpFcn (false, nat k) :: parse_ops r
  | "rfcn" :: k :: r -> OpFcn (true, nat k) :: parse_ops r
  | "str" :: s :: r -> OpStr (false, unhex s) :: parse_ops r
  | "rstr" :: s :: r -> OpStr (true, unhex s) :: parse_ops r
  | "tok" :: t :: c :: e :: r -> OpTok (optset t, set c, set e) :: parse_ops r
  | "cpy" :: l :: d :: r ->
    let dest = if d = "n" then [] else
      List.map (fun k -> List.init (if k = "_" then 0 else int_of_string k) (fun _ -> n_of_int 0xee)) (String.split_on_char ',' d) in
    OpCpy (z_of_int (int_of_string l), dest) :: parse_ops r
  | "app" :: p :: r -> OpApp (unhex p) :: parse_ops r
  | "get" :: mx :: qoff :: cont :: off :: take :: v :: r ->
    let mx = int_of_string mx and qoff = int_of_string qoff in
    let c = Array.of_list (unhex cont) in
    let buf = Array.make mx (n_of_int 0xee) in
    Array.iteri (fun i b -> buf.((qoff + i) mod mx) <- b) c;
    OpGet ({ rbuf = Array.to_list buf; rlen = nat_of_int (Array.length c); rmax = nat_of_int mx; roff = nat_of_int qoff },
           nat off, nat take, v = "1") :: parse_ops r
  | "amsg" :: s :: r -> OpAmsg (n_of_int (int_of_string s)) :: parse_ops r
  | "appl" :: p :: l :: r -> OpAppL (unhex p, lim l) :: parse_ops r
  | "amsgl" :: s :: l :: r -> OpAmsgL (n_of_int (int_of_string s), lim l, [n_of_int 0x5a; n_of_int 0x5a]) :: parse_ops r
  | "amsgle" :: s :: l :: r -> OpAmsgL (n_of_int (int_of_string s), lim l, []) :: parse_ops r
  | "amsgn" :: r -> OpAmsgNull :: parse_ops r
  | "null" :: k :: r -> OpNullArg (nat k) :: parse_ops r
  | "rbig" :: kd :: a :: big :: r ->
    let k = match kd with
      | "chr" -> RChr (n_of_int (int_of_string a))
      | "fcn" -> RFcn (nat a)
      | _ -> RStr (unhex a) in
    OpRBig (n_of_i64 (Int64.of_string big), k) :: parse_ops r
  | t :: _ -> failwith ("bad op " ^ t)

let errno e = match e with
  | BadArgument -> 1 | ERange -> 2 | EInval -> 3 | BadOperation -> 4 | MissingData -> 16 | MissingBuffer -> 17 | _ -> 99
let show_out o = match o with
  | ORead (n, None) -> Printf.sprintf "R:%d:*" (int_of_nat n)
  | ORead (n, Some d) -> Printf.sprintf "R:%d:%s" (int_of_nat n) (hexs d)
  | ONat n -> Printf.sprintf "L:%d" (int_of_nat n)
  | OPos None -> "P:N"
  | OPos (Some k) -> Printf.sprintf "P:%d" (int_of_nat k)
  | OArgv (Ok n) -> Printf.sprintf "A:%d" (int_of_nat n)
  | OArgv (Err e) -> Printf.sprintf "A:E%d" (errno e)
  | OArgv Fault -> "F"
  | OCpy (r, d) -> Printf.sprintf "C:%d:%s" (int_of_z r) (hexs d)
  | OArr (n, a) -> Printf.sprintf "D:%d:%s" (int_of_nat n) (hexs a)
  | OGet (Ok k) -> Printf.sprintf "G:%d" (int_of_nat k)
  | OGet (Err e) -> Printf.sprintf "G:E%d" (errno e)
  | OGet Fault -> "F"
  | OArrE (e, a) -> Printf.sprintf "D:E%d:%s" (errno e) (hexs a)
  | OPosE -> "P:E1"
  | ORBig RSkip -> "P:skip"
  | ORBig ROverflow -> "P:E1"
  | ORBig (RAt p) -> Printf.sprintf "P:%Ld" (i64_of_n p)
  | ORBig RFault -> "F"
  | OFault -> "F"
  | OFuel -> "FUEL"

let show_m (o, fs) = show_out o ^ "|" ^ String.concat "/" (List.map hexs fs)
let show_s (o, s) = show_out o ^ "|" ^ hexs s

let () =
  let ic = open_in Sys.argv.(1) in
  List.iter (fun line ->
    match split_ws line with
    | id :: fr :: ops ->
      let f = parse_frags fr in
      let ops = parse_ops ops in
      Printf.printf "M %s %s\n" id (String.concat " " (List.map show_m (mrun f ops)));
      Printf.printf "S %s %s\n" id (String.concat " " (List.map show_s (srun f (abs f) ops)))
    | _ -> ()) (read_lines ic)
