(* C08 driver.  One case per line:
     <id> <fmt> <accept> <target> <input>
   fmt / accept : "N" (NULL) or "s"<hex> (the C string, hex may be empty)
   target       : "~" (no children) or a forest  (name,val,kids)(...)  name = hex, val = "n" | "v"<hex>;
                  "@B" / "@D" = caller-loop family (the element functions on a path of the caller with / without
                  MPT_PATHFLAG(SepBinary), model [parse_events_b]): tokens F.. A.. E..* R.. L0
   input        : comma separated chunks, each <hex> or <hexbyte>*<count>;  "-" = empty
   Output "M <id> tok..." : F.. A.. E..* R.. T.. N.. T.. L0   (same layout as harness/c08_parse.c)
   With --spec the input file holds the harness output lines ("I <id> tok...") and the
   driver prints "S <id> tok...": the tokens the specification accepts are echoed, a token
   it rejects is replaced by what it requires. *)
let z_of_int n = if n = 0 then Z0 else if n > 0 then Zpos (pos_of_int n) else Zneg (pos_of_int (-n))
let int_of_z z = match z with Z0 -> 0 | Zpos p -> int_of_pos p | Zneg p -> - (int_of_pos p)
let zbytes_of_hex s = List.init (String.length s / 2) (fun i -> z_of_int (int_of_string ("0x" ^ String.sub s (2*i) 2)))

let fnv (l : int list) =
  List.fold_left (fun h b -> ((h lxor b) * 16777619) land 0xffffffff) 2166136261 l
let abbr (l : z list) =
  let il = List.map int_of_z l in
  let n = List.length il in
  if n <= 20 then String.concat "" (List.map (Printf.sprintf "%02x") il)
  else Printf.sprintf "#%d.%08x" n (fnv il)

let cstr s = if s = "N" then None else Some (zbytes_of_hex (String.sub s 1 (String.length s - 1)))

let parse_input s =
  if s = "-" then [] else
  List.concat (List.map (fun ch ->
    match String.index_opt ch '*' with
    | Some i ->
      let b = z_of_int (int_of_string ("0x" ^ String.sub ch 0 i)) in
      let n = int_of_string (String.sub ch (i+1) (String.length ch - i - 1)) in
      List.init n (fun _ -> b)
    | None -> zbytes_of_hex ch) (String.split_on_char ',' s))

(* forest parser *)
let parse_forest (s : string) : tree list =
  let pos = ref 0 in
  let n = String.length s in
  let rec forest () =
    if !pos < n && s.[!pos] = '(' then begin
      incr pos;
      let j = String.index_from s !pos ',' in
      let name = zbytes_of_hex (String.sub s !pos (j - !pos)) in
      pos := j + 1;
      let j = String.index_from s !pos ',' in
      let v = String.sub s !pos (j - !pos) in
      let value = if v = "n" then None else Some (zbytes_of_hex (String.sub v 1 (String.length v - 1))) in
      pos := j + 1;
      let kids = forest () in
      if !pos >= n || s.[!pos] <> ')' then failwith "bad forest";
      incr pos;
      let t = T (name, value, kids) in
      t :: forest ()
    end else [] in
  if s = "~" then [] else forest ()

let rec dump_forest (f : tree list) : string =
  String.concat "" (List.map (fun (T (n, v, k)) ->
    "(x" ^ abbr n ^ "," ^ (match v with None -> "n" | Some b -> "v" ^ abbr b) ^ "," ^ dump_forest k ^ ")") f)

let show_event (e : event) =
  Printf.sprintf "E%d.%d:%s:%d:%s" (int_of_z e.ev_ret) (int_of_z e.ev_prev)
    (if e.ev_path = [] then "~" else String.concat "/" (List.map (fun x -> "x" ^ abbr x) e.ev_path))
    (int_of_z e.ev_first)
    (match e.ev_val with None -> "n" | Some b -> "v" ^ abbr b)

let code z = let c = int_of_z z in if c = -9999 then "FAULT" else if c = -9998 then "FUEL" else string_of_int c

(* --raw: mpt_parse_option as patched by docs/C09_option_name_blank.diff (see [allow] in coq/C08/ParseModel.v) *)
let raw_variant = Array.exists (fun a -> a = "--raw") Sys.argv

let model_line id fmt acc target input =
  let fs = cstr fmt and ac = cstr acc in
  let (f, ret) = parse_format fs in
  let ftok = Printf.sprintf "F%d:%s" (int_of_z ret)
      (String.concat "." (List.map (fun z -> string_of_int (int_of_z z))
         [f.sstart; f.send; f.ostart; f.assign; f.oend; f.esc0; f.esc1; f.esc2; f.com0; f.com1; f.com2; f.com3])) in
  let (ar, al) = parse_accept (allow_variant allow_init raw_variant) ac in
  let atok = Printf.sprintf "A%d:%d.%d" (int_of_z ar) (int_of_z al.asect) (int_of_z al.aopt) in
  let inp = parse_input input in
  let caller = String.length target > 0 && target.[0] = '@' in
  let bin = caller && String.length target > 1 && target.[1] = 'B' in
  let tgt = if caller then [] else parse_forest target in
  let evtoks = match next_fcn ret with
    | None -> ["R!"]
    | Some fam ->
      let c = if caller then parse_events_b bin fam f al inp else parse_events fam f al inp in
      List.map show_event c.c_h @
      [Printf.sprintf "R%s:%d:%d:%d:%d" (code c.c_ret) (int_of_z c.c_st.line) (int_of_z c.c_st.calls)
         (int_of_z c.c_st.pcurr) (List.length inp)] in
  if caller then
    Printf.printf "M %s %s\n" id (String.concat " " ([ftok; atok] @ evtoks @ ["L0"]))
  else
  let nr = parse_node tgt fs al inp in
  let toks = [ftok; atok] @ evtoks @
             ["T" ^ dump_forest tgt;
              Printf.sprintf "N%s:%d:%d" (code nr.n_ret) (int_of_z nr.n_st.line) (int_of_z nr.n_st.calls);
              "T" ^ dump_forest nr.n_tree; "L0"] in
  Printf.printf "M %s %s\n" id (String.concat " " toks)

(* ---------------- specification as checker of the implementation's observation *)
let bytes_of_tok s =
  (* "x"/"v" already stripped; abbreviated long strings stand for themselves *)
  if String.length s > 0 && s.[0] = '#' then List.init (String.length s) (fun i -> z_of_int (Char.code s.[i]))
  else zbytes_of_hex s

let has_sub t sub =
  let n = String.length t and m = String.length sub in
  let rec go i = i + m <= n && (String.sub t i m = sub || go (i + 1)) in go 0
let strip_sub t sub =
  let n = String.length t and m = String.length sub in
  let b = Buffer.create n in
  let k = ref 0 in
  while !k < n do
    if !k + m <= n && String.sub t !k m = sub then k := !k + m else (Buffer.add_char b t.[!k]; incr k)
  done; Buffer.contents b

let event_of_tok t =
  let t = strip_sub t "!bin" in
  (* E<ret>.<prev>:<path>:<first>:<val> *)
  match String.split_on_char ':' (String.sub t 1 (String.length t - 1)) with
  | [rp; path; first; v] ->
    let (r, p) = match String.split_on_char '.' rp with [a; b] -> (int_of_string a, int_of_string b) | _ -> failwith "ev" in
    let elems = if path = "~" then [] else
        List.map (fun x -> bytes_of_tok (String.sub x 1 (String.length x - 1)))
          (List.filter (fun x -> x <> "") (String.split_on_char '/' path)) in
    let value = if v = "n" then None else Some (bytes_of_tok (String.sub v 1 (String.length v - 1))) in
    { ev_ret = z_of_int r; ev_prev = z_of_int p; ev_path = elems; ev_first = z_of_int (int_of_string first); ev_val = value }
  | _ -> failwith ("bad event token " ^ t)

let starts t c = String.length t > 0 && t.[0] = c

let spec_line id (toks : string list) =
  let arr = Array.of_list toks in
  let out = Array.copy arr in
  let n = Array.length arr in
  let evidx = List.filter (fun i -> starts arr.(i) 'E') (List.init n (fun i -> i)) in
  let evs = List.map (fun i -> event_of_tok arr.(i)) evidx in
  let find c = List.filter (fun i -> starts arr.(i) c) (List.init n (fun i -> i)) in
  (* crash / sanitizer report / timeout / leak *)
  Array.iteri (fun i t -> if starts t 'F' && (t = "F" || t = "F:timeout") then out.(i) <- "!no-fault-and-termination") arr;
  List.iter (fun i -> if arr.(i) <> "L0" then out.(i) <- "L0") (find 'L');
  (* binary path: the harness found the length bytes of the elements inconsistent *)
  List.iter (fun i -> if has_sub arr.(i) "!bin" then out.(i) <- strip_sub arr.(i) "!bin") evidx;
  (* result of mpt_parse_config *)
  (match find 'R' with
   | i :: _ when arr.(i) <> "R!" ->
     (match String.split_on_char ':' (String.sub arr.(i) 1 (String.length arr.(i) - 1)) with
      | [ret; _line; calls; _curr; len] ->
        let ret = int_of_string ret in
        if not (calls_ok (z_of_int (int_of_string calls)) (z_of_int (int_of_string len)) (z_of_int (List.length evs))) then
          out.(i) <- "!calls<=len+elements+1";
        if ret >= 0 then
          (match first_bad [] evs O with
           | None -> ()
           | Some k -> let j = List.nth evidx (int_of_nat k) in out.(j) <- "!well-nested:" ^ arr.(j))
      | _ -> out.(i) <- "!result")
   | _ -> ());
  (* the trees handed back are well linked (parent / prev of every node name its real neighbours) *)
  List.iter (fun i ->
      let t = arr.(i) in
      let b = Buffer.create (String.length t) in
      let k = ref 0 and bad = ref false in
      let n = String.length t in
      while !k < n do
        if !k + 6 <= n && String.sub t !k 6 = "!links" then (bad := true; k := !k + 6)
        else (Buffer.add_char b t.[!k]; incr k)
      done;
      if !bad then out.(i) <- Buffer.contents b) (find 'T');
  (* a failed mpt_parse_node leaves the target as it was *)
  (match find 'T', find 'N' with
   | [b; a], [r] ->
     let ret = (match String.split_on_char ':' (String.sub arr.(r) 1 (String.length arr.(r) - 1)) with
         | x :: _ -> (try int_of_string x with _ -> -1) | [] -> -1) in
     if ret < 0 && arr.(a) <> arr.(b) then out.(a) <- arr.(b)
   | _ -> ());
  Printf.printf "S %s %s\n" id (String.concat " " (Array.to_list out))

let () =
  let spec = Array.length Sys.argv > 2 && Sys.argv.(2) = "--spec" in
  let ic = open_in Sys.argv.(1) in
  List.iter (fun line ->
    match split_ws line with
    | "I" :: id :: toks when spec ->
      (* an observation the checker cannot read is no accepted observation *)
      (try spec_line id toks with _ -> Printf.printf "S %s !unreadable-observation\n" id)
    | id :: fmt :: acc :: target :: input :: _ when not spec -> model_line id fmt acc target input
    | _ -> ()) (read_lines ic)
