(* C12 driver: one case per line
     <id> id2buf <idhex> <width>
     <id> buf2id <byteshex>
     <id> ctx <max> <send01> <ptr01> <script: r,r,.. | -> <op> <args> ...
     <id> con <d|s> <idlen> <op> <args> ...      (harness/c12_conn.c)
   prints "M <id> tok..." (mechanism model) and "S <id> tok..." (specification).
   Token formats: see harness/c12_reply.c (same text on the implementation side). *)

(* ---- N / Z <-> text ---- *)
let n_of_hex s =
  let bits = ref [] in
  String.iter (fun c ->
    let v = int_of_string ("0x" ^ String.make 1 c) in
    bits := !bits @ [v land 8 <> 0; v land 4 <> 0; v land 2 <> 0; v land 1 <> 0]) s;
  let rec strip l = match l with false :: r -> strip r | _ -> l in
  match strip !bits with
  | [] -> N0
  | _ :: r -> Npos (List.fold_left (fun p b -> if b then XI p else XO p) XH r)
let hex_of_n n =
  let rec bits p = match p with XH -> [1] | XO q -> 0 :: bits q | XI q -> 1 :: bits q in
  match n with
  | N0 -> "0"
  | Npos p ->
    let l = Array.of_list (bits p) in
    let nd = (Array.length l + 3) / 4 in
    let b = Buffer.create 16 in
    for d = nd - 1 downto 0 do
      let v = ref 0 in
      for k = 3 downto 0 do
        let i = 4 * d + k in
        v := !v * 2 + (if i < Array.length l then l.(i) else 0)
      done;
      Buffer.add_string b (Printf.sprintf "%x" !v)
    done;
    Buffer.contents b
let z_of_int i = if i = 0 then Z0 else if i > 0 then Zpos (pos_of_int i) else Zneg (pos_of_int (- i))
let int_of_z z = match z with Z0 -> 0 | Zpos p -> int_of_pos p | Zneg p -> - (int_of_pos p)

let err_code e = match e with
  | BadArgument -> -1 | BadValue -> -2 | BadType -> -3 | BadOperation -> -4 | BadEncoding -> -8
  | MissingData -> -16 | MissingBuffer -> -17 | ERange -> -34 | EInval -> -22

(* ---- id cases ---- *)
let show_buf2id bs =
  match buf2id bs with
  | Ok (v, u) -> Printf.sprintf "ok:%s:%d" (hex_of_n v) (int_of_nat u)
  | Err e -> Printf.sprintf "E%d" (err_code e)
  | Fault -> "F"
let show_sbuf2id bs =
  match s_buf2id bs with Some v -> "ok:" ^ hex_of_n v | None -> "R"

let id_case id w =
  let m = match id2buf id (nat_of_int w) with
    | Ok (bs, u) -> [Printf.sprintf "ok:%s:%d" (hex_of_bytes bs) (int_of_nat u); show_buf2id bs]
    | Err e -> [Printf.sprintf "E%d" (err_code e)]
    | Fault -> ["F"] in
  let s = match s_id2buf id (nat_of_int w) with
    | Some bs -> ["ok:" ^ hex_of_bytes bs; show_sbuf2id bs]
    | None -> ["R"] in
  (m, s)

(* ---- reply context cases ---- *)
let pay_of s = if s = "null" then None else Some (bytes_of_hex s)
let rec parse_ops toks = match toks with
  | [] -> []
  | "conv" :: t :: r -> OConv (nat_of_int (int_of_string t)) :: parse_ops r
  | "arm" :: h :: r -> OArm (bytes_of_hex h) :: parse_ops r
  | "armz" :: n :: r -> OArmZ (nat_of_int (int_of_string n)) :: parse_ops r
  | "reply" :: p :: r -> OReply (pay_of p) :: parse_ops r
  | "creply" :: c :: t :: r -> OCtxReply (z_of_int (int_of_string c), pay_of t) :: parse_ops r
  | "defer" :: r -> ODefer :: parse_ops r
  | "hreply" :: k :: p :: r -> OHReply (nat_of_int (int_of_string k), pay_of p) :: parse_ops r
  | "ref" :: r -> ORef :: parse_ops r
  | "unref" :: r -> OUnref :: parse_ops r
  | t :: _ -> failwith ("bad op " ^ t)

let show_pay p = match p with None -> "null" | Some b -> hex_of_bytes b
let show_call c = Printf.sprintf "%s/%s/%d" (hex_of_bytes c.kid) (show_pay c.kpay) (int_of_z c.kres)
let show_calls cs = if cs = [] then "-" else String.concat "," (List.map show_call cs)
let show_part p = match p with None -> "none" | Some PFmt -> "fmt" | Some PCtx -> "ctx" | Some PData -> "data"
let show_ret r = match r with
  | RSkip -> "X"
  | RInt z -> "i" ^ string_of_int (int_of_z z)
  | RConv (z, p) -> Printf.sprintf "v%d:%s" (int_of_z z) (show_part p)
  | RHandle None -> "hN"
  | RHandle (Some k) -> "h" ^ string_of_int (int_of_nat k)
  | RCount n -> "c" ^ hex_of_n n
  | RDone -> "d"
  | RFault -> "F"
let show_view v =
  let c = match v.v_ctx with
    | None -> "x"
    | Some None -> "-:1"
    | Some (Some b) -> hex_of_bytes b ^ ":1" in
  let h = if v.v_hs = [] then "-" else
    String.concat "," (List.map (fun o -> match o with None -> "x" | Some b -> hex_of_bytes b) v.v_hs) in
  c ^ "|" ^ h
let show_mech w =
  let c = match w.wctx with
    | None -> "0"
    | Some c -> Printf.sprintf "1:%d:%s:%s:%d:%d" (int_of_nat c.cdata.dlen) (hex_of_bytes c.cdata.dval)
                  (hex_of_n c.cref) (if c.csend then 1 else 0) (if c.cptr then 1 else 0) in
  let nl = (match w.wctx with None -> 0 | Some _ -> 1) + int_of_nat (live w.whs) in
  let hs = List.concat (List.mapi (fun k o -> match o with
    | None -> []
    | Some d -> [Printf.sprintf "%d=%d:%d:%s" k (int_of_nat d.dmax) (int_of_nat d.dlen) (hex_of_bytes d.dval)]) w.whs) in
  c ^ "|" ^ String.concat ";" (string_of_int nl :: hs)

let () =
  let ic = open_in Sys.argv.(1) in
  List.iter (fun line ->
    match split_ws line with
    | id :: "id2buf" :: v :: w :: _ ->
      let (m, s) = id_case (n_of_hex v) (int_of_string w) in
      Printf.printf "M %s %s\n" id (String.concat " " m);
      Printf.printf "S %s %s\n" id (String.concat " " s)
    | id :: "buf2id" :: h :: _ ->
      let bs = bytes_of_hex h in
      Printf.printf "M %s %s\n" id (show_buf2id bs);
      Printf.printf "S %s %s\n" id (show_sbuf2id bs)
    | id :: "ctx" :: mx :: sd :: ptr :: orc :: ops ->
      let mx = nat_of_int (int_of_string mx) in
      let orc = if orc = "-" then [] else List.map (fun s -> z_of_int (int_of_string s)) (String.split_on_char ',' orc) in
      let ops = parse_ops ops in
      let w0 = init mx (sd = "1") (ptr = "1") orc in
      let s0 = sinit mx (sd = "1") (ptr = "1") orc in
      let mt = List.map (fun (ob, w) ->
        show_ret ob.oret ^ "|" ^ show_calls ob.ocalls ^ "|" ^ show_view (mview w) ^ "|" ^ show_mech w) (run w0 ops) in
      let st = List.map (fun (ob, v) ->
        show_ret ob.oret ^ "|" ^ show_calls ob.ocalls ^ "|" ^ show_view v) (srun s0 ops) in
      Printf.printf "M %s %s\n" id (String.concat " " mt);
      Printf.printf "S %s %s\n" id (String.concat " " st)
    | id :: "sin" :: idlen :: wr :: reqs ->
      let qcap = if wr.[0] = 'Q' then Some (nat_of_int (int_of_string (String.sub wr 1 (String.length wr - 1)))) else None in
      let mode = if wr.[0] = 'L' || wr.[0] = 'Q' then 1 else int_of_string wr in     (* L<n>: the write queue limit is assumed not to be hit; Q<n>: a queue of exactly n bytes *)
      let spec = ref false in
      let request2 idl mode m reps code = match qcap with
        | None -> sin_request2 idl mode m reps code
        | Some cap -> if !spec then s_sin_request_q idl cap m reps code else sin_request_q idl cap m reps code in
      let sin_request2 = request2 in
      let idl = nat_of_int (int_of_string idlen) in
      let show (r : sin_res) defer =
        let seen = (match r.si_seen with
          | None -> "-"
          | Some ((v, rc), p) -> Printf.sprintf "%s:%d:%s" (hex_of_n v) (if rc then 1 else 0) (hex_of_bytes p)) in
        let got = (match r.si_seen with Some ((_, rc), _) -> rc | None -> false) in
        let rl = (if defer && got then ["hN"] else []) @ (if got then List.map (fun z -> string_of_int (int_of_z z)) r.si_reps else []) in
        let reps = if rl = [] then "-" else String.concat "," rl in
        let wire = if r.si_wire = [] then "-" else String.concat ";" (List.map (fun f -> if f = [] then "e" else hex_of_bytes f) r.si_wire) in
        Printf.sprintf "%d|%s|%s|%s" (int_of_z r.si_ret) seen reps wire in
      let rec go toks = match toks with
        | "req" :: m :: nrep :: r1 :: r2 :: code :: rest ->
          let reps = (match int_of_string nrep with 0 -> [] | 1 -> [pay_of r1] | _ -> [pay_of r1; pay_of r2]) in
          show (sin_request2 idl (nat_of_int mode) (bytes_of_hex m) reps (z_of_int (int_of_string code))) false :: go rest
        | "rqd" :: m :: r1 :: code :: rest ->
          show (sin_request2 idl (nat_of_int mode) (bytes_of_hex m) [pay_of r1] (z_of_int (int_of_string code))) true :: go rest
        | "rq0" :: m :: rest -> show sin_skip false :: go rest
        | "scv" :: t :: rest ->
          let (ret, part) = sin_conv (match t with "in" -> SIn | "fmt" -> SFmt | "meta" -> SMeta | "sock" -> SSock | _ -> SBad) in
          let parts = [| "none"; "in"; "obj"; "out"; "log"; "fmt"; "fd"; "nofd" |] in
          (match ret with
           | None -> "vme:" ^ parts.(int_of_nat part)
           | Some z when int_of_z z = 1 -> "vsock:" ^ parts.(int_of_nat part)
           | Some z -> "verr:" ^ parts.(int_of_nat part) ^ string_of_int (int_of_z z)) :: go rest
        | "srf" :: rest -> "r2:noclone" :: go rest
        | _ -> [] in
      let toks = String.concat " " (go reqs) in
      spec := true;
      let stoks = if qcap = None then toks else String.concat " " (go reqs) in
      Printf.printf "M %s %s\n" id toks;
      Printf.printf "S %s %s\n" id stoks
    | id :: "nrc" :: code :: text :: _ ->
      let (r, out) = ctx_reply_none (z_of_int (int_of_string code)) (pay_of text) in
      let tok = Printf.sprintf "i%d:%s" (int_of_z r) (hex_of_bytes out) in
      Printf.printf "M %s %s\n" id tok;
      Printf.printf "S %s %s\n" id tok
    | id :: "sinx" :: idlen :: mode :: code :: _ ->
      let ok = sin_create_ok (nat_of_int (if idlen = "badfd" then 2 else int_of_string idlen)) (n_of_hex mode)
                 (nat_of_int (int_of_string code)) (idlen <> "badfd") in
      Printf.printf "M %s %s\n" id (if ok then "ok" else "null");
      Printf.printf "S %s %s\n" id (if ok then "ok" else "null")
    | id :: "rsv" :: mx :: ops ->
      let ops = List.map (fun t -> if t = "r" then None else Some (nat_of_int (int_of_string (String.sub t 1 (String.length t - 1))))) ops in
      let show_tab mech tab =
        let tab = if mech then tab else List.filter (fun e -> e.wetag <> None) tab in
        if tab = [] then "-" else String.concat "," (List.map (fun e ->
          hex_of_n e.weid ^ "=" ^ (match e.wetag with None -> "." | Some t -> string_of_int (int_of_nat t))) tab) in
      let res = reserve_run false [] (nat_of_int (int_of_string mx)) O ops in
      let toks mech = List.map2 (fun o (r, tab) ->
        (match o, r with
         | Some _, _ -> "-"
         | None, None -> "N"
         | None, Some (k, i) -> Printf.sprintf "%d:%s" (int_of_nat k) (hex_of_n i)) ^ "|" ^ show_tab mech tab) ops res in
      Printf.printf "M %s %s\n" id (String.concat " " (toks true));
      Printf.printf "S %s %s\n" id (String.concat " " (toks false))
    | id :: "con" :: mode :: idl :: ops ->
      let dg = (mode = "d") in
      let pay_of s = if s = "null" then None else Some (bytes_of_hex s) in
      let idl = nat_of_int (int_of_string idl) in
      let rec parse toks = match toks with
        | [] -> []
        | "tx" :: m :: r -> CTx (bytes_of_hex m) :: parse r
        | "dp" :: a :: c :: r ->
          let acts = if a = "-" then [] else List.map (fun t ->
            if t = "d" then HDefer
            else HReply (pay_of (String.sub t 1 (String.length t - 1)))) (String.split_on_char ',' a) in
          CDp (acts, z_of_int (int_of_string c)) :: parse r
        | "dp0" :: r -> CDp0 :: parse r
        | "hr" :: k :: p :: r -> CHr (nat_of_int (int_of_string k), pay_of p) :: parse r
        | "aw" :: p :: r -> CAw (bytes_of_hex p) :: parse r
        | "ps" :: p :: r -> CPs (bytes_of_hex p) :: parse r
        | "pe" :: r -> CPe :: parse r
        | "sy" :: r -> CSy :: parse r
        | "cl" :: r -> CCl :: parse r
        | "a0" :: p :: r -> CAw0 (bytes_of_hex p) :: parse r
        | "rf" :: r -> CRf :: parse r
        | "no" :: r -> CNo :: parse r
        | "nh" :: r -> CNh :: parse r
        | "lg" :: ty :: tx :: r ->
          (* mpt_log(logger, "hs", ty, "%s", text) -> mpt_output_vlog: {Output, ty | 0x80, [SOH]} "hs" STX text ETX *)
          let ty = int_of_string ty land 0x7f in
          (* mpt_log: LogFunction (SOH behind the header) unless the type is 0 or carries MPT_LOG(File) = 0x20 *)
          let hdr = [0; ty lor 0x80] @ (if ty <> 0 && ty land 0x20 = 0 then [1] else []) in
          let b = List.map (fun i -> n_of_hex (Printf.sprintf "%x" i)) (hdr @ [0x68; 0x73; 2]) in
          CLg (b @ bytes_of_hex tx @ [n_of_hex "3"]) :: parse r
        | ("as" | "sp" | "op" as o) :: k :: r ->
          let kind = (match k with "d" | "D" -> KDgram | "a" | "s" | "S" -> KStream | _ -> KNone) in
          let how = (match o, k with
            | "as", _ -> HAssign | "op", _ -> HOpen
            | _, ("D" | "S") -> HPropStr | _, "x" -> HPropStr | _, _ -> HPropSock) in
          CRs (kind, how) :: parse r
        | "cv" :: t :: r ->
          CCv (match t with "in" -> TIn | "fmt" -> TFmt | "meta" -> TMeta | "sock" -> TSock | "obj" -> TObj
                          | "out" -> TOut | "log" -> TLog | _ -> TBad) :: parse r
        | "gp" :: n :: r -> CGp (n = "color") :: parse r
        | t :: _ -> failwith ("bad con op " ^ t) in
      let ops = parse ops in
      let zs z = string_of_int (int_of_z z) in
      let show_cret r = match r with
        | RTx n -> "t" ^ string_of_int (int_of_nat n)
        | RDp (nx, d, seen, res) ->
          let nx = (match nx with None -> "n*" | Some None -> "n-" | Some (Some z) -> "n" ^ zs z) in
          let seen = (match seen with None -> "-" | Some (rc, p) -> Printf.sprintf "0:%d:%s" (if rc then 1 else 0) (hex_of_bytes p)) in
          let res = if res = [] then "-" else String.concat "," (List.map (fun h -> match h with
            | HInt z -> zs z | HHandle None -> "hN" | HHandle (Some k) -> "h" ^ string_of_int (int_of_nat k)) res) in
          Printf.sprintf "%s:d%s:%s:%s" nx (zs d) seen res
        | RHr None -> "X"
        | RHr (Some z) -> "i" ^ zs z
        | RAw (ra, cid, p1, None) -> Printf.sprintf "a%s:%s:%s" (zs ra) (hex_of_n cid) (zs p1)
        | RAw (ra, cid, p1, Some p2) -> Printf.sprintf "a%s:%s:%s:%s" (zs ra) (hex_of_n cid) (zs p1) (zs p2)
        | RPe z -> "e" ^ zs z
        | RSy z -> "s" ^ zs z
        | RCl -> "c"
        | RRf n -> "r" ^ string_of_int (int_of_nat n)
        | RNx None -> "x*"
        | RNx (Some z) -> "x" ^ zs z
        | RLg z -> "l" ^ zs z
        | RRs z -> "g" ^ zs z
        | RCv (ret, part) ->
          let parts = [| "none"; "in"; "obj"; "out"; "log"; "fmt"; "fd"; "nofd" |] in
          (match ret with
           | None -> "vme:" ^ parts.(int_of_nat part)
           | Some z when int_of_z z = 1 -> "vsock:" ^ parts.(int_of_nat part)
           | Some z -> "verr:" ^ parts.(int_of_nat part) ^ zs z)
        | RGp (z, n) -> Printf.sprintf "p%s:%s" (zs z) (if int_of_nat n = 1 then "color" else "output")
        | RX -> "X" in
      let show_res (r : cres) =
        let wcs = List.filter (fun (t, _) -> int_of_nat t <> 0) r.r_wcalls in     (* tag 0 = log_reply: not observable *)
        let wc = if wcs = [] then "-" else String.concat "," (List.map (fun (t, p) ->
          Printf.sprintf "W%d=%s" (int_of_nat t) (show_pay p)) wcs) in
        let ws = if r.r_wire = [] then "-" else String.concat ";" (List.map (fun f -> if f = [] then "e" else hex_of_bytes f) r.r_wire) in
        (if r.r_fault then "F" else show_cret r.r_ret) ^ "|" ^ wc ^ "|" ^ ws in
      let show_state closed has v tab cid mech =
        let c = if closed || not has then "x" else (match v.v_ctx with
          | None -> "0" | Some None -> "-" | Some (Some b) -> hex_of_bytes b) in
        let h = if v.v_hs = [] then "-" else
          String.concat "," (List.map (fun o -> match o with None -> "x" | Some b -> hex_of_bytes b) v.v_hs) in
        let tab = if mech then tab else List.filter (fun e -> e.wetag <> None) tab in
        let w = if closed then "x" else
          hex_of_n cid ^ ":" ^ (if tab = [] then "-" else String.concat "," (List.map (fun e ->
            hex_of_n e.weid ^ "=" ^ (match e.wetag with None -> "." | Some t -> string_of_int (int_of_nat t))) tab)) in
        c ^ "|" ^ h ^ "|" ^ w in
      let mt = List.map (fun ((r : cres), (w, c)) ->
        show_res r ^ "|" ^ show_state c.cclosed c.chas (mview w) c.ctab c.ccid true) (mcrun (minit dg idl) ops) in
      let st = List.map (fun ((r : cres), (w, c)) ->
        show_res r ^ "|" ^ show_state c.cclosed c.chas (sview w) c.ctab c.ccid false) (scrun (sinit_c dg idl) ops) in
      Printf.printf "M %s %s\n" id (String.concat " " mt);
      Printf.printf "S %s %s\n" id (String.concat " " st)
    | _ -> ()) (read_lines ic)
