(* C11/DispatchHistory.v — statements over ALL histories, obtained from the step
   lemmas: the log invariant [J] (balance of registrations, finaliser calls and held
   registrations; no invocation after a finaliser), delivery to the registered
   handler / the fallback, default bookkeeping, uniqueness of live and reserved ids. *)
From MptV Require Import Base.Mem C17.MessageModel C17.MessageSpec
  C11.DispatchModel C11.DispatchSpec C11.DispatchLemmas C11.DispatchCompact C11.DispatchTable
  C11.DispatchEvent C11.DispatchRefine C11.DispatchLog.
From Coq Require Import Permutation.
Local Open Scope nat_scope.

(* ---------------------------------------------------------------- the log invariant *)
Record J (d : disp) (log : list lentry) : Prop := {
  j_balance : Permutation (regs_of log) (live_regs (abs d) ++ fins_of log);
  j_nodup : NoDup (regs_of log);
  j_bound : forall r, In r (regs_of log) -> (r < d_next d)%N;
  j_order : ordered log
}.

Lemma NoDup_app_disjoint {A} (a b : list A) x : NoDup (a ++ b) -> In x a -> ~ In x b.
Proof.
  induction a as [|y a IH]; [intros _ []|]. cbn. intros ND [->|Hx] Hb.
  - inversion ND; subst. apply H1. apply in_app_iff. right. exact Hb.
  - inversion ND; subst. exact (IH H2 Hx Hb).
Qed.

Lemma J_init : J dinit linit.
Proof.
  constructor.
  - reflexivity.
  - repeat constructor. intros [].
  - intros r [<-|[]]. reflexivity.
  - intros l1 l2 r f a v E. destruct l1 as [|x [|y l1]]; discriminate.
Qed.

Lemma J_step d log o : J d log -> let '(d', _, lg) := dstep d o in J d' (log ++ lg).
Proof.
  intros [B ND Bd Od]. pose proof (dstep_log d o) as H.
  destruct (dstep d o) as [[d' out] lg]. destruct H as [[LB LR LC LX] Hn].
  assert (NDl : NoDup (live_regs (abs d) ++ fins_of log)) by (eapply Permutation_NoDup; eauto).
  constructor.
  - rewrite regs_app, fins_app.
    transitivity ((live_regs (abs d) ++ fins_of log) ++ regs_of lg); [apply Permutation_app_tail; exact B|].
    transitivity ((live_regs (abs d) ++ regs_of lg) ++ fins_of log).
    { rewrite <- !app_assoc. apply Permutation_app_head. apply Permutation_app_comm. }
    transitivity ((live_regs (abs d') ++ fins_of lg) ++ fins_of log); [apply Permutation_app_tail; exact LB|].
    rewrite <- app_assoc. apply Permutation_app_head. apply Permutation_app_comm.
  - rewrite regs_app. destruct LR as [-> | ->]; [rewrite app_nil_r; exact ND|].
    eapply Permutation_NoDup; [apply Permutation_cons_append|].
    constructor; [|exact ND]. intros Hi. apply Bd in Hi. lia.
  - intros r Hr. rewrite regs_app in Hr. apply in_app_iff in Hr. rewrite Hn.
    destruct Hr as [Hr|Hr]; [apply Bd in Hr; lia|].
    destruct LR as [E|E]; rewrite E in Hr; [destruct Hr|]. destruct Hr as [<-|[]]. lia.
  - intros l1 l2 r f a v E.
    apply app_eq_app in E. destruct E as (l & [[E1 E2]|[E1 E2]]).
    + destruct l as [|x l].
      * (* the invocation is the first entry of the delta *)
        cbn [app] in E2. rewrite app_nil_r in E1. subst l1 lg.
        assert (Hc : In r (calls_of (LCall r f a (Some v) :: l2))) by (left; reflexivity).
        pose proof (LC r Hc) as Hl. split.
        -- eapply Permutation_in; [symmetry; exact B|]. apply in_app_iff. left. exact Hl.
        -- eapply NoDup_app_disjoint; eauto.
      * (* the invocation is in the log so far *)
        cbn [app] in E2. inversion E2; subst x. apply (Od l1 l r f a v). exact E1.
    + (* the invocation is inside the delta *)
      subst l1 lg.
      assert (Hc : In r (calls_of (l ++ LCall r f a (Some v) :: l2))).
      { rewrite calls_app. apply in_app_iff. right. left. reflexivity. }
      pose proof (LC r Hc) as Hl.
      destruct LX as [X|[X1 X2]]; [rewrite X in Hc; destruct Hc|].
      rewrite regs_app, fins_app. split.
      * apply in_app_iff. left. eapply Permutation_in; [symmetry; exact B|]. apply in_app_iff. left. exact Hl.
      * intros Hi. apply in_app_iff in Hi. destruct Hi as [Hi|Hi].
        -- exact (NoDup_app_disjoint _ _ r NDl Hl Hi).
        -- rewrite fins_app in X2. apply app_eq_nil in X2. destruct X2 as [X2 _]. rewrite X2 in Hi. destruct Hi.
Qed.

Definition deltas (d : disp) (ops : list op) : list lentry := concat (map (fun x => snd (fst x)) (drun d ops)).

Lemma J_run ops : forall d log, J d log -> J (dfinal d ops) (log ++ deltas d ops).
Proof.
  induction ops as [|o ops IH]; intros d log HJ; unfold deltas; cbn [dfinal drun map concat].
  - rewrite app_nil_r. exact HJ.
  - pose proof (J_step d log o HJ) as H. destruct (dstep d o) as [[d' out] lg]. cbn [fst snd map concat].
    rewrite app_assoc. apply IH. exact H.
Qed.

Lemma J_history ops : J (dfinal dinit ops) (full_log ops).
Proof. apply (J_run ops dinit linit J_init). Qed.

(* ---------------------------------------------------------------- finalised exactly once *)
Lemma count_occ_NoDup_in (l : list N) r : NoDup l -> In r l -> count_occ N.eq_dec l r = 1.
Proof.
  intros ND Hi. pose proof (proj1 (NoDup_count_occ N.eq_dec l) ND r) as H.
  pose proof (proj1 (count_occ_In N.eq_dec l r) Hi). lia.
Qed.

Lemma finalised_once ops :
  let log := full_log ops in
  let held := live_regs (abs (dfinal dinit ops)) in
  NoDup (regs_of log)
  /\ (forall r, In r (regs_of log) ->
        count_occ N.eq_dec (fins_of log) r + count_occ N.eq_dec held r = 1)
  /\ (forall r, ~ In r (regs_of log) ->
        ~ In r (fins_of log) /\ ~ In r held /\ ~ In r (calls_of log))
  /\ ordered log.
Proof.
  intros log held. destruct (J_history ops) as [B ND Bd Od]. fold log in B, ND, Bd, Od. fold held in B.
  split; [exact ND|]. split; [|split; [|exact Od]].
  - intros r Hr. pose proof (count_occ_NoDup_in _ r ND Hr) as C.
    rewrite (Permutation_count_occ N.eq_dec) in B. rewrite (B r), count_occ_app in C. lia.
  - intros r Hr.
    assert (Hn : ~ In r (held ++ fins_of log)).
    { intros Hi. apply Hr. eapply Permutation_in; [symmetry; exact B|exact Hi]. }
    rewrite in_app_iff in Hn. split; [tauto|]. split; [tauto|].
    intros Hc. unfold calls_of in Hc. apply in_flat_map in Hc. destruct Hc as (e & He & Hre).
    destruct e as [r0 | r' f a [v|] | c z | c]; cbn in Hre; try contradiction. destruct Hre as [<-|[]].
    apply in_split in He. destruct He as (l1 & l2 & El).
    destruct (Od l1 l2 r' f a v El) as [Hin _].
    apply Hr. rewrite El, regs_app. apply in_app_iff. left. exact Hin.
Qed.

Lemma dfinal_app a b : forall d, dfinal d (a ++ b) = dfinal (dfinal d a) b.
Proof. induction a as [|o a IH]; intros d; cbn [app dfinal]; [reflexivity|apply IH]. Qed.

Lemma finalised_after_fini ops :
  let log := full_log (ops ++ [OFini]) in
  Permutation (regs_of log) (fins_of log) /\ NoDup (fins_of log).
Proof.
  intros log. destruct (J_history (ops ++ [OFini])) as [B ND _ _]. fold log in B, ND.
  assert (E : live_regs (abs (dfinal dinit (ops ++ [OFini]))) = []).
  { rewrite dfinal_app. cbn [dfinal]. unfold dstep, dstep0, dispatch_fini.
    destruct (command_clear (d_tbl (dfinal dinit ops))). reflexivity. }
  rewrite E in B. cbn [app] in B. split; [exact B|]. eapply Permutation_NoDup; eauto.
Qed.

(* ---------------------------------------------------------------- reachable states *)
Lemma R_init : R dinit sinit.
Proof. apply R_abs. exact dinv_init. Qed.

Lemma reach ops : R (dfinal dinit ops) (sfinal dinit sinit ops).
Proof. apply reach_R. exact R_init. Qed.

Lemma lookup_reach ops id :
  m_lookup (s_map (sfinal dinit sinit ops)) id = m_lookup (entries (d_tbl (dfinal dinit ops))) id.
Proof.
  destruct (reach ops) as [Q W]. pose proof Q as (P & _).
  symmetry. apply m_lookup_perm; [exact P|]. apply seqv_sym in Q. exact (swf_seqv _ _ Q W).
Qed.

Lemma live_ids_unique ops : NoDup (map fst (entries (d_tbl (dfinal dinit ops)))).
Proof. exact (R_dinv _ _ (reach ops)). Qed.

Lemma reserved_fresh ops max :
  let d := dfinal dinit ops in
  match snd (fst (dstep d (OReserve max))) with
  | ORes (Some (pos, id)) =>
    ~ In id (map fst (entries (d_tbl d))) /\ (1 <= id <= reserve_max max)%N
    /\ In id (map fst (entries (d_tbl (fst (fst (dstep d (OReserve max)))))))
  | ORes None => True
  | _ => False
  end.
Proof.
  intros d. unfold dstep, dstep0.
  destruct (command_reserve_spec (d_tbl d) max (d_next d)) as (t' & rr & E & Hf & H).
  rewrite E. cbn [bind]. destruct rr as [pos id| |]; [| |congruence].
  - destruct H as (t2 & Ea & P & Hr & Hm & Hl).
    unfold reserve_arm in Ea. rewrite E in Ea. cbn [bind] in Ea.
    destruct t' as [tb|]; [|discriminate].
    destruct (put (slots tb) pos _) as [sl| |]; try discriminate. cbn [bind fst snd] in *.
    inversion Ea; subst t2. split; [apply m_lookup_none_notin; exact Hl|]. split; [exact Hr|].
    cbn [tick with_tbl d_tbl].
    eapply Permutation_in; [symmetry; apply Permutation_map; exact P|]. left. reflexivity.
  - cbn [fst snd]. exact I.
Qed.

(* refusal only for max = 0 or when every id of the range is live *)
Lemma reserve_refused_exhausted ops max :
  let d := dfinal dinit ops in
  snd (fst (dstep d (OReserve max))) = ORes None ->
  max = 0%N \/ forall id, (1 <= id <= reserve_max max)%N -> In id (map fst (entries (d_tbl d))).
Proof.
  intros d. unfold dstep, dstep0.
  destruct (command_reserve_spec (d_tbl d) max (d_next d)) as (t' & rr & E & Hf & H).
  rewrite E. cbn [bind]. destruct rr as [pos id| |]; [| |congruence].
  - destruct H as (t2 & Ea & _).
    unfold reserve_arm in Ea. rewrite E in Ea. cbn [bind] in Ea.
    destruct t' as [tb|]; [|discriminate].
    destruct (put (slots tb) pos _) as [sl| |]; cbn [bind fst snd]; discriminate.
  - intros _. destruct H as (_ & _ & [->|Hx]); [left; reflexivity|right].
    intros id Hid. pose proof (ids_exhausted_elim _ _ Hx id Hid) as Hs.
    destruct (m_lookup (entries (d_tbl d)) id) as [h|] eqn:El; [|discriminate].
    apply m_lookup_some_in in El. apply (in_map fst) in El. exact El.
Qed.

Lemma reserve_succeeds ops max id :
  let d := dfinal dinit ops in
  max <> 0%N -> (1 <= id <= reserve_max max)%N -> ~ In id (map fst (entries (d_tbl d))) ->
  exists pos id', snd (fst (dstep d (OReserve max))) = ORes (Some (pos, id')).
Proof.
  intros d Hm Hid Hfree.
  pose proof (reserved_fresh ops max) as HF. pose proof (reserve_refused_exhausted ops max) as HR.
  fold d in HF, HR. cbv zeta in HF, HR.
  destruct (snd (fst (dstep d (OReserve max)))) as [| | |[[pos id']|]| | | | |]; try contradiction.
  - eauto.
  - exfalso. destruct (HR eq_refl) as [E|HA]; [contradiction|]. exact (Hfree (HA id Hid)).
Qed.

Lemma no_fault ops :
  Forall (fun x => fst (fst x) <> OFault /\ fst (fst x) <> OFuel) (drun dinit ops).
Proof. exact (proj2 (proj2 (run_refines ops dinit sinit R_init))). Qed.

(* ---------------------------------------------------------------- delivery *)
Definition s_target (s : sdisp) (id : N) : option hdl :=
  match m_lookup (s_map s) id with Some h => Some h | None => s_fb s end.

Lemma calls_in_app a b : calls_in (a ++ b) = calls_in a ++ calls_in b.
Proof. apply filter_app. Qed.
Lemma calls_in_reply rp code : calls_in (reply_to rp code) = [].
Proof. unfold reply_to. destruct rp; [destruct (_ && _)%bool|]; reflexivity. Qed.

Lemma calls_in_invoke h id m rp rsp :
  calls_in (snd (s_invoke h id m rp rsp)) = [call_of h id (is_some m) rp].
Proof.
  unfold s_invoke, call_of. destruct (hf h); try reflexivity.
  unfold s_unknown. destruct (negb (id =? 0)%N); [|destruct m as [s|]; [destruct (length s =? 0)|]];
    cbn [snd calls_in filter is_call]; try reflexivity; fold (calls_in (reply_to rp (-1)));
    fold (calls_in (reply_to rp (-16))); fold (calls_in (reply_to rp (-4))); rewrite calls_in_reply; reflexivity.
Qed.

(* what the delivery does, spelled out: who is called, the new default id, the result *)
Lemma s_deliver_spec s id m rp0 rsp :
  let rp := match rp0 with Some _ => rp0 | None => s_ctx s end in
  let '(s', so, lg) := s_deliver s id m rp0 rsp in
  match s_target s id with
  | None => calls_in lg = [] /\ s' = s /\ so = SEv (-1) (Some id) rp
  | Some h =>
    let '(ret, id', _) := s_invoke h id m rp rsp in
    calls_in lg = [call_of h id (is_some m) rp]
    /\ s_map s' = s_map s /\ s_fb s' = s_fb s /\ s_ctx s' = s_ctx s
    /\ (if (ret <? 0)%Z then s_def s' = s_def s /\ so = SEv ret (Some id') rp
        else if Z.testbit ret 0
             then s_def s' = id' /\ so = SEv (if (id' =? 0)%N then clr_default ret else set_default (clr_default ret)) (Some id') rp
             else s_def s' = s_def s /\ so = SEv (if (s_def s =? 0)%N then ret else set_default ret) (Some id') rp)
  end.
Proof.
  intros rp. unfold s_deliver, s_target. fold rp.
  destruct (match m_lookup (s_map s) id with Some h => Some h | None => s_fb s end) as [h|].
  2:{ split; [apply calls_in_reply|]. split; reflexivity. }
  pose proof (calls_in_invoke h id m rp rsp) as C.
  destruct (s_invoke h id m rp rsp) as [[ret id'] lg]. cbn [snd] in C.
  destruct (ret <? 0)%Z.
  { rewrite calls_in_app, calls_in_reply, app_nil_r. repeat split; try assumption. }
  destruct (Z.testbit ret 0).
  - destruct (id' =? 0)%N; repeat split; assumption.
  - destruct (s_def s =? 0)%N; repeat split; assumption.
Qed.

(* the model emit of an event carrying id [id], in any reachable state, is the delivery
   of the specification in the state reached by the specification run *)
Lemma emit_is_deliver ops e rsp id :
  let d := dfinal dinit ops in
  let s := sfinal dinit sinit ops in
  event_id e = Some id ->
  exists d1 out lg,
    dstep d (OEmit (Some e) rsp) = (tick d1, out, lg)
    /\ s_deliver (abs d) id (option_map (@concat byte) (e_msg e)) (e_reply e) rsp = (abs d1, ev_out out, lg)
    /\ ev_out out <> SBad
    /\ s_target (abs d) id = s_target s id /\ s_ctx (abs d) = s_ctx s /\ s_def (abs d) = s_def s.
Proof.
  intros d s Hid.
  destruct (emit_abs d (Some e) rsp) as (d1 & out & lg & E1 & E2 & Hb & _).
  exists d1, out, lg. unfold dstep, dstep0. rewrite E1.
  split; [reflexivity|]. split.
  - rewrite <- E2. unfold s_emit, event_id in *. destruct (e_msg e) as [F|]; cbn [option_map].
    + destruct (concat F) as [|b t]; [discriminate|]. inversion Hid; subst. reflexivity.
    + inversion Hid; subst. reflexivity.
  - split; [exact Hb|]. destruct (reach ops) as [(P & F & D & C & N) W]. fold d s in P, F, D, C, N.
    unfold s_target. cbn [abs s_map s_fb s_ctx s_def] in *.
    pose proof (lookup_reach ops id) as L. fold d s in L. rewrite L, F. repeat split; assumption.
Qed.

Lemma emit_reaches ops e rsp id :
  let d := dfinal dinit ops in
  let s := sfinal dinit sinit ops in
  event_id e = Some id ->
  let lg := snd (dstep d (OEmit (Some e) rsp)) in
  match m_lookup (s_map s) id with
  | Some h => calls_in lg = [call_of h id (is_some (e_msg e)) (seen_reply s e)]
  | None =>
    match s_fb s with
    | Some h => calls_in lg = [call_of h id (is_some (e_msg e)) (seen_reply s e)]
    | None => calls_in lg = [] /\ snd (fst (dstep d (OEmit (Some e) rsp))) = OEv (-1) (Some id) (seen_reply s e)
    end
  end.
Proof.
  intros d s Hid lg.
  destruct (emit_is_deliver ops e rsp id Hid) as (d1 & out & lg' & E & ED & Hb & Ht & Hc & Hd).
  fold d s in E, ED, Ht, Hc, Hd. unfold lg. rewrite E. cbn [fst snd].
  pose proof (s_deliver_spec (abs d) id (option_map (@concat byte) (e_msg e)) (e_reply e) rsp) as SP.
  rewrite ED, Ht in SP. cbn zeta in SP. rewrite Hc in SP. fold (seen_reply s e) in SP.
  replace (is_some (option_map (@concat byte) (e_msg e))) with (is_some (e_msg e)) in SP by (destruct (e_msg e); reflexivity).
  unfold s_target in SP.
  destruct (m_lookup (s_map s) id) as [h|].
  - destruct (s_invoke h id _ _ rsp) as [[ret id'] l0]. exact (proj1 SP).
  - destruct (s_fb s) as [h|].
    + destruct (s_invoke h id _ _ rsp) as [[ret id'] l0]. exact (proj1 SP).
    + destruct SP as (S1 & _ & S3). split; [exact S1|].
      destruct out; try (exfalso; apply Hb; reflexivity). cbn [ev_out] in S3. inversion S3; subst. reflexivity.
Qed.

(* default-event bookkeeping after an event was delivered to handler h *)
Lemma emit_bookkeeping ops e rsp id h :
  let d := dfinal dinit ops in
  let s := sfinal dinit sinit ops in
  event_id e = Some id ->
  s_target s id = Some h ->
  let rp := seen_reply s e in
  let '(ret, id', _) := s_invoke h id (option_map (@concat byte) (e_msg e)) rp rsp in
  let '(d', out, _) := dstep d (OEmit (Some e) rsp) in
  if (ret <? 0)%Z then d_def d' = d_def d /\ out = OEv ret (Some id') rp
  else if Z.testbit ret 0
       then d_def d' = id' /\ out = OEv (if (id' =? 0)%N then clr_default ret else set_default (clr_default ret)) (Some id') rp
       else d_def d' = d_def d /\ out = OEv (if (d_def d =? 0)%N then ret else set_default ret) (Some id') rp.
Proof.
  intros d s Hid Htg rp.
  destruct (emit_is_deliver ops e rsp id Hid) as (d1 & out & lg' & E & ED & Hb & Ht & Hc & Hd).
  fold d s in E, ED, Ht, Hc, Hd. rewrite E.
  pose proof (s_deliver_spec (abs d) id (option_map (@concat byte) (e_msg e)) (e_reply e) rsp) as SP.
  rewrite ED, Ht, Htg in SP. cbn zeta in SP. rewrite Hc in SP. fold (seen_reply s e) in SP. fold rp in SP.
  destruct (s_invoke h id _ rp rsp) as [[ret id'] l0].
  destruct SP as (_ & _ & _ & _ & SP). cbn [abs s_def] in SP.
  assert (X : forall z i r, ev_out out = SEv z i r -> out = OEv z i r).
  { intros z i r Hx. destruct out; try discriminate. cbn in Hx. inversion Hx; reflexivity. }
  destruct (ret <? 0)%Z; [|destruct (Z.testbit ret 0)]; destruct SP as [S1 S2]; cbn [tick d_def];
    (split; [exact S1|apply X; exact S2]).
Qed.

(* the NULL event: nothing without a default id; a default id nobody is registered
   for is dropped; otherwise the default id is delivered *)
Lemma emit_null ops rsp :
  let d := dfinal dinit ops in
  let s := sfinal dinit sinit ops in
  let '(d', out, lg) := dstep d (OEmit None rsp) in
  if (d_def d =? 0)%N then lg = [] /\ out = OEv 0 None None /\ d_def d' = 0%N
  else match m_lookup (s_map s) (d_def d) with
       | None => lg = [] /\ out = OEv (-2) None None /\ d_def d' = 0%N
       | Some h => calls_in lg = [call_of h (d_def d) false (s_ctx s)]
       end.
Proof.
  intros d s. pose proof (lookup_reach ops (d_def d)) as L. fold d s in L. rewrite L. clear L.
  destruct (reach ops) as [(_ & _ & _ & C & _) _]. fold d s in C. cbn [abs s_ctx] in C. rewrite <- C.
  unfold dstep, dstep0, dispatch_emit. rewrite cmd_hdl_entries.
  destruct (N.eqb_spec (d_def d) 0) as [E0|E0]; [cbn [tick d_def]; repeat split; try reflexivity; exact E0|].
  destruct (m_lookup (entries (d_tbl d)) (d_def d)) as [h|] eqn:El; [|repeat split; reflexivity].
  destruct (emit_call_abs d (d_def d) None None rsp) as (d1 & o & lg & E1 & E2 & _).
  rewrite El in E1. cbn [omsg oflat option_map] in E1, E2. rewrite E1. cbn [bind].
  pose proof (s_deliver_spec (abs d) (d_def d) None None rsp) as SP. rewrite E2 in SP.
  unfold s_target in SP. cbn [abs s_map] in SP. rewrite El in SP. cbn zeta in SP.
  destruct (s_invoke h (d_def d) None _ rsp) as [[ret id'] l0]. exact (proj1 SP).
Qed.

(* hash dispatch: the id is the djb2 hash of the first argument of the command text *)
Lemma hash_reaches ops e rsp F raw :
  let d := dfinal dinit ops in
  let s := sfinal dinit sinit ops in
  e_msg e = Some F ->
  flat_hash_text (concat F) = inr raw ->
  a_unaligned (advice d (OHash (Some e) rsp)) = false ->
  let id := djb2 (strip0 (hash_sep (concat F)) raw) in
  let lg := snd (dstep d (OHash (Some e) rsp)) in
  match s_target s id with
  | Some h => calls_in lg = [call_of h id true (e_reply e)]
  | None => calls_in lg = []
  end.
Proof.
  intros d s Hm Hf Ha id lg.
  destruct (hash_abs d (Some e) rsp) as (out & lg' & E1 & E2 & Hb).
  unfold lg, dstep, dstep0. rewrite E1. cbn [fst snd].
  assert (Ht : s_target (abs d) id = s_target s id).
  { destruct (reach ops) as [(P & Fb & _) W]. fold d s in P, Fb. unfold s_target.
    cbn [abs s_map s_fb] in *. pose proof (lookup_reach ops id) as L. fold d s in L. rewrite L, Fb. reflexivity. }
  unfold s_hash in E2. rewrite Hm, Hf, Ha in E2. fold id in E2.
  rewrite <- Ht. unfold s_target. cbn [abs s_map s_fb] in *.
  destruct (m_lookup (entries (d_tbl d)) id) as [h|].
  - pose proof (calls_in_invoke h id (Some (concat F)) (e_reply e) rsp) as C.
    destruct (s_invoke h id _ _ rsp) as [[ret id'] l0]. cbn [snd] in C.
    destruct (ret <? 0)%Z; inversion E2; subst; [unfold s_fail in *|]; try exact C.
    rewrite calls_in_app, calls_in_reply, app_nil_r. exact C.
  - destruct (d_err d) as [h|].
    + pose proof (calls_in_invoke h id (Some (concat F)) (e_reply e) rsp) as C.
      destruct (s_invoke h id _ _ rsp) as [[ret id'] l0]. cbn [snd] in C. inversion E2; subst. exact C.
    + unfold s_fail in E2. inversion E2; subst. cbn [app]. apply calls_in_reply.
Qed.

(* the two halves of [emit_reaches] *)
Lemma emit_registered ops e rsp id h :
  let d := dfinal dinit ops in
  let s := sfinal dinit sinit ops in
  event_id e = Some id ->
  m_lookup (s_map s) id = Some h ->
  calls_in (snd (dstep d (OEmit (Some e) rsp))) = [call_of h id (is_some (e_msg e)) (seen_reply s e)].
Proof.
  intros d s Hid Hl. pose proof (emit_reaches ops e rsp id Hid) as H. cbn zeta in H.
  fold d s in H. rewrite Hl in H. exact H.
Qed.

Lemma emit_fallback ops e rsp id :
  let d := dfinal dinit ops in
  let s := sfinal dinit sinit ops in
  event_id e = Some id ->
  m_lookup (s_map s) id = None ->
  match s_fb s with
  | Some h => calls_in (snd (dstep d (OEmit (Some e) rsp))) = [call_of h id (is_some (e_msg e)) (seen_reply s e)]
  | None => calls_in (snd (dstep d (OEmit (Some e) rsp))) = []
            /\ snd (fst (dstep d (OEmit (Some e) rsp))) = OEv (-1) (Some id) (seen_reply s e)
  end.
Proof.
  intros d s Hid Hl. pose proof (emit_reaches ops e rsp id Hid) as H. cbn zeta in H.
  fold d s in H. rewrite Hl in H. exact H.
Qed.

(* an event without id (empty message) reaches nobody *)
Lemma emit_empty_message ops e rsp :
  let d := dfinal dinit ops in
  event_id e = None ->
  dstep d (OEmit (Some e) rsp) = (tick d, OEv (-2) (Some (e_id e)) (e_reply e), []).
Proof.
  intros d Hid. unfold event_id in Hid. destruct (e_msg e) as [F|] eqn:Em; [|discriminate].
  destruct (concat F) as [|b t] eqn:Ec; [|discriminate].
  unfold dstep, dstep0, dispatch_emit. rewrite Em.
  destruct (read_msg_of F 1) as (m' & E & _). rewrite E, Ec. reflexivity.
Qed.
