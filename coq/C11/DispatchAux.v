(* C11/DispatchAux.v — the calls beside the dispatcher ([aux]): the transcriptions of
   mpt_hash_djb2 (both length conventions), of the default handler of a reserved slot,
   of reply_data::set / mpt_reply_set and of the built-in fallback handler equal their
   specifications on flat data, for every input; no access leaves the storage. *)
From MptV Require Import Base.Mem C17.MessageModel C17.MessageSpec C17.MessageProofs C17.MessageArgv
  C11.DispatchModel C11.DispatchSpec C11.DispatchLemmas C11.DispatchEvent.
Local Open Scope nat_scope.

(* ---------------------------------------------------------------- mpt_hash_djb2 *)
Lemma rd_at (pre : list byte) c r : rd (pre ++ c :: r) (length pre) 1 = Ok [c].
Proof.
  unfold rd. rewrite app_length. cbn [length].
  destruct (Nat.leb_spec (length pre + 1) (length pre + S (length r))); [|lia].
  rewrite skipn_app, Nat.sub_diag, skipn_all. reflexivity.
Qed.

Lemma djb2_str_spec : forall l pre h fuel, In 0%N l -> length l < fuel ->
  djb2_str fuel (pre ++ l) (length pre) h = Ok (fold_left djb2_step (cstr l) h).
Proof.
  induction l as [|c r IH]; intros pre h fuel Hin Hf; [destruct Hin|].
  destruct fuel as [|f]; [cbn [length] in Hf; lia|].
  cbn [djb2_str]. rewrite rd_at. cbn [bind hd cstr].
  destruct (N.eqb_spec c 0) as [->|Hc]; [reflexivity|].
  destruct Hin as [E|Hin]; [congruence|].
  replace (pre ++ c :: r) with ((pre ++ [c]) ++ r) by (rewrite <- app_assoc; reflexivity).
  replace (S (length pre)) with (length (pre ++ [c])) by (rewrite app_length; cbn [length]; lia).
  cbn [fold_left]. apply IH; [exact Hin|cbn [length] in Hf; lia].
Qed.

Lemma cstr_terminated s rest : cstr (s ++ 0%N :: rest) = cstr s.
Proof.
  induction s as [|c r IH]; [reflexivity|]. cbn [app cstr]. destruct (c =? 0)%N; [reflexivity|].
  rewrite IH. reflexivity.
Qed.

(* without a length: the bytes before the first NUL, whatever follows it in the storage *)
Lemma hash_djb2_cstring s rest :
  hash_djb2 (Some (s ++ 0%N :: rest)) (-1) = Ok (djb2 (cstr s)).
Proof.
  unfold hash_djb2. change (-1 <? 0)%Z with true. cbv iota.
  pose proof (djb2_str_spec (s ++ 0%N :: rest) [] 5381%N (S (length (s ++ 0%N :: rest)))) as H.
  cbn [app length] in H. rewrite H; [|apply in_app_iff; right; left; reflexivity|lia].
  rewrite cstr_terminated. reflexivity.
Qed.

(* with a length: exactly these bytes (NUL bytes included) *)
Lemma hash_djb2_len s rest :
  hash_djb2 (Some (s ++ rest)) (Z.of_nat (length s)) = Ok (djb2 s).
Proof.
  unfold hash_djb2. destruct (Z.ltb_spec (Z.of_nat (length s)) 0); [lia|].
  rewrite Nat2Z.id. unfold rd. cbn [Nat.add]. rewrite app_length.
  destruct (Nat.leb_spec (length s) (length s + length rest)); [|lia].
  cbn [skipn bind]. rewrite firstn_app, Nat.sub_diag, firstn_all. cbn [firstn]. rewrite app_nil_r. reflexivity.
Qed.

(* ---------------------------------------------------------------- log_reply *)
Lemma log_reply_zero F : log_reply (option_map msg_of F) = Ok 0%Z.
Proof.
  destruct F as [F|]; [|reflexivity]. cbn [option_map log_reply].
  destruct (read_msg_of F 2) as (m' & E & _). rewrite E. cbn [bind].
  destruct (_ =? 0); [reflexivity|]. destruct (_ =? 1)%N; [reflexivity|]. destruct (_ =? 0)%N; [reflexivity|].
  rewrite Z.mul_0_r. reflexivity.
Qed.

(* ---------------------------------------------------------------- reply_data::set *)
Lemma mk_rdata_len max cur : length (rd_val (mk_rdata max cur)) = N.to_nat max.
Proof.
  unfold mk_rdata. cbn [rd_val]. rewrite app_length, repeat_length.
  pose proof (firstn_le_length (N.to_nat max) cur). lia.
Qed.

Lemma rset_refines max cur len (data : option mem) new :
  (match data with Some d => d = new | None => new = repeat 0%N len end) -> length new = len ->
  reply_data_set (mk_rdata max cur) len data
  = Ok (match rset_spec max cur len new with
        | XRData ok l v => (mkrd max l v, ok)
        | _ => (mk_rdata max cur, false)
        end).
Proof.
  intros Hd Hl. unfold reply_data_set, rset_spec.
  set (r := mk_rdata max cur).
  assert (Em : rd_max r = max) by reflexivity.
  destruct (negb (len =? 0) && negb (rd_len r =? 0)%N) eqn:Ea; cbn [orb].
  { reflexivity. }
  unfold reply_set. rewrite Em.
  destruct (N.ltb_spec max (N.of_nat len)) as [Hlt|Hle].
  { cbn [bind]. change (-2 <? 0)%Z with true. cbn [negb]. reflexivity. }
  assert (Es : forall k : mem -> res (rdata * Z),
             (do src <- match data with Some d => rd d 0 len | None => Ok (repeat 0%N len) end; k src) = k new).
  { intros k. destruct data as [d|]; [|subst new; reflexivity]. subst d. unfold rd. cbn [Nat.add skipn].
    rewrite Hl, Nat.leb_refl. rewrite <- Hl, firstn_all. reflexivity. }
  rewrite Es. cbn [bind]. unfold wr. cbn [Nat.add firstn app].
  pose proof (mk_rdata_len max cur) as Lv. fold r in Lv. rewrite Hl, Lv.
  destruct (Nat.leb_spec len (N.to_nat max)); [|lia]. cbn [bind].
  destruct (Z.ltb_spec (Z.of_N max - Z.of_nat len) 0); [lia|]. reflexivity.
Qed.

(* readable form for a value given by pointer *)
Lemma reply_data_set_spec max cur data :
  let r := mk_rdata max cur in
  reply_data_set r (length data) (Some data)
  = Ok (if (negb (length data =? 0) && negb (rd_len r =? 0)%N) || (max <? N.of_nat (length data))%N
        then (r, false)
        else (mkrd max (N.of_nat (length data)) (data ++ skipn (length data) (rd_val r)), true)).
Proof.
  intros r. unfold r. rewrite (rset_refines max cur (length data) (Some data) data eq_refl eq_refl).
  unfold rset_spec. change (rd_max (mk_rdata max cur)) with max.
  destruct (_ || _)%bool; reflexivity.
Qed.

(* ---------------------------------------------------------------- all of them *)
Lemma aux_refines a : aux_run a = Ok (aux_spec a).
Proof.
  destruct a as [s|s|len|m|max cur data|max cur len| | | |id m rp|src]; unfold aux_run, aux_spec.
  - pose proof (hash_djb2_len s []) as H. rewrite app_nil_r in H. rewrite H. reflexivity.
  - rewrite hash_djb2_cstring. reflexivity.
  - reflexivity.
  - rewrite log_reply_zero. reflexivity.
  - rewrite (rset_refines max cur (length data) (Some data) data eq_refl eq_refl). cbn [bind].
    unfold rset_spec. destruct (_ || _)%bool; reflexivity.
  - rewrite (rset_refines max cur len None (repeat 0%N len) eq_refl (repeat_length _ _)). cbn [bind].
    unfold rset_spec. destruct (_ || _)%bool; reflexivity.
  - reflexivity.
  - reflexivity.
  - reflexivity.
  - pose proof (unknown_flat id m rp) as H. unfold omsg, oflat in H. rewrite H. cbn [bind].
    destruct (s_unknown id (option_map (@concat byte) m) rp) as [[ret id'] rl]. reflexivity.
  - destruct src as [[|]|]; reflexivity.
Qed.

(* an auxiliary call logs replies only *)
Lemma aux_spec_log a : forall e, In e (snd (aux_spec a)) -> exists c z, e = LReply c z.
Proof.
  destruct a as [s|s|len|m|max cur data|max cur len| | | |id m rp|src]; cbn [aux_spec snd]; try (intros e []).
  intros e. unfold s_unknown.
  assert (HR : forall code, In e (reply_to rp code) -> exists c z, e = LReply c z).
  { intros code. unfold reply_to. destruct rp as [c|]; [|intros []].
    destruct (_ && _)%bool; [|intros []]. intros [<-|[]]. eauto. }
  destruct (negb (id =? 0)%N); cbn [snd]; [apply HR|].
  destruct (option_map (@concat byte) m) as [s|]; [|cbn [snd]; apply HR].
  destruct (length s =? 0); cbn [snd]; [intros []|apply HR].
  destruct src as [[|]|]; intros e [].
Qed.

(* ---------------------------------------------------------------- dispatch_hash.c: the trailing NUL strip *)
(* "if (!mt.arg && !text[len-1]) --len" never fires: with separator 0 the argument ends BEFORE the
   first NUL, so the id is the hash of the first argument as it stands *)
Lemma index_or_len_before c s : forall i, i < index_or_len c s -> nth i s 1%N <> c.
Proof.
  unfold index_or_len. induction s as [|x r IH]; intros i Hi; cbn [flat_find length] in Hi; [lia|].
  destruct (N.eqb_spec c x) as [->|Hn]; [lia|].
  destruct i as [|i]; cbn [nth]; [congruence|].
  apply IH. destruct (flat_find (N.eqb c) r); lia.
Qed.

Lemma hash_strip_dead s raw : flat_hash_text s = inr raw -> strip0 (hash_sep s) raw = raw.
Proof.
  unfold flat_hash_text, strip0. destruct (length s <? 2); [discriminate|].
  destruct (N.eqb_spec (hash_sep s) 0) as [E0|]; [|reflexivity]. rewrite E0.
  unfold flat_argv. destruct (skipn 2 s) as [|x t] eqn:Es; [discriminate|].
  cbn [N.eqb]. set (u := x :: t). set (len := index_or_len 0%N u).
  destruct (Nat.eqb_spec len 0); [discriminate|]. intros H; inversion H; subst raw. clear H.
  assert (Hl : len <= length u) by apply index_or_len_le.
  rewrite firstn_length, Nat.min_l by exact Hl.
  rewrite nth_firstn' by lia.
  pose proof (index_or_len_before 0%N u (len - 1)) as Hn.
  destruct (N.eqb_spec (nth (len - 1) u 1%N) 0) as [E|]; [|reflexivity].
  exfalso. apply Hn; [fold len; lia|exact E].
Qed.
