(* C11/DispatchModel.v — mechanism-level model of the event dispatcher:
     mptcore/event/{command_get,command_set,command_reserve,command_traits,
                    dispatch_set,dispatch_emit,dispatch_hash,dispatch_finit}.c,
     mptcore/misc/hash_djb2.c, mpt++/event.cpp (set_error, set_default, wrappers).
   Executable, NO proofs.  Every function transcribes the C function named in
   its comment, as the code is in /repo AFTER the patches docs/C11_*.diff
   (docs/notes_C11.md).

   The command table is the element range [0, _used/sizeof(command)) of the
   buffer behind dispatch._d: a list of slots (id, cmd, arg).  A slot whose cmd
   is NULL is unused.  Slot stores go through the checked [put]/[getslot]
   (Fault = access outside the used range).  Handlers are abstract: the harness
   handler is [FUser] with arg = registration number; what it returns on an
   invocation is the oracle [resp] carried by the operation.  Ghost state: the
   registration number [sreg] of a slot and the call log ([lentry]).
   Message parts are those of C17/MessageModel.v ([m_read], [m_argv]). *)
From MptV Require Export Base.Mem C17.MessageModel.
Local Open Scope nat_scope.

Definition W64 : N := 18446744073709551616%N.          (* 2^64: uintptr_t *)
Definition INTPTR_MAX : N := 9223372036854775807%N.
Definition wrap64 (x : N) : N := (x mod W64)%N.

(* function pointers that can sit in command.cmd / dispatch._err.cmd *)
Inductive fn :=
| FUser      (* the harness handler; arg = registration number *)
| FLog       (* static log_reply of command_reserve.c; arg = id *)
| FUnk.      (* static unknownEvent of dispatch_finit.c; arg = 0 *)

(* struct command + ghost registration number *)
Record slot := mkslot { sid : N; scmd : option fn; sarg : N; sreg : N }.
(* buffer behind the array: content traits set (created by mpt_command_set) or raw
   (created by mpt_command_reserve), and the used element range *)
Record table := mktable { typed : bool; slots : list slot }.
(* a handler as the dispatcher keeps it: function, argument, ghost registration *)
Record hdl := mkh { hf : fn; ha : N; hr : N }.

(* what a handler sees of the event: id, message present, reply context tag *)
Record eview := mkview { v_id : N; v_msg : bool; v_reply : option N }.
Inductive lentry :=
| LReg (r : N)                                       (* ghost: registration r went live *)
| LCall (r : N) (f : fn) (a : N) (e : option eview)  (* cmd(arg, ev); e = None: cmd(arg, NULL) *)
| LReply (c : N) (code : Z)                          (* reply_context.reply via mpt_context_reply *)
| LUnref (c : N).                                    (* _ctx->unref *)

Record disp := mkdisp {
  d_tbl : option table;     (* _d._buf *)
  d_def : N;                (* _def *)
  d_err : option hdl;       (* _err.cmd/_err.arg *)
  d_ctx : option N;         (* _ctx: tag of the metatype, also tag of its reply context *)
  d_next : N                (* ghost: number of the next operation = next registration *)
}.

Record event := mkev { e_id : N; e_msg : option (list frag); e_reply : option N }.
(* oracle: value returned by the harness handler and (optionally) the id it stores in ev->id *)
Record resp := mkresp { r_ret : Z; r_setid : option N }.

Definition live (s : slot) : bool := match scmd s with Some _ => true | None => false end.
Definition slot_hdl (s : slot) : option hdl :=
  match scmd s with Some f => Some (mkh f (sarg s) (sreg s)) | None => None end.
Definition fin_of (h : hdl) : lentry := LCall (hr h) (hf h) (ha h) None.
Definition fin_slot (s : slot) : list lentry :=
  match slot_hdl s with Some h => [fin_of h] | None => [] end.

(* checked element access *)
Definition getslot (l : list slot) (pos : nat) : res slot :=
  match nth_error l pos with Some s => Ok s | None => Fault end.
Definition put (l : list slot) (pos : nat) (s : slot) : res (list slot) :=
  if pos <? length l then Ok (firstn pos l ++ s :: skipn (S pos) l) else Fault.
Definition rdslots (l : list slot) (pos n : nat) : res (list slot) :=
  if pos + n <=? length l then Ok (firstn n (skipn pos l)) else Fault.

(* ---------------------------------------------------------------- command_get.c *)
(* mpt_command_find: first slot with a handler and the id; position and slot *)
Fixpoint cmd_find (l : list slot) (id : N) (pos : nat) : option (nat * slot) :=
  match l with
  | [] => None
  | s :: r => if live s && (id =? sid s)%N then Some (pos, s) else cmd_find r id (S pos)
  end.
(* mpt_command_empty: first slot without handler *)
Fixpoint cmd_empty (l : list slot) (pos : nat) : option nat :=
  match l with
  | [] => None
  | s :: r => if live s then cmd_empty r (S pos) else Some pos
  end.
(* mpt_command_get *)
Definition cmd_get (t : option table) (id : N) : option (nat * slot) :=
  match t with None => None | Some tb => cmd_find (slots tb) id 0 end.
(* mpt_command_clear: cmd(arg, 0) for every used slot, then _used = 0 *)
Definition command_clear (t : option table) : option table * list lentry :=
  match t with
  | None => (None, [])
  | Some tb => (Some (mktable (typed tb) []), flat_map fin_slot (slots tb))
  end.

(* ---------------------------------------------------------------- command_set.c *)
(* mpt_command_set(arr, id, cmd, arg): (table, return value, log) *)
Definition command_set (t : option table) (id : N) (c : option fn) (a r : N)
  : res (table * Z * list lentry) :=
  let reg := match c with Some _ => [LReg r] | None => [] end in
  match cmd_get t id, t with
  | Some (pos, s), Some tb =>
    (* replace/delete command: dest->cmd(dest->arg, 0); dest->cmd = cmd; dest->arg = arg *)
    do sl <- put (slots tb) pos (mkslot (sid s) c a r);
    Ok (mktable (typed tb) sl, match c with Some _ => 0%Z | None => 2%Z end, fin_slot s ++ reg)
  | Some _, None => Fault
  | None, None =>
    (* _mpt_buffer_alloc(sizeof dest[0], BufferNoCopy); content traits; mpt_buffer_insert(buf, 0, ..) *)
    Ok (mktable true [mkslot id c a r], 1%Z, reg)
  | None, Some tb =>
    match (if length (slots tb) =? 0 then None else cmd_empty (slots tb) 0) with
    | Some pos =>    (* place in empty area *)
      do sl <- put (slots tb) pos (mkslot id c a r);
      Ok (mktable (typed tb) sl, 0%Z, reg)
    | None =>        (* mpt_array_insert(arr, buf->_used, sizeof dest[0]) *)
      Ok (mktable (typed tb) (slots tb ++ [mkslot id c a r]), 1%Z, reg)
    end
  end.

(* ---------------------------------------------------------------- dispatch_set.c *)
(* mpt_dispatch_set(disp, id, cmd, arg); BadArgument = -1 *)
Definition dispatch_set (t : option table) (id : N) (c : option fn) (a r : N)
  : res (option table * Z * list lentry) :=
  match c with
  | None =>
    match cmd_get t id, t with
    | Some (pos, s), Some tb =>
      (* dst->cmd(dst->arg, 0); dst->cmd = 0; dst->arg = 0; return pos *)
      do sl <- put (slots tb) pos (mkslot (sid s) None 0 (sreg s));
      Ok (Some (mktable (typed tb) sl), Z.of_nat pos, fin_slot s)
    | _, _ => Ok (t, (-1)%Z, [])
    end
  | Some _ =>
    match cmd_get t id with
    | Some _ => Ok (t, (-1)%Z, [])       (* id already used *)
    | None => do '(tb, ret, lg) <- command_set t id c a r; Ok (Some tb, ret, lg)
    end
  end.

(* ---------------------------------------------------------------- command_reserve.c *)
(* switch (max) ... if (max > INTPTR_MAX) max = INTPTR_MAX *)
Definition reserve_max (max : N) : N :=
  N.min INTPTR_MAX
   (match max with
    | 0 => 0
    | 1 => 127
    | 2 => 32767
    | 3 => 2147483647 / 256
    | 4 => 2147483647
    | 5 => INTPTR_MAX / 16777216
    | 6 => INTPTR_MAX / 65536
    | 7 => INTPTR_MAX / 256
    | _ => INTPTR_MAX
    end)%N.

(* while (++cmd < (base+i)) { if (!cmd->cmd) break; }  started with cmd = j-1 *)
Fixpoint first_dead (seg : list slot) (j : nat) : nat :=
  match seg with
  | [] => j
  | s :: r => if live s then first_dead r (S j) else j
  end.
Definition next_free (sl : list slot) (j i : nat) : res nat :=
  do seg <- rdslots sl j (i - j); Ok (first_dead seg j).

(* the for loop: i = position, cmd = smallest free position seen (pointer), used, mid *)
Fixpoint compact_go (todo i : nat) (sl : list slot) (cmd : option nat) (used : nat) (mid : N)
  : res (list slot * nat * N) :=
  match todo with
  | 0 => Ok (sl, used, mid)
  | S todo =>
    do s <- getslot sl i;
    let mid := if (mid <? sid s)%N then sid s else mid in     (* find highest previous id *)
    if negb (live s) then                                      (* save available space *)
      compact_go todo (S i) sl (match cmd with None => Some i | _ => cmd end) used mid
    else
      match cmd with
      | None => compact_go todo (S i) sl None (S used) mid     (* no smaller position available *)
      | Some c =>
        do sl1 <- put sl c s;                                  (* *cmd = base[i] *)
        do sl2 <- put sl1 i (mkslot (sid s) None (sarg s) (sreg s));  (* base[i].cmd = 0 *)
        do c' <- next_free sl2 (S c) i;                        (* find smallest free position *)
        compact_go todo (S i) sl2 (Some c') (S used) mid
      end
  end.
Definition compact (sl : list slot) : res (list slot * nat * N) :=
  compact_go (length sl) 0 sl None 0 0%N.

(* for (i = 1; i <= max; ++i) if (!mpt_command_find(base, used, i)) ...
   the loop ends after at most used+1 rounds (fuel), FFuel would be "did not" *)
Inductive ffree := FFound (i : N) | FNone | FFuel.
Fixpoint find_free (fuel : nat) (sl : list slot) (i max : N) : ffree :=
  match fuel with
  | 0 => FFuel
  | S f => if (max <? i)%N then FNone
           else match cmd_find sl i 0 with
                | None => FFound i
                | Some _ => find_free f sl (i + 1)%N max
                end
  end.

Inductive rres := RSlot (pos : nat) (id : N) | RNone | RFuel.
(* mpt_command_reserve(arr, max) *)
Definition command_reserve (t : option table) (max : N) : res (option table * rres) :=
  if (max =? 0)%N then Ok (t, RNone) else
  let mx := reserve_max max in
  match t with
  | None =>
    (* mpt_array_append(arr, sizeof cmd[0] * 8, 0): eight zeroed slots, the first one set up *)
    Ok (Some (mktable false (mkslot 1 (Some FLog) 1 0 :: repeat (mkslot 0 None 0 0) 7)), RSlot 0 1%N)
  | Some tb =>
    do '(sl, used, mid) <- compact (slots tb);
    do sl' <- rdslots sl 0 used;                 (* msg->_used = used * sizeof cmd[0] *)
    let tb' := mktable (typed tb) sl' in
    (* try to find low free id: if (mid >= max) search else ++mid *)
    match (if (mx <=? mid)%N then find_free (S used) sl' 1%N mx else FFound (mid + 1)%N) with
    | FFuel => Ok (Some tb', RFuel)
    | FNone => Ok (Some tb', RNone)              (* no unique message id available *)
    | FFound id =>
      (* mpt_array_insert(arr, msg->_used, sizeof cmd[0]): works on a raw buffer and on one with content
         traits (docs/C11_reserve_typed.diff; before it mpt_array_append refused every typed buffer) *)
      Ok (Some (mktable (typed tb) (sl' ++ [mkslot id (Some FLog) id 0])), RSlot used id)
    end
  end.

(* ---------------------------------------------------------------- hash_djb2.c *)
(* hash = (hash * 33) ^ *str++ with str a (signed) char pointer: the byte is sign
   extended to uintptr_t before the xor *)
Definition sext8 (b : byte) : N := if (b <? 128)%N then b else (b + (W64 - 256))%N.
Definition djb2_step (h : N) (b : byte) : N := N.lxor (wrap64 (h * 33)) (sext8 b).
Definition djb2 (l : list byte) : N := fold_left djb2_step l 5381%N.

(* ---------------------------------------------------------------- context_reply.c *)
(* mpt_context_reply(rc, code, ...): nothing is sent for a code outside [CHAR_MIN, CHAR_MAX];
   without context the text goes to stderr (not observed) *)
Definition reply_to (rp : option N) (code : Z) : list lentry :=
  match rp with
  | Some c => if ((-128 <=? code) && (code <=? 127))%Z then [LReply c code] else []
  | None => []
  end.

Definition is_some {A} (o : option A) : bool := match o with Some _ => true | None => false end.

(* ---------------------------------------------------------------- dispatch_finit.c *)
(* static unknownEvent(arg, ev), ev != NULL: (return, new ev->id, replies) *)
Definition unknown_event (id : N) (m : option msg) (rp : option N) : res (Z * N * list lentry) :=
  if negb (id =? 0)%N then Ok (3%Z, 0%N, reply_to rp (-1))            (* invalid command *)
  else match m with
       | None => Ok (3%Z, id, reply_to rp (-16))                      (* message required *)
       | Some m =>
         do '(cnt, _, _) <- m_read m 1;
         if cnt =? 0 then Ok (0%Z, id, [])                            (* empty message *)
         else Ok (2%Z, id, reply_to rp (-4))                          (* unable to process message type *)
       end.

(* cmd->cmd(cmd->arg, ev): (return value, ev->id afterwards, log) *)
Definition invoke (h : hdl) (id : N) (m : option msg) (rp : option N) (rsp : resp)
  : res (Z * N * list lentry) :=
  let call := LCall (hr h) (hf h) (ha h) (Some (mkview id (is_some m) rp)) in
  match hf h with
  | FUser => Ok (r_ret rsp, match r_setid rsp with Some i => i | None => id end, [call])
  | FLog => Ok (0%Z, id, [call])
  | FUnk => do '(ret, id', rl) <- unknown_event id m rp; Ok (ret, id', call :: rl)
  end.

(* mpt_dispatch_fini *)
Definition dispatch_fini (d : disp) : disp * list lentry :=
  let '(_, lg) := command_clear (d_tbl d) in          (* mpt_command_clear; mpt_array_clone(&_d, 0) *)
  let le := match d_err d with Some h => [fin_of h] | None => [] end in
  let lc := match d_ctx d with Some c => [LUnref c] | None => [] end in
  (mkdisp None 0%N None None (d_next d), lg ++ le ++ lc).

(* ---------------------------------------------------------------- hash_djb2.c: mpt_hash_djb2(data, len) *)
(* while ( *str ) hash = (hash x 33) xor *str++;  every byte is read from the storage [m] behind the pointer *)
Fixpoint djb2_str (fuel : nat) (m : mem) (i : nat) (h : N) : res N :=
  match fuel with
  | 0 => Fault
  | S f => do c <- rd m i 1;
           let b := hd 0%N c in
           if (b =? 0)%N then Ok h else djb2_str f m (S i) (djb2_step h b)
  end.
Definition hash_djb2 (data : option mem) (len : Z) : res N :=
  match data with
  | None => Ok 0%N                                               (* if (!(str = data)) return 0 *)
  | Some m =>
    if (len <? 0)%Z then djb2_str (S (length m)) m 0 5381%N       (* NUL terminated *)
    else do d <- rd m 0 (Z.to_nat len); Ok (fold_left djb2_step d 5381%N)
  end.

(* ---------------------------------------------------------------- command_reserve.c: static log_reply(out, arg) *)
(* the handler mpt_command_reserve leaves in a reserved slot; arg is a message (or NULL).  What it
   writes through mpt_log is not modelled; it reads the two header bytes and returns 0 on every path. *)
Definition log_reply (m : option msg) : res Z :=
  match m with
  | None => Ok 0%Z                                                (* empty reply *)
  | Some m =>
    do '(cnt, hd2, m1) <- m_read m 2;                             (* mpt_message_read(&msg, sizeof(mt), &mt) *)
    if cnt =? 0 then Ok 0%Z                                       (* zero length reply *)
    else if (nth 0 hd2 0 =? 1)%N then Ok 0%Z                      (* MessageAnswer: level from mt.arg *)
    else if (nth 0 hd2 0 =? 0)%N then Ok 0%Z                      (* MessageOutput *)
    else Ok (Z.of_nat (m_length m1) * 0)%Z                        (* len += mpt_message_length(&msg); return 0 *)
  end.

(* ---------------------------------------------------------------- reply_set.c, mpt++/event.cpp reply_data::set *)
(* struct reply_data { uint16_t _max, len; uint8_t val[] }: val area of _max bytes *)
Record rdata := mkrd { rd_max : N; rd_len : N; rd_val : mem }.
(* mpt_reply_set(rd, len, data); BadValue = -2 *)
Definition reply_set (r : rdata) (len : nat) (data : option mem) : res (rdata * Z) :=
  if (rd_max r <? N.of_nat len)%N then Ok (r, (-2)%Z)
  else
    do src <- match data with Some d => rd d 0 len | None => Ok (repeat 0%N len) end;   (* memcpy / memset *)
    do v <- wr (rd_val r) 0 src;
    Ok (mkrd (rd_max r) (N.of_nat len) v, (Z.of_N (rd_max r) - Z.of_nat len)%Z).
(* reply_data::set(len, data): if (len && active()) return false; return mpt_reply_set(..) >= 0 *)
Definition reply_data_set (r : rdata) (len : nat) (data : option mem) : res (rdata * bool) :=
  if negb (len =? 0) && negb (rd_len r =? 0)%N then Ok (r, false)
  else do '(r', ret) <- reply_set r len data; Ok (r', negb (ret <? 0)%Z).
(* the object the harness builds: _max, the first bytes of the value area in use, the rest 0xee *)
Definition mk_rdata (max : N) (cur : list byte) : rdata :=
  let c := firstn (N.to_nat max) cur in
  mkrd max (N.of_nat (length c)) (c ++ repeat 238%N (N.to_nat max - length c)).

(* ---------------------------------------------------------------- command_traits.c: _command_init(ptr, src) *)
(* a command that holds a handler is not copied (BadOperation = -4, destination untouched); otherwise the
   destination is zeroed.  src: None = NULL, Some live *)
Definition command_init (src : option bool) : Z * bool :=
  match src with
  | Some true => ((-4)%Z, false)
  | _ => (0%Z, true)
  end.

(* ---------------------------------------------------------------- calls that do not touch the dispatcher *)
Inductive aux :=
| ADjbLen (s : list byte)                        (* mpt_hash_djb2(s, length s) *)
| ADjbStr (s : list byte)                        (* mpt_hash_djb2(s ++ "\0", -1) *)
| ADjbNull (len : Z)                             (* mpt_hash_djb2(NULL, len) *)
| ALogReply (m : option (list frag))             (* the handler of a fresh reserved slot on a message / NULL *)
| ARSet (max : N) (cur data : list byte)         (* reply_data::set(length data, data) *)
| ARZero (max : N) (cur : list byte) (len : nat) (* reply_data::set(len, NULL) *)
| ADefer                                         (* reply_context::defer() of a context that does not override it *)
| ATraits                                        (* reply_context::pointer_traits() *)
| ACopy                                          (* copy construction of the dispatcher (refused at compile time,
                                                    docs/C11_dispatch_copy.diff) *)
| AUnknown (id : N) (m : option (list frag)) (rp : option N)    (* the built-in fallback called directly *)
| ACmdInit (src : option bool).                  (* mpt_command_traits()->init(ptr, src): src NULL | unused | live *)

Inductive aout :=
| XHash (h : N)
| XInt (z : Z)
| XBool (b : bool)
| XRData (ok : bool) (len : N) (val : list byte)
| XUnk (ret : Z) (id : N)
| XInit (ret : Z) (zeroed : bool).

Definition show_rdata (x : rdata * bool) : aout := XRData (snd x) (rd_len (fst x)) (rd_val (fst x)).

Definition aux_run (a : aux) : res (aout * list lentry) :=
  match a with
  | ADjbLen s => do h <- hash_djb2 (Some s) (Z.of_nat (length s)); Ok (XHash h, [])
  | ADjbStr s => do h <- hash_djb2 (Some (s ++ [0%N])) (-1); Ok (XHash h, [])
  | ADjbNull len => do h <- hash_djb2 None len; Ok (XHash h, [])
  | ALogReply m => do z <- log_reply (option_map msg_of m); Ok (XInt z, [])
  | ARSet max cur data => do x <- reply_data_set (mk_rdata max cur) (length data) (Some data); Ok (show_rdata x, [])
  | ARZero max cur len => do x <- reply_data_set (mk_rdata max cur) len None; Ok (show_rdata x, [])
  | ADefer => Ok (XBool false, [])               (* return 0 *)
  | ATraits => Ok (XBool true, [])               (* mpt_interface_traits(TypeReplyPtr): the built-in entry *)
  | ACopy => Ok (XBool false, [])
  | AUnknown id m rp =>
    do '(ret, id', rl) <- unknown_event id (option_map msg_of m) rp; Ok (XUnk ret id', rl)
  | ACmdInit src => let '(ret, z) := command_init src in Ok (XInit ret z, [])
  end.

(* ---------------------------------------------------------------- dispatch_emit.c *)
Inductive out :=
| OInt (z : Z)                                   (* int result *)
| OBool (b : bool)
| OSlot (r : option (nat * slot))                (* mpt_command_get *)
| ORes (r : option (nat * N))                    (* reserved slot: position, id *)
| OEv (z : Z) (id : option N) (rp : option N)    (* result, ev->id and ev->reply afterwards (None: ev == NULL) *)
| OVoid
| OAuxR (x : aout)
| OFault
| OFuel.

Definition with_def (d : disp) (def : N) : disp :=
  mkdisp (d_tbl d) def (d_err d) (d_ctx d) (d_next d).

(* state & ~Default, state | Default *)
Definition clr_default (z : Z) : Z := Z.land z (Z.lnot 1).
Definition set_default (z : Z) : Z := Z.lor z 1.

(* the part of mpt_dispatch_emit after the command lookup *)
Definition emit_call (d : disp) (cmd : option hdl) (id : N) (m : option msg) (rp0 : option N) (rsp : resp)
  : res (disp * out * list lentry) :=
  (* fallback on dispatcher output *)
  let rp := match rp0 with Some _ => rp0 | None => d_ctx d end in
  match (match cmd with Some h => Some h | None => d_err d end) with
  | None =>
    (* mpt_context_reply(ev->reply, BadType, "unknown command"); return BadArgument *)
    Ok (d, OEv (-1) (Some id) rp, reply_to rp (-3))
  | Some h =>
    do '(state, id', lg) <- invoke h id m rp rsp;
    if (state <? 0)%Z then
      (* bad execution of command *)
      Ok (d, OEv state (Some id') rp, lg ++ reply_to rp state)
    else
      (* modify default command *)
      let '(state, def) := if Z.testbit state 0 then (clr_default state, id') else (state, d_def d) in
      (* propagate default call availability *)
      let state := if (def =? 0)%N then state else set_default state in
      Ok (with_def d def, OEv state (Some id') rp, lg)
  end.

Definition cmd_hdl (t : option table) (id : N) : option hdl :=
  match cmd_get t id with Some (_, s) => slot_hdl s | None => None end.

(* mpt_dispatch_emit(disp, ev) *)
Definition dispatch_emit (d : disp) (ev : option event) (rsp : resp) : res (disp * out * list lentry) :=
  match ev with
  | None =>
    (* execute default command *)
    if (d_def d =? 0)%N then Ok (d, OEv 0 None None, [])
    else match cmd_hdl (d_tbl d) (d_def d) with
         | None => Ok (with_def d 0%N, OEv (-2) None None, [])   (* bad default command *)
         | Some h =>
           do '(d', o, lg) <- emit_call d (Some h) (d_def d) None None rsp;
           Ok (d', match o with OEv z _ _ => OEv z None None | _ => o end, lg)
         end
  | Some e =>
    match e_msg e with
    | None => emit_call d (cmd_hdl (d_tbl d) (e_id e)) (e_id e) None (e_reply e) rsp
    | Some F =>
      do '(cnt, bytes, _) <- m_read (msg_of F) 1;
      if cnt <? 1 then Ok (d, OEv (-2) (Some (e_id e)) (e_reply e), [])
      else let id := hd 0%N bytes in
           emit_call d (cmd_hdl (d_tbl d) id) id (Some (msg_of F)) (e_reply e) rsp
    end
  end.

(* ---------------------------------------------------------------- dispatch_hash.c *)
(* MPT_event_fail(ev, code, txt): reply, ev->id = 0, Fail | Default *)
Definition event_fail (d : disp) (rp : option N) (code : Z) (pre : list lentry)
  : res (disp * out * list lentry) :=
  Ok (d, OEv 3 (Some 0%N) rp, pre ++ reply_to rp code).

Definition err_code (e : err) : Z :=
  match e with
  | BadArgument => -1 | BadValue => -2 | BadType => -3 | BadOperation => -4
  | BadEncoding => -8 | MissingData => -16 | MissingBuffer => -17
  | ERange => -34 | EInval => -22
  end%Z.

(* the text the hash is computed over: Ok bytes | Err code for MPT_event_fail *)
Definition hash_text (m : msg) : res (Z + list byte) :=
  do '(cnt, hd2, m1) <- m_read m 2;                       (* mpt_message_read(&msg, sizeof(mt), &mt) *)
  if cnt <? 2 then Ok (inl (-16)%Z)                        (* missing message type / header *)
  else
    let mcmd := nth 0 hd2 0%N in
    let sep := if (mcmd =? 4)%N then nth 1 hd2 0%N else 0%N in    (* mt.cmd != MessageCommand: mt.arg = 0 *)
    do '(r, m2) <- m_argv m1 sep;                          (* mpt_message_argv(&msg, mt.arg) *)
    match r with
    | Err e => Ok (inl (err_code e))
    | Fault => Fault
    | Ok len =>
      if len =? 0 then Ok (inl 0%Z)
      else if len <=? length (mcur m2) then                (* continous data *)
        do txt <- rd (mcur m2) 0 len;
        Ok (inr (if (sep =? 0)%N && (nth (len - 1) txt 1%N =? 0)%N then firstn (len - 1) txt else txt))
      else if 128 <? len then Ok (inl (-17)%Z)             (* large unaligned text command *)
      else
        do '(cnt, txt, _) <- m_read m2 len;
        if negb (cnt =? len) then Fault                    (* MPT_ABORT("conflicting message length") *)
        else Ok (inr (if (sep =? 0)%N && (nth (len - 1) txt 1%N =? 0)%N then firstn (len - 1) txt else txt))
    end.

(* mpt_dispatch_hash(disp, ev) *)
Definition dispatch_hash (d : disp) (ev : option event) (rsp : resp) : res (disp * out * list lentry) :=
  match ev with
  | None => Ok (d, OEv 0 None None, [])
  | Some e =>
    let rp := e_reply e in
    match e_msg e with
    | None => event_fail d rp (-16) []
    | Some F =>
      do t <- hash_text (msg_of F);
      match t with
      | inl code => event_fail d rp code []
      | inr txt =>
        let id := djb2 txt in
        match cmd_hdl (d_tbl d) id with
        | Some h =>                                         (* execute matching command *)
          do '(ret, id', lg) <- invoke h id (Some (msg_of F)) rp rsp;
          if (ret <? 0)%Z then event_fail d rp ret lg
          else Ok (d, OEv ret (Some id') rp, lg)
        | None =>
          match d_err d with
          | Some h =>                                       (* execute fallback command *)
            do '(ret, id', lg) <- invoke h id (Some (msg_of F)) rp rsp;
            Ok (d, OEv ret (Some id') rp, lg)
          | None => event_fail d rp (-2) []                 (* unable to find command *)
          end
        end
      end
    end
  end.

(* ---------------------------------------------------------------- operations *)
Inductive op :=
| OSet (id : N)                      (* mpt_dispatch_set(d, id, handler, registration) / command::array::set_handler *)
| OUnset (id : N)                    (* mpt_dispatch_set(d, id, 0, 0) *)
| OCmdSet (id : N) (h : bool)        (* mpt_command_set(&d->_d, id, handler | 0, registration | 0) *)
| OGet (id : N)                      (* mpt_command_get / command::array::handler *)
| OClear                             (* mpt_command_clear(&d->_d) *)
| OReserve (max : N)                 (* mpt_command_reserve + arming as mpt_connection_await does / command::array::reserve *)
| OEmit (ev : option event) (rsp : resp)
| OHash (ev : option event) (rsp : resp)
| OSetErr (h : bool)                 (* dispatch::set_error *)
| OSetDef (id : N)                   (* dispatch::set_default *)
| OSetCtx                            (* harness: _ctx = new context if none is set *)
| OFini                              (* mpt_dispatch_fini / dispatch::~dispatch *)
| OArr                               (* C++: a default constructed command::array (as io::stream::_wait) is assigned to the
                                        table: the shared empty content with command traits; the old buffer is released *)
| OAux (a : aux).                    (* calls beside the dispatcher *)

Definition with_tbl (d : disp) (t : option table) : disp :=
  mkdisp t (d_def d) (d_err d) (d_ctx d) (d_next d).

(* one operation; the registration number of whatever it registers is the ghost
   operation counter, which every operation advances *)
Definition dstep0 (d : disp) (o : op) : res (disp * out * list lentry) :=
  let r := d_next d in
  match o with
  | OSet id =>
    do '(t, ret, lg) <- dispatch_set (d_tbl d) id (Some FUser) r r;
    Ok (with_tbl d t, OInt ret, lg)
  | OUnset id =>
    do '(t, ret, lg) <- dispatch_set (d_tbl d) id None 0%N r;
    Ok (with_tbl d t, OInt ret, lg)
  | OCmdSet id h =>
    do '(t, ret, lg) <- command_set (d_tbl d) id (if h then Some FUser else None) (if h then r else 0%N) r;
    Ok (with_tbl d (Some t), OInt ret, lg)
  | OGet id => Ok (d, OSlot (cmd_get (d_tbl d) id), [])
  | OClear => let '(t, lg) := command_clear (d_tbl d) in Ok (with_tbl d t, OVoid, lg)
  | OReserve max =>
    do '(t, rr) <- command_reserve (d_tbl d) max;
    match rr, t with
    | RSlot pos id, Some tb =>
      (* cmd->cmd = ctl; cmd->arg = udata *)
      do sl <- put (slots tb) pos (mkslot id (Some FUser) r r);
      Ok (with_tbl d (Some (mktable (typed tb) sl)), ORes (Some (pos, id)), [LReg r])
    | RSlot _ _, None => Fault
    | RNone, _ => Ok (with_tbl d t, ORes None, [])
    | RFuel, _ => Ok (with_tbl d t, OFuel, [])
    end
  | OEmit ev rsp => dispatch_emit d ev rsp
  | OHash ev rsp => dispatch_hash d ev rsp
  | OSetErr h =>
    (* if (_err.cmd) _err.cmd(_err.arg, 0); _err.cmd = cmd; _err.arg = arg *)
    let lg := match d_err d with Some h0 => [fin_of h0] | None => [] end in
    Ok (mkdisp (d_tbl d) (d_def d) (if h then Some (mkh FUser r r) else None) (d_ctx d) (d_next d),
        OVoid, lg ++ (if h then [LReg r] else []))
  | OSetDef id =>
    (* if (!handler(id)) return false; _def = id; return true *)
    match cmd_get (d_tbl d) id with
    | None => Ok (d, OBool false, [])
    | Some _ => Ok (with_def d id, OBool true, [])
    end
  | OSetCtx =>
    match d_ctx d with
    | Some _ => Ok (d, OVoid, [])
    | None => Ok (mkdisp (d_tbl d) (d_def d) (d_err d) (Some r) (d_next d), OVoid, [])
    end
  | OFini => let '(d', lg) := dispatch_fini d in Ok (d', OVoid, lg)
  | OArr =>
    (* *this = command::array(): the reference to the old buffer is released (its content traits run
       cmd(arg, NULL) for every used element, command_traits.c) and replaced by the shared empty content;
       the harness does not do it on a raw (reserve-made) buffer, which has no traits to finalise with *)
    match d_tbl d with
    | None => Ok (with_tbl d (Some (mktable true [])), OVoid, [])
    | Some tb =>
      if typed tb then Ok (with_tbl d (Some (mktable true [])), OVoid, flat_map fin_slot (slots tb))
      else Ok (d, OVoid, [])
    end
  | OAux a => do '(x, lg) <- aux_run a; Ok (d, OAuxR x, lg)
  end.

Definition tick (d : disp) : disp :=
  mkdisp (d_tbl d) (d_def d) (d_err d) (d_ctx d) (d_next d + 1)%N.

Definition dstep (d : disp) (o : op) : disp * out * list lentry :=
  match dstep0 d o with
  | Ok (d', out, lg) => (tick d', out, lg)
  | _ => (tick d, OFault, [])
  end.

(* mpt_dispatch_init: no table, no default, _err = unknownEvent (registration 0) *)
Definition dinit : disp := mkdisp None 0%N (Some (mkh FUnk 0%N 0%N)) None 1%N.
Definition linit : list lentry := [LReg 0%N].

Fixpoint drun (d : disp) (ops : list op) : list (out * list lentry * disp) :=
  match ops with
  | [] => []
  | o :: ops => let '(d', out, lg) := dstep d o in (out, lg, d') :: drun d' ops
  end.
