(* C11/DispatchCompact.v — the in-place compaction loop of mpt_command_reserve
   (pointer to the smallest free position, move, clear, advance) is a stable
   filter: afterwards the first [used] slots are exactly the live slots in their
   old order, [used] is their number, [mid] the maximum of ALL stored ids, and no
   access leaves the used range.  For every table, by induction on the part of
   the table still to be visited. *)
From MptV Require Import Base.Mem C17.MessageModel C11.DispatchModel C11.DispatchSpec C11.DispatchLemmas.
Local Open Scope nat_scope.

Definition mid_step (m : N) (s : slot) : N := if (m <? sid s)%N then sid s else m.
Definition maxid (l : list slot) (m : N) : N := fold_left mid_step l m.

Lemma first_dead_head seg j : (forall x, In x seg -> live x = false) -> first_dead seg j = j.
Proof.
  destruct seg as [|s r]; [reflexivity|]. intros H. cbn. rewrite (H s (or_introl eq_refl)). reflexivity.
Qed.

Lemma compact_go_spec : forall post A D cmd mid,
  (forall x, In x D -> live x = false) ->
  cmd = match D with [] => None | _ => Some (length A) end ->
  exists D',
    compact_go (length post) (length A + length D) (A ++ D ++ post) cmd (length A) mid
    = Ok (A ++ filter live post ++ D', length A + length (filter live post), maxid post mid)
    /\ (forall x, In x D' -> live x = false)
    /\ length D' + length (filter live post) = length D + length post.
Proof.
  induction post as [|s post IH]; intros A D cmd mid HD Hc.
  - exists D. cbn [length compact_go filter maxid fold_left app]. rewrite !app_nil_r, Nat.add_0_r.
    split; [reflexivity|]. split; [exact HD|lia].
  - cbn [length compact_go].
    assert (G : getslot (A ++ D ++ s :: post) (length A + length D) = Ok s).
    { rewrite app_assoc, <- app_length. apply getslot_at. }
    rewrite G. cbn [bind]. fold (mid_step mid s).
    destruct (live s) eqn:L; cbn [negb].
    + (* a live slot *)
      destruct D as [|d0 Dt].
      * (* nothing free below: stays where it is *)
        subst cmd. cbn [app length]. rewrite Nat.add_0_r.
        destruct (IH (A ++ [s]) [] None (mid_step mid s)) as (D' & E & HD' & HL).
        { intros x []. } { reflexivity. }
        exists D'. rewrite app_length in E. cbn [length app] in E.
        rewrite Nat.add_0_r, Nat.add_1_r, <- app_assoc in E. cbn [app] in E.
        rewrite E. cbn [filter]. rewrite L. cbn [maxid fold_left length].
        rewrite <- app_assoc. cbn [app].
        split; [f_equal; f_equal; try reflexivity; f_equal; lia|]. split; [exact HD'|].
        cbn [length] in *. lia.
      * (* move it to the smallest free position, clear its old place *)
        subst cmd. cbn [app].
        rewrite put_at. cbn [bind].
        set (ds := mkslot (sid s) None (sarg s) (sreg s)).
        assert (P2 : put (A ++ s :: Dt ++ s :: post) (length A + length (d0 :: Dt)) ds
                     = Ok (A ++ s :: Dt ++ ds :: post)).
        { replace (A ++ s :: Dt ++ s :: post) with ((A ++ s :: Dt) ++ s :: post)
            by (rewrite <- app_assoc; reflexivity).
          replace (length A + length (d0 :: Dt)) with (length (A ++ s :: Dt))
            by (rewrite app_length; cbn [length]; lia).
          rewrite put_at, <- app_assoc. reflexivity. }
        rewrite P2. cbn [bind].
        assert (NF : next_free (A ++ s :: Dt ++ ds :: post) (S (length A)) (length A + length (d0 :: Dt))
                     = Ok (S (length A))).
        { unfold next_free. cbn [length].
          replace (length A + S (length Dt) - S (length A)) with (length Dt) by lia.
          rewrite rdslots_ok by (rewrite !app_length; cbn [length]; rewrite app_length; cbn [length]; lia).
          cbn [bind]. f_equal.
          replace (A ++ s :: Dt ++ ds :: post) with ((A ++ [s]) ++ Dt ++ ds :: post)
            by (rewrite <- app_assoc; reflexivity).
          replace (S (length A)) with (length (A ++ [s])) at 1 by (rewrite app_length; cbn; lia).
          rewrite skipn_app, Nat.sub_diag, skipn_all. cbn [skipn app].
          rewrite firstn_app, Nat.sub_diag, firstn_all. cbn [firstn]. rewrite app_nil_r.
          apply first_dead_head. intros x Hx. apply HD. right. exact Hx. }
        rewrite NF. cbn [bind].
        destruct (IH (A ++ [s]) (Dt ++ [ds]) (Some (S (length A))) (mid_step mid s)) as (D' & E & HD' & HL).
        { intros x Hx. apply in_app_iff in Hx. destruct Hx as [Hx|[<-|[]]]; [apply HD; right; exact Hx|reflexivity]. }
        { rewrite app_length. cbn [length]. rewrite Nat.add_1_r. destruct Dt; reflexivity. }
        exists D'.
        replace (length (A ++ [s]) + length (Dt ++ [ds])) with (S (length A + length (d0 :: Dt))) in E
          by (rewrite !app_length; cbn [length]; lia).
        replace ((A ++ [s]) ++ (Dt ++ [ds]) ++ post) with (A ++ s :: Dt ++ ds :: post) in E
          by (rewrite <- !app_assoc; reflexivity).
        replace (length (A ++ [s])) with (S (length A)) in E by (rewrite app_length; cbn; lia).
        rewrite E. cbn [filter]. rewrite L. cbn [maxid fold_left length].
        rewrite <- app_assoc. cbn [app].
        split; [f_equal; f_equal; try reflexivity; f_equal; lia|]. split; [exact HD'|].
        rewrite app_length in HL. cbn [length] in *. lia.
    + (* an unused slot: remember the first one *)
      destruct (IH A (D ++ [s]) (match cmd with None => Some (length A + length D) | _ => cmd end) (mid_step mid s))
        as (D' & E & HD' & HL).
      { intros x Hx. apply in_app_iff in Hx. destruct Hx as [Hx|[<-|[]]]; [apply HD; exact Hx|exact L]. }
      { subst cmd. destruct D as [|d0 Dt]; cbn [app length]; [rewrite Nat.add_0_r|]; reflexivity. }
      exists D'.
      replace (length A + length (D ++ [s])) with (S (length A + length D)) in E
        by (rewrite app_length; cbn [length]; lia).
      replace (A ++ (D ++ [s]) ++ post) with (A ++ D ++ s :: post) in E
        by (rewrite <- !app_assoc; reflexivity).
      rewrite E. cbn [filter]. rewrite L. cbn [maxid fold_left].
      split; [reflexivity|]. split; [exact HD'|].
      rewrite app_length in HL. cbn [length] in *. lia.
Qed.

Lemma compact_spec sl : exists D',
  compact sl = Ok (filter live sl ++ D', length (filter live sl), maxid sl 0%N)
  /\ length (filter live sl ++ D') = length sl.
Proof.
  destruct (compact_go_spec sl [] [] None 0%N) as (D' & E & _ & HL); [intros x []|reflexivity|].
  exists D'. unfold compact. cbn [app length Nat.add] in E. rewrite E. split; [reflexivity|].
  rewrite app_length. cbn [length] in HL. lia.
Qed.

(* mid bounds every stored id *)
Lemma maxid_ge l : forall m, (m <= maxid l m)%N /\ forall x, In x l -> (sid x <= maxid l m)%N.
Proof.
  induction l as [|s l IH]; intros m; cbn [maxid fold_left].
  - split; [lia|intros x []].
  - destruct (IH (mid_step m s)) as [I1 I2]. fold (maxid l (mid_step m s)).
    assert (M : (m <= mid_step m s /\ sid s <= mid_step m s)%N).
    { unfold mid_step. destruct (N.ltb_spec m (sid s)); lia. }
    split; [lia|]. intros x [<-|Hx]; [lia|apply I2; exact Hx].
Qed.

(* ---------------------------------------------------------------- the low id search ends *)
(* ids 1..k all taken by live slots needs k live slots: pigeonhole via NoDup/incl *)
Lemma cmd_find_in l id p pos s : cmd_find l id p = Some (pos, s) -> In id (map sid (filter live l)).
Proof.
  intros H. apply cmd_find_some in H. destruct H as (l1 & l2 & -> & _ & L & <- & _).
  rewrite filter_app, map_app, in_app_iff. right. cbn [filter]. rewrite L. left. reflexivity.
Qed.

Lemma find_free_fuel : forall fuel sl i mx taken,
  NoDup taken -> (forall k, In k taken -> (k < i)%N /\ In k (map sid (filter live sl))) ->
  length (filter live sl) < fuel + length taken ->
  find_free fuel sl i mx <> FFuel.
Proof.
  induction fuel as [|fuel IH]; intros sl i mx taken ND HT HL.
  - exfalso. cbn in HL.
    assert (HN : length taken <= length (map sid (filter live sl))).
    { apply NoDup_incl_length; [exact ND|]. intros k Hk. apply HT. exact Hk. }
    rewrite map_length in HN. lia.
  - cbn [find_free]. destruct (mx <? i)%N; [discriminate|].
    destruct (cmd_find sl i 0) as [[pos s]|] eqn:E; [|discriminate].
    apply (IH sl (i + 1)%N mx (i :: taken)).
    + constructor; [|exact ND]. intros Hi. apply HT in Hi. lia.
    + intros k [<-|Hk]; [split; [lia|eapply cmd_find_in; exact E]|].
      destruct (HT k Hk). split; [lia|assumption].
    + cbn [length]. lia.
Qed.

Lemma find_free_found : forall fuel sl i mx id, find_free fuel sl i mx = FFound id ->
  (i <= id <= mx)%N /\ cmd_find sl id 0 = None.
Proof.
  induction fuel as [|fuel IH]; intros sl i mx id; cbn [find_free]; [discriminate|].
  destruct (N.ltb_spec mx i) as [Hlt|Hle]; [discriminate|].
  destruct (cmd_find sl i 0) eqn:E.
  - intros HF. apply IH in HF. destruct HF as [HF1 HF2]. split; [lia|assumption].
  - intros HF; inversion HF; subst. split; [lia|exact E].
Qed.

(* the search gives up only when every id of the range has a live slot *)
Lemma find_free_none : forall fuel sl i mx, find_free fuel sl i mx = FNone ->
  forall k, (i <= k <= mx)%N -> exists p s, cmd_find sl k 0 = Some (p, s).
Proof.
  induction fuel as [|fuel IH]; intros sl i mx; cbn [find_free]; [discriminate|].
  destruct (N.ltb_spec mx i) as [Hlt|Hle]; [intros _ k Hk; lia|].
  destruct (cmd_find sl i 0) as [[p s]|] eqn:E; [|discriminate].
  intros HF k Hk. destruct (N.eq_dec k i) as [->|Hn]; [eauto|].
  apply (IH sl (i + 1)%N mx HF). lia.
Qed.
