(* C11/DispatchLog.v — the call log of any history: registrations, finaliser calls
   (cmd(arg, NULL)) and invocations balance.
   Per specification step ([sstep0_log]): what the log delta registers, finalises and
   invokes, relative to the registrations held before and after.  Carried to the
   model step by stage 1 of the refinement (permutation of deltas), then to whole
   histories by the invariant [J]. *)
From MptV Require Import Base.Mem C17.MessageModel C17.MessageSpec
  C11.DispatchModel C11.DispatchSpec C11.DispatchLemmas C11.DispatchAux C11.DispatchRefine.
From Coq Require Import Permutation.
Local Open Scope nat_scope.

Lemma regs_app a b : regs_of (a ++ b) = regs_of a ++ regs_of b.
Proof. apply flat_map_app. Qed.
Lemma fins_app a b : fins_of (a ++ b) = fins_of a ++ fins_of b.
Proof. apply flat_map_app. Qed.
Lemma calls_app a b : calls_of (a ++ b) = calls_of a ++ calls_of b.
Proof. apply flat_map_app. Qed.

Lemma regs_perm a b : Permutation a b -> Permutation (regs_of a) (regs_of b).
Proof. apply Permutation_flat_map. Qed.
Lemma fins_of_perm a b : Permutation a b -> Permutation (fins_of a) (fins_of b).
Proof. apply Permutation_flat_map. Qed.
Lemma calls_perm a b : Permutation a b -> Permutation (calls_of a) (calls_of b).
Proof. apply Permutation_flat_map. Qed.

Definition mregs (m : list (N * hdl)) : list N := map (fun kh => hr (snd kh)) m.
Definition fbregs (fb : option hdl) : list N := match fb with Some h => [hr h] | None => [] end.

Lemma live_regs_eq s : live_regs s = mregs (s_map s) ++ fbregs (s_fb s).
Proof. reflexivity. Qed.

Lemma reply_to_quiet rp code : regs_of (reply_to rp code) = [] /\ fins_of (reply_to rp code) = []
                                /\ calls_of (reply_to rp code) = [].
Proof. unfold reply_to. destruct rp; [destruct (_ && _)%bool|]; repeat split. Qed.

Lemma fins_of_fins m : fins_of (fins m) = mregs m /\ regs_of (fins m) = [] /\ calls_of (fins m) = [].
Proof.
  unfold fins, mregs. induction m as [|[k h] m (I1 & I2 & I3)]; [repeat split|].
  cbn [map fins_of regs_of calls_of flat_map fin_of snd app]. rewrite <- I1.
  fold (fins_of (map (fun kh => fin_of (snd kh)) m)).
  fold (regs_of (map (fun kh => fin_of (snd kh)) m)). fold (calls_of (map (fun kh => fin_of (snd kh)) m)).
  rewrite I2, I3. repeat split.
Qed.

Lemma m_lookup_split m id h : m_lookup m id = Some h ->
  exists m1 m2, m = m1 ++ (id, h) :: m2 /\ ~ In id (map fst m1).
Proof.
  induction m as [|[k g] m IH]; [discriminate|]. cbn.
  destruct (N.eqb_spec id k) as [->|Hn].
  - intros E; inversion E; subst. exists [], m. split; [reflexivity|intros []].
  - intros E. destruct (IH E) as (m1 & m2 & -> & Hni). exists ((k, g) :: m1), m2.
    split; [reflexivity|]. cbn. intros [Hk|Hi]; [congruence|contradiction].
Qed.

Lemma mregs_remove m id h : m_lookup m id = Some h -> Permutation (mregs m) (hr h :: mregs (m_remove m id)).
Proof.
  intros E. destruct (m_lookup_split m id h E) as (m1 & m2 & -> & Hni).
  rewrite m_remove_app by exact Hni. unfold mregs. rewrite !map_app. cbn [map snd].
  symmetry. apply Permutation_middle.
Qed.

Lemma mregs_in m id h : m_lookup m id = Some h -> In (hr h) (mregs m).
Proof. intros E. apply m_lookup_some_in in E. unfold mregs. apply (in_map (fun kh => hr (snd kh))) in E. exact E. Qed.

(* what one step may do to the log *)
Record log_ok (live live' : list N) (next : N) (lg : list lentry) : Prop := {
  lo_balance : Permutation (live ++ regs_of lg) (live' ++ fins_of lg);
  lo_regs : regs_of lg = [] \/ regs_of lg = [next];
  lo_calls : forall r, In r (calls_of lg) -> In r live;
  lo_excl : calls_of lg = [] \/ (regs_of lg = [] /\ fins_of lg = [])
}.

Lemma log_ok_nil live next : log_ok live live next [].
Proof. constructor; cbn; [rewrite app_nil_r; reflexivity|left; reflexivity|intros r []|left; reflexivity]. Qed.

(* deliveries: at most handler invocations of held registrations and replies *)
Lemma s_invoke_log h id m rp rsp :
  let lg := snd (s_invoke h id m rp rsp) in
  regs_of lg = [] /\ fins_of lg = [] /\ calls_of lg = [hr h].
Proof.
  unfold s_invoke. destruct (hf h); cbn [snd]; try (repeat split; reflexivity).
  unfold s_unknown. destruct (negb (id =? 0)%N); [|destruct m as [s|]; [destruct (length s =? 0)|]];
    cbn [snd regs_of fins_of calls_of flat_map app];
    try (destruct (reply_to_quiet rp (-1)) as (A & B & C));
    try (destruct (reply_to_quiet rp (-16)) as (A' & B' & C'));
    try (destruct (reply_to_quiet rp (-4)) as (A'' & B'' & C''));
    unfold regs_of, fins_of, calls_of in *; repeat split; try reflexivity; try assumption;
    cbn [app]; f_equal; assumption.
Qed.

Definition quiet_calls (live : list N) (lg : list lentry) : Prop :=
  regs_of lg = [] /\ fins_of lg = [] /\ forall r, In r (calls_of lg) -> In r live.

Lemma quiet_log_ok live next lg : quiet_calls live lg -> log_ok live live next lg.
Proof.
  intros (A & B & C). constructor.
  - rewrite A, B. reflexivity.
  - left. exact A.
  - exact C.
  - right. split; assumption.
Qed.

Lemma quiet_app live a b : quiet_calls live a -> quiet_calls live b -> quiet_calls live (a ++ b).
Proof.
  intros (A1 & B1 & C1) (A2 & B2 & C2). unfold quiet_calls.
  rewrite regs_app, fins_app, calls_app, A1, A2, B1, B2. repeat split.
  intros r Hr. apply in_app_iff in Hr. destruct Hr; auto.
Qed.

Lemma quiet_reply live rp code : quiet_calls live (reply_to rp code).
Proof. destruct (reply_to_quiet rp code) as (A & B & C). repeat split; try assumption. rewrite C. intros r []. Qed.

Lemma quiet_nil live : quiet_calls live [].
Proof. repeat split. intros r []. Qed.

Lemma quiet_invoke live h id m rp rsp : In (hr h) live -> quiet_calls live (snd (s_invoke h id m rp rsp)).
Proof.
  intros Hi. destruct (s_invoke_log h id m rp rsp) as (A & B & C). repeat split; try assumption.
  rewrite C. intros r [<-|[]]. exact Hi.
Qed.

Lemma target_live s id h :
  match m_lookup (s_map s) id with Some h => Some h | None => s_fb s end = Some h -> In (hr h) (live_regs s).
Proof.
  rewrite live_regs_eq, in_app_iff. destruct (m_lookup (s_map s) id) eqn:E.
  - intros H; inversion H; subst. left. eapply mregs_in. exact E.
  - intros ->. right. left. reflexivity.
Qed.

Lemma s_deliver_log s id m rp rsp :
  let r := s_deliver s id m rp rsp in
  quiet_calls (live_regs s) (snd r) /\ live_regs (fst (fst r)) = live_regs s.
Proof.
  unfold s_deliver.
  destruct (match m_lookup (s_map s) id with Some h => Some h | None => s_fb s end) as [h|] eqn:Et.
  2:{ cbn [fst snd]. split; [apply quiet_reply|reflexivity]. }
  apply target_live in Et.
  pose proof (quiet_invoke (live_regs s) h id m (match rp with Some _ => rp | None => s_ctx s end) rsp Et) as Q.
  destruct (s_invoke h id m _ rsp) as [[state id'] lg]. cbn [snd] in Q.
  destruct (state <? 0)%Z; [cbn [fst snd]; split; [apply quiet_app; [exact Q|apply quiet_reply]|reflexivity]|].
  destruct (Z.testbit state 0); [destruct (id' =? 0)%N|destruct (s_def s =? 0)%N];
    cbn [fst snd]; split; try exact Q; reflexivity.
Qed.

Lemma s_emit_log s ev rsp :
  let r := s_emit s ev rsp in
  quiet_calls (live_regs s) (snd r) /\ live_regs (fst (fst r)) = live_regs s.
Proof.
  unfold s_emit. destruct ev as [e|].
  - destruct (e_msg e) as [F|]; [destruct (concat F)|]; try apply s_deliver_log.
    cbn [fst snd]. split; [apply quiet_nil|reflexivity].
  - destruct (s_def s =? 0)%N; [cbn [fst snd]; split; [apply quiet_nil|reflexivity]|].
    destruct (m_lookup (s_map s) (s_def s)); [|cbn [fst snd]; split; [apply quiet_nil|reflexivity]].
    pose proof (s_deliver_log s (s_def s) None None rsp) as H.
    destruct (s_deliver s (s_def s) None None rsp) as [[a b] c]. exact H.
Qed.

Lemma s_hash_log s ev rsp a :
  let r := s_hash s ev rsp a in
  quiet_calls (live_regs s) (snd r) /\ live_regs (fst (fst r)) = live_regs s.
Proof.
  unfold s_hash, s_fail. destruct ev as [e|]; [|cbn [fst snd]; split; [apply quiet_nil|reflexivity]].
  destruct (e_msg e) as [F|]; [|cbn [fst snd app]; split; [apply quiet_reply|reflexivity]].
  destruct (flat_hash_text (concat F)) as [c|raw].
  { destruct (a_unaligned a); cbn [fst snd app]; split; try apply quiet_nil; try apply quiet_reply; reflexivity. }
  destruct (a_unaligned a).
  { destruct (128 <? length raw); cbn [fst snd app]; split; try apply quiet_nil; try apply quiet_reply; reflexivity. }
  destruct (m_lookup (s_map s) _) as [h|] eqn:El.
  - pose proof (quiet_invoke (live_regs s) h (djb2 (strip0 (hash_sep (concat F)) raw)) (Some (concat F)) (e_reply e) rsp) as Q.
    destruct (s_invoke h _ _ _ rsp) as [[ret id'] lg]. cbn [snd] in Q.
    assert (Hi : In (hr h) (live_regs s)).
    { rewrite live_regs_eq, in_app_iff. left. eapply mregs_in. exact El. }
    destruct (ret <? 0)%Z; cbn [fst snd]; split; try reflexivity; [apply quiet_app; [auto|apply quiet_reply]|auto].
  - destruct (s_fb s) as [h|] eqn:Ef.
    + pose proof (quiet_invoke (live_regs s) h (djb2 (strip0 (hash_sep (concat F)) raw)) (Some (concat F)) (e_reply e) rsp) as Q.
      destruct (s_invoke h _ _ _ rsp) as [[ret id'] lg]. cbn [fst snd] in *. split; [|reflexivity].
      apply Q. rewrite live_regs_eq, Ef, in_app_iff. right. left. reflexivity.
    + cbn [fst snd app]. split; [apply quiet_reply|reflexivity].
Qed.

Ltac lo_reg := constructor; cbn [regs_of fins_of calls_of flat_map app fin_of];
  [|right; reflexivity|intros ? []|left; reflexivity].
Ltac lo_fin := constructor; cbn [regs_of fins_of calls_of flat_map app fin_of];
  [|left; reflexivity|intros ? []|left; reflexivity].

Lemma sstep0_log s o a :
  let '(s', _, lg) := sstep0 s o a in log_ok (live_regs s) (live_regs s') (s_next s) lg.
Proof.
  destruct o as [id|id|id h|id| |max|ev rsp|ev rsp|h|id| | | |x]; unfold sstep0.
  - (* OSet *)
    destruct (m_lookup (s_map s) id); [apply log_ok_nil|]. lo_reg.
    rewrite !live_regs_eq. cbn [s_with_map s_map s_fb mregs map snd hr]. rewrite app_nil_r.
    symmetry. apply Permutation_cons_append.
  - (* OUnset *)
    destruct (m_lookup (s_map s) id) as [h|] eqn:E; [|apply log_ok_nil]. lo_fin.
    rewrite !live_regs_eq. cbn [s_with_map s_map s_fb]. rewrite app_nil_r.
    rewrite (mregs_remove _ _ _ E). cbn [app].
    apply Permutation_cons_append.
  - (* OCmdSet *)
    destruct h; destruct (m_lookup (s_map s) id) as [h0|] eqn:E.
    + constructor; cbn [regs_of fins_of calls_of flat_map app fin_of];
        [|right; reflexivity|intros ? []|left; reflexivity].
      rewrite !live_regs_eq. cbn [s_with_map s_map s_fb mregs map snd hr].
      fold (mregs (m_remove (s_map s) id)). rewrite (mregs_remove _ _ _ E). cbn [app].
      transitivity (s_next s :: hr h0 :: (mregs (m_remove (s_map s) id) ++ fbregs (s_fb s))).
      * symmetry. apply Permutation_cons_append.
      * apply perm_skip. apply Permutation_cons_append.
    + lo_reg. rewrite !live_regs_eq. cbn [s_with_map s_map s_fb mregs map snd hr]. rewrite app_nil_r.
      symmetry. apply Permutation_cons_append.
    + lo_fin. rewrite !live_regs_eq. cbn [s_with_map s_map s_fb]. rewrite app_nil_r.
      rewrite (mregs_remove _ _ _ E). cbn [app].
      apply Permutation_cons_append.
    + apply log_ok_nil.
  - apply log_ok_nil.
  - (* OClear *)
    destruct (fins_of_fins (s_map s)) as (F1 & F2 & F3). constructor; rewrite ?F1, ?F2, ?F3.
    + rewrite !live_regs_eq. cbn [s_with_map s_map s_fb mregs map app]. rewrite app_nil_r. apply Permutation_app_comm.
    + left. reflexivity.
    + intros r [].
    + left. reflexivity.
  - (* OReserve *)
    destruct (a_id a) as [id|]; [|destruct (_ || _)%bool; apply log_ok_nil].
    destruct (_ && _)%bool; [|apply log_ok_nil]. lo_reg.
    rewrite !live_regs_eq. cbn [s_with_map s_map s_fb mregs map snd hr]. rewrite app_nil_r.
    symmetry. apply Permutation_cons_append.
  - (* OEmit *)
    pose proof (s_emit_log s ev rsp) as H. destruct (s_emit s ev rsp) as [[s' so] lg].
    cbn [fst snd] in H. destruct H as [Q ->]. apply quiet_log_ok. exact Q.
  - (* OHash *)
    pose proof (s_hash_log s ev rsp a) as H. destruct (s_hash s ev rsp a) as [[s' so] lg].
    cbn [fst snd] in H. destruct H as [Q ->]. apply quiet_log_ok. exact Q.
  - (* OSetErr *)
    rewrite !live_regs_eq. cbn [s_map s_fb].
    destruct (s_fb s) as [h0|]; destruct h; constructor;
      cbn [regs_of fins_of calls_of flat_map app fin_of fbregs hr];
      try (left; reflexivity); try (right; reflexivity); try (intros ? []); rewrite ?app_nil_r; try reflexivity.
    + rewrite <- !app_assoc. apply Permutation_app_head. cbn [app]. apply perm_swap.
  - destruct (m_lookup (s_map s) id); apply log_ok_nil.
  - destruct (s_ctx s); apply log_ok_nil.
  - (* OFini *)
    destruct (fins_of_fins (s_map s)) as (F1 & F2 & F3).
    assert (G : forall l, fins_of (l ++ match s_ctx s with Some c => [LUnref c] | None => [] end) = fins_of l
                          /\ regs_of (l ++ match s_ctx s with Some c => [LUnref c] | None => [] end) = regs_of l
                          /\ calls_of (l ++ match s_ctx s with Some c => [LUnref c] | None => [] end) = calls_of l).
    { intros l. rewrite fins_app, regs_app, calls_app. destruct (s_ctx s); cbn; rewrite !app_nil_r; repeat split. }
    rewrite app_assoc. destruct (G (fins (s_map s) ++ match s_fb s with Some h => [fin_of h] | None => [] end)) as (G1 & G2 & G3).
    constructor; rewrite ?G1, ?G2, ?G3, ?fins_app, ?regs_app, ?calls_app, ?F1, ?F2, ?F3.
    + rewrite !live_regs_eq. cbn [s_map s_fb mregs map fbregs app].
      destruct (s_fb s); cbn; rewrite !app_nil_r; reflexivity.
    + left. destruct (s_fb s); reflexivity.
    + destruct (s_fb s); intros r [].
    + left. destruct (s_fb s); reflexivity.
  - (* OArr *)
    destruct (a_keep a); [apply log_ok_nil|].
    destruct (fins_of_fins (s_map s)) as (F1 & F2 & F3). constructor; rewrite ?F1, ?F2, ?F3.
    + rewrite !live_regs_eq. cbn [s_with_map s_map s_fb mregs map app]. rewrite app_nil_r. apply Permutation_app_comm.
    + left. reflexivity.
    + intros r [].
    + left. reflexivity.
  - (* OAux *)
    pose proof (aux_spec_log x) as HL. destruct (aux_spec x) as [r lg]. cbn [snd] in HL.
    apply quiet_log_ok.
    assert (Q : regs_of lg = [] /\ fins_of lg = [] /\ calls_of lg = []).
    { clear -HL. induction lg as [|e lg IH]; [repeat split|].
      destruct (HL e (or_introl eq_refl)) as (c & z & ->).
      destruct IH as (I1 & I2 & I3); [intros e He; apply HL; right; exact He|].
      cbn [regs_of fins_of calls_of flat_map app]. repeat split; assumption. }
    destruct Q as (Q1 & Q2 & Q3). repeat split; try assumption. rewrite Q3. intros r0 [].
Qed.

(* ---------------------------------------------------------------- the model step *)
Lemma live_regs_seqv s1 s2 : seqv s1 s2 -> Permutation (live_regs s1) (live_regs s2).
Proof.
  intros (P & F & _). rewrite !live_regs_eq, F. apply Permutation_app_tail.
  unfold mregs. apply Permutation_map. exact P.
Qed.

Lemma dstep_log d o :
  let '(d', _, lg) := dstep d o in
  log_ok (live_regs (abs d)) (live_regs (abs d')) (d_next d) lg /\ d_next d' = (d_next d + 1)%N.
Proof.
  destruct (dstep0_abs d o) as (d1 & out & lg & E & H).
  unfold dstep. rewrite E. unfold step_ok in H.
  pose proof (sstep0_log (abs d) o (advice d o)) as L.
  destruct (sstep0 (abs d) o (advice d o)) as [[s' so] slg] eqn:Hs0.
  destruct H as (Q & _ & P & _).
  assert (Hn : d_next d1 = d_next d).
  { destruct Q as (_ & _ & _ & _ & Qn). cbn [abs s_next] in Qn.
    pose proof (sstep0_next (abs d) o (advice d o)) as Sn. rewrite Hs0 in Sn. cbn [fst abs s_next] in Sn.
    congruence. }
  split.
  - destruct L as [B Rg C X].
    pose proof (live_regs_seqv _ _ Q) as PL. cbn [abs tick] in *.
    assert (PL' : Permutation (live_regs (abs (tick d1))) (live_regs s')) by exact PL.
    constructor.
    + rewrite (regs_perm _ _ P), (fins_of_perm _ _ P), PL'. exact B.
    + destruct Rg as [Rg|Rg]; [left|right].
      * apply Permutation_nil. rewrite <- Rg. symmetry. apply regs_perm. exact P.
      * apply Permutation_length_1_inv. change [d_next d] with [s_next (abs d)]. rewrite <- Rg. symmetry. apply regs_perm. exact P.
    + intros r Hr. apply C. eapply Permutation_in; [apply calls_perm; exact P|exact Hr].
    + destruct X as [X|[X1 X2]]; [left|right; split].
      * apply Permutation_nil. rewrite <- X. symmetry. apply calls_perm. exact P.
      * apply Permutation_nil. rewrite <- X1. symmetry. apply regs_perm. exact P.
      * apply Permutation_nil. rewrite <- X2. symmetry. apply fins_of_perm. exact P.
  - cbn [tick d_next]. rewrite Hn. reflexivity.
Qed.
